"""Exact (fractions.Fraction) integrals of polynomials over straight-sided (affine) elements.

poly: dict {(a, b, c): Fraction} in the physical coordinates x, y, z.
An element is given by the exact coordinates (Fractions) of its nodes in gmsh order; the geometry is
the affine image of the reference element spanned by its corner nodes (checked by the caller through
`is_affine`)."""
from fractions import Fraction as F
from math import factorial

# corner nodes spanning the affine map: origin, then one node per reference direction
SPAN = {"SEG": (0, [1]), "TRI": (0, [1, 2]), "QUAD": (0, [1, 3]), "TETRA": (0, [1, 2, 3]),
        "HEXA": (0, [1, 3, 4]), "PRISM": (0, [1, 2, 3])}


def family(elemType):
    for k in SPAN:
        if elemType.startswith(k):
            return k
    raise KeyError(elemType)


def pmul(p, q):
    r = {}
    for ea, ca in p.items():
        for eb, cb in q.items():
            e = tuple(x + y for x, y in zip(ea, eb))
            r[e] = r.get(e, 0) + ca * cb
    return r


def ppow(p, n, m):
    r = {tuple([0] * m): F(1)}
    for _ in range(n):
        r = pmul(r, p)
    return r


def compose(poly, origin, vecs):
    """poly(x,y,z) with (x,y,z) = origin + sum_k xi_k vecs[k]  ->  polynomial in xi (dict)."""
    m = len(vecs)
    forms = []
    for a in range(3):
        f = {}
        if origin[a] != 0:
            f[tuple([0] * m)] = origin[a]
        for k in range(m):
            if vecs[k][a] != 0:
                e = [0] * m
                e[k] = 1
                f[tuple(e)] = vecs[k][a]
        forms.append(f)
    res = {}
    for (a, b, c), coef in poly.items():
        t = {tuple([0] * m): F(coef)}
        for form, n in zip(forms, (a, b, c)):
            if n:
                t = pmul(t, ppow(form, n, m))
        for e, v in t.items():
            res[e] = res.get(e, 0) + v
    return res


def ref_monomial(fam, e):
    if fam == "SEG":
        return F(1, e[0] + 1)
    if fam == "TRI":
        return F(factorial(e[0]) * factorial(e[1]), factorial(e[0] + e[1] + 2))
    if fam == "QUAD":
        return F(1, (e[0] + 1) * (e[1] + 1))
    if fam == "TETRA":
        return F(factorial(e[0]) * factorial(e[1]) * factorial(e[2]), factorial(e[0] + e[1] + e[2] + 3))
    if fam == "HEXA":
        return F(1, (e[0] + 1) * (e[1] + 1) * (e[2] + 1))
    if fam == "PRISM":
        return F(factorial(e[0]) * factorial(e[1]), factorial(e[0] + e[1] + 2)) * F(1, e[2] + 1)
    raise KeyError(fam)


def det(rows):
    n = len(rows)
    if n == 1:
        return rows[0][0]
    if n == 2:
        return rows[0][0] * rows[1][1] - rows[0][1] * rows[1][0]
    return (rows[0][0] * (rows[1][1] * rows[2][2] - rows[1][2] * rows[2][1])
            - rows[0][1] * (rows[1][0] * rows[2][2] - rows[1][2] * rows[2][0])
            + rows[0][2] * (rows[1][0] * rows[2][1] - rows[1][1] * rows[2][0]))


def geometry(elemType, X):
    """-> (family, origin, vecs, measure factor, axes kept) ; X = list of node coords (Fractions).
    For elements of dimension < 3 the element must lie in an axis-aligned line/plane: the
    constant coordinates are dropped to get a rational measure."""
    fam = family(elemType)
    o, idx = SPAN[fam]
    origin = X[o]
    vecs = [[X[i][a] - origin[a] for a in range(3)] for i in idx]
    m = len(vecs)
    varying = [a for a in range(3) if any(v[a] != 0 for v in vecs)]
    if len(varying) != m and m == 1:
        # inclined straight segment: the length is the (correctly rounded) square root of a rational
        import math
        L2 = sum(v * v for v in vecs[0])
        return fam, origin, vecs, F(math.sqrt(L2))
    if len(varying) != m:
        raise ValueError("element %s is not in an axis-aligned %d-plane (varying axes %s)" % (elemType, m, varying))
    J = abs(det([[v[a] for a in varying] for v in vecs]))
    return fam, origin, vecs, J


def integral(poly, elemType, X):
    fam, origin, vecs, J = geometry(elemType, X)
    q = compose(poly, origin, vecs)
    return J * sum(c * ref_monomial(fam, e) for e, c in q.items())


def measure(elemType, X):
    return integral({(0, 0, 0): F(1)}, elemType, X)


def times_coord(poly, axis, shift):
    """(x_axis - shift) * poly"""
    r = {}
    for e, c in poly.items():
        e2 = list(e)
        e2[axis] += 1
        r[tuple(e2)] = r.get(tuple(e2), 0) + c
        if shift != 0:
            r[e] = r.get(e, 0) - shift * c
    return r
