"""Shared driver machinery for the /verif checks (run under /venv/bin/python).

A property module props/Cxx.py defines `run(ctx)`.  It uses:
  ctx.repo                      path of the EasyFEA tree to check (VERIF_REPO or /repo)
  ctx.tier, ctx.seed, ctx.rng   'quick'|'thorough', int, random.Random(seed)
  ctx.build                     scratch dir /verif/build/Cxx (wiped at start of the run)
  ctx.coq(files, ...)           compile .v files (in ctx.build) in order -> CoqResult
  ctx.obligation(name, ok, ..)  record one proof obligation (theorem / generated lemma)
  ctx.violation(key, what, replay, found_input=True)
  ctx.cov                       dict merged into evidence.coverage
  ctx.note_case(case, nontrivial_key) count a correspondence case
"""
import fcntl
import hashlib
import json
import os
import random
import re
import shutil
import subprocess
import sys
import time

VERIF = os.path.dirname(os.path.dirname(os.path.abspath(__file__)))
COQ = os.path.join(VERIF, "coq")
LIB = os.path.join(COQ, "lib")
MODEL = os.path.join(COQ, "model")
PY = "/venv/bin/python"
KNOWN = os.path.join(VERIF, "known_findings.txt")

COQ_Q = ["-Q", LIB, "EFLib", "-Q", MODEL, "EFModel"]


def repo_path():
    return os.environ.get("VERIF_REPO", "/repo")


def sh(cmd, timeout=600, cwd=None, env=None, input=None):
    e = dict(os.environ)
    e["PYTHONHASHSEED"] = "0"
    if env:
        e.update(env)
    try:
        p = subprocess.run(cmd, cwd=cwd, env=e, input=input, capture_output=True,
                           text=True, timeout=timeout)
        return p.returncode, p.stdout, p.stderr
    except subprocess.TimeoutExpired as ex:
        out = ex.stdout.decode() if isinstance(ex.stdout, bytes) else (ex.stdout or "")
        err = ex.stderr.decode() if isinstance(ex.stderr, bytes) else (ex.stderr or "")
        return 124, out, err + "\nTIMEOUT after %ss" % timeout


def build_static(timeout=1500):
    """(Re)build coq/lib and coq/model in place with a full .vo make, under a file lock.
    Returns (ok, log)."""
    os.makedirs(os.path.join(VERIF, "build"), exist_ok=True)
    lock = open(os.path.join(VERIF, "build", ".static.lock"), "w")
    fcntl.flock(lock, fcntl.LOCK_EX)
    try:
        vs = []
        for d, name in ((LIB, "lib"), (MODEL, "model")):
            for f in sorted(os.listdir(d)):
                if f.endswith(".v"):
                    vs.append("%s/%s" % (name, f))
        proj = "-Q lib EFLib\n-Q model EFModel\n" + "\n".join(vs) + "\n"
        pj = os.path.join(COQ, "_CoqProject")
        if not os.path.exists(pj) or open(pj).read() != proj:
            open(pj, "w").write(proj)
        rc, out, err = sh(["coq_makefile", "-f", "_CoqProject", "-o", "Makefile.static"], cwd=COQ, timeout=60)
        if rc != 0:
            return False, out + err
        rc, out, err = sh(["make", "-f", "Makefile.static", "-j12"], cwd=COQ, timeout=timeout)
        return rc == 0, out + err
    finally:
        fcntl.flock(lock, fcntl.LOCK_UN)
        lock.close()


class CoqResult:
    def __init__(self):
        self.ok = True
        self.files = []          # (file, rc, secs)
        self.failed_file = None
        self.log = ""
        self.assumptions = {}    # theorem -> [axiom names] ([] = closed)
        self.printed = []        # lines printed by Eval/Compute in order (raw log kept in .log)
        self.theorems = 0


_THM_RE = re.compile(r"^\s*(?:Local\s+|Global\s+)?(Theorem|Lemma|Corollary|Example|Proposition|Fact|Remark)\s+([A-Za-z0-9_']+)", re.M)
_FORBID = re.compile(r"\b(Admitted|admit|Axiom|Axioms|Parameter|Parameters|Conjecture|Conjectures|Admit Obligations|bypass_check)\b|Unset\s+Guard|Unset\s+Positivity|Unset\s+Universe|type-in-type")


def count_theorems(path):
    try:
        txt = strip_comments(open(path).read())
    except OSError:
        return 0
    return len(_THM_RE.findall(txt))


def strip_comments(txt):
    out = []
    depth = 0
    i = 0
    n = len(txt)
    while i < n:
        if txt.startswith("(*", i):
            depth += 1
            i += 2
        elif txt.startswith("*)", i) and depth > 0:
            depth -= 1
            i += 2
        else:
            if depth == 0:
                out.append(txt[i])
            i += 1
    return "".join(out)


def forbidden_in(path):
    txt = strip_comments(open(path).read())
    # string literals are irrelevant to these keywords in our files
    return sorted(set(m.group(0) for m in _FORBID.finditer(txt)))


def parse_assumptions(log):
    """Parse `Print Assumptions` output: 'Closed under the global context' or 'Axioms:'
    followed by one unindented line per axiom name (type on indented continuation lines)."""
    res = []
    cur = None
    for line in log.splitlines():
        if line.startswith("Closed under the global context"):
            res.append([])
            cur = None
        elif line.startswith("Axioms:"):
            cur = []
            res.append(cur)
        elif cur is not None:
            m = re.match(r"^([A-Za-z_][A-Za-z0-9_.']*)\s*(:.*)?$", line)
            if m:
                cur.append(m.group(1))
            elif line.startswith(" ") or line.strip() == "":
                continue
            else:
                cur = None
    return res


class Ctx:
    def __init__(self, pid, tier, seed):
        self.pid = pid
        self.tier = tier
        self.seed = seed
        self.rng = random.Random(seed)
        self.repo = repo_path()
        self.build = os.path.join(VERIF, "build", pid)
        self.t0 = time.time()
        self.obligs = []        # dict(name, ok, detail)
        self.violations = []    # dict(key, what, replay, found_input)
        self.cov = {}
        self.samples = []
        self.assumptions = []   # strings for evidence.assumptions
        self.trusted = set()
        self.checker_cmds = []
        self.cases = 0
        self.nontrivial = set()
        self.traces = 0
        self.logs = []

    # ---- setup -----------------------------------------------------------
    def fresh_build_dir(self):
        shutil.rmtree(self.build, ignore_errors=True)
        os.makedirs(self.build, exist_ok=True)
        import glob
        for f in glob.glob(os.path.join(VERIF, "replays", self.pid + "-*.json")):
            try:
                os.remove(f)
            except OSError:
                pass

    def log(self, *a):
        msg = " ".join(str(x) for x in a)
        print("[%s %6.1fs] %s" % (self.pid, time.time() - self.t0, msg), flush=True)

    # ---- python in the implementation's environment ------------------------
    def impl_python(self, script, args=(), timeout=900, input=None, extra_env=None):
        """Run a python script (path) with EasyFEA importable from ctx.repo."""
        env = {"PYTHONPATH": self.repo + os.pathsep + VERIF, "PYTHONHASHSEED": "0",
               "VERIF_REPO": self.repo, "VERIF_SEED": str(self.seed), "VERIF_TIER": self.tier,
               "MPLBACKEND": "Agg", "OMP_NUM_THREADS": "1", "OPENBLAS_NUM_THREADS": "1"}
        if extra_env:
            env.update(extra_env)
        return sh([PY, script] + list(args), timeout=timeout, env=env, input=input, cwd=self.build)

    # ---- coq ----------------------------------------------------------------
    def ensure_static(self):
        ok, log = build_static()
        if not ok:
            self.logs.append(log[-4000:])
        return ok, log

    def copy_props(self, *names):
        """Copy static files coq/props/<name> into the build dir; return their basenames."""
        outs = []
        for n in names:
            src = os.path.join(COQ, "props", n)
            dst = os.path.join(self.build, os.path.basename(n))
            shutil.copyfile(src, dst)
            outs.append(os.path.basename(n))
        return outs

    def coq(self, files, timeout=600, count=True, logical="EFP"):
        """Compile `files` (basenames in ctx.build) in the given order, each under `timeout`.
        Stops at the first failure.  Counts theorem statements of files that compiled as
        discharged obligations when count=True."""
        res = CoqResult()
        for f in files:
            path = os.path.join(self.build, f)
            bad = forbidden_in(path)
            if bad:
                res.ok = False
                res.failed_file = f
                res.log += "FORBIDDEN construct(s) %s in %s\n" % (bad, f)
                break
            t = time.time()
            cmd = ["coqc"] + COQ_Q + ["-Q", self.build, logical, f]
            rc, out, err = sh(cmd, cwd=self.build, timeout=timeout)
            dt = time.time() - t
            res.files.append((f, rc, round(dt, 2)))
            res.log += "### %s rc=%d %.1fs\n%s%s\n" % (f, rc, dt, out, err)
            nthm = count_theorems(path)
            if rc != 0:
                res.ok = False
                res.failed_file = f
                if count:
                    self.obligation("coqc:" + f, False, (out + err)[-1500:], n=max(nthm, 1))
                break
            if count:
                self.obligation("coqc:" + f, True, "%d theorem statements, %.1fs" % (nthm, dt), n=max(nthm, 1))
            res.theorems += nthm
            for ax in parse_assumptions(out):
                for a in ax:
                    self.trusted.add("axiom (Print Assumptions): " + a)
        self.checker_cmds.append("coqc -Q coq/lib EFLib -Q coq/model EFModel -Q build/%s %s %s" % (self.pid, logical, " ".join(files)))
        return res

    def coqchk(self, modules, timeout=1200, logical="EFP"):
        """Independent re-check (coqchk -o) of compiled modules of the build dir, e.g.
        ["C06_lagrange"]; records the axioms coqchk reports.  Thorough tier only (minutes)."""
        cmd = ["coqchk", "-o", "-silent"] + COQ_Q + ["-Q", self.build, logical] + ["%s.%s" % (logical, m) for m in modules]
        t = time.time()
        rc, out, err = sh(cmd, cwd=self.build, timeout=timeout)
        txt = out + err
        self.obligation("coqchk:" + ",".join(modules), rc == 0, txt[-800:] if rc else "%.0fs" % (time.time() - t))
        grab = False
        for line in txt.splitlines():
            if line.strip().startswith("* Axioms:"):
                grab = True
                continue
            if grab:
                if line.startswith("    "):
                    self.trusted.add("axiom (coqchk -o): " + line.strip())
                elif line.strip().startswith("*"):
                    grab = False
        self.checker_cmds.append("coqchk -o " + " ".join(modules))
        return rc == 0, txt

    def coq_eval(self, fname, body, timeout=600):
        """Write build/<fname> with `body`, compile it, return (rc, stdout+stderr)."""
        path = os.path.join(self.build, fname)
        open(path, "w").write(body)
        cmd = ["coqc"] + COQ_Q + ["-Q", self.build, "EFP", fname]
        rc, out, err = sh(cmd, cwd=self.build, timeout=timeout)
        return rc, out + err

    # ---- bookkeeping ----------------------------------------------------------
    def obligation(self, name, ok, detail="", n=1):
        self.obligs.append({"name": name, "ok": bool(ok), "detail": detail, "n": n})

    def note_case(self, nontrivial_key=None, traces=1):
        self.cases += 1
        self.traces += traces
        if nontrivial_key is not None:
            self.nontrivial.add(nontrivial_key if isinstance(nontrivial_key, str) else json.dumps(nontrivial_key, sort_keys=True, default=str))

    def sample(self, s, cap=8):
        if len(self.samples) < cap:
            self.samples.append(s)

    def violation(self, key, what, replay, found_input=True):
        self.violations.append({"key": key, "what": what, "replay": replay, "found_input": found_input})

    # ---- finish -----------------------------------------------------------------
    def finish(self, level="proof"):
        known = load_known()
        os.makedirs(os.path.join(VERIF, "replays"), exist_ok=True)
        nviol = 0
        lines = []
        seen = set()
        for v in self.violations:
            if v["key"] in seen:
                continue
            seen.add(v["key"])
            kf = known.get((self.pid, v["key"]))
            if kf is not None:
                lines.append("KNOWN-FINDING: property=%s key=%s %s" % (self.pid, v["key"], v["what"]))
                continue
            nviol += 1
            h = hashlib.sha1((self.pid + v["key"]).encode()).hexdigest()[:10]
            rp = os.path.join(VERIF, "replays", "%s-%s.json" % (self.pid, h))
            rec = {"property": self.pid, "key": v["key"], "what": v["what"], "seed": self.seed,
                   "found_failing_input": v["found_input"],
                   "how_to_run": "./check %s --replay %s" % (self.pid, rp)}
            rec.update(v["replay"] or {})
            json.dump(rec, open(rp, "w"), indent=1, default=str)
            tail = "" if v["found_input"] else " no-failing-input-found"
            lines.append("VIOLATION property=%s replay=%s%s" % (self.pid, rp, tail))
        failed = [o for o in self.obligs if not o["ok"]]
        kf_obl = []
        if nviol == 0 and failed and any(l.startswith("KNOWN-FINDING") for l in lines):
            # every failing obligation is accounted for by a listed known finding (no unlisted
            # violation was raised): report them separately from the obligations of this run
            kf_obl = failed
            self.obligs = [o for o in self.obligs if o["ok"]]
        nobl = sum(o["n"] for o in self.obligs)
        ndis = sum(o["n"] for o in self.obligs if o["ok"])
        cov = {
            "obligations": nobl, "discharged": ndis,
            "checker_cmd": " ; ".join(self.checker_cmds) or "none",
            "trusted_base": ["Coq 8.16.1 kernel and bytecode VM (vm_compute); no native_compute",
                             "translators / correspondence harness under /verif (python)"] + sorted(self.trusted),
            "traces_validated_against_impl": self.traces,
            "evaluations": self.cases,
            "distinct_nontrivial": len(self.nontrivial),
            "samples": self.samples or [o for o in self.obligs[:3]],
            "failed_obligations": [o for o in self.obligs if not o["ok"]][:20],
        }
        if kf_obl:
            cov["obligations_failing_for_known_findings"] = [{"name": o["name"], "detail": o["detail"][:300]} for o in kf_obl]
        cov.update(self.cov)
        ev = {"property_id": self.pid, "tier": self.tier, "seed": self.seed, "level": level,
              "coverage": cov, "assumptions": self.assumptions,
              "wall_s": round(time.time() - self.t0, 2), "violations": nviol,
              "known_findings_reported": [l for l in lines if l.startswith("KNOWN")],
              "repo": self.repo}
        # the committed evidence is always about /repo itself; runs against another checkout
        # (VERIF_REPO=<scratch worktree>, seeded changes) write to build/evidence_alt instead
        evdir = os.path.join(VERIF, "evidence") if os.path.realpath(self.repo) == "/repo" else os.path.join(VERIF, "build", "evidence_alt")
        os.makedirs(evdir, exist_ok=True)
        json.dump(ev, open(os.path.join(evdir, self.pid + ".json"), "w"), indent=1, default=str)
        for l in lines:
            print(l, flush=True)
        self.log("obligations %d discharged %d, cases %d (nontrivial %d), violations %d, %.1fs"
                 % (nobl, ndis, self.cases, len(self.nontrivial), nviol, time.time() - self.t0))
        return 1 if nviol else 0


def load_known():
    """known_findings.txt lines:
         finding: property=Cxx key=<key> <free text>
         fixed: property=Cxx <commit> <free text>      (suppresses nothing)
    """
    res = {}
    if os.path.exists(KNOWN):
        for line in open(KNOWN):
            line = line.strip()
            m = re.match(r"^finding:\s+property=(C\d+)\s+key=(\S+)\s*(.*)$", line)
            if m:
                res[(m.group(1), m.group(2))] = m.group(3)
    return res


def frac_to_coq(fr):
    """fractions.Fraction -> Coq Q literal text (n#d)."""
    n, d = fr.numerator, fr.denominator
    if n < 0:
        return "((-%d)#%d)" % (-n, d)
    return "(%d#%d)" % (n, d)
