(* C20 — scatter lemma: what row-completeness buys.  For ARBITRARY element contributions
   (val x n = what element x adds to the row of node n; for a matrix fix the column, for the
   energy take val x n = sum_m Ke[n,m] u_m), the system assembled on a part equals the global
   one on the rows the part owns, and owned-row energies summed over the parts give the global
   energy. *)
From Coq Require Import List Arith Bool PeanoNat Lia Permutation Reals Lra.
From EFModel Require Import C20_Partition C20_Partition_proofs.
Import ListNotations.
Open Scope R_scope.

Definition Rsum (l : list R) : R := fold_right Rplus 0 l.
Definition sum_over {A} (f : A -> R) (l : list A) : R := Rsum (map f l).

Lemma sum_over_app {A} (f : A -> R) l1 l2 : sum_over f (l1 ++ l2) = sum_over f l1 + sum_over f l2.
Proof. unfold sum_over. induction l1; simpl; [lra|]. rewrite IHl1. lra. Qed.

Lemma sum_over_perm {A} (f : A -> R) l1 l2 : Permutation l1 l2 -> sum_over f l1 = sum_over f l2.
Proof. unfold sum_over. induction 1; simpl; try lra. Qed.

Lemma sum_over_ext {A} (f g : A -> R) l : (forall x, In x l -> f x = g x) -> sum_over f l = sum_over g l.
Proof.
  unfold sum_over. induction l; simpl; intros H; auto.
  rewrite IHl, (H a); auto.
Qed.

Lemma sum_over_filter {A} (f : A -> R) (p : A -> bool) l :
  (forall x, In x l -> p x = false -> f x = 0) -> sum_over f (filter p l) = sum_over f l.
Proof.
  unfold sum_over. induction l as [|a l IH]; simpl; intros H; auto.
  destruct (p a) eqn:E; simpl; rewrite IH; auto.
  rewrite (H a); auto. lra.
Qed.

Lemma sum_over_flat_map {A B} (f : B -> R) (g : A -> list B) l :
  sum_over f (flat_map g l) = sum_over (fun a => sum_over f (g a)) l.
Proof.
  induction l; simpl; auto. rewrite sum_over_app, IHl. reflexivity.
Qed.

Lemma nodup_app {A} (l1 l2 : list A) :
  NoDup l1 -> NoDup l2 -> (forall x, In x l1 -> ~ In x l2) -> NoDup (l1 ++ l2).
Proof.
  induction l1 as [|a l1 IH]; simpl; intros H1 H2 H; auto.
  inversion H1; subst. constructor.
  - intro Hin. apply in_app_or in Hin. destruct Hin; auto. apply (H a); auto.
  - apply IH; auto.
Qed.

Lemma nodup_flat_map (owned : nat -> list nat) rs :
  NoDup rs -> (forall r, In r rs -> NoDup (owned r)) ->
  (forall r s n, In r rs -> In s rs -> In n (owned r) -> In n (owned s) -> r = s) ->
  NoDup (flat_map owned rs).
Proof.
  induction rs as [|r rs IH]; simpl; intros Hn Ho Hd. constructor.
  inversion Hn; subst. apply nodup_app.
  - apply Ho. now left.
  - apply IH; auto.
    intros a b n Ha Hb. apply Hd; now right.
  - intros n G1 G2. apply in_flat_map in G2. destruct G2 as [s [Hs Hns]].
    assert (r = s).
    { apply (Hd r s n); auto. }
    subst. auto.
Qed.

Section Scatter.
  Variable Nproc : nat.
  Variable val : ielem -> nat -> R.
  Hypothesis val_local : forall x n, ~ In n (enodes x) -> val x n = 0.

  (* row n of the system assembled over the element rows `rows` *)
  Definition assemble (rows : list ielem) (n : nat) : R := sum_over (fun x => val x n) rows.
  (* the rows a part holds: connect[all_idx] *)
  Definition rows_of_part (o : out) (ig : list ielem) : list ielem :=
    filter (fun x => mem (eid x) (o_global o)) ig.

  Lemma assemble_part_eq ig o n :
    (forall x, In x ig -> In n (enodes x) -> In (eid x) (o_global o)) ->
    assemble (rows_of_part o ig) n = assemble ig n.
  Proof.
    intros H. unfold assemble, rows_of_part. apply sum_over_filter.
    intros x Hx Hm. apply val_local. intro Hn. apply mem_false in Hm. apply Hm. auto.
  Qed.

  (* as written, single main-dimension group *)
  Theorem part_rows_equal_global_A (pre : list group) (g : group) (post : list group) r n :
    fst g = true ->
    Forall (fun h : group => fst h = false) pre -> Forall (fun h : group => fst h = false) post ->
    (forall x, In x (index (snd g)) -> (erank x < Nproc)%nat) ->
    Owned Nproc false (pre ++ g :: post) r n ->
    let ig := index (snd g) in
    assemble (rows_of_part (part_out Nproc false (st_before Nproc pre ig r) ig r) ig) n = assemble ig n.
  Proof.
    intros Hg Fp Fq Hv Ho ig. apply assemble_part_eq. intros x Hx Hn.
    eapply row_complete_single_A; eauto.
  Qed.

  (* proposed fix, every mesh, every group (main dimension or boundary) *)
  Theorem part_rows_equal_global_B (pre : list group) (g : group) (post : list group) r n :
    (r < Nproc)%nat ->
    (forall x, In x (index (snd g)) -> (erank x < Nproc)%nat) ->
    Owned Nproc true (pre ++ g :: post) r n ->
    let ig := index (snd g) in
    assemble (rows_of_part (part_out Nproc true (st_before Nproc pre ig r) ig r) ig) n = assemble ig n.
  Proof.
    intros Hr Hv Ho ig. apply assemble_part_eq. intros x Hx Hn.
    eapply row_complete_B; eauto.
  Qed.

  (* sums over owned nodes, rank by rank = sum over all nodes *)
  Lemma sum_partition (f : nat -> R) (owned : nat -> list nat) (all : list nat) :
    NoDup all -> (forall r, (r < Nproc)%nat -> NoDup (owned r)) ->
    (forall r s n, (r < Nproc)%nat -> (s < Nproc)%nat -> In n (owned r) -> In n (owned s) -> r = s) ->
    (forall n, In n all <-> exists r, (r < Nproc)%nat /\ In n (owned r)) ->
    sum_over (fun r => sum_over f (owned r)) (seq 0 Nproc) = sum_over f all.
  Proof.
    intros Ha Ho Hd Hu. rewrite <- sum_over_flat_map. apply sum_over_perm.
    apply NoDup_Permutation; auto.
    - apply nodup_flat_map. apply seq_NoDup.
      + intros r Hr. apply in_seq in Hr. apply Ho. lia.
      + intros r s n Hr Hs. apply in_seq in Hr, Hs. apply Hd; lia.
    - intros n. rewrite in_flat_map, Hu. split; intros [r [H1 H2]]; exists r; split; auto.
      + apply in_seq in H1. lia.
      + apply in_seq. lia.
  Qed.

  (* owned-row energies (Calc_Energy: 1/2 x[dofs] . (A[dofs] x)) summed over the parts *)
  Theorem energy_sum (u A : nat -> R) (Ar : nat -> nat -> R) (owned : nat -> list nat) (all : list nat) :
    NoDup all -> (forall r, (r < Nproc)%nat -> NoDup (owned r)) ->
    (forall r s n, (r < Nproc)%nat -> (s < Nproc)%nat -> In n (owned r) -> In n (owned s) -> r = s) ->
    (forall n, In n all <-> exists r, (r < Nproc)%nat /\ In n (owned r)) ->
    (forall r n, (r < Nproc)%nat -> In n (owned r) -> Ar r n = A n) ->
    sum_over (fun r => sum_over (fun n => u n * Ar r n) (owned r)) (seq 0 Nproc)
    = sum_over (fun n => u n * A n) all.
  Proof.
    intros Ha Ho Hd Hu Hrow.
    rewrite <- (sum_partition (fun n => u n * A n) owned all Ha Ho Hd Hu).
    apply sum_over_ext. intros r Hr. apply in_seq in Hr.
    apply sum_over_ext. intros n Hn. rewrite Hrow; auto. lia.
  Qed.

  (* the instance for the code as written on a mesh with one main-dimension group *)
  Theorem energy_single_A (u : nat -> R) (pre : list group) (g : group) (post : list group) :
    fst g = true ->
    Forall (fun h : group => fst h = false) pre -> Forall (fun h : group => fst h = false) post ->
    boundary_ok Nproc (pre ++ g :: post) ->
    (forall x, In x (index (snd g)) -> (erank x < Nproc)%nat) ->
    let ig := index (snd g) in
    let P := fun r => part_out Nproc false (st_before Nproc pre ig r) ig r in
    sum_over (fun r => sum_over (fun n => u n * assemble (rows_of_part (P r) ig) n) (o_nodes (P r)))
             (seq 0 Nproc)
    = sum_over (fun n => u n * assemble ig n) (canon (nodes_of ig)).
  Proof.
    intros Hg Fp Fq HB Hv ig P.
    assert (OwnedP : forall r n, In n (o_nodes (P r)) <-> Owned Nproc false (pre ++ g :: post) r n).
    { intros r n. split.
      - intros H. exists pre, g, post. auto.
      - intros [pre' [g' [post' [E [Hg' Hn]]]]].
        destruct (single_main_split pre g post pre' g' post' E Hg Hg' Fp Fq) as [<- [<- <-]].
        exact Hn. }
    apply energy_sum.
    - apply ssorted_NoDup, canon_sorted.
    - intros r _. apply ssorted_NoDup. unfold P, part_out. cbv zeta. simpl. apply canon_sorted.
    - intros r s n Hr Hs H1 H2. apply OwnedP in H1, H2.
      eapply node_owner_unique; eauto.
    - intros n. rewrite canon_In. split.
      + intros Hn. apply in_nodes_of in Hn. destruct Hn as [x [Hx Hnx]].
        destruct (node_owner_exists_A Nproc (pre ++ g :: post) HB g x n) as [r [Hr Ho]]; auto.
        { apply in_or_app. right. now left. }
        exists r. split; auto. now apply OwnedP.
      + intros [r [Hr Hn]]. unfold P in Hn. apply o_nodes_A, claim_In in Hn.
        destruct Hn as [Hn _]. apply in_nodes_of in Hn. destruct Hn as [x [Hx Hnx]].
        apply in_own_of in Hx. apply in_nodes_of. exists x. tauto.
    - intros r n Hr Hn. apply OwnedP in Hn.
      apply (part_rows_equal_global_A pre g post r n); auto.
  Qed.
End Scatter.

(* non-vacuity: the hypotheses of energy_single_A hold on the SEG2+TRI3 example *)
Example energy_single_A_hyps :
  let gs := example_single in
  exists (pre : list group) (g : group) (post : list group),
    gs = pre ++ g :: post /\ fst g = true /\
    Forall (fun h : group => fst h = false) pre /\ Forall (fun h : group => fst h = false) post /\
    boundary_ok 2 gs /\ (forall x, In x (index (snd g)) -> (erank x < 2)%nat).
Proof.
  exists [(false, [([0;1], 0); ([1;2], 1)])]%nat, (true, [([0;1;3], 0); ([1;2;3], 1)])%nat, [].
  repeat split.
  - repeat constructor.
  - constructor.
  - apply boundary_ok_example.
  - intros x Hx. simpl in Hx. destruct Hx as [<-|[<-|[]]]; unfold erank; simpl; lia.
Qed.
