(* C03 -- the specification in its element-level form: with the flat data of a group being the C-order ravel of its
   LOGICAL (Ne, n, n) element array (any memory layout), the dense scatter-add of the model equals
       sum_e sum_i sum_j [asm_e[i] = r] [asm_e[j] = c] * Ke[e, i, j]
   i.e. "the sum of the element matrices placed at the rows and columns given by the connectivity". *)
From Coq Require Import ZArith List Bool Lia.
From EFModel Require Import C03_Csr C03_Assembly C03_Layout.
Import ListNotations.
Open Scope Z_scope.

Lemma list_as_seq {A} (l : list A) d : l = map (fun i => nth i l d) (seq 0 (length l)).
Proof.
  apply nth_ext with (d := d) (d' := d); [now rewrite map_length, seq_length|].
  intros k Hk. rewrite nth_indep with (d' := nth 0 l d) (l := map _ _) by (now rewrite map_length, seq_length).
  rewrite (map_nth (fun i => nth i l d)). now rewrite seq_nth.
Qed.

Lemma flat_map_map' {A B C} (g : A -> B) (f : B -> list C) l : flat_map f (map g l) = flat_map (fun x => f (g x)) l.
Proof. induction l; simpl; [reflexivity|]. now rewrite IHl. Qed.

Lemma combine_flat_map_in {A B C} (f : A -> list B) (h : A -> list C) l :
  (forall x, In x l -> length (f x) = length (h x)) ->
  combine (flat_map f l) (flat_map h l) = flat_map (fun x => combine (f x) (h x)) l.
Proof.
  induction l as [|a t IH]; intros H; simpl; [reflexivity|].
  rewrite combine_app by (apply H; now left). f_equal. apply IH. intros x Hx. apply H. now right.
Qed.

Lemma combine_map_same {A B C} (f : A -> B) (g : A -> C) l : combine (map f l) (map g l) = map (fun x => (f x, g x)) l.
Proof. induction l; simpl; [reflexivity|]. now rewrite IHl. Qed.

Lemma flat_map_ext_in2 {A B} (f g : A -> list B) l : (forall x, In x l -> f x = g x) -> flat_map f l = flat_map g l.
Proof. induction l; simpl; intros H; [reflexivity|]. rewrite H by (now left). f_equal. apply IHl. intros; apply H; now right. Qed.

Lemma list_prod_seq (a : list Z) :
  list_prod a a = flat_map (fun i => map (fun j => (nth i a 0, nth j a 0)) (seq 0 (length a))) (seq 0 (length a)).
Proof.
  assert (E : forall l l' : list Z, list_prod l l' = flat_map (fun x => map (fun y => (x, y)) l') l).
  { induction l; intros l'; simpl; [reflexivity|]. now rewrite IHl. }
  rewrite E.
  transitivity (flat_map (fun x => map (fun y => (x, y)) a) (map (fun i => nth i a 0) (seq 0 (length a)))).
  { f_equal. apply list_as_seq. }
  rewrite flat_map_map'. apply flat_map_ext_in2. intros i _.
  transitivity (map (fun y => (nth i a 0, y)) (map (fun j => nth j a 0) (seq 0 (length a)))).
  { f_equal. apply list_as_seq. }
  apply map_map.
Qed.

Section Mon.
Variable V : Type.
Variable vadd : V -> V -> V.
Variable vzero : V.
Hypothesis vadd_comm : forall a b, vadd a b = vadd b a.
Hypothesis vadd_assoc : forall a b c, vadd a (vadd b c) = vadd (vadd a b) c.
Hypothesis vadd_0_l : forall a, vadd vzero a = a.
Notation vsum := (vsum V vadd vzero).

Lemma vsum_flat_map {A B} (f : B -> V) (g : A -> list B) l :
  vsum (map f (flat_map g l)) = vsum (map (fun x => vsum (map f (g x))) l).
Proof.
  induction l; simpl; [reflexivity|]. rewrite map_app, (vsum_app V vadd vzero vadd_assoc vadd_0_l), IHl. reflexivity.
Qed.

(* element-level form of the specification *)
Definition element_sum (dof_n : Z) (g : group) (n : nat) (K : sarr V) (r c : Z) : V :=
  vsum (map (fun e =>
    let asm := assembly_e dof_n (nth e g []) in
    vsum (map (fun i => vsum (map (fun j =>
      if (nth i asm 0 =? r) && (nth j asm 0 =? c) then get V K e i j else vzero) (seq 0 n))) (seq 0 n)))
    (seq 0 (length g))).

Theorem dense_sum_is_sum_of_element_matrices dof_n (g : group) (n : nat) (K : sarr V) r c :
  (forall conn, In conn g -> length (assembly_e dof_n conn) = n) ->
  n0 V K = length g -> n1 V K = n -> n2 V K = n ->
  let rc := rows_cols dof_n true [g] in
  dense_sum V vadd vzero (fst rc) (snd rc) (ravelC V K) r c = element_sum dof_n g n K r c.
Proof.
  intros Hlen E0 E1 E2 rc. unfold dense_sum. subst rc. rewrite mat_keys_prod. simpl flat_map at 1. rewrite app_nil_r.
  (* keys and data as the same enumeration over (e, i, j) *)
  assert (Ek : flat_map (fun conn => list_prod (assembly_e dof_n conn) (assembly_e dof_n conn)) g
               = flat_map (fun e => flat_map (fun i => map (fun j =>
                    (nth i (assembly_e dof_n (nth e g [])) 0, nth j (assembly_e dof_n (nth e g [])) 0)) (seq 0 n)) (seq 0 n)) (seq 0 (length g))).
  { transitivity (flat_map (fun conn => list_prod (assembly_e dof_n conn) (assembly_e dof_n conn)) (map (fun e => nth e g []) (seq 0 (length g)))).
    { f_equal. apply list_as_seq. }
    rewrite flat_map_map'. apply flat_map_ext_in2. intros e He. apply in_seq in He.
    rewrite list_prod_seq, Hlen by (apply nth_In; lia). reflexivity. }
  rewrite Ek. unfold ravelC. rewrite E0, E1, E2.
  rewrite combine_flat_map_in.
  2:{ intros e _. rewrite !(flat_map_const_length _ n); [reflexivity| |]; intros; now rewrite map_length, seq_length. }
  rewrite vsum_flat_map. unfold element_sum. f_equal. apply map_ext. intros e.
  rewrite combine_flat_map_in by (intros; now rewrite !map_length).
  rewrite vsum_flat_map. f_equal. apply map_ext. intros i.
  rewrite combine_map_same, map_map. reflexivity.
Qed.

(* ---- several groups (the groups that contribute to a slot, i.e. after the None filtering) ------------------------ *)
Lemma dense_sum_app r1 c1 (d1 : list V) r2 c2 d2 r c :
  length r1 = length c1 -> length c1 = length d1 ->
  dense_sum V vadd vzero (r1 ++ r2) (c1 ++ c2) (d1 ++ d2) r c
  = vadd (dense_sum V vadd vzero r1 c1 d1 r c) (dense_sum V vadd vzero r2 c2 d2 r c).
Proof.
  intros H1 H2. unfold dense_sum.
  rewrite (combine_app r1 r2 c1 c2) by assumption.
  rewrite (combine_app (combine r1 c1) (combine r2 c2) d1 d2) by (rewrite combine_length; lia).
  now rewrite map_app, (vsum_app V vadd vzero vadd_assoc vadd_0_l).
Qed.

Lemma rows_cols_cons dof_n g gs :
  rows_cols dof_n true (g :: gs)
  = (fst (rows_cols dof_n true [g]) ++ fst (rows_cols dof_n true gs), snd (rows_cols dof_n true [g]) ++ snd (rows_cols dof_n true gs)).
Proof. simpl. now rewrite !app_nil_r. Qed.

Lemma rows_cols_single_lengths dof_n g n :
  (forall conn, In conn g -> length (assembly_e dof_n conn) = n) ->
  length (fst (rows_cols dof_n true [g])) = (length g * (n * n))%nat /\
  length (snd (rows_cols dof_n true [g])) = (length g * (n * n))%nat.
Proof.
  intros H. simpl. rewrite !app_nil_r. split.
  - induction g as [|c t IH]; simpl; [reflexivity|]. rewrite app_length, IH by (intros; apply H; now right).
    unfold rows_e. rewrite np_repeat_each_length, H by (now left). lia.
  - induction g as [|c t IH]; simpl; [reflexivity|]. rewrite app_length, IH by (intros; apply H; now right).
    unfold cols_e. rewrite np_tile_length, H by (now left). lia.
Qed.

(* one (group, block size, logical element array) triple per contributing group *)
Definition gspec := (group * nat * sarr V)%type.
Definition gs_ok (dof_n : Z) (t : gspec) : Prop :=
  let '(g, n, K) := t in
  (forall conn, In conn g -> length (assembly_e dof_n conn) = n) /\ n0 V K = length g /\ n1 V K = n /\ n2 V K = n.

Theorem dense_sum_is_sum_over_groups dof_n (ts : list gspec) r c :
  (forall t, In t ts -> gs_ok dof_n t) ->
  let rc := rows_cols dof_n true (map (fun t => fst (fst t)) ts) in
  dense_sum V vadd vzero (fst rc) (snd rc) (flat_map (fun t => ravelC V (snd t)) ts) r c
  = vsum (map (fun t => element_sum dof_n (fst (fst t)) (snd (fst t)) (snd t) r c) ts).
Proof.
  induction ts as [|[[g n] K] ts IH]; intros Hok.
  - reflexivity.
  - cbn [map flat_map fst snd]. rewrite rows_cols_cons. cbn [fst snd].
    destruct (Hok (g, n, K) (or_introl eq_refl)) as (Hlen & E0 & E1 & E2).
    destruct (rows_cols_single_lengths dof_n g n Hlen) as [L1 L2].
    rewrite dense_sum_app.
    + rewrite (dense_sum_is_sum_of_element_matrices dof_n g n K r c Hlen E0 E1 E2).
      cbn [vsum C03_Csr.vsum fold_right]. f_equal. apply IH. intros t Ht. apply Hok. now right.
    + transitivity (length g * (n * n))%nat; [exact L1|symmetry; exact L2].
    + transitivity (length g * (n * n))%nat; [exact L2|]. rewrite ravelC_length, E0, E1, E2. reflexivity.
Qed.
End Mon.
