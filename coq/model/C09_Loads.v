(* C09 — distributed loads: Gallina model of
     EasyFEA/FEM/_group_elem.py   Get_Elements_Nodes(nodes, exclusively)      (set algebra)
     EasyFEA/Simulations/_simu.py __Bc_Integration_Dim (two branches), __Bc_pointLoad,
                                  add_lineLoad/add_surfLoad/add_volumeLoad/add_pressureLoad dispatch
   and the theorems: resultant, moment, only loaded elements, point load total, thickness once.
   Shape values, weights*|J| and density values are arbitrary reals (every element type, every
   coordinates, every density); partition of unity is a HYPOTHESIS here, discharged for the real
   tables by C06_partition_of_unity (coq/props/C06/C06_lagrange.v: forall e in all_elems, forall
   point l, Rsum (map (Reval l) (eN e)) = 1).                                                  *)
From Coq Require Import List Arith Bool PeanoNat Lia Reals Lra Permutation.
Import ListNotations.

(* ====================================================================================== *)
(* A. elements that exclusively use the given nodes                                        *)
(* ====================================================================================== *)
Definition memn (n : nat) (l : list nat) : bool := existsb (Nat.eqb n) l.

Lemma memn_In n l : memn n l = true <-> In n l.
Proof.
  unfold memn. rewrite existsb_exists. split.
  - intros [x [Hx E]]. apply Nat.eqb_eq in E. now subst.
  - intros H. exists n. split; auto. apply Nat.eqb_refl.
Qed.

Section Select.
  Variable connect : list (list nat).
  Definition ielems : list (nat * list nat) := combine (seq 0 (length connect)) connect.
  Definition has_any (sel row : list nat) : bool := existsb (fun n => memn n sel) row.
  (* columns = connect_n_e[nodes].nonzero()[1]; elements = list(set(columns)) *)
  Definition touching (sel : list nat) := filter (fun x => has_any sel (snd x)) ielems.
  (* nodesElem = set(connect[elements].ravel()) *)
  Definition nodesElem (sel : list nat) : list nat := flat_map snd (touching sel).
  (* nodesIntru = nodesElem - set(nodes) *)
  Definition nodesIntru (sel : list nat) := filter (fun n => negb (memn n sel)) (nodesElem sel).
  (* elementsIntru = set(connect_n_e[nodesIntru].nonzero()[1]) *)
  Definition elementsIntru (sel : list nat) := filter (fun x => has_any (nodesIntru sel) (snd x)) ielems.
  (* elements = set(elements) - set(elementsIntru) *)
  Definition select_excl (sel : list nat) :=
    filter (fun x => negb (memn (fst x) (map fst (elementsIntru sel)))) (touching sel).
  Definition select (sel : list nat) (exclusively : bool) : list nat :=
    map fst (if exclusively then select_excl sel else touching sel).

  Lemma has_any_spec sel row : has_any sel row = true <-> exists n, In n row /\ In n sel.
  Proof.
    unfold has_any. rewrite existsb_exists.
    split; intros [n [A B]]; exists n; split; auto; now apply memn_In.
  Qed.

  Lemma map_fst_combine' {A B} (l1 : list A) : forall (l2 : list B),
    length l1 = length l2 -> map fst (combine l1 l2) = l1.
  Proof. induction l1; intros [|b l2] H; simpl in *; try discriminate; auto. f_equal. apply IHl1. lia. Qed.

  Lemma ielems_ids : map fst ielems = seq 0 (length connect).
  Proof. unfold ielems. apply map_fst_combine'. now rewrite seq_length. Qed.

  Lemma ielems_inj x y : In x ielems -> In y ielems -> fst x = fst y -> x = y.
  Proof.
    assert (G : forall (l : list (nat * list nat)), NoDup (map fst l) ->
                forall x y, In x l -> In y l -> fst x = fst y -> x = y).
    { induction l as [|a l IH]; simpl; intros H u v Hu Hv E. contradiction.
      inversion H as [|? ? Hn Hd]; subst.
      destruct Hu as [->|Hu], Hv as [->|Hv]; auto.
      - exfalso. apply Hn. rewrite E. now apply in_map.
      - exfalso. apply Hn. rewrite <- E. now apply in_map. }
    apply G. rewrite ielems_ids. apply seq_NoDup.
  Qed.

  (* THE selection: exactly the elements with a selected node all of whose nodes are selected *)
  Theorem select_excl_spec sel x :
    In x (select_excl sel) <->
    In x ielems /\ (exists n, In n (snd x) /\ In n sel) /\ (forall n, In n (snd x) -> In n sel).
  Proof.
    unfold select_excl, touching. rewrite !filter_In, negb_true_iff, has_any_spec. split.
    - intros [[Hx Hany] Hni]. repeat split; auto.
      intros n Hn. destruct (memn n sel) eqn:E; [now apply memn_In|]. exfalso.
      assert (Hin : In (fst x) (map fst (elementsIntru sel))).
      { apply in_map. unfold elementsIntru. apply filter_In. split; auto.
        apply has_any_spec. exists n. split; auto.
        unfold nodesIntru. apply filter_In. split; [|now rewrite E].
        unfold nodesElem. apply in_flat_map. exists x. split; auto.
        unfold touching. apply filter_In. split; auto. now apply has_any_spec. }
      apply memn_In in Hin. congruence.
    - intros [Hx [Hany Hall]]. repeat split; auto.
      destruct (memn (fst x) (map fst (elementsIntru sel))) eqn:E; auto. exfalso.
      apply memn_In, in_map_iff in E. destruct E as [y [Ey Hy]].
      unfold elementsIntru in Hy. apply filter_In in Hy. destruct Hy as [Hy Hi].
      assert (y = x) by (apply ielems_inj; auto). subst y.
      apply has_any_spec in Hi. destruct Hi as [n [Hn Hni]].
      unfold nodesIntru in Hni. apply filter_In in Hni. destruct Hni as [_ Hns].
      apply negb_true_iff in Hns. apply Hall, memn_In in Hn. congruence.
  Qed.

  Theorem select_nonexcl_spec sel x :
    In x (touching sel) <-> In x ielems /\ exists n, In n (snd x) /\ In n sel.
  Proof. unfold touching. now rewrite filter_In, has_any_spec. Qed.

  (* ---- the node selection is a SET: order and repetitions of the ids are irrelevant ---- *)
  Definition same_set (s1 s2 : list nat) : Prop := forall n, In n s1 <-> In n s2.

  Lemma memn_ext s1 s2 n : same_set s1 s2 -> memn n s1 = memn n s2.
  Proof.
    intros H. destruct (memn n s1) eqn:E1, (memn n s2) eqn:E2; auto.
    - apply memn_In, H, memn_In in E1. congruence.
    - apply memn_In, H, memn_In in E2. congruence.
  Qed.

  Lemma has_any_ext s1 s2 row : same_set s1 s2 -> has_any s1 row = has_any s2 row.
  Proof.
    intros H. unfold has_any. induction row as [|a row IH]; simpl; auto.
    now rewrite IH, (memn_ext s1 s2 a H).
  Qed.

  Lemma filter_ext' {A} (f g : A -> bool) l : (forall x, f x = g x) -> filter f l = filter g l.
  Proof. intros H. induction l; simpl; auto. now rewrite H, IHl. Qed.

  Lemma touching_ext s1 s2 : same_set s1 s2 -> touching s1 = touching s2.
  Proof. intros H. unfold touching. apply filter_ext'. intros x. now apply has_any_ext. Qed.

  Theorem select_excl_ext s1 s2 : same_set s1 s2 -> select_excl s1 = select_excl s2.
  Proof.
    intros H. unfold select_excl, elementsIntru, nodesIntru, nodesElem.
    rewrite (touching_ext s1 s2 H).
    assert (E : filter (fun n => negb (memn n s1)) (flat_map snd (touching s2)) =
                filter (fun n => negb (memn n s2)) (flat_map snd (touching s2))).
    { apply filter_ext'. intros n. now rewrite (memn_ext s1 s2 n H). }
    now rewrite E.
  Qed.

  Theorem select_ext s1 s2 b : same_set s1 s2 -> select s1 b = select s2 b.
  Proof.
    intros H. unfold select. destruct b.
    - now rewrite (select_excl_ext s1 s2 H).
    - now rewrite (touching_ext s1 s2 H).
  Qed.

  (* reordering the ids (np.concatenate in any order, shuffles) *)
  Corollary select_permutation s1 s2 b : Permutation s1 s2 -> select s1 b = select s2 b.
  Proof.
    intros P. apply select_ext. intros n. split; apply Permutation_in; auto. now apply Permutation_sym.
  Qed.

  (* repeating ids (np.concatenate([nodes_bottom, nodes_right]) sharing the corner node) *)
  Corollary select_duplicates s extra b : (forall n, In n extra -> In n s) ->
    select (s ++ extra) b = select s b.
  Proof.
    intros H. apply select_ext. intros n. rewrite in_app_iff. split; [intros [A|A]; auto|auto].
  Qed.
End Select.

(* ====================================================================================== *)
(* B. Gauss integration of load densities                                                  *)
(* ====================================================================================== *)
Open Scope R_scope.
Definition Rsum (l : list R) : R := fold_right Rplus 0 l.
Definition sumi (n : nat) (f : nat -> R) : R := Rsum (map f (seq 0 n)).
Definition nthR (i : nat) (l : list R) : R := nth i l 0.

(* one Gauss point of one loaded element: weight*|J|, value of the density evaluated there
   (callable / constant branch), row of shape-function values N_i(xi_p) *)
Record gpt := mk_gpt { wJ : R; fv : R; Nrow : list R }.
(* one loaded element: its nodes, its Gauss points, the nodal values (nodal-array branch) *)
Record lelem := mk_lelem { lnodes : list nat; lpts : list gpt; fnod : list R }.
Definition nPe (e : lelem) : nat := length (lnodes e).

(* sum_i vals_i N_i(xi_p) *)
Definition interp (vals : list R) (g : gpt) : R := sumi (length (Nrow g)) (fun i => nthR i vals * nthR i (Nrow g)).
(* coordinate of the Gauss point: x(xi_p) = sum_i N_i x_i  (Get_GaussCoordinates_e_pg) *)
Definition xgauss (x : nat -> R) (e : lelem) (g : gpt) : R :=
  sumi (nPe e) (fun i => x (nth i (lnodes e) 0%nat) * nthR i (Nrow g)).

(* callable/constant branch: sum_p einsum("ep,ep,pin->epn") *)
Definition F_call (e : lelem) (i : nat) : R :=
  Rsum (map (fun g => wJ g * fv g * nthR i (Nrow g)) (lpts e)).
(* nodal-array branch AS WRITTEN: sum_p einsum("ep,en,pin->epn") : value at node n times N_n *)
Definition F_nodal_written (e : lelem) (i : nat) : R :=
  Rsum (map (fun g => wJ g * nthR i (fnod e) * nthR i (Nrow g)) (lpts e)).
(* nodal array interpolated to the Gauss points (proposed fix; what _beam.py does) *)
Definition F_nodal_interp (e : lelem) (i : nat) : R :=
  Rsum (map (fun g => wJ g * interp (fnod e) g * nthR i (Nrow g)) (lpts e)).

(* (dof, value) pairs of a boundary condition and the vector Bc_vector_Neumann builds from them
   (scipy csr_matrix sums duplicates) *)
Definition contribs (F : lelem -> nat -> R) (es : list lelem) : list (nat * R) :=
  flat_map (fun e => map (fun i => (nth i (lnodes e) 0%nat, F e i)) (seq 0 (nPe e))) es.
Definition vec (cs : list (nat * R)) (n : nat) : R :=
  Rsum (map (fun c : nat * R => if Nat.eqb (fst c) n then snd c else 0) cs).
Definition total (cs : list (nat * R)) : R := Rsum (map snd cs).
Definition moment (x : nat -> R) (cs : list (nat * R)) : R := Rsum (map (fun c : nat * R => x (fst c) * snd c) cs).

Definition wf (e : lelem) : Prop := forall g, In g (lpts e) -> length (Nrow g) = nPe e.
Definition pou (e : lelem) : Prop := forall g, In g (lpts e) -> Rsum (Nrow g) = 1.

(* ---- finite sums ---- *)
Lemma Rsum_app l1 l2 : Rsum (l1 ++ l2) = Rsum l1 + Rsum l2.
Proof. induction l1; simpl; [lra|]. rewrite IHl1. lra. Qed.

Lemma Rsum_map_add {A} (f g : A -> R) l :
  Rsum (map (fun a => f a + g a) l) = Rsum (map f l) + Rsum (map g l).
Proof. induction l; simpl; [lra|]. rewrite IHl. lra. Qed.

Lemma Rsum_map_scal {A} c (f : A -> R) l : Rsum (map (fun a => c * f a) l) = c * Rsum (map f l).
Proof. induction l; simpl; [lra|]. rewrite IHl. lra. Qed.

Lemma Rsum_map_ext {A} (f g : A -> R) l : (forall a, In a l -> f a = g a) -> Rsum (map f l) = Rsum (map g l).
Proof. induction l; simpl; intros H; auto. rewrite IHl, (H a); auto. Qed.

Lemma Rsum_map_zero {A} (f : A -> R) l : (forall a, In a l -> f a = 0) -> Rsum (map f l) = 0.
Proof. induction l; simpl; intros H; auto. rewrite IHl, (H a); auto. lra. Qed.

Lemma Rsum_swap {A B} (g : A -> B -> R) la lb :
  Rsum (map (fun a => Rsum (map (fun b => g a b) lb)) la) =
  Rsum (map (fun b => Rsum (map (fun a => g a b) la)) lb).
Proof.
  induction la as [|a la IH]; simpl.
  - symmetry. apply Rsum_map_zero. auto.
  - rewrite IH. now rewrite <- Rsum_map_add.
Qed.

Lemma Rsum_flat_map {A} (f : A -> list R) l : Rsum (flat_map f l) = Rsum (map (fun a => Rsum (f a)) l).
Proof. induction l; simpl; auto. now rewrite Rsum_app, IHl. Qed.

Lemma map_nth_seq (l : list R) : map (fun i => nthR i l) (seq 0 (length l)) = l.
Proof.
  unfold nthR. induction l as [|a l IH]; simpl; auto. f_equal.
  rewrite <- seq_shift, map_map. exact IH.
Qed.

Lemma sumi_row (l : list R) : sumi (length l) (fun i => nthR i l) = Rsum l.
Proof. unfold sumi. now rewrite map_nth_seq. Qed.

(* ---- element level ---- *)
Lemma resultant_elem e : wf e -> pou e ->
  sumi (nPe e) (F_call e) = Rsum (map (fun g => wJ g * fv g) (lpts e)).
Proof.
  intros W P. unfold sumi, F_call. rewrite Rsum_swap. apply Rsum_map_ext. intros g Hg.
  rewrite (Rsum_map_scal (wJ g * fv g) (fun i => nthR i (Nrow g))).
  rewrite <- (W g Hg). fold (sumi (length (Nrow g)) (fun i => nthR i (Nrow g))).
  rewrite sumi_row, (P g Hg). lra.
Qed.

Lemma moment_elem (x : nat -> R) e :
  sumi (nPe e) (fun i => x (nth i (lnodes e) 0%nat) * F_call e i)
  = Rsum (map (fun g => wJ g * (xgauss x e g * fv g)) (lpts e)).
Proof.
  unfold sumi, F_call, xgauss, sumi.
  rewrite (Rsum_map_ext _ (fun i => Rsum (map (fun g => x (nth i (lnodes e) 0%nat) * (wJ g * fv g * nthR i (Nrow g))) (lpts e)))).
  2:{ intros i _. now rewrite Rsum_map_scal. }
  rewrite Rsum_swap. apply Rsum_map_ext. intros g _.
  rewrite (Rsum_map_ext _ (fun i => (wJ g * fv g) * (x (nth i (lnodes e) 0%nat) * nthR i (Nrow g)))).
  2:{ intros i _. lra. }
  rewrite Rsum_map_scal. lra.
Qed.

Lemma resultant_nodal_written_elem e : wf e ->
  sumi (nPe e) (F_nodal_written e) = Rsum (map (fun g => wJ g * interp (fnod e) g) (lpts e)).
Proof.
  intros W. unfold sumi at 1. unfold F_nodal_written. rewrite Rsum_swap. apply Rsum_map_ext. intros g Hg.
  unfold interp, sumi. rewrite (W g Hg).
  rewrite (Rsum_map_ext _ (fun i => wJ g * (nthR i (fnod e) * nthR i (Nrow g)))).
  2:{ intros i _. lra. }
  now rewrite Rsum_map_scal.
Qed.

(* the interpolating nodal branch IS the callable branch with f(x_p) := sum_i f_i N_i(xi_p) *)
Definition with_interp (e : lelem) : lelem :=
  mk_lelem (lnodes e) (map (fun g => mk_gpt (wJ g) (interp (fnod e) g) (Nrow g)) (lpts e)) (fnod e).

Lemma F_nodal_interp_is_call e i : F_nodal_interp e i = F_call (with_interp e) i.
Proof. unfold F_nodal_interp, F_call, with_interp. simpl. rewrite map_map. reflexivity. Qed.

(* ---- assembled vector ---- *)
Lemma sum_indicator (v : R) m ns : NoDup ns -> In m ns ->
  Rsum (map (fun n => if Nat.eqb m n then v else 0) ns) = v.
Proof.
  induction ns as [|a ns IH]; simpl; intros Hd Hin. contradiction.
  inversion Hd; subst. destruct Hin as [->|Hin].
  - rewrite Nat.eqb_refl. rewrite Rsum_map_zero. lra.
    intros n Hn. destruct (Nat.eqb m n) eqn:E; auto. apply Nat.eqb_eq in E. subst. contradiction.
  - rewrite IH; auto. destruct (Nat.eqb m a) eqn:E; [|lra].
    apply Nat.eqb_eq in E. subst. contradiction.
Qed.

Lemma weighted_vec_sum (x : nat -> R) cs ns : NoDup ns -> (forall c, In c cs -> In (fst c) ns) ->
  Rsum (map (fun n => x n * vec cs n) ns) = moment x cs.
Proof.
  intros Hd Hin. unfold vec, moment.
  rewrite (Rsum_map_ext _ (fun n => Rsum (map (fun c : nat * R => if Nat.eqb (fst c) n then x (fst c) * snd c else 0) cs))).
  2:{ intros n _. rewrite <- Rsum_map_scal. apply Rsum_map_ext. intros c _.
      destruct (Nat.eqb (fst c) n) eqn:E; [|lra]. apply Nat.eqb_eq in E. subst. lra. }
  rewrite Rsum_swap. apply Rsum_map_ext. intros c Hc.
  apply sum_indicator; auto.
Qed.

Lemma vec_sum cs ns : NoDup ns -> (forall c, In c cs -> In (fst c) ns) ->
  Rsum (map (vec cs) ns) = total cs.
Proof.
  intros Hd Hin. pose proof (weighted_vec_sum (fun _ => 1) cs ns Hd Hin) as H.
  unfold moment in H. unfold total.
  rewrite (Rsum_map_ext _ (fun n => 1 * vec cs n)). 2:{ intros; lra. }
  rewrite H. apply Rsum_map_ext. intros; lra.
Qed.

Lemma total_contribs F es : total (contribs F es) = Rsum (map (fun e => sumi (nPe e) (F e)) es).
Proof.
  unfold total, contribs. induction es as [|e es IH]; simpl; auto.
  rewrite map_app, Rsum_app, IH. f_equal. unfold sumi. now rewrite map_map.
Qed.

Lemma moment_contribs x F es :
  moment x (contribs F es) = Rsum (map (fun e => sumi (nPe e) (fun i => x (nth i (lnodes e) 0%nat) * F e i)) es).
Proof.
  unfold moment, contribs. induction es as [|e es IH]; simpl; auto.
  rewrite map_app, Rsum_app, IH. f_equal. unfold sumi. now rewrite map_map.
Qed.

(* ====================================================================================== *)
(* theorems                                                                                *)
(* ====================================================================================== *)
Definition quad_sum (es : list lelem) (h : lelem -> gpt -> R) : R :=
  Rsum (map (fun e => Rsum (map (fun g => wJ g * h e g) (lpts e))) es).

(* resultant: sum_i F_i = sum_e sum_p w_p |J_p| f(x_p) *)
Theorem resultant es ns : NoDup ns ->
  (forall e, In e es -> wf e /\ pou e) ->
  (forall e n, In e es -> In n (lnodes e) -> In n ns) ->
  Rsum (map (vec (contribs F_call es)) ns) = quad_sum es (fun _ g => fv g).
Proof.
  intros Hd Hw Hn. rewrite vec_sum; auto.
  - rewrite total_contribs. unfold quad_sum. apply Rsum_map_ext. intros e He.
    destruct (Hw e He). now apply resultant_elem.
  - intros c Hc. unfold contribs in Hc. apply in_flat_map in Hc. destruct Hc as [e [He Hc]].
    apply in_map_iff in Hc. destruct Hc as [i [<- Hi]]. apply in_seq in Hi. simpl.
    apply (Hn e); auto. apply nth_In. unfold nPe in Hi. lia.
Qed.

(* moment (one coordinate x against one force component; cross products are linear
   combinations): sum_i x_i F_i = sum_e sum_p w_p |J_p| x(x_p) f(x_p) *)
Theorem first_moment (x : nat -> R) es ns : NoDup ns ->
  (forall e n, In e es -> In n (lnodes e) -> In n ns) ->
  Rsum (map (fun n => x n * vec (contribs F_call es) n) ns) = quad_sum es (fun e g => xgauss x e g * fv g).
Proof.
  intros Hd Hn. rewrite weighted_vec_sum; auto.
  - rewrite moment_contribs. unfold quad_sum. apply Rsum_map_ext. intros e He. apply moment_elem.
  - intros c Hc. unfold contribs in Hc. apply in_flat_map in Hc. destruct Hc as [e [He Hc]].
    apply in_map_iff in Hc. destruct Hc as [i [<- Hi]]. apply in_seq in Hi. simpl.
    apply (Hn e); auto. apply nth_In. unfold nPe in Hi. lia.
Qed.

(* z-moment in the plane: sum_i (x_i Fy_i - y_i Fx_i) about the origin (any other point: shift x, y) *)
Theorem moment_z (x y : nat -> R) esx esy ns : NoDup ns ->
  (forall e n, In e esx -> In n (lnodes e) -> In n ns) ->
  (forall e n, In e esy -> In n (lnodes e) -> In n ns) ->
  Rsum (map (fun n => x n * vec (contribs F_call esy) n) ns) - Rsum (map (fun n => y n * vec (contribs F_call esx) n) ns)
  = quad_sum esy (fun e g => xgauss x e g * fv g) - quad_sum esx (fun e g => xgauss y e g * fv g).
Proof. intros. rewrite !first_moment; auto. Qed.

(* nodal arrays, as written: the resultant is the integral of the interpolant ... *)
Theorem resultant_nodal_written es ns : NoDup ns ->
  (forall e, In e es -> wf e) ->
  (forall e n, In e es -> In n (lnodes e) -> In n ns) ->
  Rsum (map (vec (contribs F_nodal_written es)) ns) = quad_sum es (fun e g => interp (fnod e) g).
Proof.
  intros Hd Hw Hn. rewrite vec_sum; auto.
  - rewrite total_contribs. unfold quad_sum. apply Rsum_map_ext. intros e He.
    now apply resultant_nodal_written_elem, Hw.
  - intros c Hc. unfold contribs in Hc. apply in_flat_map in Hc. destruct Hc as [e [He Hc]].
    apply in_map_iff in Hc. destruct Hc as [i [<- Hi]]. apply in_seq in Hi. simpl.
    apply (Hn e); auto. apply nth_In. unfold nPe in Hi. lia.
Qed.

(* ... but the moment is NOT the moment of the interpolant: SEG2 on [0,1], two Gauss points
   xi = 1/4, 3/4 with weights 1/2, nodal values (0, 1), x = node coordinate *)
Definition seg_counter : lelem :=
  mk_lelem [0%nat; 1%nat]
           [mk_gpt (1/2) 0 [3/4; 1/4]; mk_gpt (1/2) 0 [1/4; 3/4]]
           [0; 1].
Definition xcoord (n : nat) : R := INR n.

Theorem moment_nodal_written_refuted :
  wf seg_counter /\ pou seg_counter /\
  sumi (nPe seg_counter) (fun i => xcoord (nth i (lnodes seg_counter) 0%nat) * F_nodal_written seg_counter i)
  <> Rsum (map (fun g => wJ g * (xgauss xcoord seg_counter g * interp (fnod seg_counter) g)) (lpts seg_counter)).
Proof.
  split; [|split].
  - intros g [<-|[<-|[]]]; reflexivity.
  - intros g [<-|[<-|[]]]; simpl; lra.
  - unfold sumi, F_nodal_written, xgauss, interp, sumi, nPe, xcoord, nthR. simpl. lra.
Qed.

(* the interpolating variant inherits both theorems *)
Theorem resultant_nodal_interp es ns : NoDup ns ->
  (forall e, In e es -> wf e /\ pou e) ->
  (forall e n, In e es -> In n (lnodes e) -> In n ns) ->
  Rsum (map (vec (contribs F_nodal_interp es)) ns) = quad_sum es (fun e g => interp (fnod e) g).
Proof.
  intros Hd Hw Hn.
  assert (E : contribs F_nodal_interp es = contribs F_call (map with_interp es)).
  { unfold contribs. rewrite flat_map_concat_map, flat_map_concat_map, map_map. f_equal.
    apply map_ext. intros e. unfold nPe. simpl. apply map_ext. intros i.
    now rewrite F_nodal_interp_is_call. }
  rewrite E, resultant; auto.
  - unfold quad_sum. rewrite map_map. apply Rsum_map_ext. intros e _. simpl. rewrite map_map. reflexivity.
  - intros e' He. apply in_map_iff in He. destruct He as [e [<- He]]. destruct (Hw e He) as [W P].
    split; intros g Hg; simpl in Hg; apply in_map_iff in Hg; destruct Hg as [g0 [<- Hg0]]; simpl.
    + apply (W g0 Hg0).
    + apply (P g0 Hg0).
  - intros e' n He. apply in_map_iff in He. destruct He as [e [<- He]]. simpl. now apply Hn.
Qed.

Theorem first_moment_nodal_interp (x : nat -> R) es ns : NoDup ns ->
  (forall e n, In e es -> In n (lnodes e) -> In n ns) ->
  Rsum (map (fun n => x n * vec (contribs F_nodal_interp es) n) ns)
  = quad_sum es (fun e g => xgauss x e g * interp (fnod e) g).
Proof.
  intros Hd Hn.
  assert (E : contribs F_nodal_interp es = contribs F_call (map with_interp es)).
  { unfold contribs. rewrite flat_map_concat_map, flat_map_concat_map, map_map. f_equal.
    apply map_ext. intros e. unfold nPe. simpl. apply map_ext. intros i.
    now rewrite F_nodal_interp_is_call. }
  rewrite E, first_moment; auto.
  - unfold quad_sum. rewrite map_map. apply Rsum_map_ext. intros e _. simpl. rewrite map_map. reflexivity.
  - intros e' n He. apply in_map_iff in He. destruct He as [e [<- He]]. simpl. now apply Hn.
Qed.


(* generalised first moment: ANY weight x on the dofs whose interpolation at the Gauss points is
   known.  x = 1 on force dofs / 0 on moment dofs gives the Hermitian force resultant
   (sum phi_i = 1); x = node coordinate on force dofs / 1 on rotation dofs gives the Hermitian
   moment identity (sum phi_i x_i + sum L psi_i = x). *)
Theorem first_moment_with (x : nat -> R) (xp : lelem -> gpt -> R) es ns : NoDup ns ->
  (forall e n, In e es -> In n (lnodes e) -> In n ns) ->
  (forall e g, In e es -> In g (lpts e) -> xgauss x e g = xp e g) ->
  Rsum (map (fun n => x n * vec (contribs F_call es) n) ns) = quad_sum es (fun e g => xp e g * fv g).
Proof.
  intros Hd Hn Hx. rewrite first_moment; auto. unfold quad_sum.
  apply Rsum_map_ext. intros e He. apply Rsum_map_ext. intros g Hg. now rewrite (Hx e g He Hg).
Qed.

(* pressure on a planar face set.  Mesh.Get_normals: the nodal normal is the normalised mean of the
   normals (summed over the Gauss points: a positive multiple nPg of the unit normal on a flat element) of
   the selected elements containing the node; on a planar face set every element contribution is a
   positive multiple of the same unit vector n, hence every nodal normal is n.
   The load is then the nodal array p*n_d (same value on every node), and the resultant of each
   component is p * n_d * area. *)
Definition vscale (c : R) (v : R * R * R) : R * R * R :=
  let '(a, b, d) := v in (c * a, c * b, c * d).
Definition vadd (u v : R * R * R) : R * R * R :=
  let '(a, b, d) := u in let '(a', b', d') := v in (a + a', b + b', d + d').
Definition vnorm (v : R * R * R) : R := let '(a, b, d) := v in sqrt (a * a + b * b + d * d).
Definition vnormalize (v : R * R * R) : R * R * R := vscale (/ vnorm v) v.
Definition vsum (l : list (R * R * R)) : R * R * R := fold_right vadd (0, 0, 0) l.

Lemma vsum_scaled (n : R * R * R) (areas : list R) :
  vsum (map (fun a => vscale a n) areas) = vscale (Rsum areas) n.
Proof.
  induction areas as [|c l IH].
  - destruct n as [[a b] d]. simpl. f_equal; [f_equal|]; lra.
  - change (vsum (map (fun a => vscale a n) (c :: l)))
      with (vadd (vscale c n) (vsum (map (fun a => vscale a n) l))).
    rewrite IH. destruct n as [[a b] d]. simpl. f_equal; [f_equal|]; lra.
Qed.

(* normal_n = Normalize((sum_e normal_e) / count) = n when normal_e = area_e * n, area_e > 0, |n| = 1 *)
Theorem nodal_normal_planar (n : R * R * R) (areas : list R) (count : R) :
  vnorm n = 1 -> 0 < count -> 0 < Rsum areas ->
  vnormalize (vscale (/ count) (vsum (map (fun a => vscale a n) areas))) = n.
Proof.
  intros Hn Hc Ha. rewrite vsum_scaled. destruct n as [[a b] d]. unfold vnormalize, vnorm, vscale in *.
  set (k := / count * Rsum areas).
  assert (Hk : 0 < k) by (unfold k; apply Rmult_lt_0_compat; auto; now apply Rinv_0_lt_compat).
  replace (/ count * (Rsum areas * a)) with (k * a) by (unfold k; ring).
  replace (/ count * (Rsum areas * b)) with (k * b) by (unfold k; ring).
  replace (/ count * (Rsum areas * d)) with (k * d) by (unfold k; ring).
  replace (k * a * (k * a) + k * b * (k * b) + k * d * (k * d)) with (k * k * (a * a + b * b + d * d)) by ring.
  rewrite sqrt_mult_alt by nra. rewrite Hn, Rmult_1_r.
  replace (k * k) with (k ^ 2) by ring. rewrite sqrt_pow2 by lra.
  f_equal; [f_equal|]; field; lra.
Qed.

(* resultant of one component of the pressure load: nodal array with the same value v = p * n_d on
   every node (as written: F_nodal_written) *)
Theorem pressure_planar_resultant (v : R) es ns : NoDup ns ->
  (forall e, In e es -> wf e /\ pou e) ->
  (forall e n, In e es -> In n (lnodes e) -> In n ns) ->
  (forall e i, In e es -> (i < nPe e)%nat -> nthR i (fnod e) = v) ->
  Rsum (map (vec (contribs F_nodal_written es)) ns) = v * quad_sum es (fun _ _ => 1).
Proof.
  intros Hd Hw Hn Hv. rewrite resultant_nodal_written; auto.
  2:{ intros e He. now destruct (Hw e He). }
  unfold quad_sum. rewrite <- Rsum_map_scal. apply Rsum_map_ext. intros e He.
  rewrite <- Rsum_map_scal. apply Rsum_map_ext. intros g Hg.
  destruct (Hw e He) as [W P]. unfold interp, sumi.
  rewrite (Rsum_map_ext _ (fun i => v * nthR i (Nrow g))).
  2:{ intros i Hi. apply in_seq in Hi. rewrite (Hv e i He). reflexivity. rewrite <- (W g Hg). lia. }
  rewrite Rsum_map_scal. fold (sumi (length (Nrow g)) (fun i => nthR i (Nrow g))).
  rewrite sumi_row, (P g Hg). ring.
Qed.


(* ---- pressure on NON-planar face sets: what the nodal-normal averaging does and does not give ----
   The load is the nodal array p * nhat_j (nhat_j = normalised mean over the selected elements around node j
   of their unit normals summed over the Gauss points - FeArray.integrate is a plain sum: positive,
   equal weights inside an element group); by resultant_nodal_written / resultant_nodal_interp its resultant is
   sum_e sum_p w_p|J_p| sum_j N_j(xi_p) p nhat_j  =  p * sum_j a_j nhat_j  (a_j = lumped nodal area).
   The exact resultant is p * sum_e (area vector of e).  They agree on planar sets
   (pressure_planar_resultant) and NOT in general: neither on a kinked open patch nor on a closed
   surface (where the exact resultant vanishes). *)
Lemma vnormalize_rational (a b d k : R) : 0 < k -> a * a + b * b + d * d = k * k ->
  vnormalize (a, b, d) = (a / k, b / k, d / k).
Proof.
  intros Hk H. unfold vnormalize, vnorm, vscale. rewrite H.
  replace (k * k) with (k ^ 2) by ring. rewrite sqrt_pow2 by lra.
  f_equal; [f_equal|]; field; lra.
Qed.

(* kinked open patch: two unit segments with unit normals n1 = (3/5, 4/5), n2 = (-3/5, 4/5).
   nodal normals by the averaging of Mesh.Get_normals: n1, (0, 1), n2; lumped lengths 1/2, 1, 1/2 *)
Ltac vec3 := simpl; f_equal; [f_equal|]; field.

Theorem pressure_kinked_patch_refuted :
  (* the ridge node: two adjacent elements of length 1 with normals (3/5,4/5) and (-3/5,4/5) *)
  vnormalize (vscale (/ 2) (vsum [vscale 1 (3/5, 4/5, 0); vscale 1 (-3/5, 4/5, 0)])) = (0, 1, 0) /\
  (* y-resultant of the nodal-array load (per unit pressure) vs the exact one *)
  (1/2) * (4/5) + 1 * 1 + (1/2) * (4/5) <> 1 * (4/5) + 1 * (4/5).
Proof.
  split; [|lra].
  assert (E : vscale (/ 2) (vsum [vscale 1 (3/5, 4/5, 0); vscale 1 (-3/5, 4/5, 0)]) = (0, 4/5, 0)) by vec3.
  rewrite E, (vnormalize_rational 0 (4/5) 0 (4/5)) by lra. vec3.
Qed.

(* closed surface: isosceles triangle with base normal (0,-1) (length 6/5) and side normals
   (4/5,3/5), (-4/5,3/5) (length 1): the area vectors sum to zero (exact resultant of a uniform pressure
   on a closed surface).  Nodal normals by the averaging of Mesh.Get_normals (mean of the element
   normals summed over the Gauss points, normalised): apex (0,1); base corners the normalised
   (+-2/5, -1/5).  Lumped lengths: apex 1, corners 11/10: the y-resultant per unit pressure is
   1 - (11/25)/sqrt(1/5) <> 0. *)
Theorem pressure_closed_surface_refuted :
  let r := sqrt ((2/5) * (2/5) + (-1/5) * (-1/5) + 0 * 0) in
  vadd (vscale (6/5) (0, -1, 0)) (vadd (vscale 1 (4/5, 3/5, 0)) (vscale 1 (-4/5, 3/5, 0))) = (0, 0, 0) /\
  vnormalize (vscale (/ 2) (vsum [(4/5, 3/5, 0); (-4/5, 3/5, 0)])) = (0, 1, 0) /\
  vscale (/ 2) (vsum [(0, -1, 0); (4/5, 3/5, 0)]) = (2/5, -1/5, 0) /\
  vnormalize (2/5, -1/5, 0) = (/ r * (2/5), / r * (-1/5), / r * 0) /\
  1 * 1 + 2 * ((11/10) * (/ r * (-1/5))) <> 0.
Proof.
  intros r. split; [vec3|]. split.
  { assert (E : vscale (/ 2) (vsum [(4/5, 3/5, 0); (-4/5, 3/5, 0)]) = (0, 3/5, 0)) by vec3.
    rewrite E, (vnormalize_rational 0 (3/5) 0 (3/5)) by lra. vec3. }
  split; [vec3|]. split; [reflexivity|].
  assert (Hrr : r * r = 1/5).
  { unfold r. rewrite sqrt_sqrt; lra. }
  assert (Hr : 0 < r).
  { unfold r. apply sqrt_lt_R0. lra. }
  intro H. set (q := / r) in *.
  assert (Hq : r * q = 1) by (unfold q; apply Rinv_r; lra).
  assert (Hq' : q = 25/11) by lra.
  rewrite Hq' in Hq. assert (Hr' : r = 11/25) by lra. rewrite Hr' in Hrr. lra.
Qed.


(* homogeneity under a change of the length unit: the weights w|J| are multiplied by k = lambda^m
   (m = dimension of the integrated groups), the shape values and the density values at the Gauss points
   (f written in the new unit) are unchanged: the load vector is multiplied by k, exactly, whatever k
   (1e-27 for a micrometre-sized solid in metres as well as 1e9) - no absolute threshold may enter. *)
Definition scale_g (k : R) (g : gpt) : gpt := mk_gpt (k * wJ g) (fv g) (Nrow g).
Definition scale_e (k : R) (e : lelem) : lelem := mk_lelem (lnodes e) (map (scale_g k) (lpts e)) (fnod e).

Lemma F_call_scale k e i : F_call (scale_e k e) i = k * F_call e i.
Proof.
  unfold F_call, scale_e. simpl. rewrite map_map, <- Rsum_map_scal.
  apply Rsum_map_ext. intros g _. simpl. ring.
Qed.

Theorem load_homogeneous k es n :
  vec (contribs F_call (map (scale_e k) es)) n = k * vec (contribs F_call es) n.
Proof.
  unfold vec. rewrite <- Rsum_map_scal.
  assert (E : contribs F_call (map (scale_e k) es)
              = map (fun c : nat * R => (fst c, k * snd c)) (contribs F_call es)).
  { unfold contribs. induction es as [|e es IH]; simpl; auto.
    rewrite map_app, IH. f_equal. unfold nPe. simpl. rewrite map_map.
    apply map_ext. intros i. simpl. now rewrite F_call_scale. }
  rewrite E, map_map. apply Rsum_map_ext. intros c _. simpl.
  destruct (Nat.eqb (fst c) n); ring.
Qed.

(* first moments: coordinates in the new unit are lambda * x *)
Corollary moment_homogeneous (lambda k : R) (x : nat -> R) es ns :
  Rsum (map (fun n => (lambda * x n) * vec (contribs F_call (map (scale_e k) es)) n) ns)
  = lambda * k * Rsum (map (fun n => x n * vec (contribs F_call es) n) ns).
Proof.
  rewrite <- Rsum_map_scal. apply Rsum_map_ext. intros n _. rewrite load_homogeneous. ring.
Qed.

(* only loaded elements: a node outside every integrated element gets nothing *)
Theorem only_loaded_elements F es n :
  (forall e, In e es -> ~ In n (lnodes e)) -> vec (contribs F es) n = 0.
Proof.
  intros H. unfold vec. apply Rsum_map_zero. intros c Hc.
  unfold contribs in Hc. apply in_flat_map in Hc. destruct Hc as [e [He Hc]].
  apply in_map_iff in Hc. destruct Hc as [i [<- Hi]]. apply in_seq in Hi. simpl.
  destruct (Nat.eqb (nth i (lnodes e) 0%nat) n) eqn:E; auto.
  apply Nat.eqb_eq in E. exfalso. apply (H e He). rewrite <- E. apply nth_In. unfold nPe in Hi. lia.
Qed.

(* with the exclusive selection: a node that is not selected gets nothing *)
Corollary unselected_node_zero connect sel F (mk : nat * list nat -> lelem) n :
  (forall x, lnodes (mk x) = snd x) -> ~ In n sel ->
  vec (contribs F (map mk (select_excl connect sel))) n = 0.
Proof.
  intros Hmk Hn. apply only_loaded_elements. intros e He Hin.
  apply in_map_iff in He. destruct He as [x [<- Hx]]. apply select_excl_spec in Hx.
  destruct Hx as [_ [_ Hall]]. rewrite Hmk in Hin. apply Hn, Hall, Hin.
Qed.

(* point load: value/len(nodes) on each node sums to the value entered *)
Theorem point_load_total (v : R) (nodes : list nat) : nodes <> [] ->
  Rsum (map (fun _ => v / INR (length nodes)) nodes) = v.
Proof.
  intros Hne.
  assert (G : forall l : list nat, Rsum (map (fun _ => v / INR (length nodes)) l) = INR (length l) * (v / INR (length nodes))).
  { induction l as [|a l IH]. simpl. lra. change (length (a :: l)) with (S (length l)).
    rewrite S_INR. simpl. rewrite IH. lra. }
  rewrite G. field. apply not_0_INR. destruct nodes; [congruence|simpl; lia].
Qed.

(* ====================================================================================== *)
(* C. dimension dispatch and thickness                                                     *)
(* ====================================================================================== *)
Inductive load := LineLoad | SurfLoad | VolumeLoad | PressureLoad.
(* (dimension of the element groups integrated, multiplied by thickness?) *)
Definition dispatch (l : load) (meshdim : nat) : option (nat * bool) :=
  match l, meshdim with
  | LineLoad, _ => Some (1%nat, false)
  | SurfLoad, 2%nat => Some (1%nat, true)
  | SurfLoad, 3%nat => Some (2%nat, false)
  | VolumeLoad, 2%nat => Some (2%nat, true)
  | VolumeLoad, 3%nat => Some (3%nat, false)
  | PressureLoad, 2%nat => Some (1%nat, true)
  | PressureLoad, 3%nat => Some (2%nat, false)
  | _, _ => None
  end.
Definition physical_dim (l : load) : nat :=
  match l with LineLoad => 1 | SurfLoad => 2 | VolumeLoad => 3 | PressureLoad => 2 end.

(* thickness enters exactly once in 2D (it stands for the missing dimension), never in 3D *)
Theorem thickness_once l d k t : l <> LineLoad -> dispatch l d = Some (k, t) ->
  (t = true <-> d = 2%nat) /\ (k + (if t then 1 else 0) = physical_dim l)%nat.
Proof.
  intros Hl H. destruct l; try congruence;
    destruct d as [|[|[|[|d]]]]; simpl in H; try discriminate; inversion H; subst; simpl;
    split; try reflexivity; split; intros; try discriminate; auto.
Qed.

(* non-vacuity *)
Example select_example :
  select [[0;1];[1;2];[2;3]]%nat [0;1;2]%nat true = [0;1]%nat /\
  select [[0;1];[1;2];[2;3]]%nat [0;1;2]%nat false = [0;1;2]%nat.
Proof. split; reflexivity. Qed.

Example resultant_example :
  let e := mk_lelem [0%nat; 1%nat] [mk_gpt (1/2) 3 [3/4; 1/4]; mk_gpt (1/2) 5 [1/4; 3/4]] [] in
  wf e /\ pou e /\ Rsum (map (vec (contribs F_call [e])) [0%nat; 1%nat]) = 4.
Proof.
  split; [|split].
  - intros g [<-|[<-|[]]]; reflexivity.
  - intros g [<-|[<-|[]]]; simpl; lra.
  - unfold vec, contribs, F_call, nPe, nthR. simpl. lra.
Qed.

(* ====================================================================================== *)
(* D. pairing of unknowns and values when a call is split by a filter                      *)
(*    (Beam.add_lineLoad: lagrange_idx / hermitian_idx, herm_unknowns / herm_values)       *)
(* ====================================================================================== *)
Section FilterZip.
  Variables (U V : Type) (du : U) (dv : V).
  Variable keep : U -> bool.
  (* hermitian_idx = [i for i, u in enumerate(unknowns) if u in hermitian] *)
  Definition idx_of (us : list U) : list nat := filter (fun i => keep (nth i us du)) (seq 0 (length us)).
  (* herm_unknowns = [unknowns[i] for i in idx]; herm_values = [values[i] for i in idx] *)
  Definition pick {A} (idx : list nat) (l : list A) (d : A) : list A := map (fun i => nth i l d) idx.
  (* the loop `for u, unknown in enumerate(herm_unknowns): value = herm_values[u]` *)
  Definition processed (us : list U) (vs : list V) : list (U * V) :=
    combine (pick (idx_of us) us du) (pick (idx_of us) vs dv).
  (* the seeded/buggy variant: value = values[u] read from the UNFILTERED list *)
  Definition processed_unfiltered (us : list U) (vs : list V) : list (U * V) :=
    combine (pick (idx_of us) us du) vs.

  Lemma combine_map2 {A B} (f : nat -> A) (g : nat -> B) idx :
    combine (map f idx) (map g idx) = map (fun i => (f i, g i)) idx.
  Proof. induction idx; simpl; auto. now rewrite IHidx. Qed.

  Lemma filter_map_comm {A B} (h : A -> B) (q : B -> bool) l :
    filter q (map h l) = map h (filter (fun a => q (h a)) l).
  Proof. induction l; simpl; auto. destruct (q (h a)); simpl; now rewrite IHl. Qed.

  Lemma map_nth_combine (us : list U) : forall (vs : list V), length us = length vs ->
    map (fun i => (nth i us du, nth i vs dv)) (seq 0 (length us)) = combine us vs.
  Proof.
    induction us as [|u us IH]; intros [|v vs] H; simpl in *; try discriminate; auto.
    f_equal. rewrite <- seq_shift, map_map. apply IH. lia.
  Qed.

  (* zip and filter commute: what is processed is exactly the user's (unknown, value) pairs whose
     unknown passes the filter, in the user's order *)
  Theorem filter_zip_commute us vs : length us = length vs ->
    processed us vs = filter (fun p => keep (fst p)) (combine us vs).
  Proof.
    intros H. unfold processed, pick, idx_of. rewrite combine_map2.
    rewrite <- (map_nth_combine us vs H), filter_map_comm. reflexivity.
  Qed.

  Corollary processed_pairs_are_the_users us vs u v : length us = length vs ->
    In (u, v) (processed us vs) -> In (u, v) (combine us vs) /\ keep u = true.
  Proof. intros H Hin. rewrite (filter_zip_commute us vs H) in Hin. apply filter_In in Hin. tauto. Qed.
End FilterZip.

(* reading the unfiltered list pairs "y" with the value the user gave for "x" *)
Example unfiltered_values_refuted :
  let keep := fun u : nat => negb (Nat.eqb u 0) in      (* unknown 0 = "x" (Lagrange), 1 = "y" *)
  processed nat R 0%nat 0 keep [0%nat; 1%nat] [10; 20] = [(1%nat, 20)] /\
  processed_unfiltered nat R 0%nat keep [0%nat; 1%nat] [10; 20] = [(1%nat, 10)].
Proof. split; reflexivity. Qed.
