(* C12_FeShape.v — hand-written executable model (definitions only) of the SHAPE / KIND level of
   EasyFEA/FEM/_linalg.py (class FeArray) and of the operator table of EasyFEA/FEM/_field.py.

   Shapes are [list nat] in numpy order (outermost axis first).  No bound on ranks or sizes.
   Proofs live in C12_FeProofs.v.  Tied to /repo by the correspondence harness props/C12.py. *)
From Coq Require Import List Arith Bool ZArith Lia.
Import ListNotations.

(* ------------------------------------------------------------------------------------ *)
(* numpy broadcasting of shapes                                                         *)
(* ------------------------------------------------------------------------------------ *)
Definition bdim (a b : nat) : option nat :=
  if a =? b then Some a else if a =? 1 then Some b else if b =? 1 then Some a else None.

(* equal-length shapes *)
Fixpoint zip_bcast (s t : list nat) : option (list nat) :=
  match s, t with
  | [], [] => Some []
  | a :: s', b :: t' =>
      match bdim a b, zip_bcast s' t' with
      | Some d, Some u => Some (d :: u)
      | _, _ => None
      end
  | _, _ => None
  end.

(* numpy: the shorter shape is padded with 1s on the LEFT *)
Definition lpad (n : nat) (s : list nat) : list nat := repeat 1 (n - length s) ++ s.

Definition np_bcast (s t : list nat) : option (list nat) :=
  let n := Nat.max (length s) (length t) in zip_bcast (lpad n s) (lpad n t).

Fixpoint np_bcast_all (l : list (list nat)) : option (list nat) :=
  match l with
  | [] => Some []
  | s :: r => match np_bcast_all r with Some u => np_bcast s u | None => None end
  end.

(* index used to READ an operand of shape s when the result index is k (length k >= length s):
   the trailing |s| entries of k, with 0 on the operand's size-1 axes *)
Fixpoint clip (s k : list nat) : list nat :=
  match s, k with
  | d :: s', i :: k' => (if d =? 1 then 0 else i) :: clip s' k'
  | _, _ => []
  end.

Definition bidx (s k : list nat) : list nat := clip s (skipn (length k - length s) k).

(* ------------------------------------------------------------------------------------ *)
(* operand kinds and tensor rank (FeArray._ndim / np.ndim)                              *)
(* ------------------------------------------------------------------------------------ *)
Inductive kind := KFe | KPlain | KScalar.

(* "A FeArray's tensor rank is ndim - 2 and a plain array's is its own ndim -- always" *)
Definition trank (k : kind) (s : list nat) : nat :=
  match k with KFe => length s - 2 | KPlain => length s | KScalar => 0 end.

(* op[(slice(None), slice(None)) + (None,) * n] *)
Definition pad_shape (n : nat) (s : list nat) : list nat := firstn 2 s ++ repeat 1 n ++ skipn 2 s.

Fixpoint list_max (l : list nat) : nat :=
  match l with [] => 0 | a :: r => Nat.max a (list_max r) end.

(* FeArray._align on shapes *)
Definition align_shapes (ops : list (kind * list nat)) : list (list nat) :=
  let nt := list_max (map (fun o => trank (fst o) (snd o)) ops) in
  map (fun o => match fst o with
                | KFe => pad_shape (nt - trank KFe (snd o)) (snd o)
                | _ => snd o
                end) ops.

(* shape of an elementwise ufunc on aligned operands *)
Definition ufunc_shape (ops : list (kind * list nat)) : option (list nat) :=
  np_bcast_all (align_shapes ops).

(* _FeShape: broadcast of the FeArray operands' leading (Ne, nPg) *)
Definition fe_shape (ops : list (kind * list nat)) : option (list nat) :=
  np_bcast_all (map (fun o => firstn 2 (snd o)) (filter (fun o => match fst o with KFe => true | _ => false end) ops)).

Fixpoint list_eqb (a b : list nat) : bool :=
  match a, b with
  | [], [] => true
  | x :: a', y :: b' => (x =? y) && list_eqb a' b'
  | _, _ => false
  end.

(* FeArray.__wrap: a result is a field exactly when it came out on the operation's (Ne,nPg) *)
Definition wrap_is_fe (res feShape : list nat) : bool :=
  (2 <=? length res) && list_eqb (firstn 2 res) feShape.

(* ------------------------------------------------------------------------------------ *)
(* reducers: _KeepsFeAxes                                                               *)
(* ------------------------------------------------------------------------------------ *)
Definition keeps_axis (a ndim : Z) : bool :=
  if (a >=? 0)%Z then (a >=? 2)%Z else (a >=? 2 - ndim)%Z.

Definition keeps_fe_axes (axis : option (list Z)) (ndim : Z) : bool :=
  match axis with
  | None => false
  | Some axes => forallb (fun a => keeps_axis a ndim) axes
  end.

Definition norm_axis (ndim : nat) (a : Z) : nat :=
  if (a <? 0)%Z then Z.to_nat (a + Z.of_nat ndim) else Z.to_nat a.

Fixpoint memb (x : nat) (l : list nat) : bool :=
  match l with [] => false | y :: r => (x =? y) || memb x r end.

(* shape after reducing the (normalised) axes [axes], keepdims=False *)
Fixpoint remove_axes_from (i : nat) (axes : list nat) (s : list nat) : list nat :=
  match s with
  | [] => []
  | d :: r => if memb i axes then remove_axes_from (S i) axes r else d :: remove_axes_from (S i) axes r
  end.
Definition remove_axes := remove_axes_from 0.

Definition reduce_shape (axis : option (list Z)) (s : list nat) : list nat :=
  match axis with
  | None => []
  | Some axes => remove_axes (map (norm_axis (length s)) axes) s
  end.

(* ------------------------------------------------------------------------------------ *)
(* dot / ddot einsum subscripts (labels as nat: 'i' = 0, 'j' = 1, ...)                   *)
(* ------------------------------------------------------------------------------------ *)
(* _idx = {0: "", 1: "i", 2: "ij", 4: "ijkl"} *)
Definition idx_of (n : nat) : option (list nat) :=
  match n with
  | 0 => Some [] | 1 => Some [0] | 2 => Some [0; 1] | 4 => Some [0; 1; 2; 3]
  | _ => None
  end.

Fixpoint remove_label (x : nat) (l : list nat) : list nat :=
  match l with [] => [] | y :: r => if x =? y then remove_label x r else y :: remove_label x r end.

(* (idx1, idx2, end) of _dot_subscript(ndim1, ndim2); ndim1 = 0 is rejected by dot() itself *)
Definition dot_labels (n1 n2 : nat) : option (list nat * list nat * list nat) :=
  match idx_of n1, idx_of n2 with
  | Some i1, Some i2 =>
      match rev i1 with
      | [] => None
      | lastl :: _ =>
          let i2' := map (fun v => v + n1 - 1) i2 in
          Some (i1, i2', remove_label lastl (i1 ++ i2'))
      end
  | _, _ => None
  end.

Definition ddot_labels (n1 n2 : nat) : option (list nat * list nat * list nat) :=
  match idx_of n1, idx_of n2 with
  | Some i1, Some i2 =>
      match rev i1 with
      | lastl :: last2 :: _ =>
          let i2' := map (fun v => v + n1 - 2) i2 in
          Some (i1, i2', remove_label last2 (remove_label lastl (i1 ++ i2')))
      | _ => None
      end
  | _, _ => None
  end.

(* which branch FeArray.__matmul__ takes *)
Inductive mm_branch := MMdot | MMmatmul | MMvecmat | MMmatvec.
Definition matmul_branch (n1 n2 : nat) : mm_branch :=
  if (n1 =? 1) && (n2 =? 1) then MMdot
  else if (n1 =? 2) && (n2 =? 2) then MMmatmul
  else if (n1 =? 1) && (n2 =? 2) then MMvecmat
  else if (n1 =? 2) && (n2 =? 1) then MMmatvec
  else MMdot.

(* ------------------------------------------------------------------------------------ *)
(* FeArray.T : axes permutation                                                         *)
(* ------------------------------------------------------------------------------------ *)
Definition swap_last2 {A} (l : list A) : list A :=
  match rev l with
  | a :: b :: r => rev r ++ [a; b]
  | _ => l
  end.

(* tensor part of the permuted shape / index, by the three branches of the property T *)
Definition T_tensor {A} (l : list A) : list A :=
  if length l =? 2 then swap_last2 l
  else if 2 <? length l then rev l
  else l.

Definition T_shape (s : list nat) : list nat := firstn 2 s ++ T_tensor (skipn 2 s).

(* ------------------------------------------------------------------------------------ *)
(* FeArray.broadcast(value, Ne, nPg, tensor_ndim) classification                        *)
(* ------------------------------------------------------------------------------------ *)
Inductive bclass :=
  | BFull          (* value already is (Ne, nPg, ...)                *)
  | BPerElem       (* (Ne, ...tail) -> value[e, ...]                 *)
  | BPerPoint      (* (nPg,)        -> value[p]     (tensor_ndim=0)  *)
  | BConst         (* (...tail)     -> value[...]                    *)
  | BError.

Definition broadcast_class (s : list nat) (Ne nPg td : nat) : bclass :=
  if 0 <? td then
    let lead := firstn (length s - td) s in
    if list_eqb lead [Ne; nPg] then BFull
    else if list_eqb lead [Ne] then BPerElem
    else if list_eqb lead [] then BConst
    else BError
  else
    if list_eqb (firstn 2 s) [Ne; nPg] then BFull
    else if length s =? 1 then
      (if list_eqb s [Ne] then BPerElem else if list_eqb s [nPg] then BPerPoint else BConst)
    else BConst.

Definition broadcast_shape (s : list nat) (Ne nPg td : nat) : option (list nat) :=
  match broadcast_class s Ne nPg td with
  | BFull => Some s
  | BPerElem => Some (Ne :: nPg :: skipn 1 s)
  | BPerPoint => Some [Ne; nPg]
  | BConst => Some (Ne :: nPg :: s)
  | BError => None
  end.

