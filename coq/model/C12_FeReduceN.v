(* C12_FeReduceN.v — a reduction over ANY list of axes is the composition of single-axis
   reductions: peel off the largest position first.  For every array, every list L of positions
   all smaller than j, and every reducer with f (concat ls) = f (map f ls):
       reduce (L ++ [j]) a  =  reduce L (reduce [j] a)
   (shape and every value).  Iterating it over a list sorted in descending order of peeling gives
   reduce [a1; ...; an] = reduce [a1] o ... o reduce [an]  (a1 < ... < an). *)
From Coq Require Import List Arith Bool Lia.
From EFModel Require Import C12_FeShape C12_FeTensor C12_FeProofs C12_FeFlat C12_FeReduce2.
Import ListNotations.

Definition all_below (j : nat) (L : list nat) : Prop := Forall (fun i => i < j) L.

Lemma memb_app x L j : memb x (L ++ [j]) = memb x L || (x =? j).
Proof. induction L; simpl; [now rewrite orb_false_r|]. rewrite IHL. now rewrite orb_assoc. Qed.

Lemma memb_below x j L : all_below j L -> j <= x -> memb x L = false.
Proof.
  intros H Hx. destruct (memb x L) eqn:E; [|reflexivity]. apply memb_In in E.
  unfold all_below in H. rewrite Forall_forall in H. apply H in E. lia.
Qed.

(* no axis of L at or after position o: everything is copied *)
Lemma merge_copy s : forall o L k, (forall p, o <= p -> memb p L = false) -> length k = length s ->
  merge_idx o L s k [] = k.
Proof.
  induction s as [|d s IH]; intros o L k H Lk; destruct k; simpl in Lk; try lia; [reflexivity|].
  cbn [merge_idx]. rewrite H by lia. rewrite IH; [reflexivity| |lia]. intros p Hp. apply H. lia.
Qed.

Lemma select_nothing s : forall o L, (forall p, o <= p -> memb p L = false) -> select_axes_from o L s = [].
Proof.
  induction s as [|d s IH]; intros o L H; [reflexivity|]. cbn [select_axes_from]. rewrite H by lia.
  apply IH. intros p Hp. apply H. lia.
Qed.

Lemma remove_nothing s : forall o L, (forall p, o <= p -> memb p L = false) -> remove_axes_from o L s = s.
Proof.
  induction s as [|d s IH]; intros o L H; [reflexivity|]. cbn [remove_axes_from]. rewrite H by lia.
  rewrite IH; [reflexivity|]. intros p Hp. apply H. lia.
Qed.

Lemma select_length_le s : forall o L, length (select_axes_from o L s) <= length s.
Proof. induction s; intros; simpl; [lia|]. destruct (memb o L); simpl; specialize (IHs (S o) L); lia. Qed.

(* a position j in range that is not in L leaves room for one more entry *)
Lemma select_length_lt s : forall o L j, memb j L = false -> o <= j < o + length s ->
  length (select_axes_from o L s) < length s.
Proof.
  induction s as [|d s IH]; intros o L j Hj H; simpl in H; [lia|]. cbn [select_axes_from length].
  destruct (Nat.eq_dec o j) as [->|N].
  - rewrite Hj. pose proof (select_length_le s (S j) L). lia.
  - destruct (memb o L); simpl; specialize (IH (S o) L j Hj); lia.
Qed.

Lemma select_snoc s : forall o L j, all_below j L -> o <= j < o + length s ->
  select_axes_from o (L ++ [j]) s = select_axes_from o L s ++ [nth (j - o) s 0].
Proof.
  induction s as [|d s IH]; intros o L j HL H; simpl in H; [lia|]. cbn [select_axes_from]. rewrite memb_app.
  destruct (Nat.eq_dec o j) as [->|N].
  - rewrite (memb_below j j L HL) by lia. rewrite Nat.eqb_refl. cbn [orb]. rewrite Nat.sub_diag. cbn [nth].
    rewrite !select_nothing; [reflexivity| |].
    + intros p Hp. apply memb_below with (j := j); [exact HL|lia].
    + intros p Hp. rewrite memb_app, (memb_below p j L HL) by lia.
      replace (p =? j) with false by (symmetry; apply Nat.eqb_neq; lia). reflexivity.
  - replace (o =? j) with false by (symmetry; apply Nat.eqb_neq; lia). rewrite orb_false_r.
    replace (j - o) with (S (j - S o)) by lia. cbn [nth].
    destruct (memb o L); rewrite IH by (try assumption; lia); reflexivity.
Qed.

Lemma select_after_remove s : forall o L j, all_below j L -> o <= j ->
  select_axes_from o L (remove_axes_from o [j] s) = select_axes_from o L s.
Proof.
  induction s as [|d s IH]; intros o L j HL H; [reflexivity|]. cbn [remove_axes_from]. rewrite memb1.
  destruct (Nat.eq_dec o j) as [->|N].
  - rewrite Nat.eqb_refl. cbn [select_axes_from]. rewrite (memb_below j j L HL) by lia.
    rewrite (remove_nothing s (S j) [j]).
    2:{ intros p Hp. rewrite memb1. apply Nat.eqb_neq. lia. }
    rewrite !select_nothing; try reflexivity; intros p Hp; apply memb_below with (j := j); try exact HL; lia.
  - replace (o =? j) with false by (symmetry; apply Nat.eqb_neq; lia).
    cbn [select_axes_from]. rewrite IH by (try assumption; lia). reflexivity.
Qed.

Lemma remove_snoc s : forall o L j, all_below j L -> o <= j ->
  remove_axes_from o (L ++ [j]) s = remove_axes_from o L (remove_axes_from o [j] s).
Proof.
  induction s as [|d s IH]; intros o L j HL H; [reflexivity|]. cbn [remove_axes_from]. rewrite memb1, memb_app.
  destruct (Nat.eq_dec o j) as [->|N].
  - rewrite Nat.eqb_refl, orb_true_r.
    rewrite (remove_nothing s (S j) [j]).
    2:{ intros p Hp. rewrite memb1. apply Nat.eqb_neq. lia. }
    rewrite !remove_nothing; try reflexivity.
    + intros p Hp. apply memb_below with (j := j); [exact HL|lia].
    + intros p Hp. rewrite memb_app, (memb_below p j L HL) by lia.
      replace (p =? j) with false by (symmetry; apply Nat.eqb_neq; lia). reflexivity.
  - replace (o =? j) with false by (symmetry; apply Nat.eqb_neq; lia). rewrite orb_false_r.
    cbn [remove_axes_from]. destruct (memb o L); rewrite IH by (try assumption; lia); reflexivity.
Qed.

Lemma merge_snoc s : forall o L j k r y, all_below j L -> o <= j < o + length s ->
  length r = length (select_axes_from o L s) -> length k + length r + 1 = length s ->
  merge_idx o (L ++ [j]) s k (r ++ [y]) =
  merge_idx o [j] s (merge_idx o L (remove_axes_from o [j] s) k r) [y].
Proof.
  induction s as [|d s IH]; intros o L j k r y HL H Lr Lk; simpl in H; [lia|].
  cbn [merge_idx remove_axes_from]. rewrite !memb1, memb_app.
  destruct (Nat.eq_dec o j) as [->|N].
  - rewrite Nat.eqb_refl, orb_true_r.
    assert (Hr : r = []).
    { cbn [select_axes_from] in Lr. rewrite (memb_below j j L HL) in Lr by lia.
      rewrite select_nothing in Lr; [destruct r; [reflexivity|discriminate]|].
      intros p Hp. apply memb_below with (j := j); [exact HL|lia]. }
    subst r. cbn [app length] in *.
    rewrite (remove_nothing s (S j) [j]).
    2:{ intros p Hp. rewrite memb1. apply Nat.eqb_neq. lia. }
    rewrite (merge_copy s j L k); [| intros p Hp; apply memb_below with (j := j); [exact HL|lia] | simpl in Lk; lia].
    rewrite (merge_copy s (S j) (L ++ [j]) k); [| |simpl in Lk; lia].
    2:{ intros p Hp. rewrite memb_app, (memb_below p j L HL) by lia.
        replace (p =? j) with false by (symmetry; apply Nat.eqb_neq; lia). reflexivity. }
    rewrite (merge_copy s (S j) [j] k); [reflexivity| |simpl in Lk; lia].
    intros p Hp. rewrite memb1. apply Nat.eqb_neq. lia.
  - replace (o =? j) with false by (symmetry; apply Nat.eqb_neq; lia). rewrite orb_false_r.
    cbn [select_axes_from] in Lr. cbn [merge_idx]. rewrite ?memb1.
    try replace (o =? j) with false by (symmetry; apply Nat.eqb_neq; lia).
    destruct (memb o L) eqn:E.
    + destruct r as [|x r]; [discriminate|]. cbn [app]. cbn [length] in Lr, Lk.
      rewrite (IH (S o) L j k r y) by (try assumption; simpl in *; lia). reflexivity.
    + destruct k as [|k0 k].
      { exfalso. pose proof (select_length_lt s (S o) L j). simpl in Lk.
        assert (memb j L = false) by (apply memb_below with (j := j); [exact HL|lia]).
        specialize (H0 H1). simpl in *. lia. }
      rewrite (IH (S o) L j k r y) by (try assumption; simpl in *; lia). reflexivity.
Qed.

Lemma indices_snoc ds : forall dj,
  indices (ds ++ [dj]) = flat_map (fun r => map (fun y => r ++ [y]) (seq 0 dj)) (indices ds).
Proof.
  induction ds as [|d ds IH]; intros dj.
  - cbn [app]. rewrite indices_one. cbn [indices flat_map]. now rewrite app_nil_r.
  - cbn [app indices]. rewrite IH.
    induction (seq 0 d) as [|i l IHl]; [reflexivity|].
    cbn [flat_map]. rewrite flat_map_app, <- IHl. f_equal.
    rewrite map_flat_map, !flat_map_concat_map, map_map. f_equal. apply map_ext. intros r.
    rewrite !map_map. reflexivity.
Qed.

Lemma indices_length ds : forall r, In r (indices ds) -> length r = length ds.
Proof.
  induction ds as [|d ds IH]; intros r H.
  - simpl in H. destruct H as [<-|[]]. reflexivity.
  - cbn [indices] in H. apply in_flat_map in H. destruct H as [i [_ H]].
    apply in_map_iff in H. destruct H as [r' [<- H]]. simpl. now rewrite (IH r' H).
Qed.

Section ComposeN.
Variable V : Type.
Variable f : list V -> V.
Hypothesis f_concat : forall ls : list (list V), f (concat ls) = f (map f ls).

Theorem reduce_snoc_is_composition (a : arr V) L j :
  all_below j L -> j < length (shape V a) ->
  shape V (reduce_arr V f (L ++ [j]) a) = shape V (reduce_arr V f L (reduce_arr V f [j] a)) /\
  forall k, length k + length (select_axes_from 0 L (shape V a)) + 1 = length (shape V a) ->
    dat V (reduce_arr V f (L ++ [j]) a) k = dat V (reduce_arr V f L (reduce_arr V f [j] a)) k.
Proof.
  intros HL Hj. unfold reduce_arr. cbn [shape dat]. unfold remove_axes. split.
  - apply remove_snoc; [exact HL|lia].
  - intros k Lk.
    rewrite (select_snoc (shape V a) 0 L j HL) by lia.
    rewrite (select_after_remove (shape V a) 0 L j HL) by lia.
    rewrite (select_one (shape V a) 0 j) by lia. rewrite Nat.sub_0_r.
    rewrite indices_snoc, indices_one.
    rewrite map_flat_map, flat_map_concat_map, f_concat, !map_map.
    f_equal. apply map_ext_in. intros r Hr. rewrite !map_map. f_equal. apply map_ext. intros y.
    pose proof (indices_length _ _ Hr) as Lr.
    rewrite merge_snoc; [reflexivity|exact HL|lia|exact Lr|rewrite Lr; exact Lk].
Qed.
End ComposeN.

(* ---- iterating: a tuple of axes in ascending order = one single-axis reduction per axis ---- *)
Inductive asc : list nat -> Prop :=
  | asc_nil : asc []
  | asc_snoc L j : asc L -> all_below j L -> asc (L ++ [j]).

Definition reduce_each {V} (f : list V -> V) (l : list nat) (a : arr V) : arr V :=
  fold_right (fun i acc => reduce_arr V f [i] acc) a l.

Lemma select_length_asc l : asc l -> forall s, Forall (fun i => i < length s) l ->
  length (select_axes_from 0 l s) = length l.
Proof.
  induction 1 as [|L j HA IH HB]; intros s Hs.
  - now rewrite select_nothing.
  - apply Forall_app in Hs. destruct Hs as [HL Hj]. inversion Hj; subst.
    rewrite select_snoc by (try assumption; lia). rewrite !app_length, IH by assumption. reflexivity.
Qed.

Section ComposeAll.
Variable V : Type.
Variable f : list V -> V.
Hypothesis f_concat : forall ls : list (list V), f (concat ls) = f (map f ls).
Hypothesis f_single : forall x : V, f [x] = x.     (* only used for the empty tuple *)

Theorem reduce_tuple_is_composition l : asc l -> forall (a : arr V),
  Forall (fun i => i < length (shape V a)) l ->
  shape V (reduce_arr V f l a) = shape V (reduce_each f l a) /\
  forall k, length k + length l = length (shape V a) ->
    dat V (reduce_arr V f l a) k = dat V (reduce_each f l a) k.
Proof.
  induction 1 as [|L j HA IH HB]; intros a Hs.
  - unfold reduce_each. cbn [fold_right]. unfold reduce_arr. cbn [shape dat]. split.
    + unfold remove_axes. now rewrite remove_nothing.
    + intros k Lk. rewrite select_nothing by reflexivity. cbn [indices map].
      rewrite merge_copy; [|reflexivity|simpl in Lk; lia].
      apply f_single.
  - apply Forall_app in Hs. destruct Hs as [HL Hj]. inversion Hj as [|? ? Hj' _]; subst.
    destruct (reduce_snoc_is_composition V f f_concat a L j HB Hj') as [S1 V1].
    set (a' := reduce_arr V f [j] a) in *.
    assert (La' : length (shape V a') = length (shape V a) - 1).
    { unfold a', reduce_arr. cbn [shape]. unfold remove_axes. apply remove_one_length. lia. }
    assert (HL' : Forall (fun i => i < length (shape V a')) L).
    { rewrite La'. unfold all_below in HB. rewrite Forall_forall in *. intros i Hi. specialize (HB i Hi). lia. }
    destruct (IH a' HL') as [S2 V2].
    unfold reduce_each. rewrite fold_right_app. cbn [fold_right]. fold a'. fold (reduce_each f L a').
    split; [congruence|].
    intros k Lk. rewrite app_length in Lk. cbn [length] in Lk.
    rewrite V1 by (rewrite (select_length_asc L HA _ HL); lia).
    apply V2. lia.
Qed.
End ComposeAll.

Example asc_example : asc [1; 3; 4].
Proof.
  change [1; 3; 4] with (([] ++ [1]) ++ [3] ++ [4]). rewrite app_assoc.
  repeat (apply asc_snoc); try apply asc_nil; unfold all_below; repeat constructor.
Qed.

(* ---- instances: the rational sum and product of the case files (Leibniz equality), integer sum ---- *)
From Coq Require Import ZArith QArith.
From EFModel Require Import C12_FeQ.

Lemma qred_sum_single (x : Q) : qred 0%nat [x] = x.
Proof.
  destruct x as [xn xd]. simpl. unfold Qplus. simpl.
  rewrite Z.mul_1_r, Z.add_0_r, Pos.mul_1_r. reflexivity.
Qed.
Lemma qred_prod_single (x : Q) : qred 1%nat [x] = x.
Proof.
  destruct x as [xn xd]. simpl. unfold Qmult. simpl. rewrite Z.mul_1_r, Pos.mul_1_r. reflexivity.
Qed.

Corollary qsum_qprod_tuple_is_composition l (a : arr Q) :
  asc l -> Forall (fun i => (i < length (shape Q a))%nat) l ->
  forall k, (length k + length l = length (shape Q a))%nat ->
    dat Q (reduce_arr Q (qred 0%nat) l a) k = dat Q (reduce_each (qred 0%nat) l a) k /\
    dat Q (reduce_arr Q (qred 1%nat) l a) k = dat Q (reduce_each (qred 1%nat) l a) k.
Proof.
  intros HA Hs k Hk. split.
  - exact (proj2 (reduce_tuple_is_composition Q (qred 0%nat) qred_sum_concat qred_sum_single l HA a Hs) k Hk).
  - exact (proj2 (reduce_tuple_is_composition Q (qred 1%nat) qred_prod_concat qred_prod_single l HA a Hs) k Hk).
Qed.

Corollary zsum_tuple_is_composition l (a : arr Z) :
  asc l -> Forall (fun i => (i < length (shape Z a))%nat) l ->
  forall k, (length k + length l = length (shape Z a))%nat ->
    dat Z (reduce_arr Z zsum l a) k = dat Z (reduce_each zsum l a) k.
Proof.
  intros HA Hs. apply (reduce_tuple_is_composition Z zsum zsum_concat); [|exact HA|exact Hs].
  intros x. unfold zsum. simpl. lia.
Qed.
