(* C19_Lift.v — from eigen-coordinates back to the 6D Kelvin stress space.

   _spectral.Build computes  T = C^{1/2} Q,  Ti = Q^T C^{-1/2},  lam  with
        Q^T (C^{1/2} P C^{1/2}) Q = diag(lam)        (numpy eigh)
   so that, in exact arithmetic,   T^T P T = diag(lam)   and   T^T C^{-1} T = I.
   These two identities are the hypotheses of this section (they are properties of numpy's eigh,
   trusted, and exercised by the correspondence check which evaluates f and sigma:d eps_p in 6D
   on the implementation's output).  Under them the eigen-level theorems of
   C19_Return1D_proofs are statements about the returned 6D stress:
        f(sigma_new) = phi(theta) - sigma_y - R(p_new)
        sigma_new : d eps_p = sigma_new : C^{-1} : (sigma_tr - sigma_new) = dGamma * phi >= 0   *)
From Coquelicot Require Import Coquelicot.
From Coq Require Import Reals List Lra.
From EFModel Require Import C19_Return1D C19_Return1D_proofs.
Import List ListNotations.
Open Scope R_scope.

Fixpoint dotl (a b : list R) : R :=
  match a, b with
  | x :: a', y :: b' => x * y + dotl a' b'
  | _, _ => 0
  end.
Fixpoint subl (a b : list R) : list R :=
  match a, b with
  | x :: a', y :: b' => (x - y) :: subl a' b'
  | _, _ => []
  end.

Section Lift.
  Variable Stress : Type.
  Variable Tm : list R -> Stress.                 (* sigma = T s                      *)
  Variable ssub : Stress -> Stress -> Stress.     (* sigma - tau                       *)
  Variable quadP : Stress -> R.                   (* sigma : P : sigma                 *)
  Variable cinv : Stress -> Stress -> R.          (* sigma : C^-1 : tau                *)
  Variable ps : list (R * R).                     (* (lam_i, y_i), y = Ti sigma_tr     *)

  Hypothesis T_diagonalises_P : forall s, length s = length ps -> quadP (Tm s) = quad_eig ps s.
  Hypothesis T_orthonormal_in_Cinv : forall s t, length s = length ps -> length t = length ps ->
                                                 cinv (Tm s) (ssub (Tm t) (Tm s)) = dotl s (subl t s).

  Definition sigma_new (th : R) : Stress := Tm (sig_eig Rops ps th).
  Definition sigma_trial : Stress := Tm (map snd ps).

  Lemma sig_eig_length : forall th, length (sig_eig Rops ps th) = length ps.
  Proof. intros; unfold sig_eig; apply map_length. Qed.

  (* equivalent stress of the returned 6D stress *)
  Theorem phi_of_sigma_new : forall th, sqrt (Rmax (quadP (sigma_new th)) 0) = phi Rops ps th.
  Proof.
    intros. unfold sigma_new. rewrite T_diagonalises_P by apply sig_eig_length.
    apply phi_of_returned_stress.
  Qed.

  Lemma dotl_dissip : forall qs th,
      dotl (sig_eig Rops qs th) (subl (map snd qs) (sig_eig Rops qs th)) = dissip qs th.
  Proof.
    induction qs as [|[l y] r IH]; intros th; [reflexivity|].
    unfold sig_eig in *. cbn [map dotl subl dissip fst snd]. rewrite IH.
    change (omul Rops) with Rmult. ring.
  Qed.

  (* plastic work of the step, in stress space *)
  Theorem plastic_work_6d : forall th, Forall (fun q => 0 <= fst q) ps -> 0 <= th ->
      cinv (sigma_new th) (ssub sigma_trial (sigma_new th))
      = (th * phi Rops ps th) * phi Rops ps th /\
      0 <= cinv (sigma_new th) (ssub sigma_trial (sigma_new th)).
  Proof.
    intros th Hl Hth. unfold sigma_new, sigma_trial.
    rewrite T_orthonormal_in_Cinv by (try apply sig_eig_length; apply map_length).
    rewrite dotl_dissip.
    pose proof (dissipation_nonneg (mkPoint ps 0) th Hl Hth) as [E Hpos]. cbn [pairs] in *.
    split; [exact E | exact Hpos].
  Qed.
End Lift.

(* non-vacuity: the identity change of basis on a diagonal material *)
Example lift_hypotheses_satisfiable :
  let ps := [(3, 2); (0, 5)] in
  (forall s, length s = length ps -> quad_eig ps ((fun x : list R => x) s) = quad_eig ps s) /\
  (forall s t, length s = length ps -> length t = length ps ->
               dotl ((fun x : list R => x) s) (subl t s) = dotl s (subl t s)).
Proof. split; intros; reflexivity. Qed.
