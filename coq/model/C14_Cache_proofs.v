(* C14 -- proofs about the cache/observer state machine of C14_Cache.v *)
From Coq Require Import List Bool NArith Arith Lia.
Import ListNotations.
From EFModel Require Import C14_Cache.

(* ---- generic list lemmas ------------------------------------------------------------- *)
Lemma upd_nth_length {A} i (f : A -> A) l : length (upd_nth i f l) = length l.
Proof. revert i; induction l; intros [|i]; simpl; auto. Qed.

Lemma nth_upd_nth_eq {A} i (f : A -> A) l d : i < length l -> nth i (upd_nth i f l) d = f (nth i l d).
Proof. revert i; induction l; intros [|i] H; simpl in *; try lia; auto. apply IHl; lia. Qed.

Lemma nth_upd_nth_neq {A} i j (f : A -> A) l d : i <> j -> nth j (upd_nth i f l) d = nth j l d.
Proof. revert i j; induction l; intros [|i] [|j] H; simpl; auto; try congruence. Qed.

Lemma nth_upd_nth_oob {A} i (f : A -> A) l : length l <= i -> upd_nth i f l = l.
Proof. revert i; induction l; intros [|i] H; simpl in *; auto; try lia. f_equal. apply IHl. lia. Qed.

Lemma Forall_upd_nth {A} (P Q : A -> Prop) i f l :
  Forall P l -> (forall x, P x -> Q x) -> (forall x, P x -> Q (f x)) -> Forall Q (upd_nth i f l).
Proof.
  intros H HPQ Hf. revert i. induction H; intros [|i]; simpl; constructor; auto.
  - clear IHForall. induction H0; constructor; auto.
Qed.

Lemma Forall_map' {A} (P Q : A -> Prop) f l :
  Forall P l -> (forall x, P x -> Q (f x)) -> Forall Q (map f l).
Proof. induction 1; simpl; constructor; auto. Qed.

Lemma Forall_nth_error {A} (P : A -> Prop) l i x : Forall P l -> nth_error l i = Some x -> P x.
Proof. intros H E. apply nth_error_In in E. rewrite Forall_forall in H. auto. Qed.

Lemma existsb_eqb_In m l : existsb (Nat.eqb m) l = true <-> In m l.
Proof.
  rewrite existsb_exists. split.
  - intros [x [Hx E]]. apply Nat.eqb_eq in E. subst. auto.
  - intros H. exists m. split; auto. apply Nat.eqb_refl.
Qed.

Lemma ckey_eqb_eq a b : ckey_eqb a b = true -> a = b.
Proof.
  destruct a, b. unfold ckey_eqb. simpl. intros H. apply andb_true_iff in H. destruct H as [H1 H2].
  apply Nat.eqb_eq in H1. apply N.eqb_eq in H2. subst. reflexivity.
Qed.

Lemma lookup_In {V} k (l : list (ckey * V)) v : lookup k l = Some v -> In (k, v) l.
Proof.
  induction l as [|[k' v'] r IH]; simpl; try discriminate.
  destruct (ckey_eqb k k') eqn:E.
  - intros H. inversion H. subst. apply ckey_eqb_eq in E. subst. auto.
  - intros H. right. auto.
Qed.

(* ---- table_ok unpacked ---------------------------------------------------------------- *)
Record TOk (T : table) : Prop := mkTOk {
  o_param_need : t_param_need T = true; o_model_notify : t_model_notify T = true;
  o_upd_model_need : t_upd_model_need T = true; o_upd_mesh_need : t_upd_mesh_need T = true;
  o_upd_mesh_clear : t_upd_mesh_clear T = true; o_init_sub_model : t_init_sub_model T = true;
  o_pf_sub_material : t_pf_sub_material T = true; o_rho_need : t_rho_need T = true;
  o_ray_need : t_ray_need T = true;
  o_mesh_clear : forall k, t_mesh_clear T k = true; o_mesh_notify : forall k, t_mesh_notify T k = true;
  o_meshset_need : t_meshset_need T = true; o_meshset_sub : t_meshset_sub T = true;
  o_meshset_initsols : t_meshset_initsols T = true; o_meshset_keeps_old : t_meshset_keeps_old T = true;
  o_updmesh_need : t_updmesh_need T = true;
  o_bcinit : t_bcinit T <> NNever; o_dirichlet : t_dirichlet T <> NNever; o_lagrange : t_lagrange T <> NNever;
  o_newton_need : t_newton_need T = true;
  o_pf_need_d : t_pf_need_d T = true; o_pf_need_u : t_pf_need_u T = true;
  o_pf_setiter_d : t_pf_setiter_d T = true; o_pf_setiter_u : t_pf_setiter_u T = true;
  o_pf_dmg_inval_u : t_pf_dmg_inval_u T = true; o_pf_el_inval_d : t_pf_el_inval_d T = true;
  o_csr_key_groups : t_csr_key_groups T = true; o_csr_key_ndof : t_csr_key_ndof T = true;
  o_mass_key_group : t_mass_key_group T = true; o_model_cache_refresh : t_model_cache_refresh T = true;
  o_param_set_unconditional : t_param_set_unconditional T = true;
  o_param_get_copies : t_param_get_copies T = true
}.

Lemma not_never_spec m : not_never m = true -> m <> NNever.
Proof. destruct m; simpl; congruence. Qed.

Lemma table_ok_spec T : table_ok T = true -> TOk T.
Proof.
  unfold table_ok. intros H.
  repeat (apply andb_true_iff in H; let H2 := fresh "H" in destruct H as [H H2]).
  simpl in *.
  repeat match goal with
         | X : (_ && _) = true |- _ => apply andb_true_iff in X; let X2 := fresh "X" in destruct X as [X X2]
         end.
  constructor; auto using not_never_spec; intros []; auto.
Qed.

(* ---- the observation theorem (one state) ------------------------------------------------ *)
Lemma mget_inv ms m : Forall MeshInv ms -> MeshInv (mget ms m).
Proof.
  intros H. unfold mget. destruct (Nat.lt_ge_cases m (length ms)).
  - rewrite Forall_forall in H. apply H. apply nth_In. auto.
  - rewrite nth_overflow by auto. left. reflexivity.
Qed.

Lemma geo_used_inv m : MeshInv m -> geo_used m = pose m.
Proof. unfold geo_used. intros [H|H]; rewrite H; reflexivity. Qed.

Lemma asm_key_ideal T p mc ms s v :
  TOk T -> Forall MeshInv ms -> SimInv p ms s -> asm_key T p mc ms s v = ideal p ms s v.
Proof.
  intros O HM I. unfold asm_key, ideal. f_equal.
  - apply geo_used_inv. apply mget_inv. auto.
  - unfold mass_used. destruct (kd s); auto.
    destruct (lookup _ _) eqn:E; auto.
    apply lookup_In in E. pose proof (i_mass _ _ _ I) as HMs. rewrite Forall_forall in HMs.
    apply HMs in E. simpl in E. destruct E as [_ E]. rewrite E.
    unfold masskey. rewrite (o_mass_key_group _ O). reflexivity.
  - unfold csr_used. destruct (lookup _ _) eqn:E; auto.
    apply lookup_In in E. pose proof (i_csr _ _ _ I) as HC. rewrite Forall_forall in HC.
    apply HC in E. simpl in E. subst. unfold csrkey.
    rewrite (o_csr_key_groups _ O), (o_csr_key_ndof _ O). reflexivity.
  - unfold derived_used. rewrite (o_model_cache_refresh _ O). reflexivity.
  - apply (i_st _ _ _ I).
Qed.

Theorem observe_is_ideal T p mc ms s :
  TOk T -> Forall MeshInv ms -> SimInv p ms s -> observe T p mc ms s = ideal_obs p ms s.
Proof.
  intros O HM I. unfold observe, ideal_obs. destruct (kd s) eqn:K.
  - destruct (need (ca s)) eqn:N.
    + rewrite asm_key_ideal; auto.
    + rewrite (i_kcmf _ _ _ I K N). reflexivity.
  - rewrite (o_newton_need _ O). simpl. rewrite asm_key_ideal; auto.
  - f_equal; [|f_equal].
    + destruct (updU (pf s)) eqn:U. * rewrite (i_pfU _ _ _ I K U). reflexivity. * rewrite asm_key_ideal; auto.
    + destruct (updD (pf s)) eqn:D. * rewrite (i_pfD _ _ _ I K D). reflexivity. * rewrite asm_key_ideal; auto.
Qed.

(* ---- structural part of the invariant and staleness ------------------------------------- *)
Record Struct (ms : list meshS) (s : simS) : Prop := mkStruct {
  s_sub : In (cur (cf s)) (subs (rg s));
  s_bnd : Forall (fun m => m < length ms) (subs (rg s));
  s_subm : subm (rg s) = true;
  s_submat : kd s = KPF -> submat (rg s) = true;
  s_csr : Forall (fun e => snd e = fst e) (csr (ca s));
  s_mass : Forall (fun e => In (fst (fst e)) (subs (rg s)) /\ snd e = shape (mget ms (fst (fst e)))) (massc (ca s));
  s_iters : Forall (fun m => In m (subs (rg s))) (iters (rg s))
}.

Definition Stale (s : simS) : Prop :=
  (kd s = KLin -> need (ca s) = true) /\ (kd s = KPF -> updU (pf s) = false /\ updD (pf s) = false).

Lemma inv_struct p ms s : SimInv p ms s -> Struct ms s.
Proof. intros []. constructor; auto. Qed.

Lemma struct_stale_inv p ms s : Struct ms s -> Stale s -> st s = cur (cf s) -> SimInv p ms s.
Proof.
  intros [] [H1 H2] Hst. constructor; auto.
  - intros K N. rewrite (H1 K) in N. discriminate.
  - intros K U. destruct (H2 K) as [E _]. congruence.
  - intros K U. destruct (H2 K) as [_ E]. congruence.
Qed.

Lemma raise_stale T s : TOk T -> Stale (raise T s).
Proof.
  intros O. unfold Stale, raise. destruct (kd s) eqn:K; simpl; rewrite ?K; split; try congruence; auto.
  intros _. rewrite (o_pf_need_d _ O), (o_pf_need_u _ O). auto.
Qed.

Lemma raise_struct T ms s : Struct ms s -> Struct ms (raise T s).
Proof. intros []. unfold raise. destruct (kd s) eqn:K; constructor; simpl; rewrite ?K; auto. Qed.

Lemma raise_kd T s : kd (raise T s) = kd s.
Proof. unfold raise. destruct (kd s) eqn:K; simpl; auto. Qed.
Lemma raise_cf T s : cf (raise T s) = cf s.
Proof. unfold raise. destruct (kd s); reflexivity. Qed.
Lemma raise_rg T s : rg (raise T s) = rg s.
Proof. unfold raise. destruct (kd s); reflexivity. Qed.
Lemma raise_st T s : st (raise T s) = st s.
Proof. unfold raise. destruct (kd s); reflexivity. Qed.

Lemma raise_inv T p ms s : TOk T -> SimInv p ms s -> SimInv p ms (raise T s).
Proof.
  intros O I. apply struct_stale_inv. apply raise_struct, inv_struct with p; auto. apply raise_stale; auto.
  rewrite raise_st, raise_cf. apply (i_st _ _ _ I).
Qed.

Lemma apply_mode_inv T md lag p ms s : TOk T -> SimInv p ms s -> SimInv p ms (apply_mode T md lag s).
Proof. intros O I. unfold apply_mode. destruct md; auto using raise_inv. destruct lag; auto using raise_inv. Qed.

Lemma clear_struct ms s : Struct ms s -> Struct ms (clear_simcache s).
Proof. intros []. constructor; simpl; auto. Qed.

Lemma clear_stale s : Stale s -> Stale (clear_simcache s).
Proof. intros [H1 H2]. split; simpl; auto. Qed.

Lemma clear_inv p ms s : SimInv p ms s -> SimInv p ms (clear_simcache s).
Proof. intros []. constructor; simpl; auto. Qed.

(* frame: the meshes a simulation is subscribed to did not change geometry *)
Lemma struct_frame ms ms' s :
  Struct ms s -> length ms <= length ms' ->
  (forall e, In e (massc (ca s)) -> shape (mget ms' (fst (fst e))) = shape (mget ms (fst (fst e)))) -> Struct ms' s.
Proof.
  intros [] HL HS. constructor; auto.
  - eapply Forall_impl; [|exact s_bnd0]. simpl. intros. lia.
  - rewrite Forall_forall in *. intros e He. destruct (s_mass0 e He) as [H1 H2]. split; auto. rewrite HS; auto.
Qed.

Lemma ideal_frame p ms ms' s v :
  pose (mget ms' (cur (cf s))) = pose (mget ms (cur (cf s))) ->
  shape (mget ms' (cur (cf s))) = shape (mget ms (cur (cf s))) ->
  ideal p ms' s v = ideal p ms s v.
Proof. intros H1 H2. unfold ideal. rewrite H1, H2. reflexivity. Qed.

Lemma inv_frame p ms ms' s :
  SimInv p ms s -> length ms <= length ms' ->
  (forall j, In j (subs (rg s)) -> pose (mget ms' j) = pose (mget ms j) /\ shape (mget ms' j) = shape (mget ms j)) ->
  SimInv p ms' s.
Proof.
  intros I HL HS. pose proof (inv_struct _ _ _ I) as St.
  assert (St' : Struct ms' s).
  { eapply struct_frame; eauto. intros e He. apply HS.
    pose proof (i_mass _ _ _ I) as HMs. rewrite Forall_forall in HMs. apply HMs; auto. }
  destruct St'. destruct (HS _ (i_sub _ _ _ I)) as [E1 E2].
  constructor; auto.
  - intros K N. rewrite (ideal_frame p ms ms'); auto. apply (i_kcmf _ _ _ I); auto.
  - intros K U. rewrite (ideal_frame p ms ms'); auto. apply (i_pfU _ _ _ I); auto.
  - intros K U. rewrite (ideal_frame p ms ms'); auto. apply (i_pfD _ _ _ I); auto.
  - apply (i_st _ _ _ I).
Qed.

(* ---- geometry of the mesh list under cache fills ---------------------------------------- *)
Lemma fill_geom c ms j :
  pose (mget (upd_nth c fill_mesh ms) j) = pose (mget ms j) /\
  shape (mget (upd_nth c fill_mesh ms) j) = shape (mget ms j).
Proof.
  unfold mget. destruct (Nat.eq_dec c j) as [->|N].
  - destruct (Nat.lt_ge_cases j (length ms)).
    + rewrite nth_upd_nth_eq by auto. simpl. auto.
    + rewrite nth_upd_nth_oob by auto. auto.
  - rewrite nth_upd_nth_neq by auto. auto.
Qed.

Lemma fill_meshinv c ms : Forall MeshInv ms -> Forall MeshInv (upd_nth c fill_mesh ms).
Proof.
  intros H. eapply Forall_upd_nth; eauto.
  intros x Hx. right. simpl. rewrite geo_used_inv; auto.
Qed.

Lemma inv_fill p c ms s : SimInv p ms s -> SimInv p (upd_nth c fill_mesh ms) s.
Proof.
  intros I. eapply inv_frame; eauto.
  - rewrite upd_nth_length. auto.
  - intros j _. apply fill_geom.
Qed.

(* ---- per-simulation transformers ---------------------------------------------------------- *)
Lemma lookup_add_forall {V} (P : ckey * V -> Prop) k v l :
  Forall P l -> P (k, v) -> Forall P (add_if_missing k v l).
Proof. intros H1 H2. unfold add_if_missing. destruct (lookup k l); auto. Qed.

Lemma fill_sim_inv T p ms s : TOk T -> SimInv p ms s -> SimInv p ms (fill_sim T ms s).
Proof.
  intros O []. constructor; simpl; auto.
  - apply lookup_add_forall; auto. simpl. unfold csrkey.
    rewrite (o_csr_key_groups _ O), (o_csr_key_ndof _ O). reflexivity.
  - destruct (kd s); auto. apply lookup_add_forall; auto. simpl. unfold masskey.
    rewrite (o_mass_key_group _ O). simpl. auto.
Qed.

Lemma getk_sim_inv T p mc ms solv s :
  TOk T -> Forall MeshInv ms -> SimInv p ms s -> (kd s = KLin -> solv = 0%N) ->
  SimInv p ms (getk_sim T p mc ms solv s).
Proof.
  intros O HM I Hs. unfold getk_sim. destruct (need (ca s)) eqn:N; auto.
  pose proof (fill_sim_inv T p ms s O I) as [].
  constructor; simpl in *; auto.
  intros K _. rewrite asm_key_ideal by auto. rewrite (Hs K). reflexivity.
Qed.

Lemma getkU_inv T p mc ms s :
  TOk T -> Forall MeshInv ms -> SimInv p ms s -> SimInv p ms (getkU T p mc ms s).
Proof.
  intros O HM I. unfold getkU. destruct (updU (pf s)) eqn:U; auto.
  pose proof (fill_sim_inv T p ms s O I) as [].
  constructor; simpl in *; auto.
  intros K _. rewrite asm_key_ideal by auto. reflexivity.
Qed.

Lemma getkD_inv T p mc ms s :
  TOk T -> Forall MeshInv ms -> SimInv p ms s -> SimInv p ms (getkD T p mc ms s).
Proof.
  intros O HM I. unfold getkD. destruct (updD (pf s)) eqn:U; auto.
  pose proof (fill_sim_inv T p ms s O I) as [].
  constructor; simpl in *; auto.
  intros K _. rewrite asm_key_ideal by auto. reflexivity.
Qed.

Lemma ideal_cfg p ms s c v :
  cur c = cur (cf s) -> rho c = rho (cf s) -> ray c = ray (cf s) -> ldim c = ldim (cf s) ->
  ideal p ms (set_cf s c) v = ideal p ms s v.
Proof. intros H1 H2 H3 H4. unfold ideal. simpl. rewrite H1, H2, H3, H4. reflexivity. Qed.

(* a configuration change that leaves everything the matrices depend on untouched *)
Lemma recfg_same p ms s c :
  SimInv p ms s -> cur c = cur (cf s) -> rho c = rho (cf s) -> ray c = ray (cf s) ->
  ldim c = ldim (cf s) -> solU c = solU (cf s) -> solD c = solD (cf s) -> SimInv p ms (set_cf s c).
Proof.
  intros [] H1 H2 H3 H4 H5 H6. constructor; simpl; auto; try (rewrite H1; auto).
  - intros K N. fold (set_cf s c). rewrite ideal_cfg; auto.
  - intros K U. fold (set_cf s c). rewrite ideal_cfg, H6; auto.
  - intros K U. fold (set_cf s c). rewrite ideal_cfg, H5; auto.
Qed.

Lemma recfg_struct ms s c : Struct ms s -> In (cur c) (subs (rg s)) -> Struct ms (set_cf s c).
Proof. intros [] H. constructor; simpl; auto. Qed.

Lemma recfg_stale s c : Stale s -> Stale (set_cf s c).
Proof. intros [H1 H2]. split; simpl; auto. Qed.

(* a configuration change followed by Need_Update *)
Lemma recfg_raise T p ms s c :
  TOk T -> SimInv p ms s -> In (cur c) (subs (rg s)) -> cur c = cur (cf s) -> SimInv p ms (raise T (set_cf s c)).
Proof.
  intros O I H Hc. apply struct_stale_inv.
  - apply raise_struct, recfg_struct; auto. eapply inv_struct; eauto.
  - apply raise_stale; auto.
  - rewrite raise_st, raise_cf. simpl. rewrite Hc. apply (i_st _ _ _ I).
Qed.

Lemma set_solU_inv p ms v s :
  SimInv p ms s -> (kd s = KPF -> updD (pf s) = false) -> SimInv p ms (set_solU v s).
Proof.
  intros [] H. constructor; simpl; auto.
  intros K U. rewrite (H K) in U. discriminate.
Qed.

Lemma set_solD_inv p ms v s :
  SimInv p ms s -> (kd s = KPF -> updU (pf s) = false) -> SimInv p ms (set_solD v s).
Proof.
  intros [] H. constructor; simpl; auto.
  intros K U. rewrite (H K) in U. discriminate.
Qed.

Lemma set_flags_inv p ms d u s :
  SimInv p ms s -> (d = true -> updD (pf s) = true) -> (u = true -> updU (pf s) = true) ->
  SimInv p ms (set_flags d u s).
Proof. intros [] H1 H2. constructor; simpl; auto. Qed.

(* ---- one step preserves the invariant ------------------------------------------------------- *)
Lemma on_sim_inv w i f :
  WInv w -> (forall s, SimInv (par w) (meshes w) s -> SimInv (par w) (meshes w) (f s)) -> WInv (on_sim w i f).
Proof.
  intros [HM HS] Hf. split; simpl; auto.
  eapply Forall_upd_nth; eauto.
Qed.

Lemma react_model_inv T sub p p' ms s : TOk T -> SimInv p ms s -> SimInv p' ms (react_model T sub s).
Proof.
  intros O I. unfold react_model.
  rewrite (o_param_need _ O), (o_model_notify _ O), (o_upd_model_need _ O). simpl.
  assert (R : match kd s with KPF => if sub then submat (rg s) else subm (rg s) | _ => subm (rg s) end = true).
  { destruct (kd s) eqn:K; try apply (i_subm _ _ _ I). destruct sub; [apply (i_submat _ _ _ I K)|apply (i_subm _ _ _ I)]. }
  rewrite R. simpl. apply struct_stale_inv.
  - apply raise_struct. eapply inv_struct; eauto.
  - apply raise_stale; auto.
  - rewrite raise_st, raise_cf. apply (i_st _ _ _ I).
Qed.

Lemma mget_upd_neq m j g ms : m <> j -> mget (upd_nth m g ms) j = mget ms j.
Proof. intros. unfold mget. apply nth_upd_nth_neq; auto. Qed.

Lemma react_mesh_inv T m k p ms g s :
  TOk T -> SimInv p ms s -> SimInv p (upd_nth m g ms) (react_mesh T m k s).
Proof.
  intros O I. unfold react_mesh. rewrite (o_mesh_notify _ O). simpl.
  destruct (existsb (Nat.eqb m) (subs (rg s))) eqn:E.
  - rewrite (o_upd_mesh_clear _ O), (o_upd_mesh_need _ O).
    apply struct_stale_inv; [|apply raise_stale; auto|rewrite raise_st, raise_cf; simpl; apply (i_st _ _ _ I)].
    apply raise_struct. eapply struct_frame.
    + apply clear_struct. eapply inv_struct; eauto.
    + rewrite upd_nth_length. auto.
    + simpl. intros e [].
  - assert (NI : ~ In m (subs (rg s))).
    { intros H. apply existsb_eqb_In in H. congruence. }
    eapply inv_frame; eauto.
    + rewrite upd_nth_length. auto.
    + intros j Hj. rewrite mget_upd_neq; auto. intros ->. auto.
Qed.

Lemma new_sim_inv T k m v p ms : TOk T -> m < length ms -> SimInv p ms (new_sim T k m v).
Proof.
  intros O Hm. unfold new_sim. rewrite (o_meshset_sub _ O), (o_init_sub_model _ O), (o_pf_sub_material _ O).
  constructor; simpl; auto; try discriminate.
  apply Forall_forall. intros x Hx. simpl in Hx. destruct Hx as [<-|Hx]; auto.
  destruct (t_init_sub_mesh T); simpl in Hx; intuition (subst; auto).
Qed.

Lemma mget_app ms x j : j < length ms -> mget (ms ++ [x]) j = mget ms j.
Proof. intros. unfold mget. apply app_nth1. auto. Qed.

Lemma set_st_same_inv p ms s : SimInv p ms s -> SimInv p ms (set_st s (cur (cf s))).
Proof. intros []. constructor; simpl; auto. Qed.

Lemma apply_mode_st T md lag s : st (apply_mode T md lag s) = st s.
Proof. unfold apply_mode. destruct md; try destruct lag; auto using raise_st. Qed.
Lemma apply_mode_cf T md lag s : cf (apply_mode T md lag s) = cf s.
Proof. unfold apply_mode. destruct md; try destruct lag; auto using raise_cf. Qed.
Lemma apply_mode_struct T md lag ms s : Struct ms s -> Struct ms (apply_mode T md lag s).
Proof. intros. unfold apply_mode. destruct md; try destruct lag; auto using raise_struct. Qed.
Lemma apply_mode_stale T md lag s : TOk T -> Stale s -> Stale (apply_mode T md lag s).
Proof. intros. unfold apply_mode. destruct md; try destruct lag; auto using raise_stale. Qed.

Lemma setmesh_sim_inv T m v1 v2 p ms s :
  TOk T -> m < length ms -> SimInv p ms s -> SimInv p ms (setmesh_sim T m v1 v2 s).
Proof.
  intros O Hm I. unfold setmesh_sim.
  rewrite (o_meshset_sub _ O), (o_meshset_need _ O), (o_meshset_initsols _ O), (o_meshset_keeps_old _ O).
  pose proof (inv_struct _ _ _ I) as St.
  set (a := set_rg (set_cur m _) _).
  assert (Sa : Struct ms a).
  { destruct St. constructor; simpl; auto.
    - eapply Forall_impl; [|exact s_mass0]. simpl. intros e [H1 H2]. auto.
    - eapply Forall_impl; [|exact s_iters0]. simpl. auto. }
  set (b := if t_meshset_clear T then clear_simcache a else a).
  assert (Sb : Struct ms b) by (unfold b; destruct (t_meshset_clear T); auto using clear_struct).
  assert (Eb : st b = m /\ cur (cf b) = m) by (unfold b; destruct (t_meshset_clear T); simpl; auto).
  set (c := raise T b).
  assert (Sc : Struct ms c) by (apply raise_struct; auto).
  assert (Tc : Stale c) by (apply raise_stale; auto).
  apply struct_stale_inv.
  - apply apply_mode_struct. apply recfg_struct; auto; simpl; destruct Sc; auto.
  - apply apply_mode_stale; auto; apply recfg_stale; auto.
  - rewrite apply_mode_st, apply_mode_cf. simpl. unfold c. rewrite raise_st, raise_cf. destruct Eb as [-> ->]. reflexivity.
Qed.

Lemma setiter_sim_inv T j v1 v2 p ms s :
  TOk T -> SimInv p ms s -> SimInv p ms (setiter_sim T j v1 v2 s).
Proof.
  intros O I. unfold setiter_sim. destruct (nth_error (iters (rg s)) j) as [m|] eqn:E; auto.
  assert (Hm : In m (subs (rg s))).
  { pose proof (i_iters _ _ _ I) as H. rewrite Forall_forall in H. apply H. eapply nth_error_In; eauto. }
  pose proof (inv_struct _ _ _ I) as St.
  set (s0 := set_st (set_solD v2 (set_solU v1 s)) m).
  assert (S0 : Struct ms s0) by (destruct St; constructor; simpl; auto).
  set (s1 := if Nat.eqb m (cur (cf s)) then s0 else _).
  assert (K1 : kd s1 = kd s).
  { unfold s1. destruct (Nat.eqb m (cur (cf s))); auto. rewrite (o_updmesh_need _ O). rewrite raise_kd.
    destruct (t_updmesh_clear T); reflexivity. }
  assert (S1 : Struct ms s1 /\ st s1 = cur (cf s1)).
  { unfold s1. destruct (Nat.eqb m (cur (cf s))) eqn:Em.
    - apply Nat.eqb_eq in Em. split; auto.
    - rewrite (o_updmesh_need _ O). split.
      + apply raise_struct.
        assert (Struct ms (set_cur m s0)) by (apply recfg_struct; auto).
        destruct (t_updmesh_clear T); auto using clear_struct.
      + rewrite raise_st, raise_cf. destruct (t_updmesh_clear T); reflexivity. }
  destruct S1 as [S1 E1].
  assert (N1 : kd s <> KPF -> SimInv p ms s1).
  { intros NK. unfold s1. destruct (Nat.eqb m (cur (cf s))) eqn:Em.
    - apply Nat.eqb_eq in Em. unfold s0.
      assert (SimInv p ms (set_solD v2 (set_solU v1 s))).
      { apply set_solD_inv; [apply set_solU_inv; auto|]; simpl; intros; congruence. }
      destruct H. constructor; simpl in *; auto.
    - rewrite (o_updmesh_need _ O). apply struct_stale_inv.
      + apply raise_struct.
        assert (Struct ms (set_cur m s0)) by (apply recfg_struct; auto).
        destruct (t_updmesh_clear T); auto using clear_struct.
      + apply raise_stale; auto.
      + rewrite raise_st, raise_cf. destruct (t_updmesh_clear T); reflexivity. }
  destruct (kd s) eqn:K.
  - apply N1. congruence.
  - apply N1. congruence.
  - rewrite (o_pf_setiter_d _ O), (o_pf_setiter_u _ O).
    apply struct_stale_inv.
    + destruct S1. constructor; simpl; auto.
    + split; simpl; intros; auto. congruence.
    + simpl. auto.
Qed.

Lemma solve_sim_inv T v1 v2 p mc ms s :
  TOk T -> Forall MeshInv ms -> SimInv p ms s -> SimInv p ms (solve_sim T p mc ms v1 v2 s).
Proof.
  intros O HM I. unfold solve_sim. apply set_st_same_inv. unfold solve_sim0. destruct (kd s) eqn:K.
  - apply set_solU_inv. apply getk_sim_inv; auto.
    unfold getk_sim. destruct (need (ca s)); simpl; intros; congruence.
  - rewrite (o_newton_need _ O). apply set_solU_inv.
    + apply getk_sim_inv; auto using raise_inv. rewrite raise_kd. intros; congruence.
    + unfold getk_sim. destruct (need (ca (raise T s))); simpl; rewrite ?raise_kd; intros; congruence.
  - rewrite (o_pf_dmg_inval_u _ O), (o_pf_el_inval_d _ O).
    set (s1 := set_solD v1 (getkD T p mc ms s)).
    (* damage solve: U flag must go false before solD changes; model order: set_solD then flags *)
    assert (I2 : SimInv p ms (set_flags (updD (pf s1)) false s1)).
    { pose proof (getkD_inv T p mc ms s O HM I) as [].
      unfold s1. constructor; simpl in *; auto. intros; discriminate. }
    set (s2 := set_flags (updD (pf s1)) false s1) in *.
    pose proof (getkU_inv T p mc ms s2 O HM I2) as I3.
    set (s3' := getkU T p mc ms s2) in *.
    destruct I3. constructor; simpl in *; auto. intros; discriminate.
Qed.

Theorem step_inv T w o : TOk T -> WInv w -> WInv (step T w o).
Proof.
  intros O W. pose proof W as [HM HS]. destruct o; simpl.
  - (* OParam *) split; simpl; auto. eapply Forall_map'; eauto. intros x Hx. apply react_model_inv with (p := par w); auto.
  - (* OParamArr *) rewrite (o_param_set_unconditional _ O), andb_false_r. split; simpl; auto.
    eapply Forall_map'; eauto. intros x Hx. apply react_model_inv with (p := par w); auto.
  - (* OMeshMove *) split; simpl.
    + eapply Forall_upd_nth; eauto. intros x _. left. simpl. rewrite (o_mesh_clear _ O). reflexivity.
    + destruct (Nat.ltb m (length (meshes w))) eqn:L.
      * eapply Forall_map'; eauto. intros. apply react_mesh_inv; auto.
      * apply Nat.ltb_ge in L. rewrite nth_upd_nth_oob by auto. auto.
  - (* ONewMesh *) split; simpl.
    + apply Forall_app. split; auto. constructor; auto. left. reflexivity.
    + eapply Forall_impl; [|exact HS]. intros s I. eapply inv_frame; eauto.
      * rewrite app_length. lia.
      * intros j Hj. rewrite mget_app; auto.
        pose proof (i_bnd _ _ _ I) as B. rewrite Forall_forall in B. auto.
  - (* OGeoRead *) split; simpl; auto using fill_meshinv.
    eapply Forall_impl; [|exact HS]. intros. apply inv_fill; auto.
  - (* ONewSim *) destruct (Nat.ltb m (length (meshes w))) eqn:L; auto.
    apply Nat.ltb_lt in L. split; simpl; auto. apply Forall_app. split; auto.
    constructor; auto. apply new_sim_inv; auto.
  - (* ORho *) apply on_sim_inv; auto. intros s I. rewrite (o_rho_need _ O).
    apply recfg_raise; auto. simpl. apply (i_sub _ _ _ I).
  - (* ORay *) apply on_sim_inv; auto. intros s I. rewrite (o_ray_need _ O).
    apply recfg_raise; auto. simpl. apply (i_sub _ _ _ I).
  - (* ORhoAug *) rewrite (o_param_get_copies _ O). apply on_sim_inv; auto. intros s I. rewrite (o_rho_need _ O).
    apply recfg_raise; auto. simpl. apply (i_sub _ _ _ I).
  - (* OSetMesh *) destruct (Nat.ltb m (length (meshes w))) eqn:L; auto. apply Nat.ltb_lt in L.
    apply on_sim_inv; auto. intros. apply setmesh_sim_inv; auto.
  - (* OBcInit *) apply on_sim_inv; auto. intros s I.
    destruct (N.eqb (nlag (cf s)) 0) eqn:E; simpl.
    + apply apply_mode_inv; auto. apply recfg_same; auto. simpl.
      unfold ldim. simpl. rewrite E. reflexivity.
    + pose proof (o_bcinit _ O). unfold apply_mode. destruct (t_bcinit T); try congruence;
        apply recfg_raise; auto; simpl; apply (i_sub _ _ _ I).
  - (* ODirichlet *) apply on_sim_inv; auto. intros s I.
    destruct (N.eqb (nlag (cf s)) 0) eqn:E; simpl.
    + apply apply_mode_inv; auto. apply recfg_same; auto. simpl.
      unfold ldim. simpl. rewrite E. reflexivity.
    + pose proof (o_dirichlet _ O). unfold apply_mode. destruct (t_dirichlet T); try congruence;
        apply recfg_raise; auto; simpl; apply (i_sub _ _ _ I).
  - (* ONeumann *) apply on_sim_inv; auto. intros. apply apply_mode_inv; auto.
  - (* OLagrange *) apply on_sim_inv; auto. intros s I.
    pose proof (o_lagrange _ O). unfold apply_mode. destruct (t_lagrange T); try congruence;
      apply recfg_raise; auto; simpl; apply (i_sub _ _ _ I).
  - (* OAlgo *) apply on_sim_inv; auto. intros s I. apply recfg_same; auto.
  - (* OGetK *) destruct (nth_error (sims w) i) as [s0|] eqn:E; auto.
    destruct (kd s0) eqn:K; auto.
    + split; simpl.
      * destruct (need (ca s0)); auto using fill_meshinv.
      * assert (Forall (SimInv (par w) (meshes w)) (upd_nth i (getk_sim T (par w) (mcache w) (meshes w) 0) (sims w))).
        { eapply Forall_upd_nth; eauto. intros. apply getk_sim_inv; auto. }
        destruct (need (ca s0)); auto. eapply Forall_impl; [|exact H]. intros. apply inv_fill; auto.
    + split; simpl.
      * destruct (if dmg then updD (pf s0) else updU (pf s0)); auto using fill_meshinv.
      * assert (Forall (SimInv (par w) (meshes w))
                  (upd_nth i (if dmg then getkD T (par w) (mcache w) (meshes w) else getkU T (par w) (mcache w) (meshes w)) (sims w))).
        { eapply Forall_upd_nth; eauto. intros. destruct dmg; [apply getkD_inv|apply getkU_inv]; auto. }
        destruct (if dmg then updD (pf s0) else updU (pf s0)); auto.
        eapply Forall_impl; [|exact H]. intros. apply inv_fill; auto.
  - (* OSolve *) destruct (nth_error (sims w) i) as [s0|] eqn:E; auto.
    split; simpl; auto using fill_meshinv.
    assert (Forall (SimInv (par w) (meshes w))
              (upd_nth i (solve_sim T (par w) (mcache w) (meshes w) (tick w) (tick2 w)) (sims w))).
    { eapply Forall_upd_nth; eauto. intros. apply solve_sim_inv; auto. }
    eapply Forall_impl; [|exact H]. intros. apply inv_fill; auto.
  - (* OSaveIter *) apply on_sim_inv; auto. intros s []. constructor; simpl; auto.
    apply Forall_app. split; auto.
  - (* OSetIter *) apply on_sim_inv; auto. intros. apply setiter_sim_inv; auto.
Qed.

Lemma w0_inv : WInv w0.
Proof. split; simpl; auto. constructor; auto. left. reflexivity. Qed.

Theorem run_inv T ops w : TOk T -> WInv w -> WInv (run T ops w).
Proof. intros O. unfold run. revert w. induction ops; simpl; auto. intros. apply IHops. apply step_inv; auto. Qed.

(* ---- the property -------------------------------------------------------------------------------- *)
(* a brand-new simulation object built directly in the configuration of [s], on a brand-new mesh
   object carrying the same coordinates (empty caches everywhere) *)
Definition fresh_sim (s : simS) : simS :=
  mkSim (kd s) (cf s) (mkCache true None [] []) (mkPf false false None None)
        (mkReg [cur (cf s)] [cur (cf s)] true true []) (cur (cf s)).
Definition pristine1 (m : meshS) : meshS := mkMesh (pose m) (shape m) None.
Definition pristine (ms : list meshS) : list meshS := map pristine1 ms.

Lemma mget_pristine ms j : pose (mget (pristine ms) j) = pose (mget ms j) /\ shape (mget (pristine ms) j) = shape (mget ms j) /\ gtag (mget (pristine ms) j) = None.
Proof.
  unfold mget, pristine.
  replace (nth j (map pristine1 ms) dmesh) with (pristine1 (nth j ms dmesh)).
  - simpl. auto.
  - change dmesh with (pristine1 dmesh) at 2. symmetry. apply map_nth.
Qed.

Lemma observe_fresh T p ms s : observe T p None (pristine ms) (fresh_sim s) = ideal_obs p ms s.
Proof.
  destruct (mget_pristine ms (cur (cf s))) as [E1 [E2 E3]].
  assert (A : forall v, asm_key T p None (pristine ms) (fresh_sim s) v = ideal p ms s v).
  { intros v. unfold asm_key, ideal, mass_used, csr_used, geo_used, derived_used. simpl. rewrite E1, E2, E3.
    destruct (kd s); destruct (t_model_cache_refresh T); reflexivity. }
  unfold observe, ideal_obs.
  change (kd (fresh_sim s)) with (kd s).
  change (need (ca (fresh_sim s))) with true.
  change (updU (pf (fresh_sim s))) with false.
  change (updD (pf (fresh_sim s))) with false.
  change (cf (fresh_sim s)) with (cf s).
  rewrite orb_true_r. destruct (kd s); rewrite !A; reflexivity.
Qed.

(* C14, model level: after ANY list of operations, what every simulation of the world will use
   for its next matrices is what a freshly built simulation in the same configuration uses. *)
Theorem fresh_equiv T : table_ok T = true ->
  forall ops i s, nth_error (sims (run T ops w0)) i = Some s ->
  let w := run T ops w0 in
  observe T (par w) (mcache w) (meshes w) s = observe T (par w) None (pristine (meshes w)) (fresh_sim s).
Proof.
  intros H ops i s E w. apply table_ok_spec in H.
  pose proof (run_inv T ops w0 H w0_inv) as [HM HS]. fold w in HM, HS.
  rewrite observe_fresh. apply observe_is_ideal; auto.
  eapply Forall_nth_error; eauto.
Qed.

(* shared model: one parameter assignment flags EVERY simulation observing the model *)
Theorem shared_model T : table_ok T = true ->
  forall ops sub i s, nth_error (sims (step T (run T ops w0) (OParam sub))) i = Some s ->
  Stale s.
Proof.
  intros H ops sub i s E. apply table_ok_spec in H.
  pose proof (run_inv T ops w0 H w0_inv) as [HM HS]. simpl in E.
  apply nth_error_In in E. apply in_map_iff in E. destruct E as [s0 [<- Hs0]].
  rewrite Forall_forall in HS. specialize (HS _ Hs0).
  unfold react_model.
  rewrite (o_param_need _ H), (o_model_notify _ H), (o_upd_model_need _ H). simpl.
  assert (R : match kd s0 with KPF => if sub then submat (rg s0) else subm (rg s0) | _ => subm (rg s0) end = true).
  { destruct (kd s0) eqn:K; try apply (i_subm _ _ _ HS). destruct sub; [apply (i_submat _ _ _ HS K)|apply (i_subm _ _ _ HS)]. }
  rewrite R. simpl. apply raise_stale; auto.
Qed.

(* staggered phase-field flags: within one staggered iteration the displacement system is rebuilt
   from the NEW damage field, and the damage system is flagged stale by the new displacement *)
Theorem staggered_flags T p mc ms v1 v2 s : table_ok T = true -> kd s = KPF ->
  let s' := solve_sim T p mc ms v1 v2 s in
  updD (pf s') = false /\ updU (pf s') = true /\ option_map k_sol (kU (pf s')) = Some v1 /\
  solD (cf s') = v1 /\ solU (cf s') = v2.
Proof.
  intros H K. apply table_ok_spec in H. unfold solve_sim, solve_sim0. rewrite K.
  rewrite (o_pf_dmg_inval_u _ H), (o_pf_el_inval_d _ H).
  unfold getkU at 1. simpl. unfold getkD. destruct (updD (pf s)); simpl; auto.
Qed.

(* model, mesh and Set_Iter invalidate BOTH per-problem flags of a phase-field simulation *)
Theorem staggered_invalidation T s : table_ok T = true -> kd s = KPF ->
  Stale (raise T s) /\
  (forall j v1 v2 m, nth_error (iters (rg s)) j = Some m -> Stale (setiter_sim T j v1 v2 s)).
Proof.
  intros H K. apply table_ok_spec in H. split. apply raise_stale; auto.
  intros j v1 v2 m E. unfold setiter_sim. rewrite E, K.
  rewrite (o_pf_setiter_d _ H), (o_pf_setiter_u _ H), (o_updmesh_need _ H). split; simpl; auto.
  destruct (Nat.eqb m (cur (cf s))); simpl; rewrite ?raise_kd; destruct (t_updmesh_clear T); simpl; congruence.
Qed.

(* ---- non-vacuity and necessity (by computation on the model) ------------------------------------ *)
Example good_table_ok : table_ok good_table = true.
Proof. vm_compute. reflexivity. Qed.

Example good_table_no_failing : failing good_table = [].
Proof. vm_compute. reflexivity. Qed.

(* on the good table no witness refutes ... *)
Example good_table_not_refuted : forallb (fun id => negb (refutes good_table (witness id))) all_ids = true.
Proof. vm_compute. reflexivity. Qed.

(* ... and switching off ANY single required flag is refuted by its witness: every conjunct of
   table_ok is necessary on the model.  Exception, stated honestly: the "group is part of the cache
   key" flags 31 and 33 are necessary only when the mesh setter does not also clear the simulation
   cache (flag 40); with that clear present table_ok is stricter than needed for these two. *)
Definition necessity_table (id : nat) : table :=
  match id with 31 | 33 => mk_table [id; 40] | _ => mk_table [id] end.
Example every_flag_necessary :
  forallb (fun id => negb (table_ok (necessity_table id)) && refutes (necessity_table id) (witness id)) all_ids = true.
Proof. vm_compute. reflexivity. Qed.

(* a concrete multi-simulation run on the good table *)
Example good_run :
  stale_sims good_table
    (run good_table [ONewSim KLin 0; ONewSim KPF 0; ONewSim KNonLin 0; OSolve 0; OSolve 1; OSolve 2;
                     OMeshMove 0 MCoordSet; OParam true; ONewMesh; OSetMesh 0 1; OSaveIter 1;
                     OLagrange 0; OGetK 0 false; ODirichlet 0 2; OMeshMove 1 MRotate; OSetIter 1 0;
                     OSolve 2; ORho 2] w0) = [].
Proof. vm_compute. reflexivity. Qed.

(* ---- the refinement statement in executable form ---------------------------------------------------- *)
(* the boolean comparison used by [stale_sims] (and by the correspondence harness through [trace]) is sound and
   complete for equality of observations *)
Lemma ckey_eqb_refl k : ckey_eqb k k = true.
Proof. destruct k. unfold ckey_eqb. simpl. rewrite Nat.eqb_refl, N.eqb_refl. reflexivity. Qed.

Lemma key_eqb_refl k : key_eqb k k = true.
Proof. unfold key_eqb. rewrite !Nat.eqb_refl, !N.eqb_refl, ckey_eqb_refl. reflexivity. Qed.

Lemma obs_eqb_refl l : obs_eqb l l = true.
Proof. induction l as [|[k|] r IH]; simpl; auto. rewrite key_eqb_refl. auto. Qed.

Lemma key_eqb_eq a b : key_eqb a b = true -> a = b.
Proof.
  destruct a, b. unfold key_eqb. simpl. intros H.
  repeat (apply andb_true_iff in H; let H2 := fresh "H" in destruct H as [H H2]).
  repeat match goal with
         | X : Nat.eqb _ _ = true |- _ => apply Nat.eqb_eq in X
         | X : N.eqb _ _ = true |- _ => apply N.eqb_eq in X
         | X : ckey_eqb _ _ = true |- _ => apply ckey_eqb_eq in X
         end.
  subst. reflexivity.
Qed.

Lemma obs_eqb_eq a b : obs_eqb a b = true -> a = b.
Proof.
  revert b. induction a as [|x r IH]; intros [|y q]; simpl; try discriminate; auto.
  intros H. apply andb_true_iff in H. destruct H as [H1 H2]. f_equal; auto.
  destruct x, y; simpl in H1; try discriminate; auto. f_equal. apply key_eqb_eq. auto.
Qed.

Lemma filter_none {A} (f : A -> bool) l : (forall x, In x l -> f x = false) -> filter f l = [].
Proof. induction l; simpl; auto. intros H. rewrite (H a) by auto. apply IHl. intros. apply H. auto. Qed.

(* FULL STRENGTH, all simulations at once, for EVERY op list over the whole alphabet (parameter sets incl. array-valued
   ones, mesh moves, mesh construction / replacement, boundary conditions, scheme switches, assemblies, solves,
   Save_Iter / Set_Iter incl. switching meshes of the history, construction of further simulations): no simulation of the
   world is stale, i.e. each one observes exactly like a freshly built simulation in its configuration *)
Theorem no_stale_sims T : table_ok T = true -> forall ops, stale_sims T (run T ops w0) = [].
Proof.
  intros H ops. pose proof (table_ok_spec _ H) as O.
  pose proof (run_inv T ops w0 O w0_inv) as [HM HS].
  unfold stale_sims. set (w := run T ops w0) in *.
  rewrite filter_none; auto.
  intros [i s] Hin. apply in_combine_r in Hin. simpl.
  rewrite Forall_forall in HS. specialize (HS _ Hin).
  rewrite (observe_is_ideal T (par w) (mcache w) (meshes w) s O HM HS), obs_eqb_refl. reflexivity.
Qed.

(* the per-step predictions handed to the correspondence harness never contain a stale simulation *)
Theorem trace_never_stale T : table_ok T = true -> forall ops pre,
  Forall (fun x => snd x = []) (trace T ops (run T pre w0)).
Proof.
  intros H ops. induction ops as [|o r IH]; intros pre; simpl; constructor.
  - simpl. replace (step T (run T pre w0) o) with (run T (pre ++ [o]) w0).
    + apply no_stale_sims. auto.
    + unfold run. rewrite fold_left_app. reflexivity.
  - replace (step T (run T pre w0) o) with (run T (pre ++ [o]) w0).
    + apply IH.
    + unfold run. rewrite fold_left_app. reflexivity.
Qed.

(* and conversely a non-empty [stale_sims] exhibits a simulation that does NOT observe like a fresh one *)
Theorem stale_sims_sound T w i : In i (stale_sims T w) ->
  exists s, In s (sims w) /\ observe T (par w) (mcache w) (meshes w) s <> ideal_obs (par w) (meshes w) s.
Proof.
  unfold stale_sims. intros H. apply in_map_iff in H. destruct H as [[j s] [E H]]. simpl in E. subst j.
  apply filter_In in H. destruct H as [Hin Hb]. simpl in Hb.
  exists s. split.
  - eapply in_combine_r; eauto.
  - intros E. rewrite E, obs_eqb_refl in Hb. discriminate.
Qed.

(* non-vacuity on a long concrete history that uses EVERY constructor of [op] (checked by [covers_all_ops]),
   three simulation kinds, three meshes, shared model, mesh history with restores *)
Definition op_tag (o : op) : nat :=
  match o with
  | OParam _ => 0 | OParamArr _ _ => 1 | OMeshMove _ _ => 2 | ONewMesh => 3 | OGeoRead _ => 4 | ONewSim _ _ => 5
  | ORho _ => 6 | ORhoAug _ _ => 18 | ORay _ => 7 | OSetMesh _ _ => 8 | OBcInit _ => 9 | ODirichlet _ _ => 10 | ONeumann _ => 11
  | OLagrange _ => 12 | OAlgo _ _ => 13 | OGetK _ _ => 14 | OSolve _ => 15 | OSaveIter _ => 16 | OSetIter _ _ => 17
  end.
Definition covers_all_ops (ops : list op) : bool :=
  forallb (fun t => existsb (fun o => Nat.eqb (op_tag o) t) ops) (seq 0 19).

Definition long_history : list op :=
  [ONewSim KLin 0; ONewSim KPF 0; ONewSim KNonLin 0; ODirichlet 0 2; OLagrange 0; ONeumann 0; OGetK 0 false;
   OSolve 0; OSolve 1; OSolve 2; OSaveIter 0; OSaveIter 1; OSaveIter 2; OParam false; OParamArr true false;
   OParamArr false true; OGetK 1 true; OGetK 1 false; OMeshMove 0 MTranslate; OMeshMove 0 MRotate;
   OMeshMove 0 MSymmetry; OMeshMove 0 MCoordSet; OGeoRead 0; ONewMesh; OSetMesh 0 1; ODirichlet 0 1; OSolve 0;
   OSaveIter 0; ONewMesh; OSetMesh 2 2; OSolve 2; OSaveIter 2; ORho 2; ORay 0; OAlgo 0 1%N; OAlgo 2 2%N;
   OSetIter 0 0; OBcInit 0; OGetK 0 false; OMeshMove 0 MCoordSet; OMeshMove 1 MRotate; OSetIter 2 0; OSolve 2;
   OSetIter 1 0; OSolve 1; OSetMesh 1 1; OSolve 1; OParam true; OMeshMove 2 MCoordSet; ONewSim KLin 2; OSolve 3;
   OSetIter 0 1; OLagrange 0; ODirichlet 0 3; OBcInit 0; OSolve 0; ORhoAug 0 3; OSolve 3].

Example long_history_covers_every_op : covers_all_ops long_history = true.
Proof. vm_compute. reflexivity. Qed.

Example long_history_fresh :
  stale_sims good_table (run good_table long_history w0) = [] /\ length (sims (run good_table long_history w0)) = 4.
Proof. vm_compute. split; reflexivity. Qed.

(* ... and the same history is NOT fresh as soon as one table entry is off (here: the coordinate setter does not notify) *)
Example long_history_detects :
  existsb (fun x => match snd x with [] => false | _ => true end) (trace (mk_table [17]) long_history w0) = true.
Proof. vm_compute. reflexivity. Qed.
