(* C04 -- existence and uniqueness for the Lagrange bordered system with Dirichlet constraints only:
   if the reduced (eliminated) system is uniquely solvable, the bordered system of Solvers.__Solver_2
   (one line per distinct constrained dof, alpha invertible) has exactly one solution, and its x part is the
   solution returned by the elimination solver __Solver_1. *)
From Coq Require Import ZArith List Bool Lia Ring.
From EFModel Require Import C03_Csr C04_Solve.
Import ListNotations.
Open Scope Z_scope.

Section Ring.
Variable R : Type.
Variables (rO rI : R) (radd rmul rsub : R -> R -> R) (ropp : R -> R).
Variable Rth : ring_theory rO rI radd rmul rsub ropp (@eq R).
Add Ring Rring2 : Rth.
Hypothesis rmul_cancel : forall a u v, a <> rO -> rmul a u = rmul a v -> u = v.
Infix "+r" := radd (at level 50, left associativity).
Infix "*r" := rmul (at level 40, left associativity).
Infix "-r" := rsub (at level 50, left associativity).

Notation sum_over := (sum_over R rO radd).
Notation entered_sum := (entered_sum R rO radd).
Notation x_r1 := (x_r1 R rO radd).
Notation bordered_solution := (bordered_solution R rO radd rmul).

Lemma entered_sum_nth_nodup dofs (vals : list R) k :
  NoDup dofs -> length vals = length dofs -> (k < length dofs)%nat ->
  entered_sum dofs vals (nth k dofs 0) = nth k vals rO.
Proof.
  revert vals k. unfold C04_Solve.entered_sum.
  induction dofs as [|d t IH]; intros [|v vt] k Hn HL Hk; simpl in *; try lia.
  inversion Hn; subst. destruct k as [|k].
  - rewrite Z.eqb_refl.
    fold (C04_Solve.entered_sum R rO radd t vt d).
    rewrite (entered_sum_absent R rO rI radd rmul rsub ropp Rth) by assumption. ring.
  - assert (nth k t 0 <> d) by (intros E; apply H1; rewrite <- E; apply nth_In; lia).
    replace (d =? nth k t 0) with false by lia. rewrite IH by (try assumption; lia). ring.
Qed.

Lemma entered_sum_map_nodup dofs (g : Z -> R) d :
  NoDup dofs -> In d dofs -> entered_sum dofs (map g dofs) d = g d.
Proof.
  intros Hn Hin. destruct (In_nth dofs d 0 Hin) as (k & Hk & <-).
  rewrite entered_sum_nth_nodup by (try assumption; now rewrite map_length).
  rewrite nth_indep with (d' := g 0) by (now rewrite map_length). apply map_nth.
Qed.

Lemma entered_sum_pair_nodup dofs (vals : list R) d v :
  NoDup dofs -> length vals = length dofs -> In (d, v) (combine dofs vals) -> entered_sum dofs vals d = v.
Proof.
  intros Hn HL Hin. destruct (In_nth _ _ (0, rO) Hin) as (k & Hk & E).
  rewrite combine_length, HL, Nat.min_id in Hk. rewrite combine_nth in E by (symmetry; assumption).
  inversion E; subst. now apply entered_sum_nth_nodup.
Qed.

Section Sys.
Variable n : Z.
Variable alpha ainv : R.
Hypothesis alpha_inv : alpha *r ainv = rI.
Hypothesis alpha_nz : alpha <> rO.
Variable A : Z -> Z -> R.
Variable b : Z -> R.
Variable dofsD : list Z.
Variable valuesD : list R.
Hypothesis HND : NoDup dofsD.
Hypothesis HL : length valuesD = length dofsD.
Hypothesis Hrange : forall d, In d dofsD -> 0 <= d < n.

Let xc := entered_sum dofsD valuesD.
Definition reduced_solution (xi : Z -> R) : Prop :=
  forall i, In i (unknown n dofsD) ->
    sum_over (unknown n dofsD) (fun j => A i j *r xi j)
    = b i -r sum_over (known n dofsD) (fun c => A i c *r xc c).

Lemma Hnonneg : forall d, In d dofsD -> 0 <= d.
Proof. intros d H. apply Hrange in H. lia. Qed.

(* splitting a full row sum into its known and unknown parts *)
Lemma row_split (x : Z -> R) i :
  sum_over (zrange n) (fun j => A i j *r x j)
  = sum_over (known n dofsD) (fun j => A i j *r x j) +r sum_over (unknown n dofsD) (fun j => A i j *r x j).
Proof.
  rewrite (sum_over_split R rO rI radd rmul rsub ropp Rth (fun j => negb (nth (Z.to_nat j) (mask_of n dofsD) true))).
  fold (known n dofsD). f_equal. unfold unknown. f_equal. apply filter_ext. intros a. apply negb_involutive.
Qed.

(* ---- uniqueness ---------------------------------------------------- *)
Theorem bordered_x_is_reduced_solution x lam mu :
  bordered_solution n alpha A b dofsD valuesD [] x lam mu ->
  (forall d, In d (known n dofsD) -> x d = xc d) /\ reduced_solution x.
Proof.
  intros Hb.
  destruct (lagrange_equiv R rO rI radd rmul rsub ropp Rth rmul_cancel n alpha A b dofsD valuesD [] x lam mu alpha_nz Hb)
    as (HD & _ & Hfree).
  assert (Hk : forall d, In d (known n dofsD) -> x d = xc d).
  { intros d Hd. apply known_spec in Hd; [|exact Hnonneg]. destruct Hd as [_ Hd].
    destruct (In_nth dofsD d 0 Hd) as (k & Hk & <-).
    unfold xc. rewrite entered_sum_nth_nodup by (try assumption).
    apply HD. rewrite <- (combine_nth dofsD valuesD k 0 rO) by (symmetry; assumption).
    apply nth_In. rewrite combine_length, HL, Nat.min_id. assumption. }
  split; [assumption|].
  intros i Hi. apply unknown_spec in Hi; [|exact Hnonneg]. destruct Hi as [Hi Hni].
  specialize (Hfree i Hi Hni (fun c H => match H with end)).
  rewrite row_split in Hfree.
  rewrite (sum_over_ext R rO radd (known n dofsD) _ (fun c => A i c *r xc c)) in Hfree
    by (intros c Hc; now rewrite Hk).
  rewrite <- Hfree. ring.
Qed.

Hypothesis reduced_unique :
  forall xi xi', reduced_solution xi -> reduced_solution xi' -> forall j, In j (unknown n dofsD) -> xi j = xi' j.

Theorem bordered_unique x lam mu x' lam' mu' :
  bordered_solution n alpha A b dofsD valuesD [] x lam mu ->
  bordered_solution n alpha A b dofsD valuesD [] x' lam' mu' ->
  (forall j, 0 <= j < n -> x j = x' j) /\ lam = lam' /\ mu = mu'.
Proof.
  intros H1 H2.
  destruct (bordered_x_is_reduced_solution x lam mu H1) as [Hk1 Hr1].
  destruct (bordered_x_is_reduced_solution x' lam' mu' H2) as [Hk2 Hr2].
  assert (Hx : forall j, 0 <= j < n -> x j = x' j).
  { intros j Hj. destruct (proj1 (split_partition n dofsD Hnonneg) j Hj) as [[Hin _]|[_ Hin]].
    - now rewrite Hk1, Hk2.
    - now apply (reduced_unique x x'). }
  split; [assumption|].
  destruct H1 as (L1 & M1 & Rows1 & _ & _). destruct H2 as (L2 & M2 & Rows2 & _ & _).
  split.
  - apply nth_ext with (d := rO) (d' := rO); [congruence|]. intros k Hk. rewrite L1 in Hk.
    assert (Hd : 0 <= nth k dofsD 0 < n) by (apply Hrange, nth_In; assumption).
    pose proof (Rows1 _ Hd) as E1. pose proof (Rows2 _ Hd) as E2. simpl in E1, E2.
    rewrite entered_sum_nth_nodup in E1 by (try assumption).
    rewrite entered_sum_nth_nodup in E2 by (try assumption).
    rewrite (sum_over_ext R rO radd (zrange n) _ (fun j => A (nth k dofsD 0) j *r x' j)) in E1
      by (intros j Hj; apply in_zrange in Hj; now rewrite Hx).
    apply (rmul_cancel alpha); [assumption|].
    transitivity (b (nth k dofsD 0) -r sum_over (zrange n) (fun j => A (nth k dofsD 0) j *r x' j)).
    + rewrite <- E1. ring.
    + rewrite <- E2. ring.
  - destruct mu; destruct mu'; simpl in *; try discriminate; reflexivity.
Qed.

(* ---- existence ----------------------------------------------------- *)
Theorem bordered_exists xi :
  reduced_solution xi ->
  let x := x_r1 n dofsD valuesD xi in
  let lam := map (fun d => ainv *r (b d -r sum_over (zrange n) (fun j => A d j *r x j))) dofsD in
  bordered_solution n alpha A b dofsD valuesD [] x lam [].
Proof.
  intros Hxi x lam. unfold C04_Solve.bordered_solution. repeat split.
  - unfold lam. now rewrite map_length.
  - intros i Hi. simpl. destruct (in_dec Z.eq_dec i dofsD) as [Hin|Hnin].
    + unfold lam. rewrite entered_sum_map_nodup by assumption.
      transitivity (sum_over (zrange n) (fun j => A i j *r x j)
                    +r (alpha *r ainv) *r (b i -r sum_over (zrange n) (fun j => A i j *r x j))); [ring|].
      rewrite alpha_inv. ring.
    + rewrite (entered_sum_absent R rO rI radd rmul rsub ropp Rth) by assumption.
      assert (Hu : In i (unknown n dofsD)) by (apply unknown_spec; [exact Hnonneg|tauto]).
      unfold x. rewrite (r1_residual R rO rI radd rmul rsub ropp Rth n dofsD valuesD A b xi Hnonneg Hxi i Hu). ring.
  - intros d v Hin. f_equal. unfold x.
    assert (Hd : In d dofsD) by (now apply in_combine_l in Hin).
    rewrite r1_constraints by (apply known_spec; [exact Hnonneg|split; [now apply Hrange|assumption]]).
    now apply entered_sum_pair_nodup.
  - intros c [].
Qed.

(* exactly one solution, and its x part is what the elimination solver returns *)
Theorem bordered_exists_unique xi :
  reduced_solution xi ->
  (exists x lam, bordered_solution n alpha A b dofsD valuesD [] x lam []) /\
  (forall x lam mu, bordered_solution n alpha A b dofsD valuesD [] x lam mu ->
     forall j, 0 <= j < n -> x j = x_r1 n dofsD valuesD xi j).
Proof.
  intros Hxi. split.
  - eexists. eexists. exact (bordered_exists xi Hxi).
  - intros x lam mu Hb j Hj.
    destruct (bordered_unique x lam mu _ _ [] Hb (bordered_exists xi Hxi)) as (Hx & _ & _). now apply Hx.
Qed.
End Sys.

(* ---- duplicated entries: the collapsed bordered system (one line per DISTINCT dof carrying the SUM of the
   entered values -- what __Solver_2 builds after the fix) is uniquely solvable and returns the r1 solution
   of the ORIGINAL, duplicated, entry list: elimination and Lagrange multipliers give the same solution *)
Lemma ssorted_NoDup l : ssorted l -> NoDup l.
Proof.
  induction l as [|a t IH]; simpl; intros H; constructor.
  - destruct H as [Ha _]. intros Hin. specialize (Ha a Hin). lia.
  - apply IH. tauto.
Qed.

Lemma split_set_ext n l1 l2 :
  (forall d, In d l1 -> 0 <= d) -> (forall d, In d l2 -> 0 <= d) ->
  (forall d, In d l1 <-> In d l2) -> known n l1 = known n l2 /\ unknown n l1 = unknown n l2.
Proof.
  intros H1 H2 Hs. unfold known, unknown. split; apply filter_ext_in; intros i Hi;
    apply in_zrange in Hi; rewrite !nth_mask by assumption; f_equal;
    (destruct (zmem i l1) eqn:E1; destruct (zmem i l2) eqn:E2; try reflexivity;
     [apply zmem_In in E1; apply Hs in E1; apply zmem_In in E1; congruence
     |apply zmem_In in E2; apply Hs in E2; apply zmem_In in E2; congruence]).
Qed.

Theorem lagrange_collapsed_equals_r1 n alpha ainv A b dofs values xi :
  alpha *r ainv = rI -> alpha <> rO ->
  (forall d, In d dofs -> 0 <= d < n) ->
  let ud := usort dofs in
  let uv := map (entered_sum dofs values) ud in
  reduced_solution n A b dofs values xi ->
  (forall xa xb, reduced_solution n A b dofs values xa -> reduced_solution n A b dofs values xb ->
     forall j, In j (unknown n dofs) -> xa j = xb j) ->
  (exists x lam, bordered_solution n alpha A b ud uv [] x lam []) /\
  (forall x lam mu, bordered_solution n alpha A b ud uv [] x lam mu ->
     forall j, 0 <= j < n -> x j = x_r1 n dofs values xi j).
Proof.
  intros Hinv Hnz Hr ud uv Hxi Huniq.
  assert (Hnd : NoDup ud) by (unfold ud; apply ssorted_NoDup, usort_sorted).
  assert (HLu : length uv = length ud) by (unfold uv; now rewrite map_length).
  assert (Hru : forall d, In d ud -> 0 <= d < n) by (intros d Hd; apply Hr; exact (proj1 (usort_In dofs d) Hd)).
  assert (Hset : forall d, In d ud <-> In d dofs) by (intros d; unfold ud; apply usort_In).
  destruct (split_set_ext n ud dofs) as [Ek Eu]; try assumption.
  { intros d Hd. apply Hru in Hd. lia. } { intros d Hd. apply Hr in Hd. lia. }
  assert (Hxc : forall c, In c (known n dofs) -> entered_sum ud uv c = entered_sum dofs values c).
  { intros c Hc. apply known_spec in Hc; [|intros d Hd; apply Hr in Hd; lia].
    unfold uv. apply entered_sum_map_nodup; [assumption|]. apply Hset. tauto. }
  assert (Hred : forall x, reduced_solution n A b ud uv x <-> reduced_solution n A b dofs values x).
  { intros x. unfold reduced_solution. rewrite Ek, Eu. split; intros H i Hi; rewrite (H i Hi); f_equal;
      apply (sum_over_ext R rO radd); intros c Hc; [rewrite Hxc|rewrite <- Hxc]; auto. }
  assert (Hx : forall j, x_r1 n ud uv xi j = x_r1 n dofs values xi j).
  { intros j. unfold C04_Solve.x_r1. rewrite Ek. destruct (zmem j (known n dofs)) eqn:E; [|reflexivity].
    apply Hxc. now apply zmem_In. }
  destruct (bordered_exists_unique n alpha ainv Hinv Hnz A b ud uv Hnd HLu Hru) with (xi := xi) as [Hex Hun].
  - intros xa xb Ha Hb j Hj. apply Huniq; [now apply Hred|now apply Hred|now rewrite <- Eu].
  - now apply Hred.
  - split; [assumption|]. intros x lam mu Hb j Hj. rewrite <- Hx. now apply (Hun x lam mu).
Qed.
End Ring.
