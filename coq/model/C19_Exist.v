(* C19_Exist.v — EXISTENCE of the root of the consistency condition, every eigen-structure.

   lam_i >= 0, phi(0) > 0, hardening R non-decreasing and continuous, current yield stress
   K = sigma_y + R(p) > 0, trial state outside the surface (phi(0) - K > 0), no rate law:
   there is a theta >= 0 with r(theta) = 0, and (C19_UniqueGen) it is the only one.
   Proof: r(0) > 0; phi(theta) -> 0 as theta -> infinity (explicit bound by induction on the
   eigen-pairs), so r < 0 eventually; r is continuous on theta >= 0 (phi is differentiable there,
   C19_Return1D_proofs.dphi_is_derivative); intermediate value theorem on t |-> r(t^2). *)
From Coquelicot Require Import Coquelicot.
From Coq Require Import Reals List Lra Bool Psatz.
From EFModel Require Import C19_Return1D C19_Return1D_proofs C19_UniqueGen.
Import List ListNotations.
Open Scope R_scope.

Section Exist.
  Variable sy dt p : R.
  Variable Rh : R -> R.
  Variable ps : list (R * R).
  Hypothesis Hl : lam_nonneg ps.
  Hypothesis Hphi0 : 0 < phi Rops ps 0.
  Hypothesis Rh_mono : forall x y, x <= y -> Rh x <= Rh y.
  Hypothesis Rh_cont : forall x, continuous Rh x.
  Hypothesis HK : 0 < sy + Rh p.
  Hypothesis Hactive : 0 < phi Rops ps 0 - sy - Rh p.

  Notation pt := (mkPoint ps p).
  Notation rho := (resid Rops Rh None dt sy pt).

  Lemma sumw_pos : forall th, 0 <= th -> 0 < sumw Rops ps th.
  Proof.
    intros th Hth. pose proof (carrier ps Hl Hphi0) as Hc.
    clear Hphi0 Hactive. induction ps as [|[l y] r IH]; [inversion Hc|].
    inversion Hl as [|? ? Hq Hr]; subst. cbn [fst] in Hq. cbn [sumw fst snd]. change (oadd Rops) with Rplus.
    assert (0 < dfac Rops th l <= 1) as [Hd _] by (apply dfac_pos; assumption).
    assert (0 <= wterm Rops l y (dfac Rops th l)).
    { rewrite wterm_eq. apply Rmult_le_pos; [apply Rmult_le_pos; [assumption | nra] | nra]. }
    inversion Hc as [? ? [Hl0 Hy] | ? ? Hc']; subst; cbn [fst snd] in *.
    - pose proof (sumw_nonneg r th Hr).
      assert (0 < wterm Rops l y (dfac Rops th l)).
      { rewrite wterm_eq. apply Rmult_lt_0_compat; [apply Rmult_lt_0_compat; [assumption | nra] | nra]. }
      lra.
    - specialize (IH Hr Hc'). lra.
  Qed.

  Lemma phi_pos : forall th, 0 <= th -> 0 < phi Rops ps th.
  Proof.
    intros th Hth. rewrite phi_eq. pose proof (sumw_pos th Hth).
    rewrite Rmax_left by lra. apply sqrt_lt_R0. assumption.
  Qed.

  (* phi^2 = sumw is eventually below any eps > 0 *)
  Lemma sumw_vanishes : forall eps, 0 < eps ->
      exists T, 0 <= T /\ forall th, T <= th -> sumw Rops ps th <= eps.
  Proof.
    clear Hphi0 Hactive. induction ps as [|[l y] r IH]; intros eps He.
    - exists 0. split; [lra|]. intros th _. cbn [sumw]. change (o0 Rops) with 0. lra.
    - inversion Hl as [|? ? Hq Hr]; subst. cbn [fst] in Hq.
      destruct (IH Hr (eps / 2)) as [T1 [HT1 H1]]; [lra|].
      set (T2 := 2 * (y * y) / eps + 1).
      assert (HT2 : 0 < T2).
      { unfold T2. assert (0 <= 2 * (y * y) / eps) by (apply Rmult_le_pos; [nra | left; apply Rinv_0_lt_compat; lra]). lra. }
      exists (Rmax T1 T2). split; [apply Rle_trans with T1; [assumption | apply Rmax_l]|].
      intros th Hth. cbn [sumw fst snd]. change (oadd Rops) with Rplus.
      assert (Hth1 : T1 <= th) by (apply Rle_trans with (Rmax T1 T2); [apply Rmax_l | assumption]).
      assert (Hth2 : T2 <= th) by (apply Rle_trans with (Rmax T1 T2); [apply Rmax_r | assumption]).
      specialize (H1 th Hth1).
      assert (Hth0 : 0 <= th) by lra.
      assert (0 < dfac Rops th l <= 1) as [Hd Hd1] by (apply dfac_pos; assumption).
      assert (Hterm : wterm Rops l y (dfac Rops th l) <= eps / 2).
      { rewrite wterm_eq.
        assert (Ely : 0 <= l * (y * y)) by (apply Rmult_le_pos; [assumption | nra]).
        assert (dfac Rops th l * dfac Rops th l <= dfac Rops th l) by nra.
        apply Rle_trans with (l * (y * y) * dfac Rops th l); [apply Rmult_le_compat_l; assumption|].
        rewrite dfac_eq. assert (Hden : 0 < 1 + th * l) by nra.
        apply (Rmult_le_reg_r (1 + th * l)); [assumption|].
        replace (l * (y * y) * (1 / (1 + th * l)) * (1 + th * l)) with (l * (y * y)) by (field; lra).
        (* l y^2 <= eps/2 (1 + th l)  since  y^2 <= eps th / 2 *)
        assert (Hy2 : y * y <= eps * th / 2).
        { assert (2 * (y * y) / eps <= th) by (unfold T2 in Hth2; lra).
          apply (Rmult_le_compat_r eps) in H0; [|lra].
          replace (2 * (y * y) / eps * eps) with (2 * (y * y)) in H0 by (field; lra). lra. }
        assert (l * (y * y) <= l * (eps * th / 2)) by (apply Rmult_le_compat_l; assumption).
        nra. }
      lra.
  Qed.

  Lemma rho_eq' : forall th, rho th = phi Rops ps th - sy - Rh (p + th * phi Rops ps th).
  Proof.
    intro th. unfold resid, resid_of, overstress. cbn [pairs pOld].
    change (o0 Rops) with 0. change (osub Rops) with Rminus. change (oadd Rops) with Rplus. change (omul Rops) with Rmult. ring.
  Qed.

  (* r is negative far enough *)
  Lemma rho_eventually_negative : exists T, 0 <= T /\ forall th, T <= th -> rho th < 0.
  Proof.
    set (K0 := sy + Rh p) in *.
    destruct (sumw_vanishes (K0 / 2 * (K0 / 2))) as [T [HT HS]]; [nra|].
    exists T. split; [assumption|]. intros th Hth. assert (Hth0 : 0 <= th) by lra.
    rewrite rho_eq'.
    assert (Hphi : phi Rops ps th <= K0 / 2).
    { rewrite phi_eq. pose proof (sumw_nonneg ps th Hl). rewrite Rmax_left by assumption.
      rewrite <- (sqrt_square (K0 / 2)) by lra. apply sqrt_le_1_alt. apply HS; assumption. }
    assert (0 <= th * phi Rops ps th) by (apply Rmult_le_pos; [assumption | apply phi_nonneg]).
    assert (Rh p <= Rh (p + th * phi Rops ps th)) by (apply Rh_mono; lra).
    unfold K0 in *. lra.
  Qed.

  (* continuity of r on theta >= 0 *)
  Lemma phi_continuous : forall th, 0 <= th -> continuous (phi Rops ps) th.
  Proof.
    intros th Hth. apply (ex_derive_continuous (K := R_AbsRing) (V := R_NormedModule)).
    exists (dphi Rops ps th). apply dphi_is_derivative; [assumption | assumption | apply phi_pos; assumption].
  Qed.

  Lemma rho_continuous : forall th, 0 <= th -> continuous rho th.
  Proof.
    intros th Hth.
    apply (continuous_ext (fun t : R => (phi Rops ps t - sy) - Rh (p + t * phi Rops ps t))).
    { intro t. rewrite rho_eq'. reflexivity. }
    pose proof (phi_continuous th Hth) as Cphi.
    assert (Cin : continuous (fun t : R => p + t * phi Rops ps t) th).
    { apply (continuous_plus (U := R_UniformSpace) (V := R_NormedModule) (fun _ : R => p) (fun t : R => t * phi Rops ps t)).
      - apply continuous_const.
      - apply (continuous_mult (U := R_UniformSpace) (K := R_AbsRing) (fun t : R => t) (phi Rops ps)); [apply continuous_id | exact Cphi]. }
    apply (continuous_minus (U := R_UniformSpace) (V := R_NormedModule) (fun t : R => phi Rops ps t - sy) (fun t : R => Rh (p + t * phi Rops ps t))).
    - apply (continuous_minus (U := R_UniformSpace) (V := R_NormedModule) (phi Rops ps) (fun _ : R => sy)); [exact Cphi | apply continuous_const].
    - apply (continuous_comp (fun t : R => p + t * phi Rops ps t) Rh); [exact Cin | apply Rh_cont].
  Qed.

  (* C19 root_exists_unique *)
  Theorem root_exists_unique :
      exists th, 0 <= th /\ rho th = 0 /\ forall th', 0 <= th' -> rho th' = 0 -> th' = th.
  Proof.
    destruct rho_eventually_negative as [T [HT Hneg]].
    set (F := fun t : R => rho (t * t)).
    assert (CF : forall t, continuous F t).
    { intro t. unfold F. apply (continuous_comp (fun t : R => t * t) rho).
      - apply (continuous_mult (U := R_UniformSpace) (K := R_AbsRing) (fun t : R => t) (fun t : R => t)); apply continuous_id.
      - apply rho_continuous. nra. }
    set (b := T + 1).
    assert (Hb : F b < 0). { unfold F, b. apply Hneg. nra. }
    assert (H0 : 0 < F 0).
    { unfold F. rewrite Rmult_0_l, rho_eq'. rewrite Rmult_0_l, Rplus_0_r. lra. }
    destruct (IVT_gen_consistent F 0 b 0 CF) as [x [_ Hx]].
    { rewrite Rmin_right, Rmax_left by lra. lra. }
    exists (x * x). split; [nra|]. split; [exact Hx|].
    intros th' Hth' E. apply (root_unique_gen sy dt p Rh ps Hl Hphi0 Rh_mono th' (x * x)); [assumption | nra | assumption | exact Hx].
  Qed.
End Exist.

(* non-vacuity: two distinct eigenvalues, R = identity (continuous, non-decreasing), sy = 1, p = 0 *)
Example exist_hypotheses_satisfiable :
  lam_nonneg [(1, 2); (3, 1)] /\ 0 < phi Rops [(1, 2); (3, 1)] 0 /\
  (forall x y : R, x <= y -> (fun t : R => t) x <= (fun t : R => t) y) /\
  (forall x : R, continuous (fun t : R => t) x) /\
  0 < 1 + (fun t : R => t) 0 /\ 0 < phi Rops [(1, 2); (3, 1)] 0 - 1 - (fun t : R => t) 0.
Proof.
  assert (E : phi Rops [(1, 2); (3, 1)] 0 = sqrt 7).
  { rewrite phi_eq. cbn [sumw fst snd]. rewrite !wterm_eq, !dfac_eq. change (oadd Rops) with Rplus. change (o0 Rops) with 0.
    replace (1 * (2 * 2) * (1 / (1 + 0 * 1) * (1 / (1 + 0 * 1))) + (3 * (1 * 1) * (1 / (1 + 0 * 3) * (1 / (1 + 0 * 3))) + 0)) with 7 by field.
    rewrite Rmax_left by lra. reflexivity. }
  assert (H1 : 1 < sqrt 7) by (rewrite <- sqrt_1 at 1; apply sqrt_lt_1; lra).
  split; [repeat constructor; cbn [fst]; lra|]. rewrite E.
  split; [lra|]. split; [intros; assumption|]. split; [intro x; apply continuous_id|]. split; lra.
Qed.
