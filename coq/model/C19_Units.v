(* C19_Units.v — the return map is HOMOGENEOUS OF DEGREE ONE in the stress units.

   Expressing the same material in units where every stress is s times larger (C, sigma_y, H
   times s; strains unchanged) changes the eigen-data of _spectral.Build to
        lam -> s lam,     y = Q^T C^{-1/2} sigma_tr -> sqrt(s) y        (sigma = T y, T -> sqrt(s) T)
   For the radial return (C19_Radial) every Newton iterate of _spectral.Solve then satisfies
        theta_s = theta / s,   r_s = s r,   dGamma_s = dGamma,   eigen-stress_s = sqrt(s) eigen-stress,
   and the break test gives the same answer: the same number of iterations, the same plastic
   strain, the same active set, stress = s x stress -- whatever sigma_y is compared to 1. *)
From Coquelicot Require Import Coquelicot.
From Coq Require Import Reals List Lra Lia Bool Psatz.
From EFModel Require Import C19_Return1D C19_Return1D_proofs C19_Radial.
Import List ListNotations.
Open Scope R_scope.

Section Units.
  Variable lam H sy tol dt p s : R.
  Variable ps : list (R * R).
  Hypothesis Hunif : uniform lam ps.
  Hypothesis Hlam : 0 < lam.
  Hypothesis HH : 0 <= H.
  Hypothesis Hphi0 : 0 < phi Rops ps 0.
  Hypothesis HK : 0 < sy + H * p.
  Hypothesis HA : 0 < Ac H sy ps p.
  Hypothesis Hs : 0 < s.

  Definition scale_ps : list (R * R) := map (fun q => (s * fst q, sqrt s * snd q)) ps.

  Lemma sqrt_s_sq : sqrt s * sqrt s = s. Proof. apply sqrt_sqrt; lra. Qed.

  Lemma uniform_scaled : uniform (s * lam) scale_ps.
  Proof.
    unfold uniform, scale_ps in *. rewrite Forall_map. eapply Forall_impl; [|exact Hunif].
    intros q [E|E]; cbn [fst]; rewrite E; [left; reflexivity | right; ring].
  Qed.

  Lemma S0_scaled : sumw Rops scale_ps 0 = s * s * sumw Rops ps 0.
  Proof.
    unfold scale_ps. clear Hunif Hphi0 HA. induction ps as [|[l y] r IH]; cbn [map sumw fst snd].
    - change (o0 Rops) with 0. ring.
    - rewrite IH. rewrite !wterm_eq, !dfac_eq. change (oadd Rops) with Rplus. change (o0 Rops) with 0.
      pose proof sqrt_s_sq as E.
      replace (s * l * (sqrt s * y * (sqrt s * y)) * (1 / (1 + 0 * (s * l)) * (1 / (1 + 0 * (s * l)))))
        with (s * l * ((sqrt s * sqrt s) * (y * y))) by (field; lra).
      rewrite E. field.
  Qed.

  Lemma phi0_scaled : phi Rops scale_ps 0 = s * phi Rops ps 0.
  Proof.
    rewrite !phi_eq. rewrite S0_scaled.
    pose proof (S0_nonneg lam ps Hunif Hlam) as HS.
    rewrite Rmax_left by (apply Rmult_le_pos; [nra | assumption]).
    rewrite (Rmax_left (sumw Rops ps 0) 0) by assumption.
    rewrite sqrt_mult by (try assumption; nra). rewrite sqrt_square by lra. reflexivity.
  Qed.

  Notation As := (Ac (s * H) (s * sy) scale_ps p).
  Notation Bs := (Bc (s * lam) (s * H) (s * sy) scale_ps p).
  Notation Ds := (Dc (s * lam) (s * H) (s * sy) scale_ps p).
  Notation ths := (theta_star (s * lam) (s * H) (s * sy) scale_ps p).
  Notation A0 := (Ac H sy ps p).
  Notation B0 := (Bc lam H sy ps p).
  Notation D0 := (Dc lam H sy ps p).
  Notation th0 := (theta_star lam H sy ps p).

  Lemma Ac_scaled : As = s * A0. Proof. unfold Ac. rewrite phi0_scaled. ring. Qed.
  Lemma Bc_scaled : Bs = s * s * B0. Proof. unfold Bc. rewrite phi0_scaled. ring. Qed.
  Lemma Dc_scaled : Ds = s * s * D0. Proof. unfold Dc. rewrite Ac_scaled, Bc_scaled. ring. Qed.
  Lemma theta_star_scaled : ths = th0 / s.
  Proof.
    unfold theta_star. rewrite Ac_scaled, Bc_scaled.
    pose proof (Bc_pos lam H sy ps p Hlam HH Hphi0 HK). field. split; lra.
  Qed.

  (* hypotheses of the radial analysis hold in the new units *)
  Lemma scaled_hyps : 0 < s * lam /\ 0 <= s * H /\ 0 < phi Rops scale_ps 0 /\ 0 < s * sy + s * H * p /\ 0 < As.
  Proof.
    rewrite phi0_scaled, Ac_scaled. repeat split; try nra; apply Rmult_le_pos; lra.
  Qed.

  Notation newton0 := (newton H sy dt ps p).
  Notation newtons := (newton (s * H) (s * sy) dt scale_ps p).

  Lemma dfac_scaled : forall th, dfac Rops (th / s) (s * lam) = dfac Rops th lam.
  Proof. intro th. rewrite !dfac_eq. f_equal. f_equal. field. lra. Qed.

  (* one Newton update commutes with the change of units *)
  Lemma newton_scaled : forall th, 0 <= th <= th0 -> newtons (th / s) = newton0 th / s.
  Proof.
    intros th Hth.
    destruct scaled_hyps as [H1 [H2 [H3 [H4 H5]]]].
    destruct (radial_newton_step lam H sy dt ps p Hunif Hlam HH Hphi0 HK HA th Hth) as [_ E0].
    assert (Hths : 0 <= th / s <= ths).
    { rewrite theta_star_scaled. destruct Hth. split.
      - apply Rmult_le_pos; [assumption | left; apply Rinv_0_lt_compat; assumption].
      - apply Rmult_le_compat_r; [left; apply Rinv_0_lt_compat; assumption | assumption]. }
    destruct (radial_newton_step (s * lam) (s * H) (s * sy) dt scale_ps p uniform_scaled H1 H2 H3 H4 H5 (th / s) Hths) as [_ Es].
    rewrite theta_star_scaled, Bc_scaled, Dc_scaled in Es.
    pose proof (Dc_pos lam H sy ps p Hlam HH Hphi0 HK HA) as HD.
    assert (newtons (th / s) = th0 / s - s * lam * (s * s * B0) / (s * s * D0) * ((th0 / s - th / s) * (th0 / s - th / s))) by lra.
    assert (newton0 th = th0 - lam * B0 / D0 * ((th0 - th) * (th0 - th))) by lra.
    rewrite H0, H6. field. split; lra.
  Qed.

  Lemma iter_scaled : forall n, Nat.iter n newtons 0 = Nat.iter n newton0 0 / s.
  Proof.
    induction n as [|n IH]; [simpl; field; lra|].
    change (Nat.iter (S n) newtons 0) with (newtons (Nat.iter n newtons 0)).
    change (Nat.iter (S n) newton0 0) with (newton0 (Nat.iter n newton0 0)).
    rewrite IH. apply newton_scaled.
    destruct (radial_newton_converges lam H sy dt ps p Hunif Hlam HH Hphi0 HK HA n) as [Hr _]. exact Hr.
  Qed.

  Lemma Rltb_scale : forall a b, Rltb (Rabs (s * a)) (tol * (s * b)) = Rltb (Rabs a) (tol * b).
  Proof.
    intros a b. rewrite Rabs_mult, (Rabs_right s) by lra.
    destruct (Rltb (Rabs a) (tol * b)) eqn:E.
    - apply Rltb_true in E. apply Rltb_true. nra.
    - apply Rltb_false in E. apply Rltb_false. nra.
  Qed.

  Lemma sig_eig_scaled : forall th,
      sig_eig Rops scale_ps (th / s) = map (Rmult (sqrt s)) (sig_eig Rops ps th).
  Proof.
    intro th. unfold sig_eig, scale_ps. rewrite !map_map. apply map_ext. intros [l y]. cbn [fst snd].
    change (omul Rops) with Rmult. rewrite !dfac_eq.
    replace (1 + th / s * (s * l)) with (1 + th * l) by (field; lra). ring.
  Qed.

  (* C19 radial_unit_invariance : for EVERY number of updates of the source's loop *)
  Theorem radial_unit_invariance : forall n,
      let th := Nat.iter n newton0 0 in
      let th' := Nat.iter n newtons 0 in
      th' = th / s /\
      resid Rops (fun x => s * H * x) None dt (s * sy) (mkPoint scale_ps p) th'
        = s * resid Rops (fun x => H * x) None dt sy (mkPoint ps p) th /\
      dGam Rops (mkPoint scale_ps p) th' = dGam Rops (mkPoint ps p) th /\
      sig_eig Rops scale_ps th' = map (Rmult (sqrt s)) (sig_eig Rops ps th) /\
      small_v Rops (s * sy) tol true (resid Rops (fun x => s * H * x) None dt (s * sy) (mkPoint scale_ps p) th')
        = small_v Rops sy tol true (resid Rops (fun x => H * x) None dt sy (mkPoint ps p) th).
  Proof.
    intros n th th'. subst th'. rewrite iter_scaled. fold th.
    destruct (radial_newton_converges lam H sy dt ps p Hunif Hlam HH Hphi0 HK HA n) as [[Ht0 Ht1] _]. fold th in Ht0, Ht1.
    destruct scaled_hyps as [H1 [H2 [H3 [H4 H5]]]].
    assert (Hts : 0 <= th / s) by (apply Rmult_le_pos; [assumption | left; apply Rinv_0_lt_compat; assumption]).
    assert (Er : resid Rops (fun x => s * H * x) None dt (s * sy) (mkPoint scale_ps p) (th / s)
                 = s * resid Rops (fun x => H * x) None dt sy (mkPoint ps p) th).
    { rewrite (resid_uniform (s * lam) (s * H) (s * sy) dt scale_ps p uniform_scaled H1 (th / s) Hts).
      rewrite (resid_uniform lam H sy dt ps p Hunif Hlam th Ht0).
      rewrite Ac_scaled, Bc_scaled, dfac_scaled. field. lra. }
    split; [reflexivity|]. split; [exact Er|]. split; [|split].
    - rewrite !dGam_eq. cbn [pairs].
      rewrite (phi_uniform (s * lam) scale_ps 0 uniform_scaled H1 (th / s) Hts).
      rewrite (phi_uniform lam ps 0 Hunif Hlam th Ht0).
      rewrite phi0_scaled, dfac_scaled. field. lra.
    - apply sig_eig_scaled.
    - rewrite Er. unfold small_v. change (oltb Rops) with Rltb. change (oabs Rops) with Rabs.
      change (omul Rops) with Rmult. apply Rltb_scale.
  Qed.
End Units.

(* non-vacuity: the hypotheses are those of C19_Radial (radial_hypotheses_satisfiable) plus 0 < s *)
Example units_hypothesis_satisfiable : 0 < 1 / 1000. Proof. lra. Qed.
