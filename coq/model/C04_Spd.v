(* C04 -- the remaining hypothesis of the multi-point existence/uniqueness theorems (the constrained problem has at
   most one solution) follows from positive definiteness of A on the constraint kernel: if w^T A w > 0 for every
   non-zero w in ker G (elastic stiffness with the rigid modes removed by the constraints, conductivity with one
   prescribed temperature, ...), two solutions of the constrained problem coincide on range(n).  Over the reals. *)
From Coq Require Import ZArith List Bool Lia Reals RealField Lra.
From EFModel Require Import C03_Csr C04_Solve C04_Saddle.
Import ListNotations.
Open Scope Z_scope.

Notation RS k f := (sum_over R 0%R Rplus (zrange k) f).

Definition quad (n : Z) (A : Z -> Z -> R) (w : Z -> R) : R :=
  RS n (fun i => w i * RS n (fun j => A i j * w j))%R.

(* positive definite on ker G (as a statement about vectors restricted to range n) *)
Definition pos_def_on_ker (n m : Z) (A G : Z -> Z -> R) : Prop :=
  forall w, kerG R 0%R Rplus Rmult n m G w -> quad n A w = 0%R -> forall i, 0 <= i < n -> w i = 0%R.

Lemma RS_ext k f g : (forall i, 0 <= i < k -> f i = g i) -> RS k f = RS k g.
Proof. intros H. apply sum_over_ext. intros i Hi. apply in_zrange in Hi. now apply H. Qed.

Lemma RS_sub k f g : RS k (fun i => f i - g i)%R = (RS k f - RS k g)%R.
Proof. unfold sum_over. induction (zrange k); simpl; [lra|]. rewrite IHl. lra. Qed.

Lemma RS_scal k c f : RS k (fun i => c * f i)%R = (c * RS k f)%R.
Proof. unfold sum_over. induction (zrange k); simpl; [lra|]. rewrite IHl. lra. Qed.

Theorem reduced_unique_from_pos_def n m A b G h :
  pos_def_on_ker n m A G ->
  forall x x', reduced_sol R 0%R Rplus Rmult Rminus n m A b G h x -> reduced_sol R 0%R Rplus Rmult Rminus n m A b G h x' ->
  forall i, 0 <= i < n -> x i = x' i.
Proof.
  intros Hpd x x' [Hc Hw] [Hc' Hw'] i Hi.
  set (d := fun j => (x j - x' j)%R).
  assert (Hk : kerG R 0%R Rplus Rmult n m G d).
  { intros k Hk. unfold d.
    rewrite (RS_ext n _ (fun i0 => G k i0 * x i0 - G k i0 * x' i0)%R) by (intros; lra).
    rewrite RS_sub, (Hc k Hk), (Hc' k Hk). lra. }
  assert (Hq : quad n A d = 0%R).
  { unfold quad.
    rewrite (RS_ext n _ (fun i0 => d i0 * (RS n (fun j => A i0 j * x j) - b i0) - d i0 * (RS n (fun j => A i0 j * x' j) - b i0))%R).
    - rewrite RS_sub, (Hw d Hk), (Hw' d Hk). lra.
    - intros i0 _. unfold d at 2.
      rewrite (RS_ext n (fun j => A i0 j * (x j - x' j))%R (fun j => A i0 j * x j - A i0 j * x' j)%R) by (intros; lra).
      rewrite RS_sub. lra. }
  specialize (Hpd d Hk Hq i Hi). unfold d in Hpd. lra.
Qed.
