(* C15 — EXACTLY which arrays handed to the caller may be written in place without affecting stored iterations,
   for EVERY configuration (shallow or deep read, any save / restore discipline).

   write_safe c s k  :=  the k-th array the caller holds is not one of the arrays of an in-memory entry.
   (i)  soundness, every config, EVERY state: a write (whole array or one cell) through a write-safe array leaves
        every stored iteration as it reads;
   (ii) exactness: through an array that is NOT write-safe some write changes what a stored iteration reads
        (on every well-formed state, in particular every state reached without earlier user writes);
   (iii) by ORIGIN, from the copy discipline alone: arrays returned by Get_results / Set_Iter for an in-memory
        entry are write-safe iff Get_results deep-copies; for an on-disk entry always; the array returned by
        Result(.., iter=i) (a copying getter) always. *)
From Coq Require Import List Arith Lia Bool NArith PeanoNat.
Import ListNotations.
From EFModel Require Import C15_IterStore.
Set Implicit Arguments.

Definition in_entry (l : loc) (e : entry) : bool :=
  match e with InMem _ ls => existsb (Nat.eqb l) ls | OnDisk _ => false end.
Definition write_safe (s : state) (k : nat) : bool :=
  match nth_error (handed s) k with
  | None => true
  | Some l => negb (existsb (in_entry l) (store s))
  end.

Lemma existsb_eqb_In : forall l ls, existsb (Nat.eqb l) ls = true <-> In l ls.
Proof.
  intros l ls. rewrite existsb_exists. split.
  - intros [x [H E]]. apply Nat.eqb_eq in E. subst. auto.
  - intros H. exists l. split; auto. apply Nat.eqb_refl.
Qed.

(* (i) soundness: every configuration, every state *)
Theorem write_safe_sound : forall c s k v, write_safe s k = true ->
  store_vals c (step c (WriteRet k v) s) = store_vals c s.
Proof.
  intros c s k v H. unfold write_safe in H. simpl.
  destruct (nth_error (handed s) k) as [l|] eqn:E; auto.
  unfold store_vals. simpl. apply map_ext_in. intros e He.
  destruct e as [m ls|p]; simpl; auto.
  rewrite map_rd_wr_notin; auto. intro Hin.
  apply negb_true_iff in H. assert (X : existsb (in_entry l) (store s) = true).
  { apply existsb_exists. exists (InMem m ls). split; auto. simpl. apply existsb_eqb_In. auto. }
  congruence.
Qed.

Theorem write_safe_sound_at : forall c s k i x, write_safe s k = true ->
  store_vals c (step c (WriteRetAt k i x) s) = store_vals c s.
Proof. intros. rewrite partial_write_is_some_whole_write. apply write_safe_sound; auto. Qed.

(* (ii) exactness: an unsafe array lets SOME write change a stored iteration *)
Theorem write_unsafe_corrupts : forall c s k l, nth_error (handed s) k = Some l -> l < length (heap s) ->
  write_safe s k = false ->
  exists v, store_vals c (step c (WriteRet k v) s) <> store_vals c s.
Proof.
  intros c s k l Hk L H. unfold write_safe in H. rewrite Hk in H. apply negb_false_iff in H.
  apply existsb_exists in H. destruct H as [e [He Hin]]. destruct e as [m ls|p]; simpl in Hin; [|discriminate].
  apply existsb_eqb_In in Hin.
  exists (0%N :: rd (heap s) l). intro E.
  unfold store_vals in E. simpl in E. rewrite Hk in E. simpl in E.
  apply In_nth_error in He. destruct He as [n Hn].
  assert (F : nth_error (map (entry_vals c (mkst (wr (heap s) l (0%N :: rd (heap s) l)) (live s) (mesh s) (nmesh s) (store s) (folder s) (disk s) (handed s) (ghost s))) (store s)) n
            = nth_error (map (entry_vals c s) (store s)) n) by (rewrite E; reflexivity).
  rewrite !nth_error_map, Hn in F. simpl in F. injection F as G.
  apply In_nth_error in Hin. destruct Hin as [j Hj]. unfold loc in *.
  apply (f_equal (fun x => nth_error x j)) in G.
  rewrite !nth_error_map, Hj in G. simpl in G. injection G as R.
  rewrite rd_wr_same in R by auto.
  assert (LL : length (0%N :: rd (heap s) l) = length (rd (heap s) l)) by (rewrite R at 1; reflexivity).
  simpl in LL. lia.
Qed.

(* on every state reached without earlier user writes the first write through an unsafe array corrupts *)
Corollary write_unsafe_corrupts_reachable : forall c ops k, cfg_ok c -> no_writes ops = true ->
  write_safe (reach c ops) k = false ->
  exists v, store_vals c (step c (WriteRet k v) (reach c ops)) <> store_vals c (reach c ops).
Proof.
  intros c ops k OK W H. pose proof (inv_reach ops OK (or_intror W)) as I.
  unfold write_safe in H. destruct (nth_error (handed (reach c ops)) k) as [l|] eqn:E; [|discriminate].
  apply (@write_unsafe_corrupts c (reach c ops) k l E).
  - pose proof (i_hand I) as F. rewrite Forall_forall in F. apply F. eapply nth_error_In; eauto.
  - unfold write_safe. rewrite E. exact H.
Qed.

(* (iii) by origin.  origin_safe: is an array handed out for entry e safe to write, from the flags alone *)
Definition origin_safe (c : config) (e : entry) : bool :=
  match e with InMem _ _ => deep_read c | OnDisk _ => true end.

Lemma entry_locs_lt : forall c s j m ls l, inv c s -> nth_error (store s) j = Some (InMem m ls) -> In l ls -> l < length (heap s).
Proof.
  intros c s j m ls l I He Hin. destruct (ghost_of_store I He) as [g Hg].
  pose proof (i_match I _ He Hg) as M. simpl in M. destruct M as (_ & _ & M). rewrite Forall_forall in M. auto.
Qed.

Arguments entry_locs_lt {c s j m ls l}.

Lemma handed_origin : forall c s i e ls h1 m k, cfg_ok c -> inv c s -> nth_error (store s) i = Some e ->
  read_entry c s i = Some (h1, (m, ls)) -> k < nf c ->
  forall s', handed s' = ls -> store s' = store s ->
  write_safe s' k = origin_safe c e.
Proof.
  intros c s i e ls h1 m k OK I He R Hk s' Hh Hs.
  destruct (ghost_of_store I He) as [g Hg].
  destruct (read_entry_spec OK I He Hg) as (ext & ls0 & R0 & R1 & R2 & R3 & R4).
  rewrite R in R0. inversion R0; subst h1 m ls0. clear R0.
  assert (Lls : length ls = nf c).
  { pose proof (i_glen I) as G. rewrite Forall_forall in G. pose proof (nth_error_In _ _ Hg) as Hin.
    apply G in Hin. rewrite <- Hin, <- R1, map_length. reflexivity. }
  unfold write_safe. rewrite Hh, Hs.
  destruct (nth_error ls k) as [l|] eqn:El; [|apply nth_error_None in El; lia].
  destruct (origin_safe c e) eqn:O.
  - (* fresh locations: in no entry *)
    assert (Fr : length (heap s) <= l).
    { assert (X : Forall (fun l => length (heap s) <= l) ls) by (apply R3; destruct e; auto).
      rewrite Forall_forall in X. apply X. eapply nth_error_In; eauto. }
    apply negb_true_iff. apply not_true_is_false. intro X. apply existsb_exists in X.
    destruct X as [e' [He' Hin]]. destruct e' as [m' ls'|p]; simpl in Hin; [|discriminate].
    apply existsb_eqb_In in Hin. apply In_nth_error in He'. destruct He' as [j Hj].
    pose proof (entry_locs_lt I Hj Hin). lia.
  - (* the stored arrays themselves *)
    destruct R4 as [_ [m' Em]]; [destruct e; auto|]. subst e.
    apply negb_false_iff. apply existsb_exists. exists (InMem m' ls). split; [eapply nth_error_In; eauto|].
    simpl. apply existsb_eqb_In. eapply nth_error_In; eauto.
Qed.

(* arrays returned by Get_results i / Set_Iter i: write-safe iff the entry is on disk or the read deep-copies *)
Theorem write_safe_after_get_results : forall c ops i e k, cfg_ok c -> (deep_read c = true \/ no_writes ops = true) ->
  nth_error (store (reach c ops)) i = Some e -> k < nf c ->
  write_safe (step c (GetResults i) (reach c ops)) k = origin_safe c e.
Proof.
  intros c ops i e k OK W He Hk. pose proof (inv_reach ops OK W) as I.
  destruct (ghost_of_store I He) as [g Hg].
  destruct (read_entry_spec OK I He Hg) as (ext & ls & R & _).
  apply (@handed_origin c (reach c ops) i e ls _ _ k OK I He R Hk); simpl; unfold get_results; rewrite R; reflexivity.
Qed.

Theorem write_safe_after_set_iter : forall c ops i e k, cfg_ok c -> (deep_read c = true \/ no_writes ops = true) ->
  nth_error (store (reach c ops)) i = Some e -> k < nf c ->
  write_safe (step c (SetIter i) (reach c ops)) k = origin_safe c e.
Proof.
  intros c ops i e k OK W He Hk. pose proof (inv_reach ops OK W) as I.
  destruct (ghost_of_store I He) as [g Hg].
  destruct (read_entry_spec OK I He Hg) as (ext & ls & R & _).
  apply (@handed_origin c (reach c ops) i e ls _ _ k OK I He R Hk); simpl; unfold set_iter; rewrite R; reflexivity.
Qed.

(* the array returned by Result(name, iter=i) (copying getter) is always write-safe *)
Theorem write_safe_after_result : forall c ops i f k, cfg_ok c -> (deep_read c = true \/ no_writes ops = true) ->
  write_safe (step c (ResultQ i f) (reach c ops)) k = true.
Proof.
  intros c ops i f k OK W. pose proof (inv_reach ops OK W) as I. pose proof (inv_setiter i OK I) as J.
  unfold write_safe. simpl. destruct k as [|k]; simpl; [|destruct k; reflexivity].
  apply negb_true_iff. apply not_true_is_false. intro X. apply existsb_exists in X.
  destruct X as [e' [He' Hin]]. destruct e' as [m' ls'|p]; simpl in Hin; [|discriminate].
  apply existsb_eqb_In in Hin. apply In_nth_error in He'. destruct He' as [j Hj].
  pose proof (entry_locs_lt J Hj Hin). lia.
Qed.

(* refutation witnesses per unsafe origin kind (shallow read), and the safe kinds next to them *)
Example unsafe_origin_get_results_inmem :
  let c := cfg_demo false in let s := reach c [Sv [5;6]; SaveIter; GetResults 0]%N in
  write_safe s 0 = false /\ store_vals c (step c (WriteRetAt 0 1 9) s) <> store_vals c s.
Proof. split; [reflexivity|vm_compute; discriminate]. Qed.
Example unsafe_origin_set_iter_inmem :
  let c := cfg_demo false in let s := reach c [Sv [5;6]; SaveIter; Sv [7;8]; SetIter 0]%N in
  write_safe s 1 = false /\ store_vals c (step c (WriteRet 1 (A 9)) s) <> store_vals c s.
Proof. split; [reflexivity|vm_compute; discriminate]. Qed.
Example safe_origins_shallow :
  let c := cfg_demo false in
  write_safe (reach c [SetFolder 1; Sv [5;6]; SaveIter; GetResults 0]%N) 0 = true /\
  write_safe (reach c [SetFolder 1; Sv [5;6]; SaveIter; SetIter 0]%N) 1 = true /\
  write_safe (reach c [Sv [5;6]; SaveIter; ResultQ 0 1]%N) 0 = true /\
  write_safe (reach (cfg_demo true) [Sv [5;6]; SaveIter; GetResults 0]%N) 0 = true.
Proof. vm_compute. repeat split; reflexivity. Qed.

Print Assumptions write_safe_sound.
Print Assumptions write_unsafe_corrupts.
Print Assumptions write_safe_after_get_results.
Print Assumptions write_safe_after_set_iter.
Print Assumptions write_safe_after_result.

(* ---------------------------------------------------------------- well-formedness of EVERY reachable state *)
(* locations held by the live fields, by the caller and by in-memory entries are valid heap locations: an invariant of
   every operation for EVERY configuration (shallow reads, non-copying saves, in-place solves, unpinned folders) and
   every op list, user writes included — independent of the store/ghost relation `inv`. *)
Definition ltH (s : state) (ls : list loc) : Prop := Forall (fun l => l < length (heap s)) ls.
Record wfh (s : state) : Prop := mkwfh {
  wf_live : ltH s (live s);
  wf_hand : ltH s (handed s);
  wf_store : forall m ls, In (InMem m ls) (store s) -> ltH s ls
}.

Lemma length_wr_list : forall lv h, length (wr_list h lv) = length h.
Proof. induction lv as [|[l v] t IH]; intros h; simpl; auto. rewrite IH. apply length_wr. Qed.

Lemma wfh_init : forall c, wfh (init c).
Proof.
  intros c. constructor; unfold ltH; simpl.
  - apply Forall_forall. intros x Hx. apply repeat_spec in Hx. subst. lia.
  - constructor.
  - intros m ls [].
Qed.

Lemma read_entry_wf : forall c s i h1 m ls, wfh s -> read_entry c s i = Some (h1, (m, ls)) ->
  length (heap s) <= length h1 /\ Forall (fun l => l < length h1) ls.
Proof.
  intros c s i h1 m ls Wf R. unfold read_entry in R.
  destruct (nth_error (store s) i) as [[m0 ls0|p]|] eqn:E; try discriminate.
  - destruct (deep_read c); inversion R; subst; simpl.
    + rewrite app_length. split; [lia|]. apply Forall_seq_lt. lia.
    + split; auto. apply (wf_store Wf m ls). eapply nth_error_In; eauto.
  - destruct (lookup _ (disk s)) as [g|]; try discriminate. inversion R; subst; simpl.
    rewrite app_length. split; [lia|]. apply Forall_seq_lt. lia.
Qed.

Lemma wfh_heap_grow : forall s s', wfh s -> length (heap s) <= length (heap s') ->
  live s' = live s -> handed s' = handed s -> store s' = store s -> wfh s'.
Proof.
  intros s s' Wf L E1 E2 E3. constructor; unfold ltH.
  - rewrite E1. eapply Forall_lt_mono; [|apply (wf_live Wf)]. auto.
  - rewrite E2. eapply Forall_lt_mono; [|apply (wf_hand Wf)]. auto.
  - intros m ls H. rewrite E3 in H. eapply Forall_lt_mono; [|apply (wf_store Wf m ls H)]. auto.
Qed.

Lemma wfh_set_iter : forall c i s, wfh s -> wfh (set_iter c i s).
Proof.
  intros c i s Wf. unfold set_iter. destruct (read_entry c s i) as [[h1 [m ls]]|] eqn:R; auto.
  destruct (read_entry_wf _ _ Wf R) as [L F].
  destruct (restore_binds c); constructor; unfold ltH; simpl.
  - apply Forall_merge; auto. eapply Forall_lt_mono; [|apply (wf_live Wf)]. auto.
  - auto.
  - intros m0 ls0 H. eapply Forall_lt_mono; [|apply (wf_store Wf m0 ls0 H)]. auto.
  - apply Forall_merge.
    + apply Forall_seq_lt. rewrite app_length. lia.
    + eapply Forall_lt_mono; [|apply (wf_live Wf)]. rewrite app_length. lia.
  - eapply Forall_lt_mono; [|apply F]. rewrite app_length. lia.
  - intros m0 ls0 H. eapply Forall_lt_mono; [|apply (wf_store Wf m0 ls0 H)]. rewrite app_length. lia.
Qed.

Lemma wfh_get_results : forall c i s, wfh s -> wfh (get_results c i s).
Proof.
  intros c i s Wf. unfold get_results. destruct (read_entry c s i) as [[h1 [m ls]]|] eqn:R; auto.
  destruct (read_entry_wf _ _ Wf R) as [L F]. constructor; unfold ltH; simpl; auto.
  - eapply Forall_lt_mono; [|apply (wf_live Wf)]. auto.
  - intros m0 ls0 H. eapply Forall_lt_mono; [|apply (wf_store Wf m0 ls0 H)]. auto.
Qed.

Lemma wfh_result_q : forall c i k s, wfh s -> wfh (result_q c i k s).
Proof.
  intros c i k s Wf. pose proof (wfh_set_iter c i Wf) as J. unfold result_q. constructor; unfold ltH; simpl.
  - eapply Forall_lt_mono; [|apply (wf_live J)]. rewrite app_length. lia.
  - constructor; auto. rewrite app_length. simpl. lia.
  - intros m0 ls0 H. eapply Forall_lt_mono; [|apply (wf_store J m0 ls0 H)]. rewrite app_length. lia.
Qed.

Lemma wfh_write : forall s k v, wfh s ->
  wfh (match nth_error (handed s) k with
       | None => s
       | Some l => mkst (wr (heap s) l v) (live s) (mesh s) (nmesh s) (store s) (folder s) (disk s) (handed s) (ghost s)
       end).
Proof.
  intros s k v Wf. destruct (nth_error (handed s) k); auto.
  apply (@wfh_heap_grow s); simpl; auto. rewrite length_wr. lia.
Qed.

Theorem wfh_step : forall c o s, wfh s -> wfh (step c o s).
Proof.
  intros c o s Wf. destruct o; simpl.
  - (* Solve *) destruct (solve_rebinds c).
    + constructor; unfold ltH; simpl.
      * apply Forall_seq_lt. rewrite app_length. lia.
      * eapply Forall_lt_mono; [|apply (wf_hand Wf)]. rewrite app_length. lia.
      * intros m ls H. eapply Forall_lt_mono; [|apply (wf_store Wf m ls H)]. rewrite app_length. lia.
    + apply (@wfh_heap_grow s); simpl; auto. rewrite length_wr_list. lia.
  - (* SaveIter *) destruct (folder s =? 0); [destruct (save_copies c)|].
    + constructor; unfold ltH; simpl.
      * eapply Forall_lt_mono; [|apply (wf_live Wf)]. rewrite app_length. lia.
      * eapply Forall_lt_mono; [|apply (wf_hand Wf)]. rewrite app_length. lia.
      * intros m ls H. apply in_app_or in H. destruct H as [H|[H|[]]].
        -- eapply Forall_lt_mono; [|apply (wf_store Wf m ls H)]. rewrite app_length. lia.
        -- inversion H; subst. apply Forall_seq_lt. rewrite app_length. lia.
    + constructor; unfold ltH; simpl; try apply (wf_live Wf); try apply (wf_hand Wf).
      intros m ls H. apply in_app_or in H. destruct H as [H|[H|[]]].
      * apply (wf_store Wf m ls H).
      * inversion H; subst. apply (wf_live Wf).
    + constructor; unfold ltH; simpl; try apply (wf_live Wf); try apply (wf_hand Wf).
      intros m ls H. apply in_app_or in H. destruct H as [H|[H|[]]]; [apply (wf_store Wf m ls H)|discriminate].
  - (* SetFolder *) destruct Wf. constructor; auto.
  - apply wfh_get_results; auto.
  - apply wfh_set_iter; auto.
  - apply wfh_result_q; auto.
  - apply wfh_write; auto.
  - (* SetMesh *) constructor; unfold ltH; simpl.
    + apply Forall_forall. intros x Hx. apply repeat_spec in Hx. subst. rewrite app_length. simpl. lia.
    + eapply Forall_lt_mono; [|apply (wf_hand Wf)]. rewrite app_length. lia.
    + intros m ls H. eapply Forall_lt_mono; [|apply (wf_store Wf m ls H)]. rewrite app_length. lia.
  - (* SaveLoad *) constructor; unfold ltH; simpl.
    + apply Forall_reloc. apply (wf_live Wf).
    + constructor.
    + intros m ls H. apply in_map_iff in H. destruct H as [[m0 ls0|p] [E H]]; simpl in E; [|discriminate].
      inversion E; subst. apply Forall_reloc. apply (wf_store Wf m ls0 H).
  - apply wfh_get_results; auto.
  - apply wfh_set_iter; auto.
  - apply wfh_result_q; auto.
  - destruct (nth_error (handed s) k); auto.
    apply (@wfh_heap_grow s); simpl; auto. rewrite length_wr. lia.
Qed.

Theorem wfh_reach : forall c ops, wfh (reach c ops).
Proof.
  intros c ops. unfold reach. generalize (wfh_init c). generalize (init c).
  induction ops as [|o t IH]; intros s Wf; simpl; auto. apply IH. apply wfh_step; auto.
Qed.

(* EXACTNESS on ALL reachable states: any configuration, any op list (earlier user writes included) *)
Theorem write_unsafe_corrupts_all : forall c ops k, write_safe (reach c ops) k = false ->
  exists v, store_vals c (step c (WriteRet k v) (reach c ops)) <> store_vals c (reach c ops).
Proof.
  intros c ops k H. pose proof (wfh_reach c ops) as Wf.
  unfold write_safe in H. destruct (nth_error (handed (reach c ops)) k) as [l|] eqn:E; [|discriminate].
  apply (@write_unsafe_corrupts c (reach c ops) k l E).
  - pose proof (wf_hand Wf) as F. unfold ltH in F. rewrite Forall_forall in F. apply F. eapply nth_error_In; eauto.
  - unfold write_safe. rewrite E. exact H.
Qed.

(* the predicate is exact: on every reachable state of every configuration, an array is write-safe iff NO value
   written through it changes what a stored iteration reads *)
Corollary write_safe_exact : forall c ops k,
  write_safe (reach c ops) k = true <->
  (forall v, store_vals c (step c (WriteRet k v) (reach c ops)) = store_vals c (reach c ops)).
Proof.
  intros c ops k. split.
  - intros H v. apply write_safe_sound; auto.
  - intros H. destruct (write_safe (reach c ops) k) eqn:E; auto.
    destruct (write_unsafe_corrupts_all c ops k E) as [v Hv]. exfalso. apply Hv. apply H.
Qed.

(* non-vacuity on a state reached THROUGH earlier writes under a shallow read *)
Example exact_after_earlier_writes :
  let c := cfg_demo false in
  let ops := [Sv [5;6]; SaveIter; GetResults 0; WriteRetAt 0 1 9; Sv [7;8]; SaveIter; SetIter 0; Wr 1 4; GetResults 1]%N in
  no_writes ops = false /\ write_safe (reach c ops) 0 = false /\
  store_vals c (step c (Wr 0 3) (reach c ops)) <> store_vals c (reach c ops).
Proof. split; [reflexivity|split; [reflexivity|vm_compute; discriminate]]. Qed.
Print Assumptions wfh_reach.
Print Assumptions write_safe_exact.
