(* C19_PlaneStress.v — hand-written model of Behavior.__Plane_stress_strain
   (EasyFEA/Models/InElastic/_behavior.py): the outer Newton on eps_zz that enforces sig_zz = 0.

     eps6 = eps6.copy()
     for _ in range(maxIter):
         sig6, C6, _, _ = self.__Integrate_3d(eps6, zOld, dt)
         r = sig6[..., ZZ]
         if np.max(np.abs(r)) < tol: break
         eps6[..., ZZ] = eps6[..., ZZ] - r / C6[..., ZZ, ZZ]
     else: raise AssertionError
     return eps6

   One call handles a whole field (Ne x nPg points).  A point is (its data, eps_zz); the 3D
   response of the material AT THAT POINT (in-plane strain, committed state, dt) is abstract:
   `szz pt e` = sig_zz and `czz pt e` = C_alg[zz,zz] for the out-of-plane strain e.
   `np.max(np.abs(r)) < tol` over the field  <=>  every point has |r| < tol. *)
From Coq Require Import Reals List Lra Bool.
From EFModel Require Import C19_Return1D.
Import ListNotations.
Open Scope R_scope.

Lemma Rltb_true_iff : forall a b, Rltb a b = true <-> a < b.
Proof. intros; unfold Rltb; destruct (Rlt_dec a b); split; intros; auto; try discriminate; contradiction. Qed.

Section PlaneStress.
  Variable Pt : Type.
  Variable szz czz : Pt -> R -> R.
  Variable tol : R.

  Definition ps_small (q : Pt * R) : bool := Rltb (Rabs (szz (fst q) (snd q))) tol.
  Definition ps_update (q : Pt * R) : Pt * R :=
    (fst q, snd q - szz (fst q) (snd q) / czz (fst q) (snd q)).

  (* None = the for/else branch: `raise AssertionError` (no strain is returned) *)
  Fixpoint ps_loop (fuel : nat) (st : list (Pt * R)) : option (list (Pt * R)) :=
    match fuel with
    | O => None
    | S k => if forallb ps_small st then Some st else ps_loop k (map ps_update st)
    end.

  Definition ps_start (field : list Pt) : list (Pt * R) := map (fun pt => (pt, 0)) field.

  (* Integrate: eps6 = Compute_strain_6d(...) and then ONE more __Integrate_3d at that strain;
     the out-of-plane stress of the returned state is szz at the returned eps_zz *)
  Definition ps_returned_szz (st : list (Pt * R)) : list R := map (fun q => szz (fst q) (snd q)) st.

  Lemma iter_shift' : forall (A : Type) (f : A -> A) n x, Nat.iter (S n) f x = Nat.iter n f (f x).
  Proof. induction n as [|n IHn]; intro x; [reflexivity|]. simpl in *. rewrite IHn. reflexivity. Qed.

  (* every point goes through its own update, the same number of times (batch = its points) *)
  Lemma ps_loop_pointwise : forall fuel st st', ps_loop fuel st = Some st' ->
      exists n, (n < fuel)%nat /\ st' = map (Nat.iter n ps_update) st /\ forallb ps_small st' = true.
  Proof.
    induction fuel as [|k IH]; intros st st' H; simpl in H; [discriminate|].
    destruct (forallb ps_small st) eqn:E.
    - injection H as <-. exists O. split; [apply PeanoNat.Nat.lt_0_succ|]. split; [|exact E].
      simpl. rewrite <- (map_id st) at 1. apply map_ext. reflexivity.
    - destruct (IH _ _ H) as [n [Hn [E' Hs]]]. exists (S n).
      split; [apply (proj1 (PeanoNat.Nat.succ_lt_mono _ _)); exact Hn|]. split; [|exact Hs].
      rewrite E', map_map. apply map_ext. intro q. rewrite iter_shift'. reflexivity.
  Qed.

  (* C19 plane_stress_exit_all_points: if the loop leaves through its break test, the
     out-of-plane stress is below tol in absolute value at EVERY point of the field, and the
     points themselves (in-plane strain, state) are untouched *)
  Theorem plane_stress_exit_all_points : forall fuel field st',
      ps_loop fuel (ps_start field) = Some st' ->
      Forall (fun s => Rabs s < tol) (ps_returned_szz st') /\ map fst st' = field.
  Proof.
    intros fuel field st' H. destruct (ps_loop_pointwise _ _ _ H) as [n [_ [E Hs]]]. split.
    - unfold ps_returned_szz. rewrite Forall_map. rewrite forallb_forall in Hs.
      apply Forall_forall. intros q Hq. specialize (Hs q Hq). unfold ps_small in Hs.
      apply Rltb_true_iff in Hs. exact Hs.
    - rewrite E. unfold ps_start. rewrite !map_map.
      assert (Hf : forall m (q : Pt * R), fst (Nat.iter m ps_update q) = fst q).
      { induction m as [|m IHm]; intro q; [reflexivity|]. simpl. apply IHm. }
      rewrite <- (map_id field) at 2. apply map_ext. intro pt. rewrite Hf. reflexivity.
  Qed.

  (* a signed-maximum test does NOT have this property (what a mutated `np.abs(np.max(r))`
     computes): two points, residuals 0 and -1, tol = 1/2 *)
  Definition signed_max_small (rs : list R) : bool :=
    Rltb (Rabs (fold_right Rmax (hd 0 rs) rs)) tol.
End PlaneStress.

Lemma signed_max_test_is_wrong :
  signed_max_small (1/2) [0; -1] = true /\ ~ Forall (fun s => Rabs s < 1/2) [0; -1].
Proof.
  split.
  - unfold signed_max_small. apply Rltb_true_iff. simpl.
    rewrite (Rmax_right (-1) 0) by lra. rewrite Rmax_left by lra. rewrite Rabs_R0. lra.
  - intro H. inversion H as [|a l H1 H2]; subst. inversion H2 as [|b l' H3 H4]; subst.
    rewrite Rabs_left in H3 by lra. lra.
Qed.

(* non-vacuity: a linear elastic point converges in one update *)
Example ps_loop_exits : ps_loop unit (fun _ e => 2 * e - 1) (fun _ _ => 2) (1/10) 3 (ps_start unit [tt])
                        = Some [(tt, 1/2)].
Proof.
  unfold ps_start. simpl.
  assert (E1 : Rltb (Rabs (2 * 0 - 1)) (1/10) = false).
  { unfold Rltb. destruct (Rlt_dec _ _) as [H|H]; [|reflexivity]. rewrite Rabs_left in H by lra. lra. }
  unfold ps_small at 1. simpl. rewrite E1. simpl.
  assert (E2 : 0 - (2 * 0 - 1) / 2 = 1/2) by field. unfold ps_update. simpl. rewrite E2.
  assert (E3 : Rltb (Rabs (2 * (1/2) - 1)) (1/10) = true).
  { unfold Rltb. destruct (Rlt_dec _ _) as [H|H]; [reflexivity|]. exfalso. apply H.
    replace (2 * (1/2) - 1) with 0 by field. rewrite Rabs_R0. lra. }
  unfold ps_small. simpl. rewrite E3. reflexivity.
Qed.
