(* C18 — kinematics shared by every law (static; the translator checks on every run that
   _state.py still says  F = I + grad u,  C = Transpose(F) @ F,  E = 1/2 (C - I)).
   objectivity: C is unchanged by a superposed rotation, hence so is every function of C;
   midpoint_strain_increment: E(u1) - E(u0) = sym(F(umid)^T (F1 - F0)) exactly, the identity
   behind Delta e = B(umid) Delta u used by the energy-conserving stresses. *)
From Coq Require Import Reals Lra.
Open Scope R_scope.

Record M3 := mk3 { m11 : R; m12 : R; m13 : R; m21 : R; m22 : R; m23 : R; m31 : R; m32 : R; m33 : R }.

Definition mid3 : M3 := mk3 1 0 0 0 1 0 0 0 1.
Definition mtr (A : M3) : M3 :=
  mk3 (m11 A) (m21 A) (m31 A) (m12 A) (m22 A) (m32 A) (m13 A) (m23 A) (m33 A).
Definition mmul (A B : M3) : M3 :=
  mk3 (m11 A * m11 B + m12 A * m21 B + m13 A * m31 B) (m11 A * m12 B + m12 A * m22 B + m13 A * m32 B) (m11 A * m13 B + m12 A * m23 B + m13 A * m33 B)
      (m21 A * m11 B + m22 A * m21 B + m23 A * m31 B) (m21 A * m12 B + m22 A * m22 B + m23 A * m32 B) (m21 A * m13 B + m22 A * m23 B + m23 A * m33 B)
      (m31 A * m11 B + m32 A * m21 B + m33 A * m31 B) (m31 A * m12 B + m32 A * m22 B + m33 A * m32 B) (m31 A * m13 B + m32 A * m23 B + m33 A * m33 B).
Definition mlin (a : R) (A : M3) (b : R) (B : M3) : M3 :=
  mk3 (a * m11 A + b * m11 B) (a * m12 A + b * m12 B) (a * m13 A + b * m13 B)
      (a * m21 A + b * m21 B) (a * m22 A + b * m22 B) (a * m23 A + b * m23 B)
      (a * m31 A + b * m31 B) (a * m32 A + b * m32 B) (a * m33 A + b * m33 B).

(* the code: C_e_pg = Transpose(F_e_pg) @ F_e_pg ; E_e_pg = 1/2 * (C_e_pg - np.eye(3)) *)
Definition Cof (F : M3) : M3 := mmul (mtr F) F.
Definition Eof (F : M3) : M3 := mlin (1/2) (Cof F) (-1/2) mid3.
Definition msym (A : M3) : M3 := mlin (1/2) A (1/2) (mtr A).

Ltac m3 := repeat match goal with A : M3 |- _ => destruct A end;
           unfold Cof, Eof, msym, mlin, mmul, mtr, mid3 in *; simpl in *.

Lemma mtr_mmul A B : mtr (mmul A B) = mmul (mtr B) (mtr A).
Proof. m3. f_equal; ring. Qed.
Lemma mmul_assoc A B D : mmul (mmul A B) D = mmul A (mmul B D).
Proof. m3. f_equal; ring. Qed.
Lemma mmul_id_l A : mmul mid3 A = A.
Proof. m3. f_equal; ring. Qed.

Theorem objectivity_C : forall Q F : M3, mmul (mtr Q) Q = mid3 -> Cof (mmul Q F) = Cof F.
Proof.
  intros Q F HQ. unfold Cof. rewrite mtr_mmul, mmul_assoc, <- (mmul_assoc (mtr Q) Q F), HQ, mmul_id_l. reflexivity.
Qed.

(* any stored energy that reads F only through C (every translated law does: its arguments
   are the invariants, polynomials in the components of C) is frame indifferent *)
Theorem objectivity : forall (W : M3 -> R) (Q F : M3), mmul (mtr Q) Q = mid3 ->
  W (Cof (mmul Q F)) = W (Cof F).
Proof. intros W Q F HQ. now rewrite objectivity_C. Qed.

(* non-vacuity: a proper rotation (3-4-5 triangle about z) satisfies the hypothesis *)
Example rotation_exists : let Q := mk3 (3/5) (-4/5) 0 (4/5) (3/5) 0 0 0 1 in mmul (mtr Q) Q = mid3.
Proof. unfold mmul, mtr, mid3; simpl. f_equal; field. Qed.

(* the stress-free reference placement: F = I gives C = I, E = 0 *)
Lemma reference_kinematics : Cof mid3 = mid3 /\ Eof mid3 = mk3 0 0 0 0 0 0 0 0 0.
Proof. split; unfold Eof, Cof, mlin, mmul, mtr, mid3; simpl; f_equal; field. Qed.

Theorem midpoint_strain_increment : forall F0 F1 : M3,
  let Fm := mlin (1/2) F0 (1/2) F1 in
  mlin 1 (Eof F1) (-1) (Eof F0) = msym (mmul (mtr Fm) (mlin 1 F1 (-1) F0)).
Proof. intros F0 F1. m3. f_equal; field. Qed.

Print Assumptions objectivity.
Print Assumptions midpoint_strain_increment.
