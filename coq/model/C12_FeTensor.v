(* C12_FeTensor.v — hand-written executable model (definitions only) of FeArray VALUES:
   arrays are (shape, index -> V) with numpy semantics (row-major flat data, broadcasting reads),
   so results are computed, not only shapes.  Generic in the value type V and its operations
   (instantiated with Q in the generated case files; theorems hold for every V).
   Mirrors EasyFEA/FEM/_linalg.py; the Field operators of _field.py are specified as
   "evaluate the field, then apply the FeArray operator in the written operand order". *)
From Coq Require Import List Arith Bool ZArith Lia.
From EFModel Require Import C12_FeShape.
Import ListNotations.

Section Tensor.
Variable V : Type.
Variable vzero vone : V.
Variable vadd vmul : V -> V -> V.
Variable vnonzero : V -> bool.
Variable vbin : nat -> V -> V -> V.          (* binary ufunc table *)
Variable vun : nat -> V -> V.                (* unary ufunc table *)
Variable vred : nat -> list V -> V.          (* reducer table (sum, prod, max, min) *)
Variable vdet : nat -> (nat -> nat -> V) -> V.                 (* closed-form Det, dims 1-3 *)
Variable vinv : nat -> (nat -> nat -> V) -> nat -> nat -> V.   (* closed-form Inv, dims 1-3 *)
Variable vhalf : V.                          (* 1/2, for the symmetrised tensor product *)
Variable vsqrt : V -> V.                     (* square root, for Norm / Normalize *)

Record arr := mkArr { shape : list nat; dat : list nat -> V }.

(* ---------------- flat row-major data <-> index function ---------------- *)
Fixpoint ravel_from (acc : nat) (s idx : list nat) : nat :=
  match s, idx with
  | d :: s', i :: idx' => ravel_from (acc * d + i) s' idx'
  | _, _ => acc
  end.
Definition ravel := ravel_from 0.

Fixpoint indices (s : list nat) : list (list nat) :=
  match s with
  | [] => [[]]
  | d :: s' => flat_map (fun i => map (cons i) (indices s')) (seq 0 d)
  end.

Definition of_flat (s : list nat) (d : list V) : arr := mkArr s (fun idx => nth (ravel s idx) d vzero).
Definition to_flat (a : arr) : list V := map (dat a) (indices (shape a)).

Definition scalar_arr (v : V) : arr := mkArr [] (fun _ => v).

(* ---------------- operands and results ---------------- *)
Inductive operand := OFe (a : arr) | OPlain (a : arr) | OScalar (v : V).

(* error codes: 1 ValueError, 2 TypeError, 3 KeyError, 0 any exception *)
Inductive result := RFe (a : arr) | RPlain (a : arr) | RScalar (v : V) | RErr (code : nat).

Definition okind (o : operand) : kind :=
  match o with OFe _ => KFe | OPlain _ => KPlain | OScalar _ => KScalar end.
Definition oarr (o : operand) : arr :=
  match o with OFe a => a | OPlain a => a | OScalar v => scalar_arr v end.
Definition oshape (o : operand) : list nat := shape (oarr o).
Definition orank (o : operand) : nat := trank (okind o) (oshape o).
Definition is_fe (o : operand) : bool := match o with OFe _ => true | _ => false end.
Definition oks (o : operand) : kind * list nat := (okind o, oshape o).

(* ---------------- elementwise (ufunc) path ---------------- *)
(* op[(slice(None), slice(None)) + (None,) * n] : new size-1 axes after the two leading ones *)
Definition pad_arr (n : nat) (a : arr) : arr :=
  mkArr (pad_shape n (shape a)) (fun idx => dat a (firstn 2 idx ++ skipn (2 + n) idx)).

(* FeArray._align *)
Definition align (ops : list operand) : list arr :=
  let nt := list_max (map orank ops) in
  map (fun o => match o with
                | OFe a => pad_arr (nt - orank o) a
                | _ => oarr o
                end) ops.

(* numpy elementwise broadcast of already aligned arrays *)
Definition ew2 (f : V -> V -> V) (a b : arr) : option arr :=
  match np_bcast (shape a) (shape b) with
  | Some u => Some (mkArr u (fun k => f (dat a (bidx (shape a) k)) (dat b (bidx (shape b) k))))
  | None => None
  end.

Definition ew1 (f : V -> V) (a : arr) : arr := mkArr (shape a) (fun k => f (dat a k)).

(* a binary ufunc / operator with at least one FeArray operand (FeArray.__array_ufunc__) *)
Definition fe_ufunc2 (op : nat) (x y : operand) : result :=
  match align [x; y] with
  | [a; b] =>
      match ew2 (vbin op) a b with
      | Some r => if is_fe x || is_fe y then RFe r else RPlain r
      | None => RErr 1
      end
  | _ => RErr 0
  end.

Definition fe_ufunc1 (op : nat) (x : operand) : result :=
  match x with
  | OFe a => RFe (ew1 (vun op) a)
  | _ => RPlain (ew1 (vun op) (oarr x))
  end.

(* ---------------- contractions (np.einsum with a leading ellipsis) ---------------- *)
(* one operand of a contraction seen at a fixed batch index: labels, core shape, reader *)
Record cop := mkCop { c_lab : list nat; c_shp : list nat; c_get : list nat -> V }.

Fixpoint lab_size_in (lab shp : list nat) (l : nat) : nat :=
  match lab, shp with
  | x :: lab', d :: shp' =>
      if x =? l then Nat.max d (lab_size_in lab' shp' l) else lab_size_in lab' shp' l
  | _, _ => 0
  end.
Definition lab_size (ops : list (list nat * list nat)) (l : nat) : nat :=
  list_max (map (fun o => lab_size_in (fst o) (snd o) l) ops).

(* every axis bound to a label has the label's size; einsum (strict = false) also lets a
   size-1 axis broadcast, np.matmul (strict = true) does not *)
Fixpoint lab_ok_in (strict : bool) (size : nat -> nat) (lab shp : list nat) : bool :=
  match lab, shp with
  | [], [] => true
  | x :: lab', d :: shp' =>
      ((d =? size x) || (negb strict && (d =? 1))) && lab_ok_in strict size lab' shp'
  | _, _ => false
  end.

(* inside ONE operand a repeated label ("...ii") must bind axes of exactly the same size *)
Fixpoint lab_first (lab shp : list nat) (l : nat) : nat :=
  match lab, shp with
  | x :: lab', d :: shp' => if x =? l then d else lab_first lab' shp' l
  | _, _ => 0
  end.
Fixpoint lab_self_ok_from (lab0 shp0 lab shp : list nat) : bool :=
  match lab, shp with
  | x :: lab', d :: shp' => (d =? lab_first lab0 shp0 x) && lab_self_ok_from lab0 shp0 lab' shp'
  | _, _ => true
  end.
Definition lab_self_ok (lab shp : list nat) : bool := lab_self_ok_from lab shp lab shp.

Definition upd (e : nat -> nat) (l v : nat) : nat -> nat := fun x => if x =? l then v else e x.
Fixpoint bind (lab idx : list nat) (e : nat -> nat) : nat -> nat :=
  match lab, idx with
  | l :: lab', i :: idx' => bind lab' idx' (upd e l i)
  | _, _ => e
  end.

Fixpoint vsum (l : list V) : V :=
  match l with [] => vzero | [x] => x | x :: r => vadd x (vsum r) end.
Fixpoint vprod (l : list V) : V :=
  match l with [] => vone | [x] => x | x :: r => vmul x (vprod r) end.

Fixpoint sum_over (ls : list nat) (size : nat -> nat) (e : nat -> nat) (f : (nat -> nat) -> V) : V :=
  match ls with
  | [] => f e
  | l :: r => vsum (map (fun i => sum_over r size (upd e l i) f) (seq 0 (size l)))
  end.

Fixpoint dedup (l : list nat) : list nat :=
  match l with [] => [] | x :: r => if memb x r then dedup r else x :: dedup r end.

Definition contracted (labs : list (list nat)) (lo : list nat) : list nat :=
  filter (fun l => negb (memb l lo)) (dedup (concat labs)).

(* the plain-tensor contraction: value of output entry [ko] *)
Definition core_contract (ops : list cop) (lo ko : list nat) : V :=
  let size := lab_size (map (fun c => (c_lab c, c_shp c)) ops) in
  sum_over (contracted (map c_lab ops) lo) size (bind lo ko (fun _ => 0))
    (fun e => vprod (map (fun c => c_get c (clip (c_shp c) (map e (c_lab c)))) ops)).

Definition batch_of (lab : list nat) (a : arr) : list nat := firstn (length (shape a) - length lab) (shape a).
Definition core_of (lab : list nat) (a : arr) : list nat := skipn (length (shape a) - length lab) (shape a).

(* operand [a] sliced at the batch index kb of the result *)
Definition slice_at (kb : list nat) (la : list nat * arr) : cop :=
  let (lab, a) := la in
  mkCop lab (core_of lab a) (fun c => dat a (bidx (batch_of lab a) kb ++ c)).

(* np.einsum("...<l1>,...<l2>,...->...<lo>", a1, a2, ...) *)
Definition einsum (strict : bool) (ops : list (list nat * arr)) (lo : list nat) : option arr :=
  if forallb (fun la => length (fst la) <=? length (shape (snd la))) ops then
    let cores := map (fun la => (fst la, core_of (fst la) (snd la))) ops in
    let size := lab_size cores in
    if forallb (fun c => lab_ok_in strict size (fst c) (snd c) && lab_self_ok (fst c) (snd c)) cores then
      match np_bcast_all (map (fun la => batch_of (fst la) (snd la)) ops) with
      | Some bs =>
          Some (mkArr (bs ++ map size lo)
                  (fun k => let nb := length k - length lo in
                            core_contract (map (slice_at (firstn nb k)) ops) lo (skipn nb k)))
      | None => None
      end
    else None
  else None.

Definition fe_shape_of (ops : list operand) : option (list nat) := fe_shape (map oks ops).

(* FeArray.__wrap *)
Definition wrap (ops : list operand) (r : arr) : result :=
  match fe_shape_of ops with
  | Some fs => if existsb is_fe ops && wrap_is_fe (shape r) fs then RFe r else RPlain r
  | None => RErr 1
  end.

(* np.einsum routed through __array_function__ *)
Definition fe_einsum (ops : list (list nat * operand)) (lo : list nat) : result :=
  match einsum false (map (fun lo' => (fst lo', oarr (snd lo'))) ops) lo with
  | Some r => wrap (map snd ops) r
  | None => RErr 1
  end.

(* FeArray.asfearray on a result *)
Definition as_fe (r : result) : result :=
  match r with
  | RFe a => RFe a
  | RPlain a => if 2 <=? length (shape a) then RFe a else RErr 1
  | RScalar _ => RErr 1
  | RErr c => RErr c
  end.

Definition rank_checked (o : operand) : option nat :=
  match o with OScalar _ => None | _ => Some (orank o) end.

(* FeArray.dot *)
Definition fe_dot (x y : operand) : result :=
  if orank x =? 0 then RErr 1 else
  match rank_checked y with
  | None => RErr 2
  | Some n2 =>
      if n2 =? 0 then RErr 1 else
      match dot_labels (orank x) n2 with
      | Some (l1, l2, lo) => as_fe (fe_einsum [(l1, x); (l2, y)] lo)
      | None => RErr 3
      end
  end.

(* FeArray.ddot *)
Definition fe_ddot (x y : operand) : result :=
  if orank x <? 2 then RErr 1 else
  match rank_checked y with
  | None => RErr 2
  | Some n2 =>
      if n2 <? 2 then RErr 1 else
      match ddot_labels (orank x) n2 with
      | Some (l1, l2, lo) => as_fe (fe_einsum [(l1, x); (l2, y)] lo)
      | None => RErr 3
      end
  end.

(* FeArray.__matmul__ ; also the specification of `plain @ field` (same dispatch, ranks by kind) *)
Definition fe_matmul (x y : operand) : result :=
  match rank_checked y with
  | None => RErr 2
  | Some n2 =>
      match matmul_branch (orank x) n2 with
      | MMdot => fe_dot x y
      | MMmatmul =>
          match einsum true [([0; 1], oarr x); ([1; 2], oarr y)] [0; 2] with
          | Some r => wrap [x; y] r
          | None => RErr 1
          end
      | MMvecmat => as_fe (fe_einsum [([0], x); ([0; 1], y)] [1])
      | MMmatvec => as_fe (fe_einsum [([0; 1], x); ([1], y)] [0])
      end
  end.

(* ---------------- transpose ---------------- *)
Definition fe_T (x : operand) : result :=
  match x with
  | OFe a => RFe (mkArr (T_shape (shape a)) (fun k => dat a (firstn 2 k ++ T_tensor (skipn 2 k))))
  | _ => RErr 0
  end.

(* _linalg.Transpose: np.swapaxes(mat, -1, -2), keeps the kind *)
Definition fe_Transpose (x : operand) : result :=
  let a := oarr x in
  if length (shape a) <? 2 then RErr 0 else
  let r := mkArr (swap_last2 (shape a)) (fun k => dat a (swap_last2 k)) in
  match x with OFe _ => RFe r | _ => RPlain r end.

(* ---------------- reducers ---------------- *)
Fixpoint select_axes_from (i : nat) (axes s : list nat) : list nat :=
  match s with
  | [] => []
  | d :: r => if memb i axes then d :: select_axes_from (S i) axes r else select_axes_from (S i) axes r
  end.

Fixpoint merge_idx (i : nat) (axes s k r : list nat) : list nat :=
  match s with
  | [] => []
  | _ :: s' =>
      if memb i axes then
        match r with x :: r' => x :: merge_idx (S i) axes s' k r' | [] => [] end
      else
        match k with x :: k' => x :: merge_idx (S i) axes s' k' r | [] => [] end
  end.

Definition reduce_arr (f : list V -> V) (axes : list nat) (a : arr) : arr :=
  mkArr (remove_axes axes (shape a))
        (fun k => f (map (fun r => dat a (merge_idx 0 axes (shape a) k r))
                         (indices (select_axes_from 0 axes (shape a))))).

Definition all_axes (n : nat) : list nat := seq 0 n.

(* a reduction f over [axis]: the value is numpy's, the type is read from axis *)
Definition fe_reduce_with (f : list V -> V) (axis : option (list Z)) (x : operand) : result :=
  let a := oarr x in
  let nd := length (shape a) in
  let axes := match axis with None => all_axes nd | Some l => map (norm_axis nd) l end in
  let r := reduce_arr f axes a in
  if is_fe x && keeps_fe_axes axis (Z.of_nat nd) && (2 <=? length (shape r)) then RFe r else RPlain r.

(* fe.sum(axis=...) and np.sum(fe, axis=...) *)
Definition fe_reduce (op : nat) (axis : option (list Z)) (x : operand) : result :=
  fe_reduce_with (vred op) axis x.

(* _linalg.Norm(array, axis=a | (a, b)): Euclidean length along one axis, Frobenius norm over
   two (all entries when axis is omitted).  SPECIFICATION of the type: like every reduction, a FeArray exactly when the
   reduced axis is a tensor axis. *)
Definition norm_of (l : list V) : V := vsqrt (vsum (map (fun v => vmul v v) l)).
Definition fe_Norm (axis : option (list Z)) (x : operand) : result :=
  fe_reduce_with norm_of axis x.

(* _linalg.Normalize(array, axis): every entry divided by the Euclidean length of its slice
   along [axis]; zero-length slices are divided by 1.  Shape and kind are the input's. *)
Fixpoint set_nth (j v : nat) (k : list nat) : list nat :=
  match k, j with
  | [], _ => []
  | _ :: k', 0 => v :: k'
  | x :: k', S j' => x :: set_nth j' v k'
  end.
Definition fe_Normalize (axis : Z) (x : operand) : result :=
  let a := oarr x in
  let j := norm_axis (length (shape a)) axis in
  let r := mkArr (shape a)
             (fun k => let n := norm_of (map (fun i => dat a (set_nth j i k)) (seq 0 (nth j (shape a) 0))) in
                       vbin 3 (dat a k) (if vnonzero n then n else vone)) in
  match x with
  | OFe _ => RFe r
  | OScalar _ => RErr 0
  | OPlain _ => RPlain r
  end.

(* ---------------- np.where through __array_function__ (numpy's plain broadcasting) --------- *)
Definition ew3 (f : V -> V -> V -> V) (a b c : arr) : option arr :=
  match np_bcast_all [shape a; shape b; shape c] with
  | Some u => Some (mkArr u (fun k => f (dat a (bidx (shape a) k)) (dat b (bidx (shape b) k))
                                        (dat c (bidx (shape c) k))))
  | None => None
  end.

Definition fe_where (c x y : operand) : result :=
  match ew3 (fun cv xv yv => if vnonzero cv then xv else yv) (oarr c) (oarr x) (oarr y) with
  | Some r => wrap [c; x; y] r
  | None => RErr 1
  end.

(* ---------------- Trace / Det / Inv ---------------- *)
Definition last2_square (s : list nat) : bool :=
  match rev s with a :: b :: _ => (a =? b) && (0 <? a) | _ => false end.

Definition keep_kind (x : operand) (r : arr) : result :=
  match x with OFe _ => as_fe (RPlain r) | _ => RPlain r end.

Definition fe_Trace (x : operand) : result :=
  let a := oarr x in
  if last2_square (shape a) then
    match einsum false [([0; 0], a)] [] with
    | Some r => keep_kind x r
    | None => RErr 0
    end
  else RErr 0.

Definition mat_at (a : arr) (kb : list nat) : nat -> nat -> V := fun i j => dat a (kb ++ [i; j]).

Definition fe_Det (x : operand) : result :=
  let a := oarr x in
  if last2_square (shape a) then
    let n := last (shape a) 0 in
    keep_kind x (mkArr (firstn (length (shape a) - 2) (shape a)) (fun kb => vdet n (mat_at a kb)))
  else RErr 0.

Definition fe_Inv (x : operand) : result :=
  let a := oarr x in
  if last2_square (shape a) then
    let n := last (shape a) 0 in
    let nb := length (shape a) - 2 in
    keep_kind x (mkArr (shape a)
                   (fun k => vinv n (mat_at a (firstn nb k)) (nth 0 (skipn nb k) 0) (nth 1 (skipn nb k) 0)))
  else RErr 0.

(* ---------------- TensorProd(A, B, symmetric, ndim) ---------------- *)
(* labels of the einsum literals (i j k l = 0 1 2 3) *)
Definition tp_vec : list nat * list nat * list nat := ([0], [1], [0; 1]).                 (* ...i,...j->...ij *)
Definition tp_mat : list nat * list nat * list nat := ([0; 1], [2; 3], [0; 1; 2; 3]).     (* ...ij,...kl->...ijkl *)
Definition tp_sym1 : list nat * list nat * list nat := ([0; 2], [1; 3], [0; 1; 2; 3]).    (* ...ik,...jl->...ijkl *)
Definition tp_sym2 : list nat * list nat * list nat := ([0; 3], [1; 2], [0; 1; 2; 3]).    (* ...il,...jk->...ijkl *)

Definition einsum_l (lb : list nat * list nat * list nat) (a b : arr) : option arr :=
  let '(l1, l2, lo) := lb in einsum false [(l1, a); (l2, b)] lo.

(* both operands FeArrays, or both plain; a mixed call fails (it reads ._ndim of the plain one) *)
Definition fe_TensorProd (sym : bool) (nd : option nat) (x y : operand) : result :=
  match x, y with
  | OScalar _, _ | _, OScalar _ => RErr 0
  | OFe _, OPlain _ | OPlain _, OFe _ => RErr 0
  | _, _ =>
      let n := match nd with Some n => n | None => orank x end in
      if negb ((n =? 1) || (n =? 2)) then RErr 0
      else if is_fe x && negb (orank x =? orank y) then RErr 0
      else if negb (is_fe x) && negb (length (indices (shape (oarr x))) =? length (indices (shape (oarr y)))) then RErr 0
      else
        let fin (r : arr) := if is_fe x then as_fe (RPlain r) else RPlain r in
        if n =? 1 then
          match einsum_l tp_vec (oarr x) (oarr y) with Some r => fin r | None => RErr 1 end
        else if sym then
          match einsum_l tp_sym1 (oarr x) (oarr y), einsum_l tp_sym2 (oarr x) (oarr y) with
          | Some p1, Some p2 =>
              match ew2 vadd p1 p2 with
              | Some s => fin (ew1 (fun v => vmul vhalf v) s)
              | None => RErr 1
              end
          | _, _ => RErr 1
          end
        else
          match einsum_l tp_mat (oarr x) (oarr y) with Some r => fin r | None => RErr 1 end
  end.

(* ---------------- FeArray.broadcast(value, Ne, nPg, tensor_ndim) ---------------- *)
Definition fe_broadcast (x : operand) (Ne nPg td : nat) : result :=
  match x with
  | OScalar v => RScalar v
  | _ =>
      let a := oarr x in
      match broadcast_class (shape a) Ne nPg td with
      | BFull => RFe a
      | BPerElem => RFe (mkArr (Ne :: nPg :: skipn 1 (shape a))
                           (fun k => dat a (nth 0 k 0 :: skipn 2 k)))
      | BPerPoint => RFe (mkArr [Ne; nPg] (fun k => dat a [nth 1 k 0]))
      | BConst => RFe (mkArr (Ne :: nPg :: shape a) (fun k => dat a (skipn 2 k)))
      | BError => RErr 1
      end
  end.

(* ---------------- reductions with keepdims=True ---------------- *)
Fixpoint keep_axes_from (i : nat) (axes s : list nat) : list nat :=
  match s with
  | [] => []
  | d :: r => (if memb i axes then 1 else d) :: keep_axes_from (S i) axes r
  end.
(* drop the entries of an index that sit on reduced axes *)
Fixpoint drop_axes_from {A} (i : nat) (axes : list nat) (k : list A) : list A :=
  match k with
  | [] => []
  | x :: r => if memb i axes then drop_axes_from (S i) axes r else x :: drop_axes_from (S i) axes r
  end.
Definition reduce_arr_kd (f : list V -> V) (axes : list nat) (a : arr) : arr :=
  mkArr (keep_axes_from 0 axes (shape a))
        (fun k => dat (reduce_arr f axes a) (drop_axes_from 0 axes k)).

Definition fe_reduce_kd (op : nat) (axis : option (list Z)) (x : operand) : result :=
  let a := oarr x in
  let nd := length (shape a) in
  let axes := match axis with None => all_axes nd | Some l => map (norm_axis nd) l end in
  let r := reduce_arr_kd (vred op) axes a in
  if is_fe x && keeps_fe_axes axis (Z.of_nat nd) && (2 <=? length (shape r)) then RFe r else RPlain r.

(* ---------------- np.swapaxes / np.concatenate / np.stack through __array_function__ ----------
   values are numpy's; the TYPE is the rule as written in FeArray.__wrap: compare the first two
   axes of the result with the operands' (Ne, nPg) *)
Definition swap_pos (a b i : nat) : nat := if i =? a then b else if i =? b then a else i.
Definition swap_idx (a b : nat) (l : list nat) : list nat :=
  map (fun i => nth (swap_pos a b i) l 0) (seq 0 (length l)).

Definition fe_swapaxes (a b : Z) (x : operand) : result :=
  let ar := oarr x in
  let nd := length (shape ar) in
  let a' := norm_axis nd a in
  let b' := norm_axis nd b in
  wrap [x] (mkArr (swap_idx a' b' (shape ar)) (fun k => dat ar (swap_idx a' b' k))).

Fixpoint concat_pick (j : nat) (arrs : list arr) (k : list nat) : V :=
  match arrs with
  | [] => vzero
  | a :: rest =>
      let d := nth j (shape a) 0 in
      let kj := nth j k 0 in
      if kj <? d then dat a k else concat_pick j rest (set_nth j (kj - d) k)
  end.

Definition same_off_axis (j : nat) (s t : list nat) : bool := list_eqb (set_nth j 0 s) (set_nth j 0 t).

Definition fe_concat (axis : Z) (xs : list operand) : result :=
  match xs with
  | [] => RErr 1
  | x0 :: _ =>
      let s0 := oshape x0 in
      let j := norm_axis (length s0) axis in
      if (j <? length s0) && forallb (fun x => same_off_axis j s0 (oshape x)) xs then
        let tot := fold_right Nat.add 0 (map (fun x => nth j (oshape x) 0) xs) in
        wrap xs (mkArr (set_nth j tot s0) (fun k => concat_pick j (map oarr xs) k))
      else RErr 1
  end.

Fixpoint insert_nth {A} (j : nat) (v : A) (l : list A) : list A :=
  match j, l with
  | 0, _ => v :: l
  | S j', x :: r => x :: insert_nth j' v r
  | S _, [] => [v]
  end.
Fixpoint remove_nth {A} (j : nat) (l : list A) : list A :=
  match j, l with
  | _, [] => []
  | 0, _ :: r => r
  | S j', x :: r => x :: remove_nth j' r
  end.

Definition fe_stack (axis : Z) (xs : list operand) : result :=
  match xs with
  | [] => RErr 1
  | x0 :: _ =>
      let s0 := oshape x0 in
      let j := norm_axis (S (length s0)) axis in
      if (j <=? length s0) && forallb (fun x => list_eqb s0 (oshape x)) xs then
        wrap xs (mkArr (insert_nth j (length xs) s0)
                   (fun k => dat (nth (nth j k 0) (map oarr xs) (scalar_arr vzero)) (remove_nth j k)))
      else RErr 1
  end.

(* ---------------- ufunc with out= and the in-place operators ---------------- *)
(* np.<ufunc>(x, y, out=o): the aligned inputs must broadcast exactly to o's shape (o is one of
   the inputs for `x += y`); the call returns o itself, so the type is o's *)
Definition fe_ufunc2_out (op : nat) (x y : operand) (out_shape : list nat) (out_fe : bool) : result :=
  match fe_ufunc2 op x y with
  | RFe r | RPlain r =>
      if list_eqb (shape r) out_shape then (if out_fe then RFe r else RPlain r) else RErr 1
  | e => e
  end.

(* ---------------- per-point slices, used by the specifications ---------------- *)
(* tensor held at element e, Gauss point p: a FeArray is read at (e,p) (with numpy's size-1
   broadcasting of the leading axes), a plain array / scalar is the same constant everywhere *)
Definition point_tensor (o : operand) (e p : nat) : arr :=
  match o with
  | OFe a => mkArr (skipn 2 (shape a)) (fun k => dat a (clip (firstn 2 (shape a)) [e; p] ++ k))
  | _ => oarr o
  end.

(* ---------------- expression language of the correspondence cases ---------------- *)
Inductive expr :=
  | EUfunc2 (op : nat) (x y : operand)
  | EUfunc1 (op : nat) (x : operand)
  | EMatmul (x y : operand)
  | EDot (x y : operand)
  | EDdot (x y : operand)
  | ET (x : operand)
  | ETranspose (x : operand)
  | EReduce (op : nat) (axis : option (list Z)) (x : operand)
  | EEinsum (ops : list (list nat * operand)) (lo : list nat)
  | EWhere (c x y : operand)
  | ETrace (x : operand)
  | EDet (x : operand)
  | EInv (x : operand)
  | EBroadcast (x : operand) (Ne nPg td : nat)
  | ETensorProd (sym : bool) (nd : option nat) (x y : operand)
  | ENorm (axis : option (list Z)) (x : operand)
  | ENormalize (axis : Z) (x : operand)
  | EReduceKd (op : nat) (axis : option (list Z)) (x : operand)
  | ESwapaxes (a b : Z) (x : operand)
  | EConcat (axis : Z) (xs : list operand)
  | EStack (axis : Z) (xs : list operand)
  | EOut (op : nat) (x y : operand) (out_shape : list nat) (out_fe : bool).

Definition eval (e : expr) : result :=
  match e with
  | EUfunc2 op x y => fe_ufunc2 op x y
  | EUfunc1 op x => fe_ufunc1 op x
  | EMatmul x y => fe_matmul x y
  | EDot x y => fe_dot x y
  | EDdot x y => fe_ddot x y
  | ET x => fe_T x
  | ETranspose x => fe_Transpose x
  | EReduce op axis x => fe_reduce op axis x
  | EEinsum ops lo => fe_einsum ops lo
  | EWhere c x y => fe_where c x y
  | ETrace x => fe_Trace x
  | EDet x => fe_Det x
  | EInv x => fe_Inv x
  | EBroadcast x Ne nPg td => fe_broadcast x Ne nPg td
  | ETensorProd sym nd x y => fe_TensorProd sym nd x y
  | ENorm axis x => fe_Norm axis x
  | ENormalize axis x => fe_Normalize axis x
  | EReduceKd op axis x => fe_reduce_kd op axis x
  | ESwapaxes a b x => fe_swapaxes a b x
  | EConcat axis xs => fe_concat axis xs
  | EStack axis xs => fe_stack axis xs
  | EOut op x y s b => fe_ufunc2_out op x y s b
  end.

(* canonical observable form: (kind code, shape, row-major values) ;
   0 plain ndarray, 1 FeArray, 2 python scalar, 10 + c error with code c *)
Definition observe (r : result) : nat * list nat * list V :=
  match r with
  | RPlain a => (0, shape a, to_flat a)
  | RFe a => (1, shape a, to_flat a)
  | RScalar v => (2, [], [v])
  | RErr c => (10 + c, [], [])
  end.

End Tensor.
