(* C04 -- several solves on one simulation object: for ANY history of Bc_Init / add_dirichlet / solve the
   known/unknown split used by a solve is the split of the CURRENT list of conditions.  Stated for an
   implementation that may memoise the split under an arbitrary key computed from the condition list:
   sound for all histories iff the key determines the set of constrained dofs; the code (no memo, i.e. the
   key is the list itself) is; a key made of (#conditions, #entries) is refuted by a witness. *)
From Coq Require Import ZArith List Bool Lia.
From EFModel Require Import C03_Csr C04_Solve.
Import ListNotations.
Open Scope Z_scope.

Definition conds := list (list Z).                    (* dofs of each Dirichlet condition, in entry order *)
Definition all_dofs (c : conds) : list Z := concat c. (* BoundaryCondition.Get_dofs *)
Definition split_of (n : Z) (c : conds) : list Z * list Z := (known n (all_dofs c), unknown n (all_dofs c)).

Inductive bop := BInit | BAdd (dofs : list Z) | BSolve.

Section Memo.
Variable K : Type.
Variable mkey : conds -> K.
Variable K_eqb : K -> K -> bool.
Hypothesis K_eqb_spec : forall a b, K_eqb a b = true <-> a = b.
Variable n : Z.

Definition memo := list (K * (list Z * list Z)).
Fixpoint mlookup (k : K) (m : memo) : option (list Z * list Z) :=
  match m with [] => None | (k', v) :: t => if K_eqb k k' then Some v else mlookup k t end.

Record st := { s_conds : conds; s_memo : memo }.

(* the split a solve uses, and the state after the op *)
Definition bstep (s : st) (o : bop) : option (list Z * list Z) * st :=
  match o with
  | BInit => (None, {| s_conds := []; s_memo := s_memo s |})
  | BAdd d => (None, {| s_conds := s_conds s ++ [d]; s_memo := s_memo s |})
  | BSolve =>
      match mlookup (mkey (s_conds s)) (s_memo s) with
      | Some v => (Some v, s)
      | None => let v := split_of n (s_conds s) in
                (Some v, {| s_conds := s_conds s; s_memo := (mkey (s_conds s), v) :: s_memo s |})
      end
  end.

Fixpoint brun (s : st) (ops : list bop) : st :=
  match ops with [] => s | o :: t => brun (snd (bstep s o)) t end.

Definition key_determines_split : Prop :=
  forall c1 c2, mkey c1 = mkey c2 -> split_of n c1 = split_of n c2.

Definition memo_inv (m : memo) : Prop :=
  forall c v, mlookup (mkey c) m = Some v -> v = split_of n c.

Lemma bstep_inv s o : key_determines_split -> memo_inv (s_memo s) -> memo_inv (s_memo (snd (bstep s o))).
Proof.
  intros Hdet Hinv. destruct o; simpl; try assumption.
  destruct (mlookup (mkey (s_conds s)) (s_memo s)) eqn:E; simpl; [assumption|].
  intros c v. simpl. destruct (K_eqb (mkey c) (mkey (s_conds s))) eqn:E2.
  - apply K_eqb_spec in E2. intros [= <-]. symmetry. now apply Hdet.
  - apply Hinv.
Qed.

Lemma brun_inv ops : forall s, key_determines_split -> memo_inv (s_memo s) -> memo_inv (s_memo (brun s ops)).
Proof. induction ops; intros s Hd Hi; simpl; [assumption|]. apply IHops; [assumption|now apply bstep_inv]. Qed.

(* after ANY history, a solve uses the split of the current condition list *)
Theorem solve_uses_current_split ops :
  key_determines_split ->
  let s := brun {| s_conds := []; s_memo := [] |} ops in
  fst (bstep s BSolve) = Some (split_of n (s_conds s)).
Proof.
  intros Hdet s. simpl.
  assert (Hinv : memo_inv (s_memo s)).
  { apply brun_inv; [assumption|]. intros c v H. discriminate. }
  destruct (mlookup (mkey (s_conds s)) (s_memo s)) eqn:E; simpl; [|reflexivity].
  f_equal. now apply Hinv.
Qed.

(* the current condition list is what the ops since the last Bc_Init entered, in order *)
Fixpoint conds_after (c : conds) (ops : list bop) : conds :=
  match ops with
  | [] => c
  | BInit :: t => conds_after [] t
  | BAdd d :: t => conds_after (c ++ [d]) t
  | BSolve :: t => conds_after c t
  end.

Lemma brun_conds ops : forall s, s_conds (brun s ops) = conds_after (s_conds s) ops.
Proof.
  induction ops as [|o t IH]; intros s; simpl; [reflexivity|]. rewrite IH. destruct o; simpl; try reflexivity.
  destruct (mlookup (mkey (s_conds s)) (s_memo s)); reflexivity.
Qed.
End Memo.

(* the code: no memo at all = the key is the condition list itself *)
Theorem identity_key_determines_split n : key_determines_split conds (fun c => c) n.
Proof. intros c1 c2 ->. reflexivity. Qed.

(* any key that determines the SET of entered dofs is fine (order / duplicates / grouping are irrelevant) *)
Theorem dof_set_determines_split n c1 c2 :
  (forall d, In d (all_dofs c1) -> 0 <= d) -> (forall d, In d (all_dofs c2) -> 0 <= d) ->
  (forall d, In d (all_dofs c1) <-> In d (all_dofs c2)) -> split_of n c1 = split_of n c2.
Proof.
  intros H1 H2 Hs. unfold split_of, known, unknown. f_equal; apply filter_ext_in; intros i Hi;
    apply in_zrange in Hi; rewrite !nth_mask by assumption; f_equal;
    (destruct (zmem i (all_dofs c1)) eqn:E1; destruct (zmem i (all_dofs c2)) eqn:E2; try reflexivity;
     [apply zmem_In in E1; apply Hs in E1; apply zmem_In in E1; congruence
     |apply zmem_In in E2; apply Hs in E2; apply zmem_In in E2; congruence]).
Qed.

(* a key made of counts: (#conditions, #entries) -- refuted *)
Definition count_key (c : conds) : Z * Z := (Z.of_nat (length c), Z.of_nat (length (all_dofs c))).
Definition zz_eqb (a b : Z * Z) : bool := (fst a =? fst b) && (snd a =? snd b).

Example count_key_refuted :
  let ops := [BAdd [0; 1]; BSolve; BInit; BAdd [2; 3]] in
  let s := brun (Z * Z) count_key zz_eqb 4 {| s_conds := []; s_memo := [] |} ops in
  s_conds _ s = [[2; 3]] /\
  fst (bstep (Z * Z) count_key zz_eqb 4 s BSolve) = Some ([0; 1], [2; 3]) /\
  split_of 4 (s_conds _ s) = ([2; 3], [0; 1]).
Proof. vm_compute. repeat split. Qed.
