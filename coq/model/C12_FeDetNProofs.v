(* C12_FeDetNProofs.v — facts about the generic Leibniz determinant / adjugate of C12_FeDetN over
   R, independent of /repo (proved once): Laplace expansion = Leibniz for dims 2-5;
   adjugate * A = A * adjugate = det * I for dim 4, hence adjugate / det is the two-sided inverse
   when det <> 0.  These are the references the numpy fallback (dim > 3) of Det / Inv is compared
   with in the correspondence. *)
From Coq Require Import List Arith Bool Reals Lra Lia.
From EFModel Require Import C12_FeDetN.
Import ListNotations.
Local Open Scope nat_scope.

Definition leibnizR := leibniz_gen R 0%R 1%R Rplus Rmult Ropp.
Definition adjugateR := adjugate_gen R 0%R 1%R Rplus Rmult Ropp.
Definition cofactorR := cofactor_row0 R 0%R 1%R Rplus Rmult Ropp.

Theorem cofactor_expansion_is_leibniz_2_to_5 (m : nat -> nat -> R) :
  cofactorR 2 m = leibnizR 2 m /\ cofactorR 3 m = leibnizR 3 m /\ cofactorR 4 m = leibnizR 4 m /\
  cofactorR 5 m = leibnizR 5 m.
Proof.
  repeat split; unfold cofactorR, cofactor_row0, leibnizR, leibniz_gen, signed, minor; cbn; ring.
Qed.

Definition mmulR (n : nat) (A B : nat -> nat -> R) (i j : nat) : R :=
  fold_right Rplus 0%R (map (fun k => (A i k * B k j)%R) (seq 0 n)).
Definition deltaR (i j : nat) : R := if i =? j then 1%R else 0%R.

Ltac adj_case := unfold mmulR, deltaR, adjugateR, adjugate_gen, leibnizR, leibniz_gen, signed, minor; cbn; ring.

Theorem adjugate4_times_matrix (m : nat -> nat -> R) : forall i j, i < 4 -> j < 4 ->
  mmulR 4 (adjugateR 4 m) m i j = (leibnizR 4 m * deltaR i j)%R /\
  mmulR 4 m (adjugateR 4 m) i j = (leibnizR 4 m * deltaR i j)%R.
Proof.
  intros i j Hi Hj.
  destruct i as [|[|[|[|i]]]]; try lia; destruct j as [|[|[|[|j]]]]; try lia; split; adj_case.
Qed.

(* hence adjugate / det is the two-sided inverse whenever det <> 0 *)
Corollary adjugate4_over_det_is_inverse (m : nat -> nat -> R) : leibnizR 4 m <> 0%R ->
  forall i j, i < 4 -> j < 4 ->
    mmulR 4 (fun a b => (adjugateR 4 m a b / leibnizR 4 m)%R) m i j = deltaR i j.
Proof.
  intros Hd i j Hi Hj. destruct (adjugate4_times_matrix m i j Hi Hj) as [H _].
  unfold mmulR in *. cbn [seq map fold_right] in *.
  apply Rmult_eq_reg_l with (r := leibnizR 4 m); [|exact Hd]. rewrite <- H. field. exact Hd.
Qed.


Example det4_hyp_satisfiable : leibnizR 4 (fun i j => if i =? j then 1%R else 0%R) <> 0%R.
Proof. unfold leibnizR, leibniz_gen, signed. cbn. lra. Qed.
