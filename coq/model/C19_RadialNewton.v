(* C19_RadialNewton.v — monotone convergence of the source's Newton iteration BEYOND linear
   hardening: radial eigen-structure, any CONCAVE non-decreasing differentiable hardening
   (Linear, Voce; Swift satisfies the same hypotheses), no rate law.

   r(theta) = phi0 d - sigma_y - R(p + phi0 theta d),  d = 1/(1 + lam theta):
     d is convex, theta d is concave increasing, R is concave non-decreasing  =>  r is convex and
     decreasing, and its derivative is the source's `drdtheta` (= dphi - slope*ddG).
   Hence the tangent-line inequality  r(b) >= r(a) + drdtheta(a) (b - a), and from any iterate to
   the left of the root theta_star the Newton update of _spectral.Solve
     - moves right (theta' >= theta), never passes the root (theta' <= theta_star),
     - so the clamp max(., 0) is never active and the residual stays >= 0,
   for every number of iterations starting at theta = 0; an update that does not move is at the root. *)
From Coquelicot Require Import Coquelicot.
From Coq Require Import Reals List Lra Bool Psatz.
From EFModel Require Import C19_Return1D C19_Return1D_proofs C19_Radial C19_Unique.
Import List ListNotations.
Open Scope R_scope.

Section RadialNewton.
  Variable lam sy dt p : R.
  Variable Rh dRh : R -> R.
  Variable ps : list (R * R).
  Hypothesis Hunif : uniform lam ps.
  Hypothesis Hlam : 0 < lam.
  Hypothesis Hphi0 : 0 < phi Rops ps 0.
  Hypothesis dRh_nonneg : forall x, 0 <= dRh x.
  (* concavity of R, in tangent-line form, with dRh its slope *)
  Hypothesis Rh_concave : forall x y, Rh y <= Rh x + dRh x * (y - x).

  Notation phi0 := (phi Rops ps 0).
  Notation dd th := (dfac Rops th lam) (only parsing).
  Notation pt := (mkPoint ps p).
  Notation rho := (resid Rops Rh None dt sy pt).
  Notation drho := (drdth Rops dRh None dt pt).

  Lemma Rh_mono : forall x y, x <= y -> Rh x <= Rh y.
  Proof.
    intros x y Hxy. pose proof (Rh_concave y x) as H. pose proof (dRh_nonneg y).
    assert (dRh y * (x - y) <= 0) by nra. lra.
  Qed.

  (* the source's drdtheta in closed form *)
  Lemma drho_eq : forall th, 0 <= th ->
      drho th = - (lam * phi0 * (dd th * dd th)) - dRh (p + dGam Rops pt th) * (phi0 * (dd th * dd th)).
  Proof.
    intros th Hth. unfold drdth, drdth_of, slope_of, overslope. cbn [pairs pOld].
    rewrite (phi_uniform lam ps 0 Hunif Hlam th Hth). rewrite (dphi_uniform lam ps 0 Hunif Hlam Hphi0 th Hth).
    change (o0 Rops) with 0. change (osub Rops) with Rminus. change (oadd Rops) with Rplus. change (omul Rops) with Rmult.
    rewrite (dGam_uniform lam p ps Hunif Hlam th Hth).
    rewrite Rplus_0_r.
    assert (E : phi0 * dd th + th * - (lam * phi0 * (dd th * dd th)) = phi0 * (dd th * dd th)).
    { rewrite dfac_eq. pose proof (den_pos lam Hlam th Hth). field. lra. }
    rewrite E. ring.
  Qed.

  Lemma drho_neg : forall th, 0 <= th -> drho th < 0.
  Proof.
    intros th Hth. rewrite drho_eq by assumption. pose proof (d_pos lam Hlam th Hth) as Hd.
    pose proof (dRh_nonneg (p + dGam Rops pt th)).
    assert (Hdd : 0 < dd th * dd th) by (apply Rmult_lt_0_compat; assumption).
    assert (0 < lam * phi0 * (dd th * dd th)) by (apply Rmult_lt_0_compat; [apply Rmult_lt_0_compat; assumption | assumption]).
    assert (0 <= dRh (p + dGam Rops pt th) * (phi0 * (dd th * dd th))) by (apply Rmult_le_pos; [assumption | apply Rmult_le_pos; lra]).
    lra.
  Qed.

  (* convexity of r: the tangent line at a lies below the graph *)
  Theorem resid_tangent_line : forall a b, 0 <= a -> 0 <= b ->
      rho a + drho a * (b - a) <= rho b.
  Proof.
    intros a b Ha Hb.
    rewrite (rho_eq lam sy dt p Rh ps Hunif Hlam a Ha), (rho_eq lam sy dt p Rh ps Hunif Hlam b Hb).
    rewrite drho_eq by assumption.
    rewrite !(dGam_uniform lam p ps Hunif Hlam) by assumption.
    set (ga := a * (phi0 * dd a)). set (gb := b * (phi0 * dd b)).
    pose proof (Rh_concave (p + ga) (p + gb)) as HR. pose proof (dRh_nonneg (p + ga)) as HdR.
    pose proof (d_pos lam Hlam a Ha) as Pa. pose proof (d_pos lam Hlam b Hb) as Pb.
    pose proof (den_pos lam Hlam a Ha) as Da. pose proof (den_pos lam Hlam b Hb) as Db.
    (* d convex:  d(b) - d(a) + lam d(a)^2 (b - a) = lam^2 (b-a)^2 d(a)^2 d(b) >= 0 *)
    assert (Ed : dd b - dd a + lam * (dd a * dd a) * (b - a) = lam * lam * ((b - a) * (b - a)) * (dd a * dd a) * dd b).
    { rewrite !dfac_eq. field. split; lra. }
    assert (Hd : 0 <= lam * lam * ((b - a) * (b - a)) * (dd a * dd a) * dd b).
    { assert (0 <= (b - a) * (b - a)) by (apply Rle_0_sqr).
      assert (0 <= dd a * dd a) by (apply Rmult_le_pos; lra).
      apply Rmult_le_pos; [apply Rmult_le_pos; [apply Rmult_le_pos; [apply Rmult_le_pos; lra | assumption] | assumption] | lra]. }
    (* g = phi0 theta d concave:  g(b) - g(a) - phi0 d(a)^2 (b - a) = - phi0 lam (b-a)^2 d(a)^2 d(b) <= 0 *)
    assert (Eg : gb - ga - phi0 * (dd a * dd a) * (b - a) = - (phi0 * lam * ((b - a) * (b - a)) * (dd a * dd a) * dd b)).
    { unfold ga, gb. rewrite !dfac_eq. field. split; lra. }
    assert (Hg : 0 <= phi0 * lam * ((b - a) * (b - a)) * (dd a * dd a) * dd b).
    { assert (0 <= (b - a) * (b - a)) by (apply Rle_0_sqr).
      assert (0 <= dd a * dd a) by (apply Rmult_le_pos; lra).
      apply Rmult_le_pos; [apply Rmult_le_pos; [apply Rmult_le_pos; [apply Rmult_le_pos; lra | assumption] | assumption] | lra]. }
    assert (HRg : dRh (p + ga) * (gb - ga) <= dRh (p + ga) * (phi0 * (dd a * dd a) * (b - a))).
    { apply Rmult_le_compat_l; [assumption | lra]. }
    replace (p + gb - (p + ga)) with (gb - ga) in HR by ring.
    nra.
  Qed.

  Variable theta_star : R.
  Hypothesis Hroot0 : 0 <= theta_star.
  Hypothesis Hroot : rho theta_star = 0.

  Definition newtonG (th : R) : R := next_v Rops true th (body Rops Rh dRh None dt sy pt th).

  Lemma rho_nonneg_left : forall th, 0 <= th <= theta_star -> 0 <= rho th.
  Proof.
    intros th [H0 H1]. destruct (Rle_lt_or_eq_dec _ _ H1) as [Hlt | ->]; [|lra].
    pose proof (resid_strictly_decreasing lam sy dt p Rh ps Hunif Hlam Hphi0 Rh_mono th theta_star (conj H0 Hlt)). lra.
  Qed.

  (* one update of the source, from the left of the root *)
  Theorem newton_step_left : forall th, 0 <= th <= theta_star ->
      th <= newtonG th <= theta_star /\ (newtonG th = th -> rho th = 0).
  Proof.
    intros th [H0 H1]. unfold newtonG. rewrite body_spec, next_eq. cbn [fst snd].
    pose proof (rho_nonneg_left th (conj H0 H1)) as Hr. pose proof (drho_neg th H0) as Hn.
    pose proof (resid_tangent_line th theta_star H0 Hroot0) as Ht. rewrite Hroot in Ht.
    assert (Hstep : 0 <= - (rho th / drho th)).
    { assert (/ drho th < 0) by (apply Rinv_lt_0_compat; lra).
      assert (rho th * / drho th <= 0) by (apply Rmult_le_0_l; lra). unfold Rdiv. lra. }
    assert (Hup : th - rho th / drho th <= theta_star).
    { (* rho + drho (theta* - th) <= 0, drho < 0  =>  theta* - th >= - rho/drho *)
      assert (E : rho th / drho th * drho th = rho th) by (field; lra).
      assert (0 <= (theta_star - th + rho th / drho th) * (- drho th)) by nra.
      assert (0 <= theta_star - th + rho th / drho th).
      { apply (Rmult_le_reg_r (- drho th)); [lra | lra]. }
      lra. }
    rewrite Rmax_left by lra. split; [split; lra|].
    intro E. assert (rho th / drho th = 0) by lra.
    apply (Rmult_eq_compat_r (drho th)) in H. replace (rho th / drho th * drho th) with (rho th) in H by (field; lra). lra.
  Qed.

  (* C19 radial_newton_monotone: every iterate of the source's loop from theta = 0 *)
  Theorem radial_newton_monotone : forall n,
      let th := Nat.iter n newtonG 0 in
      0 <= th <= theta_star /\ th <= newtonG th /\ 0 <= rho th /\ (newtonG th = th -> rho th = 0).
  Proof.
    induction n as [|n IH]; cbv zeta in *.
    - simpl. assert (H : 0 <= 0 <= theta_star) by lra.
      destruct (newton_step_left 0 H) as [[Ha Hb] Hs]. repeat split; try lra; try assumption.
      apply rho_nonneg_left; lra.
    - destruct IH as [[H0 H1] _].
      change (Nat.iter (S n) newtonG 0) with (newtonG (Nat.iter n newtonG 0)).
      set (th := Nat.iter n newtonG 0) in *.
      destruct (newton_step_left th (conj H0 H1)) as [[Ha Hb] _].
      assert (H' : 0 <= newtonG th <= theta_star) by lra.
      destruct (newton_step_left (newtonG th) H') as [[Hc Hd] Hs].
      repeat split; try lra; try assumption. apply rho_nonneg_left; assumption.
  Qed.
End RadialNewton.
