(* C20 — energy / reaction identities for the FIXED ghost layer on GENERAL meshes: any number of
   element groups of the main dimension (TRI+QUAD, PRISM+HEXA, ...), any boundary groups, any
   processing order, every Nproc and element->rank map. *)
From Coq Require Import List Arith Bool PeanoNat Lia Permutation Reals Lra.
From EFModel Require Import C20_Partition C20_Partition_proofs C20_Scatter.
Import ListNotations.
Open Scope R_scope.

(* all decompositions gs = pre ++ g :: post, in order *)
Fixpoint splits_from (pre gs : list group) : list (list group * group * list group) :=
  match gs with
  | [] => []
  | g :: t => (pre, g, t) :: splits_from (pre ++ [g]) t
  end.
Definition splits (gs : list group) := splits_from [] gs.

Lemma in_splits_from (gs : list group) : forall pre p (g : group) q,
  In (p, g, q) (splits_from pre gs) <-> exists p', p = pre ++ p' /\ gs = p' ++ g :: q.
Proof.
  induction gs as [|a t IH]; intros pre p g q; simpl.
  - split; [tauto|]. intros [p' [_ E]]. destruct p'; discriminate.
  - rewrite IH. split.
    + intros [E|[p' [E1 E2]]].
      * inversion E; subst. exists []. rewrite app_nil_r. auto.
      * exists (a :: p'). subst. rewrite <- app_assoc. auto.
    + intros [p' [E1 E2]]. destruct p' as [|b p'']; simpl in E2; inversion E2; subst.
      * left. now rewrite app_nil_r.
      * right. exists p''. rewrite <- app_assoc. auto.
Qed.

Lemma in_splits gs p (g : group) q : In (p, g, q) (splits gs) <-> gs = p ++ g :: q.
Proof.
  unfold splits. rewrite in_splits_from. simpl. split.
  - intros [p' [-> E]]. exact E.
  - intros E. exists p. auto.
Qed.

Lemma sum_over_zero {A} (f : A -> R) (l : list A) : (forall b, In b l -> f b = 0) -> sum_over f l = 0.
Proof.
  unfold sum_over. induction l as [|b l IH]; simpl; intros H; auto.
  rewrite IH, (H b); auto. lra.
Qed.

Lemma sum_over_single {A} (f : A -> R) (l : list A) (a : A) : NoDup l -> In a l ->
  (forall b, In b l -> b <> a -> f b = 0) -> sum_over f l = f a.
Proof.
  induction l as [|b l IH]; intros Hd Hin Hz. contradiction.
  inversion Hd as [|? ? Hnb Hdl]; subst.
  change (sum_over f (b :: l)) with (f b + sum_over f l).
  destruct Hin as [->|Hin].
  - rewrite sum_over_zero. lra.
    intros c Hc. apply Hz. now right. intro; subst. contradiction.
  - rewrite IH; auto.
    + rewrite (Hz b). lra. now left. intro; subst. contradiction.
    + intros c Hc Hne. apply Hz; auto. now right.
Qed.

Section EnergyFixed.
  Variable Nproc : nat.
  Variable val : ielem -> nat -> R.
  Hypothesis val_local : forall x n, ~ In n (enodes x) -> val x n = 0.

  Definition tpre (t : list group * group * list group) := fst (fst t).
  Definition tg (t : list group * group * list group) : group := snd (fst t).
  Definition tig (t : list group * group * list group) : list ielem := index (snd (tg t)).
  (* the part of rank r in the group of t, fixed variant *)
  Definition PB (t : list group * group * list group) (r : nat) : out :=
    part_out Nproc true (st_before Nproc (tpre t) (tig t) r) (tig t) r.
  (* main-dimension groups with their position *)
  Definition mains (gs : list group) := filter (fun t => fst (tg t)) (splits gs).

  (* Mesh._Get_mpi_owned_nodes: np.unique(concatenate(o_nodes of the main-dimension groups)) *)
  Definition owned_B (gs : list group) (r : nat) : list nat :=
    canon (flat_map (fun t => o_nodes (PB t r)) (mains gs)).
  (* all nodes used by main-dimension elements *)
  Definition all_nodes (gs : list group) : list nat :=
    canon (flat_map (fun t => nodes_of (tig t)) (mains gs)).
  (* row n of the global system / of the system assembled on part r: sums over the main groups *)
  Definition A_glob (gs : list group) (n : nat) : R :=
    sum_over (fun t => assemble val (tig t) n) (mains gs).
  Definition A_part (gs : list group) (r n : nat) : R :=
    sum_over (fun t => assemble val (rows_of_part (PB t r) (tig t)) n) (mains gs).

  Lemma in_mains gs t : In t (mains gs) <-> gs = tpre t ++ tg t :: snd t /\ fst (tg t) = true.
  Proof.
    unfold mains. rewrite filter_In. destruct t as [[p g] q]. unfold tpre, tg. simpl.
    now rewrite in_splits.
  Qed.

  Lemma owned_B_In gs r n : In n (owned_B gs r) <-> Owned Nproc true gs r n.
  Proof.
    unfold owned_B. rewrite canon_In, in_flat_map. split.
    - intros [t [Ht Hn]]. apply in_mains in Ht. destruct Ht as [E Hm].
      exists (tpre t), (tg t), (snd t). auto.
    - intros [pre [g [post [E [Hm Hn]]]]]. exists (pre, g, post). split; auto.
      apply in_mains. auto.
  Qed.

  Definition all_valid (gs : list group) : Prop :=
    forall g x, In g gs -> fst g = true -> In x (index (snd g)) -> (erank x < Nproc)%nat.

  (* on the rows a rank owns, the system of its part is the global system - all main groups summed *)
  Theorem part_system_equals_global gs r n : (r < Nproc)%nat -> all_valid gs ->
    In n (owned_B gs r) -> A_part gs r n = A_glob gs n.
  Proof.
    intros Hr Hv Hn. apply owned_B_In in Hn. unfold A_part, A_glob.
    apply sum_over_ext. intros t Ht. apply in_mains in Ht. destruct Ht as [E Hm].
    unfold PB, tig. rewrite E in Hn.
    apply (part_rows_equal_global_B Nproc val val_local (tpre t) (tg t) (snd t) r n Hr); auto.
    intros x Hx. apply (Hv (tg t)); auto. rewrite E. apply in_or_app. right. now left.
  Qed.

  Lemma owned_B_partition gs : all_valid gs ->
    NoDup (all_nodes gs) /\ (forall r, (r < Nproc)%nat -> NoDup (owned_B gs r)) /\
    (forall r s n, (r < Nproc)%nat -> (s < Nproc)%nat -> In n (owned_B gs r) -> In n (owned_B gs s) -> r = s) /\
    (forall n, In n (all_nodes gs) <-> exists r, (r < Nproc)%nat /\ In n (owned_B gs r)).
  Proof.
    intros Hv. repeat split.
    - apply ssorted_NoDup, canon_sorted.
    - intros r _. apply ssorted_NoDup, canon_sorted.
    - intros r s n Hr Hs H1 H2. apply owned_B_In in H1, H2. eapply node_owner_unique; eauto.
    - unfold all_nodes. rewrite canon_In, in_flat_map. intros [t [Ht Hn]].
      apply in_mains in Ht. destruct Ht as [E Hm].
      apply in_nodes_of in Hn. destruct Hn as [x [Hx Hnx]].
      assert (Hg : In (tg t) gs) by (rewrite E; apply in_or_app; right; now left).
      destruct (node_owner_exists_B Nproc gs (tg t) x n Hg Hm Hx (Hv _ _ Hg Hm Hx) Hnx) as [r [Hr Ho]].
      exists r. split; auto. now apply owned_B_In.
    - intros [r [Hr Hn]]. apply owned_B_In in Hn. destruct Hn as [pre [g [post [E [Hm Hn]]]]].
      apply o_nodes_B in Hn. destruct Hn as [_ [x [Hx [_ Hnx]]]].
      unfold all_nodes. rewrite canon_In, in_flat_map. exists (pre, g, post). split.
      + apply in_mains. auto.
      + apply in_nodes_of. exists x. auto.
  Qed.

  (* Calc_Energy: owned-row energies summed over the parts = global energy, general meshes *)
  Theorem energy_fixed_general (u : nat -> R) gs : all_valid gs ->
    sum_over (fun r => sum_over (fun n => u n * A_part gs r n) (owned_B gs r)) (seq 0 Nproc)
    = sum_over (fun n => u n * A_glob gs n) (all_nodes gs).
  Proof.
    intros Hv. destruct (owned_B_partition gs Hv) as [H1 [H2 [H3 H4]]].
    apply (energy_sum Nproc u (A_glob gs) (A_part gs) (owned_B gs) (all_nodes gs)); auto.
    intros r n Hr Hn. now apply part_system_equals_global.
  Qed.

  (* Calc_Reaction: the reaction at a node, taken on the part that owns it and summed over the
     parts (Reduce_sum), is the global reaction *)
  Theorem reaction_fixed_general gs n : all_valid gs -> In n (all_nodes gs) ->
    sum_over (fun r => if mem n (owned_B gs r) then A_part gs r n else 0) (seq 0 Nproc) = A_glob gs n.
  Proof.
    intros Hv Hn. destruct (owned_B_partition gs Hv) as [_ [_ [H3 H4]]].
    destruct (proj1 (H4 n) Hn) as [r0 [Hr0 Ho]].
    rewrite (sum_over_single _ (seq 0 Nproc) r0).
    - assert (E : mem n (owned_B gs r0) = true) by now apply mem_In. rewrite E.
      now apply part_system_equals_global.
    - apply seq_NoDup.
    - apply in_seq. lia.
    - intros r Hr Hne. destruct (mem n (owned_B gs r)) eqn:E; auto.
      apply mem_In in E. apply in_seq in Hr. exfalso. apply Hne. apply (H3 r r0 n); auto. lia.
  Qed.
End EnergyFixed.

(* non-vacuity: the TRI+QUAD witness satisfies the hypothesis, and has two main groups *)
Example energy_fixed_hyps : all_valid 2 witness_mixed /\ length (mains witness_mixed) = 2%nat.
Proof.
  split; [|reflexivity].
  intros g x Hg Hm Hx. destruct Hg as [<-|[<-|[]]]; simpl in Hx; destruct Hx as [<-|[]]; unfold erank; simpl; lia.
Qed.
