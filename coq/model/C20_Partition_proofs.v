(* C20 — proofs about the partition model (EFModel.C20_Partition). *)
From Coq Require Import List Arith Bool PeanoNat Lia Permutation Sorted.
From EFModel Require Import C20_Partition.
Import ListNotations.

(* ====================================================================================== *)
(* canonical sets                                                                          *)
(* ====================================================================================== *)
Definition ssorted := StronglySorted lt.

Lemma mem_In n l : mem n l = true <-> In n l.
Proof.
  unfold mem. rewrite existsb_exists. split.
  - intros [x [Hx E]]. apply Nat.eqb_eq in E. now subst.
  - intros H. exists n. split; auto. apply Nat.eqb_refl.
Qed.

Lemma mem_false n l : mem n l = false <-> ~ In n l.
Proof. rewrite <- mem_In. destruct (mem n l); split; congruence. Qed.

Lemma insert_u_In a l x : In x (insert_u a l) <-> x = a \/ In x l.
Proof.
  induction l as [|b t IH]; simpl.
  - intuition.
  - destruct (a <? b) eqn:E1.
    + simpl. intuition.
    + destruct (a =? b) eqn:E2.
      * apply Nat.eqb_eq in E2. subst. simpl. intuition.
      * simpl. rewrite IH. intuition.
Qed.

Lemma insert_u_sorted a l : ssorted l -> ssorted (insert_u a l).
Proof.
  unfold ssorted. induction 1 as [|b t Ht IH Hb]; simpl.
  - constructor; constructor.
  - destruct (a <? b) eqn:E1.
    + apply Nat.ltb_lt in E1. constructor.
      * constructor; auto.
      * constructor; auto. eapply Forall_impl; [|exact Hb]. intros; lia.
    + destruct (a =? b) eqn:E2.
      * constructor; auto.
      * apply Nat.ltb_ge in E1. apply Nat.eqb_neq in E2. constructor; auto.
        rewrite Forall_forall. intros x Hx. apply insert_u_In in Hx. destruct Hx as [->|Hx].
        -- lia.
        -- rewrite Forall_forall in Hb. auto.
Qed.

Lemma canon_In l x : In x (canon l) <-> In x l.
Proof.
  induction l as [|a t IH]; simpl.
  - tauto.
  - rewrite insert_u_In, IH. intuition.
Qed.

Lemma canon_sorted l : ssorted (canon l).
Proof. induction l; simpl. constructor. now apply insert_u_sorted. Qed.

Lemma ssorted_ext l1 : forall l2, ssorted l1 -> ssorted l2 ->
  (forall x, In x l1 <-> In x l2) -> l1 = l2.
Proof.
  unfold ssorted. induction l1 as [|a l1 IH]; intros l2 H1 H2 H.
  - destruct l2 as [|b l2]; auto. exfalso. apply (proj2 (H b)). now left.
  - destruct l2 as [|b l2].
    + exfalso. apply (proj1 (H a)). now left.
    + inversion H1 as [|? ? S1 F1]; inversion H2 as [|? ? S2 F2]; subst.
      rewrite Forall_forall in F1, F2.
      assert (a = b).
      { destruct (proj1 (H a) (or_introl eq_refl)) as [E|Ha]; [now subst|].
        destruct (proj2 (H b) (or_introl eq_refl)) as [E|Hb]; [now subst|].
        apply F2 in Ha. apply F1 in Hb. lia. }
      subst. f_equal. apply IH; auto.
      intros x; split; intro Hx.
      * destruct (proj1 (H x) (or_intror Hx)) as [E|?]; auto. subst. apply F1 in Hx. lia.
      * destruct (proj2 (H x) (or_intror Hx)) as [E|?]; auto. subst. apply F2 in Hx. lia.
Qed.

(* the canonical form depends on the SET only *)
Theorem canon_ext l1 l2 : (forall x, In x l1 <-> In x l2) -> canon l1 = canon l2.
Proof.
  intros H. apply ssorted_ext; try apply canon_sorted.
  intros x. rewrite !canon_In. apply H.
Qed.

Lemma ssorted_NoDup l : ssorted l -> NoDup l.
Proof.
  unfold ssorted. induction 1 as [|a t Ht IH Ha]; constructor; auto.
  intro Hin. rewrite Forall_forall in Ha. apply Ha in Hin. lia.
Qed.

Lemma canon_id l : ssorted l -> canon l = l.
Proof. intros H. apply ssorted_ext; auto using canon_sorted. intros; apply canon_In. Qed.

Lemma ssorted_seq a n : ssorted (seq a n).
Proof.
  unfold ssorted. revert a. induction n; intros a; simpl; constructor; auto.
  rewrite Forall_forall. intros x Hx. apply in_seq in Hx. lia.
Qed.

Lemma ssorted_filter f l : ssorted l -> ssorted (filter f l).
Proof.
  unfold ssorted. induction 1 as [|a t Ht IH Ha]; simpl. constructor.
  destruct (f a); auto. constructor; auto.
  rewrite Forall_forall in *. intros x Hx. apply filter_In in Hx. now apply Ha.
Qed.

(* ====================================================================================== *)
(* indexing                                                                                *)
(* ====================================================================================== *)
Lemma map_fst_combine {A B} (l1 : list A) : forall (l2 : list B),
  length l1 = length l2 -> map fst (combine l1 l2) = l1.
Proof.
  induction l1; intros [|b l2] H; simpl in *; try discriminate; auto.
  f_equal. apply IHl1. lia.
Qed.

Lemma index_ids els : map eid (index els) = seq 0 (length els).
Proof. unfold index, eid. apply map_fst_combine. now rewrite seq_length. Qed.

Lemma nodup_map_inj {A B} (f : A -> B) l : NoDup (map f l) ->
  forall x y, In x l -> In y l -> f x = f y -> x = y.
Proof.
  induction l as [|a l IH]; simpl; intros H x y Hx Hy E. contradiction.
  inversion H as [|? ? Hn Hd]; subst.
  destruct Hx as [->|Hx], Hy as [->|Hy]; auto.
  - exfalso. apply Hn. rewrite E. now apply in_map.
  - exfalso. apply Hn. rewrite <- E. now apply in_map.
Qed.

Lemma index_inj els x y : In x (index els) -> In y (index els) -> eid x = eid y -> x = y.
Proof.
  apply nodup_map_inj. rewrite index_ids. apply seq_NoDup.
Qed.

Lemma map_eid_filter_sorted els f : ssorted (map eid (filter f (index els))).
Proof.
  assert (G : forall l : list ielem, ssorted (map eid l) -> ssorted (map eid (filter f l))).
  { unfold ssorted. induction l as [|a l IH]; simpl; intros H. constructor.
    inversion H as [|? ? S1 F1]; subst. destruct (f a); simpl; auto.
    constructor; auto. rewrite Forall_forall in *. intros x Hx.
    apply in_map_iff in Hx. destruct Hx as [y [<- Hy]]. apply filter_In in Hy.
    apply F1. apply in_map. tauto. }
  apply G. rewrite index_ids. apply ssorted_seq.
Qed.

(* ====================================================================================== *)
(* the claiming loop                                                                       *)
(* ====================================================================================== *)
Section Claiming.
  Variable Nproc : nat.

  Lemma in_other_ranks r s : In s (other_ranks Nproc r) <-> s < Nproc /\ s <> r.
  Proof.
    unfold other_ranks. rewrite filter_In, in_seq, negb_true_iff, Nat.eqb_neq. lia.
  Qed.

  Lemma in_others st r n :
    In n (others Nproc st r) <-> exists s, s < Nproc /\ s <> r /\ In n (st s).
  Proof.
    unfold others. rewrite in_flat_map. split.
    - intros [s [Hs Hn]]. apply in_other_ranks in Hs. exists s; tauto.
    - intros [s [H1 [H2 H3]]]. exists s. rewrite in_other_ranks. tauto.
  Qed.

  Lemma in_own_of (ig : list ielem) r x : In x (own_of ig r) <-> In x ig /\ erank x = r.
  Proof. unfold own_of. now rewrite filter_In, Nat.eqb_eq. Qed.

  Lemma in_nodes_of (l : list ielem) n : In n (nodes_of l) <-> exists x, In x l /\ In n (enodes x).
  Proof. unfold nodes_of. apply in_flat_map. Qed.

  Lemma claim_In st ig r n :
    In n (claim Nproc st ig r) <-> In n (nodes_of (own_of ig r)) /\ ~ In n (others Nproc st r).
  Proof.
    unfold claim. rewrite filter_In, negb_true_iff, mem_false. tauto.
  Qed.

  Lemma step_same st ig r : step Nproc st ig r r = st r ++ claim Nproc st ig r.
  Proof. unfold step, upd. now rewrite Nat.eqb_refl. Qed.

  Lemma step_other st ig r s : s <> r -> step Nproc st ig r s = st s.
  Proof. intros H. unfold step, upd. apply Nat.eqb_neq in H. now rewrite H. Qed.

  Lemma step_mono st ig r s n : In n (st s) -> In n (step Nproc st ig r s).
  Proof.
    intros H. destruct (Nat.eq_dec s r) as [->|Hn].
    - rewrite step_same. apply in_or_app. now left.
    - now rewrite step_other.
  Qed.

  Lemma run_steps_app l1 l2 st :
    run_steps Nproc (l1 ++ l2) st = run_steps Nproc l2 (run_steps Nproc l1 st).
  Proof. unfold run_steps. apply fold_left_app. Qed.

  Lemma run_steps_mono l : forall st s n, In n (st s) -> In n (run_steps Nproc l st s).
  Proof.
    induction l as [|p l IH]; intros st s n H; simpl; auto.
    apply IH. now apply step_mono.
  Qed.

  (* the claimed sets of distinct ranks never intersect *)
  Definition disj (st : state) : Prop :=
    forall a b n, a < Nproc -> b < Nproc -> a <> b -> In n (st a) -> In n (st b) -> False.

  Lemma disj_st0 : disj st0.
  Proof. intros a b n _ _ _ H. inversion H. Qed.

  Lemma disj_step st ig r : r < Nproc -> disj st -> disj (step Nproc st ig r).
  Proof.
    intros Hr D a b n Ha Hb Hab Hna Hnb.
    destruct (Nat.eq_dec a r) as [->|Har]; destruct (Nat.eq_dec b r) as [->|Hbr].
    - congruence.
    - rewrite step_same in Hna. rewrite step_other in Hnb by auto.
      apply in_app_or in Hna. destruct Hna as [Hna|Hna].
      + exact (D r b n Hr Hb Hab Hna Hnb).
      + apply claim_In in Hna. apply (proj2 Hna). apply in_others. exists b. auto.
    - rewrite step_same in Hnb. rewrite step_other in Hna by auto.
      apply in_app_or in Hnb. destruct Hnb as [Hnb|Hnb].
      + exact (D a r n Ha Hr Hab Hna Hnb).
      + apply claim_In in Hnb. apply (proj2 Hnb). apply in_others. exists a. auto.
    - rewrite step_other in Hna, Hnb by auto. exact (D a b n Ha Hb Hab Hna Hnb).
  Qed.

  Definition valid_steps (l : list (list ielem * nat)) : Prop :=
    Forall (fun p => snd p < Nproc) l.

  Lemma disj_run l : forall st, valid_steps l -> disj st -> disj (run_steps Nproc l st).
  Proof.
    induction l as [|p l IH]; intros st V D; simpl; auto.
    inversion V; subst. apply IH; auto. now apply disj_step.
  Qed.

  Lemma valid_group_steps (ig : list ielem) a k : a + k <= Nproc ->
    valid_steps (map (fun s => (ig, s)) (seq a k)).
  Proof.
    intros H. unfold valid_steps. rewrite Forall_forall. intros p Hp.
    apply in_map_iff in Hp. destruct Hp as [s [<- Hs]]. apply in_seq in Hs. simpl. lia.
  Qed.

  Lemma valid_steps_of gs : valid_steps (steps_of Nproc gs).
  Proof.
    unfold valid_steps, steps_of. rewrite Forall_forall. intros p Hp.
    apply in_flat_map in Hp. destruct Hp as [g [_ Hp]].
    apply in_map_iff in Hp. destruct Hp as [s [<- Hs]]. apply in_seq in Hs. simpl. lia.
  Qed.

  Lemma valid_app l1 l2 : valid_steps l1 -> valid_steps l2 -> valid_steps (l1 ++ l2).
  Proof. unfold valid_steps. intros. apply Forall_app. auto. Qed.

  Lemma final_disj gs : disj (final Nproc gs).
  Proof. apply disj_run. apply valid_steps_of. apply disj_st0. Qed.

  Lemma st_before_disj pre ig r : r <= Nproc -> disj (st_before Nproc pre ig r).
  Proof.
    intros Hr. unfold st_before. apply disj_run. apply valid_group_steps; lia.
    apply disj_run. apply valid_steps_of. apply disj_st0.
  Qed.

  (* ---- splitting the trace at the turn of rank r in group g ---- *)
  Lemma steps_of_app g1 g2 : steps_of Nproc (g1 ++ g2) = steps_of Nproc g1 ++ steps_of Nproc g2.
  Proof. unfold steps_of. apply flat_map_app. Qed.

  Lemma seq_split3 r : r < Nproc -> seq 0 Nproc = seq 0 r ++ r :: seq (S r) (Nproc - S r).
  Proof.
    intros H. replace Nproc with (r + S (Nproc - S r)) at 1 by lia.
    rewrite seq_app. simpl. reflexivity.
  Qed.

  Lemma steps_of_cons g gs :
    steps_of Nproc (g :: gs) = map (fun s => (index (snd g), s)) (seq 0 Nproc) ++ steps_of Nproc gs.
  Proof. reflexivity. Qed.

  Lemma final_split (pre : list group) (g : group) (post : list group) r : r < Nproc ->
    final Nproc (pre ++ g :: post) =
    run_steps Nproc (map (fun s => (index (snd g), s)) (seq (S r) (Nproc - S r)) ++ steps_of Nproc post)
              (step Nproc (st_before Nproc pre (index (snd g)) r) (index (snd g)) r).
  Proof.
    intros Hr. unfold final, st_before.
    rewrite steps_of_app, steps_of_cons.
    rewrite (seq_split3 r Hr), map_app. simpl.
    rewrite run_steps_app. rewrite <- app_assoc. rewrite run_steps_app. simpl.
    reflexivity.
  Qed.

  Lemma before_le_final (pre : list group) (g : group) (post : list group) r s n : r < Nproc ->
    In n (step Nproc (st_before Nproc pre (index (snd g)) r) (index (snd g)) r s) ->
    In n (final Nproc (pre ++ g :: post) s).
  Proof. intros Hr H. rewrite (final_split pre g post r Hr). now apply run_steps_mono. Qed.

  Lemma before_le_final' (pre : list group) (g : group) (post : list group) r s n : r < Nproc ->
    In n (st_before Nproc pre (index (snd g)) r s) ->
    In n (final Nproc (pre ++ g :: post) s).
  Proof. intros Hr H. apply (before_le_final pre g post r s n Hr). now apply step_mono. Qed.

  (* (c) what a rank claims is its own for ever *)
  Lemma claim_final (pre : list group) (g : group) (post : list group) r n : r < Nproc ->
    In n (claim Nproc (st_before Nproc pre (index (snd g)) r) (index (snd g)) r) ->
    In n (final Nproc (pre ++ g :: post) r).
  Proof.
    intros Hr H. apply (before_le_final pre g post r r n Hr). rewrite step_same. apply in_or_app. now right.
  Qed.

  (* (d) a node of r's own elements that r ends up owning is among the nodes r gets in that group *)
  Lemma own_final_claim (pre : list group) (g : group) (post : list group) r n : r < Nproc ->
    In n (nodes_of (own_of (index (snd g)) r)) ->
    In n (final Nproc (pre ++ g :: post) r) ->
    In n (claim Nproc (st_before Nproc pre (index (snd g)) r) (index (snd g)) r).
  Proof.
    intros Hr Ho Hf. apply claim_In. split; auto.
    intro Hoth. apply in_others in Hoth. destruct Hoth as [s [Hs [Hsr Hn]]].
    apply (before_le_final' pre g post r s n Hr) in Hn.
    exact (final_disj _ s r n Hs Hr Hsr Hn Hf).
  Qed.

  (* (e) every node of an element with a valid rank ends up owned by somebody *)
  Lemma own_has_owner (pre : list group) (g : group) (post : list group) r n : r < Nproc ->
    In n (nodes_of (own_of (index (snd g)) r)) ->
    exists s, s < Nproc /\ In n (final Nproc (pre ++ g :: post) s).
  Proof.
    intros Hr Ho.
    destruct (mem n (others Nproc (st_before Nproc pre (index (snd g)) r) r)) eqn:E.
    - apply mem_In, in_others in E. destruct E as [s [Hs [_ Hn]]].
      exists s. split; auto. exact (before_le_final' pre g post r s n Hr Hn).
    - apply mem_false in E. exists r. split; auto. apply claim_final; auto.
      apply claim_In. tauto.
  Qed.

  (* (f) whatever a rank owns at the end was claimed at one of its turns *)
  Lemma claimed_in_group ig n s : forall k a st,
    In n (run_steps Nproc (map (fun t => (ig, t)) (seq a k)) st s) ->
    In n (st s) \/
    (a <= s < a + k /\
     In n (claim Nproc (run_steps Nproc (map (fun t => (ig, t)) (seq a (s - a))) st) ig s)).
  Proof.
    induction k as [|k IH]; intros a st H; simpl in H; auto.
    apply IH in H. destruct H as [H|[Hr H]].
    - destruct (Nat.eq_dec s a) as [->|Hn].
      + rewrite step_same in H. apply in_app_or in H. destruct H; auto.
        right. split; [lia|]. now rewrite Nat.sub_diag.
      + rewrite step_other in H; auto.
    - right. split; [lia|].
      replace (s - a) with (S (s - S a)) by lia. simpl. exact H.
  Qed.

  Lemma claimed_somewhere n s : forall gs st,
    In n (run_steps Nproc (steps_of Nproc gs) st s) ->
    In n (st s) \/
    exists pre g post, gs = pre ++ g :: post /\ s < Nproc /\
      In n (claim Nproc (run_steps Nproc (map (fun t => (index (snd g), t)) (seq 0 s))
                                   (run_steps Nproc (steps_of Nproc pre) st))
                  (index (snd g)) s).
  Proof.
    induction gs as [|g gs IH]; intros st H.
    - simpl in H. auto.
    - rewrite steps_of_cons, run_steps_app in H.
      apply IH in H. destruct H as [H|[pre [g' [post [E [Hs H]]]]]].
      + apply claimed_in_group in H. destruct H as [H|[Hr H]]; auto.
        right. exists [], g, gs. simpl. rewrite Nat.sub_0_r in H. repeat split; auto. lia.
      + right. exists (g :: pre), g', post. subst. repeat split; auto.
        rewrite steps_of_cons, run_steps_app. exact H.
  Qed.

  Lemma final_claimed gs n s : In n (final Nproc gs s) ->
    exists pre g post, gs = pre ++ g :: post /\ s < Nproc /\
      In n (claim Nproc (st_before Nproc pre (index (snd g)) s) (index (snd g)) s).
  Proof.
    intros H. apply claimed_somewhere in H. destruct H as [H|H]; [inversion H|exact H].
  Qed.

End Claiming.

(* ====================================================================================== *)
(* contents of a part                                                                      *)
(* ====================================================================================== *)
Section Parts.
  Variable Nproc : nat.

  Lemma touches_spec src x : touches src x = true <-> exists n, In n (enodes x) /\ In n src.
  Proof.
    unfold touches. rewrite existsb_exists.
    split; intros [n [H1 H2]]; exists n; split; auto; now apply mem_In.
  Qed.

  Lemma in_ghost_of src ig r x :
    In x (ghost_of Nproc src ig r) <->
    In x ig /\ erank x < Nproc /\ erank x <> r /\ touches src x = true.
  Proof.
    unfold ghost_of. rewrite in_flat_map. split.
    - intros [s [Hs Hx]]. apply in_other_ranks in Hs. apply filter_In in Hx.
      destruct Hx as [Hx Ht]. apply in_own_of in Hx. destruct Hx as [Hx E]. subst s. tauto.
    - intros [H1 [H2 [H3 H4]]]. exists (erank x). split.
      + apply in_other_ranks; auto.
      + apply filter_In. split; auto. apply in_own_of; auto.
  Qed.

  (* the node set used to look for ghosts *)
  Definition src_of (modeB : bool) st ig r : list nat :=
    if modeB then step Nproc st ig r r else claim Nproc st ig r.

  Lemma in_part_elems modeB st ig r i :
    In i (part_elems Nproc modeB st ig r) <->
    exists x, In x ig /\ eid x = i /\
      (erank x = r \/
       (erank x < Nproc /\ erank x <> r /\ touches (src_of modeB st ig r) x = true)).
  Proof.
    unfold part_elems, src_of. cbv zeta. rewrite canon_In, in_app_iff, !in_map_iff. split.
    - intros [[x [E Hx]]|[x [E Hx]]].
      + apply in_own_of in Hx. exists x. tauto.
      + apply in_ghost_of in Hx. exists x. tauto.
    - intros [x [Hx [E [Hr|Hg]]]].
      + left. exists x. split; auto. apply in_own_of; auto.
      + right. exists x. split; auto. apply in_ghost_of; tauto.
  Qed.

  Lemma o_global_eq modeB st ig r :
    o_global (part_out Nproc modeB st ig r) = part_elems Nproc modeB st ig r.
  Proof. reflexivity. Qed.

  Lemma o_elements_In modeB st ig r i :
    In i (o_elements (part_out Nproc modeB st ig r)) <->
    exists x, In x ig /\ eid x = i /\ erank x = r.
  Proof.
    unfold part_out. cbv zeta. simpl. rewrite canon_In, in_map_iff. split.
    - intros [x [E Hx]]. apply in_own_of in Hx. exists x. tauto.
    - intros [x [Hx [E Hr]]]. exists x. split; auto. apply in_own_of; auto.
  Qed.

  Lemma o_ghosts_In modeB st ig r i :
    In i (o_ghosts (part_out Nproc modeB st ig r)) <->
    exists x, In x ig /\ eid x = i /\ erank x < Nproc /\ erank x <> r /\
              touches (src_of modeB st ig r) x = true.
  Proof.
    unfold part_out, src_of. cbv zeta. simpl. rewrite canon_In, in_map_iff. split.
    - intros [x [E Hx]]. apply in_ghost_of in Hx. exists x. tauto.
    - intros [x [Hx [E Hr]]]. exists x. split; auto. apply in_ghost_of; tauto.
  Qed.

  Lemma o_nodes_A st ig r n :
    In n (o_nodes (part_out Nproc false st ig r)) <-> In n (claim Nproc st ig r).
  Proof. unfold part_out. cbv zeta. simpl. apply canon_In. Qed.

  Lemma o_nodes_B st ig r n :
    In n (o_nodes (part_out Nproc true st ig r)) <->
    In n (step Nproc st ig r r) /\
    exists x, In x ig /\ In (eid x) (part_elems Nproc true st ig r) /\ In n (enodes x).
  Proof.
    unfold part_out. cbv zeta. simpl. rewrite canon_In, filter_In, mem_In, in_nodes_of.
    split.
    - intros [[x [Hx Hn]] Hs]. apply filter_In in Hx. destruct Hx as [Hx Hm].
      apply mem_In in Hm. split; auto. exists x. auto.
    - intros [Hs [x [Hx [Hm Hn]]]]. split; auto. exists x. split; auto.
      apply filter_In. split; auto. now apply mem_In.
  Qed.

  Lemma o_ghostNodes_In modeB st ig r n :
    In n (o_ghostNodes (part_out Nproc modeB st ig r)) <->
    (exists x, In x ig /\ In (eid x) (part_elems Nproc modeB st ig r) /\ In n (enodes x)) /\
    ~ In n (o_nodes (part_out Nproc modeB st ig r)).
  Proof.
    unfold part_out. cbv zeta. simpl. rewrite !canon_In, filter_In, negb_true_iff, mem_false.
    rewrite in_nodes_of. split.
    - intros [[x [Hx Hn]] Hs]. apply filter_In in Hx. destruct Hx as [Hx Hm].
      apply mem_In in Hm. split; auto. exists x. auto.
    - intros [[x [Hx [Hm Hn]]] Hs]. split; auto. exists x. split; auto.
      apply filter_In. split; auto. now apply mem_In.
  Qed.

  (* ---------------- T1: every element has exactly one owner ---------------- *)
  Theorem elements_partitioned modeB st els x :
    In x (index els) -> erank x < Nproc ->
    In (eid x) (o_elements (part_out Nproc modeB st (index els) (erank x))) /\
    (forall r, In (eid x) (o_elements (part_out Nproc modeB st (index els) r)) -> r = erank x).
  Proof.
    intros Hx Hr. split.
    - apply o_elements_In. exists x. auto.
    - intros r H. apply o_elements_In in H. destruct H as [y [Hy [E Hry]]].
      assert (y = x) by (eapply index_inj; eauto). subst. auto.
  Qed.

  (* ---------------- T2: ghosts are elements owned by another rank, never own ones ---------- *)
  Theorem ghosts_owned_elsewhere modeB st els r i :
    In i (o_ghosts (part_out Nproc modeB st (index els) r)) ->
    ~ In i (o_elements (part_out Nproc modeB st (index els) r)) /\
    exists s, s < Nproc /\ s <> r /\ In i (o_elements (part_out Nproc modeB st (index els) s)).
  Proof.
    intros H. apply o_ghosts_In in H. destruct H as [x [Hx [E [H1 [H2 H3]]]]]. split.
    - intro H. apply o_elements_In in H. destruct H as [y [Hy [E2 Hry]]].
      assert (y = x) by (eapply index_inj; eauto; congruence). subst. auto.
    - exists (erank x). repeat split; auto. apply o_elements_In. exists x. auto.
  Qed.

  (* ---------------- T3: contents of a part (as written: nodes claimed in this group) -------- *)
  Theorem part_contents_A st ig r i :
    In i (o_global (part_out Nproc false st ig r)) <->
    exists x, In x ig /\ eid x = i /\
      (erank x = r \/
       (erank x < Nproc /\ erank x <> r /\
        exists n, In n (enodes x) /\ In n (o_nodes (part_out Nproc false st ig r)))).
  Proof.
    rewrite o_global_eq, in_part_elems. unfold src_of.
    split; intros [x [Hx [E H]]]; exists x; repeat split; auto.
    - destruct H as [H|[H1 [H2 H3]]]; auto. right. repeat split; auto.
      apply touches_spec in H3. destruct H3 as [n [Hn Hc]]. exists n. split; auto.
      now apply o_nodes_A.
    - destruct H as [H|[H1 [H2 [n [Hn Hc]]]]]; auto. right. repeat split; auto.
      apply touches_spec. exists n. split; auto. now apply o_nodes_A.
  Qed.

  Theorem global_is_owned_plus_ghosts modeB st ig r i :
    In i (o_global (part_out Nproc modeB st ig r)) <->
    In i (o_elements (part_out Nproc modeB st ig r)) \/ In i (o_ghosts (part_out Nproc modeB st ig r)).
  Proof.
    rewrite o_global_eq, in_part_elems, o_elements_In, o_ghosts_In. split.
    - intros [x [Hx [E [H|H]]]]; [left|right]; exists x; tauto.
    - intros [[x H]|[x H]]; exists x; tauto.
  Qed.

  (* row-completeness INSIDE one group, w.r.t. the nodes the rank got in that group *)
  Lemma row_complete_local_A st ig r n x :
    In n (o_nodes (part_out Nproc false st ig r)) ->
    In x ig -> erank x < Nproc -> In n (enodes x) ->
    In (eid x) (o_global (part_out Nproc false st ig r)).
  Proof.
    intros Hn Hx Hr Hnx. apply part_contents_A. exists x. repeat split; auto.
    destruct (Nat.eq_dec (erank x) r); auto. right. repeat split; auto. exists n. auto.
  Qed.

  (* ---------------- ownership of nodes ---------------- *)
  (* node n is among the owned nodes Mesh._Get_mpi_owned_nodes returns on part r *)
  Definition Owned (modeB : bool) (gs : list group) (r n : nat) : Prop :=
    exists (pre : list group) (g : group) (post : list group),
      gs = pre ++ g :: post /\ fst g = true /\
      In n (o_nodes (part_out Nproc modeB (st_before Nproc pre (index (snd g)) r) (index (snd g)) r)).

  Lemma o_nodes_final modeB (pre : list group) (g : group) (post : list group) r n : r < Nproc ->
    In n (o_nodes (part_out Nproc modeB (st_before Nproc pre (index (snd g)) r) (index (snd g)) r)) ->
    In n (final Nproc (pre ++ g :: post) r).
  Proof.
    intros Hr H. destruct modeB.
    - apply o_nodes_B in H. destruct H as [H _]. now apply (before_le_final Nproc pre g post r r n Hr).
    - apply o_nodes_A in H. now apply claim_final.
  Qed.

  Lemma Owned_final modeB gs r n : r < Nproc -> Owned modeB gs r n -> In n (final Nproc gs r).
  Proof. intros Hr [pre [g [post [-> [_ H]]]]]. eapply o_nodes_final; eauto. Qed.

  (* T4: no node has two owners — for every mesh, every rank map, both variants *)
  Theorem node_owner_unique modeB gs r s n :
    r < Nproc -> s < Nproc -> Owned modeB gs r n -> Owned modeB gs s n -> r = s.
  Proof.
    intros Hr Hs H1 H2. destruct (Nat.eq_dec r s); auto. exfalso.
    apply Owned_final in H1; auto. apply Owned_final in H2; auto.
    exact (final_disj Nproc gs r s n Hr Hs n0 H1 H2).
  Qed.

  (* lower-dimensional (boundary) elements follow the rank of a main-dimension element that
     carries their nodes — what gmsh's partitioner delivers; checked on every generated case *)
  Definition boundary_ok (gs : list group) : Prop :=
    forall g x n, In g gs -> fst g = false -> In x (index (snd g)) -> erank x < Nproc ->
      In n (enodes x) ->
      exists g' x', In g' gs /\ fst g' = true /\ In x' (index (snd g')) /\
                    erank x' = erank x /\ In n (enodes x').

  (* T5 (as written): every node of a main-dimension element has an owner *)
  Theorem node_owner_exists_A gs : boundary_ok gs ->
    forall g x n, In g gs -> fst g = true -> In x (index (snd g)) -> erank x < Nproc ->
      In n (enodes x) -> exists r, r < Nproc /\ Owned false gs r n.
  Proof.
    intros HB g x n Hg Hm Hx Hr Hn.
    destruct (in_split _ _ Hg) as [pre [post E]].
    assert (Ho : In n (nodes_of (own_of (index (snd g)) (erank x)))).
    { apply in_nodes_of. exists x. split; auto. apply in_own_of. auto. }
    destruct (own_has_owner Nproc pre g post (erank x) n Hr Ho) as [s [Hs Hf]].
    rewrite <- E in Hf. exists s. split; auto.
    destruct (final_claimed Nproc gs n s Hf) as [pre' [g' [post' [E' [_ Hc]]]]].
    destruct (fst g') eqn:Hm'.
    - exists pre', g', post'. repeat split; auto. now apply o_nodes_A.
    - assert (Hc' := Hc). apply claim_In in Hc'. destruct Hc' as [Hc' _].
      apply in_nodes_of in Hc'. destruct Hc' as [x' [Hx' Hn']]. apply in_own_of in Hx'.
      destruct Hx' as [Hx' Hr'].
      assert (Hg' : In g' gs) by (rewrite E'; apply in_or_app; right; now left).
      destruct (HB g' x' n Hg' Hm' Hx') as [g2 [x2 [Hg2 [Hm2 [Hx2 [Hr2 Hn2]]]]]]; auto. lia.
      destruct (in_split _ _ Hg2) as [p2 [q2 E2]].
      exists p2, g2, q2. repeat split; auto. apply o_nodes_A.
      apply (own_final_claim Nproc p2 g2 q2 s n Hs).
      + apply in_nodes_of. exists x2. split; auto. apply in_own_of. split; auto. congruence.
      + now rewrite <- E2.
  Qed.

  (* ---------------- row-completeness, single main-dimension group, as written -------------- *)
  Lemma single_main_split (pre : list group) : forall (g : group) post pre' (g' : group) post',
    pre ++ g :: post = pre' ++ g' :: post' ->
    fst g = true -> fst g' = true ->
    Forall (fun h : group => fst h = false) pre -> Forall (fun h : group => fst h = false) post ->
    pre = pre' /\ g = g' /\ post = post'.
  Proof.
    induction pre as [|a pre IH]; intros g post pre' g' post' E Hg Hg' Fp Fq.
    - destruct pre' as [|b pre']; simpl in E.
      + inversion E; auto.
      + inversion E; subst. exfalso. rewrite Forall_forall in Fq.
        assert (fst g' = false) by (apply Fq; apply in_or_app; right; now left). congruence.
    - destruct pre' as [|b pre']; simpl in E; inversion E; subst.
      + inversion Fp; subst. congruence.
      + inversion Fp; subst. destruct (IH g post pre' g' post' H1 Hg Hg' H3 Fq) as [-> [-> ->]]. auto.
  Qed.

  (* T6: on a mesh with ONE main-dimension group the code as written is row-complete *)
  Theorem row_complete_single_A (pre : list group) (g : group) (post : list group) r n x :
    fst g = true ->
    Forall (fun h : group => fst h = false) pre -> Forall (fun h : group => fst h = false) post ->
    Owned false (pre ++ g :: post) r n ->
    In x (index (snd g)) -> erank x < Nproc -> In n (enodes x) ->
    In (eid x) (o_global (part_out Nproc false (st_before Nproc pre (index (snd g)) r) (index (snd g)) r)).
  Proof.
    intros Hg Fp Fq [pre' [g' [post' [E [Hg' Hn]]]]] Hx Hr Hnx.
    destruct (single_main_split pre g post pre' g' post' E Hg Hg' Fp Fq) as [<- [<- <-]].
    eapply row_complete_local_A; eauto.
  Qed.

  (* ---------------- row-completeness of the proposed fix, every mesh ---------------- *)
  Lemma comp_unchanged r l : forall st, (forall p, In p l -> snd p <> r) ->
    run_steps Nproc l st r = st r.
  Proof.
    induction l as [|p l IH]; intros st H; simpl; auto.
    rewrite IH. apply step_other. intro E. apply (H p); auto. now left.
    intros q Hq. apply H. now right.
  Qed.

  Lemma st_before_comp pre ig r k n : r < Nproc ->
    In n (st_before Nproc pre ig k r) -> In n (step Nproc (st_before Nproc pre ig r) ig r r).
  Proof.
    intros Hr H. unfold st_before in *.
    set (S0 := run_steps Nproc (steps_of Nproc pre) st0) in *.
    destruct (le_lt_dec k r) as [Hk|Hk].
    - apply step_mono.
      replace r with (k + (r - k)) at 1 by lia. rewrite seq_app, map_app, run_steps_app.
      now apply run_steps_mono.
    - replace k with (r + S (k - S r)) in H by lia.
      rewrite seq_app, map_app, run_steps_app in H. simpl in H.
      rewrite comp_unchanged in H; auto.
      intros p Hp. apply in_map_iff in Hp. destruct Hp as [t [<- Ht]]. apply in_seq in Ht. simpl. lia.
  Qed.

  (* L: a node r owns in the end, seen in an element of group g, is already r's after its turn in g *)
  Lemma owned_after_turn (pre : list group) (g : group) (post : list group) r x n :
    r < Nproc -> In x (index (snd g)) -> erank x < Nproc -> In n (enodes x) ->
    In n (final Nproc (pre ++ g :: post) r) ->
    In n (step Nproc (st_before Nproc pre (index (snd g)) r) (index (snd g)) r r).
  Proof.
    intros Hr Hx Hs Hn Hf. set (ig := index (snd g)) in *.
    assert (Ho : In n (nodes_of (own_of ig (erank x)))).
    { apply in_nodes_of. exists x. split; auto. apply in_own_of. auto. }
    destruct (Nat.eq_dec (erank x) r) as [E|E].
    - rewrite E in Ho. rewrite step_same. apply in_or_app. right.
      now apply (own_final_claim Nproc pre g post r n Hr).
    - destruct (mem n (others Nproc (st_before Nproc pre ig (erank x)) (erank x))) eqn:M.
      + apply mem_In, in_others in M. destruct M as [t [Ht [Hts Hnt]]].
        assert (t = r).
        { destruct (Nat.eq_dec t r); auto. exfalso.
          apply (before_le_final' Nproc pre g post (erank x) t n Hs) in Hnt.
          exact (final_disj Nproc _ t r n Ht Hr n0 Hnt Hf). }
        subst t. eapply st_before_comp; eauto.
      + apply mem_false in M. exfalso.
        assert (Hc : In n (claim Nproc (st_before Nproc pre ig (erank x)) ig (erank x))).
        { apply claim_In. tauto. }
        apply (claim_final Nproc pre g post (erank x) n Hs) in Hc.
        exact (final_disj Nproc _ (erank x) r n Hs Hr E Hc Hf).
  Qed.

  (* T7: with the fix, for EVERY mesh (any number of groups of any dimension, any order), every
     element containing a node that r owns is a row of part r — in every group *)
  Theorem row_complete_B (pre : list group) (g : group) (post : list group) r n x :
    r < Nproc -> Owned true (pre ++ g :: post) r n ->
    In x (index (snd g)) -> erank x < Nproc -> In n (enodes x) ->
    In (eid x) (o_global (part_out Nproc true (st_before Nproc pre (index (snd g)) r) (index (snd g)) r)).
  Proof.
    intros Hr Ho Hx Hs Hn. apply Owned_final in Ho; auto.
    rewrite o_global_eq. apply in_part_elems. exists x. repeat split; auto.
    destruct (Nat.eq_dec (erank x) r); auto. right. repeat split; auto.
    apply touches_spec. exists n. split; auto. unfold src_of.
    eapply owned_after_turn; eauto.
  Qed.

  (* T5': with the fix every node of a main-dimension element has an owner (no side condition) *)
  Theorem node_owner_exists_B gs g x n :
    In g gs -> fst g = true -> In x (index (snd g)) -> erank x < Nproc -> In n (enodes x) ->
    exists r, r < Nproc /\ Owned true gs r n.
  Proof.
    intros Hg Hm Hx Hr Hn. destruct (in_split _ _ Hg) as [pre [post E]].
    assert (Ho : In n (nodes_of (own_of (index (snd g)) (erank x)))).
    { apply in_nodes_of. exists x. split; auto. apply in_own_of. auto. }
    destruct (own_has_owner Nproc pre g post (erank x) n Hr Ho) as [s [Hs Hf]].
    exists s. split; auto. exists pre, g, post. repeat split; auto.
    assert (Hstep := owned_after_turn pre g post s x n Hs Hx Hr Hn Hf).
    apply o_nodes_B. split; auto. exists x. repeat split; auto.
    apply in_part_elems. exists x. repeat split; auto.
    destruct (Nat.eq_dec (erank x) s); auto. right. repeat split; auto.
    apply touches_spec. exists n. split; auto.
  Qed.

End Parts.

(* ====================================================================================== *)
(* the executable, threaded loop computes exactly the specification-level parts            *)
(* ====================================================================================== *)
Section Exec.
  Variable Nproc : nat.
  Variable modeB : bool.

  Lemma run_ranks_snd ig : forall rs st,
    snd (run_ranks Nproc modeB ig rs st) = run_steps Nproc (map (fun s => (ig, s)) rs) st.
  Proof.
    induction rs as [|r rs IH]; intros st; simpl; auto.
    specialize (IH (step Nproc st ig r)).
    destruct (run_ranks Nproc modeB ig rs (step Nproc st ig r)) as [os st2]. simpl in *. auto.
  Qed.

  Lemma run_ranks_fst ig : forall k a st,
    fst (run_ranks Nproc modeB ig (seq a k) st) =
    map (fun r => part_out Nproc modeB
                    (run_steps Nproc (map (fun s => (ig, s)) (seq a (r - a))) st) ig r)
        (seq a k).
  Proof.
    induction k as [|k IH]; intros a st; simpl; auto.
    specialize (IH (S a) (step Nproc st ig a)).
    destruct (run_ranks Nproc modeB ig (seq (S a) k) (step Nproc st ig a)) as [os st2].
    simpl in *. rewrite Nat.sub_diag. simpl. f_equal. rewrite IH.
    apply map_ext_in. intros r Hr. apply in_seq in Hr.
    replace (r - a) with (S (r - S a)) by lia. reflexivity.
  Qed.

  Lemma run_groups_nth (pre : list group) : forall (g : group) (post : list group) st,
    nth (length pre) (run_groups Nproc modeB (pre ++ g :: post) st) [] =
    fst (run_ranks Nproc modeB (index (snd g)) (seq 0 Nproc) (run_steps Nproc (steps_of Nproc pre) st)).
  Proof.
    induction pre as [|a pre IH]; intros g post st.
    - simpl. destruct (run_ranks Nproc modeB (index (snd g)) (seq 0 Nproc) st); reflexivity.
    - rewrite steps_of_cons, run_steps_app. simpl.
      pose proof (run_ranks_snd (index (snd a)) (seq 0 Nproc) st) as Hs.
      destruct (run_ranks Nproc modeB (index (snd a)) (seq 0 Nproc) st) as [os st2].
      simpl in *. rewrite IH. now rewrite Hs.
  Qed.

  Theorem partition_nth (pre : list group) (g : group) (post : list group) r : r < Nproc ->
    nth r (nth (length pre) (partition Nproc modeB (pre ++ g :: post)) []) out0 =
    part_out Nproc modeB (st_before Nproc pre (index (snd g)) r) (index (snd g)) r.
  Proof.
    intros Hr. unfold partition. rewrite run_groups_nth, run_ranks_fst.
    set (f := fun r0 => part_out Nproc modeB _ _ r0).
    rewrite (nth_indep _ out0 (f 0)) by (now rewrite map_length, seq_length).
    rewrite map_nth, seq_nth by auto. unfold f. simpl. now rewrite Nat.sub_0_r.
  Qed.
End Exec.

(* ====================================================================================== *)
(* reproducibility: every output depends only on the SETS involved, never on the order in  *)
(* which python enumerates them (hash order): outputs are canonical (sorted, duplicate-free)*)
(* ====================================================================================== *)
Section Repro.
  Variable Nproc : nat.
  Variable modeB : bool.

  Definition st_equiv (s1 s2 : state) : Prop := forall r n, In n (s1 r) <-> In n (s2 r).
  Definition ig_equiv (g1 g2 : list ielem) : Prop := forall x, In x g1 <-> In x g2.

  Lemma others_ext s1 s2 r n : st_equiv s1 s2 ->
    (In n (others Nproc s1 r) <-> In n (others Nproc s2 r)).
  Proof.
    intros H. rewrite !in_others. split; intros [s [A [B C]]]; exists s; repeat split; auto; now apply H.
  Qed.

  Lemma nodes_own_ext g1 g2 r n : ig_equiv g1 g2 ->
    (In n (nodes_of (own_of g1 r)) <-> In n (nodes_of (own_of g2 r))).
  Proof.
    intros H. rewrite !in_nodes_of.
    split; intros [x [A B]]; exists x; split; auto; apply in_own_of in A; apply in_own_of;
      destruct A; split; auto; now apply H.
  Qed.

  Lemma claim_ext s1 s2 g1 g2 r n : st_equiv s1 s2 -> ig_equiv g1 g2 ->
    (In n (claim Nproc s1 g1 r) <-> In n (claim Nproc s2 g2 r)).
  Proof.
    intros H1 H2. rewrite !claim_In. rewrite (nodes_own_ext g1 g2 r n H2), (others_ext s1 s2 r n H1). tauto.
  Qed.

  Lemma step_ext s1 s2 g1 g2 r : st_equiv s1 s2 -> ig_equiv g1 g2 ->
    st_equiv (step Nproc s1 g1 r) (step Nproc s2 g2 r).
  Proof.
    intros H1 H2 t n. destruct (Nat.eq_dec t r) as [->|Hn].
    - rewrite !step_same, !in_app_iff, (claim_ext s1 s2 g1 g2 r n H1 H2), (H1 r n). tauto.
    - rewrite !step_other by auto. apply H1.
  Qed.

  Lemma src_ext s1 s2 g1 g2 r n : st_equiv s1 s2 -> ig_equiv g1 g2 ->
    (In n (src_of Nproc modeB s1 g1 r) <-> In n (src_of Nproc modeB s2 g2 r)).
  Proof.
    intros H1 H2. unfold src_of. destruct modeB.
    - apply (step_ext s1 s2 g1 g2 r H1 H2).
    - now apply claim_ext.
  Qed.

  Lemma touches_ext l1 l2 x : (forall n, In n l1 <-> In n l2) ->
    (touches l1 x = true <-> touches l2 x = true).
  Proof.
    intros H. rewrite !touches_spec. split; intros [n [A B]]; exists n; split; auto; now apply H.
  Qed.

  Lemma part_elems_ext s1 s2 g1 g2 r i : st_equiv s1 s2 -> ig_equiv g1 g2 ->
    (In i (part_elems Nproc modeB s1 g1 r) <-> In i (part_elems Nproc modeB s2 g2 r)).
  Proof.
    intros H1 H2. rewrite !in_part_elems.
    assert (T : forall x, touches (src_of Nproc modeB s1 g1 r) x = true <->
                          touches (src_of Nproc modeB s2 g2 r) x = true).
    { intros x. apply touches_ext. intros n. now apply src_ext. }
    split; intros [x [A [B C]]]; exists x; (split; [now apply H2|split; [exact B|]]);
      destruct C as [C|[C1 [C2 C3]]]; [now left | right | now left | right];
      (split; [exact C1|split; [exact C2|]]); now apply T.
  Qed.

  Lemma out_eq o1 o2 :
    ssorted (o_elements o1) -> ssorted (o_elements o2) ->
    ssorted (o_ghosts o1) -> ssorted (o_ghosts o2) ->
    ssorted (o_nodes o1) -> ssorted (o_nodes o2) ->
    ssorted (o_ghostNodes o1) -> ssorted (o_ghostNodes o2) ->
    ssorted (o_global o1) -> ssorted (o_global o2) ->
    (forall i, In i (o_elements o1) <-> In i (o_elements o2)) ->
    (forall i, In i (o_ghosts o1) <-> In i (o_ghosts o2)) ->
    (forall i, In i (o_nodes o1) <-> In i (o_nodes o2)) ->
    (forall i, In i (o_ghostNodes o1) <-> In i (o_ghostNodes o2)) ->
    (forall i, In i (o_global o1) <-> In i (o_global o2)) -> o1 = o2.
  Proof.
    destruct o1, o2; simpl; intros.
    f_equal; apply ssorted_ext; auto.
  Qed.

  Lemma part_out_sorted st ig r :
    let o := part_out Nproc modeB st ig r in
    ssorted (o_elements o) /\ ssorted (o_ghosts o) /\ ssorted (o_nodes o) /\
    ssorted (o_ghostNodes o) /\ ssorted (o_global o).
  Proof. unfold part_out, part_elems; cbv zeta; simpl. repeat split; apply canon_sorted. Qed.

  Lemma part_rows_ext s1 s2 g1 g2 r n : st_equiv s1 s2 -> ig_equiv g1 g2 ->
    ((exists x, In x g1 /\ In (eid x) (part_elems Nproc modeB s1 g1 r) /\ In n (enodes x)) <->
     (exists x, In x g2 /\ In (eid x) (part_elems Nproc modeB s2 g2 r) /\ In n (enodes x))).
  Proof.
    intros H1 H2. split; intros [x [B [C D]]]; exists x; split.
    - now apply H2.
    - split; auto. now apply (part_elems_ext s1 s2 g1 g2 r (eid x) H1 H2).
    - now apply H2.
    - split; auto. now apply (part_elems_ext s1 s2 g1 g2 r (eid x) H1 H2).
  Qed.

  Lemma o_nodes_ext s1 s2 g1 g2 r n : st_equiv s1 s2 -> ig_equiv g1 g2 ->
    (In n (o_nodes (part_out Nproc modeB s1 g1 r)) <-> In n (o_nodes (part_out Nproc modeB s2 g2 r))).
  Proof.
    intros H1 H2. destruct modeB eqn:EB.
    - rewrite !o_nodes_B.
      pose proof (step_ext s1 s2 g1 g2 r H1 H2 r n) as E1.
      pose proof (part_rows_ext s1 s2 g1 g2 r n H1 H2) as E2. rewrite EB in E2.
      tauto.
    - rewrite !o_nodes_A. now apply claim_ext.
  Qed.

  (* one part: same sets in, identical arrays out *)
  Theorem part_out_ext s1 s2 g1 g2 r : st_equiv s1 s2 -> ig_equiv g1 g2 ->
    part_out Nproc modeB s1 g1 r = part_out Nproc modeB s2 g2 r.
  Proof.
    intros H1 H2.
    destruct (part_out_sorted s1 g1 r) as [A1 [A2 [A3 [A4 A5]]]].
    destruct (part_out_sorted s2 g2 r) as [B1 [B2 [B3 [B4 B5]]]].
    apply out_eq; auto.
    - intros i. rewrite !o_elements_In.
      split; intros [x [A [B C]]]; exists x; (split; [now apply H2|auto]).
    - intros i. rewrite !o_ghosts_In.
      split; intros [x [A [B [C [D E]]]]]; exists x; (split; [now apply H2|]);
        (split; [exact B|]); (split; [exact C|]); (split; [exact D|]).
      + apply (touches_ext (src_of Nproc modeB s1 g1 r) (src_of Nproc modeB s2 g2 r)); auto.
        intros n. now apply src_ext.
      + apply (touches_ext (src_of Nproc modeB s1 g1 r) (src_of Nproc modeB s2 g2 r)); auto.
        intros n. now apply src_ext.
    - intros n. now apply o_nodes_ext.
    - intros n. rewrite !o_ghostNodes_In.
      pose proof (o_nodes_ext s1 s2 g1 g2 r n H1 H2) as E1.
      pose proof (part_rows_ext s1 s2 g1 g2 r n H1 H2) as E2. tauto.
    - intros i. rewrite !o_global_eq. now apply part_elems_ext.
  Qed.
End Repro.

(* ====================================================================================== *)
(* counter-model: TRI+QUAD mesh, 2 ranks.  TRI3 (0 1 2) on rank 0, QUAD4 (1 3 4 2) on rank 1 *)
(* ====================================================================================== *)
Definition witness_mixed : list group :=
  [ (true, [([0;1;2], 0)]) ; (true, [([1;3;4;2], 1)]) ].

Definition owned_of_partition (Nproc : nat) (modeB : bool) (gs : list group) : nat -> list nat :=
  owned_nodes gs (partition Nproc modeB gs).

Definition row_complete_check (Nproc : nat) (modeB : bool) (gs : list group) : bool :=
  row_complete_b Nproc gs (partition Nproc modeB gs) (owned_of_partition Nproc modeB gs).

(* as written, the code loses the QUAD4 that touches nodes 1 and 2 owned by rank 0 *)
Theorem row_complete_A_refuted : row_complete_check 2 false witness_mixed = false.
Proof. vm_compute. reflexivity. Qed.

Theorem row_complete_A_refuted_spec :
  exists (pre : list group) (g : group) (post : list group) r n x,
    witness_mixed = pre ++ g :: post /\ fst g = true /\
    Owned 2 false witness_mixed r n /\
    In x (index (snd g)) /\ erank x < 2 /\ In n (enodes x) /\
    ~ In (eid x) (o_global (part_out 2 false (st_before 2 pre (index (snd g)) r) (index (snd g)) r)).
Proof.
  exists [(true, [([0;1;2], 0)])], (true, [([1;3;4;2], 1)]), [], 0, 1, (0, ([1;3;4;2], 1)).
  repeat split.
  - exists [], (true, [([0;1;2], 0)]), [(true, [([1;3;4;2], 1)])]. repeat split.
    vm_compute. tauto.
  - vm_compute. tauto.
  - vm_compute. lia.
  - vm_compute. tauto.
  - vm_compute. tauto.
Qed.

(* the proposed fix is row-complete on the same mesh (and on every mesh: row_complete_B) *)
Example row_complete_B_on_witness : row_complete_check 2 true witness_mixed = true.
Proof. vm_compute. reflexivity. Qed.

(* non-vacuity of the hypotheses of the theorems above on a two-group (SEG2 boundary + TRI3) mesh *)
Definition example_single : list group :=
  [ (false, [([0;1], 0); ([1;2], 1)]) ; (true, [([0;1;3], 0); ([1;2;3], 1)]) ].

Example boundary_ok_example : boundary_ok 2 example_single.
Proof.
  intros g x n Hg Hm Hx Hr Hn.
  destruct Hg as [<-|[<-|[]]]; simpl in Hm; try discriminate.
  exists (true, [([0;1;3], 0); ([1;2;3], 1)]).
  simpl in Hx. destruct Hx as [<-|[<-|[]]]; simpl in Hn.
  - exists (0, ([0;1;3], 0)). simpl. intuition.
  - exists (1, ([1;2;3], 1)). simpl. intuition.
Qed.

Example owned_example : Owned 2 false example_single 0 1 /\ Owned 2 false example_single 1 2.
Proof.
  split; exists [(false, [([0;1], 0); ([1;2], 1)])], (true, [([0;1;3], 0); ([1;2;3], 1)]), [];
    repeat split; vm_compute; tauto.
Qed.

Example row_complete_single_example : row_complete_check 2 false example_single = true.
Proof. vm_compute. reflexivity. Qed.
