(* C03 -- homogeneity of the assembly in the element values: for every additive map phi of the value monoid
   (a change of units x |-> s*x, complex conjugation, taking real parts, ...) assembling phi(values) gives phi of the
   assembled coefficients, slot by slot: no magnitude threshold can enter. *)
From Coq Require Import ZArith List Bool Lia.
From EFModel Require Import C03_Csr.
Import ListNotations.

Section Hom.
Variable V : Type.
Variable vadd : V -> V -> V.
Variable vzero : V.
Variable phi : V -> V.
Hypothesis phi_add : forall a b, phi (vadd a b) = vadd (phi a) (phi b).
Hypothesis phi_0 : phi vzero = vzero.

Lemma upd_add_map s v l : upd_add V vadd s (phi v) (map phi l) = map phi (upd_add V vadd s v l).
Proof. revert s. induction l as [|x t IH]; intros [|s]; simpl; try reflexivity; [now rewrite phi_add|now rewrite IH]. Qed.

Lemma fold_upd_map inv : forall data acc,
  fold_left (fun acc sv => upd_add V vadd (fst sv) (snd sv) acc) (combine inv (map phi data)) (map phi acc)
  = map phi (fold_left (fun acc sv => upd_add V vadd (fst sv) (snd sv) acc) (combine inv data) acc).
Proof.
  induction inv as [|s t IH]; intros [|d dt] acc; simpl; try reflexivity.
  rewrite upd_add_map. apply IH.
Qed.

Theorem bincount_homogeneous inv data nnz :
  bincount V vadd vzero inv (map phi data) nnz = map phi (bincount V vadd vzero inv data nnz).
Proof.
  unfold bincount. rewrite <- fold_upd_map. f_equal.
  induction nnz as [|k IH]; simpl; [reflexivity|]. rewrite phi_0. f_equal. exact IH.
Qed.

Theorem assemble_homogeneous (m : csrmap) data :
  c_data V (assemble_with V vadd vzero m (map phi data)) = map phi (c_data V (assemble_with V vadd vzero m data)) /\
  c_indices V (assemble_with V vadd vzero m (map phi data)) = c_indices V (assemble_with V vadd vzero m data) /\
  c_indptr V (assemble_with V vadd vzero m (map phi data)) = c_indptr V (assemble_with V vadd vzero m data).
Proof. unfold assemble_with. simpl. split; [apply bincount_homogeneous|split; reflexivity]. Qed.
End Hom.
