(* C18 — tactic for the composite statements "assembled stress = gradient of the composite energy":
   is_derive (fun e => W (I1 (c(e)), I2 (c(e)), I3 (c(e)))) e0 (sum_k 2 S_k dIkdC[m]),  H : 0 < I3 (c(e0)). *)
From Coq Require Import Reals Lra Psatz.
From Coquelicot Require Import Coquelicot.
From EFModel Require Import C18_tac.
Open Scope R_scope.

Ltac pos_from H := first [ exact H | eapply Rlt_le_trans; [ exact H | right; ring ] ].
Ltac gconds H := repeat split; try exact I; try (pos_from H); try (apply Rgt_not_eq; unfold Rgt; pos);
                 try (apply Rgt_not_eq; unfold Rgt; pos_from H); try pos;
                 try (apply sqrt_lt_R0; pos_from H); try (apply Rgt_not_eq; unfold Rgt; apply sqrt_lt_R0; pos_from H).

(* every syntactic form of the determinant under ln / sqrt / inverse is replaced by t^6 *)
Ltac all_X_to_t6 t E :=
  rewrite ?E;
  repeat match goal with
         | |- context [ln ?X] => lazymatch X with (t ^ 6) => fail | _ => idtac end; replace X with (t ^ 6) by (rewrite <- E; ring)
         | |- context [sqrt ?X] => lazymatch X with (t ^ 6) => fail | _ => idtac end; replace X with (t ^ 6) by (rewrite <- E; ring)
         end.

Ltac gsolve H :=
  unfold Rpower; auto_derive;
  [ gconds H
  | first [ solve [ field; gconds H ]
          | let t := fresh "t" in let Ht := fresh "Ht" in let E := fresh "E" in
            destruct (sixth_root _ H) as [t [Ht E]];
            all_X_to_t6 t E; rp_all t; try (rewrite (ln_t6 t) by assumption); try exp_unify; try exp_pairs; field; conds ] ].
