(* C18 — tactic for the composite statements "assembled stress = gradient of the composite energy":
   is_derive (fun e => W (I1 (c(e)), I2 (c(e)), I3 (c(e)))) e0 (sum_k 2 S_k dIkdC[m]),  H : 0 < I3 (c(e0)). *)
From Coq Require Import Reals Lra Psatz.
From Coquelicot Require Import Coquelicot.
From EFModel Require Import C18_tac.
Open Scope R_scope.

Ltac pos_from H := first [ exact H | eapply Rlt_le_trans; [ exact H | right; ring ] ].
Ltac gconds H := repeat split; try exact I; try (pos_from H); try (apply Rgt_not_eq; unfold Rgt; pos);
                 try (apply Rgt_not_eq; unfold Rgt; pos_from H); try pos;
                 try (apply sqrt_lt_R0; pos_from H); try (apply Rgt_not_eq; unfold Rgt; apply sqrt_lt_R0; pos_from H).

(* every syntactic form of the determinant under ln / sqrt / inverse is replaced by t^6 *)
Ltac all_X_to_t6 t E :=
  rewrite ?E;
  repeat match goal with
         | |- context [ln ?X] => lazymatch X with (t ^ 6) => fail | _ => idtac end; replace X with (t ^ 6) by (rewrite <- E; ring)
         | |- context [sqrt ?X] => lazymatch X with (t ^ 6) => fail | _ => idtac end; replace X with (t ^ 6) by (rewrite <- E; ring)
         end.

Ltac gsolve H :=
  unfold Rpower; auto_derive;
  [ gconds H
  | first [ solve [ field; gconds H ]
          | let t := fresh "t" in let Ht := fresh "Ht" in let E := fresh "E" in
            destruct (sixth_root _ H) as [t [Ht E]];
            all_X_to_t6 t E; rp_all t; try (rewrite (ln_t6 t) by assumption); try exp_unify; try exp_pairs; field; conds ] ].

(* entries involving a shear coordinate: the identity holds modulo sqrt 2 * sqrt 2 = 2.  sqrt 2 is abstracted into a real s
   with s * s = 2, denominators are cleared, the powers of s are reduced and the rest is a ring identity. *)
Ltac s_powers s Hs :=
  let P2 := fresh "P" in let P3 := fresh "P" in let P4 := fresh "P" in let P5 := fresh "P" in let P6 := fresh "P" in
  let P7 := fresh "P" in let P8 := fresh "P" in
  assert (P2 : s ^ 2 = 2) by (simpl; lra);
  assert (P3 : s ^ 3 = 2 * s) by (replace (s ^ 3) with (s ^ 2 * s) by ring; rewrite P2; ring);
  assert (P4 : s ^ 4 = 4) by (replace (s ^ 4) with (s ^ 2 * s ^ 2) by ring; rewrite P2; ring);
  assert (P5 : s ^ 5 = 4 * s) by (replace (s ^ 5) with (s ^ 4 * s) by ring; rewrite P4; ring);
  assert (P6 : s ^ 6 = 8) by (replace (s ^ 6) with (s ^ 4 * s ^ 2) by ring; rewrite P4, P2; ring);
  assert (P7 : s ^ 7 = 8 * s) by (replace (s ^ 7) with (s ^ 6 * s) by ring; rewrite P6; ring);
  assert (P8 : s ^ 8 = 16) by (replace (s ^ 8) with (s ^ 4 * s ^ 4) by ring; rewrite P4; ring);
  rewrite ?P8, ?P7, ?P6, ?P5, ?P4, ?P3, ?P2.

Ltac s_close :=
  let s := fresh "s" in let Hs := fresh "Hs" in
  assert (Hs : sqrt 2 * sqrt 2 = 2) by (apply sqrt_sqrt; lra);
  set (s := sqrt 2) in *; clearbody s;
  field_simplify_eq; [ s_powers s Hs; ring | conds .. ].

Ltac gsolve2 H :=
  unfold Rpower; auto_derive;
  [ gconds H
  | lazymatch goal with
    | |- context [ln _] =>
      let t := fresh "t" in let Ht := fresh "Ht" in let E := fresh "E" in
      destruct (sixth_root _ H) as [t [Ht E]];
      all_X_to_t6 t E; rp_all t; try (rewrite (ln_t6 t) by assumption); try exp_unify; try exp_pairs; s_close
    | |- _ => try exp_unify; try exp_pairs; s_close      (* energy polynomial in the invariants: no substitution needed *)
    end ].
