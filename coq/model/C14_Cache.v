(* C14 -- cache / observer invalidation state machine of EasyFEA simulations.

   Hand-written executable Gallina model.  WHICH mutator notifies / clears WHAT is NOT fixed
   here: every such decision is read from a [table] value.  translator/notify.py regenerates a
   concrete table (Gen_Notify.v) from the source tree on every run; the theorems below are
   stated for an arbitrary table satisfying the boolean predicate [table_ok], and
   coq/props/C14/C14_fresh.v re-proves [table_ok gen_table = true] by computation.

   Abstraction: every datum a matrix can depend on is a *version* (N), bumped from a global
   clock whenever the datum is (potentially) changed.  A cached object carries the versions it
   was computed from ("tag").  "Behaves like a fresh simulation" = the tag of what the next
   Get_K_C_M_F / Solve uses equals the tag of the current configuration.

   Trusted geometric fact used by the model (spot-checked numerically by the correspondence
   harness): element mass matrices are invariant under Translate / Rotate / Symmetry
   (isometries), so only the coordinate *setter* bumps the [shape] version. *)
From Coq Require Import List Bool NArith Arith Lia.
Import ListNotations.

Inductive nmode := NNever | NIfLag | NAlways.
Inductive mop := MTranslate | MRotate | MSymmetry | MCoordSet.
Inductive kind := KLin | KNonLin | KPF.

Definition all_mops := [MTranslate; MRotate; MSymmetry; MCoordSet].

(* ---- the generated table ----------------------------------------------------------- *)
Record table := mkTable {
  t_param_need : bool;      (* _Parameter.__set__ calls instance.Need_Update() *)
  t_model_notify : bool;    (* _IModel.Need_Update reaches self._Notify *)
  t_upd_model_need : bool;  (* _Simu._Update, _IModel branch: self.Need_Update() *)
  t_upd_mesh_need : bool;   (* _Simu._Update, Mesh branch: self.Need_Update() *)
  t_upd_mesh_clear : bool;  (* _Simu._Update, Mesh branch: clear_cached_computed_values(self) *)
  t_init_sub_model : bool;  (* _Simu.__init__: model._Add_observer(self) *)
  t_init_sub_mesh : bool;   (* _Simu.__init__: mesh._Add_observer(self) *)
  t_pf_sub_material : bool; (* PhaseField.__init__: material._Add_observer(self) *)
  t_rho_need : bool;        (* _Simu.rho is a _Parameter descriptor and _Simu is Updatable *)
  t_ray_need : bool;        (* Elastic.Set_Rayleigh_Damping_Coefs: self.Need_Update() *)
  t_mesh_clear : mop -> bool;  (* Mesh op assigns groupElem.coord for ALL groups, and that setter clears *)
  t_mesh_notify : mop -> bool; (* Mesh op reaches self._Notify *)
  t_meshset_need : bool;    (* simu.mesh setter: Need_Update *)
  t_meshset_clear : bool;   (* simu.mesh setter: clear_cached_computed_values(self) *)
  t_meshset_sub : bool;     (* simu.mesh setter: mesh._Add_observer(self) *)
  t_meshset_keeps_old : bool; (* the simulation stays subscribed to the meshes of its history: the setter does not
                                 _Remove_observer itself from the replaced mesh (or __Update_mesh re-subscribes) *)
  t_meshset_initsols : bool; (* simu.mesh setter: UNCONDITIONAL self.__Init_Sols_n() (solution vectors of the old mesh dropped) *)
  t_updmesh_need : bool;    (* _Simu.__Update_mesh (Set_Iter on another mesh): Need_Update *)
  t_updmesh_clear : bool;
  t_bcinit : nmode;         (* Bc_Init raises Need_Update: never / if Lagrange conditions exist / always *)
  t_dirichlet : nmode;      (* add_dirichlet -> _Bc_Add_Dirichlet *)
  t_neumann : nmode;        (* add_neumann / add_*Load -> _Bc_Add_Neumann *)
  t_lagrange : nmode;       (* _Bc_Add_Lagrange *)
  t_getk_reset : bool;      (* Get_K_C_M_F: Need_Update(False) after assembling *)
  t_newton_need : bool;     (* Newton loop raises Need_Update at every iteration *)
  t_pf_need_d : bool;       (* PhaseField.Need_Update assigns __updatedDamage = not value *)
  t_pf_need_u : bool;
  t_pf_setiter_d : bool;    (* PhaseField.Set_Iter: __updatedDamage = False *)
  t_pf_setiter_u : bool;
  t_pf_dmg_inval_u : bool;  (* PhaseField.Solve: after the damage solve, __updatedDisplacement = False *)
  t_pf_el_inval_d : bool;
  t_csr_key_groups : bool;  (* cache key of __Get_csr_map contains the contributing groups *)
  t_csr_key_ndof : bool;    (* ... and Ndof *)
  t_mass_key_group : bool;  (* cache key of HyperElastic.__Mass_e contains the group *)
  t_param_get_copies : bool;  (* a parameter is never handed out as the stored mutable object: _Parameter.__get__ returns a
                                 copy (or __set__ stores one), so `a.p *= 3` cannot edit in place an array another object holds *)
  t_param_set_unconditional : bool; (* _Parameter.__set__ raises Need_Update WITHOUT comparing the assigned object with the
                                       stored one: re-assigning the same array object after an in-place edit still notifies *)
  t_model_cache_refresh : bool (* every reader of a derived quantity cached ON the model (e.g. sqrt(C), sqrt(S) of an
                                  elastic law) triggers the model's lazy update before it tests that cache *)
}.

Definition not_never (m : nmode) : bool := match m with NNever => false | _ => true end.

Definition table_ok (T : table) : bool :=
  t_param_need T && t_model_notify T && t_upd_model_need T && t_upd_mesh_need T &&
  t_upd_mesh_clear T && t_init_sub_model T && t_pf_sub_material T && t_rho_need T &&
  t_ray_need T && forallb (fun k => t_mesh_clear T k && t_mesh_notify T k) all_mops &&
  t_meshset_need T && t_meshset_sub T && t_meshset_keeps_old T && t_meshset_initsols T && t_updmesh_need T &&
  not_never (t_bcinit T) && not_never (t_dirichlet T) && not_never (t_lagrange T) &&
  t_newton_need T && t_pf_need_d T && t_pf_need_u T && t_pf_setiter_d T && t_pf_setiter_u T &&
  t_pf_dmg_inval_u T && t_pf_el_inval_d T && t_csr_key_groups T && t_csr_key_ndof T &&
  t_mass_key_group T && t_param_get_copies T && t_param_set_unconditional T && t_model_cache_refresh T.

(* ---- state ------------------------------------------------------------------------- *)
Record meshS := mkMesh { pose : N; shape : N; gtag : option N }.
Definition dmesh := mkMesh 0 0 None.

Definition ckey := (nat * N)%type.
Definition ckey_eqb (a b : ckey) := Nat.eqb (fst a) (fst b) && N.eqb (snd a) (snd b).

Record key := mkKey { k_mesh : nat; k_geo : N; k_par : N; k_rho : N; k_ray : N; k_ldim : N;
                      k_mshape : N; k_csr : ckey; k_sol : N; k_derived : N; k_solmesh : nat }.

Record cfgS := mkCfg { cur : nat; rho : N; ray : N; nlag : N; ndir : N; algo : N; solU : N; solD : N }.
Record cacheS := mkCache { need : bool; kcmf : option key; csr : list (ckey * ckey); massc : list (ckey * N) }.
Record pfS := mkPf { updD : bool; updU : bool; kD : option key; kU : option key }.
Record regS := mkReg { subs : list nat; hist : list nat; subm : bool; submat : bool; iters : list nat }.
(* [st]: the mesh the live solution vectors (u, v, a / d) belong to *)
Record simS := mkSim { kd : kind; cf : cfgS; ca : cacheS; pf : pfS; rg : regS; st : nat }.
(* [mcache]: the derived quantities cached on the model object, tagged with the parameter version they
   were computed from (None = not computed yet) *)
Record world := mkW { clock : N; par : N; mcache : option N; meshes : list meshS; sims : list simS }.

Definition mget (ms : list meshS) (m : nat) := nth m ms dmesh.
Definition ldim (c : cfgS) : N := if N.eqb (nlag c) 0 then 0%N else (nlag c + ndir c)%N.

Definition ideal (p : N) (ms : list meshS) (s : simS) (solv : N) : key :=
  let c := cf s in
  mkKey (cur c) (pose (mget ms (cur c))) p (rho c) (ray c) (ldim c)
        (shape (mget ms (cur c))) (cur c, ldim c) solv p (cur c).

Fixpoint lookup {V} (k : ckey) (l : list (ckey * V)) : option V :=
  match l with [] => None | (k', v) :: r => if ckey_eqb k k' then Some v else lookup k r end.

Definition geo_used (m : meshS) : N := match gtag m with Some p => p | None => pose m end.
Definition csrkey (T : table) (c : cfgS) : ckey :=
  ((if t_csr_key_groups T then cur c else 0%nat), (if t_csr_key_ndof T then ldim c else 0%N)).
Definition masskey (T : table) (c : cfgS) : ckey :=
  ((if t_mass_key_group T then cur c else 0%nat), rho c).
Definition csr_used (T : table) (s : simS) : ckey :=
  match lookup (csrkey T (cf s)) (csr (ca s)) with Some v => v | None => (cur (cf s), ldim (cf s)) end.
Definition mass_used (T : table) (ms : list meshS) (s : simS) : N :=
  match kd s with
  | KNonLin => match lookup (masskey T (cf s)) (massc (ca s)) with
               | Some sh => sh | None => shape (mget ms (cur (cf s))) end
  | _ => shape (mget ms (cur (cf s)))
  end.

(* the tag of what an assembly performed NOW would produce (reads the caches) *)
Definition derived_used (T : table) (p : N) (mc : option N) : N :=
  if t_model_cache_refresh T then p else match mc with Some v => v | None => p end.
Definition asm_key (T : table) (p : N) (mc : option N) (ms : list meshS) (s : simS) (solv : N) : key :=
  let c := cf s in
  mkKey (cur c) (geo_used (mget ms (cur c))) p (rho c) (ray c) (ldim c)
        (mass_used T ms s) (csr_used T s) solv (derived_used T p mc) (st s).

(* what the next Get_K_C_M_F / Solve uses *)
Definition observe (T : table) (p : N) (mc : option N) (ms : list meshS) (s : simS) : list (option key) :=
  match kd s with
  | KLin => [if need (ca s) then Some (asm_key T p mc ms s 0) else kcmf (ca s)]
  | KNonLin => [if t_newton_need T || need (ca s) then Some (asm_key T p mc ms s (solU (cf s))) else kcmf (ca s)]
  | KPF => [if updU (pf s) then kU (pf s) else Some (asm_key T p mc ms s (solD (cf s)));
            if updD (pf s) then kD (pf s) else Some (asm_key T p mc ms s (solU (cf s)))]
  end.
Definition ideal_obs (p : N) (ms : list meshS) (s : simS) : list (option key) :=
  match kd s with
  | KLin => [Some (ideal p ms s 0)]
  | KNonLin => [Some (ideal p ms s (solU (cf s)))]
  | KPF => [Some (ideal p ms s (solD (cf s))); Some (ideal p ms s (solU (cf s)))]
  end.

(* ---- field updates ------------------------------------------------------------------- *)
Definition set_cf (s : simS) (c : cfgS) := mkSim (kd s) c (ca s) (pf s) (rg s) (st s).
Definition set_ca (s : simS) (c : cacheS) := mkSim (kd s) (cf s) c (pf s) (rg s) (st s).
Definition set_pf (s : simS) (c : pfS) := mkSim (kd s) (cf s) (ca s) c (rg s) (st s).
Definition set_rg (s : simS) (c : regS) := mkSim (kd s) (cf s) (ca s) (pf s) c (st s).
Definition set_st (s : simS) (m : nat) := mkSim (kd s) (cf s) (ca s) (pf s) (rg s) m.

Fixpoint upd_nth {A} (i : nat) (f : A -> A) (l : list A) : list A :=
  match l, i with
  | [], _ => []
  | x :: r, O => f x :: r
  | x :: r, S j => x :: upd_nth j f r
  end.

(* simu.Need_Update() *)
Definition raise (T : table) (s : simS) : simS :=
  match kd s with
  | KPF => set_pf s (mkPf (if t_pf_need_d T then false else updD (pf s))
                          (if t_pf_need_u T then false else updU (pf s)) (kD (pf s)) (kU (pf s)))
  | _ => set_ca s (mkCache true (kcmf (ca s)) (csr (ca s)) (massc (ca s)))
  end.
Definition clear_simcache (s : simS) : simS :=
  set_ca s (mkCache (need (ca s)) (kcmf (ca s)) [] []).
Definition apply_mode (T : table) (md : nmode) (lag : bool) (s : simS) : simS :=
  match md with NAlways => raise T s | NIfLag => if lag then raise T s else s | NNever => s end.

Definition react_model (T : table) (sub : bool) (s : simS) : simS :=
  let registered := match kd s with KPF => if sub then submat (rg s) else subm (rg s) | _ => subm (rg s) end in
  if t_param_need T && t_model_notify T && registered && t_upd_model_need T then raise T s else s.

Definition react_mesh (T : table) (m : nat) (k : mop) (s : simS) : simS :=
  if t_mesh_notify T k && existsb (Nat.eqb m) (subs (rg s)) then
    let s1 := if t_upd_mesh_clear T then clear_simcache s else s in
    if t_upd_mesh_need T then raise T s1 else s1
  else s.

(* effects of an assembly on the caches *)
Definition fill_mesh (m : meshS) : meshS := mkMesh (pose m) (shape m) (Some (geo_used m)).
Definition add_if_missing {V} (k : ckey) (v : V) (l : list (ckey * V)) :=
  match lookup k l with Some _ => l | None => (k, v) :: l end.
Definition fill_sim (T : table) (ms : list meshS) (s : simS) : simS :=
  set_ca s (mkCache (need (ca s)) (kcmf (ca s))
     (add_if_missing (csrkey T (cf s)) (cur (cf s), ldim (cf s)) (csr (ca s)))
     (match kd s with
      | KNonLin => add_if_missing (masskey T (cf s)) (shape (mget ms (cur (cf s)))) (massc (ca s))
      | _ => massc (ca s) end)).

(* Get_K_C_M_F of a single-problem simulation *)
Definition getk_sim (T : table) (p : N) (mc : option N) (ms : list meshS) (solv : N) (s : simS) : simS :=
  if need (ca s) then
    let s1 := fill_sim T ms s in
    set_ca s1 (mkCache (if t_getk_reset T then false else true) (Some (asm_key T p mc ms s solv))
                       (csr (ca s1)) (massc (ca s1)))
  else s.
Definition getkU (T : table) (p : N) (mc : option N) (ms : list meshS) (s : simS) : simS :=
  if updU (pf s) then s else
    let s1 := fill_sim T ms s in
    set_pf s1 (mkPf (updD (pf s)) true (kD (pf s)) (Some (asm_key T p mc ms s (solD (cf s))))).
Definition getkD (T : table) (p : N) (mc : option N) (ms : list meshS) (s : simS) : simS :=
  if updD (pf s) then s else
    let s1 := fill_sim T ms s in
    set_pf s1 (mkPf true (updU (pf s)) (Some (asm_key T p mc ms s (solU (cf s)))) (kU (pf s))).

Definition set_solU (v : N) (s : simS) :=
  set_cf s (mkCfg (cur (cf s)) (rho (cf s)) (ray (cf s)) (nlag (cf s)) (ndir (cf s)) (algo (cf s)) v (solD (cf s))).
Definition set_solD (v : N) (s : simS) :=
  set_cf s (mkCfg (cur (cf s)) (rho (cf s)) (ray (cf s)) (nlag (cf s)) (ndir (cf s)) (algo (cf s)) (solU (cf s)) v).
Definition set_flags (d u : bool) (s : simS) := set_pf s (mkPf d u (kD (pf s)) (kU (pf s))).

(* one Solve.  [v1 v2] are two fresh versions. *)
Definition solve_sim0 (T : table) (p : N) (mc : option N) (ms : list meshS) (v1 v2 : N) (s : simS) : simS :=
  match kd s with
  | KLin => set_solU v1 (getk_sim T p mc ms 0 s)
  | KNonLin => let s1 := if t_newton_need T then raise T s else s in
               set_solU v1 (getk_sim T p mc ms (solU (cf s)) s1)
  | KPF =>
      let s1 := set_solD v1 (getkD T p mc ms s) in
      let s2 := if t_pf_dmg_inval_u T then set_flags (updD (pf s1)) false s1 else s1 in
      let s3 := set_solU v2 (getkU T p mc ms s2) in
      if t_pf_el_inval_d T then set_flags false (updU (pf s3)) s3 else s3
  end.

Definition solve_sim (T : table) (p : N) (mc : option N) (ms : list meshS) (v1 v2 : N) (s : simS) : simS :=
  let s' := solve_sim0 T p mc ms v1 v2 s in set_st s' (cur (cf s')).

Definition set_cur (m : nat) (s : simS) :=
  set_cf s (mkCfg m (rho (cf s)) (ray (cf s)) (nlag (cf s)) (ndir (cf s)) (algo (cf s)) (solU (cf s)) (solD (cf s))).
Definition set_bc (l d : N) (s : simS) :=
  set_cf s (mkCfg (cur (cf s)) (rho (cf s)) (ray (cf s)) l d (algo (cf s)) (solU (cf s)) (solD (cf s))).

Definition setiter_sim (T : table) (j : nat) (v1 v2 : N) (s : simS) : simS :=
  match nth_error (iters (rg s)) j with
  | None => s
  | Some m =>
      (* the restored fields are those of the entry, i.e. of mesh m *)
      let s0 := set_st (set_solD v2 (set_solU v1 s)) m in
      let s1 := if Nat.eqb m (cur (cf s)) then s0 else
                  let a := set_cur m s0 in
                  let b := if t_updmesh_clear T then clear_simcache a else a in
                  if t_updmesh_need T then raise T b else b in
      match kd s with
      | KPF => set_flags (if t_pf_setiter_d T then false else updD (pf s1))
                         (if t_pf_setiter_u T then false else updU (pf s1)) s1
      | _ => s1
      end
  end.

Definition setmesh_sim (T : table) (m : nat) (v1 v2 : N) (s : simS) : simS :=
  (* __Init_Sols_n(): the solution vectors now belong to the new mesh (only if the call is unconditional) *)
  let s0 := if t_meshset_initsols T then set_st (set_solD v2 (set_solU v1 s)) m else s in
  let a := set_cur m s0 in
  let kept := if t_meshset_keeps_old T then subs (rg a) else remove Nat.eq_dec (cur (cf s)) (subs (rg a)) in
  let a := set_rg a (mkReg (if t_meshset_sub T then m :: kept else kept)
                           (hist (rg a) ++ [m]) (subm (rg a)) (submat (rg a)) (iters (rg a))) in
  let b := if t_meshset_clear T then clear_simcache a else a in
  let c := if t_meshset_need T then raise T b else b in
  (* Bc_Init() *)
  let lag := negb (N.eqb (nlag (cf c)) 0) in
  apply_mode T (t_bcinit T) lag (set_bc 0 0 c).

Definition new_sim (T : table) (k : kind) (m : nat) (v : N) : simS :=
  mkSim k (mkCfg m v 0 0 0 0 v v) (mkCache true None [] []) (mkPf false false None None)
        (mkReg ((if t_meshset_sub T then [m] else []) ++ (if t_init_sub_mesh T then [m] else []))
               [m] (t_init_sub_model T) (t_pf_sub_material T) []) m.

Inductive op :=
| OParam (sub : bool)
| OParamArr (sub same : bool)   (* array-valued assignment; same = the assigned object IS the stored one (edited in place) *)
| OMeshMove (m : nat) (k : mop)
| ONewMesh
| OGeoRead (m : nat)
| ONewSim (k : kind) (m : nat)
| ORho (i : nat) | ORay (i : nat)
| ORhoAug (i j : nat)   (* `sims[i].rho *= c` while simulation j was given the SAME array object *)
| OSetMesh (i m : nat)
| OBcInit (i : nat) | ODirichlet (i : nat) (n : N) | ONeumann (i : nat) | OLagrange (i : nat)
| OAlgo (i : nat) (a : N)
| OGetK (i : nat) (dmg : bool)
| OSolve (i : nat)
| OSaveIter (i : nat) | OSetIter (i j : nat).

Definition tick (w : world) := (clock w + 1)%N.
Definition tick2 (w : world) := (clock w + 2)%N.

Definition on_sim (w : world) (i : nat) (f : simS -> simS) : world :=
  mkW (tick2 w) (par w) (mcache w) (meshes w) (upd_nth i f (sims w)).

Definition cur_of (w : world) (i : nat) : option nat :=
  match nth_error (sims w) i with Some s => Some (cur (cf s)) | None => None end.

Definition step (T : table) (w : world) (o : op) : world :=
  match o with
  | OParam sub => mkW (tick w) (tick w) (mcache w) (meshes w) (map (react_model T sub) (sims w))
  | OParamArr sub same =>
      (* identity vs contents: the contents changed in both cases *)
      mkW (tick w) (tick w) (mcache w) (meshes w)
          (if same && negb (t_param_set_unconditional T) then sims w else map (react_model T sub) (sims w))
  | OMeshMove m k =>
      mkW (tick w) (par w) (mcache w)
          (upd_nth m (fun x => mkMesh (tick w)
                                  (match k with MCoordSet => tick w | _ => shape x end)
                                  (if t_mesh_clear T k then None else gtag x)) (meshes w))
          (if Nat.ltb m (length (meshes w)) then map (react_mesh T m k) (sims w) else sims w)
  | ONewMesh => mkW (tick w) (par w) (mcache w) (meshes w ++ [mkMesh (tick w) (tick w) None]) (sims w)
  | OGeoRead m => mkW (clock w) (par w) (mcache w) (upd_nth m fill_mesh (meshes w)) (sims w)
  | ONewSim k m =>
      if Nat.ltb m (length (meshes w)) then
        mkW (tick w) (par w) (mcache w) (meshes w) (sims w ++ [new_sim T k m (tick w)])
      else w
  | ORho i => on_sim w i (fun s =>
        let s1 := set_cf s (mkCfg (cur (cf s)) (tick w) (ray (cf s)) (nlag (cf s)) (ndir (cf s)) (algo (cf s)) (solU (cf s)) (solD (cf s))) in
        if t_rho_need T then raise T s1 else s1)
  | ORhoAug i j =>
      let w1 := on_sim w i (fun s =>
        let s1 := set_cf s (mkCfg (cur (cf s)) (tick w) (ray (cf s)) (nlag (cf s)) (ndir (cf s)) (algo (cf s)) (solU (cf s)) (solD (cf s))) in
        if t_rho_need T then raise T s1 else s1) in
      if t_param_get_copies T then w1
      else (* the in-place multiply reached the array simulation j holds: its contents changed, nobody told it *)
        mkW (clock w1) (par w1) (mcache w1) (meshes w1)
            (upd_nth j (fun s => set_cf s (mkCfg (cur (cf s)) (tick2 w) (ray (cf s)) (nlag (cf s)) (ndir (cf s)) (algo (cf s)) (solU (cf s)) (solD (cf s)))) (sims w1))
  | ORay i => on_sim w i (fun s =>
        let s1 := set_cf s (mkCfg (cur (cf s)) (rho (cf s)) (tick w) (nlag (cf s)) (ndir (cf s)) (algo (cf s)) (solU (cf s)) (solD (cf s))) in
        if t_ray_need T then raise T s1 else s1)
  | OSetMesh i m =>
      if Nat.ltb m (length (meshes w)) then on_sim w i (setmesh_sim T m (tick w) (tick2 w)) else w
  | OBcInit i => on_sim w i (fun s =>
        apply_mode T (t_bcinit T) (negb (N.eqb (nlag (cf s)) 0)) (set_bc 0 0 s))
  | ODirichlet i n => on_sim w i (fun s =>
        apply_mode T (t_dirichlet T) (negb (N.eqb (nlag (cf s)) 0)) (set_bc (nlag (cf s)) (ndir (cf s) + n) s))
  | ONeumann i => on_sim w i (fun s => apply_mode T (t_neumann T) (negb (N.eqb (nlag (cf s)) 0)) s)
  | OLagrange i => on_sim w i (fun s =>
        apply_mode T (t_lagrange T) true (set_bc (nlag (cf s) + 1) (ndir (cf s)) s))
  | OAlgo i a => on_sim w i (fun s =>
        set_cf s (mkCfg (cur (cf s)) (rho (cf s)) (ray (cf s)) (nlag (cf s)) (ndir (cf s)) a (solU (cf s)) (solD (cf s))))
  | OGetK i dmg =>
      match nth_error (sims w) i with
      | None => w
      | Some s0 =>
          match kd s0 with
          | KNonLin => w   (* Get_K_C_M_F is not a public observable of a Newton simulation outside Solve *)
          | KLin => mkW (clock w) (par w) (if need (ca s0) then Some (par w) else mcache w)
                        (if need (ca s0) then upd_nth (cur (cf s0)) fill_mesh (meshes w) else meshes w)
                        (upd_nth i (getk_sim T (par w) (mcache w) (meshes w) 0) (sims w))
          | KPF => mkW (clock w) (par w)
                       (if (if dmg then updD (pf s0) else updU (pf s0)) then mcache w else Some (par w))
                       (if (if dmg then updD (pf s0) else updU (pf s0)) then meshes w
                        else upd_nth (cur (cf s0)) fill_mesh (meshes w))
                       (upd_nth i (if dmg then getkD T (par w) (mcache w) (meshes w) else getkU T (par w) (mcache w) (meshes w)) (sims w))
          end
      end
  | OSolve i =>
      match nth_error (sims w) i with
      | None => w
      | Some s0 => mkW (tick2 w) (par w)
                       (match kd s0 with KLin => if need (ca s0) then Some (par w) else mcache w | _ => Some (par w) end)
                       (upd_nth (cur (cf s0)) fill_mesh (meshes w))
                       (upd_nth i (solve_sim T (par w) (mcache w) (meshes w) (tick w) (tick2 w)) (sims w))
      end
  | OSaveIter i => on_sim w i (fun s =>
        set_rg s (mkReg (subs (rg s)) (hist (rg s)) (subm (rg s)) (submat (rg s)) (iters (rg s) ++ [cur (cf s)])))
  | OSetIter i j => on_sim w i (setiter_sim T j (tick w) (tick2 w))
  end.

Definition w0 : world := mkW 1 1 None [mkMesh 1 1 None] [].
Definition run (T : table) (ops : list op) (w : world) : world := fold_left (step T) ops w.

(* ---- decidable comparison of observations, flag identifiers, witnesses ------------------- *)
Definition key_eqb (a b : key) : bool :=
  Nat.eqb (k_mesh a) (k_mesh b) && N.eqb (k_geo a) (k_geo b) && N.eqb (k_par a) (k_par b) &&
  N.eqb (k_rho a) (k_rho b) && N.eqb (k_ray a) (k_ray b) && N.eqb (k_ldim a) (k_ldim b) &&
  N.eqb (k_mshape a) (k_mshape b) && ckey_eqb (k_csr a) (k_csr b) && N.eqb (k_sol a) (k_sol b) &&
  N.eqb (k_derived a) (k_derived b) && Nat.eqb (k_solmesh a) (k_solmesh b).
Definition okey_eqb (a b : option key) : bool :=
  match a, b with Some x, Some y => key_eqb x y | None, None => true | _, _ => false end.
Fixpoint obs_eqb (a b : list (option key)) : bool :=
  match a, b with
  | [], [] => true
  | x :: r, y :: q => okey_eqb x y && obs_eqb r q
  | _, _ => false
  end.

(* does some simulation of the world NOT behave like a fresh one? *)
Definition stale_sims (T : table) (w : world) : list nat :=
  map fst (filter (fun x => negb (obs_eqb (observe T (par w) (mcache w) (meshes w) (snd x)) (ideal_obs (par w) (meshes w) (snd x))))
                  (combine (seq 0 (length (sims w))) (sims w))).
Definition refutes (T : table) (ops : list op) : bool :=
  match stale_sims T (run T ops w0) with [] => false | _ => true end.

(* flag identifiers: the conjuncts of table_ok, in order *)
Definition mop_idx (k : mop) : nat := match k with MTranslate => 0 | MRotate => 1 | MSymmetry => 2 | MCoordSet => 3 end.
Definition flag_of (T : table) (id : nat) : bool :=
  match id with
  | 1 => t_param_need T | 2 => t_model_notify T | 3 => t_upd_model_need T | 4 => t_upd_mesh_need T
  | 5 => t_upd_mesh_clear T | 6 => t_init_sub_model T | 7 => t_pf_sub_material T | 8 => t_rho_need T
  | 9 => t_ray_need T
  | 10 => t_mesh_clear T MTranslate | 11 => t_mesh_clear T MRotate | 12 => t_mesh_clear T MSymmetry | 13 => t_mesh_clear T MCoordSet
  | 14 => t_mesh_notify T MTranslate | 15 => t_mesh_notify T MRotate | 16 => t_mesh_notify T MSymmetry | 17 => t_mesh_notify T MCoordSet
  | 18 => t_meshset_need T | 19 => t_meshset_sub T | 20 => t_updmesh_need T
  | 21 => not_never (t_bcinit T) | 22 => not_never (t_dirichlet T) | 23 => not_never (t_lagrange T)
  | 24 => t_newton_need T | 25 => t_pf_need_d T | 26 => t_pf_need_u T | 27 => t_pf_setiter_d T
  | 28 => t_pf_setiter_u T | 29 => t_pf_dmg_inval_u T | 30 => t_pf_el_inval_d T
  | 31 => t_csr_key_groups T | 32 => t_csr_key_ndof T | 33 => t_mass_key_group T
  | 34 => t_model_cache_refresh T | 35 => t_meshset_initsols T | 36 => t_param_set_unconditional T
  | 37 => t_meshset_keeps_old T | 38 => t_param_get_copies T
  | _ => true
  end.
Definition all_ids : list nat := seq 1 38.
Definition failing (T : table) : list nat := filter (fun id => negb (flag_of T id)) all_ids.

(* the table with the flags listed in [off] switched off (everything else as the property needs) *)
Definition mk_table (off : list nat) : table :=
  let on id := negb (existsb (Nat.eqb id) off) in
  mkTable (on 1) (on 2) (on 3) (on 4) (on 5) (on 6) true (on 7) (on 8) (on 9)
          (fun k => on (10 + mop_idx k)) (fun k => on (14 + mop_idx k))
          (on 18) (on 40) (on 19) (on 37) (on 35) (on 20) (on 41)
          (if on 21 then NIfLag else NNever) (if on 22 then NIfLag else NNever) NNever
          (if on 23 then NAlways else NNever) true (on 24) (on 25) (on 26) (on 27) (on 28) (on 29) (on 30)
          (on 31) (on 32) (on 33) (on 38) (on 36) (on 34).
Definition good_table : table := mk_table [].

(* a model-level witness (op list) for every flag: run with that flag off, some simulation is stale *)
Definition witness (id : nat) : list op :=
  let lin := ONewSim KLin 0 in let nl := ONewSim KNonLin 0 in let pfs := ONewSim KPF 0 in
  match id with
  | 1 | 2 | 3 | 6 => [lin; OGetK 0 false; OParam false]
  | 7 => [pfs; OGetK 0 false; OGetK 0 true; OParam true]
  | 4 => [lin; OGetK 0 false; OMeshMove 0 MRotate]
  | 5 => [nl; OSolve 0; OMeshMove 0 MCoordSet]
  | 8 => [lin; OGetK 0 false; ORho 0]
  | 9 => [lin; OGetK 0 false; ORay 0]
  | 10 | 14 => [lin; OGetK 0 false; OMeshMove 0 MTranslate]
  | 11 | 15 => [lin; OGetK 0 false; OMeshMove 0 MRotate]
  | 12 | 16 => [lin; OGetK 0 false; OMeshMove 0 MSymmetry]
  | 13 | 17 => [lin; OGetK 0 false; OMeshMove 0 MCoordSet]
  | 18 => [lin; ONewMesh; OGetK 0 false; OSetMesh 0 1]
  | 19 => [lin; ONewMesh; OSetMesh 0 1; OGetK 0 false; OMeshMove 1 MRotate]
  | 20 => [lin; OSaveIter 0; ONewMesh; OSetMesh 0 1; OGetK 0 false; OSetIter 0 0]
  | 21 => [lin; OLagrange 0; OGetK 0 false; OBcInit 0]
  | 22 => [lin; OLagrange 0; OGetK 0 false; ODirichlet 0 1]
  | 23 => [lin; OGetK 0 false; OLagrange 0]
  | 24 => [nl; OSolve 0]
  | 25 | 26 => [pfs; OGetK 0 true; OGetK 0 false; OParam false]
  | 27 | 28 => [pfs; OSaveIter 0; OGetK 0 true; OGetK 0 false; OSetIter 0 0]
  | 29 => [pfs; OGetK 0 false; OSolve 0]
  | 30 => [pfs; OSolve 0]
  | 31 => [lin; ONewMesh; OGetK 0 false; OSetMesh 0 1]
  | 32 => [lin; OGetK 0 false; OLagrange 0]
  | 33 => [nl; ONewMesh; OSolve 0; OMeshMove 1 MCoordSet; OSetMesh 0 1]
  | 34 => [pfs; OGetK 0 false; OParam true]
  | 35 => [lin; OSolve 0; ONewMesh; OSetMesh 0 1]
  | 36 => [lin; OGetK 0 false; OParamArr false true]
  | 38 => [lin; lin; ORho 0; ORho 1; OGetK 0 false; OGetK 1 false; ORhoAug 0 1]
  | 37 => [lin; OSaveIter 0; ONewMesh; OSetMesh 0 1; OSetIter 0 0; OGetK 0 false; OMeshMove 0 MRotate]
  | _ => []
  end.

(* per-step trace used by the correspondence harness: flags of every simulation and the list of
   stale simulations after each op *)
Definition sim_flags (s : simS) : list bool :=
  match kd s with KPF => [updD (pf s); updU (pf s)] | _ => [need (ca s)] end.
Fixpoint trace (T : table) (ops : list op) (w : world) : list (list (list bool) * list nat) :=
  match ops with
  | [] => []
  | o :: r => let w' := step T w o in (map sim_flags (sims w'), stale_sims T w') :: trace T r w'
  end.

(* ==================================================================================== *)
(* Invariant                                                                             *)
(* ==================================================================================== *)
Definition MeshInv (m : meshS) : Prop := gtag m = None \/ gtag m = Some (pose m).

Record SimInv (p : N) (ms : list meshS) (s : simS) : Prop := mkSimInv {
  i_sub : In (cur (cf s)) (subs (rg s));
  i_bnd : Forall (fun m => m < length ms) (subs (rg s));
  i_subm : subm (rg s) = true;
  i_submat : kd s = KPF -> submat (rg s) = true;
  i_kcmf : kd s = KLin -> need (ca s) = false -> kcmf (ca s) = Some (ideal p ms s 0%N);
  i_csr : Forall (fun e => snd e = fst e) (csr (ca s));
  i_mass : Forall (fun e => In (fst (fst e)) (subs (rg s)) /\ snd e = shape (mget ms (fst (fst e)))) (massc (ca s));
  i_pfU : kd s = KPF -> updU (pf s) = true -> kU (pf s) = Some (ideal p ms s (solD (cf s)));
  i_pfD : kd s = KPF -> updD (pf s) = true -> kD (pf s) = Some (ideal p ms s (solU (cf s)));
  i_iters : Forall (fun m => In m (subs (rg s))) (iters (rg s));
  i_st : st s = cur (cf s)
}.

Definition WInv (w : world) : Prop :=
  Forall MeshInv (meshes w) /\ Forall (SimInv (par w) (meshes w)) (sims w).
