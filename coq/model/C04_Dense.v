(* C04 -- the dense bordered matrix built by the executable model (C04_Exec.r2_M / r2_rhs, compared exactly
   with the matrix the real __Solver_2 hands to the backend) denotes the row equations `bordered_solution`
   of C04_Solve: any vector y with M y = rhs yields a bordered solution (x, lam, mu) = (y[:n], y[n:n+nD], y[n+nD:]). *)
From Coq Require Import ZArith List Bool Lia Ring.
From EFModel Require Import C03_Csr C04_Solve C04_Exec.
Import ListNotations.
Open Scope Z_scope.

Notation zsum_over := (sum_over Z 0 Z.add).

Lemma zsum_over_app l1 l2 f : zsum_over (l1 ++ l2) f = zsum_over l1 f + zsum_over l2 f.
Proof. unfold sum_over. rewrite map_app. induction (map f l1); simpl; [reflexivity|]. rewrite IHl. ring. Qed.

Lemma zsum_over_cons a l f : zsum_over (a :: l) f = f a + zsum_over l f.
Proof. reflexivity. Qed.

Lemma zsum_over_map (g : Z -> Z) l f : zsum_over (map g l) f = zsum_over l (fun k => f (g k)).
Proof. unfold sum_over. now rewrite map_map. Qed.

Lemma map_of_nat_seq y : forall x, map Z.of_nat (seq x y) = map (fun k => Z.of_nat x + k) (map Z.of_nat (seq 0 y)).
Proof.
  induction y as [|y IH]; intros x; simpl; [reflexivity|]. f_equal; [lia|].
  rewrite (IH (S x)), (IH 1%nat), !map_map. apply map_ext. intros a. lia.
Qed.

Lemma zrange_app a b : 0 <= a -> 0 <= b -> zrange (a + b) = zrange a ++ map (Z.add a) (zrange b).
Proof.
  intros Ha Hb. unfold zrange. rewrite Z2Nat.inj_add by assumption. rewrite seq_app, map_app. f_equal.
  simpl. rewrite map_of_nat_seq. apply map_ext. intros k. lia.
Qed.

Lemma zrange_succ m : zrange (Z.of_nat (S m)) = 0 :: map Z.succ (zrange (Z.of_nat m)).
Proof.
  unfold zrange. rewrite !Nat2Z.id. simpl. apply (f_equal (cons 0)).
  rewrite (map_of_nat_seq m 1), !map_map. apply map_ext. intros a. lia.
Qed.

Lemma zrange_nonneg n k : In k (zrange n) -> 0 <= k.
Proof. intros H. apply in_zrange in H. lia. Qed.

(* border columns of the Dirichlet lines = alpha * entered_sum of the multipliers *)
Lemma dir_border_sum alpha i ud : forall (h : Z -> Z),
  zsum_over (zrange (Z.of_nat (length ud))) (fun k => (if nth (Z.to_nat k) ud (-1) =? i then alpha else 0) * h k)
  = alpha * esum ud (map h (zrange (Z.of_nat (length ud)))) i.
Proof.
  induction ud as [|d t IH]; intros h.
  - simpl. unfold sum_over, esum, entered_sum. simpl. ring.
  - cbn [length]. rewrite zrange_succ, zsum_over_cons, zsum_over_map.
    rewrite (sum_over_ext Z 0 Z.add _ _ (fun k => (if nth (Z.to_nat k) t (-1) =? i then alpha else 0) * h (Z.succ k))).
    2:{ intros k Hk. apply zrange_nonneg in Hk. replace (Z.to_nat (Z.succ k)) with (S (Z.to_nat k)) by lia. reflexivity. }
    rewrite (IH (fun k => h (Z.succ k))). unfold esum, entered_sum. cbn [combine map fold_right fst snd].
    rewrite map_map. cbn [Z.to_nat nth]. unfold rsum. cbn [fold_right]. destruct (d =? i); ring.
Qed.

Definition to_lagc (c : list Z * list Z * Z) : lagc Z :=
  {| l_dofs := lag_dofs c; l_coefs := lag_coefs c; l_value := lag_val c |}.

Lemma lag_border_sum alpha i lags : forall (h : Z -> Z),
  zsum_over (zrange (Z.of_nat (length lags)))
    (fun l => alpha * esum (lag_dofs (nth (Z.to_nat l) lags ([], [], 0))) (lag_coefs (nth (Z.to_nat l) lags ([], [], 0))) i * h l)
  = alpha * rsum Z 0 Z.add (map (fun cm => coef_of Z 0 Z.add (fst cm) i * snd cm)
                                (combine (map to_lagc lags) (map h (zrange (Z.of_nat (length lags)))))).
Proof.
  induction lags as [|c t IH]; intros h.
  - simpl. unfold sum_over. simpl. ring.
  - cbn [length]. rewrite zrange_succ, zsum_over_cons, zsum_over_map.
    rewrite (sum_over_ext Z 0 Z.add _ _ (fun l => alpha * esum (lag_dofs (nth (Z.to_nat l) t ([], [], 0))) (lag_coefs (nth (Z.to_nat l) t ([], [], 0))) i * h (Z.succ l))).
    2:{ intros k Hk. apply zrange_nonneg in Hk. replace (Z.to_nat (Z.succ k)) with (S (Z.to_nat k)) by lia. reflexivity. }
    rewrite (IH (fun k => h (Z.succ k))). cbn [combine map fold_right fst snd rsum].
    rewrite map_map. cbn [Z.to_nat nth]. unfold coef_of, to_lagc. cbn [l_dofs l_coefs]. unfold esum, rsum.
    cbn [fold_right]. ring.
Qed.

Section Dense.
Variables n alpha : Z.
Variable Af : Z -> Z -> Z.
Variables bf vD : Z -> Z.
Variable ud : list Z.
Variable lags : list (list Z * list Z * Z).
Hypothesis Hn : 0 <= n.
Hypothesis Hud : forall d, In d ud -> 0 <= d < n.
Hypothesis Hlag : forall c d, In c lags -> In d (lag_dofs c) -> 0 <= d < n.

Let nD := Z.of_nat (length ud).
Let nL := Z.of_nat (length lags).
Let N := n + nD + nL.
Variable y : Z -> Z.

Definition dense_solution : Prop :=
  forall i, 0 <= i < N ->
    zsum_over (zrange N) (fun j => r2_M n alpha Af ud lags i j * y j) = r2_rhs n alpha bf vD ud lags i.

Let lam := map (fun k => y (n + k)) (zrange nD).
Let mu := map (fun l => y (n + nD + l)) (zrange nL).

Lemma N_split : zrange N = zrange n ++ map (Z.add n) (zrange nD) ++ map (Z.add (n + nD)) (zrange nL).
Proof.
  unfold N. rewrite <- Z.add_assoc, zrange_app by (unfold nD, nL; lia).
  f_equal. rewrite zrange_app by (unfold nD, nL; lia). rewrite map_app, map_map. f_equal.
  apply map_ext. intros a. lia.
Qed.

Lemma row_top i : 0 <= i < n ->
  zsum_over (zrange N) (fun j => r2_M n alpha Af ud lags i j * y j)
  = zsum_over (zrange n) (fun j => Af i j * y j)
    + alpha * esum ud lam i
    + alpha * rsum Z 0 Z.add (map (fun cm => coef_of Z 0 Z.add (fst cm) i * snd cm) (combine (map to_lagc lags) mu)).
Proof.
  intros Hi. rewrite N_split, !zsum_over_app, !zsum_over_map, <- Z.add_assoc. f_equal; [|f_equal].
  - apply sum_over_ext. intros j Hj. apply in_zrange in Hj. unfold r2_M.
    replace (i <? n) with true by lia. replace (j <? n) with true by lia. reflexivity.
  - unfold lam, nD. rewrite <- dir_border_sum. apply sum_over_ext. intros k Hk. apply in_zrange in Hk.
    unfold r2_M, r2_border. replace (i <? n) with true by lia. replace (n + k <? n) with false by lia. simpl.
    fold nD. replace (n + k <? n + nD) with true by (unfold nD; lia). replace (n + k - n) with k by lia. reflexivity.
  - unfold mu, nL. rewrite <- lag_border_sum. apply sum_over_ext. intros l Hl. apply in_zrange in Hl.
    unfold r2_M, r2_border. replace (i <? n) with true by lia. replace (n + nD + l <? n) with false by (unfold nD; lia). simpl.
    fold nD. replace (n + nD + l <? n + nD) with false by lia. replace (n + nD + l - n - nD) with l by lia. reflexivity.
Qed.

Lemma row_low i (g : Z -> Z) : n <= i < N ->
  (forall j, 0 <= j < n -> r2_M n alpha Af ud lags i j = g j) ->
  zsum_over (zrange N) (fun j => r2_M n alpha Af ud lags i j * y j) = zsum_over (zrange n) (fun j => g j * y j).
Proof.
  intros Hi Hg. rewrite N_split, !zsum_over_app, !zsum_over_map.
  rewrite (sum_over_zero Z 0 1 Z.add Z.mul Z.sub Z.opp Zth (zrange nD)).
  2:{ intros k Hk. apply in_zrange in Hk. unfold r2_M. replace (i <? n) with false by lia.
      replace (n + k <? n) with false by lia. simpl. ring. }
  rewrite (sum_over_zero Z 0 1 Z.add Z.mul Z.sub Z.opp Zth (zrange nL)).
  2:{ intros k Hk. apply in_zrange in Hk. unfold r2_M. replace (i <? n) with false by lia.
      replace (n + nD + k <? n) with false by (unfold nD; lia). simpl. ring. }
  rewrite !Z.add_0_r. apply sum_over_ext. intros j Hj. apply in_zrange in Hj. now rewrite Hg.
Qed.

(* the dense system of the executable model denotes the bordered row equations *)
Theorem dense_solution_is_bordered_solution :
  dense_solution ->
  bordered_solution Z 0 Z.add Z.mul n alpha Af bf ud (map vD ud) (map to_lagc lags) y lam mu.
Proof.
  intros Hd. unfold bordered_solution. split; [|split; [|split; [|split]]].
  - unfold lam, nD. now rewrite map_length, zrange_length, Nat2Z.id.
  - unfold mu, nL. now rewrite !map_length, zrange_length, Nat2Z.id.
  - intros i Hi. assert (HiN : 0 <= i < N) by (unfold N, nD, nL; lia).
    specialize (Hd i HiN). rewrite row_top in Hd by assumption.
    transitivity (r2_rhs n alpha bf vD ud lags i); [exact Hd|]. unfold r2_rhs.
    now replace (i <? n) with true by lia.
  - intros d v Hin. destruct (In_nth _ _ (0, 0) Hin) as (k & Hk & E).
    rewrite combine_length, map_length, Nat.min_id in Hk.
    rewrite combine_nth in E by (now rewrite map_length). inversion E as [[E1 E2]]. clear E.
    rewrite (nth_indep _ 0 (vD 0)) in E2 by (now rewrite map_length). rewrite map_nth in E2. subst d v.
    set (kz := Z.of_nat k). assert (Hkz : 0 <= kz < nD) by (unfold kz, nD; lia).
    assert (HiN : 0 <= n + kz < N) by (unfold N, nL; lia).
    assert (Hdk : nth (Z.to_nat kz) ud (-1) = nth k ud 0).
    { unfold kz. rewrite Nat2Z.id. apply nth_indep. assumption. }
    specialize (Hd _ HiN).
    rewrite (row_low (n + kz) (fun j => if j =? nth k ud 0 then alpha else 0)) in Hd; [|lia|].
    2:{ intros j Hj. unfold r2_M, r2_border. replace (n + kz <? n) with false by lia. replace (j <? n) with true by lia.
        simpl. fold nD. replace (n + kz <? n + nD) with true by lia. replace (n + kz - n) with kz by lia.
        rewrite Hdk. rewrite Z.eqb_sym. reflexivity. }
    rewrite (sum_over_ext Z 0 Z.add _ _ (fun j => if j =? nth k ud 0 then alpha * y j else 0)) in Hd
      by (intros j _; destruct (j =? nth k ud 0); ring).
    rewrite (sum_over_single Z 0 1 Z.add Z.mul Z.sub Z.opp Zth (zrange n) (nth k ud 0) (fun j => alpha * y j)) in Hd.
    2:{ apply ssorted_zrange_from. }
    2:{ apply in_zrange, Hud, nth_In. assumption. }
    rewrite Hd. unfold r2_rhs. fold nD. replace (n + kz <? n) with false by lia.
    replace (n + kz <? n + nD) with true by lia. replace (n + kz - n) with kz by lia. rewrite Hdk. f_equal.
    transitivity (nth k (map vD ud) (vD 0)); [symmetry; apply map_nth|apply nth_indep; rewrite map_length; assumption].
  - intros c Hc. apply in_map_iff in Hc. destruct Hc as (c0 & <- & Hc0).
    destruct (In_nth _ _ ([], [], 0) Hc0) as (l & Hl & E).
    set (lz := Z.of_nat l). assert (Hlz : 0 <= lz < nL) by (unfold lz, nL; lia).
    assert (HiN : 0 <= n + nD + lz < N) by (unfold N, nD; lia).
    assert (Hnl : nth (Z.to_nat lz) lags ([], [], 0) = c0) by (unfold lz; now rewrite Nat2Z.id).
    specialize (Hd _ HiN).
    rewrite (row_low (n + nD + lz) (fun j => alpha * esum (lag_dofs c0) (lag_coefs c0) j)) in Hd; [|unfold nD; lia|].
    2:{ intros j Hj. unfold r2_M, r2_border. replace (n + nD + lz <? n) with false by (unfold nD; lia).
        replace (j <? n) with true by lia. simpl. fold nD. replace (n + nD + lz <? n + nD) with false by lia.
        replace (n + nD + lz - n - nD) with lz by lia. now rewrite Hnl. }
    rewrite (sum_over_ext Z 0 Z.add _ _ (fun j => alpha * (y j * esum (lag_dofs c0) (lag_coefs c0) j))) in Hd
      by (intros; ring).
    rewrite (sum_over_scal Z 0 1 Z.add Z.mul Z.sub Z.opp Zth) in Hd.
    unfold esum in Hd.
    rewrite (sum_entered_sum Z 0 1 Z.add Z.mul Z.sub Z.opp Zth n (lag_dofs c0) (lag_coefs c0) y) in Hd
      by (intros d Hdd; now apply (Hlag c0)).
    unfold lag_lhs, to_lagc. cbn [l_dofs l_coefs l_value]. rewrite Hd. unfold r2_rhs. fold nD.
    replace (n + nD + lz <? n) with false by (unfold nD; lia). replace (n + nD + lz <? n + nD) with false by lia.
    replace (n + nD + lz - n - nD) with lz by lia. now rewrite Hnl.
Qed.
End Dense.

(* entries of the executable (list) matrix / right-hand side are the functions r2_M / r2_rhs *)
Lemma nth_map_zrange {B} (f : Z -> B) N i d : 0 <= i < N -> nth (Z.to_nat i) (map f (zrange N)) d = f i.
Proof.
  intros Hi. rewrite nth_indep with (d' := f 0) by (rewrite map_length, zrange_length; lia).
  rewrite map_nth. now rewrite nth_zrange.
Qed.

Section ExecTie.
Variables (n : Z) (A : list (list Z)) (F dofsN valsN dofsD valsD orph : list Z).
Variable lags : list (list Z * list Z * Z).
Let ud := usort dofsD.
Let N := n + Z.of_nat (length ud) + Z.of_nat (length lags).
Let out := r2_exec n A F dofsN valsN dofsD valsD orph lags.
Let alpha := snd out.

Lemma r2_exec_entry i j : 0 <= i < N -> 0 <= j < N ->
  getM (fst (fst out)) i j = r2_M n alpha (sysA A orph) ud lags i j.
Proof.
  intros Hi Hj. unfold out, r2_exec, getM. cbn [fst snd]. fold ud. fold N.
  rewrite (nth_map_zrange _ N i) by assumption. now rewrite (nth_map_zrange _ N j) by assumption.
Qed.

Lemma r2_exec_rhs i : 0 <= i < N ->
  getV (snd (fst out)) i = r2_rhs n alpha (sysb F dofsN valsN) (esum dofsD valsD) ud lags i.
Proof.
  intros Hi. unfold out, r2_exec, getV. cbn [fst snd]. fold ud. fold N.
  now rewrite (nth_map_zrange _ N i) by assumption.
Qed.

(* ANY vector y that solves the executable dense system (the one compared entry by entry with the matrix the real
   __Solver_2 hands to the backend) is a solution of the bordered row equations, so C04_lagrange_equiv applies *)
Theorem r2_exec_solution_is_bordered_solution (y : Z -> Z) :
  0 <= n -> (forall d, In d dofsD -> 0 <= d < n) ->
  (forall c d, In c lags -> In d (lag_dofs c) -> 0 <= d < n) ->
  (forall i, 0 <= i < N ->
     zsum_over (zrange N) (fun j => getM (fst (fst out)) i j * y j) = getV (snd (fst out)) i) ->
  bordered_solution Z 0 Z.add Z.mul n alpha (sysA A orph) (sysb F dofsN valsN) ud
                    (map (esum dofsD valsD) ud) (map to_lagc lags) y
                    (map (fun k => y (n + k)) (zrange (Z.of_nat (length ud))))
                    (map (fun l => y (n + Z.of_nat (length ud) + l)) (zrange (Z.of_nat (length lags)))).
Proof.
  intros Hn Hd Hl Hsol. apply dense_solution_is_bordered_solution; try assumption.
  - intros d Hin. apply Hd. exact (proj1 (usort_In dofsD d) Hin).
  - intros i Hi. fold ud in Hi. fold N in Hi. rewrite <- r2_exec_rhs by assumption. rewrite <- (Hsol i Hi).
    apply sum_over_ext. intros j Hj. apply in_zrange in Hj. now rewrite r2_exec_entry.
Qed.
End ExecTie.
