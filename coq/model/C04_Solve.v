(* C04 -- model of EasyFEA's constrained linear solve:
   Bc_dofs_known_unknown (mask split), the r1 elimination of Solvers.__Solver_1 abstracted over the
   inner linear solve, the Lagrange-multiplier bordered system of Solvers.__Solver_2, the orphan-node
   diagonal of __Solver_Get_Dirichlet_A_x and the Newton-incremental Dirichlet values of
   _Solver_Apply_Dirichlet.  Scalars: any commutative ring with Leibniz equality (instantiated at Z
   for the executable correspondence and at the reals R for the property theorems). *)
From Coq Require Import ZArith List Bool Lia Ring.
From EFModel Require Import C03_Csr.
Import ListNotations.
Open Scope Z_scope.

(* ------------------------------------------------------------------ *)
(* the known / unknown split (index bookkeeping, no scalars)           *)
(* ------------------------------------------------------------------ *)
Fixpoint set_false (i : nat) (m : list bool) : list bool :=
  match m, i with
  | [], _ => []
  | _ :: t, O => false :: t
  | x :: t, S i' => x :: set_false i' t
  end.

(* mask = np.ones(nDof, bool); mask[dofsKnown] = False *)
Definition mask_of (n : Z) (dofs : list Z) : list bool :=
  fold_left (fun m d => set_false (Z.to_nat d) m) dofs (repeat true (Z.to_nat n)).

(* np.where(~mask)[0], np.where(mask)[0] *)
Definition known (n : Z) (dofs : list Z) : list Z :=
  filter (fun i => negb (nth (Z.to_nat i) (mask_of n dofs) true)) (zrange n).
Definition unknown (n : Z) (dofs : list Z) : list Z :=
  filter (fun i => nth (Z.to_nat i) (mask_of n dofs) true) (zrange n).

Definition zmem (i : Z) (l : list Z) : bool := existsb (Z.eqb i) l.

Lemma zmem_In i l : zmem i l = true <-> In i l.
Proof.
  unfold zmem. rewrite existsb_exists. split.
  - intros (x & Hx & E). apply Z.eqb_eq in E. now subst.
  - intros H. exists i. split; [assumption|apply Z.eqb_refl].
Qed.

Lemma set_false_length i m : length (set_false i m) = length m.
Proof. revert i. induction m; intros [|i]; simpl; auto. Qed.

Lemma nth_set_false i m j :
  nth j (set_false i m) true = if Nat.eqb i j then (if Nat.ltb j (length m) then false else true) else nth j m true.
Proof.
  revert i j. induction m as [|x t IH]; intros i j; simpl.
  - destruct i, j; simpl; try reflexivity; destruct (Nat.eqb i j); reflexivity.
  - destruct i, j; simpl; try reflexivity. rewrite IH. destruct (Nat.eqb i j); [|reflexivity].
    replace (Nat.ltb (S j) (S (length t))) with (Nat.ltb j (length t)); [reflexivity|].
    destruct (Nat.ltb j (length t)) eqn:E1; destruct (Nat.ltb (S j) (S (length t))) eqn:E2; try reflexivity.
    + apply Nat.ltb_lt in E1. apply Nat.ltb_ge in E2. lia.
    + apply Nat.ltb_ge in E1. apply Nat.ltb_lt in E2. lia.
Qed.

Lemma nth_mask_fold dofs m i :
  0 <= i < Z.of_nat (length m) -> (forall d, In d dofs -> 0 <= d) ->
  nth (Z.to_nat i) (fold_left (fun m d => set_false (Z.to_nat d) m) dofs m) true
  = nth (Z.to_nat i) m true && negb (zmem i dofs).
Proof.
  revert m. induction dofs as [|d t IH]; intros m Hi Hd; simpl.
  - now rewrite andb_true_r.
  - rewrite IH; [|now rewrite set_false_length|intros; apply Hd; now right].
    rewrite nth_set_false. specialize (Hd d (or_introl eq_refl)).
    destruct (Nat.eqb (Z.to_nat d) (Z.to_nat i)) eqn:E.
    + apply Nat.eqb_eq in E. assert (d = i) by lia. subst.
      replace (Nat.ltb (Z.to_nat i) (length m)) with true by (symmetry; apply Nat.ltb_lt; lia).
      rewrite Z.eqb_refl. simpl. now rewrite andb_false_r.
    + apply Nat.eqb_neq in E. replace (i =? d) with false by lia. reflexivity.
Qed.

Lemma nth_mask n dofs i :
  0 <= i < n -> (forall d, In d dofs -> 0 <= d) ->
  nth (Z.to_nat i) (mask_of n dofs) true = negb (zmem i dofs).
Proof.
  intros Hi Hd. unfold mask_of. rewrite nth_mask_fold; try assumption.
  - now rewrite nth_repeat.
  - rewrite repeat_length. lia.
Qed.

Lemma known_spec n dofs i :
  (forall d, In d dofs -> 0 <= d) -> (In i (known n dofs) <-> 0 <= i < n /\ In i dofs).
Proof.
  intros Hd. unfold known. rewrite filter_In, in_zrange. split.
  - intros [Hi H]. rewrite nth_mask in H by assumption. rewrite negb_involutive in H.
    split; [assumption|now apply zmem_In].
  - intros [Hi H]. split; [assumption|]. rewrite nth_mask by assumption. rewrite negb_involutive.
    now apply zmem_In.
Qed.

Lemma unknown_spec n dofs i :
  (forall d, In d dofs -> 0 <= d) -> (In i (unknown n dofs) <-> 0 <= i < n /\ ~ In i dofs).
Proof.
  intros Hd. unfold unknown. rewrite filter_In, in_zrange. split.
  - intros [Hi H]. rewrite nth_mask in H by assumption. split; [assumption|].
    intros Hin. apply zmem_In in Hin. rewrite Hin in H. discriminate.
  - intros [Hi H]. split; [assumption|]. rewrite nth_mask by assumption.
    destruct (zmem i dofs) eqn:E; [|reflexivity]. apply zmem_In in E. contradiction.
Qed.

Lemma ssorted_zrange_from k m : ssorted (map Z.of_nat (seq k m)).
Proof.
  revert k. induction m; intros k; simpl; [exact I|]. split; [|apply IHm].
  intros y Hy. apply in_map_iff in Hy. destruct Hy as (x & <- & Hx). apply in_seq in Hx. lia.
Qed.

Lemma ssorted_filter p l : ssorted l -> ssorted (filter p l).
Proof.
  induction l as [|a t IH]; simpl; intros H; [exact I|]. destruct H as [Ha Ht].
  destruct (p a); simpl; [|now apply IH]. split; [|now apply IH].
  intros y Hy. apply filter_In in Hy. apply Ha. tauto.
Qed.

Lemma filter_length_split {A} (p : A -> bool) l :
  (length (filter p l) + length (filter (fun x => negb (p x)) l) = length l)%nat.
Proof. induction l; simpl; [reflexivity|]. destruct (p a); simpl; lia. Qed.

(* the split is a partition of range(n): disjoint, exhaustive, both parts sorted, sizes add up
   (the assertion of Bc_dofs_known_unknown), for ANY list of Dirichlet dofs (duplicates, any order) *)
Theorem split_partition n dofs :
  (forall d, In d dofs -> 0 <= d) ->
  (forall i, 0 <= i < n -> (In i (known n dofs) /\ ~ In i (unknown n dofs)) \/
                           (~ In i (known n dofs) /\ In i (unknown n dofs))) /\
  (forall i, In i (known n dofs) \/ In i (unknown n dofs) -> 0 <= i < n) /\
  ssorted (known n dofs) /\ ssorted (unknown n dofs) /\
  (length (known n dofs) + length (unknown n dofs) = Z.to_nat n)%nat.
Proof.
  intros Hd. repeat split.
  - intros i Hi. destruct (in_dec Z.eq_dec i dofs) as [H|H].
    + left. split; [apply known_spec; auto|]. intros H2. apply unknown_spec in H2; tauto.
    + right. split; [|apply unknown_spec; auto]. intros H2. apply known_spec in H2; tauto.
  - destruct H as [H|H]; [apply known_spec in H|apply unknown_spec in H]; tauto.
  - destruct H as [H|H]; [apply known_spec in H|apply unknown_spec in H]; tauto.
  - apply ssorted_filter, ssorted_zrange_from.
  - apply ssorted_filter, ssorted_zrange_from.
  - unfold known, unknown.
    pose proof (filter_length_split (fun i => nth (Z.to_nat i) (mask_of n dofs) true) (zrange n)) as H.
    rewrite zrange_length in H. lia.
Qed.

(* ------------------------------------------------------------------ *)
(* scalars                                                             *)
(* ------------------------------------------------------------------ *)
Section Ring.
Variable R : Type.
Variables (rO rI : R) (radd rmul rsub : R -> R -> R) (ropp : R -> R).
Variable Rth : ring_theory rO rI radd rmul rsub ropp (@eq R).
Add Ring Rring : Rth.
Infix "+r" := radd (at level 50, left associativity).
Infix "*r" := rmul (at level 40, left associativity).
Infix "-r" := rsub (at level 50, left associativity).

Definition rsum (l : list R) : R := fold_right radd rO l.
Definition sum_over (l : list Z) (f : Z -> R) : R := rsum (map f l).

Lemma sum_over_ext l f g : (forall i, In i l -> f i = g i) -> sum_over l f = sum_over l g.
Proof. intros H. unfold sum_over. f_equal. now apply map_ext_in. Qed.

Lemma sum_over_split (p : Z -> bool) l f :
  sum_over l f = sum_over (filter p l) f +r sum_over (filter (fun i => negb (p i)) l) f.
Proof.
  unfold sum_over. induction l as [|a t IH]; simpl; [ring|].
  destruct (p a); simpl; rewrite IH; ring.
Qed.

Lemma sum_over_zero l f : (forall i, In i l -> f i = rO) -> sum_over l f = rO.
Proof.
  unfold sum_over. induction l as [|a t IH]; simpl; intros H; [reflexivity|].
  rewrite H by (now left). rewrite IH; [ring|]. intros i Hi. apply H. now right.
Qed.

Lemma sum_over_add l f g : sum_over l (fun i => f i +r g i) = sum_over l f +r sum_over l g.
Proof. unfold sum_over. induction l; simpl; [ring|]. rewrite IHl. ring. Qed.

Lemma sum_over_scal l c f : sum_over l (fun i => c *r f i) = c *r sum_over l f.
Proof. unfold sum_over. induction l; simpl; [ring|]. rewrite IHl. ring. Qed.

(* sum of an indicator over a duplicate-free index list *)
Lemma sum_over_single l o f :
  ssorted l -> In o l -> sum_over l (fun j => if j =? o then f j else rO) = f o.
Proof.
  unfold sum_over. induction l as [|a t IH]; simpl; intros Hs Hin; [contradiction|].
  destruct Hs as [Ha Ht]. destruct Hin as [->|Hin].
  - rewrite Z.eqb_refl. fold (sum_over t (fun j => if j =? o then f j else rO)).
    rewrite sum_over_zero; [ring|]. intros i Hi. specialize (Ha i Hi). now replace (i =? o) with false by lia.
  - specialize (Ha o Hin). replace (a =? o) with false by lia. rewrite IH by assumption. ring.
Qed.

(* value carried by a dof in a (dofs, values) list pair: scipy csr_matrix((values,(dofs,0))) sums
   duplicate entries.  This is the documented convention of the elimination solver. *)
Definition entered_sum (dofs : list Z) (values : list R) (d : Z) : R :=
  rsum (map (fun dv => if fst dv =? d then snd dv else rO) (combine dofs values)).

(* ---- r1: x_i = Aii^-1 (b_i - Aic x_c), for ANY exact inner solve ---- *)
(* final solution vector: known dofs hold the summed entered values, unknown dofs the inner result *)
Definition x_r1 (n : Z) (dofs : list Z) (values : list R) (xi : Z -> R) (j : Z) : R :=
  if zmem j (known n dofs) then entered_sum dofs values j else xi j.

Theorem r1_constraints n dofs values xi d :
  In d (known n dofs) -> x_r1 n dofs values xi d = entered_sum dofs values d.
Proof. intros H. unfold x_r1. apply zmem_In in H. now rewrite H. Qed.

Theorem r1_residual n dofs values (A : Z -> Z -> R) (b : Z -> R) (xi : Z -> R) :
  (forall d, In d dofs -> 0 <= d) ->
  (* the inner solve is exact: Aii xi = b_i - Aic x_c *)
  (forall i, In i (unknown n dofs) ->
     sum_over (unknown n dofs) (fun j => A i j *r xi j)
     = b i -r sum_over (known n dofs) (fun c => A i c *r entered_sum dofs values c)) ->
  forall i, In i (unknown n dofs) ->
    sum_over (zrange n) (fun j => A i j *r x_r1 n dofs values xi j) = b i.
Proof.
  intros Hd Hsolve i Hi.
  rewrite (sum_over_split (fun j => negb (nth (Z.to_nat j) (mask_of n dofs) true))).
  fold (known n dofs).
  assert (E : filter (fun i0 => negb (negb (nth (Z.to_nat i0) (mask_of n dofs) true))) (zrange n) = unknown n dofs).
  { unfold unknown. apply filter_ext. intros a. apply negb_involutive. }
  rewrite E.
  rewrite (sum_over_ext (known n dofs) _ (fun c => A i c *r entered_sum dofs values c)).
  2:{ intros c Hc. unfold x_r1. apply zmem_In in Hc. now rewrite Hc. }
  rewrite (sum_over_ext (unknown n dofs) _ (fun j => A i j *r xi j)).
  2:{ intros j Hj. unfold x_r1. destruct (zmem j (known n dofs)) eqn:E2; [|reflexivity].
      apply zmem_In in E2. apply known_spec in E2; [|assumption]. apply unknown_spec in Hj; [|assumption]. tauto. }
  rewrite (Hsolve i Hi). ring.
Qed.

(* ---- orphan nodes: A + diag(1 on orphan dofs) ---------------------- *)
Definition add_orphan_diag (orph : Z -> bool) (A : Z -> Z -> R) (i j : Z) : R :=
  A i j +r (if (i =? j) && orph i then rI else rO).

Theorem orphan_regular n (orph : Z -> bool) (A : Z -> Z -> R) (b x : Z -> R) :
  0 <= n ->
  (forall i j, orph i = true \/ orph j = true -> A i j = rO) ->   (* orphan rows and columns of A are zero *)
  ((forall i, 0 <= i < n -> sum_over (zrange n) (fun j => add_orphan_diag orph A i j *r x j) = b i)
   <->
   ((forall i, 0 <= i < n -> orph i = false ->
       sum_over (filter (fun j => negb (orph j)) (zrange n)) (fun j => A i j *r x j) = b i) /\
    (forall o, 0 <= o < n -> orph o = true -> x o = b o))).
Proof.
  intros Hn Hz.
  assert (Hrow : forall i, 0 <= i < n ->
            sum_over (zrange n) (fun j => add_orphan_diag orph A i j *r x j)
            = sum_over (filter (fun j => negb (orph j)) (zrange n)) (fun j => A i j *r x j)
              +r (if orph i then x i else rO)).
  { intros i Hi. unfold add_orphan_diag.
    rewrite (sum_over_ext _ _ (fun j => A i j *r x j +r (if j =? i then (if orph i then x j else rO) else rO))).
    2:{ intros j _. rewrite (Z.eqb_sym i j). destruct (j =? i); destruct (orph i); simpl; ring. }
    rewrite sum_over_add. f_equal.
    - rewrite (sum_over_split (fun j => negb (orph j))).
      rewrite (sum_over_zero (filter (fun i0 => negb (negb (orph i0))) (zrange n))); [ring|].
      intros j Hj. apply filter_In in Hj. destruct Hj as [_ Hj]. rewrite negb_involutive in Hj.
      rewrite Hz by (now right). ring.
    - rewrite (sum_over_single (zrange n) i (fun j => if orph i then x j else rO)); [reflexivity| |now apply in_zrange].
      apply ssorted_zrange_from. }
  split.
  - intros H. split.
    + intros i Hi Ho. rewrite <- (H i Hi), Hrow by assumption. rewrite Ho. ring.
    + intros o Ho Hor. rewrite <- (H o Ho), Hrow by assumption. rewrite Hor.
      rewrite sum_over_zero; [ring|]. intros j _. rewrite Hz by (now left). ring.
  - intros [H1 H2] i Hi. rewrite Hrow by assumption. destruct (orph i) eqn:E.
    + rewrite sum_over_zero; [rewrite (H2 i Hi E); ring|]. intros j _. rewrite Hz by (now left). ring.
    + rewrite (H1 i Hi E). ring.
Qed.

(* ---- r2: the Lagrange-multiplier bordered system ------------------- *)
(* one multi-point condition: sum_m coef_m * x(dof_m) = value *)
Record lagc := { l_dofs : list Z; l_coefs : list R; l_value : R }.

Definition coef_of (c : lagc) (i : Z) : R := entered_sum (l_dofs c) (l_coefs c) i.
Definition lag_lhs (c : lagc) (x : Z -> R) : R :=
  rsum (map (fun dc => snd dc *r x (fst dc)) (combine (l_dofs c) (l_coefs c))).

(* the equations encoded by the bordered matrix of __Solver_2 for the unknown (x, lam, mu):
   rows 0..n-1        : A x + alpha * (sum_k [dofsD_k = i] lam_k) + alpha * (sum_l coef_l(i) mu_l) = b
   rows n..n+nD-1     : alpha * x(dofsD_k) = alpha * valuesD_k
   rows n+nD..        : alpha * (sum_m coef_{l,m} x(dof_{l,m})) = alpha * value_l                      *)
Definition bordered_solution (n : Z) (alpha : R) (A : Z -> Z -> R) (b : Z -> R)
           (dofsD : list Z) (valuesD : list R) (lags : list lagc)
           (x : Z -> R) (lam : list R) (mu : list R) : Prop :=
  length lam = length dofsD /\ length mu = length lags /\
  (forall i, 0 <= i < n ->
     sum_over (zrange n) (fun j => A i j *r x j)
     +r alpha *r entered_sum dofsD lam i
     +r alpha *r rsum (map (fun cm => coef_of (fst cm) i *r snd cm) (combine lags mu)) = b i) /\
  (forall d v, In (d, v) (combine dofsD valuesD) -> alpha *r x d = alpha *r v) /\
  (forall c, In c lags -> alpha *r lag_lhs c x = alpha *r l_value c).

Hypothesis rmul_cancel : forall a u v, a <> rO -> a *r u = a *r v -> u = v.

Lemma entered_sum_absent dofs vals i : ~ In i dofs -> entered_sum dofs vals i = rO.
Proof.
  intros H. unfold entered_sum.
  assert (forall l, (forall dv, In dv l -> fst dv <> i) -> rsum (map (fun dv : Z * R => if fst dv =? i then snd dv else rO) l) = rO).
  { induction l as [|a t IH]; simpl; intros Hl; [reflexivity|].
    replace (fst a =? i) with false by (specialize (Hl a (or_introl eq_refl)); lia).
    rewrite IH; [ring|]. intros dv Hdv. apply Hl. now right. }
  apply H0. intros [d v] Hdv. simpl. apply in_combine_l in Hdv. intros ->. contradiction.
Qed.

Theorem lagrange_equiv n alpha A b dofsD valuesD lags x lam mu :
  alpha <> rO ->
  bordered_solution n alpha A b dofsD valuesD lags x lam mu ->
  (* every Dirichlet entry and every multi-point constraint holds exactly *)
  (forall d v, In (d, v) (combine dofsD valuesD) -> x d = v) /\
  (forall c, In c lags -> lag_lhs c x = l_value c) /\
  (* the equations of the dofs that carry no constraint are the assembled ones *)
  (forall i, 0 <= i < n -> ~ In i dofsD -> (forall c, In c lags -> ~ In i (l_dofs c)) ->
     sum_over (zrange n) (fun j => A i j *r x j) = b i).
Proof.
  intros Ha (Hl1 & Hl2 & Hrows & HD & HL). repeat split.
  - intros d v H. apply (rmul_cancel alpha); auto.
  - intros c H. apply (rmul_cancel alpha); auto.
  - intros i Hi HnD HnL. rewrite <- (Hrows i Hi).
    rewrite entered_sum_absent by assumption.
    assert (E : rsum (map (fun cm : lagc * R => coef_of (fst cm) i *r snd cm) (combine lags mu)) = rO).
    { assert (forall l : list (lagc * R), (forall cm, In cm l -> In (fst cm) lags) ->
              rsum (map (fun cm : lagc * R => coef_of (fst cm) i *r snd cm) l) = rO).
      { induction l as [|a t IH]; simpl; intros Hl; [reflexivity|].
        unfold coef_of at 1. rewrite entered_sum_absent by (apply HnL, Hl; now left).
        rewrite IH; [ring|]. intros cm Hcm. apply Hl. now right. }
      apply H. intros [c m] Hcm. simpl. now apply in_combine_l in Hcm. }
    rewrite E. ring.
Qed.

(* weak form: tested against any vector of the constraint kernel the multipliers drop out, i.e. the x part
   solves the reduced (constrained) equations -- covers dofs that DO carry multi-point constraints *)
Lemma rsum_map_add {A} (l : list A) f g : rsum (map (fun a => f a +r g a) l) = rsum (map f l) +r rsum (map g l).
Proof. induction l; simpl; [ring|]. rewrite IHl. ring. Qed.
Lemma rsum_map_scal {A} (l : list A) c f : rsum (map (fun a => c *r f a) l) = c *r rsum (map f l).
Proof. induction l; simpl; [ring|]. rewrite IHl. ring. Qed.

(* sum_i w_i * entered_sum dofs vals i  over i<n  =  sum_k vals_k * w(dofs_k) when the dofs are in range *)
Lemma sum_entered_sum n dofs vals (w : Z -> R) :
  (forall d, In d dofs -> 0 <= d < n) ->
  sum_over (zrange n) (fun i => w i *r entered_sum dofs vals i)
  = rsum (map (fun dv => snd dv *r w (fst dv)) (combine dofs vals)).
Proof.
  revert vals. induction dofs as [|d t IH]; intros vals Hd.
  - simpl. apply sum_over_zero. intros i _. unfold entered_sum. simpl. ring.
  - destruct vals as [|v vt].
    + simpl. apply sum_over_zero. intros i _. unfold entered_sum. simpl. ring.
    + simpl. rewrite <- IH by (intros; apply Hd; now right).
      unfold entered_sum. simpl.
      rewrite (sum_over_ext _ _ (fun i => (if i =? d then v *r w i else rO)
                 +r w i *r rsum (map (fun dv : Z * R => if fst dv =? i then snd dv else rO) (combine t vt)))).
      2:{ intros i _. rewrite (Z.eqb_sym d i). destruct (i =? d); ring. }
      rewrite sum_over_add. f_equal.
      rewrite (sum_over_single (zrange n) d (fun i => v *r w i)); [reflexivity|apply ssorted_zrange_from|].
      apply in_zrange. apply Hd. now left.
Qed.

Theorem lagrange_reduced_equations n alpha A b dofsD valuesD lags x lam mu (w : Z -> R) :
  bordered_solution n alpha A b dofsD valuesD lags x lam mu ->
  (forall d, In d dofsD -> 0 <= d < n) ->
  (forall c d, In c lags -> In d (l_dofs c) -> 0 <= d < n) ->
  (forall d, In d dofsD -> w d = rO) ->                 (* w vanishes on the Dirichlet dofs *)
  (forall c, In c lags -> lag_lhs c w = rO) ->          (* and satisfies the homogeneous constraints *)
  sum_over (zrange n) (fun i => w i *r (sum_over (zrange n) (fun j => A i j *r x j) -r b i)) = rO.
Proof.
  intros (Hl1 & Hl2 & Hrows & HD & HL) HdD HdL HwD HwL.
  rewrite (sum_over_ext _ _ (fun i => ropp alpha *r (w i *r entered_sum dofsD lam i)
      +r ropp alpha *r (w i *r rsum (map (fun cm => coef_of (fst cm) i *r snd cm) (combine lags mu))))).
  2:{ intros i Hi. apply in_zrange in Hi. rewrite <- (Hrows i Hi). ring. }
  rewrite sum_over_add, !sum_over_scal.
  rewrite sum_entered_sum by assumption.
  assert (E1 : rsum (map (fun dv : Z * R => snd dv *r w (fst dv)) (combine dofsD lam)) = rO).
  { assert (forall l : list (Z * R), (forall dv, In dv l -> In (fst dv) dofsD) ->
            rsum (map (fun dv : Z * R => snd dv *r w (fst dv)) l) = rO).
    { induction l as [|a t IH]; simpl; intros Hl; [reflexivity|].
      rewrite HwD by (apply Hl; now left). rewrite IH; [ring|]. intros; apply Hl; now right. }
    apply H. intros [d v] Hdv. now apply in_combine_l in Hdv. }
  rewrite E1.
  assert (E2 : sum_over (zrange n) (fun i => w i *r rsum (map (fun cm : lagc * R => coef_of (fst cm) i *r snd cm) (combine lags mu))) = rO).
  { assert (forall l : list (lagc * R), (forall cm, In cm l -> In (fst cm) lags) ->
            sum_over (zrange n) (fun i => w i *r rsum (map (fun cm : lagc * R => coef_of (fst cm) i *r snd cm) l)) = rO).
    { induction l as [|a t IH]; intros Hl.
      - simpl. apply sum_over_zero. intros; ring.
      - simpl.
        rewrite (sum_over_ext _ _ (fun i => snd a *r (w i *r coef_of (fst a) i)
                   +r w i *r rsum (map (fun cm : lagc * R => coef_of (fst cm) i *r snd cm) t))).
        2:{ intros; ring. }
        rewrite sum_over_add, sum_over_scal, IH by (intros; apply Hl; now right).
        unfold coef_of. rewrite sum_entered_sum.
        2:{ intros d Hd. apply (HdL (fst a)); [apply Hl; now left|assumption]. }
        assert (In (fst a) lags) by (apply Hl; now left).
        specialize (HwL _ H). unfold lag_lhs in HwL. rewrite HwL. ring. }
    apply H. intros [c m] Hcm. now apply in_combine_l in Hcm. }
  rewrite E2. ring.
Qed.

(* the bordered matrix is singular as soon as a Dirichlet dof is listed twice (defect of the r2 path):
   lam = e_k - e_k' is a non-trivial kernel vector *)
Definition unit_at (len k : nat) : list R := map (fun q => if Nat.eqb q k then rI else rO) (seq 0 len).
Definition lam_dup (len k k' : nat) : list R :=
  map (fun q => if Nat.eqb q k then rI else if Nat.eqb q k' then ropp rI else rO) (seq 0 len).

Lemma entered_sum_lam_dup dofsD k k' i :
  (k < k')%nat -> (k' < length dofsD)%nat -> nth k dofsD 0 = nth k' dofsD 0 ->
  entered_sum dofsD (lam_dup (length dofsD) k k') i = rO.
Proof.
  intros Hk Hk' Hdup. unfold entered_sum, lam_dup.
  (* generalise over an offset *)
  assert (G : forall (l : list Z) (off : nat),
            (forall q, (q < length l)%nat -> nth q l 0 = nth (off + q) dofsD 0) ->
            (off + length l = length dofsD)%nat ->
            rsum (map (fun dv : Z * R => if fst dv =? i then snd dv else rO)
                      (combine l (map (fun q => if Nat.eqb q k then rI else if Nat.eqb q k' then ropp rI else rO) (seq off (length l)))))
            = (if (Nat.leb off k) && (nth k dofsD 0 =? i) then rI else rO)
              +r (if (Nat.leb off k') && (nth k' dofsD 0 =? i) then ropp rI else rO)).
  { induction l as [|d t IH]; intros off Hn Hlen.
    - simpl in *. replace (Nat.leb off k) with false by (symmetry; apply Nat.leb_gt; lia).
      replace (Nat.leb off k') with false by (symmetry; apply Nat.leb_gt; lia). simpl. ring.
    - simpl. rewrite (IH (S off)).
      2:{ intros q Hq. specialize (Hn (S q)). simpl in Hn. rewrite Hn by lia. f_equal. lia. }
      2:{ simpl in Hlen. lia. }
      assert (Hd : d = nth off dofsD 0).
      { specialize (Hn O). simpl in Hn. rewrite Hn by lia. f_equal. lia. }
      destruct (Nat.eqb off k) eqn:E1.
      + apply Nat.eqb_eq in E1. subst off.
        replace (Nat.leb (S k) k) with false by (symmetry; apply Nat.leb_gt; lia).
        replace (Nat.leb k k) with true by (symmetry; apply Nat.leb_le; lia).
        replace (Nat.leb (S k) k') with true by (symmetry; apply Nat.leb_le; lia).
        replace (Nat.leb k k') with true by (symmetry; apply Nat.leb_le; lia).
        rewrite Hd. simpl. destruct (nth k dofsD 0 =? i); destruct (nth k' dofsD 0 =? i); ring.
      + apply Nat.eqb_neq in E1. destruct (Nat.eqb off k') eqn:E2.
        * apply Nat.eqb_eq in E2. subst off.
          replace (Nat.leb (S k') k) with false by (symmetry; apply Nat.leb_gt; lia).
          replace (Nat.leb k' k) with false by (symmetry; apply Nat.leb_gt; lia).
          replace (Nat.leb (S k') k') with false by (symmetry; apply Nat.leb_gt; lia).
          replace (Nat.leb k' k') with true by (symmetry; apply Nat.leb_le; lia).
          rewrite Hd. simpl. destruct (nth k' dofsD 0 =? i); ring.
        * apply Nat.eqb_neq in E2.
          replace (Nat.leb (S off) k) with (Nat.leb off k).
          2:{ destruct (Nat.leb off k) eqn:L1; destruct (Nat.leb (S off) k) eqn:L2; try reflexivity.
              - apply Nat.leb_le in L1. apply Nat.leb_gt in L2. lia.
              - apply Nat.leb_gt in L1. apply Nat.leb_le in L2. lia. }
          replace (Nat.leb (S off) k') with (Nat.leb off k').
          2:{ destruct (Nat.leb off k') eqn:L1; destruct (Nat.leb (S off) k') eqn:L2; try reflexivity.
              - apply Nat.leb_le in L1. apply Nat.leb_gt in L2. lia.
              - apply Nat.leb_gt in L1. apply Nat.leb_le in L2. lia. }
          destruct (d =? i); ring. }
  rewrite (G dofsD O); [|intros; reflexivity|reflexivity].
  simpl. rewrite Hdup. destruct (nth k' dofsD 0 =? i); ring.
Qed.

Theorem lagrange_duplicate_singular n alpha A dofsD lags k k' :
  (k < k')%nat -> (k' < length dofsD)%nat -> nth k dofsD 0 = nth k' dofsD 0 ->
  (* homogeneous bordered system (b = 0, values = 0) has the solution x = 0, lam = e_k - e_k', mu = 0 *)
  bordered_solution n alpha A (fun _ => rO) dofsD (map (fun _ => rO) dofsD)
                    (map (fun c => {| l_dofs := l_dofs c; l_coefs := l_coefs c; l_value := rO |}) lags)
                    (fun _ => rO) (lam_dup (length dofsD) k k') (map (fun _ => rO) lags).
Proof.
  intros Hk Hk' Hdup. unfold bordered_solution. repeat split.
  - unfold lam_dup. now rewrite map_length, seq_length.
  - now rewrite !map_length.
  - intros i Hi. rewrite entered_sum_lam_dup by assumption.
    rewrite sum_over_zero by (intros; ring).
    assert (E : forall (l : list lagc),
              rsum (map (fun cm : lagc * R => coef_of (fst cm) i *r snd cm)
                        (combine (map (fun c => {| l_dofs := l_dofs c; l_coefs := l_coefs c; l_value := rO |}) l) (map (fun _ => rO) l))) = rO).
    { induction l as [|a t IH]; simpl; [reflexivity|]. rewrite IH. ring. }
    rewrite E. ring.
  - intros d v H. apply in_combine_r in H. apply in_map_iff in H. destruct H as (? & <- & _). ring.
  - intros c H. apply in_map_iff in H. destruct H as (c0 & <- & _). simpl. unfold lag_lhs. simpl.
    assert (E : forall l : list (Z * R), rsum (map (fun dc : Z * R => snd dc *r rO) l) = rO).
    { induction l as [|a t IH]; simpl; [reflexivity|]. rewrite IH. ring. }
    rewrite E. ring.
Qed.

(* ---- Newton: incremental Dirichlet values --------------------------- *)
(* current code: dofsValues -= u[dofs] entry by entry, then the csr construction sums duplicates *)
Definition incr_code (dofs : list Z) (values : list R) (u : Z -> R) (d : Z) : R :=
  entered_sum dofs (map (fun dv => snd dv -r u (fst dv)) (combine dofs values)) d.
(* specification: the increment that brings the dof to the (summed) prescribed value *)
Definition incr_spec (dofs : list Z) (values : list R) (u : Z -> R) (d : Z) : R :=
  entered_sum dofs values d -r u d.

(* one Newton update of the constrained dofs: u + delta_u, delta_u = the incremental values on known dofs *)
Definition newton_step (incr : (Z -> R) -> Z -> R) (free : (Z -> R) -> Z -> R) (kn : Z -> bool) (u : Z -> R) (j : Z) : R :=
  u j +r (if kn j then incr u j else free u j).

Fixpoint newton_iter (incr : (Z -> R) -> Z -> R) (free : (Z -> R) -> Z -> R) (kn : Z -> bool) (k : nat) (u0 : Z -> R) : Z -> R :=
  match k with
  | O => u0
  | S k' => newton_step incr free kn (newton_iter incr free kn k' u0)
  end.

(* with the specified increment the constraints hold after the first iteration and are kept for any
   number of iterations, whatever the free-dof updates and the initial guess are *)
Theorem newton_increment dofs values free kn u0 k d :
  kn d = true ->
  newton_iter (incr_spec dofs values) free kn (S k) u0 d = entered_sum dofs values d.
Proof.
  intros Hd. simpl. unfold newton_step. rewrite Hd. unfold incr_spec. ring.
Qed.

Lemma entered_sum_map_sub dofs values (u : Z -> R) d :
  length values = length dofs ->
  entered_sum dofs (map (fun dv => snd dv -r u (fst dv)) (combine dofs values)) d
  = entered_sum dofs values d -r entered_sum dofs (map (fun _ => u d) dofs) d.
Proof.
  revert values. unfold entered_sum. induction dofs as [|a t IH]; intros [|v vt] H; simpl in *; try discriminate; [ring|].
  rewrite IH by lia. destruct (a =? d) eqn:E; [|ring]. apply Z.eqb_eq in E. subst. ring.
Qed.

(* the code's increment coincides with the specification when no dof is listed twice *)
Lemma entered_sum_const_nodup dofs (c : R) d :
  NoDup dofs -> In d dofs -> entered_sum dofs (map (fun _ => c) dofs) d = c.
Proof.
  unfold entered_sum. induction dofs as [|a t IH]; simpl; intros Hn Hin; [contradiction|].
  inversion Hn; subst. destruct Hin as [->|Hin].
  - rewrite Z.eqb_refl. fold (entered_sum t (map (fun _ => c) t) d). rewrite entered_sum_absent by assumption. ring.
  - replace (a =? d) with false by (assert (a <> d) by (intros ->; contradiction); lia).
    rewrite IH by assumption. ring.
Qed.

Theorem incr_code_is_spec_without_duplicates dofs values u d :
  length values = length dofs -> NoDup dofs -> In d dofs ->
  incr_code dofs values u d = incr_spec dofs values u d.
Proof.
  intros HL Hn Hin. unfold incr_code, incr_spec. rewrite entered_sum_map_sub by assumption.
  now rewrite entered_sum_const_nodup.
Qed.

End Ring.
