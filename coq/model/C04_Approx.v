(* C04 -- inexact inner solves (iterative backends): the residual of the FULL assembled system on a free dof is
   exactly the residual of the reduced system the backend was given, whatever vector the backend returned.
   Hence a backend that meets a residual tolerance on the reduced system meets the same tolerance on the free
   equations of the assembled system, while the constrained dofs hold their values exactly. *)
From Coq Require Import ZArith List Bool Lia Ring.
From EFModel Require Import C03_Csr C04_Solve.
Import ListNotations.
Open Scope Z_scope.

Section Ring.
Variable R : Type.
Variables (rO rI : R) (radd rmul rsub : R -> R -> R) (ropp : R -> R).
Variable Rth : ring_theory rO rI radd rmul rsub ropp (@eq R).
Add Ring Rring3 : Rth.
Infix "+r" := radd (at level 50, left associativity).
Infix "*r" := rmul (at level 40, left associativity).
Infix "-r" := rsub (at level 50, left associativity).
Notation sum_over := (sum_over R rO radd).
Notation entered_sum := (entered_sum R rO radd).
Notation x_r1 := (x_r1 R rO radd).

(* residual of the reduced system  Aii xi = b_i - Aic x_c  at row i *)
Definition reduced_residual n dofs values (A : Z -> Z -> R) (b xi : Z -> R) (i : Z) : R :=
  sum_over (unknown n dofs) (fun j => A i j *r xi j)
  -r (b i -r sum_over (known n dofs) (fun c => A i c *r entered_sum dofs values c)).

(* residual of the full assembled system at row i for the vector returned by the solver *)
Definition full_residual n dofs values (A : Z -> Z -> R) (b xi : Z -> R) (i : Z) : R :=
  sum_over (zrange n) (fun j => A i j *r x_r1 n dofs values xi j) -r b i.

Theorem r1_residual_transfer n dofs values A b xi i :
  (forall d, In d dofs -> 0 <= d) -> In i (unknown n dofs) ->
  full_residual n dofs values A b xi i = reduced_residual n dofs values A b xi i.
Proof.
  intros Hd Hi. unfold full_residual, reduced_residual.
  rewrite (sum_over_split R rO rI radd rmul rsub ropp Rth (fun j => negb (nth (Z.to_nat j) (mask_of n dofs) true))).
  fold (known n dofs).
  assert (E : filter (fun i0 => negb (negb (nth (Z.to_nat i0) (mask_of n dofs) true))) (zrange n) = unknown n dofs).
  { unfold unknown. apply filter_ext. intros a. apply negb_involutive. }
  rewrite E.
  rewrite (sum_over_ext R rO radd (known n dofs) _ (fun c => A i c *r entered_sum dofs values c)).
  2:{ intros c Hc. unfold C04_Solve.x_r1. apply zmem_In in Hc. now rewrite Hc. }
  rewrite (sum_over_ext R rO radd (unknown n dofs) _ (fun j => A i j *r xi j)).
  2:{ intros j Hj. unfold C04_Solve.x_r1. destruct (zmem j (known n dofs)) eqn:E2; [|reflexivity].
      apply zmem_In in E2. apply known_spec in E2; [|assumption]. apply unknown_spec in Hj; [|assumption]. tauto. }
  ring.
Qed.

(* ---- homogeneity (change of units): the elimination solve is homogeneous of degree 1 in (b, prescribed values) ---- *)
Lemma entered_sum_scal s dofs values d :
  entered_sum dofs (map (fun v => s *r v) values) d = s *r entered_sum dofs values d.
Proof.
  revert values. unfold C04_Solve.entered_sum. induction dofs as [|a t IH]; intros [|v vt]; simpl; try ring.
  rewrite IH. destruct (a =? d); ring.
Qed.

Lemma sum_over_scal_l l c f : sum_over l (fun i => c *r f i) = c *r sum_over l f.
Proof. apply (sum_over_scal R rO rI radd rmul rsub ropp Rth). Qed.

(* the reduced residual of the scaled data at the scaled answer is s times the reduced residual: if xi solves the reduced
   system for (b, values), s xi solves it for (s b, s values) -- no threshold on the size of the data can be involved *)
Theorem reduced_residual_homogeneous s n dofs values A b xi i :
  reduced_residual n dofs (map (fun v => s *r v) values) A (fun j => s *r b j) (fun j => s *r xi j) i
  = s *r reduced_residual n dofs values A b xi i.
Proof.
  unfold reduced_residual.
  rewrite (sum_over_ext R rO radd (unknown n dofs) _ (fun j => s *r (A i j *r xi j))) by (intros; ring).
  rewrite (sum_over_ext R rO radd (known n dofs) _ (fun c => s *r (A i c *r entered_sum dofs values c)))
    by (intros; rewrite entered_sum_scal; ring).
  rewrite !sum_over_scal_l. ring.
Qed.

(* the returned vector is s times the unscaled one: x(s b, s x_c) = s x(b, x_c) *)
Theorem x_r1_homogeneous s n dofs values xi j :
  x_r1 n dofs (map (fun v => s *r v) values) (fun k => s *r xi k) j = s *r x_r1 n dofs values xi j.
Proof. unfold C04_Solve.x_r1. destruct (zmem j (known n dofs)); [apply entered_sum_scal|reflexivity]. Qed.
End Ring.
