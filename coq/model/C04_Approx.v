(* C04 -- inexact inner solves (iterative backends): the residual of the FULL assembled system on a free dof is
   exactly the residual of the reduced system the backend was given, whatever vector the backend returned.
   Hence a backend that meets a residual tolerance on the reduced system meets the same tolerance on the free
   equations of the assembled system, while the constrained dofs hold their values exactly. *)
From Coq Require Import ZArith List Bool Lia Ring.
From EFModel Require Import C03_Csr C04_Solve.
Import ListNotations.
Open Scope Z_scope.

Section Ring.
Variable R : Type.
Variables (rO rI : R) (radd rmul rsub : R -> R -> R) (ropp : R -> R).
Variable Rth : ring_theory rO rI radd rmul rsub ropp (@eq R).
Add Ring Rring3 : Rth.
Infix "+r" := radd (at level 50, left associativity).
Infix "*r" := rmul (at level 40, left associativity).
Infix "-r" := rsub (at level 50, left associativity).
Notation sum_over := (sum_over R rO radd).
Notation entered_sum := (entered_sum R rO radd).
Notation x_r1 := (x_r1 R rO radd).

(* residual of the reduced system  Aii xi = b_i - Aic x_c  at row i *)
Definition reduced_residual n dofs values (A : Z -> Z -> R) (b xi : Z -> R) (i : Z) : R :=
  sum_over (unknown n dofs) (fun j => A i j *r xi j)
  -r (b i -r sum_over (known n dofs) (fun c => A i c *r entered_sum dofs values c)).

(* residual of the full assembled system at row i for the vector returned by the solver *)
Definition full_residual n dofs values (A : Z -> Z -> R) (b xi : Z -> R) (i : Z) : R :=
  sum_over (zrange n) (fun j => A i j *r x_r1 n dofs values xi j) -r b i.

Theorem r1_residual_transfer n dofs values A b xi i :
  (forall d, In d dofs -> 0 <= d) -> In i (unknown n dofs) ->
  full_residual n dofs values A b xi i = reduced_residual n dofs values A b xi i.
Proof.
  intros Hd Hi. unfold full_residual, reduced_residual.
  rewrite (sum_over_split R rO rI radd rmul rsub ropp Rth (fun j => negb (nth (Z.to_nat j) (mask_of n dofs) true))).
  fold (known n dofs).
  assert (E : filter (fun i0 => negb (negb (nth (Z.to_nat i0) (mask_of n dofs) true))) (zrange n) = unknown n dofs).
  { unfold unknown. apply filter_ext. intros a. apply negb_involutive. }
  rewrite E.
  rewrite (sum_over_ext R rO radd (known n dofs) _ (fun c => A i c *r entered_sum dofs values c)).
  2:{ intros c Hc. unfold C04_Solve.x_r1. apply zmem_In in Hc. now rewrite Hc. }
  rewrite (sum_over_ext R rO radd (unknown n dofs) _ (fun j => A i j *r xi j)).
  2:{ intros j Hj. unfold C04_Solve.x_r1. destruct (zmem j (known n dofs)) eqn:E2; [|reflexivity].
      apply zmem_In in E2. apply known_spec in E2; [|assumption]. apply unknown_spec in Hj; [|assumption]. tauto. }
  ring.
Qed.
End Ring.
