(* C19_Commit.v — hand-written model of
     Behavior.Integrate / __Integrate_3d dispatch      (EasyFEA/Models/InElastic/_behavior.py)
     Simulations.InElastic  __z / __zOld handling        (EasyFEA/Simulations/_inelastic.py)
   and the theorems integrate_pure / commit_only_on_save / elastic_exact.

   Integrate is modelled as a FUNCTION (eps, zOld, dt) -> (sig, C_alg, z, converged): that the
   Python method really is one (no write to its arguments, no hidden state) is what the
   correspondence check establishes bitwise on every call it makes. *)
From Coq Require Import List Bool Arith Lia Reals Lra.
Import ListNotations.

(* ------------------------------------------------------------------------------------------ *)
(* 1. the simulation's committed / trial state                                                 *)
(* ------------------------------------------------------------------------------------------ *)
Section Commit.
  Variables Strain Stress Tangent State Group : Type.
  Variable zeros : State.                      (* Behavior.State_zeros *)
  Variable integrate : Strain -> State -> Stress * Tangent * State * bool.

  Definition trial_of (r : Stress * Tangent * State * bool) : State := snd (fst r).

  (* dict[ElemType, FeArray] : a missing key is None *)
  Definition smap : Type := Group -> option State.

  Record sim := mkSim { z : smap; zOld : smap; hist : list smap }.

  (* __Get_state: the committed state of a group, zeros if none yet *)
  Definition committed (s : sim) (g : Group) : State :=
    match zOld s g with Some a => a | None => zeros end.

  Inductive op :=
  | Assemble (eps : Group -> Strain) (reached : Group -> bool)
      (* Construct_local_matrix_system at the current Newton iterate; `reached g = false` for the
         groups after a failing `assert converged.all()` (the exception leaves them untouched) *)
  | ReadResult          (* Result / _Calc_psi : only __Get_state (lazy zeros) *)
  | Save                (* Save_Iter *)
  | SetIter (i : nat)   (* Set_Iter(i) *)
  | ResetMesh.          (* _Init_internal_variables: the mesh is replaced, both dicts are emptied
                           (same as __init__); the saved iterations stay in the base class *)

  Definition exec (s : sim) (o : op) : sim :=
    match o with
    | Assemble eps reached =>
        mkSim (fun g => if reached g then Some (trial_of (integrate (eps g) (committed s g))) else z s g)
              (fun g => if reached g then Some (committed s g) else zOld s g)
              (hist s)
    | ReadResult => mkSim (z s) (fun g => Some (committed s g)) (hist s)
    | Save => mkSim (z s) (z s) (hist s ++ [z s])
    | SetIter i =>
        match nth_error (hist s) i with
        | Some h => mkSim h h (hist s)
        | None => s
        end
    | ResetMesh => mkSim (fun _ => None) (fun _ => None) (hist s)
    end.

  Definition run (s : sim) (ops : list op) : sim := fold_left exec ops s.

  Definition no_commit (o : op) : Prop :=
    match o with Assemble _ _ | ReadResult => True | Save | SetIter _ | ResetMesh => False end.

  Lemma exec_no_commit : forall s o g, no_commit o -> committed (exec s o) g = committed s g.
  Proof.
    intros s o g H. destruct o; simpl in H; try contradiction; unfold committed; simpl.
    - destruct (reached g); reflexivity.
    - reflexivity.
  Qed.

  (* C19 commit_only_on_save / integrate_pure: ANY sequence of assemblies (Newton iterations,
     line searches, repeated Solve calls, result queries) leaves the committed state of every
     group unchanged *)
  Theorem commit_only_on_save : forall ops s, Forall no_commit ops ->
      forall g, committed (run s ops) g = committed s g.
  Proof.
    unfold run. induction ops as [|o r IH]; intros s H g; simpl; [reflexivity|].
    inversion H; subst. rewrite IH by assumption. apply exec_no_commit; assumption.
  Qed.

  (* FRAME CONDITION, per operation: if an operation changes the committed state of some group,
     it is Save_Iter, Set_Iter or the mesh replacement -- never an assembly or a result query *)
  Theorem only_commit_ops_change_committed : forall s o g,
      committed (exec s o) g <> committed s g ->
      o = Save \/ (exists i, o = SetIter i) \/ o = ResetMesh.
  Proof.
    intros s o g Hne. destruct o as [eps reached| | |i|].
    - exfalso. apply Hne. apply exec_no_commit. exact I.
    - exfalso. apply Hne. apply exec_no_commit. exact I.
    - left; reflexivity.
    - right; left; exists i; reflexivity.
    - right; right; reflexivity.
  Qed.

  (* FRAME CONDITION, for EVERY op list: whatever came before (saves, restores, remeshing,
     assemblies in any order), the committed state after the list is the one right after its last
     committing operation; the assemblies / result queries that follow leave every group equal *)
  Theorem committed_fixed_since_last_commit : forall pre post s, Forall no_commit post ->
      forall g, committed (run s (pre ++ post)) g = committed (run s pre) g.
  Proof.
    intros pre post s H g. unfold run. rewrite fold_left_app.
    apply (commit_only_on_save post (fold_left exec pre s) H g).
  Qed.

  (* every op list splits this way: a prefix ending with its last committing op (or empty) and a
     commit-free suffix *)
  Lemma split_last_commit : forall ops : list op,
      exists pre post, ops = pre ++ post /\ Forall no_commit post /\
                       (pre = [] \/ exists pre' c, pre = pre' ++ [c] /\ ~ no_commit c).
  Proof.
    induction ops as [|o r IH] using rev_ind.
    - exists [], []. repeat split; [constructor | left; reflexivity].
    - destruct IH as [pre [post [E [Hp Hc]]]].
      assert (D : no_commit o \/ ~ no_commit o) by (destruct o; simpl; auto).
      destruct D as [D|D].
      + exists pre, (post ++ [o]). repeat split.
        * rewrite E, app_assoc. reflexivity.
        * apply Forall_app. split; [exact Hp | constructor; [exact D | constructor]].
        * exact Hc.
      + exists (r ++ [o]), []. repeat split.
        * rewrite app_nil_r. reflexivity.
        * constructor.
        * right. exists r, o. split; [reflexivity | exact D].
  Qed.

  (* every assembly of an increment integrates from the SAME committed state, and Save commits
     the trial state of the LAST assembly *)
  Theorem save_commits_last_trial : forall ops s eps, Forall no_commit ops ->
      forall g, committed (run s (ops ++ [Assemble eps (fun _ => true); Save])) g
                = trial_of (integrate (eps g) (committed s g)).
  Proof.
    intros ops s eps H g. unfold run. rewrite fold_left_app. simpl. unfold committed at 1. simpl.
    f_equal. f_equal. apply (commit_only_on_save ops s H g).
  Qed.

  Theorem set_iter_restores : forall s i h, nth_error (hist s) i = Some h ->
      forall g, committed (exec s (SetIter i)) g = match h g with Some a => a | None => zeros end.
  Proof. intros s i h H g. unfold committed; simpl. rewrite H. reflexivity. Qed.

  (* saved history is append-only *)
  Theorem history_append_only : forall ops s, exists l, hist (run s ops) = hist s ++ l.
  Proof.
    unfold run. induction ops as [|o r IH]; intros s; simpl.
    - exists []. rewrite app_nil_r. reflexivity.
    - destruct (IH (exec s o)) as [l Hl]. rewrite Hl.
      destruct o; simpl.
      + exists l; reflexivity.
      + exists l; reflexivity.
      + exists (z s :: l). rewrite <- app_assoc. reflexivity.
      + destruct (nth_error (hist s) i); simpl; exists l; reflexivity.
      + exists l; reflexivity.
  Qed.

  (* replacing the mesh = a fresh material history: every group is virgin again, no trial state *)
  Theorem reset_is_fresh : forall s g,
      committed (exec s ResetMesh) g = zeros /\ z (exec s ResetMesh) g = None /\
      hist (exec s ResetMesh) = hist s.
  Proof. intros; repeat split; reflexivity. Qed.

  (* Save replaces __zOld by (a copy of) __z wholesale.  It cannot lose committed history:
     from a fresh simulation, a group missing from __z has a virgin committed state. *)
  Definition fresh : sim := mkSim (fun _ => None) (fun _ => None) [].
  Lemma inv_hist_entry : forall ops, forall g, z (run fresh ops) g = None -> committed (run fresh ops) g = zeros.
  Proof.
    (* strengthened: also every history entry h satisfies nothing special -- restoring h sets z = zOld = h *)
    assert (H : forall ops s, (forall g, z s g = None -> committed s g = zeros) ->
                              forall g, z (run s ops) g = None -> committed (run s ops) g = zeros).
    { unfold run. induction ops as [|o r IH]; intros s Hs g; simpl; [apply Hs|].
      apply IH. clear IH g. intros g. destruct o; unfold committed; simpl.
      - destruct (reached g); [discriminate|]. apply Hs.
      - intro Hz. specialize (Hs g Hz). unfold committed in Hs. exact Hs.
      - intro Hz; rewrite Hz; reflexivity.
      - destruct (nth_error (hist s) i); simpl; [intro Hz; rewrite Hz; reflexivity | apply Hs].
      - reflexivity. }
    intros ops. apply H. intros g _. reflexivity.
  Qed.

  Theorem save_never_loses_history : forall ops g,
      committed (exec (run fresh ops) Save) g =
      match z (run fresh ops) g with Some a => a | None => committed (run fresh ops) g end.
  Proof.
    intros. unfold committed at 1; simpl. destruct (z (run fresh ops) g) eqn:E; [reflexivity|].
    symmetry. apply inv_hist_entry; assumption.
  Qed.
End Commit.

(* ------------------------------------------------------------------------------------------ *)
(* 2. Behavior.Integrate dispatch, 3D / plane strain                                           *)
(* ------------------------------------------------------------------------------------------ *)
Open Scope R_scope.
Definition Vec := list R.
Definition Mat := list (list R).
Definition dot (a b : Vec) : R := fold_right Rplus 0 (map (fun p => fst p * snd p) (combine a b)).
Definition mv (M : Mat) (v : Vec) : Vec := map (fun row => dot row v) M.

Section Integrate.
  Variable State : Type.

  Record behavior := mkBehavior {
    Cmat : Mat; has_yield : bool; nkin : nat; nbranch : nat; reducible : bool }.

  (* StateLayout.n : eps_p (6) + p (1) if there is a surface, 6 per back-strain, 6 per branch *)
  Definition layout_n (b : behavior) : nat :=
    ((if has_yield b then 7 else 0) + 6 * nkin b + 6 * nbranch b)%nat.
  (* the constructor's assertion: hardening / kinematic / rate need a yield surface *)
  Definition accepted (b : behavior) : Prop := has_yield b = false -> nkin b = O.

  (* the two local solvers are abstract here (Return1D models the spectral one) *)
  Variable spectral flow : behavior -> Vec -> State -> R -> Vec * Mat * State * bool.

  Definition integrate3d (b : behavior) (eps : Vec) (zOld : State) (dt : R) : Vec * Mat * State * bool :=
    if Nat.eqb (layout_n b) 0 then (mv (Cmat b) eps, Cmat b, zOld, true)
    else if reducible b then spectral b eps zOld dt
    else flow b eps zOld dt.

  (* IDX_2D = [0, 1, 5] *)
  Definition nthR (v : Vec) (i : nat) : R := nth i v 0.
  Definition embed2 (e : Vec) : Vec := [nthR e 0; nthR e 1; 0; 0; 0; nthR e 2].
  Definition take2 (v : Vec) : Vec := [nthR v 0; nthR v 1; nthR v 5].
  Definition sub2 (M : Mat) : Mat := map take2 [nth 0 M []; nth 1 M []; nth 5 M []].

  Inductive mode := M3D | PlaneStrain.

  Definition Integrate (b : behavior) (m : mode) (eps : Vec) (zOld : State) (dt : R)
    : Vec * Mat * State * bool :=
    match m with
    | M3D => integrate3d b eps zOld dt
    | PlaneStrain =>
        let r := integrate3d b (embed2 eps) zOld dt in
        (take2 (fst (fst (fst r))), sub2 (snd (fst (fst r))), snd (fst r), snd r)
    end.

  (* C19 elastic_exact : no yield surface, no branches => sigma = C eps, C_alg = C, state untouched *)
  Theorem elastic_exact : forall b eps zOld dt, accepted b -> has_yield b = false -> nbranch b = O ->
      Integrate b M3D eps zOld dt = (mv (Cmat b) eps, Cmat b, zOld, true) /\
      Integrate b PlaneStrain eps zOld dt
      = (take2 (mv (Cmat b) (embed2 eps)), sub2 (Cmat b), zOld, true).
  Proof.
    intros b eps zOld dt Hacc Hy Hb.
    assert (Hn : layout_n b = O) by (unfold layout_n; rewrite Hy, Hb, (Hacc Hy); reflexivity).
    unfold Integrate, integrate3d. rewrite Hn. simpl. split; reflexivity.
  Qed.

  (* Integrate is a function: equal inputs give equal outputs, whatever was called in between
     (trivial in Gallina; it is the *statement* the bitwise correspondence checks on the code) *)
  Theorem integrate_pure : forall b m eps zOld dt (calls : list (mode * Vec * State * R)),
      let before := Integrate b m eps zOld dt in
      let _ := map (fun c => Integrate b (fst (fst (fst c))) (snd (fst (fst c))) (snd (fst c)) (snd c)) calls in
      Integrate b m eps zOld dt = before.
  Proof. reflexivity. Qed.
End Integrate.

(* non-vacuity *)
Example elastic_behavior_accepted :
  accepted (mkBehavior [[2; 0]; [0; 2]] false 0 0 false) /\
  has_yield (mkBehavior [[2; 0]; [0; 2]] false 0 0 false) = false.
Proof. split; [intro; reflexivity | reflexivity]. Qed.

Example no_commit_sat : Forall (no_commit nat nat) [Assemble nat nat (fun _ => 1%nat) (fun _ => true); ReadResult nat nat].
Proof. repeat constructor. Qed.
