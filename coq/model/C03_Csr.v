(* C03 -- model of EasyFEA's sparse assembly (Simulations/_simu.py __Assemble_csr / __Get_csr_map,
   FEM/_group_elem.py _Get_assembly_e / Get_rows_e / Get_columns_e) and the refinement theorem
   "assembled CSR = dense scatter-add".  Index values are Z, list positions (slots) are nat. *)
From Coq Require Import ZArith List Bool Lia.
Import ListNotations.
Open Scope Z_scope.

(* ------------------------------------------------------------------ *)
(* generic list helpers                                                *)
(* ------------------------------------------------------------------ *)
Definition zrange (n : Z) : list Z := map Z.of_nat (seq 0 (Z.to_nat n)).

Lemma zrange_length n : length (zrange n) = Z.to_nat n.
Proof. unfold zrange. now rewrite map_length, seq_length. Qed.

Lemma in_zrange n x : In x (zrange n) <-> 0 <= x < n.
Proof.
  unfold zrange. rewrite in_map_iff. split.
  - intros (k & <- & H). apply in_seq in H. lia.
  - intros H. exists (Z.to_nat x). split; [lia|]. apply in_seq. lia.
Qed.

Lemma nth_zrange n r d : 0 <= r < n -> nth (Z.to_nat r) (zrange n) d = r.
Proof.
  intros H. unfold zrange.
  rewrite nth_indep with (d' := Z.of_nat 0) by (rewrite map_length, seq_length; lia).
  rewrite map_nth, seq_nth by lia. lia.
Qed.

(* strictly increasing *)
Fixpoint ssorted (l : list Z) : Prop :=
  match l with
  | [] => True
  | x :: t => (forall y, In y t -> x < y) /\ ssorted t
  end.

(* np.unique-like: insertion into a strictly sorted list *)
Fixpoint insert_u (x : Z) (l : list Z) : list Z :=
  match l with
  | [] => [x]
  | y :: t => if x <? y then x :: l else if x =? y then l else y :: insert_u x t
  end.
Definition usort (l : list Z) : list Z := fold_right insert_u [] l.

Lemma insert_u_In x l y : In y (insert_u x l) <-> y = x \/ In y l.
Proof.
  induction l as [|a t IH]; simpl.
  - intuition.
  - destruct (x <? a) eqn:E1; [simpl; intuition|].
    destruct (x =? a) eqn:E2.
    + apply Z.eqb_eq in E2. subst. simpl. intuition.
    + simpl. rewrite IH. intuition.
Qed.

Lemma insert_u_sorted x l : ssorted l -> ssorted (insert_u x l).
Proof.
  induction l as [|a t IH]; simpl; intros H.
  - split; [intros y []|exact I].
  - destruct H as [Ha Ht].
    destruct (x <? a) eqn:E1.
    + simpl. split; [|split; assumption].
      intros y [<-|Hy]; [lia|]. specialize (Ha y Hy). lia.
    + destruct (x =? a) eqn:E2; [simpl; split; assumption|].
      simpl. split; [|apply IH; assumption].
      intros y Hy. apply insert_u_In in Hy. destruct Hy as [->|Hy]; [lia|auto].
Qed.

Lemma usort_In l y : In y (usort l) <-> In y l.
Proof.
  induction l as [|a t IH]; simpl; [tauto|].
  rewrite insert_u_In, IH. intuition.
Qed.

Lemma usort_sorted l : ssorted (usort l).
Proof. induction l; simpl; [exact I|]. now apply insert_u_sorted. Qed.

(* np.searchsorted(sorted, x) (side='left') = number of elements < x *)
Fixpoint count_lt (l : list Z) (x : Z) : nat :=
  match l with
  | [] => O
  | y :: t => if y <? x then S (count_lt t x) else count_lt t x
  end.

Lemma count_lt_le_length l x : (count_lt l x <= length l)%nat.
Proof. induction l; simpl; [lia|]. destruct (a <? x); lia. Qed.

Lemma count_lt_all_ge l x : (forall y, In y l -> x <= y) -> count_lt l x = O.
Proof.
  induction l as [|a t IH]; simpl; intros H; [reflexivity|].
  destruct (a <? x) eqn:E; [specialize (H a (or_introl eq_refl)); lia|].
  apply IH. intros y Hy. apply H. now right.
Qed.

Lemma count_lt_In_lt l x : In x l -> (count_lt l x < length l)%nat.
Proof.
  induction l as [|a t IH]; simpl; intros H; [contradiction|].
  destruct H as [->|H].
  - rewrite Z.ltb_irrefl. pose proof (count_lt_le_length t x). lia.
  - specialize (IH H). destruct (a <? x); lia.
Qed.

Lemma count_lt_nth l x d : ssorted l -> In x l -> nth (count_lt l x) l d = x.
Proof.
  induction l as [|a t IH]; simpl; intros Hs H; [contradiction|].
  destruct Hs as [Ha Ht]. destruct H as [->|H].
  - rewrite Z.ltb_irrefl. rewrite count_lt_all_ge; [reflexivity|].
    intros y Hy. specialize (Ha y Hy). lia.
  - specialize (Ha x H). destruct (a <? x) eqn:E; [|lia]. now apply IH.
Qed.

Lemma count_lt_inj l x y : ssorted l -> In x l -> In y l -> count_lt l x = count_lt l y -> x = y.
Proof.
  intros Hs Hx Hy E.
  rewrite <- (count_lt_nth l x 0 Hs Hx), <- (count_lt_nth l y 0 Hs Hy). now rewrite E.
Qed.

(* ------------------------------------------------------------------ *)
(* association lists sorted by key: slices by searchsorted positions   *)
(* ------------------------------------------------------------------ *)
Section Keyed.
Context {B : Type}.
Implicit Types E : list (Z * B).

Definition keys E := map (@fst Z B) E.

Lemma firstn_count_lt E b :
  ssorted (keys E) -> firstn (count_lt (keys E) b) E = filter (fun e => fst e <? b) E.
Proof.
  induction E as [|e t IH]; simpl; intros Hs; [reflexivity|].
  destruct Hs as [Ha Ht]. destruct (fst e <? b) eqn:E1.
  - simpl. f_equal. now apply IH.
  - rewrite count_lt_all_ge.
    2:{ intros y Hy. specialize (Ha y Hy). lia. }
    simpl. symmetry.
    assert (Hf : forall x, In x t -> (fst x <? b) = false).
    { intros x Hx. assert (In (fst x) (keys t)) by (apply in_map; exact Hx).
      specialize (Ha _ H). lia. }
    clear -Hf. induction t as [|x t IH]; simpl; [reflexivity|].
    rewrite (Hf x (or_introl eq_refl)). apply IH. intros y Hy. apply Hf. now right.
Qed.

Lemma skipn_count_lt E a :
  ssorted (keys E) -> skipn (count_lt (keys E) a) E = filter (fun e => a <=? fst e) E.
Proof.
  induction E as [|e t IH]; simpl; intros Hs; [reflexivity|].
  destruct Hs as [Ha Ht]. destruct (fst e <? a) eqn:E1.
  - simpl. replace (a <=? fst e) with false by lia. now apply IH.
  - replace (a <=? fst e) with true by lia.
    rewrite count_lt_all_ge.
    2:{ intros y Hy. specialize (Ha y Hy). lia. }
    simpl. f_equal. symmetry.
    assert (Hf : forall x, In x t -> (a <=? fst x) = true).
    { intros x Hx. assert (In (fst x) (keys t)) by (apply in_map; exact Hx).
      specialize (Ha _ H). lia. }
    clear -Hf. induction t as [|x t IH]; simpl; [reflexivity|].
    rewrite (Hf x (or_introl eq_refl)). f_equal. apply IH. intros y Hy. apply Hf. now right.
Qed.

Lemma ssorted_filter_keys E (p : Z * B -> bool) : ssorted (keys E) -> ssorted (keys (filter p E)).
Proof.
  induction E as [|e t IH]; simpl; intros Hs; [exact I|].
  destruct Hs as [Ha Ht]. destruct (p e); simpl.
  - split; [|now apply IH]. intros y Hy. apply Ha.
    unfold keys in *. apply in_map_iff in Hy. destruct Hy as (x & <- & Hx).
    apply filter_In in Hx. apply in_map. tauto.
  - now apply IH.
Qed.

Lemma count_lt_filter_lt E a b :
  a <= b -> count_lt (keys (filter (fun e => fst e <? b) E)) a = count_lt (keys E) a.
Proof.
  intros Hab. induction E as [|e t IH]; simpl; [reflexivity|].
  destruct (fst e <? b) eqn:E1; simpl.
  - now rewrite IH.
  - replace (fst e <? a) with false by lia. exact IH.
Qed.

(* python l[lo:hi] *)
Definition slice {A} (lo hi : nat) (l : list A) : list A := skipn lo (firstn hi l).

Lemma slice_count_lt E a b :
  ssorted (keys E) -> a <= b ->
  slice (count_lt (keys E) a) (count_lt (keys E) b) E
  = filter (fun e => (a <=? fst e) && (fst e <? b)) E.
Proof.
  intros Hs Hab. unfold slice. rewrite firstn_count_lt by assumption.
  rewrite <- (count_lt_filter_lt E a b Hab).
  rewrite skipn_count_lt by (now apply ssorted_filter_keys).
  clear. induction E as [|e t IH]; simpl; [reflexivity|].
  destruct (fst e <? b) eqn:E1; simpl.
  - destruct (a <=? fst e); simpl; now rewrite IH.
  - rewrite andb_false_r. exact IH.
Qed.
End Keyed.

Lemma slice_map {A C} (f : A -> C) lo hi l : slice lo hi (map f l) = map f (slice lo hi l).
Proof. unfold slice. now rewrite firstn_map, skipn_map. Qed.

Lemma combine_map_l {A C D} (f : A -> C) (l : list A) (l' : list D) :
  combine (map f l) l' = map (fun e => (f (fst e), snd e)) (combine l l').
Proof.
  revert l'. induction l as [|a t IH]; intros [|b t']; simpl; try reflexivity. now rewrite IH.
Qed.

Lemma keys_combine {B} (K : list Z) (D : list B) : length D = length K -> keys (combine K D) = K.
Proof.
  revert D. induction K as [|k t IH]; intros [|d D'] H; simpl in *; try reflexivity; try discriminate.
  f_equal. apply IH. lia.
Qed.

(* ------------------------------------------------------------------ *)
(* values: any commutative monoid                                      *)
(* ------------------------------------------------------------------ *)
Section Monoid.
Variable V : Type.
Variable vadd : V -> V -> V.
Variable vzero : V.
Hypothesis vadd_comm : forall a b, vadd a b = vadd b a.
Hypothesis vadd_assoc : forall a b c, vadd a (vadd b c) = vadd (vadd a b) c.
Hypothesis vadd_0_l : forall a, vadd vzero a = a.

Lemma vadd_0_r a : vadd a vzero = a.
Proof. now rewrite vadd_comm, vadd_0_l. Qed.

Definition vsum (l : list V) : V := fold_right vadd vzero l.

Lemma vsum_app l1 l2 : vsum (l1 ++ l2) = vadd (vsum l1) (vsum l2).
Proof.
  induction l1; simpl; [now rewrite vadd_0_l|]. now rewrite IHl1, vadd_assoc.
Qed.

Lemma vsum_zero {A} (l : list A) (f : A -> V) : (forall x, In x l -> f x = vzero) -> vsum (map f l) = vzero.
Proof.
  induction l; simpl; intros H; [reflexivity|].
  rewrite H by now left. rewrite vadd_0_l. apply IHl. intros x Hx. apply H. now right.
Qed.

Lemma vsum_filter {A} (p : A -> bool) (f : A -> V) l :
  vsum (map f (filter p l)) = vsum (map (fun x => if p x then f x else vzero) l).
Proof.
  induction l as [|a t IH]; simpl; [reflexivity|].
  destruct (p a); simpl; [now rewrite IH|]. now rewrite vadd_0_l.
Qed.

(* np.bincount(inv, weights=data, minlength=nnz): in-order accumulation *)
Fixpoint upd_add (s : nat) (v : V) (l : list V) : list V :=
  match l, s with
  | [], _ => []
  | x :: t, O => vadd x v :: t
  | x :: t, S s' => x :: upd_add s' v t
  end.

Definition bincount (inv : list nat) (data : list V) (nnz : nat) : list V :=
  fold_left (fun acc sv => upd_add (fst sv) (snd sv) acc) (combine inv data) (repeat vzero nnz).

Lemma upd_add_length s v l : length (upd_add s v l) = length l.
Proof. revert s. induction l; intros [|s]; simpl; auto. Qed.

Lemma nth_upd_add s v l s' :
  (s' < length l)%nat ->
  nth s' (upd_add s v l) vzero = if Nat.eqb s s' then vadd (nth s' l vzero) v else nth s' l vzero.
Proof.
  revert s s'. induction l as [|x t IH]; intros s s' H; simpl in H; [lia|].
  destruct s, s'; simpl; try reflexivity. apply IH. lia.
Qed.

Definition slot_sum (inv : list nat) (data : list V) (s : nat) : V :=
  vsum (map (fun sv => if Nat.eqb (fst sv) s then snd sv else vzero) (combine inv data)).

Lemma fold_upd_length l acc :
  length (fold_left (fun acc sv => upd_add (fst sv) (snd sv) acc) l acc) = length acc.
Proof. revert acc. induction l; intros; simpl; [reflexivity|]. now rewrite IHl, upd_add_length. Qed.

Lemma bincount_length inv data nnz : length (bincount inv data nnz) = nnz.
Proof. unfold bincount. now rewrite fold_upd_length, repeat_length. Qed.

Lemma nth_fold_upd l acc s :
  (s < length acc)%nat ->
  nth s (fold_left (fun acc sv => upd_add (fst sv) (snd sv) acc) l acc) vzero
  = vadd (nth s acc vzero) (vsum (map (fun sv => if Nat.eqb (fst sv) s then snd sv else vzero) l)).
Proof.
  revert acc. induction l as [|[s1 v1] t IH]; intros acc H; simpl.
  - now rewrite vadd_0_r.
  - rewrite IH by (now rewrite upd_add_length). rewrite nth_upd_add by assumption.
    destruct (Nat.eqb s1 s); [now rewrite vadd_assoc|now rewrite vadd_0_l].
Qed.

Lemma nth_bincount inv data nnz s :
  (s < nnz)%nat -> nth s (bincount inv data nnz) vzero = slot_sum inv data s.
Proof.
  intros H. unfold bincount, slot_sum. rewrite nth_fold_upd by (now rewrite repeat_length).
  rewrite nth_repeat. apply vadd_0_l.
Qed.

(* sum of the values stored under key l in an association list *)
Definition key_sum (E : list (Z * V)) (l : Z) : V :=
  vsum (map (fun e => if fst e =? l then snd e else vzero) E).

Lemma key_sum_sorted K D l :
  ssorted K -> length D = length K -> In l K ->
  key_sum (combine K D) l = nth (count_lt K l) D vzero.
Proof.
  revert D. induction K as [|x K' IH]; intros [|d D'] Hs HL Hin; simpl in *; try contradiction; try discriminate.
  destruct Hs as [Ha Hs']. unfold key_sum. simpl. destruct Hin as [->|Hin].
  - rewrite Z.eqb_refl, Z.ltb_irrefl.
    rewrite count_lt_all_ge by (intros y Hy; specialize (Ha y Hy); lia).
    rewrite vsum_zero; [apply vadd_0_r|].
    intros [k v] Hk. simpl. apply in_combine_l in Hk. specialize (Ha k Hk).
    destruct (k =? l) eqn:E; [lia|reflexivity].
  - specialize (Ha l Hin). replace (x =? l) with false by lia. replace (x <? l) with true by lia.
    rewrite vadd_0_l. apply IH; auto.
Qed.

Lemma key_sum_absent K D l : ~ In l K -> key_sum (combine K D) l = vzero.
Proof.
  intros H. unfold key_sum. apply vsum_zero. intros [k v] Hk. simpl.
  apply in_combine_l in Hk. destruct (k =? l) eqn:E; [|reflexivity].
  apply Z.eqb_eq in E. subst. contradiction.
Qed.

(* ------------------------------------------------------------------ *)
(* the reduction map (__Get_csr_map) and the assembled CSR             *)
(* ------------------------------------------------------------------ *)
Record csrmap := { m_inv : list nat; m_indices : list Z; m_indptr : list nat; m_nnz : nat }.

Definition lin (ncol : Z) (rc : Z * Z) : Z := fst rc * ncol + snd rc.

Definition get_csr_map (isMatrix : bool) (Ndof : Z) (rows cols : list Z) : csrmap :=
  let ncol := if isMatrix then Ndof else 1 in
  let lins := map (lin ncol) (combine rows cols) in
  let canon := usort lins in
  {| m_inv := map (count_lt canon) lins;
     m_indices := map (fun l => l mod ncol) canon;
     m_indptr := map (fun r => count_lt canon (r * ncol)) (zrange (Ndof + 1));
     m_nnz := length canon |}.

Record csr := { c_data : list V; c_indices : list Z; c_indptr : list nat }.

Definition assemble_with (m : csrmap) (data : list V) : csr :=
  {| c_data := bincount (m_inv m) data (m_nnz m); c_indices := m_indices m; c_indptr := m_indptr m |}.

Definition empty_csr (Ndof : Z) : csr :=
  {| c_data := []; c_indices := []; c_indptr := repeat O (Z.to_nat (Ndof + 1)) |}.

(* the matrix a CSR triple denotes *)
Definition csr_get (M : csr) (r c : Z) : V :=
  let lo := nth (Z.to_nat r) (c_indptr M) O in
  let hi := nth (S (Z.to_nat r)) (c_indptr M) O in
  vsum (map (fun iv => if fst iv =? c then snd iv else vzero)
            (slice lo hi (combine (c_indices M) (c_data M)))).

(* the specification: dense scatter-add of the (row, col, value) triplets *)
Definition dense_sum (rows cols : list Z) (data : list V) (r c : Z) : V :=
  vsum (map (fun t => if (fst (fst t) =? r) && (snd (fst t) =? c) then snd t else vzero)
            (combine (combine rows cols) data)).

Definition in_range (nrow ncol : Z) (rc : Z * Z) : Prop := 0 <= fst rc < nrow /\ 0 <= snd rc < ncol.

Lemma lin_inj ncol r c r' c' :
  0 <= c < ncol -> 0 <= c' < ncol -> (r * ncol + c = r' * ncol + c' <-> r = r' /\ c = c').
Proof.
  intros H1 H2. split; [|intros [-> ->]; reflexivity]. intros E.
  assert (r = r').
  { destruct (Z.lt_trichotomy r r') as [H|[H|H]]; [exfalso|assumption|exfalso].
    - assert (r' * ncol >= (r + 1) * ncol) by (apply Z.le_ge, Z.mul_le_mono_nonneg_r; lia). lia.
    - assert (r * ncol >= (r' + 1) * ncol) by (apply Z.le_ge, Z.mul_le_mono_nonneg_r; lia). lia. }
  subst. split; [reflexivity|lia].
Qed.

Lemma row_mod_char ncol r c l :
  0 <= c < ncol ->
  ((r * ncol <=? l) && (l <? (r + 1) * ncol) && (l mod ncol =? c)) = (l =? r * ncol + c).
Proof.
  intros Hc. destruct (l =? r * ncol + c) eqn:E.
  - apply Z.eqb_eq in E. subst l.
    rewrite Z.add_comm, Z.mod_add by lia. rewrite Z.mod_small by lia.
    rewrite Z.eqb_refl. replace (r * ncol <=? c + r * ncol) with true by lia.
    replace (c + r * ncol <? (r + 1) * ncol) with true by lia. reflexivity.
  - apply Z.eqb_neq in E.
    destruct (r * ncol <=? l) eqn:E1; [|reflexivity].
    destruct (l <? (r + 1) * ncol) eqn:E2; [|reflexivity]. simpl.
    destruct (l mod ncol =? c) eqn:E3; [|reflexivity]. exfalso. apply E.
    apply Z.eqb_eq in E3. subst c.
    assert (l / ncol = r).
    { symmetry. apply Z.div_unique with (r := l - r * ncol); lia. }
    pose proof (Z.div_mod l ncol ltac:(lia)). subst r. lia.
Qed.

Section Refine.
Variable isMatrix : bool.
Variable Ndof : Z.
Variables rows cols : list Z.
Variable data : list V.
Let ncol := if isMatrix then Ndof else 1.
Hypothesis Hrange : forall rc, In rc (combine rows cols) -> in_range Ndof ncol rc.

Let lins := map (lin ncol) (combine rows cols).
Let canon := usort lins.
Let M := assemble_with (get_csr_map isMatrix Ndof rows cols) data.

Lemma csr_get_key_sum r c :
  0 <= r < Ndof -> 0 <= c < ncol ->
  csr_get M r c = key_sum (combine canon (c_data M)) (r * ncol + c).
Proof.
  intros Hr Hc. unfold csr_get, M, assemble_with, get_csr_map. simpl. fold ncol lins canon.
  set (D := bincount _ _ _).
  assert (HL : length D = length canon) by apply bincount_length.
  rewrite nth_indep with (d' := count_lt canon (0 * ncol)) by (rewrite map_length, zrange_length; lia).
  rewrite (nth_indep _ O (count_lt canon (0 * ncol))) by (rewrite map_length, zrange_length; lia).
  rewrite !(map_nth (fun r0 => count_lt canon (r0 * ncol))).
  replace (S (Z.to_nat r)) with (Z.to_nat (r + 1)) by lia.
  rewrite !nth_zrange by lia.
  rewrite combine_map_l, slice_map, map_map.
  pose proof (keys_combine canon D HL) as HK.
  rewrite <- HK at 1 2.
  rewrite slice_count_lt by (rewrite ?HK; try apply usort_sorted; lia).
  rewrite vsum_filter. unfold key_sum. f_equal. apply map_ext. intros [l v]. simpl.
  rewrite <- (row_mod_char ncol r c l Hc).
  destruct ((r * ncol <=? l) && (l <? (r + 1) * ncol)); simpl; reflexivity.
Qed.

(* C03 core: nothing dropped, duplicated or misplaced *)
Theorem csr_refines_dense r c :
  0 <= r < Ndof -> 0 <= c < ncol ->
  csr_get M r c = dense_sum rows cols data r c.
Proof.
  intros Hr Hc. rewrite csr_get_key_sum by assumption.
  unfold M, assemble_with, get_csr_map. simpl. fold ncol lins canon.
  set (l := r * ncol + c).
  assert (Hcs : ssorted canon) by apply usort_sorted.
  assert (Hden : dense_sum rows cols data r c
                 = vsum (map (fun t => if lin ncol (fst t) =? l then snd t else vzero)
                             (combine (combine rows cols) data))).
  { unfold dense_sum. f_equal. apply map_ext_in. intros [[r' c'] v] Hin. simpl.
    apply in_combine_l in Hin. apply Hrange in Hin. destruct Hin as [_ Hc']. simpl in Hc'.
    unfold lin, l. simpl.
    destruct ((r' =? r) && (c' =? c)) eqn:E1; destruct (r' * ncol + c' =? r * ncol + c) eqn:E2; try reflexivity.
    - apply andb_true_iff in E1. destruct E1 as [E1 E3]. apply Z.eqb_eq in E1, E3. subst. lia.
    - apply Z.eqb_eq in E2.
      assert (Hc2 : 0 <= c' < ncol) by lia.
      destruct (proj1 (lin_inj ncol r' c' r c Hc2 Hc) E2) as [-> ->].
      rewrite !Z.eqb_refl in E1. discriminate. }
  rewrite Hden.
  destruct (in_dec Z.eq_dec l canon) as [Hin|Hnin].
  - rewrite key_sum_sorted; auto; [|apply bincount_length].
    rewrite nth_bincount by (now apply count_lt_In_lt).
    unfold slot_sum, lins.
    (* combine (map f X) data = map ... (combine X data) *)
    rewrite (map_map (lin ncol) (count_lt canon)).
    rewrite combine_map_l, map_map. f_equal. apply map_ext_in. intros [rc v] Hrc. simpl.
    assert (In (lin ncol rc) canon).
    { apply usort_In. unfold lins. apply in_map. now apply in_combine_l in Hrc. }
    destruct (Nat.eqb (count_lt canon (lin ncol rc)) (count_lt canon l)) eqn:E1;
      destruct (lin ncol rc =? l) eqn:E2; try reflexivity.
    + apply Nat.eqb_eq in E1. apply count_lt_inj in E1; auto. lia.
    + apply Z.eqb_eq in E2. rewrite E2, Nat.eqb_refl in E1. discriminate.
  - rewrite key_sum_absent by assumption. symmetry. apply vsum_zero.
    intros [rc v] Hrc. simpl. destruct (lin ncol rc =? l) eqn:E; [|reflexivity].
    exfalso. apply Hnin. apply usort_In. unfold lins. apply Z.eqb_eq in E. rewrite <- E.
    apply in_map. now apply in_combine_l in Hrc.
Qed.

End Refine.
End Monoid.
