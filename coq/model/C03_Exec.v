(* C03 -- executable instances of the model (values in Z, and Z*Z for the complex stream) and the
   boolean comparison functions used by the generated correspondence case files. *)
From Coq Require Import ZArith List Bool Lia.
From EFModel Require Import C03_Csr C03_Assembly.
Import ListNotations.
Open Scope Z_scope.

Fixpoint zll_eqb (a b : list (list Z)) : bool :=
  match a, b with
  | [], [] => true
  | x :: a', y :: b' => zlist_eqb x y && zll_eqb a' b'
  | _, _ => false
  end.
Fixpoint zlll_eqb (a b : list (list (list Z))) : bool :=
  match a, b with
  | [], [] => true
  | x :: a', y :: b' => zll_eqb x y && zlll_eqb a' b'
  | _, _ => false
  end.

(* environment: group id -> connectivity, from an association list (unknown id = empty group) *)
Fixpoint env_of (l : list (Z * group)) (g : Z) : group :=
  match l with
  | [] => []
  | (g', c) :: t => if g =? g' then c else env_of t g
  end.

Definition map_flat (m : csrmap) : list (list Z) :=
  [map Z.of_nat (m_inv m); m_indices m; map Z.of_nat (m_indptr m); [Z.of_nat (m_nnz m)]].

(* impl cache entry: (dof_n, isMatrix, Ndof, gids) and the cached (inv, indices, indptr, [nnz]) *)
Definition cache_entry_fresh (env : Z -> group) (e : key * list (list Z)) : bool :=
  zll_eqb (map_flat (fresh_map env (fst e))) (snd e).

Definition key_flat (k : key) : list Z :=
  let '(d, m, n, g) := k in d :: (if m then 1 else 0) :: n :: g.

Section Inst.
Variable V : Type.
Variable vadd : V -> V -> V.
Variable vzero : V.
Variable vflat : list V -> list Z.

Definition out_flat (M : csr V) : list (list Z) :=
  [vflat (c_data V M); c_indices V M; map Z.of_nat (c_indptr V M)].

Definition outs_flat (x : csr V * csr V * csr V * csr V) : list (list Z) :=
  out_flat (oK V x) ++ out_flat (oC V x) ++ out_flat (oM V x) ++ out_flat (oF V x).

(* run an op list, collecting the output of every Assembly() *)
Fixpoint run_collect (s : sim) (ops : list (op V)) : list (list (list Z)) * sim :=
  match ops with
  | [] => ([], s)
  | o :: t =>
    let outs := match o with
                | OAssembly _ pt dof_n tb => [outs_flat (fst (assembly V vadd vzero s pt dof_n tb))]
                | _ => []
                end in
    let r := run_collect (step V vadd vzero s o) t in
    (outs ++ fst r, snd r)
  end.

Definition check_case (env : Z -> group) (Nn0 : Z) (ops : list (op V))
           (expected : list (list (list Z)))
           (impl_cache : list (key * list (list Z)))
  : bool * bool * list (list Z) :=
  let s0 := {| s_env := env; s_Nn := Nn0; s_bcs := []; s_cache := [] |} in
  let r := run_collect s0 ops in
  (zlll_eqb (fst r) expected,
   forallb (cache_entry_fresh env) impl_cache,
   map (fun e => key_flat (fst e)) (s_cache (snd r))).

Definition model_outputs (env : Z -> group) (Nn0 : Z) (ops : list (op V)) : list (list (list Z)) :=
  fst (run_collect {| s_env := env; s_Nn := Nn0; s_bcs := []; s_cache := [] |} ops).
End Inst.

Definition cadd (a b : Z * Z) : Z * Z := (fst a + fst b, snd a + snd b).
Definition czero : Z * Z := (0, 0).
Definition cflat (l : list (Z * Z)) : list Z := flat_map (fun p => [fst p; snd p]) l.

Definition check_case_Z := check_case Z Z.add 0 (fun l => l).
Definition check_case_C := check_case (Z * Z) cadd czero cflat.
Definition model_outputs_Z := model_outputs Z Z.add 0 (fun l => l).
Definition model_outputs_C := model_outputs (Z * Z) cadd czero cflat.

Lemma cadd_comm a b : cadd a b = cadd b a.
Proof. unfold cadd. f_equal; lia. Qed.
Lemma cadd_assoc a b c : cadd a (cadd b c) = cadd (cadd a b) c.
Proof. unfold cadd. simpl. f_equal; lia. Qed.
Lemma cadd_0_l a : cadd czero a = a.
Proof. destruct a. reflexivity. Qed.

(* ---- large-index cases (Ndof > 46340: row*Ndof+col exceeds 2^31, Ndof^2 may exceed 2^32) ----------
   The model's indices are unbounded Z, the implementation's are fixed-width integers: these cases
   validate the "no index overflow" assumption of the theorems.  To avoid 50k-long indptr literals the
   comparison is on the coordinate triples: by C03_Csr.csr_get_key_sum the matrix denoted by the CSR
   is the association list  combine canon data  (canon = sorted distinct keys row*ncol+col), so slot s
   holds (canon[s] / ncol, canon[s] mod ncol, data[s]); inv is compared as well. *)
Definition big_model (isMatrix : bool) (Ndof dof_n : Z) (gs : list group) (data : list Z)
  : list (list Z) :=
  let rc := rows_cols dof_n isMatrix gs in
  let ncol := if isMatrix then Ndof else 1 in
  let lins := map (lin ncol) (combine (fst rc) (snd rc)) in
  let canon := usort lins in
  let inv := map (count_lt canon) lins in
  [map (fun l => l / ncol) canon; map (fun l => l mod ncol) canon;
   bincount Z Z.add 0 inv data (length canon); map Z.of_nat inv].

Definition big_check (isMatrix : bool) (Ndof dof_n : Z) (gs : list group) (data : list Z)
           (impl : list (list Z)) : bool :=
  zll_eqb (big_model isMatrix Ndof dof_n gs data) impl.

Lemma big_model_is_the_csr_map isMatrix Ndof dof_n gs data :
  let rc := rows_cols dof_n isMatrix gs in
  let m := get_csr_map isMatrix Ndof (fst rc) (snd rc) in
  nth 2 (big_model isMatrix Ndof dof_n gs data) [] = c_data Z (assemble_with Z Z.add 0 m data) /\
  nth 1 (big_model isMatrix Ndof dof_n gs data) [] = m_indices m /\
  nth 3 (big_model isMatrix Ndof dof_n gs data) [] = map Z.of_nat (m_inv m).
Proof. simpl. repeat split; reflexivity. Qed.
