(* C19_Unique.v — uniqueness of the returned state and agreement of any two solvers, radial
   eigen-structure (all non-zero eigenvalues equal), ANY non-decreasing isotropic hardening R
   (Linear, Voce, Swift, user-written), no rate law.

   Both local solvers of Behavior discretise the same consistency condition.  Reduced to the
   scalar theta it reads r(theta) = phi(theta) - sigma_y - R(p + theta phi(theta)) = 0.  Here:
     r(a) - r(b) >= phi0 lam (b - a) d(a) d(b)   for 0 <= a <= b         (quantitative monotonicity)
   hence r is strictly decreasing, has at most one root on theta >= 0, and ANY two theta that
   pass the break test |r| <= eps  give eigen-stresses within 2 eps |y_i| / phi0 of each other and
   accumulated plastic strains within 2 eps / lam -- whatever iteration produced them. *)
From Coquelicot Require Import Coquelicot.
From Coq Require Import Reals List Lra Bool Psatz.
From EFModel Require Import C19_Return1D C19_Return1D_proofs C19_Radial.
Import List ListNotations.
Open Scope R_scope.

Section Unique.
  Variable lam sy dt p : R.
  Variable Rh : R -> R.
  Variable ps : list (R * R).
  Hypothesis Hunif : uniform lam ps.
  Hypothesis Hlam : 0 < lam.
  Hypothesis Hphi0 : 0 < phi Rops ps 0.
  Hypothesis Rh_mono : forall x y, x <= y -> Rh x <= Rh y.      (* R non-decreasing: dR >= 0 *)

  Notation phi0 := (phi Rops ps 0).
  Notation dd th := (dfac Rops th lam) (only parsing).
  Notation pt := (mkPoint ps p).
  Notation rho := (resid Rops Rh None dt sy pt).

  Lemma dGam_uniform : forall th, 0 <= th -> dGam Rops pt th = th * (phi0 * dd th).
  Proof. intros th Hth. rewrite dGam_eq. cbn [pairs]. rewrite (phi_uniform lam ps 0 Hunif Hlam th Hth). reflexivity. Qed.

  Lemma d_diff : forall a b, 0 <= a -> 0 <= b -> dd a - dd b = lam * (b - a) * (dd a * dd b).
  Proof.
    intros a b Ha Hb. rewrite !dfac_eq. pose proof (den_pos lam Hlam a Ha). pose proof (den_pos lam Hlam b Hb).
    field. split; lra.
  Qed.

  Lemma dGam_mono : forall a b, 0 <= a <= b -> dGam Rops pt a <= dGam Rops pt b.
  Proof.
    intros a b [Ha Hab]. assert (Hb : 0 <= b) by lra.
    rewrite !dGam_uniform by assumption. rewrite !dfac_eq.
    pose proof (den_pos lam Hlam a Ha) as Da. pose proof (den_pos lam Hlam b Hb) as Db.
    assert (E : b * (phi0 * (1 / (1 + b * lam))) - a * (phi0 * (1 / (1 + a * lam)))
                = phi0 * (b - a) / ((1 + a * lam) * (1 + b * lam))) by (field; split; lra).
    assert (0 <= phi0 * (b - a) / ((1 + a * lam) * (1 + b * lam))).
    { apply Rmult_le_pos; [apply Rmult_le_pos; lra | left; apply Rinv_0_lt_compat; nra]. }
    lra.
  Qed.

  Lemma rho_eq : forall th, 0 <= th -> rho th = phi0 * dd th - sy - Rh (p + dGam Rops pt th).
  Proof.
    intros th Hth. unfold resid, resid_of, overstress. cbn [pairs pOld].
    rewrite (phi_uniform lam ps 0 Hunif Hlam th Hth).
    change (o0 Rops) with 0. change (osub Rops) with Rminus. change (oadd Rops) with Rplus. change (omul Rops) with Rmult.
    rewrite dGam_uniform by assumption. ring.
  Qed.

  (* quantitative monotonicity of the consistency residual *)
  Theorem resid_gap : forall a b, 0 <= a <= b ->
      phi0 * lam * (b - a) * (dd a * dd b) <= rho a - rho b.
  Proof.
    intros a b [Ha Hab]. assert (Hb : 0 <= b) by lra.
    rewrite !rho_eq by assumption.
    pose proof (dGam_mono a b (conj Ha Hab)) as Hg.
    assert (Rh (p + dGam Rops pt a) <= Rh (p + dGam Rops pt b)) by (apply Rh_mono; lra).
    pose proof (d_diff a b Ha Hb) as Ed.
    assert (phi0 * dd a - phi0 * dd b = phi0 * lam * (b - a) * (dd a * dd b)) by (rewrite <- Rmult_minus_distr_l, Ed; ring).
    lra.
  Qed.

  Theorem resid_strictly_decreasing : forall a b, 0 <= a < b -> rho b < rho a.
  Proof.
    intros a b [Ha Hab]. assert (Hb : 0 <= b) by lra.
    pose proof (resid_gap a b (conj Ha (Rlt_le _ _ Hab))) as G.
    pose proof (d_pos lam Hlam a Ha). pose proof (d_pos lam Hlam b Hb).
    assert (0 < phi0 * lam * (b - a) * (dd a * dd b)).
    { apply Rmult_lt_0_compat; [apply Rmult_lt_0_compat; [apply Rmult_lt_0_compat|]|apply Rmult_lt_0_compat]; lra. }
    lra.
  Qed.

  (* at most one root on theta >= 0: the consistency condition determines the state *)
  Theorem root_unique : forall a b, 0 <= a -> 0 <= b -> rho a = 0 -> rho b = 0 -> a = b.
  Proof.
    intros a b Ha Hb Ea Eb. destruct (Rtotal_order a b) as [Hlt | [E | Hgt]]; [|exact E|].
    - pose proof (resid_strictly_decreasing a b (conj Ha Hlt)). lra.
    - pose proof (resid_strictly_decreasing b a (conj Hb Hgt)). lra.
  Qed.

  (* AGREEMENT: any two candidates that pass a residual test |r| <= eps *)
  Theorem two_solutions_close : forall a b eps, 0 <= a -> 0 <= b ->
      Rabs (rho a) <= eps -> Rabs (rho b) <= eps ->
      (* eigen-stresses *)
      Forall (fun q => phi0 * Rabs (snd q * dfac Rops a (fst q) - snd q * dfac Rops b (fst q))
                       <= 2 * eps * Rabs (snd q)) ps /\
      (* accumulated plastic strain *)
      lam * Rabs (p_new Rops pt a - p_new Rops pt b) <= 2 * eps.
  Proof.
    assert (Hsym : forall a b eps, 0 <= a <= b ->
                Rabs (rho a) <= eps -> Rabs (rho b) <= eps ->
                phi0 * lam * (b - a) * (dd a * dd b) <= 2 * eps).
    { intros a b eps Hab Ea Eb. pose proof (resid_gap a b Hab) as G.
      apply Rabs_le_between in Ea. apply Rabs_le_between in Eb. lra. }
    assert (Hmain : forall a b eps, 0 <= a <= b ->
                Rabs (rho a) <= eps -> Rabs (rho b) <= eps ->
                phi0 * Rabs (dd a - dd b) <= 2 * eps /\
                lam * Rabs (dGam Rops pt a - dGam Rops pt b) <= 2 * eps).
    { intros a b eps [Ha Hab] Ea Eb. assert (Hb : 0 <= b) by lra.
      pose proof (Hsym a b eps (conj Ha Hab) Ea Eb) as G.
      pose proof (d_pos lam Hlam a Ha) as Pa. pose proof (d_pos lam Hlam b Hb) as Pb.
      split.
      - rewrite (d_diff a b Ha Hb). rewrite Rabs_right; [lra|].
        apply Rle_ge. apply Rmult_le_pos; [apply Rmult_le_pos; lra | nra].
      - rewrite !dGam_uniform by assumption.
        assert (E : a * (phi0 * dd a) - b * (phi0 * dd b) = - (phi0 * (b - a) * (dd a * dd b))).
        { rewrite !dfac_eq. pose proof (den_pos lam Hlam a Ha). pose proof (den_pos lam Hlam b Hb). field. split; lra. }
        rewrite E, Rabs_Ropp. rewrite Rabs_right; [lra|].
        apply Rle_ge. apply Rmult_le_pos; [apply Rmult_le_pos; lra | nra]. }
    assert (Hboth : forall a b eps, 0 <= a -> 0 <= b ->
                Rabs (rho a) <= eps -> Rabs (rho b) <= eps ->
                phi0 * Rabs (dd a - dd b) <= 2 * eps /\
                lam * Rabs (dGam Rops pt a - dGam Rops pt b) <= 2 * eps).
    { intros a b eps Ha Hb Ea Eb. destruct (Rle_lt_dec a b) as [Hle | Hlt].
      - apply Hmain; [split|..]; assumption.
      - destruct (Hmain b a eps (conj Hb (Rlt_le _ _ Hlt)) Eb Ea) as [H1 H2].
        rewrite (Rabs_minus_sym (dd a)), (Rabs_minus_sym (dGam Rops pt a)). split; assumption. }
    intros a b eps Ha Hb Ea Eb. destruct (Hboth a b eps Ha Hb Ea Eb) as [H1 H2]. split.
    - unfold uniform in Hunif. eapply Forall_impl; [|exact Hunif]. intros [l y] Hq. cbn [fst snd] in *.
      assert (0 <= eps) by (pose proof (Rabs_pos (rho a)); lra).
      destruct Hq as [-> | ->].
      + rewrite <- Rmult_minus_distr_l, Rabs_mult.
        pose proof (Rabs_pos y). pose proof (Rabs_pos (dd a - dd b)).
        replace (phi0 * (Rabs y * Rabs (dd a - dd b))) with (Rabs y * (phi0 * Rabs (dd a - dd b))) by ring.
        replace (2 * eps * Rabs y) with (Rabs y * (2 * eps)) by ring.
        apply Rmult_le_compat_l; assumption.
      + rewrite !dfac_eq. replace (y * (1 / (1 + a * 0)) - y * (1 / (1 + b * 0))) with 0 by field.
        rewrite Rabs_R0. pose proof (Rabs_pos y). nra.
    - rewrite !p_new_eq. cbn [pOld].
      replace (p + dGam Rops pt a - (p + dGam Rops pt b)) with (dGam Rops pt a - dGam Rops pt b) by ring.
      exact H2.
  Qed.
End Unique.

(* non-vacuity: lam = 1, one pair (1, 2) and a zero-eigenvalue pair, R = identity *)
Example unique_hypotheses_satisfiable :
  uniform 1 [(1, 2); (0, 5)] /\ 0 < 1 /\ 0 < phi Rops [(1, 2); (0, 5)] 0 /\
  (forall x y : R, x <= y -> (fun t => t) x <= (fun t => t) y).
Proof.
  destruct radial_hypotheses_satisfiable as [Hu [_ [_ [Hp _]]]].
  repeat split; try assumption; try lra. intros; assumption.
Qed.
