(* C09 — sup-norm bound of a Q-coefficient polynomial expression on the unit box:
     |Reval l e| <= norm1 (Qnorm e)   whenever every |l_k| <= 1,
   norm1 = sum of the absolute values of the coefficients of the normal form (Ring_polynom.Pol).
   Used for the Hermite tables whose coefficients are decimal-rationalised (EULER_BERNOULLI4/5):
   identities hold up to a residual polynomial with tiny coefficients. *)
From Coq Require Import QArith Qabs Qreals Reals Ring_polynom List Lia Lra BinList.
From EFLib Require Import PolyQ.
Import ListNotations.

Lemma Reval_Pphi l e : Reval l e = Pphi 0%R Rplus Rmult Q2R l (Qnorm e).
Proof.
  unfold Reval, Qnorm.
  apply (@norm_subst_ok R 0%R 1%R Rplus Rmult Rminus Ropp eq (Eqsth R)
          (Eq_ext Rplus Rmult Ropp) R_ARth Q 0%Q 1%Q Qplus Qmult Qminus Qopp Qeq_bool Q2R Q2R_morph
          nat N.to_nat pow R_power_theory cdivQ cdivQ_th O l nil e I).
Qed.

Fixpoint norm1 (P : Pol Q) : Q :=
  match P with
  | Pc c => Qabs c
  | Pinj _ P0 => norm1 P0
  | PX P0 _ Q0 => norm1 P0 + norm1 Q0
  end.

Definition unit_box (l : list R) : Prop := Forall (fun x => (Rabs x <= 1)%R) l.

Lemma unit_box_tl l : unit_box l -> unit_box (tl l).
Proof. intros H. destruct l; simpl; auto. now inversion H. Qed.

Lemma unit_box_jump j : forall l, unit_box l -> unit_box (jump j l).
Proof.
  induction j as [j IH|j IH|]; intros l H; simpl.
  - apply IH, IH. now apply unit_box_tl.
  - now apply IH, IH.
  - now apply unit_box_tl.
Qed.

Lemma unit_box_hd l : unit_box l -> (Rabs (hd 0%R l) <= 1)%R.
Proof.
  intros H. destruct l; simpl. rewrite Rabs_R0; lra. now inversion H.
Qed.

Lemma pow_pos_le1 (x : R) i : (Rabs x <= 1)%R -> (Rabs (pow_pos Rmult x i) <= 1)%R.
Proof.
  intros Hx. induction i as [i IH|i IH|]; simpl; auto.
  - rewrite !Rabs_mult. pose proof (Rabs_pos x). pose proof (Rabs_pos (pow_pos Rmult x i)). nra.
  - rewrite Rabs_mult. pose proof (Rabs_pos (pow_pos Rmult x i)). nra.
Qed.

Lemma Rabs_Q2R_le c : (Rabs (Q2R c) <= Q2R (Qabs c))%R.
Proof.
  apply Rabs_le. split.
  - assert (H : (- c <= Qabs c)%Q) by (rewrite <- Qabs_opp; apply Qle_Qabs).
    apply Qle_Rle in H. rewrite Q2R_opp in H. lra.
  - apply Qle_Rle, Qle_Qabs.
Qed.

Lemma norm1_nonneg P : (0 <= Q2R (norm1 P))%R.
Proof.
  induction P; simpl; auto.
  - replace 0%R with (Q2R 0) by (unfold Q2R; simpl; field). apply Qle_Rle, Qabs_nonneg.
  - rewrite Q2R_plus. lra.
Qed.

Theorem Pphi_bound P : forall l, unit_box l ->
  (Rabs (Pphi 0%R Rplus Rmult Q2R l P) <= Q2R (norm1 P))%R.
Proof.
  induction P as [c|j P IH|P IHP i Q0 IHQ]; intros l H; simpl.
  - apply Rabs_Q2R_le.
  - apply IH. now apply unit_box_jump.
  - rewrite Q2R_plus.
    eapply Rle_trans; [apply Rabs_triang|]. rewrite Rabs_mult.
    pose proof (IHP l H). pose proof (IHQ (tl l) (unit_box_tl l H)).
    pose proof (pow_pos_le1 (hd 0%R l) i (unit_box_hd l H)).
    pose proof (Rabs_pos (Pphi 0%R Rplus Rmult Q2R l P)).
    pose proof (Rabs_pos (pow_pos Rmult (hd 0%R l) i)).
    pose proof (norm1_nonneg P). nra.
Qed.

(* residual of an approximate identity e1 ~ e2: bounded by the coefficient sum of e1 - e2 *)
Definition residual_norm (e1 e2 : PExpr Q) : Q := norm1 (Qnorm (PEsub e1 e2)).

Theorem approx_identity_sound (e1 e2 : PExpr Q) (tol : Q) :
  Qle_bool (residual_norm e1 e2) tol = true ->
  forall l, unit_box l -> (Rabs (Reval l e1 - Reval l e2) <= Q2R tol)%R.
Proof.
  intros H l Hl. apply Qle_bool_iff, Qle_Rle in H.
  assert (E : (Reval l e1 - Reval l e2)%R = Reval l (PEsub e1 e2)) by reflexivity.
  rewrite E, Reval_Pphi. eapply Rle_trans; [apply Pphi_bound; exact Hl|exact H].
Qed.
