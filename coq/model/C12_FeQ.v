(* C12_FeQ.v — instantiation of the FeArray model with exact rationals, used by the generated
   correspondence case files (vm_compute).  Definitions only. *)
From Coq Require Import List Arith Bool ZArith QArith Qabs Lia.
From EFModel Require Import C12_FeShape C12_FeTensor C12_FeDetN.
Import ListNotations.
Local Open Scope nat_scope.

Definition qmax (a b : Q) : Q := if Qle_bool a b then b else a.
Definition qmin (a b : Q) : Q := if Qle_bool a b then a else b.
Definition qof (b : bool) : Q := if b then 1%Q else 0%Q.

(* binary ufuncs: 0 add, 1 subtract, 2 multiply, 3 true_divide, 4 maximum, 5 minimum,
   6 greater, 7 less_equal, 8 equal, 9 less, 10 greater_equal, 11 not_equal *)
Definition qbin (op : nat) (a b : Q) : Q :=
  match op with
  | 0 => Qplus a b | 1 => Qminus a b | 2 => Qmult a b | 3 => Qdiv a b
  | 4 => qmax a b | 5 => qmin a b
  | 6 => qof (negb (Qle_bool a b)) | 7 => qof (Qle_bool a b) | 8 => qof (Qeq_bool a b)
  | 9 => qof (negb (Qle_bool b a)) | 10 => qof (Qle_bool b a) | 11 => qof (negb (Qeq_bool a b))
  | _ => 0%Q
  end.

(* unary ufuncs: 0 negative, 1 absolute, 2 square *)
Definition qun (op : nat) (a : Q) : Q :=
  match op with
  | 0 => Qopp a | 1 => Qabs a | 2 => Qmult a a
  | _ => 0%Q
  end.

(* reducers: 0 sum, 1 prod, 2 max, 3 min, 4 mean *)
Definition qred (op : nat) (l : list Q) : Q :=
  match op with
  | 0 => fold_right Qplus 0%Q l
  | 1 => fold_right Qmult 1%Q l
  | 2 => match l with [] => 0%Q | x :: r => fold_left qmax r x end      (* ((x max r1) max r2) ... *)
  | 3 => match l with [] => 0%Q | x :: r => fold_left qmin r x end
  | 4 => Qdiv (fold_right Qplus 0%Q l) (inject_Z (Z.of_nat (length l)))      (* mean *)
  | _ => 0%Q
  end.

Definition qnonzero (a : Q) : bool := negb (Qeq_bool a 0).

(* exact square root of a rational that is a perfect square (the generated data only produce
   such radicands; any other radicand would make the case disagree, never agree by accident) *)
Definition qsqrt (q : Q) : Q :=
  let q' := Qred q in Qmake (Z.sqrt (Qnum q')) (Z.to_pos (Z.sqrt (Zpos (Qden q')))).

Section WithDet.
Variable vdet : nat -> (nat -> nat -> Q) -> Q.
Variable vinv : nat -> (nat -> nat -> Q) -> nat -> nat -> Q.

Definition evalQ : expr Q -> result Q :=
  eval Q 0%Q 1%Q Qplus Qmult qnonzero qbin qun qred vdet vinv (1#2)%Q qsqrt.

Definition observeQ (e : expr Q) : nat * list nat * list Q :=
  let '(k, s, v) := observe Q (evalQ e) in (k, s, map Qred v).

Fixpoint qlist_eqb (a b : list Q) : bool :=
  match a, b with
  | [], [] => true
  | x :: a', y :: b' => Qeq_bool x y && qlist_eqb a' b'
  | _, _ => false
  end.

(* agreement of the model with an observed implementation result *)
Definition agrees (e : expr Q) (obs : nat * list nat * list Q) : bool :=
  let '(k, s, v) := observe Q (evalQ e) in
  let '(k', s', v') := obs in
  (k =? k') && list_eqb s s' && qlist_eqb v v'.
End WithDet.

Definition feQ (s : list nat) (d : list Q) : operand Q := OFe Q (of_flat Q 0%Q s d).
Definition plQ (s : list nat) (d : list Q) : operand Q := OPlain Q (of_flat Q 0%Q s d).
Definition scQ (v : Q) : operand Q := OScalar Q v.

(* integer-valued data (the common case) *)
Definition feZ (s : list nat) (d : list Z) : operand Q := feQ s (map inject_Z d).
Definition plZ (s : list nat) (d : list Z) : operand Q := plQ s (map inject_Z d).
Definition scZ (v : Z) : operand Q := scQ (inject_Z v).
Definition obsZ (k : nat) (s : list nat) (d : list Z) : nat * list nat * list Q := (k, s, map inject_Z d).

(* printable form of an observation: numerators / denominators as Z *)
Definition observeZ (vdet : nat -> (nat -> nat -> Q) -> Q)
    (vinv : nat -> (nat -> nat -> Q) -> nat -> nat -> Q) (e : expr Q) : nat * list nat * list (Z * Z) :=
  let '(k, s, v) := observeQ vdet vinv e in (k, s, map (fun q => (Qnum q, Zpos (Qden q))) v).

(* agreement up to the exception class: an implementation error reported as kind 10 means
   "some exception", and a model error code 0 (kind 10) accepts any exception *)
Definition agrees_err (vdet : nat -> (nat -> nat -> Q) -> Q)
    (vinv : nat -> (nat -> nat -> Q) -> nat -> nat -> Q) (e : expr Q) (obs : nat * list nat * list Q) : bool :=
  let '(k, s, v) := observe Q (evalQ vdet vinv e) in
  let '(k', s', v') := obs in
  if (10 <=? k) && (10 <=? k') then (k =? k') || (k =? 10) || (k' =? 10)
  else (k =? k') && list_eqb s s' && qlist_eqb v v'.

(* reference for the dimensions the source delegates to numpy.linalg (dim > 3): the generic
   Leibniz determinant / adjugate of C12_FeDetN instantiated with Q *)
Definition leibnizQ := leibniz_gen Q 0%Q 1%Q Qplus Qmult Qopp.
Definition adjugateQ := adjugate_gen Q 0%Q 1%Q Qplus Qmult Qopp.
Definition det_ext (closed : nat -> (nat -> nat -> Q) -> Q) (n : nat) (m : nat -> nat -> Q) : Q :=
  if n <=? 3 then closed n m else leibnizQ n m.
Definition inv_ext (closed : nat -> (nat -> nat -> Q) -> nat -> nat -> Q) (n : nat) (m : nat -> nat -> Q) (i j : nat) : Q :=
  if n <=? 3 then closed n m i j else Qdiv (adjugateQ n m i j) (leibnizQ n m).

(* agreement up to a relative tolerance (floating-point LAPACK results against exact rationals) *)
(* |x - y| <= tol * scale entrywise, scale = the largest |x| of the expected values: purely
   relative, no absolute floor (scaled twins are as small as 2^-300) *)
Fixpoint qlist_close (bound : Q) (a b : list Q) : bool :=
  match a, b with
  | [], [] => true
  | x :: a', y :: b' => Qle_bool (Qabs (x - y)) bound && qlist_close bound a' b'
  | _, _ => false
  end.
Definition qscale (l : list Q) : Q := fold_right (fun x m => qmax (Qabs x) m) 0%Q l.
Definition agrees_tol (tol : Q) (vdet : nat -> (nat -> nat -> Q) -> Q)
    (vinv : nat -> (nat -> nat -> Q) -> nat -> nat -> Q) (e : expr Q) (obs : nat * list nat * list Q) : bool :=
  let '(k, s, v) := observe Q (evalQ vdet vinv e) in
  let '(k', s', v') := obs in
  (k =? k') && list_eqb s s' && qlist_close (Qred (tol * qscale v)) v v'.
