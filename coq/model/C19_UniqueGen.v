(* C19_UniqueGen.v — the consistency condition has at most one root for EVERY eigen-structure
   (any non-negative eigenvalues, distinct or not: Hill, orthotropic elasticity, ...), any
   non-decreasing hardening, no rate law:
        theta |-> phi(theta)            is strictly decreasing on theta >= 0   (if phi(0) > 0)
        theta |-> dGamma = theta phi    is non-decreasing
   so r(theta) = phi - sigma_y - R(p + dGamma) is strictly decreasing and r(a) - r(b) >= phi(a) - phi(b).
   Whatever solver produced them, two exact solutions coincide, and two approximate solutions
   (|r| <= eps) have equivalent stresses within 2 eps:  |phi(a) - phi(b)| <= 2 eps. *)
From Coquelicot Require Import Coquelicot.
From Coq Require Import Reals List Lra Bool Psatz.
From EFModel Require Import C19_Return1D C19_Return1D_proofs.
Import List ListNotations.
Open Scope R_scope.

Section UniqueGen.
  Variable sy dt p : R.
  Variable Rh : R -> R.
  Variable ps : list (R * R).
  Hypothesis Hl : lam_nonneg ps.
  Hypothesis Hphi0 : 0 < phi Rops ps 0.
  Hypothesis Rh_mono : forall x y, x <= y -> Rh x <= Rh y.

  Notation pt := (mkPoint ps p).
  Notation rho := (resid Rops Rh None dt sy pt).

  (* some pair really carries stress: lam > 0 and y <> 0 *)
  Lemma carrier : Exists (fun q => 0 < fst q /\ snd q <> 0) ps.
  Proof.
    clear Rh_mono. rewrite phi_eq in Hphi0.
    assert (HS : 0 < sumw Rops ps 0).
    { destruct (Rle_lt_dec (sumw Rops ps 0) 0) as [Hle|]; [|assumption].
      rewrite Rmax_right in Hphi0 by assumption. rewrite sqrt_0 in Hphi0. lra. }
    clear Hphi0. induction ps as [|[l y] r IH]; cbn [sumw fst snd] in HS.
    - change (o0 Rops) with 0 in HS. lra.
    - inversion Hl as [|? ? Hq Hr]; subst. cbn [fst] in Hq.
      rewrite wterm_eq, dfac_eq in HS. change (oadd Rops) with Rplus in HS.
      destruct (Rle_lt_dec (sumw Rops r 0) 0) as [Hle | Hlt].
      + apply Exists_cons_hd. cbn [fst snd].
        assert (0 < l * (y * y) * (1 / (1 + 0 * l) * (1 / (1 + 0 * l)))) by lra.
        replace (l * (y * y) * (1 / (1 + 0 * l) * (1 / (1 + 0 * l)))) with (l * (y * y)) in H by field.
        split; [|intro E; subst y; lra].
        destruct Hq as [Hq | Hq]; [exact Hq | subst l; lra].
      + apply Exists_cons_tl. apply IH; assumption.
  Qed.

  Lemma term_anti : forall l y a b, 0 <= l -> 0 <= a <= b ->
      wterm Rops l y (dfac Rops b l) <= wterm Rops l y (dfac Rops a l).
  Proof.
    intros l y a b Hl0 Hab. rewrite !wterm_eq.
    pose proof (dfac_anti a b l Hab Hl0) as Ha.
    assert (0 < dfac Rops b l <= 1) as [Hpb _] by (apply dfac_pos; lra).
    assert (0 < dfac Rops a l <= 1) as [Hpa _] by (apply dfac_pos; lra).
    assert (0 <= l * (y * y)) by (apply Rmult_le_pos; [assumption | nra]).
    apply Rmult_le_compat_l; [assumption | nra].
  Qed.

  Lemma term_strict : forall l y a b, 0 < l -> y <> 0 -> 0 <= a < b ->
      wterm Rops l y (dfac Rops b l) < wterm Rops l y (dfac Rops a l).
  Proof.
    intros l y a b Hl0 Hy [Ha Hab]. rewrite !wterm_eq, !dfac_eq.
    assert (0 < 1 + a * l) by nra. assert (1 + a * l < 1 + b * l) by nra.
    assert (0 < l * (y * y)) by (apply Rmult_lt_0_compat; [assumption | nra]).
    apply Rmult_lt_compat_l; [assumption|].
    assert (1 / (1 + b * l) < 1 / (1 + a * l)).
    { unfold Rdiv. rewrite !Rmult_1_l. apply Rinv_lt_contravar; nra. }
    assert (0 < 1 / (1 + b * l)) by (apply Rdiv_lt_0_compat; lra).
    nra.
  Qed.

  Lemma sumw_strict : forall a b, 0 <= a < b -> sumw Rops ps b < sumw Rops ps a.
  Proof.
    intros a b Hab. pose proof carrier as Hc. clear Hphi0 Rh_mono.
    induction ps as [|[l y] r IH]; [inversion Hc|].
    inversion Hl as [|? ? Hq Hr]; subst. cbn [fst] in Hq. cbn [sumw fst snd]. change (oadd Rops) with Rplus.
    assert (Hab' : 0 <= a <= b) by lra.
    inversion Hc as [? ? [Hl0 Hy] | ? ? Hc']; subst; cbn [fst snd] in *.
    - pose proof (term_strict l y a b Hl0 Hy Hab). pose proof (sumw_anti r a b Hr Hab'). lra.
    - pose proof (term_anti l y a b Hq Hab'). specialize (IH Hr Hc'). lra.
  Qed.

  (* phi strictly decreasing *)
  Theorem phi_strictly_decreasing : forall a b, 0 <= a < b -> phi Rops ps b < phi Rops ps a.
  Proof.
    intros a b Hab. rewrite !phi_eq.
    pose proof (sumw_nonneg ps a Hl). pose proof (sumw_nonneg ps b Hl).
    rewrite !Rmax_left by assumption. apply sqrt_lt_1; try assumption. apply sumw_strict; assumption.
  Qed.

  (* dGamma = theta phi(theta) non-decreasing *)
  Lemma sq_term_mono : forall l a b, 0 <= l -> 0 <= a <= b ->
      a * dfac Rops a l <= b * dfac Rops b l.
  Proof.
    intros l a b Hl0 [Ha Hab]. rewrite !dfac_eq.
    assert (0 < 1 + a * l) by nra. assert (0 < 1 + b * l) by nra.
    assert (E : b * (1 / (1 + b * l)) - a * (1 / (1 + a * l)) = (b - a) / ((1 + a * l) * (1 + b * l))) by (field; lra).
    assert (0 <= (b - a) / ((1 + a * l) * (1 + b * l))).
    { apply Rmult_le_pos; [lra | left; apply Rinv_0_lt_compat; nra]. }
    lra.
  Qed.

  Lemma th2_sumw_mono : forall a b, 0 <= a <= b ->
      a * a * sumw Rops ps a <= b * b * sumw Rops ps b.
  Proof.
    intros a b Hab. clear Hphi0 Rh_mono. induction ps as [|[l y] r IH]; cbn [sumw fst snd].
    - change (o0 Rops) with 0. lra.
    - inversion Hl as [|? ? Hq Hr]; subst. cbn [fst] in Hq. specialize (IH Hr).
      change (oadd Rops) with Rplus. rewrite !wterm_eq.
      pose proof (sq_term_mono l a b Hq Hab) as Hm.
      assert (0 < dfac Rops a l <= 1) as [Hpa _] by (apply dfac_pos; lra).
      assert (0 <= a * dfac Rops a l) by (apply Rmult_le_pos; lra).
      assert (0 <= l * (y * y)) by (apply Rmult_le_pos; [assumption | nra]).
      assert ((a * dfac Rops a l) * (a * dfac Rops a l) <= (b * dfac Rops b l) * (b * dfac Rops b l)) by nra.
      assert (l * (y * y) * ((a * dfac Rops a l) * (a * dfac Rops a l)) <= l * (y * y) * ((b * dfac Rops b l) * (b * dfac Rops b l)))
        by (apply Rmult_le_compat_l; assumption).
      nra.
  Qed.

  Lemma dGam_sqrt : forall th, 0 <= th -> dGam Rops pt th = sqrt (th * th * sumw Rops ps th).
  Proof.
    intros th Hth. rewrite dGam_eq. cbn [pairs]. rewrite phi_eq.
    pose proof (sumw_nonneg ps th Hl). rewrite Rmax_left by assumption.
    rewrite sqrt_mult by (try assumption; nra). rewrite sqrt_square by assumption. reflexivity.
  Qed.

  Theorem dGam_nondecreasing : forall a b, 0 <= a <= b -> dGam Rops pt a <= dGam Rops pt b.
  Proof.
    intros a b Hab. rewrite !dGam_sqrt by lra. apply sqrt_le_1_alt. apply th2_sumw_mono; assumption.
  Qed.

  Lemma rho_eq_gen : forall th, rho th = phi Rops ps th - sy - Rh (p + dGam Rops pt th).
  Proof.
    intro th. unfold resid, resid_of, overstress, dGam. cbn [pairs pOld].
    change (o0 Rops) with 0. change (osub Rops) with Rminus. change (oadd Rops) with Rplus. change (omul Rops) with Rmult. ring.
  Qed.

  Theorem resid_gap_gen : forall a b, 0 <= a <= b ->
      phi Rops ps a - phi Rops ps b <= rho a - rho b.
  Proof.
    intros a b Hab. rewrite !rho_eq_gen.
    assert (Rh (p + dGam Rops pt a) <= Rh (p + dGam Rops pt b)) by (apply Rh_mono; pose proof (dGam_nondecreasing a b Hab); lra).
    lra.
  Qed.

  (* C19 root_unique_every_eigenstructure *)
  Theorem root_unique_gen : forall a b, 0 <= a -> 0 <= b -> rho a = 0 -> rho b = 0 -> a = b.
  Proof.
    intros a b Ha Hb Ea Eb. destruct (Rtotal_order a b) as [Hlt | [E | Hgt]]; [|exact E|].
    - pose proof (resid_gap_gen a b (conj Ha (Rlt_le _ _ Hlt))). pose proof (phi_strictly_decreasing a b (conj Ha Hlt)). lra.
    - pose proof (resid_gap_gen b a (conj Hb (Rlt_le _ _ Hgt))). pose proof (phi_strictly_decreasing b a (conj Hb Hgt)). lra.
  Qed.

  (* two approximate solutions: equivalent stresses within 2 eps *)
  Theorem two_solutions_close_gen : forall a b eps, 0 <= a -> 0 <= b ->
      Rabs (rho a) <= eps -> Rabs (rho b) <= eps ->
      Rabs (phi Rops ps a - phi Rops ps b) <= 2 * eps.
  Proof.
    intros a b eps Ha Hb Ea Eb. apply Rabs_le_between in Ea. apply Rabs_le_between in Eb.
    apply Rabs_le_between. destruct (Rle_lt_dec a b) as [Hle | Hlt].
    - pose proof (resid_gap_gen a b (conj Ha Hle)). pose proof (phi_decreasing ps a b Hl (conj Ha Hle)). lra.
    - pose proof (resid_gap_gen b a (conj Hb (Rlt_le _ _ Hlt))). pose proof (phi_decreasing ps b a Hl (conj Hb (Rlt_le _ _ Hlt))). lra.
  Qed.
End UniqueGen.

(* non-vacuity: two DISTINCT eigenvalues *)
Example uniquegen_hypotheses_satisfiable :
  lam_nonneg [(1, 2); (3, 1)] /\ 0 < phi Rops [(1, 2); (3, 1)] 0 /\ (forall x y : R, x <= y -> (fun t => t) x <= (fun t => t) y).
Proof.
  split; [repeat constructor; cbn [fst]; lra|]. split; [|intros; assumption].
  rewrite phi_eq. cbn [sumw fst snd]. rewrite !wterm_eq, !dfac_eq. change (oadd Rops) with Rplus. change (o0 Rops) with 0.
  replace (1 * (2 * 2) * (1 / (1 + 0 * 1) * (1 / (1 + 0 * 1))) + (3 * (1 * 1) * (1 / (1 + 0 * 3) * (1 / (1 + 0 * 3))) + 0)) with 7 by field.
  rewrite Rmax_left by lra. apply sqrt_lt_R0. lra.
Qed.
