(* C15 — memory store = disk store, WITH user in-place writes (whole arrays and single cells), for sources
   whose Get_results deep-copies (deep_read = true: the current source).

   The abstract machine of C15_MemDisk is extended by ONE bit per array the user holds: is it the array the
   live field k is bound to (it is, right after Set_Iter, for the stored fields: `_Set_solutions` binds the
   array taken from the returned dict).  A write through such an array changes live field k — identically
   in a memory run and in a disk run — and a write through any other handed array changes nothing observable. *)
From Coq Require Import List Arith Lia Bool NArith PeanoNat.
Import ListNotations.
From EFModel Require Import C15_IterStore C15_MemDisk.
Set Implicit Arguments.

Fixpoint bndl (lv hd : list loc) : list bool :=
  match hd with
  | [] => []
  | l :: hd' => match lv with
                | [] => false :: bndl [] hd'
                | l' :: lv' => (l' =? l) :: bndl lv' hd'
                end
  end.
Definition bnd (s : state) : list bool := bndl (live s) (handed s).

Fixpoint upd_list (k : nat) (v : val) (l : list val) : list val :=
  match l, k with
  | [], _ => []
  | _ :: t, 0 => v :: t
  | x :: t, S k' => x :: upd_list k' v t
  end.

Record wstate := mkw { w_abs : astate; w_bnd : list bool }.
Definition absw (s : state) : wstate := mkw (absv s) (bnd s).

Definition awrite (k : nat) (f : val -> val) (w : wstate) : wstate :=
  if nth k (w_bnd w) false
  then mkw (mka (upd_list k (f (nth k (a_vals (w_abs w)) zero)) (a_vals (w_abs w))) (a_mesh (w_abs w)) (a_nmesh (w_abs w)) (a_hist (w_abs w))) (w_bnd w)
  else w.

Definition abnd (c : config) (o : op) (a : astate) (b : list bool) : list bool :=
  let valid i := i <? length (a_hist a) in
  let after_set := if restore_binds c then stored c else repeat false (nf c) in
  match o with
  | Solve _ | SetMesh => repeat false (length b)
  | SaveIter | SetFolder _ | WriteRet _ _ | WriteRetAt _ _ _ => b
  | GetResults i => if valid i then repeat false (nf c) else b
  | GetResultsNeg k => if valid (aneg k a) then repeat false (nf c) else b
  | SetIter i => if valid i then after_set else b
  | SetIterNeg k => if valid (aneg k a) then after_set else b
  | ResultQ _ _ | ResultQNeg _ _ => [false]
  | SaveLoad _ => []
  end.

Definition wstep (c : config) (o : op) (w : wstate) : wstate :=
  match o with
  | WriteRet k v => awrite k (fun _ => v) w
  | WriteRetAt k i x => awrite k (upd_at i x) w
  | _ => mkw (astep c o (w_abs w)) (abnd c o (w_abs w) (w_bnd w))
  end.

Fixpoint wrun (c : config) (ops : list op) (w : wstate) : wstate :=
  match ops with [] => w | o :: t => wrun c t (wstep c o w) end.

Lemma wstep_strip : forall c o w, wstep c (strip o) w = wstep c o w.
Proof. intros c o w. destruct o; reflexivity. Qed.
Lemma wrun_strip : forall c ops w, wrun c (map strip ops) w = wrun c ops w.
Proof. induction ops; intros; simpl; auto. rewrite wstep_strip. auto. Qed.

(* ---------------- list facts *)
Lemma bndl_length : forall hd lv, length (bndl lv hd) = length hd.
Proof. induction hd; intros lv; simpl; auto. destruct lv; simpl; f_equal; auto. Qed.

Lemma bndl_disjoint : forall hd lv, (forall l, In l hd -> ~ In l lv) -> bndl lv hd = repeat false (length hd).
Proof.
  induction hd as [|l hd IH]; intros lv H; simpl; auto.
  destruct lv as [|l' lv].
  - f_equal. apply IH. intros; auto.
  - f_equal.
    + apply Nat.eqb_neq. intro E. subst. apply (H l); simpl; auto.
    + apply IH. intros x Hx Hin. apply (H x); simpl; auto.
Qed.

Lemma merge_cons : forall b bs l ls x lv, merge (b :: bs) (l :: ls) (x :: lv) = (if b then l else x) :: merge bs ls lv.
Proof. reflexivity. Qed.

Lemma bndl_merge : forall bs ls lv, length bs = length ls -> length ls = length lv ->
  (forall l, In l ls -> ~ In l lv) -> bndl (merge bs ls lv) ls = bs.
Proof.
  induction bs as [|b bs IH]; intros ls lv H1 H2 D; destruct ls as [|l ls]; simpl in H1; try discriminate; auto.
  destruct lv as [|x lv]; simpl in H2; try discriminate.
  rewrite merge_cons. simpl. f_equal.
  - destruct b; [apply Nat.eqb_refl|]. apply Nat.eqb_neq. intro E. subst. apply (D l); simpl; auto.
  - apply IH; auto. intros y Hy Hin. apply (D y); simpl; auto.
Qed.

Lemma nth_bndl : forall hd lv k l, nth_error hd k = Some l ->
  (nth k (bndl lv hd) false = true <-> nth_error lv k = Some l).
Proof.
  induction hd as [|h hd IH]; intros lv k l H; destruct k; simpl in H; try discriminate.
  - inversion H; subst. destruct lv as [|x lv]; simpl.
    + split; discriminate.
    + rewrite Nat.eqb_eq. split; [intros ->; auto|intros E; inversion E; auto].
  - destruct lv as [|x lv]; simpl.
    + rewrite (IH [] k l H). destruct k; simpl; split; auto.
    + apply IH; auto.
Qed.

Lemma map_wr_unique : forall lv k l h v, nth_error lv k = Some l ->
  (forall j, nth_error lv j = Some l -> j = k) -> l < length h ->
  map (rd (wr h l v)) lv = upd_list k v (map (rd h) lv).
Proof.
  induction lv as [|x lv IH]; intros k l h v H U L; destruct k; simpl in H; try discriminate.
  - inversion H; subst. simpl. f_equal; [apply rd_wr_same; auto|].
    apply map_rd_wr_notin. intro Hin. apply In_nth_error in Hin. destruct Hin as [j Hj].
    specialize (U (S j) Hj). discriminate.
  - simpl. f_equal.
    + apply rd_wr_other. intro E. subst. specialize (U 0 eq_refl). discriminate.
    + apply IH; auto. intros j Hj. specialize (U (S j) Hj). lia.
Qed.

Lemma nth_map_rd : forall h lv k l, nth_error lv k = Some l -> nth k (map (rd h) lv) zero = rd h l.
Proof. induction lv; destruct k; simpl; intros; try discriminate; [inversion H; auto|auto]. Qed.

(* ---------------- the extra invariant: an array the user holds is a live field at most at its own index *)
Definition W (s : state) : Prop :=
  forall k j l, nth_error (handed s) k = Some l -> nth_error (live s) j = Some l -> j = k.

Lemma W_disjoint : forall s, (forall l, In l (handed s) -> ~ In l (live s)) -> W s.
Proof. intros s D k j l Hk Hj. exfalso. apply (D l); eapply nth_error_In; eauto. Qed.

(* Get_results on a valid index, with a deep-copying read: explicit result *)
Lemma read_entry_deep : forall c s i e g, cfg_ok c -> deep_read c = true -> inv c s ->
  nth_error (store s) i = Some e -> nth_error (ghost s) i = Some g ->
  read_entry c s i = Some (heap s ++ snd g, (fst g, seq (length (heap s)) (nf c))).
Proof.
  intros c s i e g (Hr & Hs & Hp & Hl) D I He Hg.
  pose proof (i_match I _ He Hg) as M. unfold read_entry. rewrite He.
  assert (Lg : length (snd g) = nf c).
  { pose proof (i_glen I) as G. rewrite Forall_forall in G. apply G. eapply nth_error_In; eauto. }
  destruct e as [m ls|p]; simpl in M.
  - destruct M as (-> & M2 & _). rewrite D. simpl. rewrite M2, Lg. reflexivity.
  - destruct M as [_ M2]. rewrite Hp, M2. simpl. rewrite Lg. reflexivity.
Qed.

Lemma valid_iff : forall c s i, inv c s -> (i <? length (ghost s)) = true <-> exists e, nth_error (store s) i = Some e.
Proof.
  intros c s i I. rewrite Nat.ltb_lt, (i_len I). split.
  - intros H. destruct (nth_error (store s) i) eqn:E; eauto. apply nth_error_None in E. lia.
  - intros [e E]. apply nth_error_Some. congruence.
Qed.

Lemma live_lt : forall c s l, inv c s -> In l (live s) -> l < length (heap s).
Proof. intros c s l I H. pose proof (i_live I) as F. rewrite Forall_forall in F. auto. Qed.
Lemma handed_lt : forall c s l, inv c s -> In l (handed s) -> l < length (heap s).
Proof. intros c s l I H. pose proof (i_hand I) as F. rewrite Forall_forall in F. auto. Qed.

Arguments live_lt {c s l}.
Arguments handed_lt {c s l}.
Arguments valid_iff {c s} i.

(* Set_Iter i, deep read: W holds afterwards and the binding bits are as the abstract machine says *)
Lemma w_set_iter : forall c s i, cfg_ok c -> deep_read c = true -> inv c s -> W s ->
  W (set_iter c i s) /\
  bnd (set_iter c i s) = (if i <? length (ghost s) then (if restore_binds c then stored c else repeat false (nf c)) else bnd s) /\
  (nth_error (store s) i = None -> set_iter c i s = s).
Proof.
  intros c s i OK D I HW. pose proof OK as (Hr & Hs & Hp & Hl).
  destruct (nth_error (store s) i) as [e|] eqn:He.
  - destruct (ghost_of_store I He) as [g Hg].
    assert (V : (i <? length (ghost s)) = true) by (apply (valid_iff i I); eauto).
    rewrite V. unfold set_iter. rewrite (@read_entry_deep c s i e g OK D I He Hg).
    assert (Lg : length (snd g) = nf c).
    { pose proof (i_glen I) as G. rewrite Forall_forall in G. apply G. eapply nth_error_In; eauto. }
    assert (Fresh : forall l, In l (seq (length (heap s)) (nf c)) -> ~ In l (live s)).
    { intros l Hl' Hin. apply in_seq in Hl'. apply (live_lt I) in Hin. lia. }
    destruct (restore_binds c) eqn:B; simpl.
    + split; [|split; [|discriminate]].
      * intros k j l Hk Hj. simpl in *.
        (* live' = merge stored (seq ..) live *)
        assert (Hm : forall bs ls lv j l, length bs = length ls -> length ls = length lv ->
                  nth_error (merge bs ls lv) j = Some l -> nth_error ls j = Some l \/ nth_error lv j = Some l).
        { induction bs as [|b bs IHb]; intros ls lv j0 l0 A1 A2 Hn; destruct ls as [|y ls]; simpl in A1; try discriminate.
          - destruct j0; discriminate.
          - destruct lv as [|x lv]; simpl in A2; try discriminate. rewrite merge_cons in Hn.
            destruct j0; simpl in *.
            + destruct b; inversion Hn; auto.
            + apply (IHb ls lv j0 l0); auto. }
        destruct (Hm (stored c) (seq (length (heap s)) (nf c)) (live s) j l) as [H1|H1]; auto.
        { rewrite seq_length. auto. } { rewrite seq_length. symmetry. apply (i_nlive I). }
        -- (* both are positions of the NoDup list seq *)
           pose proof (seq_NoDup (nf c) (length (heap s))) as ND.
           rewrite NoDup_nth_error in ND. unfold loc in *. apply ND.
           ++ apply nth_error_Some. rewrite H1. discriminate.
           ++ rewrite H1. symmetry. exact Hk.
        -- exfalso. apply (Fresh l); [eapply nth_error_In; eauto|eapply nth_error_In; eauto].
      * unfold bnd. simpl. apply bndl_merge; auto.
        { rewrite seq_length. auto. } { rewrite seq_length. symmetry. apply (i_nlive I). }
    + split; [|split; [|discriminate]].
      * apply W_disjoint. simpl. intros l Hl' Hin.
        apply in_seq in Hl'.
        assert (Hm : forall bs ls lv x, In x (merge bs ls lv) -> In x ls \/ In x lv).
        { induction bs as [|b bs IHb]; intros ls lv x Hx; [destruct Hx|].
          destruct ls as [|y ls]; [destruct Hx|]. destruct lv as [|z lv]; [destruct Hx|].
          rewrite merge_cons in Hx. destruct Hx as [Hx|Hx].
          - destruct b; subst; simpl; auto.
          - destruct (IHb ls lv x Hx); simpl; auto. }
        destruct (Hm _ _ _ _ Hin) as [H1|H1].
        -- apply in_seq in H1. rewrite app_length in H1. lia.
        -- apply (live_lt I) in H1. lia.
      * unfold bnd. simpl. rewrite bndl_disjoint; [rewrite seq_length; reflexivity|].
        intros l Hl' Hin. apply in_seq in Hl'.
        assert (Hm : forall bs ls lv x, In x (merge bs ls lv) -> In x ls \/ In x lv).
        { induction bs as [|b bs IHb]; intros ls lv x Hx; [destruct Hx|].
          destruct ls as [|y ls]; [destruct Hx|]. destruct lv as [|z lv]; [destruct Hx|].
          rewrite merge_cons in Hx. destruct Hx as [Hx|Hx].
          - destruct b; subst; simpl; auto.
          - destruct (IHb ls lv x Hx); simpl; auto. }
        destruct (Hm _ _ _ _ Hin) as [H1|H1].
        -- apply in_seq in H1. rewrite app_length in H1. lia.
        -- apply (live_lt I) in H1. lia.
  - assert (V : (i <? length (ghost s)) = false).
    { apply Nat.ltb_ge. rewrite (i_len I). apply nth_error_None. auto. }
    rewrite V. unfold set_iter. rewrite (read_entry_none c s i He). auto.
Qed.

Lemma w_get_results : forall c s i, cfg_ok c -> deep_read c = true -> inv c s -> W s ->
  W (get_results c i s) /\
  bnd (get_results c i s) = (if i <? length (ghost s) then repeat false (nf c) else bnd s).
Proof.
  intros c s i OK D I HW.
  destruct (nth_error (store s) i) as [e|] eqn:He.
  - destruct (ghost_of_store I He) as [g Hg].
    assert (V : (i <? length (ghost s)) = true) by (apply (valid_iff i I); eauto).
    rewrite V. unfold get_results. rewrite (@read_entry_deep c s i e g OK D I He Hg).
    assert (Dj : forall l, In l (seq (length (heap s)) (nf c)) -> ~ In l (live s)).
    { intros l Hl' Hin. apply in_seq in Hl'. apply (live_lt I) in Hin. lia. }
    split.
    + apply W_disjoint. simpl. exact Dj.
    + unfold bnd. simpl. rewrite bndl_disjoint; auto. rewrite seq_length. reflexivity.
  - assert (V : (i <? length (ghost s)) = false).
    { apply Nat.ltb_ge. rewrite (i_len I). apply nth_error_None. auto. }
    rewrite V. unfold get_results. rewrite (read_entry_none c s i He). auto.
Qed.

Lemma w_result_q : forall c s i k, cfg_ok c -> deep_read c = true -> inv c s -> W s ->
  W (result_q c i k s) /\ bnd (result_q c i k s) = [false].
Proof.
  intros c s i k OK D I HW. pose proof (inv_setiter i OK I) as J.
  assert (Dj : forall l, In l [length (heap (set_iter c i s))] -> ~ In l (live (set_iter c i s))).
  { intros l [<-|[]] Hin. apply (live_lt J) in Hin. lia. }
  split.
  - apply W_disjoint. simpl. exact Dj.
  - change (bndl (live (set_iter c i s)) [length (heap (set_iter c i s))] = [false]).
    rewrite (bndl_disjoint [length (heap (set_iter c i s))] (live (set_iter c i s))); auto.
Qed.

(* a user write through the k-th handed array, whole (f = const) or one cell (f = upd_at i x) *)
Lemma w_write : forall c s k l (f : val -> val), inv c s -> W s -> nth_error (handed s) k = Some l ->
  map (rd (wr (heap s) l (f (rd (heap s) l)))) (live s) =
  (if nth k (bnd s) false then upd_list k (f (nth k (vals s) zero)) (vals s) else vals s).
Proof.
  intros c s k l f I HW Hk. unfold bnd, vals.
  destruct (nth k (bndl (live s) (handed s)) false) eqn:B.
  - apply (nth_bndl _ (live s) _ Hk) in B.
    rewrite (nth_map_rd (heap s) _ _ B).
    apply map_wr_unique; auto.
    + intros j Hj. apply (HW k j l Hk Hj).
    + apply (live_lt I). eapply nth_error_In; eauto.
  - apply map_rd_wr_notin. intro Hin. apply In_nth_error in Hin. destruct Hin as [j Hj].
    pose proof (HW k j l Hk Hj) as E. subst j.
    apply (nth_bndl _ (live s) _ Hk) in Hj. congruence.
Qed.

Definition inv2 (c : config) (s : state) : Prop := inv c s /\ W s.

(* every concrete step refines the write-aware abstract step and keeps the invariant *)
Theorem wabs_step : forall c o s, cfg_ok c -> deep_read c = true -> inv2 c s ->
  inv2 c (step c o s) /\ absw (step c o s) = wstep c o (absw s).
Proof.
  intros c o s OK D [I HW]. pose proof OK as (Hr & Hs & Hp & Hl).
  assert (I' : inv c (step c o s)) by (apply inv_step; auto).
  destruct o.
  - (* Solve *)
    assert (Dj : forall l, In l (handed (step c (Solve vs) s)) -> ~ In l (live (step c (Solve vs) s))).
    { simpl. rewrite Hr. simpl. intros l Hl' Hin. apply in_seq in Hin. apply (handed_lt I) in Hl'. lia. }
    split; [split; [auto|apply W_disjoint; auto]|].
    unfold absw. rewrite (@abs_step c (Solve vs) s OK I eq_refl). unfold wstep. f_equal.
    unfold bnd. rewrite bndl_disjoint by auto. simpl. rewrite Hr. simpl.
    unfold bnd. rewrite bndl_length. reflexivity.
  - (* SaveIter *)
    assert (E : live (step c SaveIter s) = live s /\ handed (step c SaveIter s) = handed s).
    { simpl. rewrite Hs. destruct (folder s =? 0); simpl; auto. }
    destruct E as [E1 E2].
    split; [split; [auto|]|].
    + intros k j l. rewrite E1, E2. apply HW.
    + unfold absw. rewrite (@abs_step c SaveIter s OK I eq_refl). unfold wstep, bnd. rewrite E1, E2. reflexivity.
  - (* SetFolder *) split; [split; auto|reflexivity].
  - (* GetResults *)
    destruct (w_get_results i OK D I HW) as [W1 B1].
    split; [split; auto|]. unfold absw. rewrite (@abs_step c (GetResults i) s OK I eq_refl).
    unfold wstep. f_equal. exact B1.
  - (* SetIter *)
    destruct (w_set_iter i OK D I HW) as (W1 & B1 & _).
    split; [split; auto|]. unfold absw. rewrite (@abs_step c (SetIter i) s OK I eq_refl).
    unfold wstep. f_equal. exact B1.
  - (* ResultQ *)
    destruct (w_result_q i k OK D I HW) as [W1 B1].
    split; [split; auto|]. unfold absw. rewrite (@abs_step c (ResultQ i k) s OK I eq_refl).
    unfold wstep. f_equal. exact B1.
  - (* WriteRet *)
    simpl. destruct (nth_error (handed s) k) as [l|] eqn:Hk.
    + split; [split; [simpl in I'; rewrite Hk in I'; auto|intros k0 j l0; simpl; apply HW]|].
      unfold absw, absv, awrite, vals, bnd. simpl.
      pose proof (@w_write c s k l (fun _ => v) I HW Hk) as Q. simpl in Q. rewrite Q.
      unfold bnd, vals. destruct (nth k (bndl (live s) (handed s)) false); reflexivity.
    + split; [split; auto|]. unfold awrite. simpl.
      assert (B : nth k (bnd s) false = false).
      { unfold bnd. apply nth_overflow. rewrite bndl_length. apply nth_error_None. auto. }
      rewrite B. reflexivity.
  - (* SetMesh *)
    assert (Dj : forall l, In l (handed (step c SetMesh s)) -> ~ In l (live (step c SetMesh s))).
    { simpl. intros l Hl' Hin. apply repeat_spec in Hin. apply (handed_lt I) in Hl'. lia. }
    split; [split; [auto|apply W_disjoint; auto]|].
    unfold absw. rewrite (@abs_step c SetMesh s OK I eq_refl). unfold wstep. f_equal.
    unfold bnd. rewrite bndl_disjoint by auto. simpl.
    unfold bnd. rewrite bndl_length. reflexivity.
  - (* SaveLoad *)
    split; [split; [auto|intros k j l H; destruct k; discriminate]|].
    unfold absw. rewrite (@abs_step c (SaveLoad f) s OK I eq_refl). reflexivity.
  - (* GetResultsNeg *)
    destruct (w_get_results (neg_idx k s) OK D I HW) as [W1 B1].
    split; [split; auto|]. unfold absw. rewrite (@abs_step c (GetResultsNeg k) s OK I eq_refl).
    unfold wstep. f_equal. simpl. rewrite (aneg_absv k I). exact B1.
  - (* SetIterNeg *)
    destruct (w_set_iter (neg_idx k s) OK D I HW) as (W1 & B1 & _).
    split; [split; auto|]. unfold absw. rewrite (@abs_step c (SetIterNeg k) s OK I eq_refl).
    unfold wstep. f_equal. simpl. rewrite (aneg_absv k I). exact B1.
  - (* ResultQNeg *)
    destruct (w_result_q (neg_idx j s) k OK D I HW) as [W1 B1].
    split; [split; auto|]. unfold absw. rewrite (@abs_step c (ResultQNeg j k) s OK I eq_refl).
    unfold wstep. f_equal. exact B1.
  - (* WriteRetAt *)
    simpl. destruct (nth_error (handed s) k) as [l|] eqn:Hk.
    + split; [split; [simpl in I'; rewrite Hk in I'; auto|intros k0 j l0; simpl; apply HW]|].
      unfold absw, absv, awrite, vals, bnd. simpl.
      pose proof (@w_write c s k l (upd_at i x) I HW Hk) as Q. rewrite Q.
      unfold bnd, vals. destruct (nth k (bndl (live s) (handed s)) false); reflexivity.
    + split; [split; auto|]. unfold awrite. simpl.
      assert (B : nth k (bnd s) false = false).
      { unfold bnd. apply nth_overflow. rewrite bndl_length. apply nth_error_None. auto. }
      rewrite B. reflexivity.
Qed.

Theorem wabs_run : forall c ops s, cfg_ok c -> deep_read c = true -> inv2 c s ->
  inv2 c (run c ops s) /\ absw (run c ops s) = wrun c ops (absw s).
Proof.
  intros c ops. induction ops as [|o t IH]; intros s OK D I2; simpl; auto.
  destruct (wabs_step o OK D I2) as [J E]. destruct (IH (step c o s) OK D J) as [K F].
  split; auto. rewrite F, E. reflexivity.
Qed.

Lemma inv2_init : forall c, inv2 c (init c).
Proof. intros c. split; [apply inv_init|]. intros k j l H. destruct k; discriminate. Qed.

(* MAIN (deep-copying Get_results): two runs that differ only in WHERE iterations are kept observe the same —
   live field values, the binding of every array the user holds, mesh, number of meshes, history, and the
   values of every stored iteration — for ALL op lists, user writes (whole arrays, single cells) included. *)
Theorem mem_disk_equiv_writes : forall c ops1 ops2, cfg_ok c -> deep_read c = true ->
  map strip ops1 = map strip ops2 ->
  absw (reach c ops1) = absw (reach c ops2) /\
  store_vals c (reach c ops1) = store_vals c (reach c ops2).
Proof.
  intros c ops1 ops2 OK D E.
  destruct (wabs_run ops1 OK D (inv2_init c)) as [[I1 _] A1].
  destruct (wabs_run ops2 OK D (inv2_init c)) as [[I2 _] A2].
  assert (A : absw (reach c ops1) = absw (reach c ops2)).
  { unfold reach. rewrite A1, A2. rewrite <- (wrun_strip c ops1), <- (wrun_strip c ops2), E. reflexivity. }
  split; auto.
  unfold reach. rewrite (store_vals_ghost OK I1), (store_vals_ghost OK I2).
  assert (G : a_hist (w_abs (absw (reach c ops1))) = a_hist (w_abs (absw (reach c ops2)))) by (rewrite A; auto).
  simpl in G. unfold reach in G. rewrite G. reflexivity.
Qed.

Corollary restore_mem_eq_restore_disk_writes : forall c ops, cfg_ok c -> deep_read c = true ->
  absw (reach c (to_mem ops)) = absw (reach c ops) /\ store_vals c (reach c (to_mem ops)) = store_vals c (reach c ops).
Proof.
  intros c ops OK D. apply mem_disk_equiv_writes; auto.
  unfold to_mem. rewrite map_map. apply map_ext. intros o. destruct o; reflexivity.
Qed.

Corollary mem_disk_equiv_writes_prefix : forall c ops1 ops2 n, cfg_ok c -> deep_read c = true ->
  map strip ops1 = map strip ops2 ->
  absw (reach c (firstn n ops1)) = absw (reach c (firstn n ops2)).
Proof.
  intros c ops1 ops2 n OK D E. apply mem_disk_equiv_writes; auto. rewrite <- !firstn_map, E. reflexivity.
Qed.

(* non-vacuity: whole-array and single-cell writes through arrays from Get_results (no effect) and from
   Set_Iter (reach the live field), folders changed between saves, a Save/Load, two meshes *)
Example mem_disk_writes_nonvacuous :
  let c := cfg_demo true in
  let ops := [SetFolder 1; Sv [5;6]; SaveIter; GetResults 0; Wr 0 9; SetFolder 2; SetMesh; Sv [7;8]; SaveIter;
              SetIterNeg 2; WriteRetAt 1 0 3; SaveIter; SetFolder 0; SaveLoad 3; SetIter 2; SetFolder 4;
              Sv [1;2]; SaveIter; SetIter 1; Wr 0 4]%N in
  deep_read c = true /\ no_writes ops = false /\
  store (reach c ops) = [OnDisk (1, 0); OnDisk (2, 1); OnDisk (2, 2); OnDisk (4, 3)] /\
  forallb (fun e => match e with InMem _ _ => true | OnDisk _ => false end) (store (reach c (to_mem ops))) = true /\
  absw (reach c (to_mem ops)) = absw (reach c ops) /\
  a_vals (w_abs (absw (reach c ops))) = [[4;4]; [8;8]]%N /\ w_bnd (absw (reach c ops)) = [true; true] /\
  store_vals c (reach c ops) = [Some (0, [[5;5];[6;6]]%N); Some (1, [[7;7];[8;8]]%N); Some (0, [[5;5];[3;6]]%N); Some (0, [[1;1];[2;2]]%N)].
Proof. vm_compute. repeat split; reflexivity. Qed.

Print Assumptions wabs_step.
Print Assumptions mem_disk_equiv_writes.
Print Assumptions restore_mem_eq_restore_disk_writes.

(* ---------------------------------------------------------------- Load_Simu (Save s): for EVERY continuation *)
(* The loaded object behaves like the original one for every later op list, not only at the instant of loading.
   The arrays the caller obtained BEFORE the round trip belong to the old object: the comparison is with the original
   simulation whose caller has dropped them (`drop_handed`); Save itself sets simu.folder (SetFolder f). *)
Definition drop_handed (s : state) : state :=
  mkst (heap s) (live s) (mesh s) (nmesh s) (store s) (folder s) (disk s) [] (ghost s).

Lemma inv2_drop_handed : forall c s, inv2 c s -> inv2 c (drop_handed s).
Proof.
  intros c s [I HW]. split.
  - destruct I. constructor; simpl; auto; try (intros D i m ls l H Hin []).
  - intros k j l H. destruct k; discriminate.
Qed.

Lemma folder_step : forall c o s1 s2, folder s1 = folder s2 -> folder (step c o s1) = folder (step c o s2).
Proof.
  intros c o s1 s2 E.
  assert (G : forall i s, folder (get_results c i s) = folder s).
  { intros i s. unfold get_results. destruct (read_entry c s i) as [[h [m ls]]|]; reflexivity. }
  assert (S : forall i s, folder (set_iter c i s) = folder s).
  { intros i s. unfold set_iter. destruct (read_entry c s i) as [[h [m ls]]|]; reflexivity. }
  destruct o; simpl; auto.
  - destruct (solve_rebinds c); simpl; auto.
  - rewrite E. destruct (folder s2 =? 0); [destruct (save_copies c)|]; simpl; auto.
  - rewrite !G. auto.
  - rewrite !S. auto.
  - unfold result_q. simpl. rewrite !S. auto.
  - destruct (nth_error (handed s1) k), (nth_error (handed s2) k); simpl; auto.
  - rewrite !G. auto.
  - rewrite !S. auto.
  - unfold result_q. simpl. rewrite !S. auto.
  - destruct (nth_error (handed s1) k), (nth_error (handed s2) k); simpl; auto.
Qed.

Lemma folder_run : forall c ops s1 s2, folder s1 = folder s2 -> folder (run c ops s1) = folder (run c ops s2).
Proof. induction ops; intros; simpl; auto. apply IHops. apply folder_step. auto. Qed.

Theorem save_load_every_continuation : forall c s f ops', cfg_ok c -> deep_read c = true -> inv2 c s ->
  let sL := run c ops' (step c (SaveLoad f) s) in
  let sO := run c ops' (drop_handed (step c (SetFolder f) s)) in
  absw sL = absw sO /\ store_vals c sL = store_vals c sO /\ folder sL = folder sO /\ length (store sL) = length (store sO).
Proof.
  intros c s f ops' OK D I2.
  destruct (wabs_step (SaveLoad f) OK D I2) as [JL EL].
  assert (JO : inv2 c (drop_handed (step c (SetFolder f) s))).
  { apply inv2_drop_handed. apply (wabs_step (SetFolder f) OK D I2). }
  destruct (wabs_run ops' OK D JL) as [[IL _] AL]. destruct (wabs_run ops' OK D JO) as [[IO _] AO].
  assert (A : absw (run c ops' (step c (SaveLoad f) s)) = absw (run c ops' (drop_handed (step c (SetFolder f) s)))).
  { rewrite AL, AO. f_equal. rewrite EL. unfold absw, absv, bnd, vals. simpl. reflexivity. }
  cbv zeta. split; auto. split; [|split].
  - rewrite (store_vals_ghost OK IL), (store_vals_ghost OK IO).
    assert (G : ghost (run c ops' (step c (SaveLoad f) s)) = ghost (run c ops' (drop_handed (step c (SetFolder f) s))))
      by exact (f_equal (fun w => a_hist (w_abs w)) A).
    rewrite G. reflexivity.
  - apply folder_run. reflexivity.
  - rewrite <- (i_len IL), <- (i_len IO).
    assert (G : ghost (run c ops' (step c (SaveLoad f) s)) = ghost (run c ops' (drop_handed (step c (SetFolder f) s))))
      by exact (f_equal (fun w => a_hist (w_abs w)) A).
    rewrite G. reflexivity.
Qed.

(* on every reachable state: any history (writes, folder changes, several meshes), then Save/Load, then ANY continuation *)
Corollary save_load_every_continuation_reachable : forall c ops f ops', cfg_ok c -> deep_read c = true ->
  let sL := run c ops' (step c (SaveLoad f) (reach c ops)) in
  let sO := run c ops' (drop_handed (step c (SetFolder f) (reach c ops))) in
  absw sL = absw sO /\ store_vals c sL = store_vals c sO /\ folder sL = folder sO /\ length (store sL) = length (store sO).
Proof.
  intros c ops f ops' OK D. apply save_load_every_continuation; auto.
  apply (wabs_run ops OK D (inv2_init c)).
Qed.

(* any read discipline, continuations without user writes *)
Theorem save_load_every_continuation_nowrites : forall c s f ops', cfg_ok c -> inv c s -> no_writes ops' = true ->
  absv (run c ops' (step c (SaveLoad f) s)) = absv (run c ops' (step c (SetFolder f) s)) /\
  store_vals c (run c ops' (step c (SaveLoad f) s)) = store_vals c (run c ops' (step c (SetFolder f) s)).
Proof.
  intros c s f ops' OK I W.
  assert (IL : inv c (step c (SaveLoad f) s)) by (apply inv_saveload; auto).
  assert (IO : inv c (step c (SetFolder f) s)) by (apply inv_setfolder; auto).
  assert (A : absv (run c ops' (step c (SaveLoad f) s)) = absv (run c ops' (step c (SetFolder f) s))).
  { rewrite (abs_run _ OK IL W), (abs_run _ OK IO W).
    rewrite (@abs_step c (SaveLoad f) s OK I eq_refl), (@abs_step c (SetFolder f) s OK I eq_refl). reflexivity. }
  split; auto.
  rewrite (store_vals_ghost OK (inv_run ops' OK (or_intror W) IL)), (store_vals_ghost OK (inv_run ops' OK (or_intror W) IO)).
  assert (G : ghost (run c ops' (step c (SaveLoad f) s)) = ghost (run c ops' (step c (SetFolder f) s)))
    by exact (f_equal a_hist A).
  rewrite G. reflexivity.
Qed.

Example save_load_continuation_nonvacuous :
  let c := cfg_demo true in
  let ops := [SetFolder 1; Sv [5;6]; SaveIter; SetMesh; Sv [7;8]; SaveIter; SetIter 0; Wr 0 9; SetFolder 0; SaveIter]%N in
  let ops' := [GetResults 2; WriteRetAt 0 0 1; Sv [1;2]; SaveIter; SetIterNeg 3; Wr 1 4; SaveIter; SetFolder 2; ResultQ 1 0; SetIter 4]%N in
  let sL := run c ops' (step c (SaveLoad 3) (reach c ops)) in
  let sO := run c ops' (drop_handed (step c (SetFolder 3) (reach c ops))) in
  absw sL = absw sO /\ store_vals c sL = store_vals c sO /\ length (store sL) = 5 /\
  a_vals (w_abs (absw sL)) = [[7;7]; [4;4]]%N /\ a_mesh (w_abs (absw sL)) = 1.
Proof. vm_compute. repeat split; reflexivity. Qed.
Print Assumptions save_load_every_continuation.
Print Assumptions save_load_every_continuation_nowrites.
