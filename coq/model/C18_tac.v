(* C18 — lemmas and tactics used by the generated per-law derivative proofs.
   Rational powers are Rpower (exp (q * ln x)); every identity between them is decided by
   writing the positive invariant I3 as t^6 (t = I3^(1/6) > 0), after which
   Rpower (t^6) (n/6) = t^n, sqrt (t^6) = t^3 and the goal is a rational identity in t. *)
From Coq Require Import Reals Lra Psatz.
From Coquelicot Require Import Coquelicot.
Open Scope R_scope.

Lemma rp_pos : forall x q, 0 < Rpower x q.
Proof. intros; unfold Rpower; apply exp_pos. Qed.

Lemma rp_sub : forall (t q : R) (n : nat), 0 < t -> q * 6 = INR n -> Rpower (t ^ 6) q = t ^ n.
Proof.
  intros t q n Ht Hq.
  rewrite <- (Rpower_pow 6 t Ht). rewrite Rpower_mult.
  replace (INR 6 * q) with (INR n) by (simpl; simpl in Hq; lra).
  apply Rpower_pow; auto.
Qed.

Lemma rp_sub_neg : forall (t q : R) (n : nat), 0 < t -> q * 6 = - INR n -> Rpower (t ^ 6) q = / t ^ n.
Proof.
  intros t q n Ht Hq.
  replace q with (- (- q)) by ring. rewrite Rpower_Ropp. f_equal.
  apply rp_sub; auto. lra.
Qed.

Lemma sixth_root : forall x, 0 < x -> exists t, 0 < t /\ x = t ^ 6.
Proof.
  intros x Hx. exists (Rpower x (1 / 6)). split. apply rp_pos.
  rewrite <- Rpower_pow by apply rp_pos. rewrite Rpower_mult.
  replace (1 / 6 * INR 6) with 1 by (simpl; lra). now rewrite Rpower_1.
Qed.

Lemma sqrt_t6 : forall t, 0 < t -> sqrt (t ^ 6) = t ^ 3.
Proof.
  intros t Ht. replace (t ^ 6) with ((t ^ 3) * (t ^ 3)) by ring.
  apply sqrt_square. apply pow_le; lra.
Qed.

Lemma ln_t6 : forall t, 0 < t -> ln (t ^ 6) = 6 * ln t.
Proof. intros t Ht. rewrite <- (Rpower_pow 6 t Ht). unfold Rpower. rewrite ln_exp. simpl; lra. Qed.

Lemma t6_pos : forall t, 0 < t -> 0 < t ^ 6.
Proof. intros; apply pow_lt; auto. Qed.

Lemma exp_double : forall a b, b = 2 * a -> exp b = exp a * exp a.
Proof. intros a b ->. rewrite <- exp_plus. f_equal. ring. Qed.

Ltac rp_find t q n :=
  first [ rewrite (rp_sub t q n) by (try assumption; simpl; lra)
        | rewrite (rp_sub_neg t q n) by (try assumption; simpl; lra)
        | match n with S ?m => rp_find t q m end ].
Ltac rp_fold t :=
  repeat match goal with
         | |- context [exp (?q * ln (t ^ 6))] => change (exp (q * ln (t ^ 6))) with (Rpower (t ^ 6) q)
         end.
Ltac rp_all t :=
  rp_fold t;
  repeat match goal with |- context [Rpower (t ^ 6) ?q] => rp_find t q 24%nat end;
  repeat rewrite (sqrt_t6 t) by assumption.

(* exp (2a) written separately from exp a (as in np.exp(-2*ks*I4m1) next to em4**2) *)
Ltac exp_pairs :=
  repeat match goal with
         | |- context [exp ?b] =>
           match goal with
           | |- context [exp ?a] =>
             lazymatch a with b => fail | _ => idtac end;
             rewrite (exp_double a b) by ring
           end
         end.

Ltac pos :=
  match goal with
  | |- 0 < ?a * ?b => apply Rmult_lt_0_compat; pos
  | |- 0 < exp _ => apply exp_pos
  | |- 0 < Rpower _ _ => apply rp_pos
  | |- 0 < _ ^ _ => apply pow_lt; pos
  | |- 0 < sqrt _ => apply sqrt_lt_R0; pos
  | |- 0 < / _ => apply Rinv_0_lt_compat; pos
  | |- 0 < ?a + ?b => apply Rplus_lt_0_compat; pos
  | |- _ => assumption || lra
  end.
Ltac conds := repeat split; try exact I; try (apply Rgt_not_eq; unfold Rgt; pos); try pos.

(* the same exponential written with syntactically different (field-equal) arguments *)
Ltac exp_unify :=
  repeat match goal with
         | |- context [exp ?a] =>
           match goal with
           | |- context [exp ?b] =>
             lazymatch a with b => fail | _ => idtac end;
             replace (exp a) with (exp b) by (f_equal; field; conds)
           end
         end.


(* is_derive goals: H : 0 < I3.  I3 stays a variable during auto_derive (which would unfold
   t^6), then is replaced by t^6. *)
Ltac dsolve H :=
  let t := fresh "t" in let Ht := fresh "Ht" in let E := fresh "E" in
  destruct (sixth_root _ H) as [t [Ht E]];
  unfold Rpower; auto_derive;
  [ conds | rewrite ?E; rp_all t; try exp_unify; try exp_pairs; field; conds ].

(* equalities between two tabulated expressions *)
Ltac esolve H :=
  let t := fresh "t" in let Ht := fresh "Ht" in let E := fresh "E" in
  destruct (sixth_root _ H) as [t [Ht E]];
  rewrite ?E; rp_all t; try exp_unify; try exp_pairs; field; conds.
