(* C12_FeReduceMax.v — max / min over a tuple of axes = composition of single-axis max / min.
   max and min have no neutral element, so the concatenation law only holds for NON-EMPTY blocks;
   the tuple theorem is re-proved under that weaker law for arrays whose reduced axes have positive
   size, and instantiated with the rational max / min of the case files (qred 2, qred 3: left fold
   from the first entry; Leibniz equality -- the SAME representative is selected). *)
From Coq Require Import List Arith Bool Lia QArith.
From EFModel Require Import C12_FeShape C12_FeTensor C12_FeProofs C12_FeFlat C12_FeReduce2 C12_FeReduceN C12_FeQ.
Import ListNotations.
Local Open Scope nat_scope.

Section NonEmptyLaw.
Variable V : Type.
Variable f : list V -> V.
Hypothesis f_concat_ne : forall ls : list (list V), ls <> [] -> (forall l, In l ls -> l <> []) -> f (concat ls) = f (map f ls).

Lemma indices_nonempty ds : Forall (fun d => 0 < d) ds -> indices ds <> [].
Proof.
  induction ds as [|d ds IH]; intros H; [discriminate|]. inversion H; subst. cbn [indices].
  destruct d; [lia|]. cbn [seq flat_map]. specialize (IH H3).
  destruct (indices ds); [contradiction|]. discriminate.
Qed.

Theorem reduce_snoc_is_composition_ne (a : arr V) L j :
  all_below j L -> j < length (shape V a) ->
  0 < nth j (shape V a) 0 -> Forall (fun d => 0 < d) (select_axes_from 0 L (shape V a)) ->
  shape V (reduce_arr V f (L ++ [j]) a) = shape V (reduce_arr V f L (reduce_arr V f [j] a)) /\
  forall k, length k + length (select_axes_from 0 L (shape V a)) + 1 = length (shape V a) ->
    dat V (reduce_arr V f (L ++ [j]) a) k = dat V (reduce_arr V f L (reduce_arr V f [j] a)) k.
Proof.
  intros HL Hj Hpos Hposs. unfold reduce_arr. cbn [shape dat]. unfold remove_axes. split.
  - apply remove_snoc; [exact HL|lia].
  - intros k Lk.
    rewrite (select_snoc (shape V a) 0 L j HL) by lia.
    rewrite (select_after_remove (shape V a) 0 L j HL) by lia.
    rewrite (select_one (shape V a) 0 j) by lia. rewrite Nat.sub_0_r in *.
    rewrite indices_snoc, indices_one.
    rewrite map_flat_map, flat_map_concat_map, f_concat_ne, !map_map.
    + f_equal. apply map_ext_in. intros r Hr. rewrite !map_map. f_equal. apply map_ext. intros y.
      pose proof (indices_length _ _ Hr) as Lr.
      rewrite merge_snoc; [reflexivity|exact HL|lia|exact Lr|rewrite Lr; exact Lk].
    + intros E. apply map_eq_nil in E. exact (indices_nonempty _ Hposs E).
    + intros l Hl. apply in_map_iff in Hl. destruct Hl as [r [<- _]]. intros E.
      apply map_eq_nil in E. apply map_eq_nil in E.
      destruct (nth j (shape V a) 0); [lia|discriminate].
Qed.
Hypothesis f_single : forall x : V, f [x] = x.

Theorem reduce_tuple_is_composition_ne l : asc l -> forall (a : arr V),
  Forall (fun i => i < length (shape V a)) l ->
  Forall (fun d => 0 < d) (select_axes_from 0 l (shape V a)) ->
  shape V (reduce_arr V f l a) = shape V (reduce_each f l a) /\
  forall k, length k + length l = length (shape V a) ->
    dat V (reduce_arr V f l a) k = dat V (reduce_each f l a) k.
Proof.
  induction 1 as [|L j HA IH HB]; intros a Hs Hpos.
  - unfold reduce_each. cbn [fold_right]. unfold reduce_arr. cbn [shape dat]. split.
    + unfold remove_axes. now rewrite remove_nothing.
    + intros k Lk. rewrite select_nothing by reflexivity. cbn [indices map].
      rewrite merge_copy; [|reflexivity|simpl in Lk; lia]. apply f_single.
  - apply Forall_app in Hs. destruct Hs as [HL Hj]. inversion Hj as [|? ? Hj' _]; subst.
    rewrite (select_snoc (shape V a) 0 L j HB) in Hpos by lia. rewrite Nat.sub_0_r in Hpos.
    apply Forall_app in Hpos. destruct Hpos as [HpL Hpj]. inversion Hpj as [|? ? Hpj' _]; subst.
    destruct (reduce_snoc_is_composition_ne a L j HB Hj' Hpj' HpL) as [S1 V1].
    set (a' := reduce_arr V f [j] a) in *.
    assert (Sa' : shape V a' = remove_axes_from 0 [j] (shape V a)) by reflexivity.
    assert (La' : length (shape V a') = length (shape V a) - 1).
    { rewrite Sa'. apply remove_one_length. lia. }
    assert (HL' : Forall (fun i => i < length (shape V a')) L).
    { rewrite La'. unfold all_below in HB. rewrite Forall_forall in *. intros i Hi. specialize (HB i Hi). lia. }
    assert (Hp' : Forall (fun d => 0 < d) (select_axes_from 0 L (shape V a'))).
    { rewrite Sa', (select_after_remove (shape V a) 0 L j HB) by lia. exact HpL. }
    destruct (IH a' HL' Hp') as [S2 V2].
    unfold reduce_each. rewrite fold_right_app. cbn [fold_right]. fold a'. fold (reduce_each f L a').
    split; [congruence|].
    intros k Lk. rewrite app_length in Lk. cbn [length] in Lk.
    rewrite V1 by (rewrite (select_length_asc L HA _ HL); lia).
    apply V2. lia.
Qed.
End NonEmptyLaw.

(* ---- rational max / min: associativity with Leibniz equality ---- *)
Lemma qmax_assoc a b c : qmax a (qmax b c) = qmax (qmax a b) c.
Proof.
  unfold qmax.
  destruct (Qle_bool b c) eqn:Ebc, (Qle_bool a b) eqn:Eab; rewrite ?Ebc, ?Eab; try reflexivity.
  - (* a <= b <= c *) assert (Qle_bool a c = true) as ->; [|reflexivity].
    apply Qle_bool_iff. apply Qle_bool_iff in Ebc, Eab. eapply Qle_trans; eassumption.
  - (* c < b, b < a *) destruct (Qle_bool a c) eqn:Eac; [|reflexivity].
    exfalso. apply Qle_bool_iff in Eac.
    assert (H1 : ~ (b <= c)%Q) by (intro H; apply Qle_bool_iff in H; congruence).
    assert (H2 : ~ (a <= b)%Q) by (intro H; apply Qle_bool_iff in H; congruence).
    apply H1. apply Qnot_le_lt in H2. apply Qlt_le_weak in H2. eapply Qle_trans; eassumption.
Qed.

Lemma qmin_assoc a b c : qmin a (qmin b c) = qmin (qmin a b) c.
Proof.
  unfold qmin.
  destruct (Qle_bool b c) eqn:Ebc, (Qle_bool a b) eqn:Eab; rewrite ?Ebc, ?Eab; try reflexivity.
  - destruct (Qle_bool a c) eqn:Eac; [reflexivity|].
    exfalso. apply Qle_bool_iff in Ebc, Eab.
    assert (Qle_bool a c = true) by (apply Qle_bool_iff; eapply Qle_trans; eassumption). congruence.
  - destruct (Qle_bool a c) eqn:Eac; [|reflexivity].
    exfalso. apply Qle_bool_iff in Eac.
    assert (H1 : ~ (b <= c)%Q) by (intro H; apply Qle_bool_iff in H; congruence).
    assert (H2 : ~ (a <= b)%Q) by (intro H; apply Qle_bool_iff in H; congruence).
    apply Qnot_le_lt in H1, H2. apply (Qlt_irrefl a).
    eapply Qle_lt_trans; [exact Eac|]. eapply Qlt_trans; eassumption.
Qed.

Section FoldLaw.
Variable g : Q -> Q -> Q.
Hypothesis g_assoc : forall a b c, g a (g b c) = g (g a b) c.
Definition M (l : list Q) : Q := match l with [] => 0%Q | x :: r => fold_left g r x end.

Lemma fold_left_g r : forall m y, fold_left g r (g m y) = g m (fold_left g r y).
Proof. induction r as [|z r IH]; intros m y; [reflexivity|]. cbn [fold_left]. rewrite <- g_assoc. apply IH. Qed.

Lemma M_app l1 l2 : l1 <> [] -> l2 <> [] -> M (l1 ++ l2) = g (M l1) (M l2).
Proof.
  destruct l1 as [|x r1]; [congruence|]. destruct l2 as [|y r2]; [congruence|]. intros _ _.
  cbn [M app]. rewrite fold_left_app. cbn [fold_left]. apply fold_left_g.
Qed.

Lemma M_cons a rest : rest <> [] -> M (a :: rest) = g a (M rest).
Proof. intros H. change (a :: rest) with ([a] ++ rest). rewrite M_app by (congruence || exact H). reflexivity. Qed.

Lemma M_concat (ls : list (list Q)) : ls <> [] -> (forall l, In l ls -> l <> []) -> M (concat ls) = M (map M ls).
Proof.
  induction ls as [|l ls IH]; intros Hne Hall; [congruence|].
  destruct ls as [|l' ls'].
  - cbn [concat map]. rewrite app_nil_r. destruct l; [exfalso; apply (Hall []); [left; reflexivity|reflexivity]|].
    reflexivity.
  - cbn [concat map] in *.
    assert (Hl : l <> []) by (apply Hall; left; reflexivity).
    assert (Hr : l' ++ concat ls' <> []).
    { assert (l' <> []) by (apply Hall; right; left; reflexivity). destruct l'; [congruence|discriminate]. }
    rewrite M_app by assumption.
    rewrite M_cons by discriminate.
    f_equal. apply IH; [discriminate|]. intros x Hx. apply Hall. right. exact Hx.
Qed.
End FoldLaw.

Lemma qred_max_is_M l : qred 2 l = M qmax l.
Proof. reflexivity. Qed.
Lemma qred_min_is_M l : qred 3 l = M qmin l.
Proof. reflexivity. Qed.

(* np.max / np.min over (L, j) = max / min over j, then over L, as computed in the case files *)
Corollary qmax_qmin_snoc_is_composition (a : arr Q) L j :
  all_below j L -> j < length (shape Q a) ->
  0 < nth j (shape Q a) 0 -> Forall (fun d => 0 < d) (select_axes_from 0 L (shape Q a)) ->
  forall k, length k + length (select_axes_from 0 L (shape Q a)) + 1 = length (shape Q a) ->
    dat Q (reduce_arr Q (qred 2) (L ++ [j]) a) k = dat Q (reduce_arr Q (qred 2) L (reduce_arr Q (qred 2) [j] a)) k /\
    dat Q (reduce_arr Q (qred 3) (L ++ [j]) a) k = dat Q (reduce_arr Q (qred 3) L (reduce_arr Q (qred 3) [j] a)) k.
Proof.
  intros HL Hj Hp Hps k Hk. split.
  - apply (proj2 (reduce_snoc_is_composition_ne Q (qred 2) (M_concat qmax qmax_assoc) a L j HL Hj Hp Hps)). exact Hk.
  - apply (proj2 (reduce_snoc_is_composition_ne Q (qred 3) (M_concat qmin qmin_assoc) a L j HL Hj Hp Hps)). exact Hk.
Qed.

Example max_hyp_satisfiable :
  all_below 3 [2] /\ Forall (fun d => 0 < d) (select_axes_from 0 [2] [2; 2; 3; 4]) /\ 0 < nth 3 [2; 2; 3; 4] 0.
Proof. repeat split; unfold all_below; repeat constructor. Qed.

Corollary qmax_qmin_tuple_is_composition l (a : arr Q) :
  asc l -> Forall (fun i => i < length (shape Q a)) l ->
  Forall (fun d => 0 < d) (select_axes_from 0 l (shape Q a)) ->
  forall k, length k + length l = length (shape Q a) ->
    dat Q (reduce_arr Q (qred 2) l a) k = dat Q (reduce_each (qred 2) l a) k /\
    dat Q (reduce_arr Q (qred 3) l a) k = dat Q (reduce_each (qred 3) l a) k.
Proof.
  intros HA Hs Hp k Hk. split.
  - apply (proj2 (reduce_tuple_is_composition_ne Q (qred 2) (M_concat qmax qmax_assoc) (fun x => eq_refl) l HA a Hs Hp)). exact Hk.
  - apply (proj2 (reduce_tuple_is_composition_ne Q (qred 3) (M_concat qmin qmin_assoc) (fun x => eq_refl) l HA a Hs Hp)). exact Hk.
Qed.
