(* C11 — hand model of the lazy update of the constitutive matrices
   (EasyFEA/Models/Elastic/_laws.py:77-125 `C`/`S` getters, Utilities/_params.py:131-146
   `_Parameter.__set__` -> `Need_Update()`, Updatable.needUpdate defaulting to True).

   State = current parameter CONTENTS, the stored pair (C,S) (None before the first _Update) and
   the needUpdate flag.  [behavior] is the class's `_Behavior` (any function of the parameters).

   Aliasing: a parameter may be a user-owned array.  [SetParam alias p] is an assignment through
   the descriptor after which the parameter contents are p; [alias] tells whether the assigned
   object IS the object already stored (the user edited his array in place and re-assigned it) —
   the faithful step ignores it: every assignment invalidates.  [step_guarded] is the variant with
   an "unchanged object" shortcut; it is refuted below. *)
From Coq Require Import List Bool.
Import ListNotations.

Section Lazy.
  Variable Prm Law : Type.
  Variable behavior : Prm -> Law.

  Record st := { prm : Prm; stored : option Law; need : bool }.

  Inductive op :=
  | SetParam (alias : bool) (p : Prm)   (* any descriptor assignment: contents become p, Need_Update() is called *)
  | Read                      (* material.C or material.S *)
  | NotifyOnly.               (* Need_Update() called directly *)

  (* __init__ assigns the parameters through the descriptors; needUpdate starts True *)
  Definition init (p : Prm) : st := {| prm := p; stored := None; need := true |}.

  (* one step; a Read also returns the value handed to the caller *)
  Definition step (s : st) (o : op) : st * option Law :=
    match o with
    | SetParam _ p => ({| prm := p; stored := stored s; need := true |}, None)
    | NotifyOnly => ({| prm := prm s; stored := stored s; need := true |}, None)
    | Read =>
        if need s
        then let l := behavior (prm s) in ({| prm := prm s; stored := Some l; need := false |}, Some l)
        else (s, stored s)
    end.

  Fixpoint run (s : st) (ops : list op) : st :=
    match ops with [] => s | o :: t => run (fst (step s o)) t end.

  Definition inv (s : st) : Prop := need s = false -> stored s = Some (behavior (prm s)).

  Lemma inv_init p : inv (init p).
  Proof. unfold inv, init; cbn. discriminate. Qed.

  Lemma inv_step s o : inv s -> inv (fst (step s o)).
  Proof.
    unfold inv. destruct o; cbn; try discriminate.
    destruct (need s) eqn:E; cbn; auto.
  Qed.

  Lemma inv_run ops : forall s, inv s -> inv (run s ops).
  Proof. induction ops as [|o t IH]; cbn; intros s H; auto. apply IH, inv_step, H. Qed.

  (* current parameters after a sequence of operations *)
  Fixpoint last_prm (p : Prm) (ops : list op) : Prm :=
    match ops with [] => p | SetParam _ q :: t => last_prm q t | _ :: t => last_prm p t end.

  Lemma prm_run ops : forall s, prm (run s ops) = last_prm (prm s) ops.
  Proof.
    induction ops as [|o t IH]; cbn; intros s; auto. rewrite IH.
    destruct o; cbn; auto. destruct (need s); reflexivity.
  Qed.

  (* the property: after ANY sequence of setter / read / notify operations, the next read
     returns the law of the current parameters *)
  Theorem lazy_update : forall p0 ops,
    snd (step (run (init p0) ops) Read) = Some (behavior (last_prm p0 ops)).
  Proof.
    intros p0 ops. pose proof (inv_run ops (init p0) (inv_init p0)) as H.
    pose proof (prm_run ops (init p0)) as Hp. cbn in Hp.
    unfold inv in H. cbn. destruct (need (run (init p0) ops)) eqn:E; cbn.
    - now rewrite Hp.
    - rewrite H by reflexivity. now rewrite Hp.
  Qed.

  (* and a read never changes what a later read returns (no spurious recomputation with
     different parameters) *)
  Theorem read_idempotent : forall s, inv s ->
    snd (step (fst (step s Read)) Read) = snd (step s Read).
  Proof.
    intros s H. unfold inv in H. cbn. destruct (need s) eqn:E; cbn; auto. now rewrite E.
  Qed.
  (* ---- the "unchanged object" shortcut: an assignment of the very object already stored does
     not invalidate.  With in-place edits the contents do change, so the property fails. *)
  Definition step_guarded (s : st) (o : op) : st * option Law :=
    match o with
    | SetParam true p => ({| prm := p; stored := stored s; need := need s |}, None)
    | _ => step s o
    end.

  Fixpoint run_guarded (s : st) (ops : list op) : st :=
    match ops with [] => s | o :: t => run_guarded (fst (step_guarded s o)) t end.

  Theorem guarded_shortcut_refuted : forall p q : Prm, behavior p <> behavior q ->
    exists ops, snd (step_guarded (run_guarded (init p) ops) Read) <> Some (behavior (last_prm p ops)).
  Proof.
    intros p q H. exists [Read; SetParam true q]. cbn. intro E. injection E as E. auto.
  Qed.
End Lazy.

(* ------------------------------------------------------------------------------------------
   Derived caches (Get_sqrt_C_S): a derived quantity D = derive(law) is cached next to the law;
   `_Update` stores C through the C setter, which resets the derived cache.  The faithful derived
   read FIRST reads C (hence consults needUpdate), then uses / fills the cache. *)
Section LazyDerived.
  Variable Prm Law Der : Type.
  Variable behavior : Prm -> Law.
  Variable derive : Law -> Der.

  Record dst := { dprm : Prm; dstored : option Law; dneed : bool; dcache : option Der }.

  Inductive dop :=
  | DSet (alias : bool) (p : Prm)
  | DNotify
  | DReadLaw          (* material.C / .S *)
  | DReadDer.         (* material.Get_sqrt_C_S() *)

  Inductive dres := RNone | RLaw (l : option Law) | RDer (d : option Der).

  Definition dinit (p : Prm) : dst := {| dprm := p; dstored := None; dneed := true; dcache := None |}.

  (* the C getter: process a pending update (the C setter resets the derived cache) *)
  Definition refresh (s : dst) : dst :=
    if dneed s then {| dprm := dprm s; dstored := Some (behavior (dprm s)); dneed := false; dcache := None |} else s.

  Definition fill (s : dst) : dst :=
    match dcache s, dstored s with
    | None, Some l => {| dprm := dprm s; dstored := dstored s; dneed := dneed s; dcache := Some (derive l) |}
    | _, _ => s
    end.

  Definition dstep (s : dst) (o : dop) : dst * dres :=
    match o with
    | DSet _ p => ({| dprm := p; dstored := dstored s; dneed := true; dcache := dcache s |}, RNone)
    | DNotify => ({| dprm := dprm s; dstored := dstored s; dneed := true; dcache := dcache s |}, RNone)
    | DReadLaw => let s' := refresh s in (s', RLaw (dstored s'))
    | DReadDer => let s' := fill (refresh s) in (s', RDer (dcache s'))
    end.

  Fixpoint drun (s : dst) (ops : list dop) : dst :=
    match ops with [] => s | o :: t => drun (fst (dstep s o)) t end.

  Fixpoint dlast (p : Prm) (ops : list dop) : Prm :=
    match ops with [] => p | DSet _ q :: t => dlast q t | _ :: t => dlast p t end.

  (* invariant: an up-to-date object stores the law of its parameters and a consistent cache *)
  Definition dinv (s : dst) : Prop :=
    dneed s = false -> dstored s = Some (behavior (dprm s)) /\
                       (forall d, dcache s = Some d -> d = derive (behavior (dprm s))).

  Lemma dinv_init p : dinv (dinit p).
  Proof. unfold dinv; cbn. discriminate. Qed.

  Lemma refresh_spec s : dinv s ->
    dneed (refresh s) = false /\ dprm (refresh s) = dprm s /\ dinv (refresh s).
  Proof.
    intro H. unfold refresh. destruct (dneed s) eqn:E; cbn.
    - split; [reflexivity | split; [reflexivity |]]. unfold dinv; cbn. intros _. split; [reflexivity | discriminate].
    - split; [exact E | split; [reflexivity | exact H]].
  Qed.

  Lemma fill_spec s : dinv s -> dneed s = false ->
    dneed (fill s) = false /\ dprm (fill s) = dprm s /\ dinv (fill s) /\
    dcache (fill s) = Some (derive (behavior (dprm s))).
  Proof.
    intros H Hn. destruct (H Hn) as [Hs Hc]. unfold fill. rewrite Hs.
    destruct (dcache s) eqn:Ec.
    - split; [exact Hn | split; [reflexivity | split; [exact H |]]]. rewrite Ec. f_equal. apply Hc. reflexivity.
    - cbn. split; [exact Hn | split; [reflexivity | split; [| reflexivity]]]. unfold dinv; cbn. intros _. split; [first [exact Hs | reflexivity]|].
      intros d Hd. injection Hd as <-. reflexivity.
  Qed.

  Lemma dinv_step s o : dinv s -> dinv (fst (dstep s o)).
  Proof.
    intro H. destruct o; cbn.
    - unfold dinv; cbn. discriminate.
    - unfold dinv; cbn. discriminate.
    - apply refresh_spec, H.
    - destruct (refresh_spec s H) as (Hn & _ & Hi). apply (fill_spec _ Hi Hn).
  Qed.

  Lemma dinv_run ops : forall s, dinv s -> dinv (drun s ops).
  Proof. induction ops as [|o t IH]; cbn; auto. intros s H. apply IH, dinv_step, H. Qed.

  (* the current parameters along a run from a state satisfying the invariant *)
  Lemma dprm_run ops : forall s, dinv s -> dprm (drun s ops) = dlast (dprm s) ops.
  Proof.
    induction ops as [|o t IH]; cbn; auto. intros s H. rewrite (IH _ (dinv_step s o H)).
    destruct o; cbn; auto.
    - destruct (refresh_spec s H) as (_ & Hp & _). now rewrite Hp.
    - destruct (refresh_spec s H) as (Hn & Hp & Hi). destruct (fill_spec _ Hi Hn) as (_ & Hp2 & _).
      now rewrite Hp2, Hp.
  Qed.

  (* after ANY sequence of assignments / notifications / reads of either kind, in any order, the next
     read of the law AND the next read of the derived quantity reflect the current parameters *)
  Theorem lazy_update_derived : forall p0 ops,
    snd (dstep (drun (dinit p0) ops) DReadLaw) = RLaw (Some (behavior (dlast p0 ops))) /\
    snd (dstep (drun (dinit p0) ops) DReadDer) = RDer (Some (derive (behavior (dlast p0 ops)))).
  Proof.
    intros p0 ops. pose proof (dinv_run ops _ (dinv_init p0)) as H.
    pose proof (dprm_run ops _ (dinv_init p0)) as Hp. cbn in Hp.
    set (s := drun (dinit p0) ops) in *.
    destruct (refresh_spec s H) as (Hn & Hq & Hi). cbn. split.
    - f_equal. destruct (Hi Hn) as [Hs _]. now rewrite Hs, Hq, Hp.
    - f_equal. destruct (fill_spec _ Hi Hn) as (_ & _ & _ & Hc). now rewrite Hc, Hq, Hp.
  Qed.

  (* the shortcut "use the derived cache when it is populated, without reading C first" *)
  Definition dstep_shortcut (s : dst) (o : dop) : dst * dres :=
    match o, dcache s with
    | DReadDer, Some d => (s, RDer (Some d))
    | _, _ => dstep s o
    end.
  Fixpoint drun_shortcut (s : dst) (ops : list dop) : dst :=
    match ops with [] => s | o :: t => drun_shortcut (fst (dstep_shortcut s o)) t end.

  Theorem derived_shortcut_refuted : forall p q : Prm, derive (behavior p) <> derive (behavior q) ->
    exists ops, snd (dstep_shortcut (drun_shortcut (dinit p) ops) DReadDer)
                <> RDer (Some (derive (behavior (dlast p ops)))).
  Proof.
    intros p q H. exists [DReadDer; DSet false q]. cbn. intro E. injection E as E. auto.
  Qed.
End LazyDerived.

(* executable instance used by the correspondence run: parameters = list of integers,
   law = the parameter list itself (so the model's answer is "the parameters in force") *)
Definition run_reads {P : Type} (p0 : P) (ops : list (op P)) : list (option P) :=
  (fix go (s : st P P) (ops : list (op P)) : list (option P) :=
     match ops with
     | [] => []
     | o :: t => let r := step P P (fun x => x) s o in
                 match o with Read _ => snd r :: go (fst r) t | _ => go (fst r) t end
     end) (init P P p0) ops.

Example lazy_nonvacuous :
  run_reads 1 [Read nat; SetParam nat false 2; SetParam nat true 3; Read nat; Read nat; NotifyOnly nat; Read nat]
  = [Some 1; Some 3; Some 3; Some 3].
Proof. reflexivity. Qed.
