(* C11 — hand model of the lazy update of the constitutive matrices
   (EasyFEA/Models/Elastic/_laws.py:77-125 `C`/`S` getters, Utilities/_params.py:131-146
   `_Parameter.__set__` -> `Need_Update()`, Updatable.needUpdate defaulting to True).

   State = current parameter CONTENTS, the stored pair (C,S) (None before the first _Update) and
   the needUpdate flag.  [behavior] is the class's `_Behavior` (any function of the parameters).

   Aliasing: a parameter may be a user-owned array.  [SetParam alias p] is an assignment through
   the descriptor after which the parameter contents are p; [alias] tells whether the assigned
   object IS the object already stored (the user edited his array in place and re-assigned it) —
   the faithful step ignores it: every assignment invalidates.  [step_guarded] is the variant with
   an "unchanged object" shortcut; it is refuted below. *)
From Coq Require Import List Bool.
Import ListNotations.

Section Lazy.
  Variable Prm Law : Type.
  Variable behavior : Prm -> Law.

  Record st := { prm : Prm; stored : option Law; need : bool }.

  Inductive op :=
  | SetParam (alias : bool) (p : Prm)   (* any descriptor assignment: contents become p, Need_Update() is called *)
  | Read                      (* material.C or material.S *)
  | NotifyOnly.               (* Need_Update() called directly *)

  (* __init__ assigns the parameters through the descriptors; needUpdate starts True *)
  Definition init (p : Prm) : st := {| prm := p; stored := None; need := true |}.

  (* one step; a Read also returns the value handed to the caller *)
  Definition step (s : st) (o : op) : st * option Law :=
    match o with
    | SetParam _ p => ({| prm := p; stored := stored s; need := true |}, None)
    | NotifyOnly => ({| prm := prm s; stored := stored s; need := true |}, None)
    | Read =>
        if need s
        then let l := behavior (prm s) in ({| prm := prm s; stored := Some l; need := false |}, Some l)
        else (s, stored s)
    end.

  Fixpoint run (s : st) (ops : list op) : st :=
    match ops with [] => s | o :: t => run (fst (step s o)) t end.

  Definition inv (s : st) : Prop := need s = false -> stored s = Some (behavior (prm s)).

  Lemma inv_init p : inv (init p).
  Proof. unfold inv, init; cbn. discriminate. Qed.

  Lemma inv_step s o : inv s -> inv (fst (step s o)).
  Proof.
    unfold inv. destruct o; cbn; try discriminate.
    destruct (need s) eqn:E; cbn; auto.
  Qed.

  Lemma inv_run ops : forall s, inv s -> inv (run s ops).
  Proof. induction ops as [|o t IH]; cbn; intros s H; auto. apply IH, inv_step, H. Qed.

  (* current parameters after a sequence of operations *)
  Fixpoint last_prm (p : Prm) (ops : list op) : Prm :=
    match ops with [] => p | SetParam _ q :: t => last_prm q t | _ :: t => last_prm p t end.

  Lemma prm_run ops : forall s, prm (run s ops) = last_prm (prm s) ops.
  Proof.
    induction ops as [|o t IH]; cbn; intros s; auto. rewrite IH.
    destruct o; cbn; auto. destruct (need s); reflexivity.
  Qed.

  (* the property: after ANY sequence of setter / read / notify operations, the next read
     returns the law of the current parameters *)
  Theorem lazy_update : forall p0 ops,
    snd (step (run (init p0) ops) Read) = Some (behavior (last_prm p0 ops)).
  Proof.
    intros p0 ops. pose proof (inv_run ops (init p0) (inv_init p0)) as H.
    pose proof (prm_run ops (init p0)) as Hp. cbn in Hp.
    unfold inv in H. cbn. destruct (need (run (init p0) ops)) eqn:E; cbn.
    - now rewrite Hp.
    - rewrite H by reflexivity. now rewrite Hp.
  Qed.

  (* and a read never changes what a later read returns (no spurious recomputation with
     different parameters) *)
  Theorem read_idempotent : forall s, inv s ->
    snd (step (fst (step s Read)) Read) = snd (step s Read).
  Proof.
    intros s H. unfold inv in H. cbn. destruct (need s) eqn:E; cbn; auto. now rewrite E.
  Qed.
  (* ---- the "unchanged object" shortcut: an assignment of the very object already stored does
     not invalidate.  With in-place edits the contents do change, so the property fails. *)
  Definition step_guarded (s : st) (o : op) : st * option Law :=
    match o with
    | SetParam true p => ({| prm := p; stored := stored s; need := need s |}, None)
    | _ => step s o
    end.

  Fixpoint run_guarded (s : st) (ops : list op) : st :=
    match ops with [] => s | o :: t => run_guarded (fst (step_guarded s o)) t end.

  Theorem guarded_shortcut_refuted : forall p q : Prm, behavior p <> behavior q ->
    exists ops, snd (step_guarded (run_guarded (init p) ops) Read) <> Some (behavior (last_prm p ops)).
  Proof.
    intros p q H. exists [Read; SetParam true q]. cbn. intro E. injection E as E. auto.
  Qed.
End Lazy.

(* executable instance used by the correspondence run: parameters = list of integers,
   law = the parameter list itself (so the model's answer is "the parameters in force") *)
Definition run_reads {P : Type} (p0 : P) (ops : list (op P)) : list (option P) :=
  (fix go (s : st P P) (ops : list (op P)) : list (option P) :=
     match ops with
     | [] => []
     | o :: t => let r := step P P (fun x => x) s o in
                 match o with Read _ => snd r :: go (fst r) t | _ => go (fst r) t end
     end) (init P P p0) ops.

Example lazy_nonvacuous :
  run_reads 1 [Read nat; SetParam nat false 2; SetParam nat true 3; Read nat; Read nat; NotifyOnly nat; Read nat]
  = [Some 1; Some 3; Some 3; Some 3].
Proof. reflexivity. Qed.
