(* C20 — specification of the point relabelling of Mesh.Merge and the proof that the model
   (C20_Partition.old_to_new / dedup) meets it:
     the coincidence graph has an edge between two points at distance < tol (here: equal points);
     scipy's connected_components labels its components, numbered by FIRST OCCURRENCE;
     old_to_new = labels, new_coords = all_coords[first index of every component].
   translator/C20_energy.py (read_merge_relabel) checks, fail closed, that the source performs exactly
   these steps (symmetric csr graph of cKDTree.query_pairs, connected_components(directed=False),
   np.unique(labels, return_index=True), old_to_new = labels, old_to_new[connect + off]) and emits the
   constructors below. *)
From Coq Require Import List Arith Bool PeanoNat Lia Relations.
From EFModel Require Import C20_Partition C20_Merge_proofs.
Import ListNotations.

Inductive relabel := ConnectedComponentsFirstOccurrence | OtherRelabel.
Inductive remap_kind := RemapOldToNewOfOffsetConnect | OtherRemap.

Section Spec.
  Variable P : Type.
  Variable peq : P -> P -> bool.
  Hypothesis peq_spec : forall p q, peq p q = true <-> p = q.
  Variable d : P.
  Variable all : list P.

  (* the coincidence graph on the indices of all_coords *)
  Definition edge (i j : nat) : Prop := i < length all /\ j < length all /\ nth i all d = nth j all d.
  Definition connected : nat -> nat -> Prop := clos_refl_sym_trans nat edge.

  Lemma connected_same_point i j : connected i j -> nth i all d = nth j all d.
  Proof.
    induction 1 as [i j [_ [_ E]]| |i j _ IH|i j k _ IH1 _ IH2]; auto. congruence.
  Qed.

  Lemma dedup_acc_app l1 : forall acc l2,
    dedup_acc P peq acc (l1 ++ l2) = dedup_acc P peq (dedup_acc P peq acc l1) l2.
  Proof.
    induction l1 as [|p l1 IH]; intros acc l2; simpl; auto.
    destruct (pmem P peq p acc); apply IH.
  Qed.

  Lemma dedup_acc_prefix l : forall acc, exists t, dedup_acc P peq acc l = acc ++ t.
  Proof.
    induction l as [|p l IH]; intros acc; simpl.
    - exists []. now rewrite app_nil_r.
    - destruct (pmem P peq p acc).
      + apply IH.
      + destruct (IH (acc ++ [p])) as [t E]. exists (p :: t). rewrite E, <- app_assoc. reflexivity.
  Qed.

  Lemma pos_app_fresh p acc t : ~ In p acc -> pos P peq p (acc ++ p :: t) = length acc.
  Proof.
    induction acc as [|a acc IH]; simpl; intros H.
    - assert (E : peq p p = true) by now apply peq_spec. now rewrite E.
    - destruct (peq p a) eqn:E.
      + apply peq_spec in E. subst. exfalso. apply H. now left.
      + rewrite IH; auto.
  Qed.

  Lemma split_at i : i < length all -> all = firstn i all ++ nth i all d :: skipn (S i) all.
  Proof.
    revert i. induction all as [|a l IH]; intros i H; simpl in *. lia.
    destruct i as [|i]; simpl; auto. f_equal. apply IH. lia.
  Qed.
  Lemma nth_firstn' (l : list P) : forall i j, j < i -> nth j (firstn i l) d = nth j l d.
  Proof.
    induction l as [|a l IH]; intros i j H.
    - now rewrite firstn_nil.
    - destruct i as [|i]; [lia|]. simpl. destruct j as [|j]; auto. apply IH. lia.
  Qed.
End Spec.

(* the model's labels are the connected components of the coincidence graph ... *)
Theorem old_to_new_labels_components (P : Type) (peq : P -> P -> bool)
  (peq_spec : forall p q, peq p q = true <-> p = q) (ms : list (mesh P)) (d : P) i j :
  i < length (all_coords P ms) -> j < length (all_coords P ms) ->
  (old_to_new P peq true ms i d = old_to_new P peq true ms j d <-> connected P d (all_coords P ms) i j).
Proof.
  intros Hi Hj. rewrite (merge_identifies P peq peq_spec ms i j d Hi Hj). split.
  - intros E. apply rst_step. repeat split; auto.
  - apply connected_same_point.
Qed.

(* ... numbered by first occurrence: the label of the first point of a component is the number of
   components met before it *)
Theorem old_to_new_first_occurrence (P : Type) (peq : P -> P -> bool)
  (peq_spec : forall p q, peq p q = true <-> p = q) (ms : list (mesh P)) (d : P) i :
  i < length (all_coords P ms) ->
  (forall j, j < i -> nth j (all_coords P ms) d <> nth i (all_coords P ms) d) ->
  old_to_new P peq true ms i d = length (dedup P peq (firstn i (all_coords P ms))).
Proof.
  intros Hi Hfirst. unfold old_to_new. set (all := all_coords P ms) in *. set (p := nth i all d).
  unfold dedup. rewrite (split_at P d all i Hi) at 1. rewrite dedup_acc_app. fold p.
  set (D := dedup_acc P peq [] (firstn i all)).
  assert (HnD : ~ In p D).
  { unfold D. intro H. apply (dedup_acc_In P peq peq_spec) in H. destruct H as [[]|H].
    apply (In_nth _ _ d) in H. destruct H as [j [Hj E]]. rewrite firstn_length in Hj.
    rewrite (nth_firstn' P d) in E by lia. apply (Hfirst j); [lia|]. exact E. }
  assert (Hm : pmem P peq p D = false).
  { destruct (pmem P peq p D) eqn:E; auto. apply (pmem_In P peq peq_spec) in E. contradiction. }
  change (dedup_acc P peq D (p :: skipn (S i) all))
    with (if pmem P peq p D then dedup_acc P peq D (skipn (S i) all)
          else dedup_acc P peq (D ++ [p]) (skipn (S i) all)).
  rewrite Hm. destruct (dedup_acc_prefix P peq (skipn (S i) all) (D ++ [p])) as [t E].
  rewrite E, <- app_assoc. simpl. now apply pos_app_fresh.
Qed.
