(* C04 -- the bordered row equations of __Solver_2 (`bordered_solution`: Dirichlet lines + multi-point
   conditions, multipliers as lists) ARE an abstract saddle system  A x + alpha G^T nu = b, G x = h  with one
   constraint row per Dirichlet line / multi-point condition; hence existence and uniqueness WITH multi-point
   conditions from C04_Saddle under the right-inverse rank condition. *)
From Coq Require Import ZArith List Bool Lia Ring.
From EFModel Require Import C03_Csr C04_Solve C04_Dense C04_Saddle.
Import ListNotations.
Open Scope Z_scope.

Section Ring.
Variable R : Type.
Variables (rO rI : R) (radd rmul rsub : R -> R -> R) (ropp : R -> R).
Variable Rth : ring_theory rO rI radd rmul rsub ropp (@eq R).
Add Ring Rring5 : Rth.
Hypothesis rmul_cancel : forall a u v, a <> rO -> rmul a u = rmul a v -> u = v.
Infix "+r" := radd (at level 50, left associativity).
Infix "*r" := rmul (at level 40, left associativity).
Infix "-r" := rsub (at level 50, left associativity).
Notation sum_over := (sum_over R rO radd).
Notation entered_sum := (entered_sum R rO radd).
Notation rsum := (rsum R rO radd).
Notation Sg k f := (sum_over (zrange k) f).

Lemma so_app l1 l2 f : sum_over (l1 ++ l2) f = sum_over l1 f +r sum_over l2 f.
Proof. unfold C04_Solve.sum_over. rewrite map_app. induction (map f l1); simpl; [ring|]. rewrite IHl. ring. Qed.
Lemma so_map (g : Z -> Z) l f : sum_over (map g l) f = sum_over l (fun k => f (g k)).
Proof. unfold C04_Solve.sum_over. now rewrite map_map. Qed.
Lemma so_cons a l f : sum_over (a :: l) f = f a +r sum_over l f.
Proof. reflexivity. Qed.

Definition lag0 : lagc R := {| l_dofs := []; l_coefs := []; l_value := rO |}.

(* Dirichlet lines: sum_k [dofs_k = i] * h k  =  entered_sum dofs (h 0, h 1, ...) i *)
Lemma dir_sum i dofs : forall (h : Z -> R),
  Sg (Z.of_nat (length dofs)) (fun k => (if nth (Z.to_nat k) dofs (-1) =? i then rI else rO) *r h k)
  = entered_sum dofs (map h (zrange (Z.of_nat (length dofs)))) i.
Proof.
  induction dofs as [|d t IH]; intros h.
  - reflexivity.
  - cbn [length]. rewrite zrange_succ, so_cons, so_map.
    rewrite (sum_over_ext R rO radd _ _ (fun k => (if nth (Z.to_nat k) t (-1) =? i then rI else rO) *r h (Z.succ k))).
    2:{ intros k Hk. apply zrange_nonneg in Hk. replace (Z.to_nat (Z.succ k)) with (S (Z.to_nat k)) by lia. reflexivity. }
    rewrite (IH (fun k => h (Z.succ k))). unfold C04_Solve.entered_sum. cbn [combine map fold_right fst snd].
    rewrite map_map. cbn [Z.to_nat nth]. unfold C04_Solve.rsum. cbn [fold_right]. destruct (d =? i); ring.
Qed.

Lemma lag_sum i (lags : list (lagc R)) : forall (h : Z -> R),
  Sg (Z.of_nat (length lags)) (fun l => coef_of R rO radd (nth (Z.to_nat l) lags lag0) i *r h l)
  = rsum (map (fun cm => coef_of R rO radd (fst cm) i *r snd cm) (combine lags (map h (zrange (Z.of_nat (length lags)))))).
Proof.
  induction lags as [|c t IH]; intros h.
  - reflexivity.
  - cbn [length]. rewrite zrange_succ, so_cons, so_map.
    rewrite (sum_over_ext R rO radd _ _ (fun l => coef_of R rO radd (nth (Z.to_nat l) t lag0) i *r h (Z.succ l))).
    2:{ intros k Hk. apply zrange_nonneg in Hk. replace (Z.to_nat (Z.succ k)) with (S (Z.to_nat k)) by lia. reflexivity. }
    rewrite (IH (fun k => h (Z.succ k))). cbn [combine map fst snd]. rewrite map_map. cbn [Z.to_nat nth].
    unfold C04_Solve.rsum. cbn [fold_right]. ring.
Qed.

Lemma list_as_map_nth (l : list R) : l = map (fun k => nth (Z.to_nat k) l rO) (zrange (Z.of_nat (length l))).
Proof.
  apply nth_ext with (d := rO) (d' := rO).
  - now rewrite map_length, zrange_length, Nat2Z.id.
  - intros k Hk. rewrite nth_indep with (d' := nth (Z.to_nat 0) l rO) (l := map _ _) by (now rewrite map_length, zrange_length, Nat2Z.id).
    rewrite (map_nth (fun k0 => nth (Z.to_nat k0) l rO)). unfold zrange. rewrite Nat2Z.id.
    rewrite nth_indep with (d' := Z.of_nat 0) by (now rewrite map_length, seq_length).
    rewrite map_nth, seq_nth by assumption. now rewrite Nat2Z.id.
Qed.

Section Tie.
Variable n : Z.
Variable alpha : R.
Hypothesis alpha_nz : alpha <> rO.
Variable A : Z -> Z -> R.
Variable b : Z -> R.
Variable dofsD : list Z.
Variable valuesD : list R.
Variable lags : list (lagc R).
Hypothesis Hn : 0 <= n.
Hypothesis HL : length valuesD = length dofsD.
Hypothesis HdD : forall d, In d dofsD -> 0 <= d < n.
Hypothesis HdL : forall c d, In c lags -> In d (l_dofs R c) -> 0 <= d < n.

Let nD := Z.of_nat (length dofsD).
Let nL := Z.of_nat (length lags).

(* the constraint matrix and right-hand side: Dirichlet lines first, then the multi-point conditions *)
Definition Gb (k i : Z) : R :=
  if k <? nD then (if nth (Z.to_nat k) dofsD (-1) =? i then rI else rO)
  else coef_of R rO radd (nth (Z.to_nat (k - nD)) lags lag0) i.
Definition hb (k : Z) : R :=
  if k <? nD then nth (Z.to_nat k) valuesD rO else l_value R (nth (Z.to_nat (k - nD)) lags lag0).
Definition nu_of (lam mu : list R) (k : Z) : R :=
  if k <? nD then nth (Z.to_nat k) lam rO else nth (Z.to_nat (k - nD)) mu rO.

Lemma GT_nu (nu : Z -> R) i :
  Sg (nD + nL) (fun k => Gb k i *r nu k)
  = entered_sum dofsD (map nu (zrange nD)) i
    +r rsum (map (fun cm => coef_of R rO radd (fst cm) i *r snd cm) (combine lags (map (fun l => nu (nD + l)) (zrange nL)))).
Proof.
  rewrite zrange_app by (unfold nD, nL; lia). rewrite so_app, so_map. f_equal.
  - unfold nD. rewrite <- dir_sum. apply sum_over_ext. intros k Hk. apply in_zrange in Hk. unfold Gb. fold nD.
    now replace (k <? nD) with true by lia.
  - unfold nL. rewrite <- lag_sum. apply sum_over_ext. intros l Hl. apply in_zrange in Hl. unfold Gb.
    replace (nD + l <? nD) with false by lia. now replace (nD + l - nD) with l by lia.
Qed.

Lemma G_row_dir (x : Z -> R) k : 0 <= k < nD -> Sg n (fun i => Gb k i *r x i) = x (nth (Z.to_nat k) dofsD (-1)).
Proof.
  intros Hk. unfold Gb. replace (k <? nD) with true by lia.
  rewrite (sum_over_ext R rO radd _ _ (fun i => if i =? nth (Z.to_nat k) dofsD (-1) then x i else rO)).
  2:{ intros i _. rewrite (Z.eqb_sym i). destruct (nth (Z.to_nat k) dofsD (-1) =? i); ring. }
  apply (sum_over_single R rO rI radd rmul rsub ropp Rth); [apply ssorted_zrange_from|].
  apply in_zrange, HdD, nth_In. unfold nD in Hk. lia.
Qed.

Lemma G_row_lag (x : Z -> R) l : 0 <= l < nL ->
  Sg n (fun i => Gb (nD + l) i *r x i) = lag_lhs R rO radd rmul (nth (Z.to_nat l) lags lag0) x.
Proof.
  intros Hl. unfold Gb. replace (nD + l <? nD) with false by lia. replace (nD + l - nD) with l by lia.
  set (c := nth (Z.to_nat l) lags lag0).
  rewrite (sum_over_ext R rO radd _ _ (fun i => x i *r C04_Solve.entered_sum R rO radd (l_dofs R c) (l_coefs R c) i))
    by (intros; unfold coef_of; ring).
  rewrite (sum_entered_sum R rO rI radd rmul rsub ropp Rth); [reflexivity|].
  intros d Hd. apply (HdL c); [|assumption]. apply nth_In. unfold nL in Hl. lia.
Qed.

(* lists -> function *)
Theorem bordered_is_saddle x lam mu :
  bordered_solution R rO radd rmul n alpha A b dofsD valuesD lags x lam mu ->
  saddle R rO radd rmul n (nD + nL) alpha A b Gb hb x (nu_of lam mu).
Proof.
  intros (L1 & L2 & Rows & HD & HLg). split.
  - intros i Hi. rewrite GT_nu.
    assert (E1 : map (nu_of lam mu) (zrange nD) = lam).
    { transitivity (map (fun k => nth (Z.to_nat k) lam rO) (zrange (Z.of_nat (length lam)))); [|symmetry; apply list_as_map_nth].
      rewrite L1. fold nD. apply map_ext_in. intros k Hk. apply in_zrange in Hk.
      unfold nu_of. now replace (k <? nD) with true by lia. }
    assert (E2 : map (fun l => nu_of lam mu (nD + l)) (zrange nL) = mu).
    { transitivity (map (fun k => nth (Z.to_nat k) mu rO) (zrange (Z.of_nat (length mu)))); [|symmetry; apply list_as_map_nth].
      rewrite L2. fold nL. apply map_ext_in. intros k Hk. apply in_zrange in Hk.
      unfold nu_of. replace (nD + k <? nD) with false by lia. now replace (nD + k - nD) with k by lia. }
    rewrite E1, E2, <- (Rows i Hi). ring.
  - intros k Hk. destruct (k <? nD) eqn:E.
    + assert (Hk' : 0 <= k < nD) by lia. rewrite G_row_dir by assumption. unfold hb. rewrite E.
      apply (rmul_cancel alpha); [assumption|]. apply HD.
      rewrite <- (combine_nth dofsD valuesD (Z.to_nat k) (-1) rO) by (symmetry; assumption).
      apply nth_In. rewrite combine_length, HL, Nat.min_id. unfold nD in Hk'. lia.
    + assert (Hl : 0 <= k - nD < nL) by lia.
      pose proof (G_row_lag x (k - nD) Hl) as G1. replace (nD + (k - nD)) with k in G1 by lia.
      rewrite G1. unfold hb. rewrite E.
      apply (rmul_cancel alpha); [assumption|]. apply HLg. apply nth_In. unfold nL in Hl. lia.
Qed.

(* function -> lists *)
Theorem saddle_is_bordered x nu :
  saddle R rO radd rmul n (nD + nL) alpha A b Gb hb x nu ->
  bordered_solution R rO radd rmul n alpha A b dofsD valuesD lags x
                    (map nu (zrange nD)) (map (fun l => nu (nD + l)) (zrange nL)).
Proof.
  intros [Rows Cons]. unfold bordered_solution. split; [|split; [|split; [|split]]].
  - unfold nD. now rewrite map_length, zrange_length, Nat2Z.id.
  - unfold nL. now rewrite map_length, zrange_length, Nat2Z.id.
  - intros i Hi. rewrite <- (Rows i Hi), GT_nu. ring.
  - intros d v Hin. f_equal. destruct (In_nth _ _ (-1, rO) Hin) as (k & Hk & E).
    rewrite combine_length, HL, Nat.min_id in Hk. rewrite combine_nth in E by (symmetry; assumption).
    inversion E; subst.
    assert (Hkz : 0 <= Z.of_nat k < nD) by (unfold nD; lia).
    pose proof (Cons (Z.of_nat k) ltac:(unfold nL; lia)) as C. rewrite G_row_dir in C by assumption.
    unfold hb in C. replace (Z.of_nat k <? nD) with true in C by lia. now rewrite Nat2Z.id in C.
  - intros c Hc. f_equal. destruct (In_nth _ _ lag0 Hc) as (l & Hl & <-).
    assert (Hlz : 0 <= Z.of_nat l < nL) by (unfold nL; lia).
    pose proof (Cons (nD + Z.of_nat l) ltac:(unfold nD; lia)) as C. rewrite G_row_lag in C by assumption.
    unfold hb in C. replace (nD + Z.of_nat l <? nD) with false in C by (unfold nD; lia).
    replace (nD + Z.of_nat l - nD) with (Z.of_nat l) in C by lia. now rewrite Nat2Z.id in C.
Qed.

(* ---- existence and uniqueness with multi-point conditions -------------------------------------- *)
Variable ainv : R.
Hypothesis alpha_inv : alpha *r ainv = rI.
Variable Rm : Z -> Z -> R.
Hypothesis G_Rm : forall k k', 0 <= k < nD + nL -> 0 <= k' < nD + nL ->
  Sg n (fun i => Gb k i *r Rm i k') = if k =? k' then rI else rO.
Hypothesis reduced_unique :
  forall x x', reduced_sol R rO radd rmul rsub n (nD + nL) A b Gb hb x -> reduced_sol R rO radd rmul rsub n (nD + nL) A b Gb hb x' ->
  forall i, 0 <= i < n -> x i = x' i.

Theorem bordered_mpc_exists x :
  reduced_sol R rO radd rmul rsub n (nD + nL) A b Gb hb x ->
  exists lam mu, bordered_solution R rO radd rmul n alpha A b dofsD valuesD lags x lam mu.
Proof.
  intros Hx. eexists. eexists. apply saddle_is_bordered.
  exact (saddle_exists R rO rI radd rmul rsub ropp Rth n (nD + nL) alpha ainv alpha_inv A b Gb hb Rm G_Rm x Hx).
Qed.

Theorem bordered_mpc_unique x lam mu x' lam' mu' :
  bordered_solution R rO radd rmul n alpha A b dofsD valuesD lags x lam mu ->
  bordered_solution R rO radd rmul n alpha A b dofsD valuesD lags x' lam' mu' ->
  (forall i, 0 <= i < n -> x i = x' i) /\ lam = lam' /\ mu = mu'.
Proof.
  intros H1 H2.
  destruct (saddle_unique R rO rI radd rmul rsub ropp Rth rmul_cancel n (nD + nL) alpha alpha_nz A b Gb hb Rm G_Rm reduced_unique
              x (nu_of lam mu) x' (nu_of lam' mu') (bordered_is_saddle x lam mu H1) (bordered_is_saddle x' lam' mu' H2)) as [Hx Hnu].
  destruct H1 as (L1 & M1 & _). destruct H2 as (L2 & M2 & _).
  split; [assumption|]. split.
  - apply nth_ext with (d := rO) (d' := rO); [congruence|]. intros k Hk.
    specialize (Hnu (Z.of_nat k) ltac:(unfold nD, nL; lia)). unfold nu_of in Hnu.
    replace (Z.of_nat k <? nD) with true in Hnu by (unfold nD; lia). now rewrite Nat2Z.id in Hnu.
  - apply nth_ext with (d := rO) (d' := rO); [congruence|]. intros k Hk.
    specialize (Hnu (nD + Z.of_nat k) ltac:(unfold nD, nL; lia)). unfold nu_of in Hnu.
    replace (nD + Z.of_nat k <? nD) with false in Hnu by (unfold nD; lia).
    replace (nD + Z.of_nat k - nD) with (Z.of_nat k) in Hnu by lia. now rewrite Nat2Z.id in Hnu.
Qed.
End Tie.
End Ring.
