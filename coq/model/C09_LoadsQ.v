(* C09 — executable rational instance of the integration model (C09_Loads) and its soundness:
   the Q-valued load vector, mapped to R, IS the vector of the real-number model on the embedded
   data.  Used by the correspondence to run cases INSIDE Coq on the implementation's own
   weights*|J|, shape values and density values (floats are dyadic rationals: exact). *)
From Coq Require Import List QArith Qabs Qreals Reals Lra Arith.
From EFModel Require Import C09_Loads.
Import ListNotations.
Close Scope R_scope.
Open Scope Q_scope.

Record gptQ := mk_gptQ { wJq : Q; fvq : Q; Nrowq : list Q }.
Record lelemQ := mk_lelemQ { lnodesq : list nat; lptsq : list gptQ }.
Definition Qsum (l : list Q) : Q := fold_right Qplus 0 l.
Definition nthQ (i : nat) (l : list Q) : Q := nth i l 0.
Definition F_callQ (e : lelemQ) (i : nat) : Q :=
  Qsum (map (fun g => wJq g * fvq g * nthQ i (Nrowq g)) (lptsq e)).
Definition contribsQ (es : list lelemQ) : list (nat * Q) :=
  flat_map (fun e => map (fun i => (nth i (lnodesq e) 0%nat, F_callQ e i)) (seq 0 (length (lnodesq e)))) es.
Definition vecQ (cs : list (nat * Q)) (n : nat) : Q :=
  Qsum (map (fun c : nat * Q => if Nat.eqb (fst c) n then snd c else 0) cs).
(* the whole vector on the nodes ns *)
Definition load_vectorQ (es : list lelemQ) (ns : list nat) : list Q := map (vecQ (contribsQ es)) ns.

Definition toR_g (g : gptQ) : gpt := mk_gpt (Q2R (wJq g)) (Q2R (fvq g)) (map Q2R (Nrowq g)).
Definition toR_e (e : lelemQ) : lelem := mk_lelem (lnodesq e) (map toR_g (lptsq e)) [].

Lemma Q2R_0' : Q2R 0%Q = 0%R.
Proof. unfold Q2R. simpl. field. Qed.

Lemma Q2R_Qsum l : Q2R (Qsum l) = Rsum (map Q2R l).
Proof.
  induction l as [|a l IH]; simpl. apply Q2R_0'.
  rewrite Q2R_plus, IH. reflexivity.
Qed.

Lemma nthR_map_Q2R i l : nthR i (map Q2R l) = Q2R (nthQ i l).
Proof.
  unfold nthR, nthQ. revert i. induction l as [|a l IH]; intros [|i]; simpl; auto.
  - symmetry. apply Q2R_0'.
  - symmetry. apply Q2R_0'.
Qed.

Lemma F_call_toR e i : F_call (toR_e e) i = Q2R (F_callQ e i).
Proof.
  unfold F_call, F_callQ, toR_e. simpl. rewrite Q2R_Qsum, !map_map.
  f_equal. apply map_ext. intros g. simpl. rewrite nthR_map_Q2R, !Q2R_mult. reflexivity.
Qed.

Lemma contribs_toR es :
  contribs F_call (map toR_e es) = map (fun c : nat * Q => (fst c, Q2R (snd c))) (contribsQ es).
Proof.
  unfold contribs, contribsQ. induction es as [|e es IH]; simpl; auto.
  rewrite map_app, IH. f_equal. unfold nPe. simpl. rewrite map_map.
  apply map_ext. intros i. simpl. now rewrite F_call_toR.
Qed.

(* soundness of the executable instance *)
Theorem vecQ_sound es n : Q2R (vecQ (contribsQ es) n) = vec (contribs F_call (map toR_e es)) n.
Proof.
  rewrite contribs_toR. unfold vec, vecQ. rewrite Q2R_Qsum, !map_map.
  f_equal. apply map_ext. intros c. simpl. destruct (Nat.eqb (fst c) n); auto. apply Q2R_0'.
Qed.

Corollary load_vectorQ_sound es ns :
  map Q2R (load_vectorQ es ns) = map (vec (contribs F_call (map toR_e es))) ns.
Proof. unfold load_vectorQ. rewrite map_map. apply map_ext. intros n. apply vecQ_sound. Qed.

(* comparison helper used by generated cases: |a_i - b_i| <= tol for all i *)
Fixpoint closeQ (tol : Q) (a b : list Q) : bool :=
  match a, b with
  | [], [] => true
  | x :: a', y :: b' => Qle_bool (Qabs (x - y)) tol && closeQ tol a' b'
  | _, _ => false
  end.

Example load_vectorQ_example :
  closeQ 0 (load_vectorQ [mk_lelemQ [0%nat; 1%nat] [mk_gptQ (1#2) 3 [3#4; 1#4]; mk_gptQ (1#2) 5 [1#4; 3#4]]] [0%nat; 1%nat])
           [7#4; 9#4] = true.
Proof. vm_compute. reflexivity. Qed.
