(* C12_FeDetN.v — the Leibniz determinant and the adjugate inverse for ANY dimension, generic in
   the scalar type (instantiated with R for the theorems and with Q to compute the reference
   that numpy's np.linalg.det / np.linalg.inv fallback (dim > 3) is compared against). *)
From Coq Require Import List Arith Bool.
Import ListNotations.

Section Leibniz.
Variable T : Type.
Variables (tzero tone : T) (tadd tmul : T -> T -> T) (topp : T -> T).

Fixpoint insert_all (x : nat) (l : list nat) : list (list nat) :=
  match l with
  | [] => [[x]]
  | y :: r => (x :: l) :: map (cons y) (insert_all x r)
  end.

Fixpoint perms (n : nat) : list (list nat) :=
  match n with
  | 0 => [[]]
  | S k => flat_map (insert_all k) (perms k)
  end.

Fixpoint inversions (l : list nat) : nat :=
  match l with
  | [] => 0
  | x :: r => length (filter (fun y => y <? x) r) + inversions r
  end.

Definition signed (l : list nat) (v : T) : T := if Nat.even (inversions l) then v else topp v.

(* sum over the permutations s of sgn(s) * prod_i m i (s i) *)
Definition leibniz_gen (n : nat) (m : nat -> nat -> T) : T :=
  fold_right tadd tzero
    (map (fun s => signed s (fold_right tmul tone (map (fun i => m i (nth i s 0)) (seq 0 n)))) (perms n)).

(* the matrix with row r and column c removed *)
Definition minor (m : nat -> nat -> T) (r c : nat) : nat -> nat -> T :=
  fun i j => m (if i <? r then i else S i) (if j <? c then j else S j).

(* adjugate entry (i, j) = (-1)^(i+j) det (minor j i), for an n x n matrix (n >= 1) *)
Definition adjugate_gen (n : nat) (m : nat -> nat -> T) (i j : nat) : T :=
  let c := leibniz_gen (n - 1) (minor m j i) in
  if Nat.even (i + j) then c else topp c.

(* Laplace expansion along the first row *)
Definition cofactor_row0 (n : nat) (m : nat -> nat -> T) : T :=
  fold_right tadd tzero
    (map (fun j => let t := tmul (m 0 j) (leibniz_gen (n - 1) (minor m 0 j)) in
                   if Nat.even j then t else topp t) (seq 0 n)).
End Leibniz.
