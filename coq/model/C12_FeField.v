(* C12_FeField.v — Field.__call__ and the (node, dof) sweep of the weak forms.
   A Field object carries the state (active node, active dof); __call__ must return the FeArray
   (1, nPg, dof_n) holding the shape function of the ACTIVE node in the component of the ACTIVE
   dof (dof_n = 1: a (1, nPg, 1) array).  The specification has no other state: whatever sequence
   of _Set_current_active_node / _Set_current_active_dof / __call__ is performed on the same
   object, every call returns [field_call] of the state reached.  A memo keyed on the node alone
   (seeded change C12-10) is refuted below. *)
From Coq Require Import List Arith Bool QArith.
From EFModel Require Import C12_FeShape C12_FeTensor.
Import ListNotations.
Local Open Scope nat_scope.

Section Field.
Variable V : Type.
Variable vzero : V.
Variable N : nat -> nat -> V.          (* N p n : shape function n at Gauss point p *)
Variables nPg dof_n : nat.

Definition field_call (node dof : nat) : arr V :=
  mkArr V [1; nPg; dof_n]
    (fun k => match k with
              | [_; p; d] => if (dof_n =? 1) || (d =? dof) then N p node else vzero
              | _ => vzero
              end).

Inductive fop := SetNode (n : nat) | SetDof (d : nat) | Call.

Definition step (st : nat * nat) (o : fop) : nat * nat :=
  match o with SetNode n => (n, snd st) | SetDof d => (fst st, d) | Call => st end.

(* specification: the list of arrays returned by the calls of an operation sequence *)
Fixpoint run (st : nat * nat) (ops : list fop) : list (arr V) :=
  match ops with
  | [] => []
  | Call :: r => field_call (fst st) (snd st) :: run st r
  | o :: r => run (step st o) r
  end.

Definition final (st : nat * nat) (ops : list fop) : nat * nat := fold_left step ops st.

(* every call returns the array of the state reached, whatever happened before *)
Theorem call_depends_on_current_state_only (ops : list fop) : forall st,
  run st (ops ++ [Call]) = run st ops ++ [field_call (fst (final st ops)) (snd (final st ops))].
Proof.
  induction ops as [|o ops IH]; intros st; [reflexivity|].
  destruct o; cbn [app run final fold_left step]; rewrite IH; reflexivity.
Qed.

(* an implementation that memoises __call__ per NODE *)
Fixpoint cache_get (c : list (nat * arr V)) (n : nat) : option (arr V) :=
  match c with [] => None | (m, a) :: r => if m =? n then Some a else cache_get r n end.

Fixpoint run_memo (c : list (nat * arr V)) (st : nat * nat) (ops : list fop) : list (arr V) :=
  match ops with
  | [] => []
  | Call :: r =>
      match cache_get c (fst st) with
      | Some a => a :: run_memo c st r
      | None => let a := field_call (fst st) (snd st) in a :: run_memo ((fst st, a) :: c) st r
      end
  | o :: r => run_memo c (step st o) r
  end.
End Field.

(* the sweep of the forms visits (node 0, dof 0) then (node 0, dof 1): the memo returns the dof-0
   array for dof 1 *)
Example memo_by_node_refuted :
  let N := fun (p n : nat) => 1%Q in
  let ops := [Call; SetDof 1; Call] in
  map (fun a => map (dat Q a) [[0; 0; 0]; [0; 0; 1]]) (run Q 0%Q N 1 2 (0, 0) ops) = [[1%Q; 0%Q]; [0%Q; 1%Q]] /\
  map (fun a => map (dat Q a) [[0; 0; 0]; [0; 0; 1]]) (run_memo Q 0%Q N 1 2 [] (0, 0) ops) = [[1%Q; 0%Q]; [1%Q; 0%Q]].
Proof. split; reflexivity. Qed.
