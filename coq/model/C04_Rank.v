(* C04 -- the rank condition of C04_SaddleTie (the constraint rows have a right inverse) as an executable
   integer check, sound over Z and, through the ring morphism IZR, over the reals: used per generated instance
   (plumbing Lagrange cases, Beam connection rows) by vm_compute. *)
From Coq Require Import ZArith List Bool Lia Reals.
From EFModel Require Import C03_Csr C04_Solve C04_Dense C04_Saddle C04_SaddleTie.
Import ListNotations.
Open Scope Z_scope.

(* integer data of one multi-point condition, and its real embedding *)
Definition lagZ (c : list Z * list Z * Z) : lagc Z := {| l_dofs := fst (fst c); l_coefs := snd (fst c); l_value := snd c |}.
Definition lagR (c : list Z * list Z * Z) : lagc R := {| l_dofs := fst (fst c); l_coefs := map IZR (snd (fst c)); l_value := IZR (snd c) |}.

Definition GbZ (dofsD : list Z) (lags : list (list Z * list Z * Z)) := Gb Z 0 1 Z.add dofsD (map lagZ lags).
Definition GbR (dofsD : list Z) (lags : list (list Z * list Z * Z)) := Gb R 0%R 1%R Rplus dofsD (map lagR lags).

(* sparse right inverse: triples (dof i, line k, value) *)
Definition Rm_of (tr : list (Z * Z * Z)) (i k : Z) : Z :=
  fold_right Z.add 0 (map (fun t => if (fst (fst t) =? i) && (snd (fst t) =? k) then snd t else 0) tr).

Definition rank_check (n : Z) (dofsD : list Z) (lags : list (list Z * list Z * Z)) (tr : list (Z * Z * Z)) : bool :=
  let m := Z.of_nat (length dofsD) + Z.of_nat (length lags) in
  forallb (fun k => forallb (fun k' =>
     sum_over Z 0 Z.add (zrange n) (fun i => GbZ dofsD lags k i * Rm_of tr i k') =? (if k =? k' then 1 else 0))
     (zrange m)) (zrange m).

Lemma rank_check_sound_Z n dofsD lags tr :
  rank_check n dofsD lags tr = true ->
  forall k k', 0 <= k < Z.of_nat (length dofsD) + Z.of_nat (length (map lagZ lags)) ->
               0 <= k' < Z.of_nat (length dofsD) + Z.of_nat (length (map lagZ lags)) ->
  sum_over Z 0 Z.add (zrange n) (fun i => GbZ dofsD lags k i * Rm_of tr i k') = if k =? k' then 1 else 0.
Proof.
  intros H k k' Hk Hk'. rewrite map_length in Hk, Hk'. unfold rank_check in H. rewrite forallb_forall in H.
  specialize (H k (proj2 (in_zrange _ k) Hk)). rewrite forallb_forall in H.
  specialize (H k' (proj2 (in_zrange _ k') Hk')). now apply Z.eqb_eq in H.
Qed.

(* ---- morphism Z -> R ------------------------------------------------ *)
Lemma sum_over_IZR l (f : Z -> Z) :
  sum_over R 0%R Rplus l (fun i => IZR (f i)) = IZR (sum_over Z 0 Z.add l f).
Proof. unfold sum_over. induction l; simpl; [reflexivity|]. now rewrite IHl, plus_IZR. Qed.

Lemma entered_sum_IZR dofs coefs i :
  entered_sum R 0%R Rplus dofs (map IZR coefs) i = IZR (entered_sum Z 0 Z.add dofs coefs i).
Proof.
  revert coefs. unfold entered_sum. induction dofs as [|d t IH]; intros [|c ct]; simpl; try reflexivity.
  rewrite IH, plus_IZR. now destruct (d =? i).
Qed.

Lemma GbR_IZR dofsD lags k i : GbR dofsD lags k i = IZR (GbZ dofsD lags k i).
Proof.
  unfold GbR, GbZ, Gb. destruct (k <? Z.of_nat (length dofsD)).
  - now destruct (nth (Z.to_nat k) dofsD (-1) =? i).
  - set (q := Z.to_nat (k - Z.of_nat (length dofsD))).
    change (lag0 R 0%R) with (lagR ([], [], 0)). change (lag0 Z 0) with (lagZ ([], [], 0)).
    rewrite !map_nth. unfold coef_of, lagR, lagZ. cbn [l_dofs l_coefs]. apply entered_sum_IZR.
Qed.

Theorem rank_check_sound_R n dofsD lags tr :
  rank_check n dofsD lags tr = true ->
  forall k k', 0 <= k < Z.of_nat (length dofsD) + Z.of_nat (length (map lagR lags)) ->
               0 <= k' < Z.of_nat (length dofsD) + Z.of_nat (length (map lagR lags)) ->
  sum_over R 0%R Rplus (zrange n) (fun i => (GbR dofsD lags k i * IZR (Rm_of tr i k'))%R) = if k =? k' then 1%R else 0%R.
Proof.
  intros H k k' Hk Hk'. rewrite map_length in Hk, Hk'.
  rewrite (sum_over_ext R 0%R Rplus _ _ (fun i => IZR (GbZ dofsD lags k i * Rm_of tr i k'))).
  2:{ intros i _. now rewrite GbR_IZR, mult_IZR. }
  rewrite sum_over_IZR, (rank_check_sound_Z n dofsD lags tr H k k') by (now rewrite map_length).
  now destruct (k =? k').
Qed.
