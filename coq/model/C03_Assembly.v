(* C03 -- dof numbering, rows/cols layouts, __Assemble_csr with None-filtering and the cached
   reduction map, Assembly() over arbitrary operation histories, node renumbering. *)
From Coq Require Import ZArith List Bool Lia.
From EFModel Require Import C03_Csr.
Import ListNotations.
Open Scope Z_scope.

(* ------------------------------------------------------------------ *)
(* _GroupElem._Get_assembly_e / Get_rows_e / Get_columns_e             *)
(* ------------------------------------------------------------------ *)
Definition node_dofs (dof_n n : Z) : list Z := map (fun d => n * dof_n + d) (zrange dof_n).
(* assembly[:, arange(d, ndof, dof_n)] = connect * dof_n + d : entry j*dof_n+d is connect[j]*dof_n+d *)
Definition assembly_e (dof_n : Z) (conn : list Z) : list Z := flat_map (node_dofs dof_n) conn.

Definition np_repeat_each {A} (n : nat) (l : list A) : list A := flat_map (fun x => repeat x n) l.
Definition np_tile {A} (n : nat) (l : list A) : list A := concat (repeat l n).

(* np.repeat(assembly_e, ndof).reshape(Ne, ndof^2)  /  np.repeat(assembly_e, ndof, axis=0).reshape(...) *)
Definition rows_e (dof_n : Z) (conn : list Z) : list Z :=
  let a := assembly_e dof_n conn in np_repeat_each (length a) a.
Definition cols_e (dof_n : Z) (conn : list Z) : list Z :=
  let a := assembly_e dof_n conn in np_tile (length a) a.

Definition group := list (list Z).   (* connectivity, one node list per element *)

(* rows / cols of __Get_csr_map before the CSR construction *)
Definition rows_cols (dof_n : Z) (isMatrix : bool) (gs : list group) : list Z * list Z :=
  if isMatrix then
    (flat_map (fun g => flat_map (rows_e dof_n) g) gs, flat_map (fun g => flat_map (cols_e dof_n) g) gs)
  else
    let r := flat_map (fun g => flat_map (assembly_e dof_n) g) gs in (r, map (fun _ => 0) r).

(* ---- layout facts ------------------------------------------------ *)
Lemma combine_app {A B} (l1 l2 : list A) (k1 k2 : list B) :
  length l1 = length k1 -> combine (l1 ++ l2) (k1 ++ k2) = combine l1 k1 ++ combine l2 k2.
Proof.
  revert k1. induction l1 as [|a t IH]; intros [|b k1] H; simpl in *; try discriminate; [reflexivity|].
  f_equal. apply IH. lia.
Qed.

Lemma combine_repeat_l {A B} (x : A) (b : list B) : combine (repeat x (length b)) b = map (pair x) b.
Proof. induction b; simpl; [reflexivity|]. now rewrite IHb. Qed.

Lemma repeat_tile_prod {A B} (a : list A) (b : list B) :
  combine (np_repeat_each (length b) a) (np_tile (length a) b) = list_prod a b.
Proof.
  unfold np_repeat_each, np_tile. induction a as [|x t IH]; simpl; [reflexivity|].
  rewrite combine_app by (now rewrite repeat_length). now rewrite combine_repeat_l, IH.
Qed.

(* entry k = i*ndof + j of the flattened element matrix is scattered to (asm[i], asm[j]) *)
Lemma rows_cols_e_prod dof_n conn :
  combine (rows_e dof_n conn) (cols_e dof_n conn)
  = list_prod (assembly_e dof_n conn) (assembly_e dof_n conn).
Proof. unfold rows_e, cols_e. apply repeat_tile_prod. Qed.

Lemma np_repeat_each_length {A} n (l : list A) : length (np_repeat_each n l) = (length l * n)%nat.
Proof. unfold np_repeat_each. induction l; simpl; [reflexivity|]. rewrite app_length, repeat_length. lia. Qed.

Lemma np_tile_length {A} n (l : list A) : length (np_tile n l) = (n * length l)%nat.
Proof. unfold np_tile. induction n; simpl; [reflexivity|]. rewrite app_length. lia. Qed.

Lemma rows_cols_e_length dof_n conn : length (rows_e dof_n conn) = length (cols_e dof_n conn).
Proof. unfold rows_e, cols_e. now rewrite np_repeat_each_length, np_tile_length. Qed.

Lemma combine_flat_map {A B C} (f : A -> list B) (h : A -> list C) l :
  (forall x, length (f x) = length (h x)) ->
  combine (flat_map f l) (flat_map h l) = flat_map (fun x => combine (f x) (h x)) l.
Proof.
  intros H. induction l as [|a t IH]; simpl; [reflexivity|]. now rewrite combine_app, IH by apply H.
Qed.

Lemma flat_map_length_eq {A B C} (f : A -> list B) (h : A -> list C) l :
  (forall x, length (f x) = length (h x)) -> length (flat_map f l) = length (flat_map h l).
Proof. intros H. induction l; simpl; [reflexivity|]. now rewrite !app_length, H, IHl. Qed.

(* the (row, col) key sequence of a matrix assembly = element-by-element Cartesian products *)
Lemma mat_keys_prod dof_n gs :
  let rc := rows_cols dof_n true gs in
  combine (fst rc) (snd rc)
  = flat_map (fun g => flat_map (fun conn => list_prod (assembly_e dof_n conn) (assembly_e dof_n conn)) g) gs.
Proof.
  simpl. rewrite combine_flat_map.
  2:{ intros g. apply flat_map_length_eq. intros; apply rows_cols_e_length. }
  apply flat_map_ext. intros g. rewrite combine_flat_map by (intros; apply rows_cols_e_length).
  apply flat_map_ext. intros conn. apply rows_cols_e_prod.
Qed.

Lemma combine_zeros (l : list Z) : combine l (map (fun _ => 0) l) = map (fun r => (r, 0)) l.
Proof. induction l; simpl; [reflexivity|]. now rewrite IHl. Qed.

Lemma vec_keys dof_n gs :
  let rc := rows_cols dof_n false gs in
  combine (fst rc) (snd rc)
  = map (fun r => (r, 0)) (flat_map (fun g => flat_map (assembly_e dof_n) g) gs).
Proof. simpl. apply combine_zeros. Qed.

(* ---- ranges ------------------------------------------------------ *)
Definition nodes_ok (Nn : Z) (g : group) : Prop := forall conn n, In conn g -> In n conn -> 0 <= n < Nn.

Lemma in_assembly_e dof_n conn x :
  In x (assembly_e dof_n conn) <-> exists n d, In n conn /\ 0 <= d < dof_n /\ x = n * dof_n + d.
Proof.
  unfold assembly_e, node_dofs. rewrite in_flat_map. split.
  - intros (n & Hn & Hx). apply in_map_iff in Hx. destruct Hx as (d & <- & Hd).
    apply in_zrange in Hd. eauto.
  - intros (n & d & Hn & Hd & ->). exists n. split; [assumption|]. apply in_map_iff. exists d.
    split; [reflexivity|]. now apply in_zrange.
Qed.

Lemma assembly_e_range Nn dof_n conn x :
  (forall n, In n conn -> 0 <= n < Nn) -> In x (assembly_e dof_n conn) -> 0 <= x < Nn * dof_n.
Proof.
  intros H Hx. apply in_assembly_e in Hx. destruct Hx as (n & d & Hn & Hd & ->).
  specialize (H n Hn). nia.
Qed.

Lemma in_np_repeat_each {A} n (l : list A) x : In x (np_repeat_each n l) -> In x l.
Proof.
  unfold np_repeat_each. rewrite in_flat_map. intros (y & Hy & Hx). apply repeat_spec in Hx. now subst.
Qed.

Lemma in_np_tile {A} n (l : list A) x : In x (np_tile n l) -> In x l.
Proof.
  unfold np_tile. rewrite in_concat. intros (y & Hy & Hx). apply repeat_spec in Hy. now subst.
Qed.

Lemma rows_cols_range Nn dof_n isMatrix Ndof gs :
  0 < dof_n -> Nn * dof_n <= Ndof -> (forall g, In g gs -> nodes_ok Nn g) ->
  let rc := rows_cols dof_n isMatrix gs in
  forall k, In k (combine (fst rc) (snd rc)) -> in_range Ndof (if isMatrix then Ndof else 1) k.
Proof.
  intros Hd HN Hok rc k Hk. subst rc. destruct isMatrix.
  - rewrite mat_keys_prod in Hk. apply in_flat_map in Hk. destruct Hk as (g & Hg & Hk).
    apply in_flat_map in Hk. destruct Hk as (conn & Hc & Hk). destruct k as [r c].
    apply in_prod_iff in Hk. destruct Hk as [Hr Hcc].
    assert (Hn : forall n, In n conn -> 0 <= n < Nn) by (intros n Hn; exact (Hok g Hg conn n Hc Hn)).
    apply (assembly_e_range Nn dof_n conn _ Hn) in Hr, Hcc. split; simpl; lia.
  - rewrite vec_keys in Hk. apply in_map_iff in Hk. destruct Hk as (r & <- & Hr).
    apply in_flat_map in Hr. destruct Hr as (g & Hg & Hr).
    apply in_flat_map in Hr. destruct Hr as (conn & Hc & Hr).
    assert (Hn : forall n, In n conn -> 0 <= n < Nn) by (intros n Hn; exact (Hok g Hg conn n Hc Hn)).
    apply (assembly_e_range Nn dof_n conn _ Hn) in Hr. split; simpl; lia.
Qed.

(* ------------------------------------------------------------------ *)
(* cache keys                                                          *)
(* ------------------------------------------------------------------ *)
Definition key := (Z * bool * Z * list Z)%type.   (* dof_n, isMatrix, Ndof, contributing group ids *)

Fixpoint zlist_eqb (a b : list Z) : bool :=
  match a, b with
  | [], [] => true
  | x :: a', y :: b' => (x =? y) && zlist_eqb a' b'
  | _, _ => false
  end.

Lemma zlist_eqb_eq a b : zlist_eqb a b = true -> a = b.
Proof.
  revert b. induction a as [|x a IH]; intros [|y b] H; simpl in H; try discriminate; [reflexivity|].
  apply andb_true_iff in H. destruct H as [H1 H2]. apply Z.eqb_eq in H1. subst. f_equal. now apply IH.
Qed.

Definition key_eqb (a b : key) : bool :=
  let '(d1, m1, n1, g1) := a in let '(d2, m2, n2, g2) := b in
  (d1 =? d2) && Bool.eqb m1 m2 && (n1 =? n2) && zlist_eqb g1 g2.

Lemma key_eqb_eq a b : key_eqb a b = true -> a = b.
Proof.
  destruct a as [[[d1 m1] n1] g1], b as [[[d2 m2] n2] g2]. simpl. intros H.
  repeat (apply andb_true_iff in H; destruct H as [H ?]).
  apply Z.eqb_eq in H. apply Bool.eqb_prop in H2. apply Z.eqb_eq in H1. apply zlist_eqb_eq in H0.
  now subst.
Qed.

Definition cache := list (key * csrmap).

Fixpoint lookup (k : key) (c : cache) : option csrmap :=
  match c with
  | [] => None
  | (k', m) :: t => if key_eqb k k' then Some m else lookup k t
  end.

(* what __Get_csr_map computes when it is not served from the cache *)
Definition fresh_map (env : Z -> group) (k : key) : csrmap :=
  let '(dof_n, isMatrix, Ndof, gids) := k in
  let rc := rows_cols dof_n isMatrix (map env gids) in
  get_csr_map isMatrix Ndof (fst rc) (snd rc).

(* @cache_computed_values *)
Definition get_map_cached (env : Z -> group) (c : cache) (k : key) : csrmap * cache :=
  match lookup k c with
  | Some m => (m, c)
  | None => let m := fresh_map env k in (m, (k, m) :: c)
  end.

Definition cache_inv (env : Z -> group) (c : cache) : Prop :=
  forall k m, lookup k c = Some m -> m = fresh_map env k.

Lemma get_map_cached_sound env c k :
  cache_inv env c ->
  fst (get_map_cached env c k) = fresh_map env k /\ cache_inv env (snd (get_map_cached env c k)).
Proof.
  intros Hinv. unfold get_map_cached. destruct (lookup k c) eqn:E; simpl.
  - split; [now apply Hinv|assumption].
  - split; [reflexivity|]. intros k' m'. simpl. destruct (key_eqb k' k) eqn:E2.
    + apply key_eqb_eq in E2. subst. now intros [= <-].
    + apply Hinv.
Qed.

(* ------------------------------------------------------------------ *)
(* __Assemble_csr and Assembly()                                        *)
(* ------------------------------------------------------------------ *)
Section Sim.
Variable V : Type.
Variable vadd : V -> V -> V.
Variable vzero : V.
Hypothesis vadd_comm : forall a b, vadd a b = vadd b a.
Hypothesis vadd_assoc : forall a b c, vadd a (vadd b c) = vadd (vadd a b) c.
Hypothesis vadd_0_l : forall a, vadd vzero a = a.

Notation csr := (csr V).
Notation csr_get := (csr_get V vadd vzero).
Notation dense_sum := (dense_sum V vadd vzero).
Notation assemble_with := (assemble_with V vadd vzero).

Definition gdata := option (list V).     (* X_e.ravel() of one group, or None *)
Definition dict := list (Z * gdata).     (* {group: X_e}, in dict order; groups named by an id *)

Definition is_some {A} (o : option A) : bool := match o with Some _ => true | None => false end.
Definition present (d : dict) : dict := filter (fun gd => is_some (snd gd)) d.
Definition dict_groups (d : dict) : list Z := map fst (present d).
Definition dict_data (d : dict) : list V :=
  flat_map (fun gd => match snd gd with Some x => x | None => [] end) (present d).

Definition assemble_csr (env : Z -> group) (c : cache) (dof_n Ndof : Z) (isMatrix : bool) (d : dict)
  : csr * cache :=
  match d with
  | [] => (empty_csr V Ndof, c)                      (* if not dict_group_data *)
  | _ =>
    match dict_groups d with
    | [] => (empty_csr V Ndof, c)                    (* if not groups *)
    | gids =>
      match dict_data d with
      | [] => (empty_csr V Ndof, c)                  (* if data.size == 0 *)
      | data =>
        let mc := get_map_cached env c (dof_n, isMatrix, Ndof, gids) in
        (assemble_with (fst mc) data, snd mc)
      end
    end
  end.

(* specification of one slot: the dense scatter-add of the contributing groups' entries *)
Definition slot_spec (env : Z -> group) (dof_n : Z) (isMatrix : bool) (d : dict) (r c : Z) : V :=
  let rc := rows_cols dof_n isMatrix (map env (dict_groups d)) in
  dense_sum (fst rc) (snd rc) (dict_data d) r c.

Lemma csr_get_empty Ndof r c : csr_get (empty_csr V Ndof) r c = vzero.
Proof. unfold csr_get, empty_csr, slice. simpl. now rewrite firstn_nil, skipn_nil. Qed.

Lemma dense_sum_nil_data rows cols r c : dense_sum rows cols [] r c = vzero.
Proof. unfold C03_Csr.dense_sum. now rewrite combine_nil. Qed.

Lemma dense_sum_nil_keys data r c : dense_sum [] [] data r c = vzero.
Proof. reflexivity. Qed.

Lemma rows_cols_nil dof_n isMatrix : rows_cols dof_n isMatrix [] = ([], []).
Proof. destruct isMatrix; reflexivity. Qed.

Lemma assemble_csr_correct env c Nn dof_n Ndof isMatrix d :
  cache_inv env c ->
  0 < dof_n -> Nn * dof_n <= Ndof ->
  (forall g, In g (dict_groups d) -> nodes_ok Nn (env g)) ->
  let res := assemble_csr env c dof_n Ndof isMatrix d in
  cache_inv env (snd res) /\
  forall r cc, 0 <= r < Ndof -> 0 <= cc < (if isMatrix then Ndof else 1) ->
    csr_get (fst res) r cc = slot_spec env dof_n isMatrix d r cc.
Proof.
  intros Hinv Hd HN Hok res. subst res. unfold assemble_csr, slot_spec.
  destruct d as [|d0 dt] eqn:Ed.
  - simpl. split; [assumption|]. intros. rewrite rows_cols_nil. now rewrite csr_get_empty.
  - rewrite <- Ed in *. clear Ed d0 dt.
    destruct (dict_groups d) as [|g0 gt] eqn:Eg.
    + simpl. split; [assumption|]. intros. rewrite rows_cols_nil. now rewrite csr_get_empty.
    + rewrite <- Eg in *.
      destruct (dict_data d) as [|v0 vt] eqn:Edata.
      * simpl. split; [assumption|]. intros. now rewrite csr_get_empty, dense_sum_nil_data.
      * rewrite <- Edata.
        destruct (get_map_cached_sound env c (dof_n, isMatrix, Ndof, dict_groups d) Hinv) as [Hm Hc].
        simpl. split; [assumption|]. intros r cc Hr Hcc. rewrite Hm. unfold fresh_map.
        apply (csr_refines_dense V vadd vzero vadd_comm vadd_assoc vadd_0_l); try assumption.
        apply (rows_cols_range Nn); try assumption.
        intros g Hg. apply in_map_iff in Hg. destruct Hg as (gid & <- & Hgid). now apply Hok.
Qed.

(* ---- the simulation object: mesh, boundary conditions, cache ------ *)
Inductive bc := BLag (pt : Z) | BDir (pt : Z) (dofs : list Z).

Definition count_lag (pt : Z) (l : list bc) : nat :=
  length (filter (fun b => match b with BLag p => p =? pt | _ => false end) l).
(* Bc_dofs_Dirichlet(problemType): the dofs of every Dirichlet condition of the problem, in entry order *)
Definition dir_dofs (pt : Z) (l : list bc) : list Z :=
  flat_map (fun b => match b with BDir p ds => if p =? pt then ds else [] | _ => [] end) l.
(* np.unique(Bc_dofs_Dirichlet).size : one multiplier line per DISTINCT constrained dof *)
Definition count_dir (pt : Z) (l : list bc) : nat := length (usort (dir_dofs pt l)).
(* _Bc_Lagrange_dim *)
Definition lag_dim (pt : Z) (l : list bc) : Z :=
  let nl := count_lag pt l in
  if Nat.eqb nl 0 then 0 else Z.of_nat (nl + count_dir pt l).

Lemma lag_dim_nonneg pt l : 0 <= lag_dim pt l.
Proof. unfold lag_dim. destruct (Nat.eqb _ 0); lia. Qed.

Record sim := { s_env : Z -> group; s_Nn : Z; s_bcs : list bc; s_cache : cache }.

Definition table := list (Z * (gdata * gdata * gdata * gdata)).   (* {group: (K_e, C_e, M_e, F_e)} *)
Definition slots := (gdata * gdata * gdata * gdata)%type.
Definition selK (x : slots) : gdata := fst (fst (fst x)).
Definition selC (x : slots) : gdata := snd (fst (fst x)).
Definition selM (x : slots) : gdata := snd (fst x).
Definition selF (x : slots) : gdata := snd x.
Definition tsel (sel : slots -> gdata) (t : table) : dict := map (fun e => (fst e, sel (snd e))) t.
Definition tK := tsel selK.
Definition tC := tsel selC.
Definition tM := tsel selM.
Definition tF := tsel selF.

Inductive op :=
| OAssembly (pt dof_n : Z) (t : table)      (* simu.Assembly(problemType) *)
| OClear                                     (* clear_cached_computed_values(simu) *)
| OSetMesh (env : Z -> group) (Nn : Z)       (* simu.mesh = newMesh (new group objects; Bc_Init) *)
| OUpdateMesh (env : Z -> group) (Nn : Z)    (* simu.__Update_mesh(index): mesh of another iteration *)
| OAddBc (b : bc)                            (* _Bc_Add_Lagrange / _Bc_Add_Dirichlet *)
| OBcInit                                    (* simu.Bc_Init() *)
| ONeedUpdate.                               (* simu.Need_Update() *)

Definition ndof (s : sim) (pt dof_n : Z) : Z := s_Nn s * dof_n + lag_dim pt (s_bcs s).

(* Assembly(): K, C, M as matrices, F as a vector, in this order, sharing the cache *)
Definition assembly (s : sim) (pt dof_n : Z) (t : table) : (csr * csr * csr * csr) * cache :=
  let N := ndof s pt dof_n in
  let rK := assemble_csr (s_env s) (s_cache s) dof_n N true (tK t) in
  let rC := assemble_csr (s_env s) (snd rK) dof_n N true (tC t) in
  let rM := assemble_csr (s_env s) (snd rC) dof_n N true (tM t) in
  let rF := assemble_csr (s_env s) (snd rM) dof_n N false (tF t) in
  ((fst rK, fst rC, fst rM, fst rF), snd rF).

Definition oK (x : csr * csr * csr * csr) : csr := fst (fst (fst x)).
Definition oC (x : csr * csr * csr * csr) : csr := snd (fst (fst x)).
Definition oM (x : csr * csr * csr * csr) : csr := snd (fst x).
Definition oF (x : csr * csr * csr * csr) : csr := snd x.

Definition step (s : sim) (o : op) : sim :=
  match o with
  | OAssembly pt dof_n t =>
      {| s_env := s_env s; s_Nn := s_Nn s; s_bcs := s_bcs s; s_cache := snd (assembly s pt dof_n t) |}
  | OClear => {| s_env := s_env s; s_Nn := s_Nn s; s_bcs := s_bcs s; s_cache := [] |}
  | OSetMesh env Nn => {| s_env := env; s_Nn := Nn; s_bcs := []; s_cache := [] |}
  | OUpdateMesh env Nn => {| s_env := env; s_Nn := Nn; s_bcs := s_bcs s; s_cache := [] |}
  | OAddBc b => {| s_env := s_env s; s_Nn := s_Nn s; s_bcs := s_bcs s ++ [b]; s_cache := s_cache s |}
  | OBcInit => {| s_env := s_env s; s_Nn := s_Nn s; s_bcs := []; s_cache := s_cache s |}
  | ONeedUpdate => s
  end.

Definition run (s : sim) (ops : list op) : sim := fold_left step ops s.

Definition table_ok (s : sim) (t : table) : Prop := forall e, In e t -> nodes_ok (s_Nn s) (s_env s (fst e)).

Definition sim_inv (s : sim) : Prop := cache_inv (s_env s) (s_cache s).

Lemma dict_groups_sub (sel : slots -> gdata) (t : table) g :
  In g (dict_groups (tsel sel t)) -> exists e, In e t /\ fst e = g.
Proof.
  unfold dict_groups, present, tsel. intros H. apply in_map_iff in H. destruct H as (x & <- & Hx).
  apply filter_In in Hx. destruct Hx as [Hx _]. apply in_map_iff in Hx. destruct Hx as (e & <- & He).
  exists e. split; [assumption|reflexivity].
Qed.

Definition slot_ok (s : sim) (dof_n N : Z) (isMatrix : bool) (d : dict) (M : csr) : Prop :=
  forall r c, 0 <= r < N -> 0 <= c < (if isMatrix then N else 1) ->
    csr_get M r c = slot_spec (s_env s) dof_n isMatrix d r c.

Lemma assembly_correct s pt dof_n t :
  sim_inv s -> 0 < dof_n -> table_ok s t ->
  let N := ndof s pt dof_n in
  let res := assembly s pt dof_n t in
  cache_inv (s_env s) (snd res) /\
  slot_ok s dof_n N true (tK t) (oK (fst res)) /\ slot_ok s dof_n N true (tC t) (oC (fst res)) /\
  slot_ok s dof_n N true (tM t) (oM (fst res)) /\ slot_ok s dof_n N false (tF t) (oF (fst res)).
Proof.
  intros Hinv Hd Hok N res. subst res. unfold assembly. fold N.
  assert (HN : s_Nn s * dof_n <= N) by (unfold N, ndof; pose proof (lag_dim_nonneg pt (s_bcs s)); lia).
  assert (Hg : forall sel g, In g (dict_groups (tsel sel t)) -> nodes_ok (s_Nn s) (s_env s g)).
  { intros sel g H. apply dict_groups_sub in H. destruct H as (e & He & <-). now apply Hok. }
  destruct (assemble_csr_correct (s_env s) (s_cache s) (s_Nn s) dof_n N true (tK t) Hinv Hd HN (Hg selK)) as [H1 HK].
  destruct (assemble_csr_correct (s_env s) _ (s_Nn s) dof_n N true (tC t) H1 Hd HN (Hg selC)) as [H2 HC].
  destruct (assemble_csr_correct (s_env s) _ (s_Nn s) dof_n N true (tM t) H2 Hd HN (Hg selM)) as [H3 HM].
  destruct (assemble_csr_correct (s_env s) _ (s_Nn s) dof_n N false (tF t) H3 Hd HN (Hg selF)) as [H4 HF].
  unfold oK, oC, oM, oF. simpl. repeat split; assumption.
Qed.

Definition op_ok (s : sim) (o : op) : Prop :=
  match o with OAssembly pt dof_n t => 0 < dof_n /\ table_ok s t | _ => True end.

Fixpoint ops_ok (s : sim) (ops : list op) : Prop :=
  match ops with [] => True | o :: t => op_ok s o /\ ops_ok (step s o) t end.

Lemma step_inv s o : sim_inv s -> op_ok s o -> sim_inv (step s o).
Proof.
  intros Hinv Hok. destruct o; simpl; try assumption; try (intros k m H; discriminate).
  destruct Hok as [Hd Ht]. destruct (assembly_correct s pt dof_n t Hinv Hd Ht) as [H _]. exact H.
Qed.

Lemma run_inv ops : forall s, sim_inv s -> ops_ok s ops -> sim_inv (run s ops).
Proof.
  induction ops as [|o t IH]; intros s Hinv Hok; simpl; [assumption|].
  destruct Hok as [H1 H2]. apply IH; [now apply step_inv|assumption].
Qed.

(* cache soundness over arbitrary histories: whatever sequence of assemblies, cache clears, mesh
   replacements and boundary-condition changes (which change Ndof, hence the key) came before,
   the next Assembly() returns, in every slot, the dense scatter-add for the CURRENT mesh/Ndof. *)
Theorem assembly_after_any_history env0 Nn0 ops pt dof_n t :
  let s0 := {| s_env := env0; s_Nn := Nn0; s_bcs := []; s_cache := [] |} in
  ops_ok s0 ops ->
  let s := run s0 ops in
  0 < dof_n -> table_ok s t ->
  let N := ndof s pt dof_n in
  let res := fst (assembly s pt dof_n t) in
  slot_ok s dof_n N true (tK t) (oK res) /\ slot_ok s dof_n N true (tC t) (oC res) /\
  slot_ok s dof_n N true (tM t) (oM res) /\ slot_ok s dof_n N false (tF t) (oF res).
Proof.
  intros s0 Hops s Hd Ht N res.
  assert (Hinv : sim_inv s).
  { apply run_inv; [|assumption]. intros k m H. discriminate. }
  destruct (assembly_correct s pt dof_n t Hinv Hd Ht) as [_ H]. exact H.
Qed.

(* a map served from the cache is the fresh map of the current key *)
Theorem cache_sound env0 Nn0 ops k :
  let s0 := {| s_env := env0; s_Nn := Nn0; s_bcs := []; s_cache := [] |} in
  ops_ok s0 ops ->
  let s := run s0 ops in
  fst (get_map_cached (s_env s) (s_cache s) k) = fresh_map (s_env s) k.
Proof.
  intros s0 Hops s. apply get_map_cached_sound. apply run_inv; [|assumption].
  intros k' m H. discriminate.
Qed.

End Sim.
