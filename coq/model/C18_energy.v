(* C18 — midpoint_energy_partial.
   One step of AlgoType.midpoint in free motion (no external load, no damping), as coded in
   _simu.py (_Solver_Evaluate_u_v_a_for_time_scheme, checked textually by the translator):
       v1 = 2/dt (u1 - u0) - v0 ;  a1 = 2/dt (v1 - v0) - a0 ;  a_t = (a1 + a0)/2
   and the residual of Simulations/_hyperelastic.py:  M a_t + F_int = 0.
   PARTIAL: (i) "Newton converges exactly" is the hypothesis Heq (the residual vanishes against
   every test vector); (ii) the link F_int . (u1 - u0) = U1 - U0 is the hypothesis Hdg — it is
   assembled_discrete_gradient (C18_gonzalez) plus midpoint_strain_increment (C18_kinematics)
   plus the finite-element identity  B(umid) (u1-u0) = flat sym(Fmid^T grad(u1-u0)), the last
   of which is exercised by the correspondence only.
   Full statement (not proved): for every mesh, law, initial condition and step size for which
   the Newton iterations converge, kinetic + stored energy of the computed trajectory is
   constant. *)
From Coq Require Import Reals Lra.
Open Scope R_scope.

Lemma midpoint_update_scalar : forall u0 u1 v0 a0 dt, dt <> 0 ->
  let v1 := 2 / dt * (u1 - u0) - v0 in
  let a1 := 2 / dt * (v1 - v0) - a0 in
  u1 - u0 = dt / 2 * (v0 + v1) /\ (a1 + a0) / 2 = (v1 - v0) / dt.
Proof. intros. unfold a1, v1. split; field; assumption. Qed.

Section Midpoint.
  Variable V : Type.
  Variables (add sub : V -> V -> V) (sc : R -> V -> V).
  Variable m : V -> V -> R.                       (* x^T M y *)
  Hypothesis m_sym : forall x y, m x y = m y x.
  Hypothesis m_add : forall x y z, m (add x y) z = m x z + m y z.
  Hypothesis m_sub : forall x y z, m (sub x y) z = m x z - m y z.
  Hypothesis m_sc : forall a x z, m (sc a x) z = a * m x z.

  Definition kinetic (v : V) : R := m v v / 2.

  Theorem midpoint_step_energy_partial :
    forall (dt : R) (u0 u1 v0 v1 : V) (fint : V -> R) (U0 U1 : R),
      dt <> 0 ->
      sub u1 u0 = sc (dt / 2) (add v0 v1) ->                          (* midpoint update *)
      (forall w, m (sc (1 / dt) (sub v1 v0)) w + fint w = 0) ->        (* Heq: converged residual *)
      fint (sub u1 u0) = U1 - U0 ->                                   (* Hdg: discrete gradient *)
      kinetic v1 + U1 = kinetic v0 + U0.
  Proof.
    intros dt u0 u1 v0 v1 fint U0 U1 Hdt Hup Heq Hdg.
    specialize (Heq (sub u1 u0)). rewrite Hdg in Heq. rewrite Hup in Heq.
    rewrite m_sc, m_sub in Heq.
    rewrite (m_sym v1 (sc (dt / 2) (add v0 v1))), (m_sym v0 (sc (dt / 2) (add v0 v1))) in Heq.
    rewrite !m_sc, !m_add in Heq. rewrite (m_sym v1 v0) in Heq.
    unfold kinetic.
    assert (E : 1 / dt * (dt / 2 * (m v0 v1 + m v1 v1) - dt / 2 * (m v0 v0 + m v0 v1)) = (m v1 v1 - m v0 v0) / 2) by (field; assumption).
    rewrite E in Heq. lra.
  Qed.

  (* arbitrarily many steps *)
  Theorem midpoint_energy_partial :
    forall (dt : R) (u v : nat -> V) (fint : nat -> V -> R) (U : nat -> R),
      dt <> 0 ->
      (forall n, sub (u (S n)) (u n) = sc (dt / 2) (add (v n) (v (S n)))) ->
      (forall n w, m (sc (1 / dt) (sub (v (S n)) (v n))) w + fint n w = 0) ->
      (forall n, fint n (sub (u (S n)) (u n)) = U (S n) - U n) ->
      forall n, kinetic (v n) + U n = kinetic (v 0%nat) + U 0%nat.
  Proof.
    intros dt u v fint U Hdt Hup Heq Hdg. induction n as [|n IH]. reflexivity.
    rewrite <- IH. eapply midpoint_step_energy_partial; eauto.
  Qed.

  (* PERTURBED version — what the code actually computes: Newton stops with a non-zero residual.  The residual functional
     r(w) = m((v1-v0)/dt, w) + fint(w) is not assumed to vanish; the energy defect of the step IS r(u1 - u0), hence bounded by
     tol * |u1 - u0| as soon as |r(w)| <= tol * |w| (|.| any function V -> R, e.g. the Euclidean norm of the dof vector, for
     which |r(w)| <= ||R||_2 ||w||_2 and ||R||_2 <= absTol is the Newton stopping test). *)
  Theorem midpoint_step_energy_defect :
    forall (dt : R) (u0 u1 v0 v1 : V) (fint : V -> R) (U0 U1 : R),
      dt <> 0 ->
      sub u1 u0 = sc (dt / 2) (add v0 v1) ->
      fint (sub u1 u0) = U1 - U0 ->
      (kinetic v1 + U1) - (kinetic v0 + U0) = m (sc (1 / dt) (sub v1 v0)) (sub u1 u0) + fint (sub u1 u0).
  Proof.
    intros dt u0 u1 v0 v1 fint U0 U1 Hdt Hup Hdg.
    rewrite Hdg. rewrite Hup.
    rewrite m_sc, m_sub.
    rewrite (m_sym v1 (sc (dt / 2) (add v0 v1))), (m_sym v0 (sc (dt / 2) (add v0 v1))).
    rewrite !m_sc, !m_add. rewrite (m_sym v1 v0).
    unfold kinetic. field. assumption.
  Qed.

  Theorem midpoint_step_energy_perturbed :
    forall (nrm : V -> R) (tol dt : R) (u0 u1 v0 v1 : V) (fint : V -> R) (U0 U1 : R),
      dt <> 0 ->
      sub u1 u0 = sc (dt / 2) (add v0 v1) ->
      (forall w, Rabs (m (sc (1 / dt) (sub v1 v0)) w + fint w) <= tol * nrm w) ->     (* Newton stopped at residual <= tol *)
      fint (sub u1 u0) = U1 - U0 ->
      Rabs ((kinetic v1 + U1) - (kinetic v0 + U0)) <= tol * nrm (sub u1 u0).
  Proof.
    intros nrm tol dt u0 u1 v0 v1 fint U0 U1 Hdt Hup Hres Hdg.
    rewrite (midpoint_step_energy_defect dt u0 u1 v0 v1 fint U0 U1 Hdt Hup Hdg). apply Hres.
  Qed.

  (* over n steps the defects add up: |E_n - E_0| <= tol * sum_k |u_{k+1} - u_k| *)
  Fixpoint path_length (nrm : V -> R) (u : nat -> V) (n : nat) : R :=
    match n with O => 0 | S k => path_length nrm u k + nrm (sub (u (S k)) (u k)) end.

  Theorem midpoint_energy_perturbed :
    forall (nrm : V -> R) (tol dt : R) (u v : nat -> V) (fint : nat -> V -> R) (U : nat -> R),
      dt <> 0 ->
      (forall n, sub (u (S n)) (u n) = sc (dt / 2) (add (v n) (v (S n)))) ->
      (forall n w, Rabs (m (sc (1 / dt) (sub (v (S n)) (v n))) w + fint n w) <= tol * nrm w) ->
      (forall n, fint n (sub (u (S n)) (u n)) = U (S n) - U n) ->
      forall n, Rabs ((kinetic (v n) + U n) - (kinetic (v 0%nat) + U 0%nat)) <= tol * path_length nrm u n.
  Proof.
    intros nrm tol dt u v fint U Hdt Hup Hres Hdg. induction n as [|n IH].
    - simpl. replace (kinetic (v 0%nat) + U 0%nat - (kinetic (v 0%nat) + U 0%nat)) with 0 by ring. rewrite Rabs_R0. lra.
    - simpl path_length.
      pose proof (midpoint_step_energy_perturbed nrm tol dt (u n) (u (S n)) (v n) (v (S n)) (fint n) (U n) (U (S n)) Hdt (Hup n) (Hres n) (Hdg n)) as Hs.
      replace (kinetic (v (S n)) + U (S n) - (kinetic (v 0%nat) + U 0%nat))
        with ((kinetic (v (S n)) + U (S n) - (kinetic (v n) + U n)) + (kinetic (v n) + U n - (kinetic (v 0%nat) + U 0%nat))) by ring.
      eapply Rle_trans; [apply Rabs_triang|]. lra.
  Qed.
End Midpoint.

(* non-vacuity: one degree of freedom, unit mass, quadratic energy U = u^2/2 whose discrete
   gradient is (u0+u1)/2; u0 = 0, v0 = 1, dt = 1 gives u1 = 4/5, v1 = 3/5 *)
Example midpoint_hypotheses_satisfiable :
  let m := fun x y : R => x * y in
  let fint := fun w : R => (0 + 4/5) / 2 * w in
  (4/5 - 0 = 1 / 2 * (1 + 3/5)) /\ (forall w, m (1 / 1 * (3/5 - 1)) w + fint w = 0) /\
  fint (4/5 - 0) = (4/5)^2 / 2 - 0^2 / 2 /\ m (3/5) (3/5) / 2 + (4/5)^2 / 2 = m 1 1 / 2 + 0^2 / 2.
Proof. simpl. repeat split; intros; field. Qed.

(* the perturbed hypotheses are satisfiable with a NON-zero residual: one dof, unit mass, linear spring, v1 slightly off *)
Example midpoint_perturbed_satisfiable :
  let m := fun x y : R => x * y in
  let fint := fun w : R => (0 + 4/5) / 2 * w in
  forall w : R, Rabs (m (1 / 1 * (61/100 - 1)) w + fint w) <= (1/100) * Rabs w.
Proof. intros m fint w. unfold m, fint. replace (1 / 1 * (61 / 100 - 1) * w + (0 + 4 / 5) / 2 * w) with ((1/100) * w) by field.
  rewrite Rabs_mult. rewrite (Rabs_right (1/100)) by lra. lra. Qed.

Print Assumptions midpoint_energy_partial.
Print Assumptions midpoint_energy_perturbed.
