(* C18 — midpoint_energy_partial.
   One step of AlgoType.midpoint in free motion (no external load, no damping), as coded in
   _simu.py (_Solver_Evaluate_u_v_a_for_time_scheme, checked textually by the translator):
       v1 = 2/dt (u1 - u0) - v0 ;  a1 = 2/dt (v1 - v0) - a0 ;  a_t = (a1 + a0)/2
   and the residual of Simulations/_hyperelastic.py:  M a_t + F_int = 0.
   PARTIAL: (i) "Newton converges exactly" is the hypothesis Heq (the residual vanishes against
   every test vector); (ii) the link F_int . (u1 - u0) = U1 - U0 is the hypothesis Hdg — it is
   assembled_discrete_gradient (C18_gonzalez) plus midpoint_strain_increment (C18_kinematics)
   plus the finite-element identity  B(umid) (u1-u0) = flat sym(Fmid^T grad(u1-u0)), the last
   of which is exercised by the correspondence only.
   Full statement (not proved): for every mesh, law, initial condition and step size for which
   the Newton iterations converge, kinetic + stored energy of the computed trajectory is
   constant. *)
From Coq Require Import Reals Lra.
Open Scope R_scope.

Lemma midpoint_update_scalar : forall u0 u1 v0 a0 dt, dt <> 0 ->
  let v1 := 2 / dt * (u1 - u0) - v0 in
  let a1 := 2 / dt * (v1 - v0) - a0 in
  u1 - u0 = dt / 2 * (v0 + v1) /\ (a1 + a0) / 2 = (v1 - v0) / dt.
Proof. intros. unfold a1, v1. split; field; assumption. Qed.

Section Midpoint.
  Variable V : Type.
  Variables (add sub : V -> V -> V) (sc : R -> V -> V).
  Variable m : V -> V -> R.                       (* x^T M y *)
  Hypothesis m_sym : forall x y, m x y = m y x.
  Hypothesis m_add : forall x y z, m (add x y) z = m x z + m y z.
  Hypothesis m_sub : forall x y z, m (sub x y) z = m x z - m y z.
  Hypothesis m_sc : forall a x z, m (sc a x) z = a * m x z.

  Definition kinetic (v : V) : R := m v v / 2.

  Theorem midpoint_step_energy_partial :
    forall (dt : R) (u0 u1 v0 v1 : V) (fint : V -> R) (U0 U1 : R),
      dt <> 0 ->
      sub u1 u0 = sc (dt / 2) (add v0 v1) ->                          (* midpoint update *)
      (forall w, m (sc (1 / dt) (sub v1 v0)) w + fint w = 0) ->        (* Heq: converged residual *)
      fint (sub u1 u0) = U1 - U0 ->                                   (* Hdg: discrete gradient *)
      kinetic v1 + U1 = kinetic v0 + U0.
  Proof.
    intros dt u0 u1 v0 v1 fint U0 U1 Hdt Hup Heq Hdg.
    specialize (Heq (sub u1 u0)). rewrite Hdg in Heq. rewrite Hup in Heq.
    rewrite m_sc, m_sub in Heq.
    rewrite (m_sym v1 (sc (dt / 2) (add v0 v1))), (m_sym v0 (sc (dt / 2) (add v0 v1))) in Heq.
    rewrite !m_sc, !m_add in Heq. rewrite (m_sym v1 v0) in Heq.
    unfold kinetic.
    assert (E : 1 / dt * (dt / 2 * (m v0 v1 + m v1 v1) - dt / 2 * (m v0 v0 + m v0 v1)) = (m v1 v1 - m v0 v0) / 2) by (field; assumption).
    rewrite E in Heq. lra.
  Qed.

  (* arbitrarily many steps *)
  Theorem midpoint_energy_partial :
    forall (dt : R) (u v : nat -> V) (fint : nat -> V -> R) (U : nat -> R),
      dt <> 0 ->
      (forall n, sub (u (S n)) (u n) = sc (dt / 2) (add (v n) (v (S n)))) ->
      (forall n w, m (sc (1 / dt) (sub (v (S n)) (v n))) w + fint n w = 0) ->
      (forall n, fint n (sub (u (S n)) (u n)) = U (S n) - U n) ->
      forall n, kinetic (v n) + U n = kinetic (v 0%nat) + U 0%nat.
  Proof.
    intros dt u v fint U Hdt Hup Heq Hdg. induction n as [|n IH]. reflexivity.
    rewrite <- IH. eapply midpoint_step_energy_partial; eauto.
  Qed.
End Midpoint.

(* non-vacuity: one degree of freedom, unit mass, quadratic energy U = u^2/2 whose discrete
   gradient is (u0+u1)/2; u0 = 0, v0 = 1, dt = 1 gives u1 = 4/5, v1 = 3/5 *)
Example midpoint_hypotheses_satisfiable :
  let m := fun x y : R => x * y in
  let fint := fun w : R => (0 + 4/5) / 2 * w in
  (4/5 - 0 = 1 / 2 * (1 + 3/5)) /\ (forall w, m (1 / 1 * (3/5 - 1)) w + fint w = 0) /\
  fint (4/5 - 0) = (4/5)^2 / 2 - 0^2 / 2 /\ m (3/5) (3/5) / 2 + (4/5)^2 / 2 = m 1 1 / 2 + 0^2 / 2.
Proof. simpl. repeat split; intros; field. Qed.

Print Assumptions midpoint_energy_partial.
