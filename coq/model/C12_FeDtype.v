(* C12_FeDtype.v — result dtype of FeArray operations as a small join-semilattice.
   dtypes exercised by the check: int64, float32, float64, complex128 arrays and python scalars
   (numpy 2 "weak" scalars: a python int never changes an array's dtype, a python float only lifts
   integers, a python complex lifts to the complex type of the array's precision).
   The FeArray wrappers must not change numpy's promotion: the result dtype of a binary operator,
   @, dot, Trace, sum, T, unary minus and of the constructor paths is the JOIN of the operand
   dtypes (checked against the dtype numpy actually returns, in the `dtype` correspondence family). *)
From Coq Require Import List Arith Bool.
Import ListNotations.

Inductive dt := I64 | F32 | F64 | C64 | C128.

(* array-array promotion (np.result_type on these five types) *)
Definition join (a b : dt) : dt :=
  match a, b with
  | I64, I64 => I64
  | I64, F32 | F32, I64 => F64          (* int64 does not fit float32 *)
  | I64, x | x, I64 => match x with C64 => C128 | _ => x end
  | F32, F32 => F32
  | F32, F64 | F64, F32 | F64, F64 => F64
  | F32, C64 | C64, F32 | C64, C64 => C64
  | _, _ => C128
  end.

Definition dt_eqb (a b : dt) : bool :=
  match a, b with
  | I64, I64 | F32, F32 | F64, F64 | C64, C64 | C128, C128 => true
  | _, _ => false
  end.

Definition le (a b : dt) : Prop := join a b = b.

Theorem join_comm a b : join a b = join b a.
Proof. destruct a, b; reflexivity. Qed.
Theorem join_assoc a b c : join a (join b c) = join (join a b) c.
Proof. destruct a, b, c; reflexivity. Qed.
Theorem join_idem a : join a a = a.
Proof. destruct a; reflexivity. Qed.
(* hence [le] is a partial order with greatest element C128 and join is its least upper bound;
   int64 and float32 are incomparable (their join is float64) *)
Theorem join_lub a b c : le a c -> le b c -> le (join a b) c.
Proof. unfold le. destruct a, b, c; simpl; intros; congruence. Qed.
Theorem join_upper a b : le a (join a b) /\ le b (join a b).
Proof. unfold le. destruct a, b; split; reflexivity. Qed.
Theorem le_antisym a b : le a b -> le b a -> a = b.
Proof. unfold le. destruct a, b; simpl; intros; congruence. Qed.
Theorem top a : le a C128.
Proof. unfold le. destruct a; reflexivity. Qed.
Example int64_float32_incomparable : ~ le I64 F32 /\ ~ le F32 I64 /\ join I64 F32 = F64.
Proof. unfold le. repeat split; simpl; congruence. Qed.
(* the chain int < float < complex of the double-precision types *)
Example chain : le I64 F64 /\ le F64 C128 /\ I64 <> F64 /\ F64 <> C128.
Proof. repeat split; discriminate. Qed.

(* operands: arrays carry their dtype; python scalars are weak *)
Inductive odt := Arr (d : dt) | PyInt | PyFloat | PyComplex.

Definition weak_with (w : odt) (d : dt) : dt :=
  match w with
  | Arr e => join e d
  | PyInt => d
  | PyFloat => match d with I64 => F64 | _ => d end
  | PyComplex => match d with F32 | C64 => C64 | _ => C128 end
  end.

(* dtype of `x op y` for the arithmetic operators + - *, @, dot (at least one array operand) *)
Definition binop_dtype (x y : odt) : option dt :=
  match x, y with
  | Arr a, Arr b => Some (join a b)
  | Arr a, w => Some (weak_with w a)
  | w, Arr b => Some (weak_with w b)
  | _, _ => None
  end.

Theorem binop_dtype_comm x y : binop_dtype x y = binop_dtype y x.
Proof. destruct x as [a| | |], y as [b| | |]; simpl; try reflexivity. now rewrite join_comm. Qed.

(* dtype-preserving unary paths: T, Transpose, Trace, sum, unary minus, FeArray(...), asfearray *)
Definition unop_dtype (x : odt) : option dt := match x with Arr a => Some a | _ => None end.

Definition dt_opt_eqb (a : option dt) (b : dt) : bool := match a with Some x => dt_eqb x b | None => false end.
