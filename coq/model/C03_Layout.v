(* C03 -- the element-array -> flat data step (X_e.ravel() in __Assemble_csr) on a model of numpy's strided
   arrays: a 3-d array is (shape, strides, offset, buffer) with the logical read `get`; the C-order ravel puts the
   LOGICAL entry (e, i, j) at flat position (e*n1 + i)*n2 + j whatever the strides/offset are, so it is independent
   of the memory layout; a memory-order ('K') ravel is refuted by a transposed 2x2 witness. *)
From Coq Require Import ZArith List Bool Lia.
Import ListNotations.
Open Scope Z_scope.

Section Arr.
Variable V : Type.

Record sarr := { n0 : nat; n1 : nat; n2 : nat; s0 : Z; s1 : Z; s2 : Z; off : Z; buf : Z -> V }.

(* logical read a[e, i, j] *)
Definition get (a : sarr) (e i j : nat) : V :=
  buf a (off a + Z.of_nat e * s0 a + Z.of_nat i * s1 a + Z.of_nat j * s2 a).

(* numpy ravel(order='C'): logical entries in row-major order of the INDICES (last axis fastest) *)
Definition ravelC (a : sarr) : list V :=
  flat_map (fun e => flat_map (fun i => map (fun j => get a e i j) (seq 0 (n2 a))) (seq 0 (n1 a))) (seq 0 (n0 a)).

(* a memory-order ravel (order='K' on a buffer-contiguous view): the buffer as it lies in memory *)
Definition ravelK (a : sarr) : list V :=
  map (fun k => buf a (off a + Z.of_nat k)) (seq 0 (n0 a * n1 a * n2 a)).

Lemma flat_map_const_length {A B} (f : A -> list B) m l :
  (forall x, length (f x) = m) -> length (flat_map f l) = (length l * m)%nat.
Proof. intros H. induction l; simpl; [reflexivity|]. rewrite app_length, H, IHl. lia. Qed.

Lemma nth_flat_map_const {A B} (f : A -> list B) m (l : list A) q k (d : B) (dl : A) :
  (forall x, length (f x) = m) -> (q < length l)%nat -> (k < m)%nat ->
  nth (q * m + k) (flat_map f l) d = nth k (f (nth q l dl)) d.
Proof.
  intros Hm. revert q. induction l as [|a t IH]; intros q Hq Hk; simpl in Hq; [lia|].
  simpl. destruct q as [|q].
  - simpl. rewrite app_nth1 by (rewrite Hm; lia). reflexivity.
  - rewrite app_nth2 by (rewrite Hm; simpl; lia). rewrite Hm.
    replace (S q * m + k - m)%nat with (q * m + k)%nat by (simpl; lia). apply IH; lia.
Qed.

Lemma flat_map_ext_in' {A B} (f g : A -> list B) l : (forall x, In x l -> f x = g x) -> flat_map f l = flat_map g l.
Proof. induction l; simpl; intros H; [reflexivity|]. rewrite H by (now left). f_equal. apply IHl. intros; apply H; now right. Qed.

Lemma ravelC_length a : length (ravelC a) = (n0 a * (n1 a * n2 a))%nat.
Proof.
  unfold ravelC. rewrite (flat_map_const_length _ (n1 a * n2 a)); [now rewrite seq_length|].
  intros e. rewrite (flat_map_const_length _ (n2 a)); [now rewrite seq_length|].
  intros i. now rewrite map_length, seq_length.
Qed.

(* position of the logical entry (e, i, j) in the flat data: the row-major index, for ANY strides and offset *)
Theorem ravelC_nth a e i j d :
  (e < n0 a)%nat -> (i < n1 a)%nat -> (j < n2 a)%nat ->
  nth ((e * n1 a + i) * n2 a + j) (ravelC a) d = get a e i j.
Proof.
  intros He Hi Hj. unfold ravelC.
  replace ((e * n1 a + i) * n2 a + j)%nat with (e * (n1 a * n2 a) + (i * n2 a + j))%nat by lia.
  rewrite (nth_flat_map_const _ (n1 a * n2 a) _ e _ d O).
  - rewrite seq_nth by assumption. simpl.
    rewrite (nth_flat_map_const _ (n2 a) _ i _ d O).
    + rewrite seq_nth by assumption. simpl.
      rewrite nth_indep with (d' := get a e i 0) by (now rewrite map_length, seq_length).
      rewrite (map_nth (fun j0 => get a e i j0)). now rewrite seq_nth.
    + intros x. now rewrite map_length, seq_length.
    + now rewrite seq_length.
    + assumption.
  - intros x. rewrite (flat_map_const_length _ (n2 a)); [now rewrite seq_length|].
    intros y. now rewrite map_length, seq_length.
  - now rewrite seq_length.
  - nia.
Qed.

(* layout independence: two arrays of the same shape with the same logical content ravel to the same data,
   whatever their strides, offsets and buffers *)
Theorem ravelC_layout_independent a b :
  n0 a = n0 b -> n1 a = n1 b -> n2 a = n2 b ->
  (forall e i j, (e < n0 a)%nat -> (i < n1 a)%nat -> (j < n2 a)%nat -> get a e i j = get b e i j) ->
  ravelC a = ravelC b.
Proof.
  intros E0 E1 E2 H. unfold ravelC. rewrite <- E0, <- E1, <- E2.
  apply flat_map_ext_in'. intros e He. apply in_seq in He.
  apply flat_map_ext_in'. intros i Hi. apply in_seq in Hi.
  apply map_ext_in. intros j Hj. apply in_seq in Hj. apply H; lia.
Qed.
End Arr.

(* the logical array [[0,2],[1,3]] stored as the transposed view of the buffer 0,1,2,3 (strides of the last two
   axes swapped): C-order gives the logical rows, memory order does not *)
Definition wit : sarr Z := {| n0 := 1; n1 := 2; n2 := 2; s0 := 4; s1 := 1; s2 := 2; off := 0; buf := fun k => k |}.
Definition wit_contig : sarr Z :=
  {| n0 := 1; n1 := 2; n2 := 2; s0 := 4; s1 := 2; s2 := 1; off := 0; buf := fun k => nth (Z.to_nat k) [0; 2; 1; 3] 0 |}.

Example ravelK_refuted :
  (forall e i j, (e < 1)%nat -> (i < 2)%nat -> (j < 2)%nat -> get Z wit e i j = get Z wit_contig e i j) /\
  ravelC Z wit = [0; 2; 1; 3] /\ ravelC Z wit_contig = [0; 2; 1; 3] /\
  ravelK Z wit = [0; 1; 2; 3] /\ ravelK Z wit_contig = [0; 2; 1; 3].
Proof.
  split; [|repeat split; reflexivity].
  intros e i j He Hi Hj. assert (e = O) by lia. subst.
  destruct i as [|[|i]]; destruct j as [|[|j]]; try lia; reflexivity.
Qed.
