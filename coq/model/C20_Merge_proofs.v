(* C20 — Mesh.Merge: the node mapping is the inverse bookkeeping. *)
From Coq Require Import List Arith Bool PeanoNat Lia.
From EFModel Require Import C20_Partition.
Import ListNotations.

Section MergeProofs.
  Variable P : Type.
  Variable peq : P -> P -> bool.
  Hypothesis peq_spec : forall p q, peq p q = true <-> p = q.

  Lemma pmem_In p l : pmem P peq p l = true <-> In p l.
  Proof.
    induction l as [|q l IH]; simpl. split; [discriminate|tauto].
    rewrite orb_true_iff, IH, peq_spec. split; intros [H|H]; auto.
  Qed.

  Lemma dedup_acc_In l : forall acc p, In p (dedup_acc P peq acc l) <-> In p acc \/ In p l.
  Proof.
    induction l as [|q l IH]; intros acc p; simpl. tauto.
    destruct (pmem P peq q acc) eqn:E.
    - rewrite IH. apply pmem_In in E. split; [tauto|]. intros [H|[H|H]]; auto. subst. auto.
    - rewrite IH, in_app_iff. simpl. tauto.
  Qed.

  Lemma dedup_acc_NoDup l : forall acc, NoDup acc -> NoDup (dedup_acc P peq acc l).
  Proof.
    induction l as [|q l IH]; intros acc H; simpl; auto.
    destruct (pmem P peq q acc) eqn:E; auto.
    apply IH. assert (Hq : ~ In q acc).
    { intro Hin. apply pmem_In in Hin. congruence. }
    clear E. induction acc as [|a acc IHa]; simpl.
    - constructor; auto; constructor.
    - inversion H; subst. constructor.
      + intro Hin. apply in_app_or in Hin. destruct Hin as [Hin|[Hin|[]]]; auto.
        subst. apply Hq. now left.
      + apply IHa; auto. intro Hin. apply Hq. now right.
  Qed.

  Lemma pos_nth p l d : In p l -> pos P peq p l < length l /\ nth (pos P peq p l) l d = p.
  Proof.
    induction l as [|q l IH]; simpl; intros H. contradiction.
    destruct (peq p q) eqn:E.
    - apply peq_spec in E. subst. split; auto. lia.
    - destruct H as [H|H].
      + subst. assert (peq p p = true) by (apply peq_spec; auto). congruence.
      + destruct (IH H). split; auto. lia.
  Qed.

  Lemma nth_In' (l : list P) i d : i < length l -> In (nth i l d) l.
  Proof. apply nth_In. Qed.

  (* --- the properties of the mapping --- *)
  Theorem merge_new_coords_nodup ms : NoDup (new_coords P peq true ms).
  Proof. unfold new_coords, dedup. apply dedup_acc_NoDup. constructor. Qed.

  Theorem merge_new_coords_complete ms p :
    In p (new_coords P peq true ms) <-> In p (all_coords P ms).
  Proof. unfold new_coords, dedup. rewrite dedup_acc_In. simpl. tauto. Qed.

  (* every old node finds its own coordinates at its new index *)
  Theorem merge_coords_recovered mp ms i d : i < length (all_coords P ms) ->
    nth (old_to_new P peq mp ms i d) (new_coords P peq mp ms) d = nth i (all_coords P ms) d.
  Proof.
    intros Hi. unfold old_to_new, new_coords. destruct mp; auto.
    assert (Hin : In (nth i (all_coords P ms) d) (dedup P peq (all_coords P ms))).
    { apply (proj2 (merge_new_coords_complete ms (nth i (all_coords P ms) d))). now apply nth_In. }
    exact (proj2 (pos_nth _ _ d Hin)).
  Qed.

  Theorem merge_index_in_range mp ms i d : i < length (all_coords P ms) ->
    old_to_new P peq mp ms i d < length (new_coords P peq mp ms).
  Proof.
    intros Hi. unfold old_to_new, new_coords. destruct mp; auto.
    assert (Hin : In (nth i (all_coords P ms) d) (dedup P peq (all_coords P ms))).
    { apply (proj2 (merge_new_coords_complete ms (nth i (all_coords P ms) d))). now apply nth_In. }
    exact (proj1 (pos_nth _ _ d Hin)).
  Qed.

  (* coincident nodes are identified, distinct ones are kept apart *)
  Theorem merge_identifies ms i j d :
    i < length (all_coords P ms) -> j < length (all_coords P ms) ->
    (old_to_new P peq true ms i d = old_to_new P peq true ms j d <->
     nth i (all_coords P ms) d = nth j (all_coords P ms) d).
  Proof.
    intros Hi Hj. split; intros H.
    - rewrite <- (merge_coords_recovered true ms i d Hi), <- (merge_coords_recovered true ms j d Hj).
      now rewrite H.
    - unfold old_to_new. now rewrite H.
  Qed.

  Theorem merge_without_points mp ms i d : mp = false ->
    old_to_new P peq mp ms i d = i /\ new_coords P peq mp ms = all_coords P ms.
  Proof. intros ->. split; reflexivity. Qed.

  (* --- offsets / slices --- *)
  Lemma all_coords_app m1 m2 : all_coords P (m1 ++ m2) = all_coords P m1 ++ all_coords P m2.
  Proof. unfold all_coords. apply flat_map_app. Qed.

  Lemma nth_all_coords (pre : list (mesh P)) (m : mesh P) post j d : j < length (fst m) ->
    nth (length (all_coords P pre) + j) (all_coords P (pre ++ m :: post)) d = nth j (fst m) d.
  Proof.
    intros Hj. rewrite all_coords_app. rewrite app_nth2 by lia.
    replace (length (all_coords P pre) + j - length (all_coords P pre)) with j by lia.
    unfold all_coords at 1. simpl. now rewrite app_nth1.
  Qed.

  Lemma offsets_from_nth (pre : list (mesh P)) : forall o (m : mesh P) post,
    nth (length pre) (offsets_from P o (pre ++ m :: post)) 0 = o + length (all_coords P pre).
  Proof.
    induction pre as [|a pre IH]; intros o m post; simpl. lia.
    rewrite IH. unfold all_coords. simpl. rewrite app_length. lia.
  Qed.

  Lemma offsets_length ms : forall o, length (offsets_from P o ms) = length ms.
  Proof. induction ms; intros o; simpl; auto. Qed.

  Theorem mapping_nth mp (pre : list (mesh P)) (m : mesh P) post d :
    nth (length pre) (mapping P peq mp (pre ++ m :: post) d) [] =
    map (fun j => old_to_new P peq mp (pre ++ m :: post) (length (all_coords P pre) + j) d)
        (seq 0 (length (fst m))).
  Proof.
    unfold mapping. set (ms := pre ++ m :: post).
    set (f := fun om : nat * mesh P => map (fun j => old_to_new P peq mp ms (fst om + j) d)
                                          (seq 0 (length (fst (snd om))))).
    assert (L : length pre < length (combine (offsets P ms) ms)).
    { rewrite combine_length. unfold offsets. rewrite offsets_length. unfold ms.
      rewrite app_length. simpl. lia. }
    assert (E : forall l k, k < length l -> nth k (map f l) [] = f (nth k l (0, m))).
    { intros l k Hk. rewrite (nth_indep (map f l) [] (f (0, m))) by (now rewrite map_length).
      apply map_nth. }
    rewrite E by exact L.
    rewrite combine_nth by (unfold offsets; apply offsets_length).
    unfold f. simpl. unfold offsets, ms. rewrite offsets_from_nth.
    rewrite app_nth2 by lia. rewrite Nat.sub_diag. simpl. reflexivity.
  Qed.

  (* merge_inverse: mapping[k][j] composed with the merged coordinates gives back node j of mesh k *)
  Theorem merge_inverse mp (pre : list (mesh P)) (m : mesh P) post d j : j < length (fst m) ->
    nth (nth j (nth (length pre) (mapping P peq mp (pre ++ m :: post) d) []) 0)
        (new_coords P peq mp (pre ++ m :: post)) d
    = nth j (fst m) d.
  Proof.
    intros Hj. rewrite mapping_nth.
    set (g := fun j0 => old_to_new P peq mp (pre ++ m :: post) (length (all_coords P pre) + j0) d).
    rewrite (nth_indep _ 0 (g 0)) by (now rewrite map_length, seq_length).
    rewrite map_nth, seq_nth by auto. unfold g. simpl.
    rewrite merge_coords_recovered.
    - now apply nth_all_coords.
    - rewrite all_coords_app, app_length.
      assert (length (all_coords P (m :: post)) = length (fst m) + length (all_coords P post)).
      { unfold all_coords. simpl. now rewrite app_length. }
      lia.
  Qed.
End MergeProofs.

(* non-vacuity / concrete run: two 2-node "meshes" sharing the point 5 *)
Example merge_example :
  let ms : list (mesh nat) := [([3;5], [(0, [[0;1]])]) ; ([5;7], [(0, [[0;1]])])] in
  new_coords nat Nat.eqb true ms = [3;5;7] /\
  mapping nat Nat.eqb true ms 0 = [[0;1];[1;2]] /\
  remap nat Nat.eqb true ms 0 = [[(0, [[0;1]])]; [(0, [[1;2]])]].
Proof. vm_compute. auto. Qed.
