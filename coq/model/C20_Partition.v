(* C20 — Gallina model of the mesh partition bookkeeping of EasyFEA.

   Transcribed from  EasyFEA/FEM/_mesher.py  __Get_partitioned_groupElems / __Get_dict_groupElems,
   EasyFEA/FEM/_group_elem.py  _Set_partitioned_data / _globalElements,
   EasyFEA/FEM/_mesh.py  _Get_mpi_owned_nodes / Merge.

   gmsh's partitioner is an ORACLE: its output (a rank for every element) is an INPUT here.
   Definitions only; the proofs are in C20_Partition_proofs.v.                                   *)
From Coq Require Import List Arith Bool PeanoNat.
Import ListNotations.

(* ---------------------------------------------------------------------------------------- *)
(* python sets of ints, canonical form = strictly increasing list (np.sort / np.unique)      *)
(* ---------------------------------------------------------------------------------------- *)
Fixpoint insert_u (a : nat) (l : list nat) : list nat :=
  match l with
  | [] => [a]
  | b :: t => if a <? b then a :: l else if a =? b then l else b :: insert_u a t
  end.

Definition canon (l : list nat) : list nat := fold_right insert_u [] l.

Definition mem (n : nat) (l : list nat) : bool := existsb (Nat.eqb n) l.

(* ---------------------------------------------------------------------------------------- *)
(* meshes                                                                                    *)
(* ---------------------------------------------------------------------------------------- *)
(* one element = its connectivity row and the rank the oracle gave it (a rank >= Nproc means
   "entity without partition": owned by nobody)                                              *)
Definition elem := (list nat * nat)%type.
(* one element group (= one gmsh element type): is it of the mesh's main dimension, elements *)
Definition group := (bool * list elem)%type.
(* element with its row index in the pre-partition connect                                   *)
Definition ielem := (nat * elem)%type.
Definition eid (x : ielem) : nat := fst x.
Definition enodes (x : ielem) : list nat := fst (snd x).
Definition erank (x : ielem) : nat := snd (snd x).

Definition index (els : list elem) : list ielem := combine (seq 0 (length els)) els.

(* dict_rank_nodes : rank -> set of nodes claimed so far (shared by all groups) *)
Definition state := nat -> list nat.
Definition st0 : state := fun _ => [].
Definition upd (st : state) (r : nat) (l : list nat) : state :=
  fun s => if s =? r then l else st s.

Record out := mk_out {
  o_elements : list nat;    (* owned elements, sorted          (_Set_partitioned_data) *)
  o_ghosts : list nat;      (* ghost elements, sorted                                   *)
  o_nodes : list nat;       (* (non-ghost) nodes, sorted                                *)
  o_ghostNodes : list nat;  (* nodes of the part's connect that are not in o_nodes      *)
  o_global : list nat       (* _globalElements = np.unique(owned ++ ghosts) = rows kept *)
}.
Definition out0 := mk_out [] [] [] [] [].

Section Partition.
  Variable Nproc : nat.
  (* false: ghost detection as written in the source (nodes claimed in the CURRENT group)
     true : proposed fix (all nodes the rank owns so far; per-group nodes = owned /\ used) *)
  Variable modeB : bool.

  Definition other_ranks (r : nat) : list nat :=
    filter (fun s => negb (s =? r)) (seq 0 Nproc).

  (* otherRankNodes = union of dict_rank_nodes[s] for s in range(Nproc) if s != rank *)
  Definition others (st : state) (r : nat) : list nat := flat_map st (other_ranks r).

  (* idx_r / connect_r *)
  Definition own_of (ig : list ielem) (r : nat) : list ielem :=
    filter (fun x => erank x =? r) ig.
  Definition nodes_of (l : list ielem) : list nat := flat_map enodes l.

  (* nodes = set(connect_r.ravel()) - otherRankNodes *)
  Definition claim (st : state) (ig : list ielem) (r : nat) : list nat :=
    filter (fun n => negb (mem n (others st r))) (nodes_of (own_of ig r)).

  (* dict_rank_nodes[rank].update(nodes) *)
  Definition step (st : state) (ig : list ielem) (r : nat) : state :=
    upd st r (st r ++ claim st ig r).

  (* mask = np.isin(other_connect, nodes_arr).any(axis=1) *)
  Definition touches (src : list nat) (x : ielem) : bool :=
    existsb (fun n => mem n src) (enodes x).

  (* for other_rank in range(Nproc): if other_rank == rank: continue; ghost_idx.update(...) *)
  Definition ghost_of (src : list nat) (ig : list ielem) (r : nat) : list ielem :=
    flat_map (fun s => filter (touches src) (own_of ig s)) (other_ranks r).

  Definition part_elems (st : state) (ig : list ielem) (r : nat) : list nat :=
    let src := if modeB then step st ig r r else claim st ig r in
    canon (map eid (own_of ig r) ++ map eid (ghost_of src ig r)).

  Definition part_out (st : state) (ig : list ielem) (r : nat) : out :=
    let nodes := claim st ig r in
    let st' := step st ig r in
    let src := if modeB then st' r else nodes in
    let all := part_elems st ig r in
    let part_nodes := nodes_of (filter (fun x => mem (eid x) all) ig) in
    let nodes_out := if modeB then filter (fun n => mem n (st' r)) part_nodes else nodes in
    mk_out (canon (map eid (own_of ig r)))
           (canon (map eid (ghost_of src ig r)))
           (canon nodes_out)
           (canon (filter (fun n => negb (mem n nodes_out)) part_nodes))
           all.

  (* for rank in range(Nproc): ... *)
  Fixpoint run_ranks (ig : list ielem) (rs : list nat) (st : state) : list out * state :=
    match rs with
    | [] => ([], st)
    | r :: rs' =>
        let o := part_out st ig r in
        let '(os, st2) := run_ranks ig rs' (step st ig r) in
        (o :: os, st2)
    end.

  (* for gmshId in elementTypes: ... (dict_rank_nodes is threaded through the groups) *)
  Fixpoint run_groups (gs : list group) (st : state) : list (list out) :=
    match gs with
    | [] => []
    | g :: gs' =>
        let '(os, st2) := run_ranks (index (snd g)) (seq 0 Nproc) st in
        os :: run_groups gs' st2
    end.

  (* result: per group, per rank *)
  Definition partition (gs : list group) : list (list out) := run_groups gs st0.

  (* Mesh._Get_mpi_owned_nodes of part r: np.unique(concat of o_nodes over main-dimension groups) *)
  Definition owned_nodes (gs : list group) (parts : list (list out)) (r : nat) : list nat :=
    canon (flat_map (fun gp : group * list out =>
                       if fst (fst gp) then o_nodes (nth r (snd gp) out0) else [])
                    (combine gs parts)).

  (* ---- specification-level view: the state before the turn of rank r in group g ---- *)
  Definition steps_of (gs : list group) : list (list ielem * nat) :=
    flat_map (fun g : group => map (fun r => (index (snd g), r)) (seq 0 Nproc)) gs.
  Definition run_steps (l : list (list ielem * nat)) (st : state) : state :=
    fold_left (fun st p => step st (fst p) (snd p)) l st.
  Definition st_before (pre : list group) (ig : list ielem) (r : nat) : state :=
    run_steps (map (fun s => (ig, s)) (seq 0 r)) (run_steps (steps_of pre) st0).
  Definition final (gs : list group) : state := run_steps (steps_of gs) st0.

End Partition.

(* row-completeness of a computed partition, as a decidable check (used by the witness):
   for every main group, every rank r, every node owned by r, every element (with a valid rank)
   containing it is among the rows of part r                                                  *)
Definition row_complete_b (Nproc : nat) (gs : list group) (parts : list (list out))
           (owned : nat -> list nat) : bool :=
  forallb (fun gp : group * list out =>
     negb (fst (fst gp)) ||
     forallb (fun r =>
        forallb (fun x : ielem =>
           negb (erank x <? Nproc) || negb (touches (owned r) x)
           || mem (eid x) (o_global (nth r (snd gp) out0)))
        (index (snd (fst gp))))
     (seq 0 Nproc))
  (combine gs parts).

(* ---------------------------------------------------------------------------------------- *)
(* Mesh.Merge (node bookkeeping).  Points are exact (Z-valued triples encoded as lists);      *)
(* coincidence = equality (the implementation's tolerance 1e-12 on dyadic data).              *)
(* ---------------------------------------------------------------------------------------- *)
Section Merge.
  Variable P : Type.
  Variable peq : P -> P -> bool.

  Fixpoint pmem (p : P) (l : list P) : bool :=
    match l with [] => false | q :: t => peq p q || pmem p t end.
  (* new_coords = all_coords[first_in_component] : first occurrences, in order *)
  Fixpoint dedup_acc (acc : list P) (l : list P) : list P :=
    match l with
    | [] => acc
    | p :: t => if pmem p acc then dedup_acc acc t else dedup_acc (acc ++ [p]) t
    end.
  Definition dedup (l : list P) : list P := dedup_acc [] l.
  Fixpoint pos (p : P) (l : list P) : nat :=
    match l with [] => 0 | q :: t => if peq p q then 0 else S (pos p t) end.

  (* one input mesh: coordinates and, per element type tag, the connectivity *)
  Definition mesh := (list P * list (nat * list (list nat)))%type.

  Definition all_coords (ms : list mesh) : list P := flat_map fst ms.
  Definition new_coords (mergePoints : bool) (ms : list mesh) : list P :=
    if mergePoints then dedup (all_coords ms) else all_coords ms.
  (* old_to_new = labels (components numbered by first occurrence) or arange(N) *)
  Definition old_to_new (mergePoints : bool) (ms : list mesh) (i : nat) (d : P) : nat :=
    if mergePoints then pos (nth i (all_coords ms) d) (dedup (all_coords ms)) else i.
  Fixpoint offsets_from (o : nat) (ms : list mesh) : list nat :=
    match ms with [] => [] | m :: t => o :: offsets_from (o + length (fst m)) t end.
  Definition offsets (ms : list mesh) := offsets_from 0 ms.
  (* mapping[k] = old_to_new[off_k : off_k + size_k] *)
  Definition mapping (mp : bool) (ms : list mesh) (d : P) : list (list nat) :=
    map (fun om : nat * mesh =>
           map (fun j => old_to_new mp ms (fst om + j) d) (seq 0 (length (fst (snd om)))))
        (combine (offsets ms) ms).
  (* remapped connectivity of mesh k, group by group: old_to_new[connect + off] *)
  Definition remap (mp : bool) (ms : list mesh) (d : P) : list (list (nat * list (list nat))) :=
    map (fun om : nat * mesh =>
           map (fun tg : nat * list (list nat) =>
                  (fst tg, map (map (fun n => old_to_new mp ms (fst om + n) d)) (snd tg)))
               (snd (snd om)))
        (combine (offsets ms) ms).
End Merge.
