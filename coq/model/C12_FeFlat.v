(* C12_FeFlat.v — the flat row-major data <-> index function bridge used by the case files is
   lossless: to_flat (of_flat s d) = d whenever d has prod s entries (numpy's C order). *)
From Coq Require Import List Arith Lia.
From EFModel Require Import C12_FeShape C12_FeTensor.
Import ListNotations.

Fixpoint prod_shape (s : list nat) : nat := match s with [] => 1 | d :: r => d * prod_shape r end.

Lemma flat_blocks P : forall d b,
  flat_map (fun i => seq ((b + i) * P) P) (seq 0 d) = seq (b * P) (d * P).
Proof.
  induction d; intros b; [reflexivity|].
  rewrite seq_S, flat_map_app, IHd. cbn [flat_map]. rewrite app_nil_r. cbn [plus].
  replace (S d * P) with (d * P + P) by lia. rewrite seq_app. f_equal. f_equal. lia.
Qed.

Lemma map_flat_map {A B C} (f : B -> C) (g : A -> list B) l :
  map f (flat_map g l) = flat_map (fun x => map f (g x)) l.
Proof. induction l; simpl; [reflexivity|]. now rewrite map_app, IHl. Qed.

Lemma ravel_indices s : forall acc,
  map (ravel_from acc s) (indices s) = seq (acc * prod_shape s) (prod_shape s).
Proof.
  induction s as [|d s IH]; intros acc.
  - simpl. f_equal. lia.
  - cbn [indices prod_shape]. rewrite map_flat_map.
    erewrite flat_map_ext.
    2:{ intros i. rewrite map_map. cbn [ravel_from]. rewrite IH. reflexivity. }
    rewrite (flat_blocks (prod_shape s) d (acc * d)). f_equal; lia.
Qed.

Lemma map_nth_seq {A} (v : A) d : map (fun n => nth n d v) (seq 0 (length d)) = d.
Proof.
  induction d as [|x d IH]; [reflexivity|].
  cbn [length seq map nth]. f_equal. rewrite <- seq_shift, map_map. exact IH.
Qed.

Theorem to_flat_of_flat (V : Type) (v0 : V) s d :
  length d = prod_shape s -> to_flat V (of_flat V v0 s d) = d.
Proof.
  intros H. unfold to_flat, of_flat. cbn [shape dat].
  rewrite <- (map_map (ravel s) (fun n => nth n d v0)).
  unfold ravel. rewrite ravel_indices. cbn [mult]. rewrite <- H. apply map_nth_seq.
Qed.

Example flat_hyp_satisfiable : length [1; 2; 3; 4; 5; 6] = prod_shape [1; 2; 3].
Proof. reflexivity. Qed.
