(* C12_FeReduce2.v — a reduction over a pair of axes is the composition of two single-axis
   reductions (first the later axis, then the earlier one), for every array shape and every
   reducer f that distributes over concatenation (f (concat ls) = f (map f ls): sum, prod, max,
   min, any, all on non-empty blocks).  Any rank, any positions i < j. *)
From Coq Require Import List Arith Bool Lia.
From EFModel Require Import C12_FeShape C12_FeTensor C12_FeProofs C12_FeFlat.
Import ListNotations.

Lemma memb1 o j : memb o [j] = (o =? j).
Proof. simpl. now rewrite orb_false_r. Qed.
Lemma memb2 o i j : memb o [i; j] = (o =? i) || (o =? j).
Proof. simpl. now rewrite orb_false_r. Qed.

Lemma merge_skip_small s : forall o i j k r, i < o -> merge_idx o [i; j] s k r = merge_idx o [j] s k r.
Proof.
  induction s as [|d s IH]; intros o i j k r H; [reflexivity|].
  cbn [merge_idx]. rewrite memb2, memb1.
  replace (o =? i) with false by (symmetry; apply Nat.eqb_neq; lia). cbn [orb].
  destruct (o =? j); destruct r, k; try reflexivity; rewrite IH by lia; reflexivity.
Qed.

Lemma merge_none s : forall o i k, i < o -> length k = length s -> merge_idx o [i] s k [] = k.
Proof.
  induction s as [|d s IH]; intros o i k H L; destruct k; simpl in L; try lia; [reflexivity|].
  cbn [merge_idx]. rewrite memb1. replace (o =? i) with false by (symmetry; apply Nat.eqb_neq; lia).
  rewrite IH by lia. reflexivity.
Qed.

Lemma remove_one_length s : forall o j, o <= j < o + length s ->
  length (remove_axes_from o [j] s) = length s - 1.
Proof.
  induction s as [|d s IH]; intros o j H; simpl in *; [lia|].
  rewrite orb_false_r. destruct (o =? j) eqn:E.
  - apply Nat.eqb_eq in E. subst.
    assert (G : forall s' o', j < o' -> remove_axes_from o' [j] s' = s').
    { induction s' as [|x s' IHs]; intros o' Ho; [reflexivity|]. simpl. rewrite orb_false_r.
      replace (o' =? j) with false by (symmetry; apply Nat.eqb_neq; lia). now rewrite IHs by lia. }
    rewrite G by lia. lia.
  - apply Nat.eqb_neq in E. simpl. rewrite IH by lia. lia.
Qed.

Lemma merge_two s : forall o k x y i j,
  o <= i -> i < j -> j < o + length s -> length k + 2 = length s ->
  merge_idx o [i; j] s k [x; y] =
  merge_idx o [j] s (merge_idx o [i] (remove_axes_from o [j] s) k [x]) [y].
Proof.
  induction s as [|d s IH]; intros o k x y i j Hi Hij Hj Lk; simpl in Hj, Lk; [lia|].
  cbn [merge_idx remove_axes_from]. rewrite memb2, !memb1.
  replace (o =? j) with false by (symmetry; apply Nat.eqb_neq; lia). rewrite orb_false_r.
  destruct (o =? i) eqn:E.
  - apply Nat.eqb_eq in E. subst o. cbn [merge_idx]. rewrite memb1, Nat.eqb_refl.
    rewrite merge_none by (try lia; rewrite remove_one_length by lia; lia).
    cbn [merge_idx]. rewrite ?memb1.
    try replace (i =? j) with false by (symmetry; apply Nat.eqb_neq; lia).
    rewrite merge_skip_small by lia. reflexivity.
  - apply Nat.eqb_neq in E. destruct k as [|k0 k]; [simpl in Lk; lia|].
    cbn [merge_idx]. rewrite ?memb1.
    try replace (o =? i) with false by (symmetry; apply Nat.eqb_neq; lia).
    try replace (o =? j) with false by (symmetry; apply Nat.eqb_neq; lia).
    rewrite (IH (S o) k x y i j) by (simpl in Lk; lia). reflexivity.
Qed.

Lemma select_none s : forall o j, j < o -> select_axes_from o [j] s = [].
Proof.
  induction s as [|d s IH]; intros o j H; [reflexivity|]. cbn [select_axes_from]. rewrite memb1.
  replace (o =? j) with false by (symmetry; apply Nat.eqb_neq; lia). apply IH. lia.
Qed.

Lemma select_one s : forall o j, o <= j < o + length s -> select_axes_from o [j] s = [nth (j - o) s 0].
Proof.
  induction s as [|d s IH]; intros o j H; simpl in H; [lia|]. cbn [select_axes_from]. rewrite memb1.
  destruct (o =? j) eqn:E.
  - apply Nat.eqb_eq in E. subst. rewrite Nat.sub_diag, select_none by lia. reflexivity.
  - apply Nat.eqb_neq in E. rewrite IH by lia. replace (j - o) with (S (j - S o)) by lia. reflexivity.
Qed.

Lemma select_two s : forall o i j, o <= i -> i < j -> j < o + length s ->
  select_axes_from o [i; j] s = [nth (i - o) s 0; nth (j - o) s 0].
Proof.
  induction s as [|d s IH]; intros o i j Hi Hij Hj; simpl in Hj; [lia|]. cbn [select_axes_from]. rewrite memb2.
  replace (o =? j) with false by (symmetry; apply Nat.eqb_neq; lia). rewrite orb_false_r.
  destruct (o =? i) eqn:E.
  - apply Nat.eqb_eq in E. subst.
    assert (G : forall s' o', i < o' -> select_axes_from o' [i; j] s' = select_axes_from o' [j] s').
    { induction s' as [|x s' IHs]; intros o' Ho; [reflexivity|]. cbn [select_axes_from]. rewrite memb2, memb1.
      replace (o' =? i) with false by (symmetry; apply Nat.eqb_neq; lia). cbn [orb].
      destruct (o' =? j); now rewrite IHs by lia. }
    rewrite G, select_one, Nat.sub_diag by lia. replace (j - i) with (S (j - S i)) by lia. reflexivity.
  - apply Nat.eqb_neq in E. rewrite IH by lia.
    replace (i - o) with (S (i - S o)) by lia. replace (j - o) with (S (j - S o)) by lia. reflexivity.
Qed.

Lemma nth_remove_later s : forall o i j, o <= i -> i < j ->
  nth (i - o) (remove_axes_from o [j] s) 0 = nth (i - o) s 0.
Proof.
  induction s as [|d s IH]; intros o i j Hi Hij; [reflexivity|]. cbn [remove_axes_from]. rewrite memb1.
  replace (o =? j) with false by (symmetry; apply Nat.eqb_neq; lia).
  destruct (i - o) as [|m] eqn:E; [reflexivity|]. cbn [nth].
  replace m with (i - S o) by lia. apply IH; lia.
Qed.

Lemma remove_two s : forall o i j, o <= i -> i < j ->
  remove_axes_from o [i; j] s = remove_axes_from o [i] (remove_axes_from o [j] s).
Proof.
  induction s as [|d s IH]; intros o i j Hi Hij; [reflexivity|]. cbn [remove_axes_from]. rewrite memb2, !memb1.
  replace (o =? j) with false by (symmetry; apply Nat.eqb_neq; lia). rewrite orb_false_r.
  cbn [remove_axes_from]. rewrite memb1. destruct (o =? i) eqn:E.
  - apply Nat.eqb_eq in E. subst.
    assert (G : forall s' o', i < o' -> remove_axes_from o' [i; j] s' = remove_axes_from o' [j] s').
    { induction s' as [|x s' IHs]; intros o' Ho; [reflexivity|]. cbn [remove_axes_from]. rewrite memb2, memb1.
      replace (o' =? i) with false by (symmetry; apply Nat.eqb_neq; lia). cbn [orb].
      destruct (o' =? j); now rewrite IHs by lia. }
    assert (G2 : forall s' o', i < o' -> remove_axes_from o' [i] s' = s').
    { induction s' as [|x s' IHs]; intros o' Ho; [reflexivity|]. cbn [remove_axes_from]. rewrite memb1.
      replace (o' =? i) with false by (symmetry; apply Nat.eqb_neq; lia). now rewrite IHs by lia. }
    rewrite G, G2 by lia. reflexivity.
  - apply Nat.eqb_neq in E. rewrite IH by lia. reflexivity.
Qed.

Lemma indices_one d : indices [d] = map (fun y => [y]) (seq 0 d).
Proof.
  simpl. induction (seq 0 d) as [|y l IH]; simpl; [reflexivity|]. now rewrite IH.
Qed.

Lemma indices_two di dj : indices [di; dj] = flat_map (fun x => map (cons x) (indices [dj])) (seq 0 di).
Proof. reflexivity. Qed.

Section Compose.
Variable V : Type.
Variable f : list V -> V.
Hypothesis f_concat : forall ls : list (list V), f (concat ls) = f (map f ls).

Theorem reduce_pair_is_composition (a : arr V) i j :
  i < j -> j < length (shape V a) ->
  shape V (reduce_arr V f [i; j] a) = shape V (reduce_arr V f [i] (reduce_arr V f [j] a)) /\
  forall k, length k + 2 = length (shape V a) ->
    dat V (reduce_arr V f [i; j] a) k = dat V (reduce_arr V f [i] (reduce_arr V f [j] a)) k.
Proof.
  intros Hij Hj. unfold reduce_arr. cbn [shape dat]. unfold remove_axes. split.
  - apply remove_two; lia.
  - intros k Lk.
    rewrite (select_two (shape V a) 0 i j) by lia.
    rewrite (select_one (remove_axes_from 0 [j] (shape V a)) 0 i)
      by (rewrite remove_one_length by lia; lia).
    rewrite (select_one (shape V a) 0 j) by lia.
    rewrite !Nat.sub_0_r. rewrite <- (Nat.sub_0_r i) at 2. rewrite nth_remove_later by lia. rewrite Nat.sub_0_r.
    set (di := nth i (shape V a) 0). set (dj := nth j (shape V a) 0).
    rewrite indices_two, !indices_one.
    rewrite map_flat_map. rewrite flat_map_concat_map, f_concat, !map_map.
    f_equal. apply map_ext. intros x. rewrite !map_map. f_equal. apply map_ext. intros y.
    rewrite merge_two by lia. reflexivity.
Qed.
End Compose.

(* non-vacuity: integer summation distributes over concatenation, so np.sum over (i, j) is the
   sum over j followed by the sum over i *)
From Coq Require Import ZArith.
Definition zsum (l : list Z) : Z := fold_right Z.add 0%Z l.
Lemma zsum_app l1 l2 : zsum (l1 ++ l2) = (zsum l1 + zsum l2)%Z.
Proof. induction l1; simpl; [reflexivity|]. rewrite IHl1. lia. Qed.
Example zsum_concat (ls : list (list Z)) : zsum (concat ls) = zsum (map zsum ls).
Proof. induction ls; simpl; [reflexivity|]. now rewrite zsum_app, IHls. Qed.

Corollary sum_pair_is_composition_Z (a : arr Z) i j :
  i < j -> j < length (shape Z a) ->
  forall k, length k + 2 = length (shape Z a) ->
    dat Z (reduce_arr Z zsum [i; j] a) k = dat Z (reduce_arr Z zsum [i] (reduce_arr Z zsum [j] a)) k.
Proof. intros Hij Hj. exact (proj2 (reduce_pair_is_composition Z zsum zsum_concat a i j Hij Hj)). Qed.

(* ---- the reducers the correspondence case files actually use: rational sum and product ---- *)
From Coq Require Import QArith.
From EFModel Require Import C12_FeQ.

Lemma Qplus_assoc_leibniz (x y z : Q) : Qplus x (Qplus y z) = Qplus (Qplus x y) z.
Proof.
  destruct x as [xn xd], y as [yn yd], z as [zn zd]. unfold Qplus. simpl.
  rewrite !Pos2Z.inj_mul, Pos.mul_assoc. f_equal. ring.
Qed.
Lemma Qplus_0_l_leibniz (x : Q) : Qplus 0 x = x.
Proof. destruct x as [xn xd]. unfold Qplus. simpl. f_equal. destruct xn; reflexivity || (simpl; now rewrite Pos.mul_1_r). Qed.

Lemma Qmult_assoc_leibniz (x y z : Q) : Qmult x (Qmult y z) = Qmult (Qmult x y) z.
Proof.
  destruct x as [xn xd], y as [yn yd], z as [zn zd]. unfold Qmult. simpl.
  now rewrite Z.mul_assoc, Pos.mul_assoc.
Qed.
Lemma Qmult_1_l_leibniz (x : Q) : Qmult 1 x = x.
Proof. destruct x as [xn xd]. unfold Qmult. simpl. f_equal. now destruct xn. Qed.

Lemma qred_sum_app l1 l2 : qred 0%nat (l1 ++ l2) = Qplus (qred 0%nat l1) (qred 0%nat l2).
Proof.
  induction l1 as [|x l1 IH]; simpl in *; [now rewrite Qplus_0_l_leibniz|].
  now rewrite IH, Qplus_assoc_leibniz.
Qed.
Lemma qred_prod_app l1 l2 : qred 1%nat (l1 ++ l2) = Qmult (qred 1%nat l1) (qred 1%nat l2).
Proof.
  induction l1 as [|x l1 IH]; simpl in *; [now rewrite Qmult_1_l_leibniz|].
  now rewrite IH, Qmult_assoc_leibniz.
Qed.

Lemma qred_sum_concat (ls : list (list Q)) : qred 0%nat (concat ls) = qred 0%nat (map (qred 0%nat) ls).
Proof. induction ls as [|l ls IH]; [reflexivity|]. cbn [concat map]. rewrite qred_sum_app, IH. reflexivity. Qed.
Lemma qred_prod_concat (ls : list (list Q)) : qred 1%nat (concat ls) = qred 1%nat (map (qred 1%nat) ls).
Proof. induction ls as [|l ls IH]; [reflexivity|]. cbn [concat map]. rewrite qred_prod_app, IH. reflexivity. Qed.

(* np.sum / np.prod over a pair of axes, exactly as evaluated by the model in the case files
   (Leibniz equality of the unreduced rationals, not just Qeq) *)
Corollary qsum_qprod_pair_is_composition (a : arr Q) (i j : nat) :
  (i < j)%nat -> (j < length (shape Q a))%nat ->
  forall k, (length k + 2 = length (shape Q a))%nat ->
    dat Q (reduce_arr Q (qred 0%nat) [i; j] a) k = dat Q (reduce_arr Q (qred 0%nat) [i] (reduce_arr Q (qred 0%nat) [j] a)) k /\
    dat Q (reduce_arr Q (qred 1%nat) [i; j] a) k = dat Q (reduce_arr Q (qred 1%nat) [i] (reduce_arr Q (qred 1%nat) [j] a)) k.
Proof.
  intros Hij Hj k Hk. split.
  - exact (proj2 (reduce_pair_is_composition Q (qred 0%nat) qred_sum_concat a i j Hij Hj) k Hk).
  - exact (proj2 (reduce_pair_is_composition Q (qred 1%nat) qred_prod_concat a i j Hij Hj) k Hk).
Qed.
