(* C20 — the expression language into which translator/C20_energy.py translates the body of
   _Simu.Calc_Energy, its semantics (numpy fancy indexing on the owned dofs), and the statement
   that a translated body is the "OWNED ROWS x FULL VECTOR" form that C20_energy_sum(_fixed_general)
   is about:   c * sum_{n in dofs} x_n * sum_{m in all} A_nm x_m .                                  *)
From Coq Require Import List Arith Bool QArith Qreals Reals Lra.
Import ListNotations.
Close Scope Q_scope.
Open Scope R_scope.

Inductive mexpr := MA | MRows (m : mexpr) | MCols (m : mexpr).
Inductive vexpr := VX | VRestr (v : vexpr) | VMatVec (m : mexpr) (v : vexpr) | VScale (c : Q) (v : vexpr).
Inductive sexpr := EDot (a b : vexpr) | EScale (c : Q) (e : sexpr).

(* index sets: the whole dof range or the owned dofs *)
Inductive shape := SFull | SOwned.
Definition shape_eqb (a b : shape) : bool :=
  match a, b with SFull, SFull | SOwned, SOwned => true | _, _ => false end.

Section Sem.
  Variable A : nat -> nat -> R.
  Variable x : nat -> R.
  Variables all dofs : list nat.
  Definition idx (s : shape) : list nat := match s with SFull => all | SOwned => dofs end.
  Definition Rsum (l : list R) : R := fold_right Rplus 0 l.

  (* a matrix expression denotes A restricted to (rows, cols); indexing an already restricted axis
     again is not accepted (numpy would index positions, not dof numbers) *)
  Fixpoint mshape (m : mexpr) : option (shape * shape) :=
    match m with
    | MA => Some (SFull, SFull)
    | MRows m' => match mshape m' with Some (SFull, c) => Some (SOwned, c) | _ => None end
    | MCols m' => match mshape m' with Some (r, SFull) => Some (r, SOwned) | _ => None end
    end.

  (* a vector expression denotes (index set, values by dof number) *)
  Fixpoint vsem (v : vexpr) : option (shape * (nat -> R)) :=
    match v with
    | VX => Some (SFull, x)
    | VRestr v' => match vsem v' with Some (SFull, f) => Some (SOwned, f) | _ => None end
    | VMatVec m v' =>
        match mshape m, vsem v' with
        | Some (r, c), Some (s, f) =>
            if shape_eqb c s then Some (r, fun n => Rsum (map (fun k => A n k * f k) (idx c))) else None
        | _, _ => None
        end
    | VScale c v' => match vsem v' with Some (s, f) => Some (s, fun n => Q2R c * f n) | None => None end
    end.

  Fixpoint ssem (e : sexpr) : option R :=
    match e with
    | EDot a b =>
        match vsem a, vsem b with
        | Some (s, f), Some (t, g) =>
            if shape_eqb s t then Some (Rsum (map (fun n => f n * g n) (idx s))) else None
        | _, _ => None
        end
    | EScale c e' => match ssem e' with Some r => Some (Q2R c * r) | None => None end
    end.

  (* the form the energy theorems are about *)
  Definition owned_rows_full_vector (c : R) : R :=
    c * Rsum (map (fun n => x n * Rsum (map (fun m => A n m * x m) all)) dofs).
  (* the block form (coupling of owned rows to non-owned dofs dropped) *)
  Definition owned_block (c : R) : R :=
    c * Rsum (map (fun n => x n * Rsum (map (fun m => A n m * x m) dofs)) dofs).

  Lemma Rsum_scal c (f : nat -> R) l : Rsum (map (fun n => c * f n) l) = c * Rsum (map f l).
  Proof. induction l; simpl; [lra|]. rewrite IHl. lra. Qed.
End Sem.

(* normal form of an accepted body: which index sets it sums over *)
Definition is_owned_rows_full_vector (e : sexpr) : bool :=
  match e with
  | EDot (VScale _ (VRestr VX)) (VMatVec (MRows MA) VX) => true
  | EScale _ (EDot (VRestr VX) (VMatVec (MRows MA) VX)) => true
  | EDot (VRestr VX) (VScale _ (VMatVec (MRows MA) VX)) => true
  | _ => false
  end.
Definition scale_of (e : sexpr) : Q :=
  match e with
  | EDot (VScale c _) _ => c
  | EScale c _ => c
  | EDot _ (VScale c _) => c
  | _ => 0%Q
  end.

Theorem owned_rows_full_vector_sound e : is_owned_rows_full_vector e = true ->
  forall A x all dofs, ssem A x all dofs e = Some (owned_rows_full_vector A x all dofs (Q2R (scale_of e))).
Proof.
  intros H A x all dofs. unfold owned_rows_full_vector.
  destruct e as [a b|c e]; simpl in H.
  - destruct a as [| a | |c a]; try discriminate.
    + (* EDot (VRestr VX) (VScale c (VMatVec ...)) *)
      destruct a; try discriminate. destruct b as [| | |c b]; try discriminate.
      destruct b as [| |m v|]; try discriminate. destruct m as [|m|]; try discriminate.
      destruct m; try discriminate. destruct v; try discriminate.
      simpl. f_equal. rewrite <- Rsum_scal. f_equal. apply map_ext. intros n. lra.
    + destruct a as [|a| |]; try discriminate. destruct a; try discriminate.
      destruct b as [| |m v|]; try discriminate. destruct m as [|m|]; try discriminate.
      destruct m; try discriminate. destruct v; try discriminate.
      simpl. f_equal. rewrite <- Rsum_scal. f_equal. apply map_ext. intros n. lra.
  - destruct e as [a b|]; try discriminate. destruct a as [|a| |]; try discriminate.
    destruct a; try discriminate. destruct b as [| |m v|]; try discriminate.
    destruct m as [|m|]; try discriminate. destruct m; try discriminate. destruct v; try discriminate.
    simpl. reflexivity.
Qed.

(* the block form x_owned @ (A[dofs][:, dofs] @ x_owned) is accepted by the language but is NOT the
   owned-rows x full-vector form, and the two differ *)
Definition block_variant : sexpr := EScale (1#2) (EDot (VRestr VX) (VMatVec (MCols (MRows MA)) (VRestr VX))).

Theorem block_variant_refuted :
  is_owned_rows_full_vector block_variant = false /\
  let A := fun n m : nat => if Nat.eqb n m then 0 else 1 in
  let x := fun _ : nat => 1 in
  ssem A x [0%nat; 1%nat] [0%nat] block_variant = Some (owned_block A x [0%nat] (Q2R (1#2))) /\
  owned_block A x [0%nat] (Q2R (1#2)) <> owned_rows_full_vector A x [0%nat; 1%nat] [0%nat] (Q2R (1#2)).
Proof.
  split; [reflexivity|]. simpl. split; [reflexivity|].
  unfold owned_block, owned_rows_full_vector, Rsum, Q2R. simpl. lra.
Qed.
