(* C19_Tangent.v — the consistent tangent of the spectral return, 1-D radial case.

   _spectral.Tangent returns (translated: Gen_C19.v gen_tan_diag / gen_tan_a / gen_tan_b)
        C_alg = T [ diag(d) + a (x) b ] Ti C ,
        a_i = dtheta * (-(lam_i y_i) d_i^2),  dtheta = -(1 - theta*slope) / drdtheta,
        b_j = (lam_j y_j) d_j^2 / phi
   For ONE eigen-pair (lam, y), y > 0, linear hardening R = H p and no rate law, the returned
   eigen-stress as a function of the trial eigen-stress y is  s(y) = y / (1 + lam theta*(y)),
   theta* the unique root (C19_Radial).  Theorem: s is differentiable and  ds/dy = d + a b  =
   H / (H + lam)  -- the returned tangent core IS the derivative of the returned stress. *)
From Coquelicot Require Import Coquelicot.
From Coq Require Import Reals List Lra Bool Psatz.
From EFModel Require Import C19_Return1D C19_Return1D_proofs C19_Radial.
Import List ListNotations.
Open Scope R_scope.

(* hand transcription of the two rank-one factors (checked against the source in C19_main.v) *)
Definition tan_a (lam y d theta slope drdtheta : R) (active : bool) : R :=
  (- (1 - theta * slope)) / (if active then drdtheta else 1) * (- ((lam * y) * (d * d))).
Definition tan_b (lam y d phi : R) : R :=
  ((lam * y) * (d * d)) / (if Rltb 0 phi then phi else 1).
Definition tan_core_1d (lam y d theta slope drdtheta phi : R) (active : bool) : R :=
  d + tan_a lam y d theta slope drdtheta active * tan_b lam y d phi.

Section Tangent1D.
  Variable lam H sy dt p : R.
  Hypothesis Hlam : 0 < lam.
  Hypothesis HH : 0 <= H.
  Hypothesis HK : 0 < sy + H * p.

  Let a := sqrt lam.
  Lemma a_pos : 0 < a. Proof. apply sqrt_lt_R0; exact Hlam. Qed.
  Lemma a_sq : a * a = lam. Proof. apply sqrt_sqrt; lra. Qed.

  Definition ps1 (y : R) : list (R * R) := [(lam, y)].
  Lemma ps1_uniform : forall y, uniform lam (ps1 y).
  Proof. intro y. unfold uniform, ps1. apply Forall_cons; [left; reflexivity | apply Forall_nil]. Qed.

  Lemma phi0_1d : forall y, 0 < y -> phi Rops (ps1 y) 0 = a * y.
  Proof.
    intros y Hy. rewrite phi_eq. unfold ps1. cbn [sumw fst snd]. rewrite wterm_eq, dfac_eq.
    change (oadd Rops) with Rplus. change (o0 Rops) with 0.
    replace (lam * (y * y) * (1 / (1 + 0 * lam) * (1 / (1 + 0 * lam))) + 0) with ((a * y) * (a * y))
      by (rewrite <- a_sq; field).
    pose proof a_pos. rewrite Rmax_left by nra. apply sqrt_square. nra.
  Qed.

  (* the returned eigen-stress, through the model's own definitions *)
  Definition theta_of (y : R) : R := theta_star lam H sy (ps1 y) p.
  Definition s_of (y : R) : R := nth 0 (sig_eig Rops (ps1 y) (theta_of y)) 0.

  Lemma theta_of_eq : forall y, 0 < y ->
      theta_of y = (a * y - sy - H * p) / (H * (a * y) + lam * (sy + H * p)).
  Proof. intros y Hy. unfold theta_of, theta_star, Ac, Bc. rewrite phi0_1d by assumption. reflexivity. Qed.

  Lemma s_of_closed : forall y, 0 < y -> s_of y = (H * a * y + lam * (sy + H * p)) / (a * (H + lam)).
  Proof.
    intros y Hy. unfold s_of, sig_eig, ps1. cbn [map nth fst snd]. rewrite dfac_eq.
    change (omul Rops) with Rmult. fold (ps1 y). rewrite theta_of_eq by assumption.
    pose proof a_pos as Ha. pose proof a_sq as Hs.
    set (B := H * (a * y) + lam * (sy + H * p)).
    assert (HB : 0 < B).
    { unfold B. pose proof (Rmult_lt_0_compat _ _ Hlam HK).
      pose proof (Rmult_le_pos _ _ HH (Rlt_le _ _ (Rmult_lt_0_compat _ _ Ha Hy))). lra. }
    assert (HHl : 0 < H + lam) by lra.
    assert (Hden : 1 + (a * y - sy - H * p) / B * lam = a * y * (H + lam) / B).
    { unfold B. field. fold B. lra. }
    rewrite Hden. unfold B in *. clear Hden. field. repeat split; try lra; try nra.
  Qed.

  (* ds/dy = H / (H + lam) *)
  Theorem radial_1d_derivative : forall y0, 0 < y0 -> is_derive s_of y0 (H / (H + lam)).
  Proof.
    intros y0 Hy0.
    apply is_derive_ext_loc with (f := fun y => (H * a * y + lam * (sy + H * p)) / (a * (H + lam))).
    - exists (mkposreal y0 Hy0). intros y Hb. symmetry. apply s_of_closed.
      unfold ball in Hb; simpl in Hb. unfold AbsRing_ball, abs, minus, plus, opp in Hb; simpl in Hb.
      apply Rabs_def2 in Hb. lra.
    - pose proof a_pos. auto_derive; [exact I|]. field. split; lra.
  Qed.

  (* ... and that is what the returned tangent core evaluates to at the converged state *)
  Theorem radial_1d_tangent_value : forall y0, 0 < y0 -> 0 < Ac H sy (ps1 y0) p ->
      let th := theta_of y0 in
      let dd := dfac Rops th lam in
      tan_core_1d lam y0 dd th H (drdth Rops (fun _ => H) None dt (mkPoint (ps1 y0) p) th)
                  (phi Rops (ps1 y0) th) true
      = H / (H + lam).
  Proof.
    intros y0 Hy0 HA th dd.
    pose proof a_pos as Ha. pose proof a_sq as Hs.
    assert (Hphi0 : 0 < phi Rops (ps1 y0) 0) by (rewrite phi0_1d by assumption; nra).
    assert (Hth : 0 <= th).
    { subst th. unfold theta_of. left. apply (theta_star_pos lam H sy (ps1 y0) p); try assumption. }
    rewrite (drdth_uniform lam H sy dt (ps1 y0) p (ps1_uniform y0) Hlam Hphi0 th Hth).
    rewrite (phi_uniform lam (ps1 y0) 0 (ps1_uniform y0) Hlam th Hth).
    rewrite (Dc_eq lam H sy (ps1 y0) p). rewrite phi0_1d by assumption. fold dd.
    assert (Hd : 0 < dd) by (subst dd; apply (d_pos lam Hlam); assumption).
    assert (Hpos : 0 < a * y0 * dd) by (apply Rmult_lt_0_compat; nra).
    unfold tan_core_1d, tan_a, tan_b.
    destruct (Rltb 0 (a * y0 * dd)) eqn:E; [|apply Rltb_false in E; contradiction].
    (* 1/dd = 1 + th*lam *)
    assert (Hdd : dd * (1 + th * lam) = 1).
    { subst dd. rewrite dfac_eq. pose proof (den_pos lam Hlam th Hth). field. lra. }
    assert (Hone : 1 + th * lam = / dd) by (apply (Rmult_eq_reg_l dd); [rewrite Hdd; field; lra | lra]).
    assert (Hthl : th * lam = / dd - 1) by lra.
    assert (0 < H + lam) by lra.
    rewrite <- Hs at 1 2 3.
    (* eliminate th through th*lam = 1/dd - 1 *)
    replace (- (1 - th * H)) with (- (1 - (th * (a * a)) * H / (a * a))) by (field; nra).
    rewrite Hs. rewrite Hthl. rewrite <- Hs. field. repeat split; nra.
  Qed.

  (* C19 tangent_is_derivative_1d *)
  Theorem tangent_is_derivative_1d : forall y0, 0 < y0 -> 0 < Ac H sy (ps1 y0) p ->
      let th := theta_of y0 in
      is_derive s_of y0
        (tan_core_1d lam y0 (dfac Rops th lam) th H
                     (drdth Rops (fun _ => H) None dt (mkPoint (ps1 y0) p) th)
                     (phi Rops (ps1 y0) th) true).
  Proof.
    intros y0 Hy0 HA th. subst th. rewrite (radial_1d_tangent_value y0 Hy0 HA).
    apply radial_1d_derivative. exact Hy0.
  Qed.
End Tangent1D.

(* non-vacuity: lam = 1, H = 1, sy = 1, p = 0, y0 = 2 : phi0 = 2, A = 1 > 0 *)
Example tangent_hypotheses_satisfiable : 0 < 1 /\ 0 <= 1 /\ 0 < 1 + 1 * 0 /\ 0 < 2 /\ 0 < Ac 1 1 (ps1 1 2) 0.
Proof.
  repeat split; try lra. unfold Ac.
  rewrite (phi0_1d 1 Rlt_0_1 2) by lra. rewrite sqrt_1. lra.
Qed.
