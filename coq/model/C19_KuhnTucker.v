(* C19_KuhnTucker.v — the discrete Kuhn-Tucker (loading/unloading) conditions at the state the
   spectral return hands back, for EVERY eigen-structure (any eigen-pairs, any hardening
   functions, any number of Gauss points, every iteration budget):

       dGamma >= 0                                   plastic multiplier increment
       dGamma > 0  ->  f_trial > 0                   flow only if the trial state violates the yield condition
       f_trial <= 0 -> dGamma = 0, p unchanged, f(sigma_new) = f_trial <= 0      elastic step
       and, rate-independent, if the loop left through its break test:
       f(sigma_new, p_new) <= tol*sigma_y            admissibility
       |dGamma * f(sigma_new, p_new)| <= dGamma * tol*sigma_y                    complementarity

   f(sigma_new, p_new) is the yield function evaluated on the RETURNED eigen-stress and p
   (f_new); that it equals the residual of the scalar equation is resid_eq / quad_of_return, and
   the residual / break test are the translated source formulas (C19_main.v part A). *)
From Coquelicot Require Import Coquelicot.
From Coq Require Import Reals List Lra Bool.
From EFModel Require Import C19_Return1D C19_Return1D_proofs.
Import List ListNotations.
Open Scope R_scope.

Section KuhnTucker.
  Variable Rh dRh : R -> R.
  Variable dt sy tol : R.
  Variable start : R -> R -> R.
  Hypothesis start_nonneg : forall p0 f, 0 <= start p0 f.

  (* for any rate law: sign of the multiplier and loading/unloading *)
  Theorem kuhn_tucker_flow : forall rate maxIter pts,
      Forall (fun q =>
                let pt := st_pt q in let th := st_th q in
                0 <= dGam Rops pt th /\
                (0 < dGam Rops pt th -> 0 < ftrial Rops Rh sy pt) /\
                (ftrial Rops Rh sy pt <= 0 ->
                 dGam Rops pt th = 0 /\ p_new Rops pt th = pOld pt /\
                 f_new Rh sy pt th = ftrial Rops Rh sy pt))
             (solve Rops Rh dRh rate dt sy tol start maxIter pts).
  Proof.
    intros rate n pts.
    pose proof (solve_good Rh dRh rate dt sy tol start start_nonneg n pts) as Hg.
    pose proof (dgamma_nonneg Rh dRh rate dt sy tol start start_nonneg n pts) as Hd.
    pose proof (idle_points_return_trial Rh dRh rate dt sy tol start start_nonneg n pts) as Hi.
    rewrite Forall_forall in *. intros q Hin. cbv zeta.
    destruct (Hg q Hin) as [Ha [Hth Hidle]]. destruct (Hd q Hin) as [Hd0 _]. specialize (Hi q Hin).
    assert (Hact : st_act q = false -> ftrial Rops Rh sy (st_pt q) <= 0).
    { intro Hf. rewrite Ha in Hf. unfold active in Hf. apply Rltb_false in Hf.
      change (o0 Rops) with 0 in Hf. lra. }
    assert (Hact' : ftrial Rops Rh sy (st_pt q) <= 0 -> st_act q = false).
    { intro Hle. rewrite Ha. unfold active. apply Rltb_false. change (o0 Rops) with 0. lra. }
    split; [exact Hd0|]. split.
    - intro Hpos. destruct (st_act q) eqn:E.
      + symmetry in Ha. unfold active in Ha. apply Rltb_true in Ha. exact Ha.
      + destruct (Hi eq_refl) as [_ [_ [Hz _]]]. lra.
    - intro Hle. destruct (Hi (Hact' Hle)) as [Hth0 [_ [Hz [Hp _]]]].
      split; [exact Hz|]. split; [exact Hp|].
      (* f_new at theta = 0 is the trial value *)
      rewrite Hth0. unfold f_new. rewrite phi_of_returned_stress. rewrite p_new_eq, dGam_eq.
      unfold ftrial. change (osub Rops) with Rminus. change (o0 Rops) with 0.
      replace (pOld (st_pt q) + 0 * phi Rops (pairs (st_pt q)) 0) with (pOld (st_pt q)) by ring.
      reflexivity.
  Qed.

  (* rate-independent: admissibility and complementarity at break-exit *)
  Theorem kuhn_tucker_admissible : forall maxIter pts, 0 <= tol * sy ->
      let st := solve Rops Rh dRh None dt sy tol start maxIter pts in
      exit_small Rops Rh None dt sy tol st = true ->
      Forall (fun q =>
                let pt := st_pt q in let th := st_th q in
                f_new Rh sy pt th <= tol * sy /\
                Rabs (dGam Rops pt th * f_new Rh sy pt th) <= dGam Rops pt th * (tol * sy))
             st.
  Proof.
    intros n pts Htol st Hex.
    pose proof (converged_on_surface Rh dRh dt sy tol start start_nonneg n pts Htol Hex) as Hc.
    pose proof (kuhn_tucker_flow None n pts) as Hk.
    fold st in Hc, Hk. rewrite Forall_forall in *. intros q Hin. cbv zeta.
    destruct (Hc q Hin) as [Hf Hact]. destruct (Hk q Hin) as [Hd0 [Hpos Hel]]. cbv zeta in *.
    split; [exact Hf|].
    destruct (Rle_lt_or_eq_dec _ _ Hd0) as [Hlt | Heq].
    - (* dGamma > 0: the point is active, so |f| < tol*sy *)
      pose proof (solve_good Rh dRh None dt sy tol start start_nonneg n pts) as Hg. fold st in Hg.
      rewrite Forall_forall in Hg. destruct (Hg q Hin) as [Ha _].
      assert (Et : st_act q = true).
      { rewrite Ha. unfold active. apply Rltb_true. apply Hpos. exact Hlt. }
      specialize (Hact Et). rewrite Rabs_mult, (Rabs_right (dGam Rops (st_pt q) (st_th q))) by lra.
      apply Rmult_le_compat_l; lra.
    - rewrite <- Heq. rewrite !Rmult_0_l, Rabs_R0. lra.
  Qed.
End KuhnTucker.
