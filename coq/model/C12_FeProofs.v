(* C12_FeProofs.v — proofs about the hand-written FeArray model (C12_FeShape / C12_FeTensor).
   Everything is for lists of arbitrary length (all ranks, all sizes): induction, no bound. *)
From Coq Require Import List Arith Bool ZArith Lia ZifyBool.
From EFModel Require Import C12_FeShape C12_FeTensor.
Import ListNotations.

(* ==================================================================================== *)
(* 1. numpy broadcasting of shapes                                                      *)
(* ==================================================================================== *)
Lemma bdim_1_r a : bdim a 1 = Some a.
Proof. unfold bdim. destruct (a =? 1) eqn:E; [apply Nat.eqb_eq in E; subst|]; reflexivity. Qed.

Lemma bdim_1_l b : bdim 1 b = Some b.
Proof.
  unfold bdim. destruct (1 =? b) eqn:E.
  - apply Nat.eqb_eq in E; subst; reflexivity.
  - reflexivity.
Qed.

Lemma bdim_refl a : bdim a a = Some a.
Proof. unfold bdim. now rewrite Nat.eqb_refl. Qed.

Lemma bdim_comm a b : bdim a b = bdim b a.
Proof.
  unfold bdim. rewrite (Nat.eqb_sym b a).
  destruct (a =? b) eqn:E.
  - apply Nat.eqb_eq in E; now subst.
  - destruct (a =? 1) eqn:E1, (b =? 1) eqn:E2; try reflexivity.
    apply Nat.eqb_eq in E1, E2. subst. now rewrite Nat.eqb_refl in E.
Qed.

Lemma zip_bcast_comm s : forall t, zip_bcast s t = zip_bcast t s.
Proof.
  induction s as [|a s IH]; destruct t as [|b t]; simpl; try reflexivity.
  rewrite (bdim_comm a b), (IH t). reflexivity.
Qed.

Lemma np_bcast_comm s t : np_bcast s t = np_bcast t s.
Proof. unfold np_bcast. rewrite (Nat.max_comm (length s)). apply zip_bcast_comm. Qed.

Lemma zip_bcast_length s : forall t u, zip_bcast s t = Some u -> length u = length s /\ length u = length t.
Proof.
  induction s as [|a s IH]; destruct t as [|b t]; simpl; intros u H; try discriminate.
  - inversion H; auto.
  - destruct (bdim a b); try discriminate.
    destruct (zip_bcast s t) eqn:E; try discriminate.
    inversion H; subst. destruct (IH _ _ E). simpl. lia.
Qed.

Lemma lpad_length n s : length s <= n -> length (lpad n s) = n.
Proof. intros. unfold lpad. rewrite app_length, repeat_length. lia. Qed.

Lemma np_bcast_length s t u : np_bcast s t = Some u -> length u = Nat.max (length s) (length t).
Proof.
  unfold np_bcast. intros H. apply zip_bcast_length in H. destruct H as [H _].
  rewrite H. apply lpad_length. lia.
Qed.

Lemma zip_bcast_ones_r s : zip_bcast s (repeat 1 (length s)) = Some s.
Proof. induction s; simpl; [reflexivity|]. now rewrite bdim_1_r, IHs. Qed.

Lemma zip_bcast_ones_l s : zip_bcast (repeat 1 (length s)) s = Some s.
Proof. rewrite zip_bcast_comm. apply zip_bcast_ones_r. Qed.

Lemma lpad_id n s : n <= length s -> lpad n s = s.
Proof. intros. unfold lpad. replace (n - length s) with 0 by lia. reflexivity. Qed.

Lemma np_bcast_nil_r s : np_bcast s [] = Some s.
Proof.
  unfold np_bcast. simpl. rewrite Nat.max_0_r. rewrite lpad_id by lia.
  unfold lpad. simpl. rewrite Nat.sub_0_r, app_nil_r. apply zip_bcast_ones_r.
Qed.

Lemma np_bcast_nil_l s : np_bcast [] s = Some s.
Proof. rewrite np_bcast_comm. apply np_bcast_nil_r. Qed.

Lemma np_bcast_refl s : np_bcast s s = Some s.
Proof.
  unfold np_bcast. rewrite Nat.max_id, lpad_id by lia.
  induction s; simpl; [reflexivity|]. now rewrite bdim_refl, IHs.
Qed.

Lemma zip_bcast_app a : forall c b d, length a = length c ->
  zip_bcast (a ++ b) (c ++ d) =
  match zip_bcast a c, zip_bcast b d with Some u, Some v => Some (u ++ v) | _, _ => None end.
Proof.
  induction a as [|x a IH]; destruct c as [|y c]; simpl; intros b d H; try discriminate.
  - destruct (zip_bcast b d); reflexivity.
  - rewrite IH by lia. destruct (bdim x y); [|reflexivity].
    destruct (zip_bcast a c); [|reflexivity]. destruct (zip_bcast b d); reflexivity.
Qed.

(* the aligned shape of a field of tensor shape s against the widest rank n *)
Lemma pad_shape_fe n Ne nPg s : pad_shape n (Ne :: nPg :: s) = Ne :: nPg :: repeat 1 n ++ s.
Proof. reflexivity. Qed.

(* KEY SHAPE LEMMA: a field (leading axes l, |l| = 2, tensor shape s) padded to the widest rank
   broadcasts against ANY array t whose rank does not exceed that rank as
   (leading axes) ++ bcast(s, t): t can never reach the finite element axes.  No hypothesis
   relates the numbers in l, s and t. *)
Lemma np_bcast_fe_plain Ne nPg s t :
  let n := Nat.max (length s) (length t) in
  np_bcast (Ne :: nPg :: repeat 1 (n - length s) ++ s) t =
  option_map (fun u => Ne :: nPg :: u) (np_bcast s t).
Proof.
  intros n. unfold np_bcast at 1.
  assert (L : length (Ne :: nPg :: repeat 1 (n - length s) ++ s) = S (S n)).
  { simpl. rewrite app_length, repeat_length. subst n. lia. }
  rewrite L. replace (Nat.max (S (S n)) (length t)) with (S (S n)) by (subst n; lia).
  rewrite lpad_id by lia.
  unfold lpad at 1. replace (S (S n) - length t) with (S (S (n - length t))) by (subst n; lia).
  simpl. rewrite !bdim_1_r.
  unfold np_bcast. fold n. unfold lpad.
  destruct (zip_bcast (repeat 1 (n - length s) ++ s) (repeat 1 (n - length t) ++ t)); reflexivity.
Qed.

Lemma np_bcast_plain_fe Ne nPg s t :
  let n := Nat.max (length s) (length t) in
  np_bcast t (Ne :: nPg :: repeat 1 (n - length s) ++ s) =
  option_map (fun u => Ne :: nPg :: u) (np_bcast t s).
Proof.
  intros n. rewrite np_bcast_comm. subst n. rewrite np_bcast_fe_plain.
  now rewrite (np_bcast_comm s t).
Qed.

(* two fields of different tensor ranks: the leading axes broadcast among themselves and the
   tensor axes among themselves *)
Lemma np_bcast_fe_fe a b c d s t :
  let n := Nat.max (length s) (length t) in
  np_bcast (a :: b :: repeat 1 (n - length s) ++ s) (c :: d :: repeat 1 (n - length t) ++ t) =
  match np_bcast [a; b] [c; d], np_bcast s t with
  | Some l, Some u => Some (l ++ u)
  | _, _ => None
  end.
Proof.
  intros n. unfold np_bcast at 1.
  assert (L1 : length (a :: b :: repeat 1 (n - length s) ++ s) = S (S n)).
  { simpl. rewrite app_length, repeat_length. subst n. lia. }
  assert (L2 : length (c :: d :: repeat 1 (n - length t) ++ t) = S (S n)).
  { simpl. rewrite app_length, repeat_length. subst n. lia. }
  rewrite L1, L2, Nat.max_id, !lpad_id by lia.
  change (a :: b :: repeat 1 (n - length s) ++ s) with ([a; b] ++ (repeat 1 (n - length s) ++ s)).
  change (c :: d :: repeat 1 (n - length t) ++ t) with ([c; d] ++ (repeat 1 (n - length t) ++ t)).
  rewrite zip_bcast_app by reflexivity.
  unfold np_bcast. simpl length. simpl Nat.max. rewrite !lpad_id by (simpl; lia). fold n.
  reflexivity.
Qed.

(* ==================================================================================== *)
(* 2. index reads                                                                       *)
(* ==================================================================================== *)
Definition cl (d i : nat) : nat := if d =? 1 then 0 else i.

Lemma clip_cons d s i k : clip (d :: s) (i :: k) = cl d i :: clip s k.
Proof. reflexivity. Qed.

Lemma clip_length s : forall k, length s <= length k -> length (clip s k) = length s.
Proof.
  induction s; destruct k; simpl; intros; try lia. rewrite IHs; lia.
Qed.

(* on a valid index (i < d on every axis) clipping is the identity: a size-1 axis only has 0 *)
Lemma clip_valid s : forall k, Forall2 lt k s -> clip s k = k.
Proof.
  induction s as [|d s IH]; intros k H; inversion H; subst; simpl; [reflexivity|].
  rewrite IH by assumption. f_equal.
  destruct (d =? 1) eqn:E; [apply Nat.eqb_eq in E; lia | reflexivity].
Qed.

Lemma clip_ones_app j : forall s K, j <= length K ->
  clip (repeat 1 j ++ s) K = repeat 0 j ++ clip s (skipn j K).
Proof.
  induction j; intros s K H; simpl; [reflexivity|].
  destruct K as [|i K]; simpl in *; [lia|]. rewrite IHj by lia. reflexivity.
Qed.

Lemma skipn_repeat_app {A} (x : A) j l : skipn j (repeat x j ++ l) = l.
Proof. induction j; simpl; auto. Qed.

Lemma bidx_full s k : length k = length s -> bidx s k = clip s k.
Proof. intros H. unfold bidx. rewrite H, Nat.sub_diag. reflexivity. Qed.

Lemma bidx_nil k : bidx [] k = [].
Proof. unfold bidx. reflexivity. Qed.

(* reading a plain operand of rank <= |K| from the result index (e, p, K): the leading element
   and Gauss point indices are never used *)
Lemma bidx_skip_lead t e p K : length t <= length K -> bidx t (e :: p :: K) = bidx t K.
Proof.
  intros H. unfold bidx. simpl length.
  replace (S (S (length K)) - length t) with (S (S (length K - length t))) by lia.
  reflexivity.
Qed.

(* ==================================================================================== *)
(* 3. transposition                                                                     *)
(* ==================================================================================== *)
Lemma T_tensor_rev {A} (l : list A) : T_tensor l = rev l.
Proof.
  unfold T_tensor.
  destruct l as [|a [|b [|c l]]]; reflexivity.
Qed.

(* ==================================================================================== *)
(* 4. reducers                                                                          *)
(* ==================================================================================== *)
Lemma keeps_axis_spec a nd : keeps_axis a (Z.of_nat nd) = true <-> 2 <= norm_axis nd a.
Proof.
  unfold keeps_axis, norm_axis.
  destruct (a >=? 0)%Z eqn:E; destruct (a <? 0)%Z eqn:F; lia.
Qed.

Lemma keeps_fe_axes_spec l nd :
  keeps_fe_axes (Some l) (Z.of_nat nd) = true <-> Forall (fun a => 2 <= norm_axis nd a) l.
Proof.
  simpl. rewrite forallb_forall, Forall_forall.
  split; intros H a Ha; apply keeps_axis_spec, H, Ha.
Qed.

Lemma memb_In x l : memb x l = true <-> In x l.
Proof.
  induction l; simpl; [split; [discriminate|tauto]|].
  rewrite orb_true_iff, IHl, Nat.eqb_eq. split; intros [H|H]; auto.
Qed.

Lemma memb_small x l : Forall (fun a => x < a) l -> memb x l = false.
Proof.
  intros H. destruct (memb x l) eqn:E; [|reflexivity].
  apply memb_In in E. rewrite Forall_forall in H. apply H in E. lia.
Qed.

(* a reduction whose axes are all >= 2 leaves the leading (Ne, nPg) axes in place ... *)
Lemma remove_axes_keeps_lead axes Ne nPg s : Forall (fun a => 2 <= a) axes ->
  remove_axes axes (Ne :: nPg :: s) = Ne :: nPg :: remove_axes_from 2 axes s.
Proof.
  intros H. unfold remove_axes. simpl.
  rewrite !memb_small; [reflexivity| |]; eapply Forall_impl; try eassumption; simpl; intros; lia.
Qed.

(* ... and one that touches axis 0 or 1 does not *)
Lemma remove_axes_from_length i axes s : length (remove_axes_from i axes s) <= length s.
Proof. revert i; induction s; simpl; intros; [lia|]. destruct (memb i axes); simpl; specialize (IHs (S i)); lia. Qed.

Lemma remove_axes_drops_lead axes Ne nPg s : (In 0 axes \/ In 1 axes) ->
  length (remove_axes axes (Ne :: nPg :: s)) <= S (length s).
Proof.
  intros H. unfold remove_axes. simpl.
  destruct (memb 0 axes) eqn:E0; destruct (memb 1 axes) eqn:E1; simpl;
    pose proof (remove_axes_from_length 2 axes s); try lia.
  destruct H as [H|H]; apply memb_In in H; congruence.
Qed.

(* ==================================================================================== *)
(* 5. FeArray.broadcast classification                                                  *)
(* ==================================================================================== *)
Lemma list_eqb_eq a : forall b, list_eqb a b = true <-> a = b.
Proof.
  induction a; destruct b; simpl; try (split; [discriminate|discriminate]); try tauto.
  rewrite andb_true_iff, Nat.eqb_eq, IHa. split; [intros [-> ->]; reflexivity | intros H; inversion H; auto].
Qed.

Lemma list_eqb_refl a : list_eqb a a = true.
Proof. now apply list_eqb_eq. Qed.

Lemma list_eqb_length a b : length a <> length b -> list_eqb a b = false.
Proof.
  intros H. destruct (list_eqb a b) eqn:E; [|reflexivity]. apply list_eqb_eq in E. now subst.
Qed.

Lemma firstn_app_exact {A} (l1 l2 : list A) n : n = length l1 -> firstn n (l1 ++ l2) = l1.
Proof. intros ->. rewrite firstn_app, Nat.sub_diag, firstn_all. simpl. apply app_nil_r. Qed.

Lemma skipn_app_exact {A} (l1 l2 : list A) n : n = length l1 -> skipn n (l1 ++ l2) = l2.
Proof. intros ->. rewrite skipn_app, Nat.sub_diag, skipn_all. reflexivity. Qed.

(* with tensor_ndim = td > 0 declared, the class is decided by the NUMBER of leading axes
   (0, 1 or 2) and their values, never by the tensor axes: for every Ne, nPg and tail
   (including Ne = nPg = every entry of tail) *)
Lemma broadcast_class_td lead tail Ne nPg :
  0 < length tail ->
  broadcast_class (lead ++ tail) Ne nPg (length tail) =
    if list_eqb lead [Ne; nPg] then BFull
    else if list_eqb lead [Ne] then BPerElem
    else if list_eqb lead [] then BConst else BError.
Proof.
  intros H. unfold broadcast_class.
  destruct (0 <? length tail) eqn:E; [|apply Nat.ltb_ge in E; lia].
  rewrite app_length, Nat.add_sub, firstn_app_exact by reflexivity. reflexivity.
Qed.

(* ==================================================================================== *)
(* 6. values: elementwise operations                                                    *)
(* ==================================================================================== *)
Section Values.
Variable V : Type.
Variables (vzero vone : V) (vadd vmul : V -> V -> V) (vnonzero : V -> bool).
Variables (vbin : nat -> V -> V -> V) (vun : nat -> V -> V) (vred : nat -> list V -> V).
Variables (vdet : nat -> (nat -> nat -> V) -> V) (vinv : nat -> (nat -> nat -> V) -> nat -> nat -> V).

Notation arr := (arr V).
Notation shape := (shape V).
Notation dat := (dat V).

(* reading the rank-padded field at result index (e, p, K) = reading the field at (e, p) and
   at the tensor index K right-aligned on its own tensor shape *)
Lemma pad_read j (a : arr) Ne nPg s e p K :
  shape a = Ne :: nPg :: s -> length K = j + length s ->
  dat (pad_arr V j a) (bidx (Ne :: nPg :: repeat 1 j ++ s) (e :: p :: K)) =
  dat a (cl Ne e :: cl nPg p :: bidx s K).
Proof.
  intros Hs HK. unfold pad_arr. cbn [C12_FeTensor.shape C12_FeTensor.dat].
  rewrite bidx_full by (simpl; rewrite app_length, repeat_length; lia).
  rewrite !clip_cons, clip_ones_app by lia.
  cbn [firstn app]. change (2 + j) with (S (S j)). cbn [skipn].
  rewrite skipn_repeat_app.
  unfold bidx. replace (length K - length s) with j by lia. reflexivity.
Qed.

Lemma orank_plain (c : arr) : orank V (OPlain V c) = length (shape c).
Proof. reflexivity. Qed.

Lemma orank_fe (a : arr) Ne nPg s : shape a = Ne :: nPg :: s -> orank V (OFe V a) = length s.
Proof. intros H. unfold orank, oshape. simpl. rewrite H. simpl. lia. Qed.

(* ---- field (op) plain array ---- *)
Theorem elementwise_fe_plain op (a c : arr) Ne nPg s u :
  shape a = Ne :: nPg :: s -> np_bcast s (shape c) = Some u ->
  exists r, fe_ufunc2 V vbin op (OFe V a) (OPlain V c) = RFe V r /\
            shape r = Ne :: nPg :: u /\
            forall e p K, length K = length u ->
              dat r (e :: p :: K) =
              vbin op (dat a (cl Ne e :: cl nPg p :: bidx s K)) (dat c (bidx (shape c) K)).
Proof.
  intros Hs Hb. pose proof (np_bcast_length _ _ _ Hb) as Lu.
  unfold fe_ufunc2, align. cbn [map list_max].
  rewrite (orank_fe a Ne nPg s Hs), orank_plain. cbn [oarr].
  rewrite Nat.max_0_r. set (n := Nat.max (length s) (length (shape c))) in *.
  unfold ew2. cbn [C12_FeTensor.shape pad_arr].
  rewrite Hs, pad_shape_fe. subst n. rewrite np_bcast_fe_plain, Hb. cbn [option_map is_fe orb].
  eexists. split; [reflexivity|]. split; [reflexivity|].
  intros e p K HK. cbn [C12_FeTensor.dat].
  rewrite (pad_read (Nat.max (length s) (length (shape c)) - length s) a Ne nPg s e p K Hs) by lia. rewrite bidx_skip_lead by lia. reflexivity.
Qed.

Theorem elementwise_fe_plain_error op (a c : arr) Ne nPg s :
  shape a = Ne :: nPg :: s -> np_bcast s (shape c) = None ->
  fe_ufunc2 V vbin op (OFe V a) (OPlain V c) = RErr V 1.
Proof.
  intros Hs Hb. unfold fe_ufunc2, align. cbn [map list_max].
  rewrite (orank_fe a Ne nPg s Hs), orank_plain. cbn [oarr].
  rewrite Nat.max_0_r. unfold ew2. cbn [C12_FeTensor.shape pad_arr].
  rewrite Hs, pad_shape_fe, np_bcast_fe_plain, Hb. reflexivity.
Qed.

(* ---- plain array (op) field : same alignment, operands in the written order ---- *)
Theorem elementwise_plain_fe op (a c : arr) Ne nPg s u :
  shape a = Ne :: nPg :: s -> np_bcast (shape c) s = Some u ->
  exists r, fe_ufunc2 V vbin op (OPlain V c) (OFe V a) = RFe V r /\
            shape r = Ne :: nPg :: u /\
            forall e p K, length K = length u ->
              dat r (e :: p :: K) =
              vbin op (dat c (bidx (shape c) K)) (dat a (cl Ne e :: cl nPg p :: bidx s K)).
Proof.
  intros Hs Hb. pose proof (np_bcast_length _ _ _ Hb) as Lu.
  unfold fe_ufunc2, align. cbn [map list_max].
  rewrite (orank_fe a Ne nPg s Hs), orank_plain. cbn [oarr].
  rewrite Nat.max_0_r, (Nat.max_comm (length (shape c))).
  unfold ew2. cbn [C12_FeTensor.shape pad_arr].
  rewrite Hs, pad_shape_fe. rewrite np_bcast_plain_fe, Hb. cbn [option_map is_fe orb].
  eexists. split; [reflexivity|]. split; [reflexivity|].
  intros e p K HK. cbn [C12_FeTensor.dat].
  rewrite (pad_read (Nat.max (length s) (length (shape c)) - length s) a Ne nPg s e p K Hs) by lia. rewrite bidx_skip_lead by lia. reflexivity.
Qed.

(* ---- scalars, either side ---- *)
Theorem elementwise_fe_scalar op (a : arr) v Ne nPg s :
  shape a = Ne :: nPg :: s ->
  exists r, fe_ufunc2 V vbin op (OFe V a) (OScalar V v) = RFe V r /\ shape r = Ne :: nPg :: s /\
            forall e p K, length K = length s ->
              dat r (e :: p :: K) = vbin op (dat a (cl Ne e :: cl nPg p :: bidx s K)) v.
Proof.
  intros Hs.
  destruct (elementwise_fe_plain op a (scalar_arr V v) Ne nPg s s Hs) as [r [H1 [H2 H3]]].
  { apply np_bcast_nil_r. }
  exists r. split; [exact H1|]. split; [exact H2|]. intros e p K HK. rewrite H3 by exact HK. reflexivity.
Qed.

Theorem elementwise_scalar_fe op (a : arr) v Ne nPg s :
  shape a = Ne :: nPg :: s ->
  exists r, fe_ufunc2 V vbin op (OScalar V v) (OFe V a) = RFe V r /\ shape r = Ne :: nPg :: s /\
            forall e p K, length K = length s ->
              dat r (e :: p :: K) = vbin op v (dat a (cl Ne e :: cl nPg p :: bidx s K)).
Proof.
  intros Hs.
  destruct (elementwise_plain_fe op a (scalar_arr V v) Ne nPg s s Hs) as [r [H1 [H2 H3]]].
  { apply np_bcast_nil_l. }
  exists r. split; [exact H1|]. split; [exact H2|]. intros e p K HK. rewrite H3 by exact HK. reflexivity.
Qed.

(* ---- two fields of different tensor ranks ---- *)
Theorem elementwise_fe_fe op (a b : arr) Ne nPg Ne' nPg' s t l u :
  shape a = Ne :: nPg :: s -> shape b = Ne' :: nPg' :: t ->
  np_bcast [Ne; nPg] [Ne'; nPg'] = Some l -> np_bcast s t = Some u ->
  exists r, fe_ufunc2 V vbin op (OFe V a) (OFe V b) = RFe V r /\ shape r = l ++ u /\
            forall e p K, length K = length u ->
              dat r (e :: p :: K) =
              vbin op (dat a (cl Ne e :: cl nPg p :: bidx s K)) (dat b (cl Ne' e :: cl nPg' p :: bidx t K)).
Proof.
  intros Hs Ht Hl Hb. pose proof (np_bcast_length _ _ _ Hb) as Lu.
  unfold fe_ufunc2, align. cbn [map list_max].
  rewrite (orank_fe a Ne nPg s Hs), (orank_fe b Ne' nPg' t Ht).
  rewrite Nat.max_0_r. set (n := Nat.max (length s) (length t)) in *.
  unfold ew2. cbn [C12_FeTensor.shape pad_arr].
  rewrite Hs, Ht, !pad_shape_fe. subst n. rewrite np_bcast_fe_fe, Hl, Hb. cbn [is_fe orb].
  eexists. split; [reflexivity|]. split; [reflexivity|].
  intros e p K HK. cbn [C12_FeTensor.dat].
  rewrite (pad_read (Nat.max (length s) (length t) - length s) a Ne nPg s e p K Hs) by lia.
  rewrite (pad_read (Nat.max (length s) (length t) - length t) b Ne' nPg' t e p K Ht) by lia. reflexivity.
Qed.

(* ==================================================================================== *)
(* 7. values: contractions (einsum with a leading ellipsis, dot, ddot, matmul)          *)
(* ==================================================================================== *)
Notation einsum := (einsum V vzero vone vadd vmul).
Notation core_contract := (core_contract V vzero vone vadd vmul).
Notation vsum := (vsum V vzero vadd).

(* the result of an einsum at batch index kb is the plain-tensor contraction of the operands
   sliced at kb -- for ANY batch shapes and core shapes *)
Theorem einsum_pointwise strict ops lo r :
  einsum strict ops lo = Some r ->
  forall kb ko, length ko = length lo ->
    dat r (kb ++ ko) = core_contract (map (slice_at V kb) ops) lo ko.
Proof.
  unfold C12_FeTensor.einsum. intros H kb ko Hl.
  destruct (forallb _ ops); [|discriminate].
  destruct (forallb _ _); [|discriminate].
  destruct (np_bcast_all _); [|discriminate].
  inversion H; subst; clear H. cbn [C12_FeTensor.dat].
  rewrite app_length, Hl, Nat.add_sub.
  rewrite firstn_app_exact, skipn_app_exact by reflexivity. reflexivity.
Qed.

(* a field sliced at batch index (e, p) is its point tensor; a plain array whose rank is the
   number of its labels has no batch axes and is the same constant tensor at every (e, p) *)
Lemma slice_fe lab (a : arr) Ne nPg s e p : shape a = Ne :: nPg :: s -> length lab = length s ->
  slice_at V [e; p] (lab, a) =
  mkCop V lab s (fun c => dat a (cl Ne e :: cl nPg p :: c)).
Proof.
  intros Hs Hl. unfold slice_at, core_of, batch_of. rewrite Hs. cbn [length].
  replace (S (S (length s)) - length lab) with 2 by lia. reflexivity.
Qed.

Lemma slice_plain lab (c : arr) kb : length lab = length (shape c) ->
  slice_at V kb (lab, c) = mkCop V lab (shape c) (fun k => dat c k).
Proof.
  intros Hl. unfold slice_at, core_of, batch_of. rewrite Hl, Nat.sub_diag. cbn [firstn skipn].
  rewrite bidx_nil. reflexivity.
Qed.

Lemma point_tensor_fe (a : arr) Ne nPg s e p : shape a = Ne :: nPg :: s ->
  point_tensor V (OFe V a) e p = mkArr V s (fun k => dat a (cl Ne e :: cl nPg p :: k)).
Proof. intros Hs. unfold point_tensor. rewrite Hs. reflexivity. Qed.

(* ---- mathematical specifications of the contractions of two plain tensors ---- *)
(* single contraction: last axis of A with first axis of B *)
Definition tdot_spec (sA sB : list nat) (A B : list nat -> V) (ko : list nat) : V :=
  let i := firstn (length sA - 1) ko in
  let j := skipn (length sA - 1) ko in
  vsum (map (fun l => vmul (A (clip sA (i ++ [l]))) (B (clip sB (l :: j))))
            (seq 0 (Nat.max (last sA 0) (hd 0 sB)))).

(* double contraction: last two axes of A with first two axes of B *)
Definition tddot_spec (sA sB : list nat) (A B : list nat -> V) (ko : list nat) : V :=
  let i := firstn (length sA - 2) ko in
  let j := skipn (length sA - 2) ko in
  vsum (map (fun k =>
         vsum (map (fun l => vmul (A (clip sA (i ++ [k; l]))) (B (clip sB (k :: l :: j))))
                   (seq 0 (Nat.max (last sA 0) (hd 0 (tl sB))))))
            (seq 0 (Nat.max (last (removelast sA) 0) (hd 0 sB)))).

Ltac dlen s := repeat (let d := fresh "d" in destruct s as [|d s]; simpl in *; try discriminate; try lia).

Ltac contract_tac :=
  intros; unfold tdot_spec, tddot_spec, C12_FeTensor.core_contract;
  cbn - [Nat.max seq]; rewrite ?Nat.max_0_r; reflexivity.

(* the subscripts built by _dot_subscript denote the single contraction, for every accepted
   rank pair *)
Theorem dot_labels_spec n1 n2 l1 l2 lo :
  In n1 [1; 2; 4] -> In n2 [1; 2; 4] -> dot_labels n1 n2 = Some (l1, l2, lo) ->
  forall sA sB A B ko, length sA = n1 -> length sB = n2 -> length ko = n1 + n2 - 2 ->
    core_contract [mkCop V l1 sA A; mkCop V l2 sB B] lo ko = tdot_spec sA sB A B ko.
Proof.
  intros H1 H2 H sA sB A B ko LA LB Lk.
  simpl in H1, H2.
  destruct H1 as [<-|[<-|[<-|[]]]]; destruct H2 as [<-|[<-|[<-|[]]]];
    cbv in H; inversion H; subst; clear H;
    dlen sA; dlen sB; dlen ko; contract_tac.
Qed.

Theorem ddot_labels_spec n1 n2 l1 l2 lo :
  In n1 [2; 4] -> In n2 [2; 4] -> ddot_labels n1 n2 = Some (l1, l2, lo) ->
  forall sA sB A B ko, length sA = n1 -> length sB = n2 -> length ko = n1 + n2 - 4 ->
    core_contract [mkCop V l1 sA A; mkCop V l2 sB B] lo ko = tddot_spec sA sB A B ko.
Proof.
  intros H1 H2 H sA sB A B ko LA LB Lk.
  simpl in H1, H2.
  destruct H1 as [<-|[<-|[]]]; destruct H2 as [<-|[<-|[]]];
    cbv in H; inversion H; subst; clear H;
    dlen sA; dlen sB; dlen ko; contract_tac.
Qed.

(* ---- from the FeArray methods down to the per-point contraction ---- *)
(* [y] holds the tensor shape s2: a plain array of that shape, or a field with two leading axes *)
Definition holds (y : operand V) (s2 : list nat) : Prop :=
  (exists c, y = OPlain V c /\ shape c = s2) \/
  (exists b Ne' nPg', y = OFe V b /\ shape b = Ne' :: nPg' :: s2).

Lemma holds_rank y s2 : holds y s2 -> rank_checked V y = Some (length s2) /\ orank V y = length s2.
Proof.
  intros [[c [-> H]]|[b [Ne' [nPg' [-> H]]]]]; unfold rank_checked.
  - rewrite orank_plain, H. auto.
  - rewrite (orank_fe b Ne' nPg' s2 H). auto.
Qed.

Lemma holds_slice y s2 lab e p : holds y s2 -> length lab = length s2 ->
  slice_at V [e; p] (lab, oarr V y) = mkCop V lab s2 (dat (point_tensor V y e p)).
Proof.
  intros [[c [-> H]]|[b [Ne' [nPg' [-> H]]]]] Hl.
  - cbn [oarr point_tensor]. rewrite slice_plain by congruence. rewrite H. reflexivity.
  - cbn [oarr]. rewrite (slice_fe lab b Ne' nPg' s2 e p H Hl), (point_tensor_fe b Ne' nPg' s2 e p H).
    reflexivity.
Qed.

Lemma fe_einsum2_inv l1 l2 lo x y r :
  as_fe V (fe_einsum V vzero vone vadd vmul [(l1, x); (l2, y)] lo) = RFe V r ->
  einsum false [(l1, oarr V x); (l2, oarr V y)] lo = Some r.
Proof.
  unfold fe_einsum. cbn [map fst snd].
  destruct (einsum false _ lo) as [r'|]; [|discriminate].
  unfold wrap. destruct (fe_shape_of V _); [|discriminate].
  match goal with |- as_fe V (if ?c then _ else _) = _ -> _ => destruct c end; cbn [as_fe];
    [intros H; inversion H; reflexivity|].
  destruct (2 <=? _); [intros H; inversion H; reflexivity | discriminate].
Qed.

Lemma dot_labels_lengths n1 n2 l1 l2 lo : In n1 [1; 2; 4] -> In n2 [1; 2; 4] ->
  dot_labels n1 n2 = Some (l1, l2, lo) -> length l1 = n1 /\ length l2 = n2 /\ length lo = n1 + n2 - 2.
Proof.
  simpl. intros H1 H2 H.
  destruct H1 as [<-|[<-|[<-|[]]]]; destruct H2 as [<-|[<-|[<-|[]]]];
    cbv in H; inversion H; subst; cbn; auto.
Qed.

Lemma ddot_labels_lengths n1 n2 l1 l2 lo : In n1 [2; 4] -> In n2 [2; 4] ->
  ddot_labels n1 n2 = Some (l1, l2, lo) -> length l1 = n1 /\ length l2 = n2 /\ length lo = n1 + n2 - 4.
Proof.
  simpl. intros H1 H2 H.
  destruct H1 as [<-|[<-|[]]]; destruct H2 as [<-|[<-|[]]];
    cbv in H; inversion H; subst; cbn; auto.
Qed.

Lemma einsum2_at l1 l2 lo x y r s1 s2 e p ko :
  einsum false [(l1, oarr V x); (l2, oarr V y)] lo = Some r ->
  holds x s1 -> holds y s2 -> length l1 = length s1 -> length l2 = length s2 -> length ko = length lo ->
  dat r (e :: p :: ko) =
  core_contract [mkCop V l1 s1 (dat (point_tensor V x e p)); mkCop V l2 s2 (dat (point_tensor V y e p))] lo ko.
Proof.
  intros H Hx Hy L1 L2 Lk.
  change (e :: p :: ko) with ([e; p] ++ ko).
  rewrite (einsum_pointwise false _ lo r H [e; p] ko Lk). cbn [map].
  rewrite (holds_slice x s1 l1 e p Hx L1), (holds_slice y s2 l2 e p Hy L2). reflexivity.
Qed.

(* FeArray.dot : at every (e, p) the single contraction of the operands' point tensors, for
   every accepted rank pair, whatever the sizes *)
Theorem dot_pointwise (a : arr) Ne nPg s1 y s2 r :
  shape a = Ne :: nPg :: s1 -> holds y s2 ->
  In (length s1) [1; 2; 4] -> In (length s2) [1; 2; 4] ->
  fe_dot V vzero vone vadd vmul (OFe V a) y = RFe V r ->
  forall e p ko, length ko = length s1 + length s2 - 2 ->
    dat r (e :: p :: ko) =
    tdot_spec s1 s2 (dat (point_tensor V (OFe V a) e p)) (dat (point_tensor V y e p)) ko.
Proof.
  intros Hs Hy R1 R2 H e p ko Lk.
  assert (Hx : holds (OFe V a) s1) by (right; eauto).
  unfold fe_dot in H. destruct (holds_rank y s2 Hy) as [Hr _].
  rewrite (orank_fe a Ne nPg s1 Hs), Hr in H.
  destruct (length s1 =? 0) eqn:E1; [discriminate|].
  destruct (length s2 =? 0) eqn:E2; [discriminate|].
  destruct (dot_labels (length s1) (length s2)) as [[[l1 l2] lo]|] eqn:D; [|discriminate].
  destruct (dot_labels_lengths _ _ _ _ _ R1 R2 D) as [L1 [L2 L3]].
  apply fe_einsum2_inv in H.
  rewrite (einsum2_at l1 l2 lo (OFe V a) y r s1 s2 e p ko H Hx Hy L1 L2) by lia.
  apply (dot_labels_spec (length s1) (length s2) l1 l2 lo R1 R2 D); auto.
Qed.

Theorem ddot_pointwise (a : arr) Ne nPg s1 y s2 r :
  shape a = Ne :: nPg :: s1 -> holds y s2 ->
  In (length s1) [2; 4] -> In (length s2) [2; 4] ->
  fe_ddot V vzero vone vadd vmul (OFe V a) y = RFe V r ->
  forall e p ko, length ko = length s1 + length s2 - 4 ->
    dat r (e :: p :: ko) =
    tddot_spec s1 s2 (dat (point_tensor V (OFe V a) e p)) (dat (point_tensor V y e p)) ko.
Proof.
  intros Hs Hy R1 R2 H e p ko Lk.
  assert (Hx : holds (OFe V a) s1) by (right; eauto).
  unfold fe_ddot in H. destruct (holds_rank y s2 Hy) as [Hr _].
  rewrite (orank_fe a Ne nPg s1 Hs), Hr in H.
  destruct (length s1 <? 2) eqn:E1; [discriminate|].
  destruct (length s2 <? 2) eqn:E2; [discriminate|].
  destruct (ddot_labels (length s1) (length s2)) as [[[l1 l2] lo]|] eqn:D; [|discriminate].
  destruct (ddot_labels_lengths _ _ _ _ _ R1 R2 D) as [L1 [L2 L3]].
  apply fe_einsum2_inv in H.
  rewrite (einsum2_at l1 l2 lo (OFe V a) y r s1 s2 e p ko H Hx Hy L1 L2) by lia.
  apply (ddot_labels_spec (length s1) (length s2) l1 l2 lo R1 R2 D); auto.
Qed.

(* the documented error branches of dot / ddot, decided on the tensor rank alone *)
Theorem dot_errors (x y : operand V) :
  (orank V x = 0 -> fe_dot V vzero vone vadd vmul x y = RErr V 1) /\
  (orank V x <> 0 -> (exists v, y = OScalar V v) -> fe_dot V vzero vone vadd vmul x y = RErr V 2) /\
  (orank V x <> 0 -> rank_checked V y = Some 0 -> fe_dot V vzero vone vadd vmul x y = RErr V 1) /\
  (orank V x = 3 -> forall n, rank_checked V y = Some (S n) -> fe_dot V vzero vone vadd vmul x y = RErr V 3).
Proof.
  unfold fe_dot. repeat split.
  - intros ->. reflexivity.
  - intros H [v ->]. destruct (orank V x =? 0) eqn:E; [apply Nat.eqb_eq in E; contradiction|]. reflexivity.
  - intros H ->. destruct (orank V x =? 0) eqn:E; [apply Nat.eqb_eq in E; contradiction|]. reflexivity.
  - intros -> n ->. reflexivity.
Qed.

(* x @ y for a field x: every accepted rank pair is the single contraction at each point *)
Theorem matmul_pointwise (a : arr) Ne nPg s1 y s2 r :
  shape a = Ne :: nPg :: s1 -> holds y s2 ->
  In (length s1) [1; 2; 4] -> In (length s2) [1; 2; 4] ->
  fe_matmul V vzero vone vadd vmul (OFe V a) y = RFe V r ->
  forall e p ko, length ko = length s1 + length s2 - 2 ->
    dat r (e :: p :: ko) =
    tdot_spec s1 s2 (dat (point_tensor V (OFe V a) e p)) (dat (point_tensor V y e p)) ko.
Proof.
  intros Hs Hy R1 R2 H e p ko Lk.
  assert (Hx : holds (OFe V a) s1) by (right; eauto).
  unfold fe_matmul in H. destruct (holds_rank y s2 Hy) as [Hr _].
  rewrite (orank_fe a Ne nPg s1 Hs), Hr in H.
  unfold matmul_branch in H.
  destruct ((length s1 =? 1) && (length s2 =? 1)) eqn:B1;
    [exact (dot_pointwise a Ne nPg s1 y s2 r Hs Hy R1 R2 H e p ko Lk)|].
  destruct ((length s1 =? 2) && (length s2 =? 2)) eqn:B2.
  { apply andb_true_iff in B2. destruct B2 as [A1 A2]. apply Nat.eqb_eq in A1, A2.
    destruct (einsum true _ _) as [r'|] eqn:E; [|discriminate].
    assert (r' = r).
    { unfold wrap in H. destruct (fe_shape_of V _); [|discriminate].
      match type of H with (if ?c then _ else _) = _ => destruct c end; inversion H; reflexivity. }
    subst r'.
    change (e :: p :: ko) with ([e; p] ++ ko).
    rewrite (einsum_pointwise true _ _ r E [e; p] ko) by (simpl; lia). cbn [map].
    rewrite (holds_slice (OFe V a) s1 [0; 1] e p Hx), (holds_slice y s2 [1; 2] e p Hy) by (simpl; lia).
    apply (dot_labels_spec 2 2 [0; 1] [1; 2] [0; 2]); simpl; auto; lia. }
  destruct ((length s1 =? 1) && (length s2 =? 2)) eqn:B3.
  { apply andb_true_iff in B3. destruct B3 as [A1 A2]. apply Nat.eqb_eq in A1, A2.
    apply fe_einsum2_inv in H.
    rewrite (einsum2_at [0] [0; 1] [1] (OFe V a) y r s1 s2 e p ko H Hx Hy) by (simpl; lia).
    apply (dot_labels_spec 1 2 [0] [0; 1] [1]); simpl; auto; lia. }
  destruct ((length s1 =? 2) && (length s2 =? 1)) eqn:B4.
  { apply andb_true_iff in B4. destruct B4 as [A1 A2]. apply Nat.eqb_eq in A1, A2.
    apply fe_einsum2_inv in H.
    rewrite (einsum2_at [0; 1] [1] [0] (OFe V a) y r s1 s2 e p ko H Hx Hy) by (simpl; lia).
    apply (dot_labels_spec 2 1 [0; 1] [1] [0]); simpl; auto; lia. }
  exact (dot_pointwise a Ne nPg s1 y s2 r Hs Hy R1 R2 H e p ko Lk).
Qed.

(* ==================================================================================== *)
(* 8. values: reducers, transposition, coefficient broadcasting                         *)
(* ==================================================================================== *)
Lemma merge_idx_lead axes Ne nPg s e p k rr : Forall (fun a => 2 <= a) axes ->
  merge_idx 0 axes (Ne :: nPg :: s) (e :: p :: k) rr = e :: p :: merge_idx 2 axes s k rr.
Proof.
  intros H. cbn [merge_idx].
  rewrite !memb_small; [reflexivity| |]; eapply Forall_impl; try eassumption; simpl; intros; lia.
Qed.

Lemma select_axes_lead axes Ne nPg s : Forall (fun a => 2 <= a) axes ->
  select_axes_from 0 axes (Ne :: nPg :: s) = select_axes_from 2 axes s.
Proof.
  intros H. cbn [select_axes_from].
  rewrite !memb_small; [reflexivity| |]; eapply Forall_impl; try eassumption; simpl; intros; lia.
Qed.

Lemma remove_all_axes axes sh : forall i,
  (forall j, i <= j < i + length sh -> memb j axes = true) -> remove_axes_from i axes sh = [].
Proof.
  induction sh as [|d sh IH]; intros i H; [reflexivity|].
  cbn [remove_axes_from]. rewrite H by (simpl; lia). apply IH. intros j Hj. apply H. simpl. lia.
Qed.

(* reducer typing and value: the result is a FeArray iff every reduced axis is a tensor axis
   (read from `axis`, never from the result shape); it then keeps (Ne, nPg) and is the
   reduction of each point tensor separately *)
Theorem reducer_typing_with (f : list V -> V) axis (a : arr) Ne nPg s :
  shape a = Ne :: nPg :: s ->
  match axis with
  | None => exists r, fe_reduce_with V f None (OFe V a) = RPlain V r /\ shape r = []
  | Some l =>
      let axes := map (norm_axis (2 + length s)) l in
      (Forall (fun x => 2 <= x) axes ->
         exists r, fe_reduce_with V f (Some l) (OFe V a) = RFe V r /\
                   shape r = Ne :: nPg :: remove_axes_from 2 axes s /\
                   forall e p k, dat r (e :: p :: k) =
                     f (map (fun rr => dat a (e :: p :: merge_idx 2 axes s k rr))
                                  (indices (select_axes_from 2 axes s)))) /\
      (~ Forall (fun x => 2 <= x) axes ->
         exists r, fe_reduce_with V f (Some l) (OFe V a) = RPlain V r)
  end.
Proof.
  intros Hs. destruct axis as [l|].
  - cbn zeta. split.
    + intros HF. unfold fe_reduce_with. cbn [oarr is_fe andb]. rewrite Hs. cbn [length].
      change (S (S (length s))) with (2 + length s).
      assert (K : keeps_fe_axes (Some l) (Z.of_nat (2 + length s)) = true).
      { apply keeps_fe_axes_spec. rewrite Forall_map in HF. exact HF. }
      rewrite K. unfold reduce_arr. cbn [C12_FeTensor.shape]. rewrite Hs.
      rewrite (remove_axes_keeps_lead _ Ne nPg s HF). cbn [length Nat.leb].
      eexists. split; [reflexivity|]. split; [reflexivity|].
      intros e p k. cbn [C12_FeTensor.dat].
      rewrite (select_axes_lead _ Ne nPg s HF). f_equal.
      apply map_ext. intros rr. rewrite (merge_idx_lead _ Ne nPg s e p k rr HF). reflexivity.
    + intros HF. unfold fe_reduce_with. cbn [oarr is_fe andb]. rewrite Hs. cbn [length].
      change (S (S (length s))) with (2 + length s).
      destruct (keeps_fe_axes (Some l) (Z.of_nat (2 + length s))) eqn:K.
      * apply keeps_fe_axes_spec in K. exfalso. apply HF. rewrite Forall_map. exact K.
      * eexists. reflexivity.
  - unfold fe_reduce_with. cbn [oarr is_fe keeps_fe_axes andb]. eexists. split; [reflexivity|].
    unfold reduce_arr, all_axes. cbn [C12_FeTensor.shape]. unfold remove_axes.
    apply remove_all_axes. intros j Hj. apply memb_In, in_seq. lia.
Qed.

Theorem reducer_typing op axis (a : arr) Ne nPg s :
  shape a = Ne :: nPg :: s ->
  match axis with
  | None => exists r, fe_reduce V vred op None (OFe V a) = RPlain V r /\ shape r = []
  | Some l =>
      let axes := map (norm_axis (2 + length s)) l in
      (Forall (fun x => 2 <= x) axes ->
         exists r, fe_reduce V vred op (Some l) (OFe V a) = RFe V r /\
                   shape r = Ne :: nPg :: remove_axes_from 2 axes s /\
                   forall e p k, dat r (e :: p :: k) =
                     vred op (map (fun rr => dat a (e :: p :: merge_idx 2 axes s k rr))
                                  (indices (select_axes_from 2 axes s)))) /\
      (~ Forall (fun x => 2 <= x) axes ->
         exists r, fe_reduce V vred op (Some l) (OFe V a) = RPlain V r)
  end.
Proof. exact (reducer_typing_with (vred op) axis a Ne nPg s). Qed.


(* FeArray.T reverses the tensor axes at each (e, p), for every rank (ranks 0 and 1 are their
   own reverse, rank 2 is the matrix transpose) *)
Theorem T_pointwise (a : arr) Ne nPg s :
  shape a = Ne :: nPg :: s ->
  exists r, fe_T V (OFe V a) = RFe V r /\ shape r = Ne :: nPg :: rev s /\
            forall e p k, dat r (e :: p :: k) = dat a (e :: p :: rev k).
Proof.
  intros Hs. unfold fe_T, T_shape. rewrite Hs. cbn [firstn skipn app].
  eexists. split; [reflexivity|]. cbn [C12_FeTensor.shape C12_FeTensor.dat].
  split; [now rewrite T_tensor_rev|]. intros e p k. cbn [firstn skipn app]. now rewrite T_tensor_rev.
Qed.

(* coefficient broadcasting with tensor_ndim = |tail| > 0 declared: a constant tensor, a
   per-element tensor and a full field are told apart by the number of leading axes, so the
   reading is unambiguous even when Ne = nPg = every entry of tail *)
Theorem broadcast_declared (v : arr) Ne nPg tail :
  0 < length tail ->
  (shape v = tail ->
     exists r, fe_broadcast V (OPlain V v) Ne nPg (length tail) = RFe V r /\
               shape r = Ne :: nPg :: tail /\ forall e p k, dat r (e :: p :: k) = dat v k) /\
  (shape v = Ne :: tail ->
     exists r, fe_broadcast V (OPlain V v) Ne nPg (length tail) = RFe V r /\
               shape r = Ne :: nPg :: tail /\ forall e p k, dat r (e :: p :: k) = dat v (e :: k)) /\
  (shape v = Ne :: nPg :: tail -> fe_broadcast V (OPlain V v) Ne nPg (length tail) = RFe V v) /\
  (forall lead, shape v = lead ++ tail -> lead <> [] -> lead <> [Ne] -> lead <> [Ne; nPg] ->
     fe_broadcast V (OPlain V v) Ne nPg (length tail) = RErr V 1).
Proof.
  intros Ht. unfold fe_broadcast. cbn [oarr]. repeat split.
  - intros Hs. rewrite Hs. change tail with ([] ++ tail) at 1. rewrite broadcast_class_td by exact Ht.
    cbn [list_eqb]. eexists. split; [reflexivity|]. split; reflexivity.
  - intros Hs. rewrite Hs. change (Ne :: tail) with ([Ne] ++ tail) at 1. rewrite broadcast_class_td by exact Ht.
    cbn [list_eqb]. rewrite Nat.eqb_refl. cbn [andb].
    eexists. split; [reflexivity|]. split; reflexivity.
  - intros Hs. rewrite Hs. change (Ne :: nPg :: tail) with ([Ne; nPg] ++ tail). rewrite broadcast_class_td by exact Ht.
    cbn [list_eqb]. rewrite !Nat.eqb_refl. reflexivity.
  - intros lead Hs N0 N1 N2. rewrite Hs, broadcast_class_td by exact Ht.
    destruct (list_eqb lead [Ne; nPg]) eqn:E2; [apply list_eqb_eq in E2; contradiction|].
    destruct (list_eqb lead [Ne]) eqn:E1; [apply list_eqb_eq in E1; contradiction|].
    destruct (list_eqb lead []) eqn:E0; [apply list_eqb_eq in E0; contradiction|].
    reflexivity.
Qed.

(* the default mode (tensor_ndim = 0) follows the documented priority list; its readings of a
   1-D value are by SIZE, hence inherently ambiguous when Ne = nPg (Ne wins) *)
Theorem broadcast_default (v : arr) Ne nPg :
  (forall rest, shape v = Ne :: nPg :: rest -> fe_broadcast V (OPlain V v) Ne nPg 0 = RFe V v) /\
  (shape v = [Ne] -> exists r, fe_broadcast V (OPlain V v) Ne nPg 0 = RFe V r /\ shape r = [Ne; nPg] /\
                      forall e p, dat r [e; p] = dat v [e]) /\
  (forall n, shape v = [n] -> n <> Ne -> n = nPg ->
     exists r, fe_broadcast V (OPlain V v) Ne nPg 0 = RFe V r /\ shape r = [Ne; nPg] /\
               forall e p, dat r [e; p] = dat v [p]).
Proof.
  unfold fe_broadcast, broadcast_class. cbn [oarr Nat.ltb Nat.leb]. repeat split.
  - intros rest Hs. rewrite Hs. cbn [firstn list_eqb]. now rewrite !Nat.eqb_refl.
  - intros Hs. rewrite Hs. cbn [firstn list_eqb length Nat.eqb andb]. rewrite Nat.eqb_refl. cbn [andb].
    eexists. split; [reflexivity|]. split; reflexivity.
  - intros n Hs N1 N2. rewrite Hs. cbn [firstn list_eqb length Nat.eqb andb].
    destruct (n =? Ne) eqn:E; [apply Nat.eqb_eq in E; contradiction|]. cbn [andb].
    subst n. rewrite Nat.eqb_refl. cbn [andb].
    eexists. split; [reflexivity|]. split; reflexivity.
Qed.


(* ==================================================================================== *)
(* 9. the type rule on the non-elementwise paths: the operation's (Ne, nPg) is the NUMPY  *)
(*    BROADCAST of the FeArray operands' finite element axes -- (Ne,1) against (1,nPg)    *)
(*    gives (Ne,nPg), equal to neither operand's -- and the result is a FeArray exactly   *)
(*    because it comes out on those axes                                                  *)
(* ==================================================================================== *)
Definition fe_lead (y : operand V) : list nat :=
  match y with OFe _ b => firstn 2 (shape b) | _ => [] end.

Lemma wrap_on_batch (ops : list (operand V)) (r : arr) bs X :
  fe_shape_of V ops = Some bs -> length bs = 2 -> shape r = bs ++ X ->
  existsb (is_fe V) ops = true -> wrap V ops r = RFe V r.
Proof.
  intros H1 H2 H3 H4. unfold wrap. rewrite H1, H4. unfold wrap_is_fe.
  rewrite H3, app_length, H2, firstn_app_exact by (symmetry; exact H2).
  rewrite list_eqb_refl. reflexivity.
Qed.

Lemma fe_shape_pair (a : arr) Ne nPg s1 y s2 :
  shape a = Ne :: nPg :: s1 -> holds y s2 ->
  fe_shape_of V [OFe V a; y] = np_bcast [Ne; nPg] (fe_lead y).
Proof.
  intros Hs [[c [-> H]]|[b [Ne' [nPg' [-> H]]]]]; unfold fe_shape_of, fe_shape;
    cbn [map filter oks okind fst snd np_bcast_all fe_lead]; unfold oshape; cbn [oarr]; rewrite Hs; cbn [firstn].
  - reflexivity.
  - rewrite H. cbn [firstn]. rewrite np_bcast_nil_r. reflexivity.
Qed.

Lemma batch_pair l1 l2 (a : arr) Ne nPg s1 y s2 :
  shape a = Ne :: nPg :: s1 -> holds y s2 -> length l1 = length s1 -> length l2 = length s2 ->
  np_bcast_all (map (fun la : list nat * arr => batch_of V (fst la) (snd la)) [(l1, a); (l2, oarr V y)])
  = np_bcast [Ne; nPg] (fe_lead y).
Proof.
  intros Hs Hy L1 L2. cbn [map fst snd np_bcast_all]. unfold batch_of. rewrite Hs. cbn [length].
  replace (S (S (length s1)) - length l1) with 2 by lia. cbn [firstn].
  destruct Hy as [[c [-> H]]|[b [Ne' [nPg' [-> H]]]]]; cbn [oarr fe_lead]; rewrite H.
  - rewrite L2, Nat.sub_diag. cbn [firstn]. rewrite np_bcast_nil_r. reflexivity.
  - cbn [length]. replace (S (S (length s2)) - length l2) with 2 by lia. cbn [firstn].
    rewrite np_bcast_nil_r. reflexivity.
Qed.

(* einsum (strict = false) and the matrix-matrix np.matmul gufunc (strict = true) *)
Theorem einsum2_is_fe strict l1 l2 lo (a : arr) Ne nPg s1 y s2 r :
  shape a = Ne :: nPg :: s1 -> holds y s2 -> length l1 = length s1 -> length l2 = length s2 ->
  einsum strict [(l1, a); (l2, oarr V y)] lo = Some r ->
  exists fs, np_bcast [Ne; nPg] (fe_lead y) = Some fs /\
             fe_shape_of V [OFe V a; y] = Some fs /\
             firstn 2 (shape r) = fs /\
             wrap V [OFe V a; y] r = RFe V r.
Proof.
  intros Hs Hy L1 L2 H. unfold C12_FeTensor.einsum in H.
  destruct (forallb _ _); [|discriminate]. destruct (forallb _ _); [|discriminate].
  rewrite (batch_pair l1 l2 a Ne nPg s1 y s2 Hs Hy L1 L2) in H.
  destruct (np_bcast [Ne; nPg] (fe_lead y)) as [fs|] eqn:B; [|discriminate].
  inversion H; subst r; clear H. cbn [C12_FeTensor.shape].
  assert (Lf : length fs = 2).
  { apply np_bcast_length in B. rewrite B.
    destruct Hy as [[c [-> Hc]]|[b [Ne' [nPg' [-> Hb]]]]]; cbn [fe_lead]; [reflexivity|].
    rewrite Hb. reflexivity. }
  exists fs. split; [reflexivity|]. split; [rewrite (fe_shape_pair a Ne nPg s1 y s2 Hs Hy); exact B|].
  split; [apply firstn_app_exact; symmetry; exact Lf|].
  eapply wrap_on_batch; [rewrite (fe_shape_pair a Ne nPg s1 y s2 Hs Hy); exact B | exact Lf | reflexivity | reflexivity].
Qed.

(* np.where with three fields of the same tensor rank: plain numpy broadcasting of the full
   shapes splits into (broadcast of the finite element axes) ++ (broadcast of the tensor axes),
   and the result is a FeArray on the broadcast finite element axes *)
Lemma np_bcast_split l1 l2 s1 s2 : length l1 = length l2 -> length s1 = length s2 ->
  np_bcast (l1 ++ s1) (l2 ++ s2) =
  match np_bcast l1 l2, np_bcast s1 s2 with Some l, Some u => Some (l ++ u) | _, _ => None end.
Proof.
  intros Hl Hs. unfold np_bcast. rewrite !app_length, Hl, Hs, !Nat.max_id.
  rewrite !lpad_id by (rewrite ?app_length; lia). apply zip_bcast_app. exact Hl.
Qed.

Theorem where_is_fe (c x y : arr) l1 l2 l3 s1 s2 s3 l12 l u12 u :
  shape c = l1 ++ s1 -> shape x = l2 ++ s2 -> shape y = l3 ++ s3 ->
  length l1 = 2 -> length l2 = 2 -> length l3 = 2 -> length s1 = length s2 -> length s2 = length s3 ->
  np_bcast l2 l3 = Some l12 -> np_bcast l1 l12 = Some l ->
  np_bcast s2 s3 = Some u12 -> np_bcast s1 u12 = Some u ->
  exists r, fe_where V vnonzero (OFe V c) (OFe V x) (OFe V y) = RFe V r /\ shape r = l ++ u.
Proof.
  intros Hc Hx Hy L1 L2 L3 S12 S23 B23 B1 U23 U1.
  assert (Ll12 : length l12 = 2) by (apply np_bcast_length in B23; lia).
  assert (Lu12 : length u12 = length s1) by (apply np_bcast_length in U23; lia).
  assert (Ll : length l = 2) by (apply np_bcast_length in B1; lia).
  unfold fe_where, ew3. cbn [oarr np_bcast_all]. rewrite Hc, Hx, Hy.
  rewrite np_bcast_nil_r, (np_bcast_split l2 l3 s2 s3) by lia. rewrite B23, U23.
  rewrite (np_bcast_split l1 l12 s1 u12) by lia. rewrite B1, U1.
  eexists. split.
  - apply wrap_on_batch with (bs := l) (X := u); [|exact Ll|reflexivity|reflexivity].
    unfold fe_shape_of, fe_shape. cbn [map filter oks okind fst snd np_bcast_all]. unfold oshape. cbn [oarr].
    rewrite Hc, Hx, Hy, !firstn_app_exact by (symmetry; assumption).
    rewrite np_bcast_nil_r, B23. exact B1.
  - reflexivity.
Qed.


(* consequence for the FeArray methods: x @ y, x.dot(y), x.ddot(y) never come back as a plain
   array; when they succeed the result is a FeArray whose leading axes are the numpy broadcast
   of the operands' finite element axes (so (Ne,1) @ (1,nPg) is a FeArray on (Ne,nPg)) *)
Definition fe_typed (Ne nPg : nat) (y : operand V) (res : result V) : Prop :=
  match res with
  | RFe _ r => np_bcast [Ne; nPg] (fe_lead y) = Some (firstn 2 (shape r))
  | RErr _ _ => True
  | _ => False
  end.

Lemma fe_einsum2_type l1 l2 lo (a : arr) Ne nPg s1 y s2 :
  shape a = Ne :: nPg :: s1 -> holds y s2 -> length l1 = length s1 -> length l2 = length s2 ->
  fe_typed Ne nPg y (as_fe V (fe_einsum V vzero vone vadd vmul [(l1, OFe V a); (l2, y)] lo)).
Proof.
  intros Hs Hy L1 L2. unfold fe_einsum. cbn [map fst snd oarr].
  destruct (einsum false [(l1, a); (l2, oarr V y)] lo) as [r|] eqn:E; [|exact I].
  destruct (einsum2_is_fe false l1 l2 lo a Ne nPg s1 y s2 r Hs Hy L1 L2 E) as [fs [B [_ [F W]]]].
  rewrite W. cbn [as_fe fe_typed]. rewrite F. exact B.
Qed.

Theorem dot_type (a : arr) Ne nPg s1 y s2 :
  shape a = Ne :: nPg :: s1 -> holds y s2 -> In (length s1) [1; 2; 4] -> In (length s2) [1; 2; 4] ->
  fe_typed Ne nPg y (fe_dot V vzero vone vadd vmul (OFe V a) y).
Proof.
  intros Hs Hy R1 R2. unfold fe_dot. destruct (holds_rank y s2 Hy) as [Hr _].
  rewrite (orank_fe a Ne nPg s1 Hs), Hr.
  destruct (length s1 =? 0); [exact I|]. destruct (length s2 =? 0); [exact I|].
  destruct (dot_labels (length s1) (length s2)) as [[[l1 l2] lo]|] eqn:D; [|exact I].
  destruct (dot_labels_lengths _ _ _ _ _ R1 R2 D) as [L1 [L2 _]].
  apply (fe_einsum2_type l1 l2 lo a Ne nPg s1 y s2 Hs Hy L1 L2).
Qed.

Theorem ddot_type (a : arr) Ne nPg s1 y s2 :
  shape a = Ne :: nPg :: s1 -> holds y s2 -> In (length s1) [2; 4] -> In (length s2) [2; 4] ->
  fe_typed Ne nPg y (fe_ddot V vzero vone vadd vmul (OFe V a) y).
Proof.
  intros Hs Hy R1 R2. unfold fe_ddot. destruct (holds_rank y s2 Hy) as [Hr _].
  rewrite (orank_fe a Ne nPg s1 Hs), Hr.
  destruct (length s1 <? 2); [exact I|]. destruct (length s2 <? 2); [exact I|].
  destruct (ddot_labels (length s1) (length s2)) as [[[l1 l2] lo]|] eqn:D; [|exact I].
  destruct (ddot_labels_lengths _ _ _ _ _ R1 R2 D) as [L1 [L2 _]].
  apply (fe_einsum2_type l1 l2 lo a Ne nPg s1 y s2 Hs Hy L1 L2).
Qed.

Theorem matmul_type (a : arr) Ne nPg s1 y s2 :
  shape a = Ne :: nPg :: s1 -> holds y s2 -> In (length s1) [1; 2; 4] -> In (length s2) [1; 2; 4] ->
  fe_typed Ne nPg y (fe_matmul V vzero vone vadd vmul (OFe V a) y).
Proof.
  intros Hs Hy R1 R2. unfold fe_matmul. destruct (holds_rank y s2 Hy) as [Hr _].
  rewrite (orank_fe a Ne nPg s1 Hs), Hr. unfold matmul_branch.
  destruct ((length s1 =? 1) && (length s2 =? 1)); [exact (dot_type a Ne nPg s1 y s2 Hs Hy R1 R2)|].
  destruct ((length s1 =? 2) && (length s2 =? 2)) eqn:B2.
  { apply andb_true_iff in B2. destruct B2 as [A1 A2]. apply Nat.eqb_eq in A1, A2. cbn [oarr].
    destruct (einsum true [([0; 1], a); ([1; 2], oarr V y)] [0; 2]) as [r|] eqn:E; [|exact I].
    destruct (einsum2_is_fe true [0; 1] [1; 2] [0; 2] a Ne nPg s1 y s2 r Hs Hy) as [fs [B [_ [F W]]]];
      [simpl; lia | simpl; lia | exact E |].
    rewrite W. cbn [fe_typed]. rewrite F. exact B. }
  destruct ((length s1 =? 1) && (length s2 =? 2)) eqn:B3.
  { apply andb_true_iff in B3. destruct B3 as [A1 A2]. apply Nat.eqb_eq in A1, A2.
    apply (fe_einsum2_type [0] [0; 1] [1] a Ne nPg s1 y s2 Hs Hy); simpl; lia. }
  destruct ((length s1 =? 2) && (length s2 =? 1)) eqn:B4.
  { apply andb_true_iff in B4. destruct B4 as [A1 A2]. apply Nat.eqb_eq in A1, A2.
    apply (fe_einsum2_type [0; 1] [1] [0] a Ne nPg s1 y s2 Hs Hy); simpl; lia. }
  exact (dot_type a Ne nPg s1 y s2 Hs Hy R1 R2).
Qed.


(* ==================================================================================== *)
(* 10. TensorProd, Norm, Normalize                                                      *)
(* ==================================================================================== *)
Variable vhalf : V.
Variable vsqrt : V -> V.

(* what the four einsum literals of TensorProd denote on two plain tensors *)
Lemma tp_vec_spec sA sB A B i j : length sA = 1 -> length sB = 1 ->
  core_contract [mkCop V [0] sA A; mkCop V [1] sB B] [0; 1] [i; j] = vmul (A (clip sA [i])) (B (clip sB [j])).
Proof. intros LA LB. dlen sA; dlen sB. reflexivity. Qed.

Lemma tp_mat_spec sA sB A B i j k l : length sA = 2 -> length sB = 2 ->
  core_contract [mkCop V [0; 1] sA A; mkCop V [2; 3] sB B] [0; 1; 2; 3] [i; j; k; l]
  = vmul (A (clip sA [i; j])) (B (clip sB [k; l])).
Proof. intros LA LB. dlen sA; dlen sB. reflexivity. Qed.

Lemma tp_sym1_spec sA sB A B i j k l : length sA = 2 -> length sB = 2 ->
  core_contract [mkCop V [0; 2] sA A; mkCop V [1; 3] sB B] [0; 1; 2; 3] [i; j; k; l]
  = vmul (A (clip sA [i; k])) (B (clip sB [j; l])).
Proof. intros LA LB. dlen sA; dlen sB. reflexivity. Qed.

Lemma tp_sym2_spec sA sB A B i j k l : length sA = 2 -> length sB = 2 ->
  core_contract [mkCop V [0; 3] sA A; mkCop V [1; 2] sB B] [0; 1; 2; 3] [i; j; k; l]
  = vmul (A (clip sA [i; l])) (B (clip sB [j; k])).
Proof. intros LA LB. dlen sA; dlen sB. reflexivity. Qed.

(* the matrix held by [a] at batch index kb (numpy broadcasting of size-1 batch axes) *)
Definition mat_slice (a : arr) (kb c : list nat) : V :=
  dat a (bidx (firstn (length (shape a) - 2) (shape a)) kb ++ c).

Lemma bidx_valid s k : Forall2 lt k s -> bidx s k = k.
Proof.
  intros H. assert (L : length k = length s) by (induction H; simpl; congruence).
  rewrite bidx_full by exact L. now apply clip_valid.
Qed.

(* TensorProd(A, B, symmetric=True) at every batch index (for fields: every (e, p)) is
   1/2 (A_ik B_jl + A_il B_jk) of the two matrices held there -- A and B different *)
Theorem tensorprod_sym_pointwise (a b p1 p2 s : arr) ba bb d1 d2 d3 d4 :
  shape a = ba ++ [d1; d2] -> shape b = bb ++ [d3; d4] ->
  einsum_l V vzero vone vadd vmul tp_sym1 a b = Some p1 ->
  einsum_l V vzero vone vadd vmul tp_sym2 a b = Some p2 ->
  ew2 V vadd p1 p2 = Some s -> shape p1 = shape p2 ->
  forall kb i j k l, Forall2 lt (kb ++ [i; j; k; l]) (shape p1) ->
    dat (ew1 V (fun v => vmul vhalf v) s) (kb ++ [i; j; k; l]) =
    vmul vhalf
      (vadd (vmul (mat_slice a kb (clip [d1; d2] [i; k])) (mat_slice b kb (clip [d3; d4] [j; l])))
            (vmul (mat_slice a kb (clip [d1; d2] [i; l])) (mat_slice b kb (clip [d3; d4] [j; k])))).
Proof.
  intros Ha Hb E1 E2 Hs Heq kb i j k l Hv.
  unfold ew1. cbn [C12_FeTensor.dat]. unfold ew2 in Hs.
  destruct (np_bcast (shape p1) (shape p2)); [|discriminate]. inversion Hs; subst s; clear Hs.
  cbn [C12_FeTensor.dat]. rewrite <- Heq, (bidx_valid _ _ Hv).
  unfold einsum_l, tp_sym1, tp_sym2 in E1, E2.
  rewrite (einsum_pointwise false _ _ p1 E1 kb [i; j; k; l]) by reflexivity.
  rewrite (einsum_pointwise false _ _ p2 E2 kb [i; j; k; l]) by reflexivity.
  cbn [map slice_at]. unfold core_of, batch_of. cbn [length].
  rewrite Ha, Hb, !app_length. cbn [length]. rewrite !Nat.add_sub.
  rewrite !skipn_app_exact, !firstn_app_exact by reflexivity.
  rewrite tp_sym1_spec, tp_sym2_spec by reflexivity.
  unfold mat_slice. rewrite Ha, Hb, !app_length. cbn [length]. rewrite !Nat.add_sub.
  rewrite !firstn_app_exact by reflexivity. reflexivity.
Qed.

(* ... and this is what the function computes for two matrix fields *)
Lemma fe_TensorProd_sym_unfold (a b : arr) :
  orank V (OFe V a) = 2 -> orank V (OFe V b) = 2 ->
  fe_TensorProd V vzero vone vadd vmul vhalf true None (OFe V a) (OFe V b) =
  match einsum_l V vzero vone vadd vmul tp_sym1 a b, einsum_l V vzero vone vadd vmul tp_sym2 a b with
  | Some p1, Some p2 =>
      match ew2 V vadd p1 p2 with
      | Some s => as_fe V (RPlain V (ew1 V (fun v => vmul vhalf v) s))
      | None => RErr V 1
      end
  | _, _ => RErr V 1
  end.
Proof. intros R1 R2. unfold fe_TensorProd. rewrite R1, R2. reflexivity. Qed.

(* non-symmetric and vector products, same style *)
Theorem tensorprod_mat_pointwise (a b r : arr) ba bb d1 d2 d3 d4 :
  shape a = ba ++ [d1; d2] -> shape b = bb ++ [d3; d4] ->
  einsum_l V vzero vone vadd vmul tp_mat a b = Some r ->
  forall kb i j k l,
    dat r (kb ++ [i; j; k; l]) =
    vmul (mat_slice a kb (clip [d1; d2] [i; j])) (mat_slice b kb (clip [d3; d4] [k; l])).
Proof.
  intros Ha Hb E kb i j k l. unfold einsum_l, tp_mat in E.
  rewrite (einsum_pointwise false _ _ r E kb [i; j; k; l]) by reflexivity.
  cbn [map slice_at]. unfold core_of, batch_of. cbn [length].
  rewrite Ha, Hb, !app_length. cbn [length]. rewrite !Nat.add_sub.
  rewrite !skipn_app_exact, !firstn_app_exact by reflexivity.
  rewrite tp_mat_spec by reflexivity.
  unfold mat_slice. rewrite Ha, Hb, !app_length. cbn [length]. rewrite !Nat.add_sub.
  rewrite !firstn_app_exact by reflexivity. reflexivity.
Qed.

(* Norm: a reduction like any other -- FeArray iff the axis is a tensor axis, and then the
   Euclidean length of a slice of the point tensor *)
Theorem norm_typing l (a : arr) Ne nPg s :
  shape a = Ne :: nPg :: s ->
  let axes := map (norm_axis (2 + length s)) l in
  (Forall (fun x => 2 <= x) axes ->
     exists r, fe_Norm V vzero vadd vmul vsqrt (Some l) (OFe V a) = RFe V r /\
               shape r = Ne :: nPg :: remove_axes_from 2 axes s /\
               forall e p k, dat r (e :: p :: k) =
                 norm_of V vzero vadd vmul vsqrt
                   (map (fun rr => dat a (e :: p :: merge_idx 2 axes s k rr)) (indices (select_axes_from 2 axes s)))) /\
  (~ Forall (fun x => 2 <= x) axes -> exists r, fe_Norm V vzero vadd vmul vsqrt (Some l) (OFe V a) = RPlain V r).
Proof.
  intros Hs. exact (reducer_typing_with (norm_of V vzero vadd vmul vsqrt) (Some l) a Ne nPg s Hs).
Qed.

(* Normalize along a tensor axis: every entry of the point tensor divided by the Euclidean
   length of its own slice (1 for a zero slice); shape and type unchanged *)
Theorem normalize_pointwise ax (a : arr) Ne nPg s j :
  shape a = Ne :: nPg :: s -> norm_axis (2 + length s) ax = 2 + j ->
  exists r, fe_Normalize V vzero vone vadd vmul vnonzero vbin vsqrt ax (OFe V a) = RFe V r /\
            shape r = Ne :: nPg :: s /\
            forall e p k, dat r (e :: p :: k) =
              let n := norm_of V vzero vadd vmul vsqrt
                         (map (fun i => dat a (e :: p :: set_nth j i k)) (seq 0 (nth j s 0))) in
              vbin 3 (dat a (e :: p :: k)) (if vnonzero n then n else vone).
Proof.
  intros Hs Hj. unfold fe_Normalize. cbn [oarr]. rewrite Hs. cbn [length].
  change (S (S (length s))) with (2 + length s). rewrite Hj.
  eexists. split; [reflexivity|]. split; [reflexivity|]. intros e p k. reflexivity.
Qed.


(* ==================================================================================== *)
(* 11. keepdims, swapaxes / concatenate / stack on tensor axes, out= and in-place        *)
(* ==================================================================================== *)
Lemma drop_axes_lead {A} axes (e p : A) k : Forall (fun a => 2 <= a) axes ->
  drop_axes_from 0 axes (e :: p :: k) = e :: p :: drop_axes_from 2 axes k.
Proof.
  intros H. cbn [drop_axes_from].
  rewrite !memb_small; [reflexivity| |]; eapply Forall_impl; try eassumption; simpl; intros; lia.
Qed.

Lemma keep_axes_lead axes Ne nPg s : Forall (fun a => 2 <= a) axes ->
  keep_axes_from 0 axes (Ne :: nPg :: s) = Ne :: nPg :: keep_axes_from 2 axes s.
Proof.
  intros H. cbn [keep_axes_from].
  rewrite !memb_small; [reflexivity| |]; eapply Forall_impl; try eassumption; simpl; intros; lia.
Qed.

(* keepdims=True: same type rule, same values as the plain reduction read at the index with the
   reduced positions dropped; the reduced axes stay with size 1 *)
Theorem reducer_keepdims_typing op l (a : arr) Ne nPg s :
  shape a = Ne :: nPg :: s ->
  let axes := map (norm_axis (2 + length s)) l in
  (Forall (fun x => 2 <= x) axes ->
     exists r, fe_reduce_kd V vred op (Some l) (OFe V a) = RFe V r /\
               shape r = Ne :: nPg :: keep_axes_from 2 axes s /\
               forall e p k, dat r (e :: p :: k) =
                 vred op (map (fun rr => dat a (e :: p :: merge_idx 2 axes s (drop_axes_from 2 axes k) rr))
                              (indices (select_axes_from 2 axes s)))) /\
  (~ Forall (fun x => 2 <= x) axes ->
     exists r, fe_reduce_kd V vred op (Some l) (OFe V a) = RPlain V r).
Proof.
  intros Hs axes. split.
  - intros HF. unfold fe_reduce_kd. cbn [oarr is_fe andb]. rewrite Hs. cbn [length].
    change (S (S (length s))) with (2 + length s). fold axes.
    assert (K : keeps_fe_axes (Some l) (Z.of_nat (2 + length s)) = true).
    { apply keeps_fe_axes_spec. unfold axes in HF. rewrite Forall_map in HF. exact HF. }
    rewrite K. unfold reduce_arr_kd. cbn [C12_FeTensor.shape]. rewrite Hs.
    rewrite (keep_axes_lead _ Ne nPg s HF). cbn [length Nat.leb].
    eexists. split; [reflexivity|]. split; [reflexivity|].
    intros e p k. cbn [C12_FeTensor.dat]. rewrite (drop_axes_lead _ e p k HF).
    unfold reduce_arr. cbn [C12_FeTensor.dat]. rewrite Hs.
    rewrite (select_axes_lead _ Ne nPg s HF). f_equal.
    apply map_ext. intros rr. rewrite (merge_idx_lead _ Ne nPg s e p _ rr HF). reflexivity.
  - intros HF. unfold fe_reduce_kd. cbn [oarr is_fe andb]. rewrite Hs. cbn [length].
    change (S (S (length s))) with (2 + length s).
    destruct (keeps_fe_axes (Some l) (Z.of_nat (2 + length s))) eqn:K.
    + apply keeps_fe_axes_spec in K. exfalso. apply HF. unfold axes. rewrite Forall_map. exact K.
    + eexists. reflexivity.
Qed.

(* ---- np.swapaxes ---- *)
Lemma swap_idx_lead i j x y l : swap_idx (2 + i) (2 + j) (x :: y :: l) = x :: y :: swap_idx i j l.
Proof.
  unfold swap_idx. cbn [length seq map]. f_equal. f_equal.
  rewrite <- seq_shift, map_map, <- seq_shift, map_map.
  apply map_ext. intros m. unfold swap_pos. cbn [Nat.add Nat.eqb].
  destruct (m =? i); [reflexivity|]. destruct (m =? j); reflexivity.
Qed.

Lemma fe_shape_single (a : arr) Ne nPg s : shape a = Ne :: nPg :: s ->
  fe_shape_of V [OFe V a] = Some [Ne; nPg].
Proof.
  intros Hs. unfold fe_shape_of, fe_shape. cbn [map filter oks okind fst snd np_bcast_all].
  unfold oshape. cbn [oarr]. rewrite Hs. cbn [firstn]. apply np_bcast_nil_r.
Qed.

(* exchanging two TENSOR axes is the same exchange in every point tensor, and stays a field *)
Theorem swapaxes_tensor_pointwise (a : arr) Ne nPg s za zb i j :
  shape a = Ne :: nPg :: s ->
  norm_axis (2 + length s) za = 2 + i -> norm_axis (2 + length s) zb = 2 + j ->
  exists r, fe_swapaxes V za zb (OFe V a) = RFe V r /\ shape r = Ne :: nPg :: swap_idx i j s /\
            forall e p k, dat r (e :: p :: k) = dat a (e :: p :: swap_idx i j k).
Proof.
  intros Hs Ha Hb. unfold fe_swapaxes. cbn [oarr]. rewrite Hs. cbn [length].
  change (S (S (length s))) with (2 + length s). rewrite Ha, Hb, swap_idx_lead.
  eexists. split.
  - apply wrap_on_batch with (bs := [Ne; nPg]) (X := swap_idx i j s);
      [apply (fe_shape_single a Ne nPg s Hs) | reflexivity | reflexivity | reflexivity].
  - split; [reflexivity|]. intros e p k. cbn [C12_FeTensor.dat]. now rewrite swap_idx_lead.
Qed.

(* ---- the typing rule AS WRITTEN (compare res.shape[:2] with (Ne, nPg)) against the SOUND rule
   (the leading axes are preserved by the operation) ---- *)
(* [preserved] is what the operation does to the leading axes; whenever they are preserved the
   result does start with (Ne, nPg).  Then the written rule agrees with the sound one exactly
   when there is no coincidence: the axes were NOT preserved and the result starts with
   (Ne, nPg) all the same. *)
Definition coincidence (preserved : bool) (res fs : list nat) : Prop :=
  preserved = false /\ 2 <= length res /\ firstn 2 res = fs.

Theorem wrap_rule_agrees_iff_no_coincidence (preserved : bool) res fs :
  (preserved = true -> 2 <= length res /\ firstn 2 res = fs) ->
  (wrap_is_fe res fs = preserved <-> ~ coincidence preserved res fs).
Proof.
  intros Hp. unfold coincidence, wrap_is_fe.
  destruct preserved.
  - destruct (Hp eq_refl) as [H1 H2]. split; [intros _ [C _]; discriminate|intros _].
    apply andb_true_iff. split; [now apply Nat.leb_le | now apply list_eqb_eq].
  - split.
    + intros H [_ [H1 H2]]. apply andb_false_iff in H. destruct H as [H|H].
      * apply Nat.leb_gt in H. lia.
      * apply list_eqb_eq in H2. congruence.
    + intros H. destruct ((2 <=? length res) && list_eqb (firstn 2 res) fs) eqn:E; [|reflexivity].
      exfalso. apply H. apply andb_true_iff in E. destruct E as [E1 E2].
      split; [reflexivity|]. split; [now apply Nat.leb_le | now apply list_eqb_eq].
Qed.

(* np.swapaxes(fe, 0, 1): the leading axes are exchanged (not preserved); the written rule types
   the result as a field exactly in the coincidence Ne = nPg, and the "field" then holds a[p, e]
   at (e, p) *)
Lemma map_nth_seq0 (l : list nat) : map (fun m => nth m l 0) (seq 0 (length l)) = l.
Proof.
  induction l as [|x l IH]; [reflexivity|].
  cbn [length seq map nth]. f_equal. rewrite <- seq_shift, map_map. exact IH.
Qed.

Lemma swap_idx_01 x y l : swap_idx 0 1 (x :: y :: l) = y :: x :: l.
Proof.
  unfold swap_idx. cbn [length seq map]. unfold swap_pos at 1 2. cbn [Nat.eqb nth]. f_equal. f_equal.
  rewrite <- seq_shift, map_map, <- seq_shift, map_map.
  rewrite <- (map_nth_seq0 l) at 2. apply map_ext. intros m. reflexivity.
Qed.

Theorem swapaxes_lead_typing (a : arr) Ne nPg s :
  shape a = Ne :: nPg :: s ->
  (Ne = nPg -> exists r, fe_swapaxes V 0%Z 1%Z (OFe V a) = RFe V r /\ shape r = nPg :: Ne :: s /\
                         forall e p k, dat r (e :: p :: k) = dat a (p :: e :: k)) /\
  (Ne <> nPg -> exists r, fe_swapaxes V 0%Z 1%Z (OFe V a) = RPlain V r /\ shape r = nPg :: Ne :: s).
Proof.
  intros Hs. unfold fe_swapaxes. cbn [oarr]. rewrite Hs. cbn [length norm_axis Z.ltb Z.compare Z.to_nat Pos.to_nat Pos.iter_op Nat.add].
  rewrite swap_idx_01. unfold wrap. rewrite (fe_shape_single a Ne nPg s Hs). cbn [existsb is_fe orb andb].
  unfold wrap_is_fe. cbn [C12_FeTensor.shape length Nat.leb firstn list_eqb andb]. split.
  - intros ->. rewrite Nat.eqb_refl. cbn [andb]. eexists. split; [reflexivity|]. split; [reflexivity|].
    intros e p k. cbn [C12_FeTensor.dat]. now rewrite swap_idx_01.
  - intros N. destruct (nPg =? Ne) eqn:E; [apply Nat.eqb_eq in E; congruence|]. cbn [andb].
    eexists. split; reflexivity.
Qed.

(* ---- np.stack: a NEW axis at position j ---- *)
Lemma insert_nth_lead {A} j (v x y : A) l : insert_nth (2 + j) v (x :: y :: l) = x :: y :: insert_nth j v l.
Proof. reflexivity. Qed.
Lemma remove_nth_lead {A} j (x y : A) l : remove_nth (2 + j) (x :: y :: l) = x :: y :: remove_nth j l.
Proof. reflexivity. Qed.

Lemma fe_shape_two_same (a b : arr) Ne nPg s t : shape a = Ne :: nPg :: s -> shape b = Ne :: nPg :: t ->
  fe_shape_of V [OFe V a; OFe V b] = Some [Ne; nPg].
Proof.
  intros Ha Hb. unfold fe_shape_of, fe_shape. cbn [map filter oks okind fst snd np_bcast_all].
  unfold oshape. cbn [oarr]. rewrite Ha, Hb. cbn [firstn]. rewrite np_bcast_nil_r. apply np_bcast_refl.
Qed.

(* stacking two fields along a tensor position is the stack of the point tensors *)
Theorem stack_tensor_pointwise (a b : arr) Ne nPg s z j :
  shape a = Ne :: nPg :: s -> shape b = Ne :: nPg :: s ->
  norm_axis (S (2 + length s)) z = 2 + j -> j <= length s ->
  exists r, fe_stack V vzero z [OFe V a; OFe V b] = RFe V r /\
            shape r = Ne :: nPg :: insert_nth j 2 s /\
            forall e p k, dat r (e :: p :: k) =
              dat (nth (nth j k 0) [a; b] (scalar_arr V vzero)) (e :: p :: remove_nth j k).
Proof.
  intros Ha Hb Hz Hj. unfold fe_stack, oshape. cbn [oarr]. rewrite Ha. cbn [length].
  change (S (S (S (length s)))) with (S (2 + length s)). rewrite Hz.
  replace (2 + j <=? S (S (length s))) with true by (symmetry; apply Nat.leb_le; lia).
  cbn [forallb andb oarr]. rewrite Ha, Hb, list_eqb_refl. cbn [andb map length].
  rewrite insert_nth_lead. eexists. split.
  - apply wrap_on_batch with (bs := [Ne; nPg]) (X := insert_nth j 2 s);
      [apply (fe_shape_two_same a b Ne nPg s s Ha Hb) | reflexivity | reflexivity | reflexivity].
  - split; [reflexivity|]. intros e p k. cbn [C12_FeTensor.dat]. rewrite remove_nth_lead. reflexivity.
Qed.

(* np.stack([a, b], axis=0): the result is (2, Ne, nPg, ...), the leading axes are NOT preserved;
   the written rule types it as a field exactly in the coincidence 2 = Ne = nPg *)
Theorem stack_lead_typing (a b : arr) Ne nPg s :
  shape a = Ne :: nPg :: s -> shape b = Ne :: nPg :: s ->
  exists r, shape r = 2 :: Ne :: nPg :: s /\
            (forall i e p k, dat r (i :: e :: p :: k) = dat (nth i [a; b] (scalar_arr V vzero)) (e :: p :: k)) /\
            ((2 = Ne /\ Ne = nPg) -> fe_stack V vzero 0%Z [OFe V a; OFe V b] = RFe V r) /\
            (~ (2 = Ne /\ Ne = nPg) -> fe_stack V vzero 0%Z [OFe V a; OFe V b] = RPlain V r).
Proof.
  intros Ha Hb.
  exists (mkArr V (2 :: Ne :: nPg :: s)
            (fun k => dat (nth (nth 0 k 0) [a; b] (scalar_arr V vzero)) (remove_nth 0 k))).
  split; [reflexivity|]. split; [intros; reflexivity|].
  unfold fe_stack, oshape. cbn [oarr]. rewrite Ha.
  cbn [length norm_axis Z.ltb Z.compare Z.to_nat Nat.leb forallb andb oarr].
  rewrite Ha, Hb, list_eqb_refl. cbn [andb map length insert_nth oarr].
  unfold wrap. rewrite (fe_shape_two_same a b Ne nPg s s Ha Hb). cbn [existsb is_fe orb andb].
  unfold wrap_is_fe. cbn [C12_FeTensor.shape length Nat.leb firstn list_eqb andb]. split.
  - intros [<- <-]. reflexivity.
  - intros N. destruct (2 =? Ne) eqn:E1; [|reflexivity]. destruct (Ne =? nPg) eqn:E2; [|reflexivity].
    apply Nat.eqb_eq in E1, E2. exfalso. apply N. auto.
Qed.

(* ---- np.concatenate along a tensor axis is the concatenation of the point tensors ---- *)
Lemma set_nth_lead j v x y l : set_nth (2 + j) v (x :: y :: l) = x :: y :: set_nth j v l.
Proof. reflexivity. Qed.

Lemma nth_set_nth j v : forall k, j < length k -> nth j (set_nth j v k) 0 = v.
Proof.
  induction j; destruct k; simpl; intros; try lia; try reflexivity. apply IHj. lia.
Qed.

Theorem concat_tensor_pointwise (a b : arr) Ne nPg s t z j :
  shape a = Ne :: nPg :: s -> shape b = Ne :: nPg :: t ->
  norm_axis (2 + length s) z = 2 + j -> j < length s ->
  set_nth j 0 s = set_nth j 0 t ->
  exists r, fe_concat V vzero z [OFe V a; OFe V b] = RFe V r /\
            shape r = Ne :: nPg :: set_nth j (nth j s 0 + nth j t 0) s /\
            forall e p k, length k = length s -> dat r (e :: p :: k) =
              if nth j k 0 <? nth j s 0 then dat a (e :: p :: k)
              else if nth j k 0 - nth j s 0 <? nth j t 0 then dat b (e :: p :: set_nth j (nth j k 0 - nth j s 0) k)
              else vzero.
Proof.
  intros Ha Hb Hz Hj Hoff. unfold fe_concat, oshape. cbn [oarr]. rewrite Ha. cbn [length].
  change (S (S (length s))) with (2 + length s). rewrite Hz.
  replace (2 + j <? 2 + length s) with true by (symmetry; apply Nat.ltb_lt; lia).
  cbn [forallb andb oarr map]. unfold same_off_axis. rewrite Ha, Hb, !set_nth_lead.
  cbn [list_eqb]. rewrite !Nat.eqb_refl, Hoff, !list_eqb_refl. cbn [andb map fold_right].
  change (nth (2 + j) (Ne :: nPg :: s) 0) with (nth j s 0).
  change (nth (2 + j) (Ne :: nPg :: t) 0) with (nth j t 0). rewrite Nat.add_0_r.
  eexists. split.
  - apply wrap_on_batch with (bs := [Ne; nPg]) (X := set_nth j (nth j s 0 + nth j t 0) s);
      [apply (fe_shape_two_same a b Ne nPg s t Ha Hb) | reflexivity | reflexivity | reflexivity].
  - split; [reflexivity|]. intros e p k Lk. cbn [C12_FeTensor.dat concat_pick]. rewrite Ha, Hb.
    change (nth (2 + j) (Ne :: nPg :: s) 0) with (nth j s 0).
    change (nth (2 + j) (e :: p :: k) 0) with (nth j k 0).
    destruct (nth j k 0 <? nth j s 0); [reflexivity|].
    rewrite set_nth_lead.
    change (nth (2 + j) (Ne :: nPg :: t) 0) with (nth j t 0).
    change (nth (2 + j) (e :: p :: set_nth j (nth j k 0 - nth j s 0) k) 0) with (nth j (set_nth j (nth j k 0 - nth j s 0) k) 0).
    rewrite nth_set_nth by lia. reflexivity.
Qed.

(* ---- out= and the in-place operators ---- *)
Theorem ufunc2_out_spec op x y os ofe r :
  (fe_ufunc2_out V vbin op x y os ofe = RFe V r \/ fe_ufunc2_out V vbin op x y os ofe = RPlain V r) ->
  (fe_ufunc2 V vbin op x y = RFe V r \/ fe_ufunc2 V vbin op x y = RPlain V r) /\ shape r = os.
Proof.
  unfold fe_ufunc2_out. destruct (fe_ufunc2 V vbin op x y) as [r'|r'|v|c];
    try (intros [H|H]; discriminate).
  - destruct (list_eqb (shape r') os) eqn:E; [|intros [H|H]; discriminate].
    apply list_eqb_eq in E. destruct ofe; intros [H|H]; inversion H; subst; auto.
  - destruct (list_eqb (shape r') os) eqn:E; [|intros [H|H]; discriminate].
    apply list_eqb_eq in E. destruct ofe; intros [H|H]; inversion H; subst; auto.
Qed.

(* `field op= plain`: succeeds exactly when the plain array broadcasts INTO the field's tensor
   shape, returns the field, with the pointwise values *)
Theorem inplace_fe_plain op (a c : arr) Ne nPg s u :
  shape a = Ne :: nPg :: s -> np_bcast s (shape c) = Some u ->
  (u = s -> exists r, fe_ufunc2_out V vbin op (OFe V a) (OPlain V c) (shape a) true = RFe V r /\
                      shape r = shape a /\
                      forall e p K, length K = length s ->
                        dat r (e :: p :: K) = vbin op (dat a (cl Ne e :: cl nPg p :: bidx s K)) (dat c (bidx (shape c) K))) /\
  (u <> s -> fe_ufunc2_out V vbin op (OFe V a) (OPlain V c) (shape a) true = RErr V 1).
Proof.
  intros Hs Hb. destruct (elementwise_fe_plain op a c Ne nPg s u Hs Hb) as [r [H1 [H2 H3]]].
  unfold fe_ufunc2_out. rewrite H1, H2, Hs. split.
  - intros ->. rewrite list_eqb_refl. exists r. split; [reflexivity|]. split; [exact H2|]. exact H3.
  - intros N. destruct (list_eqb (Ne :: nPg :: u) (Ne :: nPg :: s)) eqn:E; [|reflexivity].
    apply list_eqb_eq in E. inversion E. contradiction.
Qed.

End Values.
