(* C19_Tangent2.v — consistent tangent of the spectral return for SEVERAL eigen-pairs (n = 2,
   equal eigenvalues: the radial return in a 2-dimensional eigenspace), linear hardening, no rate
   law, converged state theta = theta_star.

   _spectral.Tangent returns  C_alg = T [ diag(d) + a (x) b ] Ti C  (C19_main.v gen_tangent_match).
   Theorem: every returned eigen-stress component s_i is differentiable in every trial component
   y_j (the other one held fixed) and   d s_i / d y_j = d * delta_ij + a_i * b_j ,
   with d, a, b evaluated from the model's own theta_star, drdtheta and phi.  (Partial
   derivatives along the coordinates; no Frechet derivative is claimed.) *)
From Coquelicot Require Import Coquelicot.
From Coq Require Import Reals List Lra Bool Psatz.
From EFModel Require Import C19_Return1D C19_Return1D_proofs C19_Radial C19_Tangent.
Import List ListNotations.
Open Scope R_scope.

Definition tan_entry (diag : bool) (lam yi yj d theta slope drdtheta phi : R) (active : bool) : R :=
  (if diag then d else 0) + tan_a lam yi d theta slope drdtheta active * tan_b lam yj d phi.

Section Tangent2D.
  Variable lam H sy dt p : R.
  Hypothesis Hlam : 0 < lam.
  Hypothesis HH : 0 <= H.
  Hypothesis HK : 0 < sy + H * p.

  Notation K := (sy + H * p).
  Definition alpha : R := H / (H + lam).
  Definition beta : R := lam * K / (H + lam).
  Definition f0 (y1 y2 : R) : R := sqrt (lam * (y1 * y1 + y2 * y2)).

  Definition ps2 (y1 y2 : R) : list (R * R) := [(lam, y1); (lam, y2)].
  Lemma ps2_uniform : forall y1 y2, uniform lam (ps2 y1 y2).
  Proof. intros. unfold uniform, ps2. repeat (apply Forall_cons; [left; reflexivity|]). apply Forall_nil. Qed.

  Lemma f0_pos : forall y1 y2, 0 < y1 * y1 + y2 * y2 -> 0 < f0 y1 y2.
  Proof. intros. unfold f0. apply sqrt_lt_R0. apply Rmult_lt_0_compat; assumption. Qed.
  Lemma f0_sq : forall y1 y2, 0 < y1 * y1 + y2 * y2 -> f0 y1 y2 * f0 y1 y2 = lam * (y1 * y1 + y2 * y2).
  Proof. intros. unfold f0. apply sqrt_sqrt. apply Rmult_le_pos; lra. Qed.

  Lemma phi0_2 : forall y1 y2, phi Rops (ps2 y1 y2) 0 = f0 y1 y2.
  Proof.
    intros. rewrite phi_eq. unfold ps2, f0. cbn [sumw fst snd]. rewrite !wterm_eq, !dfac_eq.
    change (oadd Rops) with Rplus. change (o0 Rops) with 0.
    replace (lam * (y1 * y1) * (1 / (1 + 0 * lam) * (1 / (1 + 0 * lam))) +
             (lam * (y2 * y2) * (1 / (1 + 0 * lam) * (1 / (1 + 0 * lam))) + 0))
      with (lam * (y1 * y1 + y2 * y2)) by field.
    rewrite Rmax_left; [reflexivity|]. apply Rmult_le_pos; [lra | nra].
  Qed.

  Definition theta2 (y1 y2 : R) : R := theta_star lam H sy (ps2 y1 y2) p.
  Definition s1 (y1 y2 : R) : R := nth 0 (sig_eig Rops (ps2 y1 y2) (theta2 y1 y2)) 0.
  Definition s2 (y1 y2 : R) : R := nth 1 (sig_eig Rops (ps2 y1 y2) (theta2 y1 y2)) 0.

  Lemma theta2_eq : forall y1 y2, theta2 y1 y2 = (f0 y1 y2 - sy - H * p) / (H * f0 y1 y2 + lam * K).
  Proof. intros. unfold theta2, theta_star, Ac, Bc. rewrite phi0_2. reflexivity. Qed.

  (* d(theta_star) = alpha + beta / phi0 *)
  Lemma d_closed : forall y1 y2, 0 < y1 * y1 + y2 * y2 ->
      dfac Rops (theta2 y1 y2) lam = alpha + beta / f0 y1 y2.
  Proof.
    intros y1 y2 Hy. rewrite dfac_eq, theta2_eq. pose proof (f0_pos y1 y2 Hy) as Hf.
    set (f := f0 y1 y2) in *. unfold alpha, beta.
    assert (HB : 0 < H * f + lam * K).
    { pose proof (Rmult_lt_0_compat _ _ Hlam HK). pose proof (Rmult_le_pos _ _ HH (Rlt_le _ _ Hf)). lra. }
    assert (HHl : 0 < H + lam) by lra.
    assert (Hden : 1 + (f - sy - H * p) / (H * f + lam * K) * lam = f * (H + lam) / (H * f + lam * K)) by (field; lra).
    rewrite Hden. field. repeat split; lra.
  Qed.

  Lemma s_closed : forall y1 y2, 0 < y1 * y1 + y2 * y2 ->
      s1 y1 y2 = y1 * (alpha + beta / f0 y1 y2) /\ s2 y1 y2 = y2 * (alpha + beta / f0 y1 y2).
  Proof.
    intros y1 y2 Hy. unfold s1, s2, sig_eig, ps2. cbn [map nth fst snd]. fold (ps2 y1 y2).
    change (omul Rops) with Rmult. rewrite d_closed by assumption. split; reflexivity.
  Qed.

  (* --- derivatives of the closed forms ---------------------------------------------------- *)
  Lemma own_derive : forall t u, 0 < t * t + u * u ->
      is_derive (fun x => x * (alpha + beta / sqrt (lam * (x * x + u * u)))) t
                ((alpha + beta / f0 t u) - beta * lam * (t * t) / (f0 t u * f0 t u * f0 t u)).
  Proof.
    intros t u Hy. pose proof (f0_pos t u Hy) as Hf. pose proof (f0_sq t u Hy) as Hs.
    assert (Hl : 0 < lam * (t * t + u * u)) by (apply Rmult_lt_0_compat; assumption).
    auto_derive.
    - split; [exact Hl|]. split; [|exact I]. fold (f0 t u). lra.
    - fold (f0 t u). field. lra.
  Qed.

  Lemma cross_derive : forall t u, 0 < t * t + u * u ->
      is_derive (fun x => u * (alpha + beta / sqrt (lam * (x * x + u * u)))) t
                (- (beta * lam * (u * t) / (f0 t u * f0 t u * f0 t u))).
  Proof.
    intros t u Hy. pose proof (f0_pos t u Hy) as Hf. pose proof (f0_sq t u Hy) as Hs.
    assert (Hl : 0 < lam * (t * t + u * u)) by (apply Rmult_lt_0_compat; assumption).
    auto_derive.
    - split; [exact Hl|]. split; [|exact I]. fold (f0 t u). lra.
    - fold (f0 t u). field. lra.
  Qed.

  (* --- the returned tangent entries at the converged state --------------------------------- *)
  (* pure algebra: with f = phi0 > 0, th = theta_star, d = 1/(1+th lam), drdtheta = -f(H+lam) d^2, phi = f d *)
  Lemma entry_algebra : forall yi yj f, 0 < f ->
      let th := (f - sy - H * p) / (H * f + lam * K) in
      let d := 1 / (1 + th * lam) in
      tan_a lam yi d th H (- (f * (H + lam) * (d * d))) true * tan_b lam yj d (f * d)
      = - (beta * lam * (yi * yj) / (f * f * f)).
  Proof.
    intros yi yj f Hf th d.
    assert (HB : 0 < H * f + lam * K).
    { pose proof (Rmult_lt_0_compat _ _ Hlam HK). pose proof (Rmult_le_pos _ _ HH (Rlt_le _ _ Hf)). lra. }
    assert (HHl : 0 < H + lam) by lra.
    assert (Hden : 1 + th * lam = f * (H + lam) / (H * f + lam * K)) by (unfold th; field; lra).
    assert (Hd : d = (H * f + lam * K) / (f * (H + lam))) by (unfold d; rewrite Hden; field; repeat split; lra).
    assert (Hdpos : 0 < d) by (rewrite Hd; apply Rdiv_lt_0_compat; [lra | nra]).
    assert (Hfd : 0 < f * d) by (apply Rmult_lt_0_compat; assumption).
    unfold tan_a, tan_b. destruct (Rltb 0 (f * d)) eqn:E; [|apply Rltb_false in E; contradiction].
    unfold beta. rewrite Hd. unfold th. field. repeat split; lra.
  Qed.

  Lemma entry_value : forall (diag : bool) i j y1 y2, 0 < y1 * y1 + y2 * y2 -> 0 < Ac H sy (ps2 y1 y2) p ->
      let yi := nth i [y1; y2] 0 in let yj := nth j [y1; y2] 0 in
      let th := theta2 y1 y2 in
      tan_entry diag lam yi yj (dfac Rops th lam) th H
                (drdth Rops (fun _ => H) None dt (mkPoint (ps2 y1 y2) p) th)
                (phi Rops (ps2 y1 y2) th) true
      = (if diag then alpha + beta / f0 y1 y2 else 0)
        - beta * lam * (yi * yj) / (f0 y1 y2 * f0 y1 y2 * f0 y1 y2).
  Proof.
    intros diag i j y1 y2 Hy HA yi yj th.
    pose proof (f0_pos y1 y2 Hy) as Hf.
    assert (Hphi0 : 0 < phi Rops (ps2 y1 y2) 0) by (rewrite phi0_2; exact Hf).
    assert (Hth : 0 <= th).
    { subst th. unfold theta2. left. apply (theta_star_pos lam H sy (ps2 y1 y2) p); assumption. }
    unfold tan_entry.
    rewrite (drdth_uniform lam H sy dt (ps2 y1 y2) p (ps2_uniform y1 y2) Hlam Hphi0 th Hth).
    rewrite (phi_uniform lam (ps2 y1 y2) 0 (ps2_uniform y1 y2) Hlam th Hth).
    rewrite (Dc_eq lam H sy (ps2 y1 y2) p). rewrite phi0_2.
    assert (Ed : dfac Rops th lam = 1 / (1 + (f0 y1 y2 - sy - H * p) / (H * f0 y1 y2 + lam * K) * lam)).
    { rewrite dfac_eq. subst th. rewrite theta2_eq. reflexivity. }
    pose proof (entry_algebra yi yj (f0 y1 y2) Hf) as EA. cbv zeta in EA.
    assert (Eth : th = (f0 y1 y2 - sy - H * p) / (H * f0 y1 y2 + lam * K)) by (subst th; apply theta2_eq).
    rewrite Ed. rewrite Eth at 1. rewrite EA.
    rewrite <- Ed. subst th. rewrite d_closed by assumption.
    destruct diag; ring.
  Qed.

  (* --- the four partial derivatives --------------------------------------------------------- *)
  Lemma near : forall t0 u, 0 < t0 * t0 + u * u ->
      locally t0 (fun t => 0 < t * t + u * u).
  Proof.
    intros t0 u Hy.
    assert (He : 0 < sqrt (t0 * t0 + u * u)) by (apply sqrt_lt_R0; exact Hy).
    exists (mkposreal _ He). intros t Hb.
    unfold ball in Hb; simpl in Hb. unfold AbsRing_ball, abs, minus, plus, opp in Hb; simpl in Hb.
    destruct (Req_dec u 0) as [Hu|Hu]; [|nra].
    subst u. replace (t0 * t0 + 0 * 0) with (Rsqr t0) in Hb by (unfold Rsqr; ring).
    rewrite sqrt_Rsqr_abs in Hb.
    destruct (Req_dec t 0) as [Ht|Ht]; [|nra].
    subst t. rewrite Rplus_0_l, Rabs_Ropp in Hb. lra.
  Qed.

  Lemma f0_comm : forall a b, f0 a b = f0 b a.
  Proof. intros. unfold f0. f_equal. ring. Qed.

  Definition entry (diag : bool) (i j : nat) (y1 y2 : R) : R :=
    tan_entry diag lam (nth i [y1; y2] 0) (nth j [y1; y2] 0) (dfac Rops (theta2 y1 y2) lam) (theta2 y1 y2) H
              (drdth Rops (fun _ => H) None dt (mkPoint (ps2 y1 y2) p) (theta2 y1 y2))
              (phi Rops (ps2 y1 y2) (theta2 y1 y2)) true.

  (* C19 tangent_is_jacobian_2d *)
  Theorem tangent_is_jacobian_2d : forall y1 y2, 0 < y1 * y1 + y2 * y2 -> 0 < Ac H sy (ps2 y1 y2) p ->
      is_derive (fun t => s1 t y2) y1 (entry true 0 0 y1 y2) /\
      is_derive (fun t => s2 t y2) y1 (entry false 1 0 y1 y2) /\
      is_derive (fun t => s1 y1 t) y2 (entry false 0 1 y1 y2) /\
      is_derive (fun t => s2 y1 t) y2 (entry true 1 1 y1 y2).
  Proof.
    intros y1 y2 Hy HA.
    assert (Hy' : 0 < y2 * y2 + y1 * y1) by lra.
    unfold entry.
    rewrite (entry_value true 0 0 y1 y2 Hy HA), (entry_value false 1 0 y1 y2 Hy HA),
            (entry_value false 0 1 y1 y2 Hy HA), (entry_value true 1 1 y1 y2 Hy HA).
    cbn [nth].
    split; [|split; [|split]].
    - apply is_derive_ext_loc with (f := fun x => x * (alpha + beta / sqrt (lam * (x * x + y2 * y2)))).
      + destruct (near y1 y2 Hy) as [eps He]. exists eps. intros t Hb. pose proof (He t Hb) as Ht. cbv beta in Ht.
        symmetry. apply (s_closed t y2 Ht).
      + exact (own_derive y1 y2 Hy).
    - apply is_derive_ext_loc with (f := fun x => y2 * (alpha + beta / sqrt (lam * (x * x + y2 * y2)))).
      + destruct (near y1 y2 Hy) as [eps He]. exists eps. intros t Hb. pose proof (He t Hb) as Ht. cbv beta in Ht.
        symmetry. apply (s_closed t y2 Ht).
      + replace (0 - beta * lam * (y2 * y1) / (f0 y1 y2 * f0 y1 y2 * f0 y1 y2))
          with (- (beta * lam * (y2 * y1) / (f0 y1 y2 * f0 y1 y2 * f0 y1 y2))) by ring.
        exact (cross_derive y1 y2 Hy).
    - apply is_derive_ext_loc with (f := fun x => y1 * (alpha + beta / sqrt (lam * (x * x + y1 * y1)))).
      + destruct (near y2 y1 Hy') as [eps He]. exists eps. intros t Hb. pose proof (He t Hb) as Ht. cbv beta in Ht.
        symmetry.
        assert (Ht' : 0 < y1 * y1 + t * t) by lra.
        rewrite (proj1 (s_closed y1 t Ht')). unfold f0. do 4 f_equal. ring.
      + replace (0 - beta * lam * (y1 * y2) / (f0 y1 y2 * f0 y1 y2 * f0 y1 y2))
          with (- (beta * lam * (y1 * y2) / (f0 y2 y1 * f0 y2 y1 * f0 y2 y1))) by (rewrite (f0_comm y2 y1); ring).
        exact (cross_derive y2 y1 Hy').
    - apply is_derive_ext_loc with (f := fun x => x * (alpha + beta / sqrt (lam * (x * x + y1 * y1)))).
      + destruct (near y2 y1 Hy') as [eps He]. exists eps. intros t Hb. pose proof (He t Hb) as Ht. cbv beta in Ht.
        symmetry.
        assert (Ht' : 0 < y1 * y1 + t * t) by lra.
        rewrite (proj2 (s_closed y1 t Ht')). unfold f0. do 4 f_equal. ring.
      + replace (alpha + beta / f0 y1 y2 - beta * lam * (y2 * y2) / (f0 y1 y2 * f0 y1 y2 * f0 y1 y2))
          with (alpha + beta / f0 y2 y1 - beta * lam * (y2 * y2) / (f0 y2 y1 * f0 y2 y1 * f0 y2 y1)) by (rewrite (f0_comm y2 y1); ring).
        exact (own_derive y2 y1 Hy').
  Qed.
End Tangent2D.

(* non-vacuity: lam = 1, H = 1, sy = 1, p = 0, (y1, y2) = (2, 0): phi0 = 2, A = 1 > 0 *)
Example tangent2_hypotheses_satisfiable :
  0 < 1 /\ 0 <= 1 /\ 0 < 1 + 1 * 0 /\ 0 < 2 * 2 + 0 * 0 /\ 0 < Ac 1 1 (ps2 1 2 0) 0.
Proof.
  repeat split; try lra. unfold Ac. rewrite phi0_2 by lra. unfold f0.
  replace (1 * (2 * 2 + 0 * 0)) with (2 * 2) by ring. rewrite sqrt_square by lra. lra.
Qed.
