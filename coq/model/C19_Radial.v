(* C19_Radial.v — the classical RADIAL RETURN as an instance of the eigenspace return:
   all non-zero eigenvalues equal (isotropic elasticity + von Mises: lam = 3 mu five times and
   0 once), LINEAR hardening R(p) = H p, no rate law.

   For this instance the scalar Newton of _spectral.Solve is analysed completely:
     r(theta) = (A - B theta) / (1 + lam theta),  A = phi0 - sy - H p,  B = H phi0 + lam (sy + H p)
     unique root theta* = A / B on theta >= 0;   Newton error  e' = (lam B / (B + lam A)) e^2
   so from theta = 0 the iterates increase monotonically to theta*, never leave [0, theta*] (the
   clamp is never active), the residual stays >= 0 and decreases to 0, and for every tol > 0 the
   loop leaves through its break test if the iteration budget is large enough. *)
From Coquelicot Require Import Coquelicot.
From Coq Require Import Reals List Lra Lia Bool Psatz.
From EFModel Require Import C19_Return1D C19_Return1D_proofs.
Import List ListNotations.
Open Scope R_scope.

(* the loop either left through its break test or used its whole budget *)
Lemma forallb_map_comp : forall (A B : Type) (f : B -> bool) (g : A -> B) l,
    forallb f (map g l) = forallb (fun x => f (g x)) l.
Proof. induction l as [|a l IH]; simpl; [reflexivity | rewrite IH; reflexivity]. Qed.

Lemma forallb_ext' : forall (A : Type) (f g : A -> bool) l, (forall x, f x = g x) -> forallb f l = forallb g l.
Proof. intros A f g l H. induction l as [|a l IH]; simpl; [reflexivity | rewrite H, IH; reflexivity]. Qed.

Lemma loop_exit_or_full : forall Rh dRh rate dt sy tol fuel st,
    exists n, (n <= fuel)%nat /\
      loop Rops Rh dRh rate dt sy tol fuel st = map (Nat.iter n (advance Rops Rh dRh rate dt sy)) st /\
      (n = fuel \/ exit_small Rops Rh rate dt sy tol (loop Rops Rh dRh rate dt sy tol fuel st) = true).
Proof.
  intros Rh dRh rate dt sy tol. induction fuel as [|k IH]; intros st.
  - exists O. repeat split; [lia | | left; reflexivity]. simpl. rewrite <- (map_id st) at 1. apply map_ext. reflexivity.
  - simpl.
    match goal with |- exists n, _ /\ (if ?c then _ else _) = _ /\ _ => destruct c eqn:E end.
    + exists O. repeat split; [lia | simpl; rewrite <- (map_id st) at 1; apply map_ext; reflexivity |].
      right. unfold exit_small. rewrite forallb_map_comp in E. cbn [fst snd] in E.
      rewrite <- E. apply forallb_ext'. intro q. rewrite body_spec. reflexivity.
    + match goal with |- exists n, _ /\ loop _ _ _ _ _ _ _ _ ?l = _ /\ _ =>
        assert (Hm : l = map (advance Rops Rh dRh rate dt sy) st)
          by (rewrite map_map; apply map_ext; intro q; reflexivity);
        rewrite Hm end.
      destruct (IH (map (advance Rops Rh dRh rate dt sy) st)) as [n [Hn [Eq Hex]]].
      exists (S n). repeat split; [lia | |].
      * rewrite Eq, map_map. apply map_ext. intro q. rewrite iter_shift. reflexivity.
      * destruct Hex as [-> | Hex]; [left; reflexivity | right; exact Hex].
Qed.

Section Radial.
  Variable lam H sy tol dt : R.
  Variable ps : list (R * R).
  Variable p : R.

  Definition uniform : Prop := Forall (fun q : R * R => fst q = lam \/ fst q = 0) ps.
  Hypothesis Hunif : uniform.
  Hypothesis Hlam : 0 < lam.
  Hypothesis HH : 0 <= H.

  Let Rh := fun x : R => H * x.
  Let dRh := fun _ : R => H.
  Let pt := mkPoint ps p.
  Notation S0 := (sumw Rops ps 0).
  Notation phi0 := (phi Rops ps 0).
  Notation d th := (dfac Rops th lam) (only parsing).

  Lemma unif_nonneg : lam_nonneg ps.
  Proof.
    eapply Forall_impl; [|exact Hunif]. intros q [E|E]; cbn beta; rewrite E; lra.
  Qed.

  Lemma S0_nonneg : 0 <= S0.
  Proof. apply sumw_nonneg. apply unif_nonneg. Qed.

  Lemma den_pos : forall th, 0 <= th -> 0 < 1 + th * lam.
  Proof. intros th Hth. pose proof (Rmult_le_pos _ _ Hth (Rlt_le _ _ Hlam)). lra. Qed.

  Lemma sumw_uniform : forall th, 0 <= th -> sumw Rops ps th = S0 * (d th * d th).
  Proof.
    intros th Hth. pose proof (den_pos th Hth) as Hd.
    unfold uniform in Hunif. induction ps as [|[l y] r IH]; cbn [sumw fst snd].
    - change (o0 Rops) with 0. ring.
    - inversion Hunif as [|? ? Hq Hr]; subst. cbn [fst] in Hq. rewrite (IH Hr).
      rewrite !wterm_eq, !dfac_eq. change (oadd Rops) with Rplus. change (o0 Rops) with 0.
      destruct Hq as [-> | ->]; field; lra.
  Qed.

  Lemma sumwld_uniform : forall th, 0 <= th ->
      sumwld Rops ps th = S0 * (d th * d th) * lam * d th.
  Proof.
    intros th Hth. pose proof (den_pos th Hth) as Hd.
    unfold uniform in Hunif. induction ps as [|[l y] r IH]; cbn [sumw sumwld fst snd].
    - change (o0 Rops) with 0. ring.
    - inversion Hunif as [|? ? Hq Hr]; subst. cbn [fst] in Hq. rewrite (IH Hr).
      rewrite !wterm_eq, !dfac_eq. change (oadd Rops) with Rplus. change (omul Rops) with Rmult.
      change (o0 Rops) with 0.
      destruct Hq as [-> | ->]; field; lra.
  Qed.

  Lemma d_pos : forall th, 0 <= th -> 0 < d th.
  Proof. intros th Hth. rewrite dfac_eq. apply Rdiv_lt_0_compat; [lra | apply den_pos; assumption]. Qed.

  Lemma phi0_sq : phi0 * phi0 = S0.
  Proof. rewrite phi_eq. rewrite Rmax_left by apply S0_nonneg. apply sqrt_sqrt. apply S0_nonneg. Qed.

  (* phi(theta) = phi0 / (1 + lam theta) : the return is radial *)
  Lemma phi_uniform : forall th, 0 <= th -> phi Rops ps th = phi0 * d th.
  Proof.
    intros th Hth. rewrite !phi_eq. rewrite sumw_uniform by assumption.
    pose proof S0_nonneg as HS. pose proof (d_pos th Hth) as Hd.
    rewrite Rmax_left by (apply Rmult_le_pos; [assumption | nra]).
    rewrite (Rmax_left S0 0) by assumption.
    rewrite sqrt_mult by (try assumption; nra). rewrite sqrt_square by lra. reflexivity.
  Qed.

  Hypothesis Hphi0 : 0 < phi0.

  Lemma dphi_uniform : forall th, 0 <= th -> dphi Rops ps th = - (lam * phi0 * (d th * d th)).
  Proof.
    intros th Hth. unfold dphi, dphi_of, safe. fold (phi Rops ps th).
    change (oltb Rops) with Rltb. change (odiv Rops) with Rdiv. change (oopp Rops) with Ropp.
    change (o0 Rops) with 0.
    rewrite phi_uniform by assumption. rewrite sumwld_uniform by assumption.
    pose proof (d_pos th Hth) as Hd.
    assert (Hpos : 0 < phi0 * d th) by (apply Rmult_lt_0_compat; assumption).
    destruct (Rltb 0 (phi0 * d th)) eqn:E; [|apply Rltb_false in E; contradiction].
    rewrite <- phi0_sq. field. split; lra.
  Qed.

  Definition Ac : R := phi0 - sy - H * p.
  Definition Bc : R := H * phi0 + lam * (sy + H * p).
  Definition theta_star : R := Ac / Bc.
  Definition Dc : R := Bc + lam * Ac.

  Hypothesis HK : 0 < sy + H * p.      (* current yield stress is positive *)
  Hypothesis HA : 0 < Ac.              (* the trial state is outside the surface: the point is active *)

  Lemma Bc_pos : 0 < Bc.
  Proof. unfold Bc. pose proof (Rmult_le_pos _ _ HH (Rlt_le _ _ Hphi0)). pose proof (Rmult_lt_0_compat _ _ Hlam HK). lra. Qed.
  Lemma Dc_eq : Dc = phi0 * (H + lam).
  Proof. unfold Dc, Bc, Ac. ring. Qed.
  Lemma Dc_pos : 0 < Dc.
  Proof. unfold Dc. pose proof Bc_pos. pose proof (Rmult_lt_0_compat _ _ Hlam HA). lra. Qed.
  Lemma theta_star_pos : 0 < theta_star.
  Proof. unfold theta_star. apply Rdiv_lt_0_compat; [exact HA | exact Bc_pos]. Qed.

  Notation residR := (resid Rops Rh None dt sy pt).
  Notation drdthR := (drdth Rops dRh None dt pt).

  (* the residual in closed form *)
  Lemma resid_uniform : forall th, 0 <= th -> residR th = (Ac - Bc * th) * d th.
  Proof.
    intros th Hth. unfold resid, resid_of, overstress. cbn [pairs pOld pt].
    rewrite phi_uniform by assumption. subst Rh. cbv beta.
    change (o0 Rops) with 0. change (osub Rops) with Rminus. change (oadd Rops) with Rplus.
    change (omul Rops) with Rmult. unfold Ac, Bc. rewrite dfac_eq.
    pose proof (den_pos th Hth). field. lra.
  Qed.

  Lemma drdth_uniform : forall th, 0 <= th -> drdthR th = - (Dc * (d th * d th)).
  Proof.
    intros th Hth. unfold drdth, drdth_of, slope_of, overslope. cbn [pairs pOld pt].
    rewrite phi_uniform by assumption. rewrite dphi_uniform by assumption. subst dRh. cbv beta.
    change (o0 Rops) with 0. change (osub Rops) with Rminus. change (oadd Rops) with Rplus.
    change (omul Rops) with Rmult. rewrite Dc_eq. rewrite dfac_eq.
    pose proof (den_pos th Hth). field. lra.
  Qed.

  (* EXISTENCE AND UNIQUENESS of the root on theta >= 0 *)
  Theorem radial_root_unique : forall th, 0 <= th -> (residR th = 0 <-> th = theta_star).
  Proof.
    intros th Hth. rewrite resid_uniform by assumption. pose proof (d_pos th Hth) as Hd.
    pose proof Bc_pos as HB. unfold theta_star. split; intro E.
    - assert (Ac - Bc * th = 0) by nra. apply (Rmult_eq_reg_l Bc); [|lra]. field_simplify; lra.
    - subst th. replace (Ac - Bc * (Ac / Bc)) with 0 by (field; lra). ring.
  Qed.

  (* the residual is strictly decreasing on theta >= 0 *)
  Theorem radial_resid_decreasing : forall a b, 0 <= a < b -> residR b < residR a.
  Proof.
    intros a b [Ha Hab]. rewrite !resid_uniform by lra. rewrite !dfac_eq.
    pose proof (den_pos a Ha). assert (0 <= b) by lra. pose proof (den_pos b H1).
    pose proof Dc_pos as HD. unfold Dc in HD.
    apply (Rmult_lt_reg_r ((1 + a * lam) * (1 + b * lam))); [nra|].
    replace ((Ac - Bc * b) * (1 / (1 + b * lam)) * ((1 + a * lam) * (1 + b * lam)))
      with ((Ac - Bc * b) * (1 + a * lam)) by (field; lra).
    replace ((Ac - Bc * a) * (1 / (1 + a * lam)) * ((1 + a * lam) * (1 + b * lam)))
      with ((Ac - Bc * a) * (1 + b * lam)) by (field; lra).
    nra.
  Qed.

  (* one Newton update of the source at an active point *)
  Definition newton (th : R) : R := next_v Rops true th (body Rops Rh dRh None dt sy pt th).

  (* the error recursion: e' = (lam B / D) e^2, and the clamp is not active on [0, theta*] *)
  Theorem radial_newton_step : forall th, 0 <= th <= theta_star ->
      th <= newton th <= theta_star /\
      theta_star - newton th = lam * Bc / Dc * ((theta_star - th) * (theta_star - th)).
  Proof.
    intros th [Hth Hle]. unfold newton. rewrite body_spec. rewrite next_eq. cbn [fst snd].
    rewrite resid_uniform, drdth_uniform by assumption.
    pose proof (den_pos th Hth) as Hden. pose proof Bc_pos as HB. pose proof Dc_pos as HD.
    pose proof (d_pos th Hth) as Hd.
    assert (Hstep : th - (Ac - Bc * th) * d th / - (Dc * (d th * d th))
                    = th + (Ac - Bc * th) * (1 + th * lam) / Dc).
    { rewrite dfac_eq. field. repeat split; lra. }
    rewrite Hstep.
    assert (HAB : Ac - Bc * th = Bc * (theta_star - th)) by (unfold theta_star; field; lra).
    assert (Herr : theta_star - (th + (Ac - Bc * th) * (1 + th * lam) / Dc)
                   = lam * Bc / Dc * ((theta_star - th) * (theta_star - th))).
    { rewrite HAB. unfold Dc at 1 2. unfold theta_star. field. unfold Dc in HD. split; lra. }
    assert (Hinc : 0 <= (Ac - Bc * th) * (1 + th * lam) / Dc).
    { apply Rmult_le_pos; [apply Rmult_le_pos; [rewrite HAB; apply Rmult_le_pos; lra | lra] | left; apply Rinv_0_lt_compat; lra]. }
    assert (Hq : 0 <= lam * Bc / Dc * ((theta_star - th) * (theta_star - th))).
    { apply Rmult_le_pos; [apply Rmult_le_pos; [apply Rmult_le_pos; lra | left; apply Rinv_0_lt_compat; lra] | nra]. }
    rewrite Rmax_left by lra. split; [lra | exact Herr].
  Qed.

  Definition qc : R := lam * Ac / Dc.      (* contraction factor of the first step *)
  Lemma qc_range : 0 < qc < 1.
  Proof.
    unfold qc. pose proof Dc_pos as HD. pose proof Bc_pos as HB. pose proof (Rmult_lt_0_compat _ _ Hlam HA).
    split; [apply Rdiv_lt_0_compat; lra|]. apply (Rmult_lt_reg_r Dc); [lra|].
    unfold Rdiv. rewrite Rmult_assoc, Rinv_l by lra. unfold Dc in *. lra.
  Qed.

  (* monotone convergence from theta = 0, for every number of updates *)
  Theorem radial_newton_converges : forall n,
      let th := Nat.iter n newton 0 in
      0 <= th <= theta_star /\ th <= newton th /\ theta_star - th <= theta_star * qc ^ n.
  Proof.
    pose proof theta_star_pos as Hs. pose proof qc_range as [Hq0 Hq1].
    pose proof Dc_pos as HD. pose proof Bc_pos as HB.
    induction n as [|n IH]; cbv zeta in *.
    - simpl. repeat split; try lra. apply (radial_newton_step 0). lra.
    - destruct IH as [[H0 H1] [_ Hb]].
      change (Nat.iter (S n) newton 0) with (newton (Nat.iter n newton 0)).
      set (th := Nat.iter n newton 0) in *.
      destruct (radial_newton_step th (conj H0 H1)) as [[Ha Hb'] He].
      repeat split; try lra.
      + apply radial_newton_step. lra.
      + rewrite He. simpl.
        assert (Hfac : lam * Bc / Dc * (theta_star - th) <= qc).
        { unfold qc. replace (lam * Ac / Dc) with (lam * Bc / Dc * theta_star) by (unfold theta_star; field; lra).
          apply Rmult_le_compat_l; [|lra].
          apply Rmult_le_pos; [apply Rmult_le_pos; lra | left; apply Rinv_0_lt_compat; lra]. }
        assert (0 <= theta_star - th) by lra.
        replace (lam * Bc / Dc * ((theta_star - th) * (theta_star - th)))
          with ((lam * Bc / Dc * (theta_star - th)) * (theta_star - th)) by ring.
        assert (0 <= lam * Bc / Dc * (theta_star - th)).
        { apply Rmult_le_pos; [apply Rmult_le_pos; [apply Rmult_le_pos; lra | left; apply Rinv_0_lt_compat; lra] | lra]. }
        assert (0 <= qc ^ n) by (apply pow_le; lra).
        nra.
  Qed.

  (* the residual along the iteration is >= 0 and bounded by B theta* q^n -> 0 *)
  Theorem radial_resid_bound : forall n,
      let th := Nat.iter n newton 0 in 0 <= residR th <= Bc * theta_star * qc ^ n.
  Proof.
    intros n th. destruct (radial_newton_converges n) as [[H0 H1] [_ Hb]]. fold th in H0, H1, Hb.
    rewrite resid_uniform by assumption.
    pose proof (d_pos th H0) as Hd. pose proof Bc_pos as HB.
    assert (Hd1 : d th <= 1).
    { rewrite dfac_eq. pose proof (den_pos th H0). apply (Rmult_le_reg_r (1 + th * lam)); [lra|].
      field_simplify; [|lra]. pose proof (Rmult_le_pos _ _ H0 (Rlt_le _ _ Hlam)). lra. }
    assert (HAB : Ac - Bc * th = Bc * (theta_star - th)) by (unfold theta_star; field; lra).
    rewrite HAB. assert (0 <= theta_star - th) by lra.
    assert (0 <= qc ^ n) by (apply pow_le; pose proof qc_range; lra).
    pose proof theta_star_pos.
    split; [apply Rmult_le_pos; [apply Rmult_le_pos|]; lra|].
    assert (Bc * (theta_star - th) * d th <= Bc * (theta_star - th) * 1)
      by (apply Rmult_le_compat_l; [apply Rmult_le_pos; lra | lra]).
    nra.
  Qed.

  (* for every tolerance there is an iteration budget after which the break test holds *)
  Theorem radial_eventually_small : 0 < tol * sy ->
      exists N, forall n, (N <= n)%nat ->
        small_v Rops sy tol true (residR (Nat.iter n newton 0)) = true.
  Proof.
    intro Ht. pose proof qc_range as [Hq0 Hq1]. pose proof Bc_pos as HB. pose proof theta_star_pos as Hs.
    assert (Hc : 0 < Bc * theta_star) by (apply Rmult_lt_0_compat; lra).
    destruct (pow_lt_1_zero qc) with (y := tol * sy / (Bc * theta_star)) as [N HN].
    { rewrite Rabs_right; lra. }
    { apply Rdiv_lt_0_compat; lra. }
    exists N. intros n Hn. specialize (HN n Hn). rewrite Rabs_right in HN by (apply Rle_ge, pow_le; lra).
    unfold small_v. change (oltb Rops) with Rltb. change (oabs Rops) with Rabs. change (omul Rops) with Rmult.
    apply Rltb_true. destruct (radial_resid_bound n) as [Hr0 Hr1]. cbv zeta in *.
    rewrite Rabs_right by lra.
    apply Rle_lt_trans with (1 := Hr1).
    apply (Rmult_lt_compat_l (Bc * theta_star)) in HN; [|lra].
    replace (Bc * theta_star * (tol * sy / (Bc * theta_star))) with (tol * sy) in HN by (field; lra).
    lra.
  Qed.

  (* ---- the source's loop on this instance ------------------------------------------------ *)
  Lemma radial_active : active Rops Rh sy pt = true.
  Proof.
    unfold active, ftrial. apply Rltb_true. cbn [pairs pOld pt]. subst Rh. cbv beta.
    change (o0 Rops) with 0. change (osub Rops) with Rminus. unfold Ac in HA. lra.
  Qed.

  Lemma iter_advance : forall n,
      Nat.iter n (advance Rops Rh dRh None dt sy) (pt, true, 0) = (pt, true, Nat.iter n newton 0).
  Proof.
    induction n as [|n IH]; [reflexivity|].
    change (Nat.iter (S n) (advance Rops Rh dRh None dt sy) (pt, true, 0))
      with (advance Rops Rh dRh None dt sy (Nat.iter n (advance Rops Rh dRh None dt sy) (pt, true, 0))).
    rewrite IH. reflexivity.
  Qed.

  (* C19 radial_return_converges: what `_spectral.Solve` returns for this instance, for EVERY
     iteration budget: theta in [0, theta*] (so dGamma >= 0 without any help from the clamp) and
     either the break test holds or the distance to the unique root is below theta* q^maxIter;
     and there is a budget N beyond which the break test always holds. *)
  Theorem radial_return_converges : 0 < tol * sy ->
      (forall maxIter, exists th,
          solve Rops Rh dRh None dt sy tol (fun _ _ => 0) maxIter [pt] = [(pt, true, th)] /\
          0 <= th <= theta_star /\
          (exit_small Rops Rh None dt sy tol [(pt, true, th)] = true \/
           theta_star - th <= theta_star * qc ^ maxIter)) /\
      (exists N, forall maxIter, (N <= maxIter)%nat ->
          exit_small Rops Rh None dt sy tol
            (solve Rops Rh dRh None dt sy tol (fun _ _ => 0) maxIter [pt]) = true).
  Proof.
    intro Ht.
    assert (Hinit : init Rops Rh sy (fun _ _ => 0) [pt] = [(pt, true, 0)]).
    { unfold init, theta0. cbn [map]. rewrite radial_active. reflexivity. }
    assert (Hmain : forall maxIter, exists n, (n <= maxIter)%nat /\
               solve Rops Rh dRh None dt sy tol (fun _ _ => 0) maxIter [pt] = [(pt, true, Nat.iter n newton 0)] /\
               (n = maxIter \/ exit_small Rops Rh None dt sy tol [(pt, true, Nat.iter n newton 0)] = true)).
    { intro m. unfold solve. rewrite Hinit.
      destruct (loop_exit_or_full Rh dRh None dt sy tol m [(pt, true, 0)]) as [n [Hn [E Hex]]].
      exists n. split; [exact Hn|]. cbn [map] in E. rewrite iter_advance in E. split; [exact E|].
      rewrite E in Hex. exact Hex. }
    split.
    - intro m. destruct (Hmain m) as [n [Hn [E Hex]]]. exists (Nat.iter n newton 0).
      destruct (radial_newton_converges n) as [Hr [_ Hb]]. cbv zeta in *.
      split; [exact E|]. split; [exact Hr|].
      destruct Hex as [-> | Hex]; [right; exact Hb | left; exact Hex].
    - destruct (radial_eventually_small Ht) as [N HN]. exists N. intros m Hm.
      destruct (Hmain m) as [n [Hn [E Hex]]]. rewrite E.
      destruct Hex as [-> | Hex]; [|exact Hex].
      unfold exit_small. cbn [forallb]. rewrite andb_true_r.
      unfold st_act, st_pt, st_th. cbn [fst snd]. apply HN. exact Hm.
  Qed.
End Radial.

(* non-vacuity: lam = 1, y = 2 (phi0 = 2), sy = 1, H = 1, p = 0 : A = 1, B = 3, theta* = 1/3 *)
Example radial_hypotheses_satisfiable :
  uniform 1 [(1, 2); (0, 5)] /\ 0 < 1 /\ 0 <= 1 /\ 0 < phi Rops [(1, 2); (0, 5)] 0 /\
  0 < 1 + 1 * 0 /\ 0 < Ac 1 1 [(1, 2); (0, 5)] 0.
Proof.
  assert (Hphi0 : phi Rops [(1, 2); (0, 5)] 0 = 2).
  { rewrite phi_eq. cbn [sumw fst snd]. rewrite !wterm_eq, !dfac_eq. change (oadd Rops) with Rplus. change (o0 Rops) with 0.
    replace (1 * (2 * 2) * (1 / (1 + 0 * 1) * (1 / (1 + 0 * 1))) + (0 * (5 * 5) * (1 / (1 + 0 * 0) * (1 / (1 + 0 * 0))) + 0)) with (2 * 2) by field.
    rewrite Rmax_left by lra. apply sqrt_square. lra. }
  split; [unfold uniform; apply Forall_cons; [left; reflexivity|]; apply Forall_cons; [right; reflexivity|]; apply Forall_nil|].
  split; [lra|]. split; [lra|]. split; [rewrite Hphi0; lra|]. split; [lra|].
  unfold Ac. rewrite Hphi0. lra.
Qed.
