(* C19_Return1D_proofs.v — theorems about the real-number instance of the eigenspace return
   (model: C19_Return1D.v).  Everything is quantified over the hardening functions, the rate
   law, the eigen-pairs (lam_i, y_i), the committed p and the iteration budget. *)
From Coquelicot Require Import Coquelicot.
From Coq Require Import Reals List Lra Lia Bool Psatz.
From EFModel Require Import C19_Return1D.
Import List ListNotations.
Open Scope R_scope.

Lemma Rltb_true : forall a b, Rltb a b = true <-> a < b.
Proof. intros; unfold Rltb; destruct (Rlt_dec a b); split; intros; try lra; try discriminate; auto. Qed.
Lemma Rltb_false : forall a b, Rltb a b = false <-> ~ a < b.
Proof. intros; unfold Rltb; destruct (Rlt_dec a b); split; intros; try lra; try discriminate; auto; contradiction. Qed.

Section RProofs.
  Variable Rh dRh : R -> R.
  Variable rate : option ((R -> R) * (R -> R)).
  Variable dt sy tol : R.
  Variable start : R -> R -> R.
  Hypothesis start_nonneg : forall p0 f, 0 <= start p0 f.

  Notation phiR := (phi Rops).
  Notation dphiR := (dphi Rops).
  Notation sumwR := (sumw Rops).
  Notation sumwldR := (sumwld Rops).
  Notation dGamR := (dGam Rops).
  Notation residR := (resid Rops Rh rate dt sy).
  Notation bodyR := (body Rops Rh dRh rate dt sy).
  Notation activeR := (active Rops Rh sy).
  Notation ftrialR := (ftrial Rops Rh sy).
  Notation loopR := (loop Rops Rh dRh rate dt sy tol).
  Notation solveR := (solve Rops Rh dRh rate dt sy tol start).
  Notation initR := (init Rops Rh sy start).
  Notation next_vR := (next_v Rops).
  Notation small_vR := (small_v Rops sy tol).
  Notation exit_smallR := (exit_small Rops Rh rate dt sy tol).
  Notation p_newR := (p_new Rops).
  Notation sig_eigR := (sig_eig Rops).

  Definition lam_nonneg (ps : list (R * R)) : Prop := Forall (fun q => 0 <= fst q) ps.

  (* ---------------- unfolding equations (the model over R, in ordinary notation) -------- *)
  Lemma dfac_eq : forall th l, dfac Rops th l = 1 / (1 + th * l).
  Proof. reflexivity. Qed.
  Lemma wterm_eq : forall l y d, wterm Rops l y d = (l * (y * y)) * (d * d).
  Proof. reflexivity. Qed.
  Lemma phi_eq : forall ps th, phiR ps th = sqrt (Rmax (sumwR ps th) 0).
  Proof. reflexivity. Qed.
  Lemma dGam_eq : forall pt th, dGamR pt th = th * phiR (pairs pt) th.
  Proof. reflexivity. Qed.
  Lemma p_new_eq : forall pt th, p_newR pt th = pOld pt + dGamR pt th.
  Proof. reflexivity. Qed.
  Lemma next_eq : forall act th rd,
      next_vR act th rd = Rmax (th - (if act then fst rd / snd rd else 0)) 0.
  Proof. reflexivity. Qed.

  (* ---------------- phi >= 0, theta >= 0, dGamma >= 0 ------------------------------------ *)
  Lemma phi_nonneg : forall ps th, 0 <= phiR ps th.
  Proof. intros; rewrite phi_eq; apply sqrt_pos. Qed.

  Lemma next_nonneg : forall act th rd, 0 <= next_vR act th rd.
  Proof. intros; rewrite next_eq; apply Rmax_r. Qed.

  (* an idle (frozen) point keeps its theta when theta >= 0 *)
  Lemma next_idle : forall th rd, 0 <= th -> next_vR false th rd = th.
  Proof. intros; rewrite next_eq. rewrite Rminus_0_r. apply Rmax_left; assumption. Qed.

  (* generic invariant principle for the loop: any per-point property preserved by one update
     holds after any number of iterations, whatever the break test decides *)
  Lemma loop_invariant (P : pstate -> Prop) :
    (forall q rd, P q -> P (st_pt q, st_act q, next_vR (st_act q) (st_th q) rd)) ->
    forall fuel st, Forall P st -> Forall P (loopR fuel st).
  Proof.
    intros Hstep. induction fuel as [|k IH]; intros st Hst; simpl; [assumption|].
    match goal with |- Forall P (if ?c then _ else _) => destruct c end; [assumption|].
    apply IH. rewrite map_map. rewrite Forall_map.
    eapply Forall_impl; [|exact Hst]. intros q Hq. exact (Hstep q (bodyR (st_pt q) (st_th q)) Hq).
  Qed.

  Definition good (q : @pstate R) : Prop :=
    st_act q = activeR (st_pt q) /\ 0 <= st_th q /\ (st_act q = false -> st_th q = 0).

  Lemma init_good : forall pts, Forall good (initR pts).
  Proof.
    intros. unfold init. rewrite Forall_map. apply Forall_forall. intros pt _.
    unfold good, st_act, st_pt, st_th, theta0; cbn [fst snd]. repeat split; auto.
    - destruct (activeR pt); [apply start_nonneg | change (o0 Rops) with 0; lra].
    - intro Hf; rewrite Hf; reflexivity.
  Qed.

  Lemma good_step : forall q rd, good q -> good (st_pt q, st_act q, next_vR (st_act q) (st_th q) rd).
  Proof.
    intros [[pt act] th] rd [Ha [Hth Hidle]]. unfold good, st_act, st_pt, st_th in *. cbn [fst snd] in *.
    repeat split; auto.
    - apply next_nonneg.
    - intro Hf. rewrite Hf. rewrite next_idle by assumption. auto.
  Qed.

  Theorem solve_good : forall maxIter pts, Forall good (solveR maxIter pts).
  Proof. intros. unfold solve. apply loop_invariant; [apply good_step | apply init_good]. Qed.

  (* C19 theta_nonneg : for every iteration budget, every Gauss point, every input *)
  Theorem theta_nonneg : forall maxIter pts,
      Forall (fun q => 0 <= st_th q) (solveR maxIter pts).
  Proof. intros. eapply Forall_impl; [|apply solve_good]. intros q [_ [H _]]; exact H. Qed.

  (* it even holds from an arbitrary (possibly negative) start after one update: the clamp *)
  Theorem theta_nonneg_after_update : forall act th rd, 0 <= next_vR act th rd.
  Proof. exact next_nonneg. Qed.

  (* C19 dgamma_nonneg : plastic multiplier increment >= 0 and p_new >= p_old *)
  Theorem dgamma_nonneg : forall maxIter pts,
      Forall (fun q => 0 <= dGamR (st_pt q) (st_th q) /\ pOld (st_pt q) <= p_newR (st_pt q) (st_th q))
             (solveR maxIter pts).
  Proof.
    intros. eapply Forall_impl; [|apply theta_nonneg]. intros q Hth; simpl in Hth.
    assert (0 <= dGamR (st_pt q) (st_th q)).
    { rewrite dGam_eq. apply Rmult_le_pos; [assumption | apply phi_nonneg]. }
    split; [assumption|]. rewrite p_new_eq. lra.
  Qed.

  (* the loop never touches the points themselves nor the frozen active flags *)
  Lemma loop_keeps_points : forall fuel st,
      map (fun q => (st_pt q, st_act q)) (loopR fuel st) = map (fun q => (st_pt q, st_act q)) st.
  Proof.
    induction fuel as [|k IH]; intros st; simpl; [reflexivity|].
    match goal with |- map _ (if ?c then _ else _) = _ => destruct c end; [reflexivity|].
    rewrite IH. rewrite !map_map. apply map_ext. intros [[pt act] th]; reflexivity.
  Qed.

  Lemma solve_length : forall n pts, length (solveR n pts) = length pts.
  Proof.
    intros. unfold solve.
    rewrite <- (map_length (fun q => (st_pt q, st_act q)) (loopR n (initR pts))).
    rewrite loop_keeps_points, map_length. unfold init. apply map_length.
  Qed.

  (* ---------------- histories: p never decreases along ANY sequence of steps ----------- *)
  (* one load step at one point: the trial eigen-pairs of the step are arbitrary (they depend on
     the strain and on the whole history) -- we quantify over all of them *)
  Definition step_p (maxIter : nat) (p : R) (ps : list (R * R)) : R :=
    match solveR maxIter [mkPoint ps p] with
    | q :: _ => p_newR (st_pt q) (st_th q)
    | [] => p
    end.

  Lemma solve_single : forall n pt, exists th, solveR n [pt] = [(pt, activeR pt, th)] /\ 0 <= th.
  Proof.
    intros n pt.
    pose proof (loop_keeps_points n (initR [pt])) as Hk.
    pose proof (theta_nonneg n [pt]) as Hth. unfold solve in *.
    destruct (loopR n (initR [pt])) as [|[[pt' act'] th'] [|q2 r]] eqn:E;
      unfold init, st_pt, st_act in Hk; cbn [map fst snd] in Hk; try discriminate.
    inversion Hk; subst. exists th'. split; [reflexivity|].
    inversion Hth; subst. assumption.
  Qed.

  Lemma step_p_ge : forall n p ps, p <= step_p n p ps.
  Proof.
    intros. unfold step_p. destruct (solve_single n (mkPoint ps p)) as [th [E Hth]].
    rewrite E. unfold st_pt, st_th; cbn [fst snd]. rewrite p_new_eq; cbn [pOld].
    assert (0 <= dGamR (mkPoint ps p) th).
    { rewrite dGam_eq. apply Rmult_le_pos; [assumption | apply phi_nonneg]. }
    lra.
  Qed.

  Fixpoint p_trace (n : nat) (p : R) (steps : list (list (R * R))) : list R :=
    match steps with
    | [] => [p]
    | ps :: r => p :: p_trace n (step_p n p ps) r
    end.

  Fixpoint nondecreasing (l : list R) : Prop :=
    match l with
    | a :: ((b :: _) as r) => a <= b /\ nondecreasing r
    | _ => True
    end.

  (* C19 p_monotone : accumulated plastic strain never decreases, for all strain histories *)
  Theorem p_monotone : forall n steps p, nondecreasing (p_trace n p steps).
  Proof.
    induction steps as [|ps r IH]; intros p; simpl; [exact I|].
    specialize (IH (step_p n p ps)).
    destruct r as [|ps' r']; simpl in *; (split; [apply step_p_ge | exact IH]).
  Qed.

  Theorem p_final_ge_initial : forall n steps p, p <= fold_left (step_p n) steps p.
  Proof.
    induction steps as [|ps r IH]; intros p; simpl; [lra|].
    eapply Rle_trans; [apply step_p_ge | apply IH].
  Qed.

  (* ---------------- phi is non-increasing in theta >= 0 --------------------------------- *)
  Lemma dfac_pos : forall th l, 0 <= th -> 0 <= l -> 0 < dfac Rops th l <= 1.
  Proof.
    intros th l Hth Hl. rewrite dfac_eq.
    assert (1 <= 1 + th * l) by (pose proof (Rmult_le_pos _ _ Hth Hl); lra).
    split.
    - apply Rdiv_lt_0_compat; lra.
    - apply (Rmult_le_reg_r (1 + th * l)); [lra|]. field_simplify; lra.
  Qed.

  Lemma dfac_anti : forall th1 th2 l, 0 <= th1 <= th2 -> 0 <= l -> dfac Rops th2 l <= dfac Rops th1 l.
  Proof.
    intros th1 th2 l [H1 H2] Hl. rewrite !dfac_eq.
    assert (0 <= th1 * l) by (apply Rmult_le_pos; lra).
    assert (th1 * l <= th2 * l) by (apply Rmult_le_compat_r; lra).
    unfold Rdiv. rewrite !Rmult_1_l. apply Rinv_le_contravar; lra.
  Qed.

  Lemma sumw_nonneg : forall ps th, lam_nonneg ps -> 0 <= sumwR ps th.
  Proof.
    induction ps as [|[l y] r IH]; intros th H; cbn [sumw sumwld fst snd]; [change (o0 Rops) with 0; lra|].
    inversion H; subst; cbn [fst snd] in *. specialize (IH th H3).
    rewrite wterm_eq. change (oadd Rops) with Rplus.
    assert (0 <= l * (y * y) * (dfac Rops th l * dfac Rops th l)).
    { apply Rmult_le_pos; [apply Rmult_le_pos; [assumption | nra] | nra]. }
    lra.
  Qed.

  Lemma sumw_anti : forall ps th1 th2, lam_nonneg ps -> 0 <= th1 <= th2 ->
                                        sumwR ps th2 <= sumwR ps th1.
  Proof.
    induction ps as [|[l y] r IH]; intros th1 th2 H Hth; cbn [sumw sumwld fst snd]; [change (o0 Rops) with 0; lra|].
    inversion H; subst; cbn [fst snd] in *. specialize (IH th1 th2 H3 Hth).
    rewrite !wterm_eq. change (oadd Rops) with Rplus.
    pose proof (dfac_anti th1 th2 l Hth H2) as Ha.
    assert (0 < dfac Rops th2 l <= 1) as [Hp2 _] by (apply dfac_pos; lra).
    assert (0 < dfac Rops th1 l <= 1) as [Hp1 _] by (apply dfac_pos; lra).
    assert (dfac Rops th2 l * dfac Rops th2 l <= dfac Rops th1 l * dfac Rops th1 l) by nra.
    assert (0 <= l * (y * y)) by (apply Rmult_le_pos; [assumption | nra]).
    assert (l * (y * y) * (dfac Rops th2 l * dfac Rops th2 l)
            <= l * (y * y) * (dfac Rops th1 l * dfac Rops th1 l))
      by (apply Rmult_le_compat_l; assumption).
    lra.
  Qed.

  (* C19 phi_decreasing *)
  Theorem phi_decreasing : forall ps th1 th2, lam_nonneg ps -> 0 <= th1 <= th2 ->
                                               phiR ps th2 <= phiR ps th1.
  Proof.
    intros. rewrite !phi_eq. apply sqrt_le_1_alt.
    apply Rle_max_compat_r. apply sumw_anti; assumption.
  Qed.

  (* ---------------- dphi is the derivative of phi ---------------------------------------- *)
  Lemma term_derive : forall l y th, 1 + th * l <> 0 ->
      is_derive (fun t => wterm Rops l y (dfac Rops t l)) th
                (-2 * ((wterm Rops l y (dfac Rops th l) * l) * dfac Rops th l)).
  Proof.
    intros l y th Hne.
    eapply is_derive_ext with (f := fun t => (l * (y * y)) * ((1 / (1 + t * l)) * (1 / (1 + t * l)))).
    { intro t; reflexivity. }
    auto_derive; [repeat split; assumption|]. rewrite wterm_eq, dfac_eq. field. assumption.
  Qed.

  Lemma sumw_derive : forall ps th, Forall (fun q => 1 + th * fst q <> 0) ps ->
      is_derive (fun t => sumwR ps t) th (-2 * sumwldR ps th).
  Proof.
    induction ps as [|[l y] r IH]; intros th H; cbn [sumw sumwld fst snd].
    - change (o0 Rops) with 0. replace (-2 * 0) with 0 by lra. apply (is_derive_const (K:=R_AbsRing) (V:=R_NormedModule)).
    - inversion H; subst; cbn [fst snd] in *.
      change (oadd Rops) with Rplus. change (omul Rops) with Rmult.
      replace (-2 * (wterm Rops l y (dfac Rops th l) * l * dfac Rops th l + sumwldR r th))
        with (plus (-2 * ((wterm Rops l y (dfac Rops th l) * l) * dfac Rops th l)) (-2 * sumwldR r th))
        by (unfold plus; simpl; ring).
      apply (is_derive_plus (K:=R_AbsRing) (V:=R_NormedModule)).
      + apply term_derive; assumption.
      + apply IH; assumption.
  Qed.

  Lemma nonneg_den : forall ps th, lam_nonneg ps -> 0 <= th -> Forall (fun q => 1 + th * fst q <> 0) ps.
  Proof.
    intros ps th H Hth. eapply Forall_impl; [|exact H]. intros q Hq; cbn beta in *.
    pose proof (Rmult_le_pos _ _ Hth Hq). lra.
  Qed.

  (* C19 dphi_is_derivative : wherever phi > 0, the `dphi` returned by _Phi is d phi / d theta *)
  Theorem dphi_is_derivative : forall ps th, lam_nonneg ps -> 0 <= th -> 0 < phiR ps th ->
      is_derive (fun t => phiR ps t) th (dphiR ps th).
  Proof.
    intros ps th Hl Hth Hpos.
    assert (Hsw : 0 < sumwR ps th).
    { rewrite phi_eq in Hpos. destruct (Rle_lt_dec (sumwR ps th) 0) as [Hle|]; [|assumption].
      rewrite Rmax_right in Hpos by assumption. rewrite sqrt_0 in Hpos. lra. }
    apply is_derive_ext with (f := fun t => sqrt (sumwR ps t)).
    { intro t. rewrite phi_eq. rewrite Rmax_left; [reflexivity | apply sumw_nonneg; assumption]. }
    pose proof (is_derive_sqrt (fun t => sumwR ps t) th _ (sumw_derive ps th (nonneg_den ps th Hl Hth)) Hsw) as D.
    replace (dphiR ps th) with (-2 * sumwldR ps th / (2 * sqrt (sumwR ps th))); [exact D|].
    unfold dphi, dphi_of, safe. change (oltb Rops) with Rltb.
    assert (Hphi : phiR ps th = sqrt (sumwR ps th)).
    { rewrite phi_eq. rewrite Rmax_left; [reflexivity | lra]. }
    destruct (Rltb (o0 Rops) (phiR ps th)) eqn:E.
    - change (odiv Rops) with Rdiv. change (oopp Rops) with Ropp. rewrite Hphi.
      assert (sqrt (sumwR ps th) <> 0) by (pose proof (sqrt_lt_R0 _ Hsw); lra).
      field; assumption.
    - apply Rltb_false in E. exfalso. apply E. exact Hpos.
  Qed.

  (* consequence: on theta >= 0 the derivative is <= 0 (used by the safeguarded Newton) *)
  Theorem dphi_nonpos : forall ps th, lam_nonneg ps -> 0 <= th -> dphiR ps th <= 0.
  Proof.
    intros ps th Hl Hth. unfold dphi, dphi_of, safe.
    change (oltb Rops) with Rltb. change (odiv Rops) with Rdiv. change (oopp Rops) with Ropp.
    assert (Hs : 0 <= sumwldR ps th).
    { clear -Hl Hth. induction ps as [|[l y] r IH]; cbn [sumw sumwld fst snd]; [change (o0 Rops) with 0; lra|].
      inversion Hl; subst; cbn [fst snd] in *. specialize (IH H2).
      change (oadd Rops) with Rplus. change (omul Rops) with Rmult.
      rewrite wterm_eq. destruct (dfac_pos th l Hth H1) as [Hd _].
      assert (0 <= l * (y * y) * (dfac Rops th l * dfac Rops th l) * l * dfac Rops th l).
      { assert (0 <= y * y) by nra. assert (0 <= dfac Rops th l * dfac Rops th l) by nra.
        apply Rmult_le_pos; [apply Rmult_le_pos; [apply Rmult_le_pos; [apply Rmult_le_pos|]|]|]; lra. }
      lra. }
    destruct (Rltb (o0 Rops) (phiR ps th)) eqn:E.
    - apply Rltb_true in E. change (o0 Rops) with 0 in E.
      apply Rmult_le_0_r; [lra | left; apply Rinv_0_lt_compat; assumption].
    - change (o1 Rops) with 1. unfold Rdiv. rewrite Rinv_1. lra.
  Qed.

  (* ---------------- the yield function at the returned state ----------------------------- *)
  (* in eigen-coordinates  s_i = y_i d_i  the quadratic form is  sum lam_i s_i^2  *)
  Fixpoint quad_eig (ps : list (R * R)) (s : list R) : R :=
    match ps, s with
    | q :: r, si :: s' => fst q * (si * si) + quad_eig r s'
    | _, _ => 0
    end.

  Lemma quad_of_return : forall ps th, quad_eig ps (sig_eigR ps th) = sumwR ps th.
  Proof.
    induction ps as [|[l y] r IH]; intros th; [reflexivity|].
    unfold sig_eig. cbn [map quad_eig sumw fst snd]. fold (sig_eigR r th). rewrite IH. rewrite wterm_eq.
    change (oadd Rops) with Rplus. change (omul Rops) with Rmult. ring.
  Qed.

  (* equivalent stress of the returned stress = phi(theta) *)
  Theorem phi_of_returned_stress : forall ps th,
      sqrt (Rmax (quad_eig ps (sig_eigR ps th)) 0) = phiR ps th.
  Proof. intros. rewrite quad_of_return. reflexivity. Qed.

  (* yield function at the new state: f = phi(sig_new) - sigma_y - R(p_new) *)
  Definition f_new (pt : @point R) (th : R) : R :=
    (sqrt (Rmax (quad_eig (pairs pt) (sig_eigR (pairs pt) th)) 0) - sy) - Rh (p_newR pt th).

  Lemma resid_eq : forall pt th,
      residR pt th = f_new pt th - overstress Rops rate dt (dGamR pt th).
  Proof. intros. unfold f_new. rewrite phi_of_returned_stress. reflexivity. Qed.

  Lemma exit_small_forall : forall st, exit_smallR st = true ->
      Forall (fun q => st_act q = true -> Rabs (residR (st_pt q) (st_th q)) < tol * sy) st.
  Proof.
    intros st H. unfold exit_small in H. rewrite forallb_forall in H.
    apply Forall_forall. intros q Hin Hact. specialize (H q Hin).
    unfold small_v in H. rewrite Hact in H. apply Rltb_true in H. exact H.
  Qed.

  (* idle points: theta = 0, the trial stress is returned untouched, f = f_trial <= 0 *)
  Lemma sig_eig_zero : forall ps, sig_eigR ps 0 = map snd ps.
  Proof.
    intros. unfold sig_eig. apply map_ext. intros [l y]; cbn [fst snd]. rewrite dfac_eq.
    change (omul Rops) with Rmult. change (o0 Rops) with 0. field.
  Qed.

  Theorem idle_points_return_trial : forall maxIter pts,
      Forall (fun q => st_act q = false ->
                       st_th q = 0 /\
                       sig_eigR (pairs (st_pt q)) (st_th q) = map snd (pairs (st_pt q)) /\
                       dGamR (st_pt q) (st_th q) = 0 /\
                       p_newR (st_pt q) (st_th q) = pOld (st_pt q) /\
                       f_new (st_pt q) (st_th q) <= 0)
             (solveR maxIter pts).
  Proof.
    intros. eapply Forall_impl; [|apply solve_good]. intros q [Ha [Hth Hidle]] Hf.
    specialize (Hidle Hf). rewrite Hidle. repeat split.
    - apply sig_eig_zero.
    - rewrite dGam_eq. ring.
    - rewrite p_new_eq, dGam_eq. ring.
    - unfold f_new. rewrite phi_of_returned_stress. rewrite p_new_eq, dGam_eq.
      replace (pOld (st_pt q) + 0 * phiR (pairs (st_pt q)) 0) with (pOld (st_pt q)) by ring.
      rewrite Ha in Hf. unfold active in Hf. apply Rltb_false in Hf.
      unfold ftrial in Hf. change (osub Rops) with Rminus in Hf. change (o0 Rops) with 0 in Hf. lra.
  Qed.

  (* ---------------- dissipation ---------------------------------------------------------- *)
  (* sig : d eps_p in eigen-coordinates:  d eps_p = C^-1 (sig_tr - sig)  ->  sum s_i (y_i - s_i) *)
  Fixpoint dissip (ps : list (R * R)) (th : R) : R :=
    match ps with
    | [] => 0
    | q :: r => (snd q * dfac Rops th (fst q)) * (snd q - snd q * dfac Rops th (fst q)) + dissip r th
    end.

  Lemma dissip_eq : forall ps th, Forall (fun q => 1 + th * fst q <> 0) ps ->
                                   dissip ps th = th * sumwR ps th.
  Proof.
    induction ps as [|[l y] r IH]; intros th H; cbn [dissip sumw fst snd]; [change (o0 Rops) with 0; ring|].
    inversion H; subst; cbn [fst snd] in *. rewrite (IH th H3). rewrite wterm_eq, dfac_eq.
    change (oadd Rops) with Rplus. field. assumption.
  Qed.

  (* C19 dissipation_nonneg : sigma : d eps_p = dGamma * phi >= 0 *)
  Theorem dissipation_nonneg : forall pt th, lam_nonneg (pairs pt) -> 0 <= th ->
      dissip (pairs pt) th = dGamR pt th * phiR (pairs pt) th /\ 0 <= dissip (pairs pt) th.
  Proof.
    intros pt th Hl Hth.
    rewrite dissip_eq by (apply nonneg_den; assumption).
    pose proof (sumw_nonneg (pairs pt) th Hl) as Hs.
    assert (Hsq : phiR (pairs pt) th * phiR (pairs pt) th = sumwR (pairs pt) th).
    { rewrite phi_eq. rewrite Rmax_left by assumption. apply sqrt_sqrt; assumption. }
    split.
    - rewrite dGam_eq. rewrite Rmult_assoc, Hsq. reflexivity.
    - apply Rmult_le_pos; assumption.
  Qed.

  Theorem dissipation_nonneg_solve : forall maxIter pts,
      Forall (fun pt => lam_nonneg (pairs pt)) pts ->
      Forall (fun q => 0 <= dissip (pairs (st_pt q)) (st_th q)) (solveR maxIter pts).
  Proof.
    intros n pts Hl.
    assert (Hpts : Forall (fun q => lam_nonneg (pairs (st_pt q))) (solveR n pts)).
    { apply Forall_forall. intros q Hin.
      assert (In (st_pt q, st_act q) (map (fun q => (st_pt q, st_act q)) (solveR n pts)))
        by (apply in_map_iff; exists q; auto).
      unfold solve in H. rewrite loop_keeps_points in H. unfold init in H. rewrite map_map in H.
      apply in_map_iff in H. destruct H as [pt [E Hin']]. simpl in E. injection E as E1 E2.
      rewrite <- E1. rewrite Forall_forall in Hl. apply Hl; assumption. }
    pose proof (theta_nonneg n pts) as Hth.
    rewrite Forall_forall in *. intros q Hin.
    apply dissipation_nonneg; [apply Hpts | apply Hth]; assumption.
  Qed.
End RProofs.

(* ---------------- rate-independent case: converged => on (or inside) the surface --------- *)
Section RateIndependent.
  Variable Rh dRh : R -> R.
  Variable dt sy tol : R.
  Variable start : R -> R -> R.
  Hypothesis start_nonneg : forall p0 f, 0 <= start p0 f.

  (* C19 converged_on_surface : if the loop leaves through its break test (every active point
     has |r| < tol*sigma_y) then the returned stress satisfies f <= tol*sigma_y at every point:
     active points are within tol of the surface, idle points are elastic (f = f_trial <= 0). *)
  Theorem converged_on_surface : forall maxIter pts, 0 <= tol * sy ->
      let st := solve Rops Rh dRh None dt sy tol start maxIter pts in
      exit_small Rops Rh None dt sy tol st = true ->
      Forall (fun q => f_new Rh sy (st_pt q) (st_th q) <= tol * sy /\
                       (st_act q = true -> Rabs (f_new Rh sy (st_pt q) (st_th q)) < tol * sy)) st.
  Proof.
    intros n pts Htol st Hex.
    pose proof (exit_small_forall Rh None dt sy tol st Hex) as Ha.
    pose proof (idle_points_return_trial Rh dRh None dt sy tol start start_nonneg n pts) as Hi.
    fold st in Hi. rewrite Forall_forall in *. intros q Hin.
    specialize (Ha q Hin). specialize (Hi q Hin).
    assert (Hr : forall pt th, resid Rops Rh None dt sy pt th = f_new Rh sy pt th).
    { intros. rewrite resid_eq. unfold overstress. change (o0 Rops) with 0. ring. }
    destruct (st_act q) eqn:E.
    - specialize (Ha eq_refl). rewrite Hr in Ha. split; [|intros _; exact Ha].
      apply Rabs_def2 in Ha. lra.
    - destruct (Hi eq_refl) as [_ [_ [_ [_ Hf]]]]. split; [lra | discriminate].
  Qed.
End RateIndependent.

(* ---------------- non-vacuity ----------------------------------------------------------- *)
Example lam_nonneg_sat : lam_nonneg [(3, 2); (0, 5)].
Proof. repeat constructor; simpl; lra. Qed.

(* a concrete perfectly-plastic point (lam = 1, y = 2, sigma_y = 1): the exact return is theta = 1;
   the state theta = 1 satisfies the hypotheses of converged_on_surface's conclusion and of
   dphi_is_derivative / phi_decreasing *)
Example hypotheses_satisfiable :
  let ps := [(1, 2)] in
  lam_nonneg ps /\ 0 <= 1 /\ 0 < phi Rops ps 1 /\ phi Rops ps 1 = 1 /\
  active Rops (fun _ => 0) 1 (mkPoint ps 0) = true /\
  exit_small Rops (fun _ => 0) None 1 1 (1/10) [(mkPoint ps 0, true, 1)] = true.
Proof.
  cbv zeta.
  assert (Hphi : phi Rops [(1, 2)] 1 = 1).
  { rewrite phi_eq. cbn [sumw fst snd]. rewrite wterm_eq, dfac_eq. change (oadd Rops) with Rplus. change (o0 Rops) with 0.
    replace (1 * (2 * 2) * (1 / (1 + 1 * 1) * (1 / (1 + 1 * 1))) + 0) with 1 by field.
    rewrite Rmax_left by lra. apply sqrt_1. }
  assert (Hphi0 : phi Rops [(1, 2)] 0 = 2).
  { rewrite phi_eq. cbn [sumw fst snd]. rewrite wterm_eq, dfac_eq. change (oadd Rops) with Rplus. change (o0 Rops) with 0.
    replace (1 * (2 * 2) * (1 / (1 + 0 * 1) * (1 / (1 + 0 * 1))) + 0) with (2 * 2) by field.
    rewrite Rmax_left by lra. apply sqrt_square. lra. }
  repeat split.
  - repeat constructor; cbn [fst]; lra.
  - lra.
  - rewrite Hphi; lra.
  - exact Hphi.
  - unfold active, ftrial. apply Rltb_true. cbn [pairs pOld]. change (o0 Rops) with 0 in *.
    rewrite Hphi0. change (osub Rops) with Rminus. lra.
  - unfold exit_small. cbn [forallb]. rewrite andb_true_r. unfold small_v. apply Rltb_true.
    unfold st_act, st_pt, st_th; cbn [fst snd]. unfold resid, resid_of; cbn [pairs pOld]. rewrite Hphi.
    unfold overstress. change (o0 Rops) with 0. change (osub Rops) with Rminus. change (omul Rops) with Rmult.
    change (oabs Rops) with Rabs. replace (1 - 1 - 0 - 0) with 0 by ring. rewrite Rabs_R0. lra.
Qed.
