(* C04 -- existence and uniqueness of the Lagrange (saddle-point) system WITH multi-point constraints.
   Abstract form of the bordered system of Solvers.__Solver_2:   A x + alpha G^T nu = b ,  G x = h
   (G: one row per Dirichlet line or multi-point condition).  Rank condition: the constraint rows have a right
   inverse Rm (G Rm = I).  If the reduced problem on the constraint set {G x = h}, tested against ker G, is
   uniquely solvable, the saddle system has exactly one solution (x on range n, nu on range m). *)
From Coq Require Import ZArith List Bool Lia Ring.
From EFModel Require Import C03_Csr C04_Solve.
Import ListNotations.
Open Scope Z_scope.

Section Ring.
Variable R : Type.
Variables (rO rI : R) (radd rmul rsub : R -> R -> R) (ropp : R -> R).
Variable Rth : ring_theory rO rI radd rmul rsub ropp (@eq R).
Add Ring Rring4 : Rth.
Hypothesis rmul_cancel : forall a u v, a <> rO -> rmul a u = rmul a v -> u = v.
Infix "+r" := radd (at level 50, left associativity).
Infix "*r" := rmul (at level 40, left associativity).
Infix "-r" := rsub (at level 50, left associativity).
Notation sum_over := (sum_over R rO radd).
Notation S k f := (sum_over (zrange k) f).

Lemma so_ext l f g : (forall i, In i l -> f i = g i) -> sum_over l f = sum_over l g.
Proof. apply sum_over_ext. Qed.
Lemma so_add l f g : sum_over l (fun i => f i +r g i) = sum_over l f +r sum_over l g.
Proof. apply (sum_over_add R rO rI radd rmul rsub ropp Rth). Qed.
Lemma so_scal l c f : sum_over l (fun i => c *r f i) = c *r sum_over l f.
Proof. apply (sum_over_scal R rO rI radd rmul rsub ropp Rth). Qed.
Lemma so_zero l f : (forall i, In i l -> f i = rO) -> sum_over l f = rO.
Proof. apply (sum_over_zero R rO rI radd rmul rsub ropp Rth). Qed.
Lemma so_sub l f g : sum_over l (fun i => f i -r g i) = sum_over l f -r sum_over l g.
Proof. unfold C04_Solve.sum_over. induction l; simpl; [ring|]. rewrite IHl. ring. Qed.

Lemma so_exchange l1 l2 (f : Z -> Z -> R) :
  sum_over l1 (fun i => sum_over l2 (fun k => f i k)) = sum_over l2 (fun k => sum_over l1 (fun i => f i k)).
Proof.
  induction l1 as [|a t IH].
  - simpl. symmetry. apply so_zero. intros; reflexivity.
  - change (sum_over (a :: t) (fun i => sum_over l2 (fun k => f i k)))
      with (sum_over l2 (fun k => f a k) +r sum_over t (fun i => sum_over l2 (fun k => f i k))).
    rewrite IH, <- so_add. apply so_ext. intros k _. reflexivity.
Qed.

Lemma so_delta k o (f : Z -> R) : 0 <= o < k -> S k (fun j => (if j =? o then rI else rO) *r f j) = f o.
Proof.
  intros Ho. rewrite (so_ext _ _ (fun j => if j =? o then f j else rO)) by (intros j _; destruct (j =? o); ring).
  apply (sum_over_single R rO rI radd rmul rsub ropp Rth); [apply ssorted_zrange_from|now apply in_zrange].
Qed.

Section Sys.
Variables n m : Z.
Variables alpha ainv : R.
Hypothesis alpha_inv : alpha *r ainv = rI.
Hypothesis alpha_nz : alpha <> rO.
Variable A : Z -> Z -> R.
Variable b : Z -> R.
Variable G : Z -> Z -> R.          (* G k i : coefficient of dof i in constraint line k *)
Variable h : Z -> R.
Variable Rm : Z -> Z -> R.         (* right inverse of the constraint rows *)
Hypothesis G_Rm : forall k k', 0 <= k < m -> 0 <= k' < m ->
  S n (fun i => G k i *r Rm i k') = if k =? k' then rI else rO.

Definition saddle (x nu : Z -> R) : Prop :=
  (forall i, 0 <= i < n -> S n (fun j => A i j *r x j) +r alpha *r S m (fun k => G k i *r nu k) = b i) /\
  (forall k, 0 <= k < m -> S n (fun i => G k i *r x i) = h k).

Definition kerG (w : Z -> R) : Prop := forall k, 0 <= k < m -> S n (fun i => G k i *r w i) = rO.

(* the constrained (reduced) problem in weak form: x satisfies the constraints and the residual is orthogonal
   to every vector of the constraint kernel *)
Definition reduced_sol (x : Z -> R) : Prop :=
  (forall k, 0 <= k < m -> S n (fun i => G k i *r x i) = h k) /\
  (forall w, kerG w -> S n (fun i => w i *r (S n (fun j => A i j *r x j) -r b i)) = rO).

Lemma saddle_is_reduced x nu : saddle x nu -> reduced_sol x.
Proof.
  intros [Hrow Hc]. split; [assumption|]. intros w Hw.
  rewrite (so_ext _ _ (fun i => ropp alpha *r S m (fun k => nu k *r (G k i *r w i)))).
  2:{ intros i Hi. apply in_zrange in Hi. rewrite <- (Hrow i Hi).
      assert (E : S m (fun k => nu k *r (G k i *r w i)) = w i *r S m (fun k => G k i *r nu k)).
      { rewrite <- (so_scal (zrange m) (w i)). apply so_ext. intros k _. ring. }
      rewrite E. ring. }
  rewrite so_scal, so_exchange.
  rewrite (so_zero (zrange m)); [ring|].
  intros k Hk. apply in_zrange in Hk. rewrite so_scal, (Hw k Hk). ring.
Qed.

Hypothesis reduced_unique :
  forall x x', reduced_sol x -> reduced_sol x' -> forall i, 0 <= i < n -> x i = x' i.

(* nu is recovered from G^T nu through the right inverse *)
Lemma nu_from_GT nu k' : 0 <= k' < m ->
  nu k' = S n (fun i => Rm i k' *r S m (fun k => G k i *r nu k)).
Proof.
  intros Hk'.
  rewrite (so_ext (zrange n) _ (fun i => S m (fun k => nu k *r (G k i *r Rm i k')))).
  2:{ intros i _. rewrite <- (so_scal (zrange m) (Rm i k')). apply so_ext. intros k _. ring. }
  rewrite so_exchange.
  rewrite (so_ext (zrange m) _ (fun k => (if k =? k' then rI else rO) *r nu k)).
  2:{ intros k Hk. apply in_zrange in Hk. rewrite so_scal, G_Rm by assumption. ring. }
  now rewrite so_delta.
Qed.

Theorem saddle_unique x nu x' nu' :
  saddle x nu -> saddle x' nu' ->
  (forall i, 0 <= i < n -> x i = x' i) /\ (forall k, 0 <= k < m -> nu k = nu' k).
Proof.
  intros H1 H2.
  assert (Hx : forall i, 0 <= i < n -> x i = x' i)
    by (apply reduced_unique; [exact (saddle_is_reduced x nu H1)|exact (saddle_is_reduced x' nu' H2)]).
  split; [assumption|]. intros k Hk.
  rewrite (nu_from_GT nu k Hk), (nu_from_GT nu' k Hk). apply so_ext. intros i Hi. apply in_zrange in Hi. f_equal.
  apply (rmul_cancel alpha); [assumption|].
  destruct H1 as [R1 _]. destruct H2 as [R2 _].
  transitivity (b i -r S n (fun j => A i j *r x j)); [rewrite <- (R1 i Hi); ring|].
  rewrite (so_ext (zrange n) (fun j => A i j *r x j) (fun j => A i j *r x' j))
    by (intros j Hj; apply in_zrange in Hj; now rewrite Hx).
  rewrite <- (R2 i Hi). ring.
Qed.

(* existence: the multipliers are alpha^-1 Rm^T (b - A x) *)
Theorem saddle_exists x :
  reduced_sol x ->
  saddle x (fun k => ainv *r S n (fun i => Rm i k *r (b i -r S n (fun j => A i j *r x j)))).
Proof.
  intros [Hc Hw]. split; [|assumption]. intros i Hi.
  set (r := fun i' => b i' -r S n (fun j => A i' j *r x j)).
  (* w = e_i - Rm G e_i lies in ker G *)
  set (w := fun i' => (if i' =? i then rI else rO) -r S m (fun k => Rm i' k *r G k i)).
  assert (Hker : kerG w).
  { intros k' Hk'. unfold w.
    rewrite (so_ext _ _ (fun i' => (if i' =? i then rI else rO) *r G k' i' -r S m (fun k => (G k' i' *r Rm i' k) *r G k i))).
    2:{ intros i' _.
        assert (E : S m (fun k => (G k' i' *r Rm i' k) *r G k i) = G k' i' *r S m (fun k => Rm i' k *r G k i)).
        { rewrite <- (so_scal (zrange m) (G k' i')). apply so_ext. intros k _. ring. }
        rewrite E. ring. }
    rewrite so_sub, so_delta by assumption. rewrite so_exchange.
    rewrite (so_ext (zrange m) _ (fun k => (if k =? k' then rI else rO) *r G k i)).
    2:{ intros k Hk. apply in_zrange in Hk.
        rewrite (so_ext _ _ (fun i0 => G k i *r (G k' i0 *r Rm i0 k))) by (intros; ring).
        rewrite so_scal, G_Rm by assumption. rewrite (Z.eqb_sym k' k). ring. }
    rewrite so_delta by assumption. ring. }
  specialize (Hw w Hker).
  (* 0 = sum w (A x - b) = - r i + sum_k G k i (Rm^T r)_k *)
  assert (E : r i = S m (fun k => G k i *r S n (fun i' => Rm i' k *r r i'))).
  { assert (E0 : S n (fun i' => w i' *r r i') = rO).
    { rewrite (so_ext _ _ (fun i' => ropp rI *r (w i' *r (S n (fun j => A i' j *r x j) -r b i')))) by (intros; unfold r; ring).
      rewrite so_scal, Hw. ring. }
    unfold w in E0.
    rewrite (so_ext _ _ (fun i' => (if i' =? i then rI else rO) *r r i' -r S m (fun k => G k i *r (Rm i' k *r r i')))) in E0.
    2:{ intros i' _.
        assert (E1 : S m (fun k => G k i *r (Rm i' k *r r i')) = r i' *r S m (fun k => Rm i' k *r G k i)).
        { rewrite <- (so_scal (zrange m) (r i')). apply so_ext. intros k _. ring. }
        rewrite E1. ring. }
    rewrite so_sub, so_delta, so_exchange in E0 by assumption.
    rewrite (so_ext (zrange m) _ (fun k => G k i *r S n (fun i' => Rm i' k *r r i'))) in E0
      by (intros k _; now rewrite so_scal).
    set (X := S m (fun k => G k i *r S n (fun i' => Rm i' k *r r i'))) in *.
    transitivity ((r i -r X) +r X); [ring|]. rewrite E0. ring. }
  rewrite (so_ext (zrange m) _ (fun k => ainv *r (G k i *r S n (fun i' => Rm i' k *r r i')))) by (intros; unfold r; ring).
  rewrite so_scal, <- E.
  transitivity (S n (fun j => A i j *r x j) +r (alpha *r ainv) *r r i); [ring|]. rewrite alpha_inv. unfold r. ring.
Qed.

Theorem saddle_exists_unique x :
  reduced_sol x ->
  (exists nu, saddle x nu) /\
  (forall x' nu', saddle x' nu' -> forall i, 0 <= i < n -> x' i = x i).
Proof.
  intros Hx. split; [eexists; now apply saddle_exists|].
  intros x' nu' H' i Hi.
  destruct (saddle_unique x' nu' x _ H' (saddle_exists x Hx)) as [E _]. now apply E.
Qed.
End Sys.
End Ring.
