(* C19_Return1D.v — hand-written model of EasyFEA/Models/InElastic/_spectral.py
   (`_Phi`, `Solve`): the scalar return mapping in the material eigenspace.

   The SAME Gallina code is instantiated twice through a record of field operations:
     - `Rops`  : real numbers (sqrt, Rmax, Rabs, comparison by Rlt_dec)  -> theorems, all inputs
     - `Zops`  : 30-digit decimal fixed point (every product/quotient/sqrt rounded down to 1e-30)
                 -> executable (vm_compute) instance used by the correspondence check
   The loop is vectorised exactly like the source: a list of Gauss points shares ONE loop and
   ONE break test  `np.max(np.where(active, |r|, 0)) < tol * sigma_y`.

   Source lines modelled (pinned tree):
     _Phi   : d = 1/(1+theta*lam); w = (lam*y**2)*d**2; phi = sqrt(max(sum w, 0));
              safe = where(phi > 0, phi, 1); dphi = -(sum w*lam*d)/safe
     Solve  : theta = 0; active = phi0 - sigma_y - R(pOld) > 0
              [optionally, with a rate law: theta = where(active, start, 0) with start >= 0]
              loop maxIter: phi,dphi; dG = theta*phi; r = phi - sigma_y - R(pOld+dG) [- inverse(dG/dt)]
                            slope = dR(pOld+dG) [+ dinverse(dG/dt)/dt]; ddG = phi + theta*dphi
                            drdtheta = dphi - slope*ddG
                            if max(where(active,|r|,0)) < tol*sigma_y: break
                            step = where(active, r/drdtheta, 0); theta = maximum(theta - step, 0)
              after: phi = _Phi(theta); dG = theta*phi; d = 1/(1+theta*lam); sig_eig = y*d
     Behavior.__Spectral : p_new = pOld + dGamma                                               *)
From Coq Require Import Reals List Lra Lia Bool QArith Qabs Qreals ZArith Psatz PeanoNat.
Import ListNotations.

Record Ops (F : Type) := mkOps {
  o0 : F; o1 : F;
  oadd : F -> F -> F; osub : F -> F -> F; omul : F -> F -> F; odiv : F -> F -> F;
  oopp : F -> F;
  omax : F -> F -> F; oabs : F -> F; osqrt : F -> F;
  oltb : F -> F -> bool;          (* a < b *)
  ornd : F -> F                   (* rounding of the stored iterate: identity over R *)
}.
Arguments o0 {F}. Arguments o1 {F}. Arguments oadd {F}. Arguments osub {F}. Arguments omul {F}.
Arguments odiv {F}. Arguments oopp {F}. Arguments omax {F}. Arguments oabs {F}. Arguments osqrt {F}.
Arguments oltb {F}. Arguments ornd {F}.

Section Generic.
  Context {F : Type} (K : Ops F).
  Local Notation "a + b" := (oadd K a b).
  Local Notation "a - b" := (osub K a b).
  Local Notation "a * b" := (omul K a b).
  Local Notation "a / b" := (odiv K a b).
  Local Notation "0" := (o0 K).
  Local Notation "1" := (o1 K).

  (* hardening R, dR; optional rate law (inverse, dinverse) with its dt; sigma_y; tol *)
  Variable Rh dRh : F -> F.
  Variable rate : option ((F -> F) * (F -> F)).
  Variable dt sy tol : F.
  (* pre-loop iterate of the points that yield.  The pinned source starts every point from
     theta = 0 (`start = fun _ => 0`); a rate-dependent start such as the explicit estimate
     dt*rate(f_trial)/phi0 is covered by the same theorems as long as it is >= 0. *)
  Variable start : F -> F -> F.     (* start phi0 f_trial *)

  (* one Gauss point: the pairs (lam_i, y_i) and the committed accumulated plastic strain *)
  Record point := mkPoint { pairs : list (F * F); pOld : F }.

  Definition dfac (th l : F) : F := 1 / (1 + th * l).
  Definition wterm (l y d : F) : F := (l * (y * y)) * (d * d).

  (* specification-style sums (used in the statements) *)
  Fixpoint sumw (ps : list (F * F)) (th : F) : F :=
    match ps with
    | [] => 0
    | q :: r => wterm (fst q) (snd q) (dfac th (fst q)) + sumw r th
    end.
  Fixpoint sumwld (ps : list (F * F)) (th : F) : F :=
    match ps with
    | [] => 0
    | q :: r => (wterm (fst q) (snd q) (dfac th (fst q)) * fst q) * dfac th (fst q) + sumwld r th
    end.
  (* the same two sums in one pass, sharing d and w like the source does *)
  Fixpoint sums (ps : list (F * F)) (th : F) : F * F :=
    match ps with
    | [] => (0, 0)
    | q :: r => let d := dfac th (fst q) in
                let w := wterm (fst q) (snd q) d in
                let ab := sums r th in
                (w + fst ab, (w * fst q) * d + snd ab)
    end.
  Lemma sums_spec : forall ps th, sums ps th = (sumw ps th, sumwld ps th).
  Proof. induction ps as [|q r IH]; intro th; simpl; [reflexivity|]. rewrite IH. reflexivity. Qed.

  Definition phi_of (s : F) : F := osqrt K (omax K s 0).
  Definition safe (p : F) : F := if oltb K 0 p then p else 1.
  Definition dphi_of (swld p : F) : F := oopp K swld / safe p.
  (* _Phi : (phi, dphi) both at once *)
  Definition Phi (ps : list (F * F)) (th : F) : F * F :=
    let ab := sums ps th in let p := phi_of (fst ab) in (p, dphi_of (snd ab) p).
  Definition phi (ps : list (F * F)) (th : F) : F := phi_of (sumw ps th).
  Definition dphi (ps : list (F * F)) (th : F) : F := dphi_of (sumwld ps th) (phi ps th).
  Lemma Phi_spec : forall ps th, Phi ps th = (phi ps th, dphi ps th).
  Proof. intros. unfold Phi, phi, dphi. rewrite sums_spec. reflexivity. Qed.

  Definition overstress (g : F) : F :=
    match rate with Some f => fst f (g / dt) | None => 0 end.
  Definition overslope (g : F) : F :=
    match rate with Some f => snd f (g / dt) / dt | None => 0 end.

  (* one pass of the loop body at one point: (r, drdtheta) from (phi, dphi) *)
  Definition resid_of (pt : point) (th p : F) : F :=
    ((p - sy) - Rh (pOld pt + th * p)) - overstress (th * p).
  Definition slope_of (pt : point) (th p : F) : F :=
    dRh (pOld pt + th * p) + overslope (th * p).
  Definition drdth_of (pt : point) (th p dp : F) : F :=
    dp - slope_of pt th p * (p + th * dp).
  Definition body (pt : point) (th : F) : F * F :=
    let pd := Phi (pairs pt) th in
    (resid_of pt th (fst pd), drdth_of pt th (fst pd) (snd pd)).

  Definition dGam (pt : point) (th : F) : F := th * phi (pairs pt) th.
  Definition resid (pt : point) (th : F) : F := resid_of pt th (phi (pairs pt) th).
  Definition drdth (pt : point) (th : F) : F := drdth_of pt th (phi (pairs pt) th) (dphi (pairs pt) th).
  Lemma body_spec : forall pt th, body pt th = (resid pt th, drdth pt th).
  Proof. intros. unfold body. rewrite Phi_spec. reflexivity. Qed.

  (* active_e_pg = phi(0) - sigma_y - R(pOld) > 0 : decided ONCE, before the loop (the freeze) *)
  Definition ftrial (pt : point) : F := (phi (pairs pt) 0 - sy) - Rh (pOld pt).
  Definition active (pt : point) : bool := oltb K 0 (ftrial pt).

  (* loop state per point: (point, frozen active flag, theta) *)
  Definition pstate : Type := (point * bool * F)%type.
  Definition st_pt (q : pstate) : point := fst (fst q).
  Definition st_act (q : pstate) : bool := snd (fst q).
  Definition st_th (q : pstate) : F := snd q.

  (* np.where(active, |r|, 0) < tol*sigma_y at this point *)
  Definition small_v (act : bool) (r : F) : bool :=
    oltb K (if act then oabs K r else 0) (tol * sy).
  (* step = where(active, r/drdtheta, 0) ; theta = maximum(theta - step, 0) *)
  Definition next_v (act : bool) (th : F) (rd : F * F) : F :=
    omax K (ornd K (th - (if act then fst rd / snd rd else 0))) 0.

  Fixpoint loop (fuel : nat) (st : list pstate) : list pstate :=
    match fuel with
    | O => st
    | S k =>
        let vs := map (fun q => (q, body (st_pt q) (st_th q))) st in
        if forallb (fun v => small_v (st_act (fst v)) (fst (snd v))) vs then st
        else loop k (map (fun v => (st_pt (fst v), st_act (fst v),
                                    next_v (st_act (fst v)) (st_th (fst v)) (snd v))) vs)
    end.

  Definition theta0 (pt : point) : F :=
    if active pt then start (phi (pairs pt) 0) (ftrial pt) else 0.
  (* one loop pass at ONE point: it reads nothing but that point's own data *)
  Definition advance (q : pstate) : pstate :=
    (st_pt q, st_act q, next_v (st_act q) (st_th q) (body (st_pt q) (st_th q))).

  (* "result of a batch = results of its points": whatever the other Gauss points of the call
     are, the loop maps every point through its OWN update, the same number n of times; the
     shared iteration count n (set by the slowest point) is the only coupling. *)
  Lemma iter_shift : forall (A : Type) (f : A -> A) n x, Nat.iter (S n) f x = Nat.iter n f (f x).
  Proof. induction n as [|n IHn]; intro x; [reflexivity|]. simpl in *. rewrite IHn. reflexivity. Qed.

  Lemma loop_pointwise : forall fuel st,
      exists n, (n <= fuel)%nat /\ loop fuel st = map (Nat.iter n advance) st.
  Proof.
    induction fuel as [|k IH]; intros st.
    - exists O. split; [apply le_n|]. simpl. symmetry. rewrite <- (map_id st) at 2.
      apply map_ext. reflexivity.
    - simpl.
      match goal with |- exists n, _ /\ (if ?c then _ else _) = _ => destruct c end.
      + exists O. split; [apply Nat.le_0_l|]. simpl. symmetry. rewrite <- (map_id st) at 2.
        apply map_ext. reflexivity.
      + rewrite map_map.
        destruct (IH (map (fun q => (st_pt q, st_act q,
                     next_v (st_act q) (st_th q) (body (st_pt q) (st_th q)))) st)) as [n [Hn E]].
        exists (S n). split; [apply le_n_S; exact Hn|].
        cbn [fst snd]. rewrite E. rewrite map_map. apply map_ext. intro q.
        rewrite iter_shift. reflexivity.
  Qed.

  Definition init (pts : list point) : list pstate := map (fun pt => (pt, active pt, theta0 pt)) pts.
  Definition solve (maxIter : nat) (pts : list point) : list pstate := loop maxIter (init pts).

  (* whether the loop left through its `break` (the source does not return this; __Spectral
     reports converged = True unconditionally) *)
  Definition exit_small (st : list pstate) : bool :=
    forallb (fun q => small_v (st_act q) (resid (st_pt q) (st_th q))) st.

  (* what Solve returns per point (theta, phi, dGamma, eigen-stress y*d) and what __Spectral stores *)
  Definition sig_eig (ps : list (F * F)) (th : F) : list F :=
    map (fun q => snd q * dfac th (fst q)) ps.
  Definition p_new (pt : point) (th : F) : F := pOld pt + dGam pt th.
  Definition out_point (q : pstate) : F * F * F * list F :=
    (st_th q, phi (pairs (st_pt q)) (st_th q), dGam (st_pt q) (st_th q),
     sig_eig (pairs (st_pt q)) (st_th q)).
End Generic.

(* -------------------------------------------------------------------------------------- *)
(* instance over R                                                                           *)
(* -------------------------------------------------------------------------------------- *)
Definition Rltb (a b : R) : bool := if Rlt_dec a b then true else false.
Definition Rops : Ops R :=
  mkOps R 0%R 1%R Rplus Rminus Rmult Rdiv Ropp Rmax Rabs sqrt Rltb (fun x => x).

(* -------------------------------------------------------------------------------------- *)
(* executable instance: 30-digit decimal fixed point on Z (value = z / 10^30, rounded down)   *)
(* -------------------------------------------------------------------------------------- *)
Definition grid : Z := (10 ^ 30)%Z.
Definition Zops : Ops Z :=
  mkOps Z 0%Z grid Z.add Z.sub (fun a b => (a * b / grid)%Z) (fun a b => (a * grid / b)%Z)
        Z.opp Z.max Z.abs (fun a => Z.sqrt (Z.max a 0 * grid)) Z.ltb (fun a => a).

(* linear hardening R(p) = H p, dR = H, no rate law : the executable radial / eigenspace return.
   All numbers are fixed-point (scaled by 10^30). *)
Definition zsolve_linear (H sy tol : Z) (maxIter : nat) (pts : list (@point Z))
  : list (Z * Z * Z * list Z) :=
  map (out_point Zops)
      (solve Zops (fun p => (H * p / grid)%Z) (fun _ => H) None grid sy tol (fun _ _ => 0%Z) maxIter pts).
