(* C15 — the MEMORY store and the DISK store are interchangeable.

   Two runs of the "same" operation list that differ ONLY in where iterations are kept — the folder given
   to SetFolder / SaveLoad: "" (memory) or any sequence of non-empty folders, changed at any time — restore
   and read exactly the same things: live field VALUES after every op (hence after every Set_Iter / Result),
   mesh index, number of meshes, the values of every stored iteration (what Get_results returns), Niter.

   Device: a heap-free, folder-free ABSTRACT machine on (live values, mesh, nmesh, history of saved dicts);
   `abs_step` shows that every concrete step (whatever the folders, in-memory or on-disk entries) refines
   it under the invariant `inv` of EFModel.C15_IterStore.

   Scope, stated precisely:
   - op lists WITHOUT user in-place writes (`no_writes`): a write through the dict returned by Set_Iter reaches
     the live field, which the abstract machine (no aliasing) does not represent. (Writes never reach the store
     under deep_read: `no_alias_backward(_at)`; the live-field effect of such a write is the same in both runs
     — same binding discipline — but that is not proved here.)
   - MESHES: in the model the mesh history is a list held by the simulation object and addressed by index
     (`mesh`, `nmesh`); it is never resolved through the folder.  The implementation does so only after
     `Save` (mesh list replaced by paths relative to simu.folder): the known finding
     `mesh-redirected-by-folder-change-after-Save` lives exactly there and is OUTSIDE this theorem: the model's
     `SaveLoad` keeps the meshes addressable by index whatever the folder becomes ("mesh paths pinned like
     iteration paths"). *)
From Coq Require Import List Arith Lia Bool NArith PeanoNat.
Import ListNotations.
From EFModel Require Import C15_IterStore.
Set Implicit Arguments.

(* forget where iterations are kept *)
Definition strip (o : op) : op :=
  match o with SetFolder _ => SetFolder 0 | SaveLoad _ => SaveLoad 0 | _ => o end.
Definition to_mem (ops : list op) : list op := map strip ops.

Definition mergev (bs : list bool) (new old : list val) : list val :=
  map (fun t : bool * (val * val) => if fst t then fst (snd t) else snd (snd t)) (combine bs (combine new old)).

Record astate := mka { a_vals : list val; a_mesh : nat; a_nmesh : nat; a_hist : list dictv }.

Definition aneg (k : nat) (a : astate) : nat :=
  if (k =? 0) || (length (a_hist a) <? k) then length (a_hist a) else length (a_hist a) - k.

Definition aset (c : config) (i : nat) (a : astate) : astate :=
  match nth_error (a_hist a) i with
  | None => a
  | Some g => mka (mergev (stored c) (snd g) (a_vals a)) (fst g) (a_nmesh a) (a_hist a)
  end.

Definition astep (c : config) (o : op) (a : astate) : astate :=
  match o with
  | Solve vs => mka (fit (nf c) vs) (a_mesh a) (a_nmesh a) (a_hist a)
  | SaveIter => mka (a_vals a) (a_mesh a) (a_nmesh a) (a_hist a ++ [(a_mesh a, a_vals a)])
  | SetIter i | ResultQ i _ => aset c i a
  | SetIterNeg k | ResultQNeg k _ => aset c (aneg k a) a
  | SetMesh => mka (repeat zero (nf c)) (a_nmesh a) (S (a_nmesh a)) (a_hist a)
  | SetFolder _ | SaveLoad _ | GetResults _ | GetResultsNeg _ | WriteRet _ _ | WriteRetAt _ _ _ => a
  end.

Fixpoint arun (c : config) (ops : list op) (a : astate) : astate :=
  match ops with [] => a | o :: t => arun c t (astep c o a) end.

Definition absv (s : state) : astate := mka (vals s) (mesh s) (nmesh s) (ghost s).

Lemma astep_strip : forall c o a, astep c (strip o) a = astep c o a.
Proof. intros c o a. destruct o; reflexivity. Qed.

Lemma arun_strip : forall c ops a, arun c (map strip ops) a = arun c ops a.
Proof. induction ops; intros; simpl; auto. rewrite astep_strip. auto. Qed.

Lemma map_merge : forall (f : loc -> val) bs new old,
  map f (merge bs new old) = mergev bs (map f new) (map f old).
Proof.
  unfold merge, mergev. induction bs as [|b bs IH]; intros new old; simpl; auto.
  destruct new, old; simpl; auto. f_equal; [destruct b; reflexivity|apply IH].
Qed.

Lemma map_repeat_ : forall (X Y : Type) (f : X -> Y) x n, map f (repeat x n) = repeat (f x) n.
Proof. induction n; simpl; auto. f_equal; auto. Qed.

Lemma vals_ext : forall c s ext, inv c s -> map (rd (heap s ++ ext)) (live s) = vals s.
Proof. intros c s ext I. unfold vals. apply map_rd_app_l. apply (i_live I). Qed.

(* Set_Iter on the concrete state = the abstract restore, whatever kind of entry is read *)
Lemma abs_set_iter : forall c s i, cfg_ok c -> inv c s -> absv (set_iter c i s) = aset c i (absv s).
Proof.
  intros c s i OK I. unfold aset. simpl.
  destruct (nth_error (store s) i) as [e|] eqn:He.
  - destruct (ghost_of_store I He) as [g Hg]. rewrite Hg.
    destruct (read_entry_spec OK I He Hg) as (ext & ls & R & R1 & R2 & _ & _).
    unfold set_iter. rewrite R. unfold absv, vals. destruct (restore_binds c); simpl.
    + rewrite map_merge, R1. rewrite (vals_ext ext I). reflexivity.
    + rewrite map_merge. rewrite map_rd_alloc. rewrite R1.
      rewrite <- app_assoc. rewrite (vals_ext _ I). reflexivity.
  - assert (Hg : nth_error (ghost s) i = None).
    { apply nth_error_None. rewrite (i_len I). apply nth_error_None. auto. }
    rewrite Hg. unfold set_iter. rewrite (read_entry_none c s i He). reflexivity.
Qed.

Lemma aneg_absv : forall c s k, inv c s -> aneg k (absv s) = neg_idx k s.
Proof. intros c s k I. unfold aneg, neg_idx. simpl. rewrite (i_len I). reflexivity. Qed.

Lemma abs_result_q : forall c s i k, cfg_ok c -> inv c s -> absv (result_q c i k s) = aset c i (absv s).
Proof.
  intros c s i k OK I. rewrite <- (abs_set_iter i OK I).
  pose proof (inv_setiter i OK I) as J. unfold result_q, absv, vals. simpl.
  rewrite (map_rd_app_l _ _ (i_live J)). reflexivity.
Qed.

Lemma abs_get_results : forall c s i, cfg_ok c -> inv c s -> absv (get_results c i s) = absv s.
Proof.
  intros c s i OK I. destruct (get_results_pure c s i) as (H1 & H2 & H3 & _ & _ & _ & H7 & ext & H8).
  simpl in *. unfold absv, vals. rewrite H1, H2, H3, H7, H8. rewrite (vals_ext ext I). reflexivity.
Qed.

(* every concrete step that is not a user write refines the abstract step *)
Theorem abs_step : forall c o s, cfg_ok c -> inv c s -> is_write o = false ->
  absv (step c o s) = astep c o (absv s).
Proof.
  intros c o s OK I W. pose proof OK as (Hr & Hs & Hp & Hl). destruct o; simpl in W; try discriminate.
  - (* Solve *) simpl. rewrite Hr. unfold absv, vals. simpl. rewrite map_rd_alloc. reflexivity.
  - (* SaveIter *) simpl. rewrite Hs. destruct (folder s =? 0); unfold absv, vals; simpl; auto.
    rewrite (map_rd_app_l _ _ (i_live I)). reflexivity.
  - reflexivity.
  - apply abs_get_results; auto.
  - apply abs_set_iter; auto.
  - apply abs_result_q; auto.
  - (* SetMesh *) unfold absv, vals. simpl. f_equal.
    rewrite map_repeat_. f_equal. unfold rd. rewrite app_nth2 by lia. rewrite Nat.sub_diag. reflexivity.
  - (* SaveLoad *) unfold absv, vals. simpl. rewrite map_rd_reloc. reflexivity.
  - change (absv (get_results c (neg_idx k s) s) = absv s). apply abs_get_results; auto.
  - change (absv (set_iter c (neg_idx k s) s) = aset c (aneg k (absv s)) (absv s)).
    rewrite (aneg_absv k I). apply abs_set_iter; auto.
  - change (absv (result_q c (neg_idx j s) k s) = aset c (aneg j (absv s)) (absv s)).
    rewrite (aneg_absv j I). apply abs_result_q; auto.
Qed.

Theorem abs_run : forall c ops s, cfg_ok c -> inv c s -> no_writes ops = true ->
  absv (run c ops s) = arun c ops (absv s).
Proof.
  intros c ops. induction ops as [|o t IH]; intros s OK I W; simpl; auto.
  simpl in W. apply andb_true_iff in W. destruct W as [W1 W2].
  assert (Wo : is_write o = false) by (destruct (is_write o); auto; discriminate).
  rewrite IH; auto.
  - rewrite (@abs_step c o s OK I Wo). reflexivity.
  - apply inv_step; auto.
Qed.

(* under the invariant every stored iteration, in memory or on disk, reads as its ghost *)
Lemma store_vals_ghost : forall c s, cfg_ok c -> inv c s -> store_vals c s = map (@Some dictv) (ghost s).
Proof.
  intros c s OK I. pose proof OK as (_ & _ & Hp & _).
  apply nth_ext with (d := None) (d' := None).
  - unfold store_vals. rewrite !map_length. symmetry. apply (i_len I).
  - intros n Hn. unfold store_vals in *. rewrite map_length in Hn.
    destruct (nth_error (store s) n) as [e|] eqn:He; [|apply nth_error_None in He; lia].
    destruct (ghost_of_store I He) as [g Hg].
    rewrite (nth_indep _ None (entry_vals c s e)) by (rewrite map_length; auto).
    rewrite map_nth. rewrite (nth_error_nth _ _ _ He).
    assert (Hn2 : n < length (ghost s)) by (rewrite (i_len I); auto).
    rewrite (nth_indep _ None (Some g)) by (rewrite map_length; auto).
    rewrite map_nth. rewrite (nth_error_nth _ _ _ Hg).
    pose proof (i_match I _ He Hg) as M. destruct e as [m ls|p]; simpl in *.
    + destruct M as (-> & M2 & _). rewrite M2. destruct g; reflexivity.
    + destruct M as (_ & M2). rewrite Hp. exact M2.
Qed.

Lemma strip_is_write : forall o, is_write (strip o) = is_write o.
Proof. destruct o; reflexivity. Qed.

Lemma no_writes_strip : forall ops1 ops2, map strip ops1 = map strip ops2 -> no_writes ops1 = no_writes ops2.
Proof.
  induction ops1 as [|o t IH]; intros [|o2 t2] H; simpl in *; try discriminate; auto.
  inversion H. rewrite <- (strip_is_write o), <- (strip_is_write o2), H1. f_equal. apply IH. auto.
Qed.

(* MAIN: two runs that differ only in WHERE iterations are kept observe the same *)
Theorem mem_disk_equiv : forall c ops1 ops2, cfg_ok c -> map strip ops1 = map strip ops2 ->
  no_writes ops1 = true ->
  absv (reach c ops1) = absv (reach c ops2) /\
  store_vals c (reach c ops1) = store_vals c (reach c ops2).
Proof.
  intros c ops1 ops2 OK E W1. assert (W2 : no_writes ops2 = true) by (rewrite <- (no_writes_strip _ _ E); auto).
  assert (A : absv (reach c ops1) = absv (reach c ops2)).
  { unfold reach. rewrite (abs_run _ OK (inv_init c) W1), (abs_run _ OK (inv_init c) W2).
    rewrite <- (arun_strip c ops1), <- (arun_strip c ops2), E. reflexivity. }
  split; auto.
  rewrite (store_vals_ghost OK (inv_reach ops1 OK (or_intror W1))).
  rewrite (store_vals_ghost OK (inv_reach ops2 OK (or_intror W2))).
  assert (G : a_hist (absv (reach c ops1)) = a_hist (absv (reach c ops2))) by (rewrite A; auto).
  simpl in G. rewrite G. reflexivity.
Qed.

(* ... at every intermediate point (after every Set_Iter / Result / Get_results of the history) *)
Corollary mem_disk_equiv_prefix : forall c ops1 ops2 n, cfg_ok c -> map strip ops1 = map strip ops2 ->
  no_writes ops1 = true ->
  absv (reach c (firstn n ops1)) = absv (reach c (firstn n ops2)) /\
  store_vals c (reach c (firstn n ops1)) = store_vals c (reach c (firstn n ops2)).
Proof.
  intros c ops1 ops2 n OK E W. apply mem_disk_equiv; auto.
  - rewrite <- !firstn_map, E. reflexivity.
  - unfold no_writes in *. rewrite forallb_forall in *. intros x Hx. apply W.
    rewrite <- (firstn_skipn n ops1). apply in_or_app. auto.
Qed.

(* the all-in-memory run of an op list restores what its on-disk run restores *)
Corollary restore_mem_eq_restore_disk : forall c ops, cfg_ok c -> no_writes ops = true ->
  absv (reach c (to_mem ops)) = absv (reach c ops) /\ store_vals c (reach c (to_mem ops)) = store_vals c (reach c ops).
Proof.
  intros c ops OK W. apply mem_disk_equiv; auto.
  - unfold to_mem. rewrite map_map. apply map_ext. intros o. destruct o; reflexivity.
  - unfold to_mem. rewrite (no_writes_strip (map strip ops) ops); auto.
    rewrite map_map. apply map_ext. intros o. destruct o; reflexivity.
Qed.

(* non-vacuity: folders changed between saves, a Save/Load and several meshes in the disk run; the memory
   run keeps dicts; entries are of different KINDS, observations agree *)
Example mem_disk_nonvacuous :
  let c := cfg_demo true in
  let ops := [SetFolder 1; Sv [5;6]; SaveIter; SetFolder 2; SetMesh; Sv [7;8]; SaveIter; SetIterNeg 2;
              SetFolder 0; Sv [1;2]; SaveIter; SaveLoad 3; SetFolder 4; Sv [3;4]; SaveIter; ResultQ 1 0; GetResults 0; SetIter 3]%N in
  no_writes ops = true /\
  store (reach c ops) = [OnDisk (1, 0); OnDisk (2, 1); InMem 0 [22; 23]; OnDisk (4, 3)] /\
  forallb (fun e => match e with InMem _ _ => true | OnDisk _ => false end) (store (reach c (to_mem ops))) = true /\
  absv (reach c (to_mem ops)) = absv (reach c ops) /\
  a_vals (absv (reach c ops)) = map A [3;4]%N /\ a_mesh (absv (reach c ops)) = 0.
Proof. vm_compute. repeat split; reflexivity. Qed.

Print Assumptions mem_disk_equiv.
Print Assumptions mem_disk_equiv_prefix.
Print Assumptions restore_mem_eq_restore_disk.
