(* C18 — invariant tables of HyperElasticState: record, checker, soundness.
   Variables of the polynomial expressions (1-based PEX index):
     1..6  cxx cyy czz cyz cxz cxy   (components of the symmetric C, Kelvin-Mandel order)
     7     r2   (the value np.sqrt(2); identities are proved modulo r2*r2 = 2)
     8..10 Ax Ay Az,  11..13 Bx By Bz   (direction vectors of the anisotropic invariants)
   The k-th Kelvin-Mandel coordinate of C is v_k = c_k (k < 3), v_k = r2 * c_k (k >= 3), hence
   d/dv_k = d/dc_k (k < 3) and d/dv_k = (1/r2) d/dc_k = (r2/2) d/dc_k (k >= 3).  [km_pd] *)
From Coq Require Import QArith Qreals Reals Ring_polynom List Bool Lia Lra.
From EFLib Require Import PolyQ.
Import ListNotations.

Record invtab := { it_k : nat; it_dirs : nat;
                   it_I : PExpr Q; it_d1 : list (PExpr Q); it_d2 : list (list (PExpr Q));
                   it_cof1 : list (PExpr Q); it_cof2 : list (list (PExpr Q)) }.

Definition r2var : PExpr Q := PEX Q 7.
Definition r2rel : PExpr Q := PEsub (PEmul r2var r2var) (PEc (2#1)).
Definition km_fac (k : nat) : PExpr Q := if Nat.ltb k 3 then PEc (1#1) else PEmul (PEc (1#2)) r2var.
(* formal derivative with respect to the k-th (0-based) Kelvin-Mandel coordinate *)
Definition km_pd (k : nat) (e : PExpr Q) : PExpr Q := PEmul (km_fac k) (pd (Pos.of_nat (S k)) e).

Definition r2_of (l : list R) : R := BinList.nth 0%R 7%positive l.

(* e1 = e2 + cof * (r2^2 - 2) as polynomials *)
Definition eq_mod (e1 e2 cof : PExpr Q) : bool := pe_eqb (PEsub e1 e2) (PEmul cof r2rel).

Lemma eq_mod_sound e1 e2 cof : eq_mod e1 e2 cof = true ->
  forall l, (r2_of l * r2_of l = 2)%R -> Reval l e1 = Reval l e2.
Proof.
  intros H l Hr. apply (Qnorm_sound l) in H. unfold Reval in *. simpl in H.
  unfold r2_of in Hr. simpl in Hr.
  replace (Q2R (2#1)) with 2%R in H by (unfold Q2R; simpl; lra).
  rewrite Hr in H. lra.
Qed.

Fixpoint chk_list (f : nat -> PExpr Q -> PExpr Q -> bool) (k : nat) (es cs : list (PExpr Q)) : bool :=
  match es, cs with
  | [], [] => true
  | e :: es', c :: cs' => f k e c && chk_list f (S k) es' cs'
  | _, _ => false
  end.

Definition chk_d1 (it : invtab) : bool :=
  Nat.eqb (length (it_d1 it)) 6 &&
  chk_list (fun k e c => eq_mod e (km_pd k (it_I it)) c) 0 (it_d1 it) (it_cof1 it).

Fixpoint chk_rows (d1 : list (PExpr Q)) (rows cofs : list (list (PExpr Q))) : bool :=
  match d1, rows, cofs with
  | [], [], [] => true
  | g :: d1', row :: rows', cf :: cofs' =>
      Nat.eqb (length row) 6 && chk_list (fun k e c => eq_mod e (km_pd k g) c) 0 row cf && chk_rows d1' rows' cofs'
  | _, _, _ => false
  end.
Definition chk_d2 (it : invtab) : bool := chk_rows (it_d1 it) (it_d2 it) (it_cof2 it).

Definition chk_inv (it : invtab) : bool := chk_d1 it && chk_d2 it.

Lemma chk_list_sound f k0 es cs : chk_list f k0 es cs = true ->
  forall k e, nth_error es k = Some e -> exists c, f (k0 + k)%nat e c = true.
Proof.
  revert k0 cs. induction es as [|e0 es IH]; intros k0 cs H k e Hk.
  - destruct k; discriminate.
  - destruct cs as [|c0 cs]; [discriminate|]. simpl in H. apply andb_true_iff in H. destruct H as [H0 H1].
    destruct k as [|k]; simpl in Hk.
    + inversion Hk; subst. exists c0. now rewrite Nat.add_0_r.
    + destruct (IH _ _ H1 k e Hk) as [c Hc]. exists c. now rewrite Nat.add_succ_r.
Qed.

Definition d1_spec (it : invtab) : Prop :=
  length (it_d1 it) = 6%nat /\
  forall l, (r2_of l * r2_of l = 2)%R ->
  forall k g, nth_error (it_d1 it) k = Some g -> Reval l g = Reval l (km_pd k (it_I it)).

Definition d2_spec (it : invtab) : Prop :=
  length (it_d2 it) = length (it_d1 it) /\
  forall l, (r2_of l * r2_of l = 2)%R ->
  forall j g row, nth_error (it_d1 it) j = Some g -> nth_error (it_d2 it) j = Some row ->
  length row = 6%nat /\
  forall k h, nth_error row k = Some h -> Reval l h = Reval l (km_pd k g).

Lemma chk_d1_sound it : chk_d1 it = true -> d1_spec it.
Proof.
  unfold chk_d1, d1_spec. intro H. apply andb_true_iff in H. destruct H as [Hl H].
  split. now apply Nat.eqb_eq.
  intros l Hr k g Hk. destruct (chk_list_sound _ _ _ _ H k g Hk) as [c Hc]. simpl in Hc.
  eapply eq_mod_sound; eauto.
Qed.

Lemma chk_rows_sound d1 : forall rows cofs, chk_rows d1 rows cofs = true ->
  length rows = length d1 /\
  forall l, (r2_of l * r2_of l = 2)%R ->
  forall j g row, nth_error d1 j = Some g -> nth_error rows j = Some row ->
  length row = 6%nat /\ forall k h, nth_error row k = Some h -> Reval l h = Reval l (km_pd k g).
Proof.
  induction d1 as [|g0 d1 IH]; intros rows cofs H.
  - destruct rows; destruct cofs; try discriminate. split; [reflexivity|]. intros l Hr j g row Hj. destruct j; discriminate.
  - destruct rows as [|r0 rows]; [discriminate|]. destruct cofs as [|c0 cofs]; [discriminate|].
    simpl in H. apply andb_true_iff in H. destruct H as [H Hrest]. apply andb_true_iff in H. destruct H as [Hlen H0].
    destruct (IH _ _ Hrest) as [IHl IHs]. split; [simpl; now rewrite IHl|].
    intros l Hr j g row Hj Hrow. destruct j as [|j]; simpl in Hj, Hrow.
    + inversion Hj; inversion Hrow; subst. split. now apply Nat.eqb_eq.
      intros k h Hk. destruct (chk_list_sound _ _ _ _ H0 k h Hk) as [c Hc]. simpl in Hc. eapply eq_mod_sound; eauto.
    + eapply IHs; eauto.
Qed.

Lemma chk_d2_sound it : chk_d2 it = true -> d2_spec it.
Proof. unfold chk_d2, d2_spec. intro H. now apply chk_rows_sound in H. Qed.

(* all second-derivative entries are the zero polynomial *)
Definition d2_zero (it : invtab) : bool :=
  forallb (fun row => forallb (fun e => pe_eqb e PEO) row) (it_d2 it).

Lemma d2_zero_sound it : d2_zero it = true ->
  forall l row e, In row (it_d2 it) -> In e row -> Reval l e = 0%R.
Proof.
  unfold d2_zero. intros H l row e Hrow He.
  rewrite forallb_forall in H. specialize (H row Hrow). rewrite forallb_forall in H. specialize (H e He).
  apply (Qnorm_sound l) in H. exact H.
Qed.

Definition find_inv (all : list invtab) (k : nat) : option invtab :=
  find (fun it => Nat.eqb (it_k it) k) all.
