(* C03 -- node renumbering equivariance and canonical form of the assembled pattern *)
From Coq Require Import ZArith List Bool Lia.
From EFModel Require Import C03_Csr C03_Assembly.
Import ListNotations.
Open Scope Z_scope.

(* the dof relabelling induced by a node relabelling pi: node*dof_n + d |-> pi(node)*dof_n + d *)
Definition phat (dof_n : Z) (pi : Z -> Z) (i : Z) : Z := pi (i / dof_n) * dof_n + i mod dof_n.

Lemma phat_dof dof_n pi n d :
  0 < dof_n -> 0 <= d < dof_n -> phat dof_n pi (n * dof_n + d) = pi n * dof_n + d.
Proof.
  intros H Hd.
  assert (E1 : (n * dof_n + d) / dof_n = n).
  { rewrite Z.div_add_l by lia. rewrite Z.div_small by lia. lia. }
  assert (E2 : (n * dof_n + d) mod dof_n = d).
  { rewrite Z.add_comm, Z.mod_add by lia. apply Z.mod_small. lia. }
  unfold phat. now rewrite E1, E2.
Qed.

Lemma flat_map_map_commute {A B C D} (f : B -> list D) (f' : A -> list C) (h : A -> B) (p : C -> D) l :
  (forall x, In x l -> f (h x) = map p (f' x)) -> flat_map f (map h l) = map p (flat_map f' l).
Proof.
  induction l as [|a t IH]; intros H; simpl; [reflexivity|].
  rewrite map_app, H by (now left). f_equal. apply IH. intros x Hx. apply H. now right.
Qed.

Lemma assembly_e_map dof_n pi conn :
  0 < dof_n -> assembly_e dof_n (map pi conn) = map (phat dof_n pi) (assembly_e dof_n conn).
Proof.
  intros H. unfold assembly_e. apply flat_map_map_commute. intros n _.
  unfold node_dofs. rewrite map_map. apply map_ext_in. intros d Hd. apply in_zrange in Hd.
  symmetry. now apply phat_dof.
Qed.

Lemma repeat_map {A B} (f : A -> B) x n : map f (repeat x n) = repeat (f x) n.
Proof. induction n; simpl; [reflexivity|]. now rewrite IHn. Qed.

Lemma np_repeat_each_map {A B} (f : A -> B) n l : np_repeat_each n (map f l) = map f (np_repeat_each n l).
Proof.
  unfold np_repeat_each. induction l; simpl; [reflexivity|]. now rewrite map_app, IHl, repeat_map.
Qed.

Lemma np_tile_map {A B} (f : A -> B) n l : np_tile n (map f l) = map f (np_tile n l).
Proof. unfold np_tile. induction n; simpl; [reflexivity|]. now rewrite map_app, IHn. Qed.

Lemma rows_e_map dof_n pi conn :
  0 < dof_n -> rows_e dof_n (map pi conn) = map (phat dof_n pi) (rows_e dof_n conn).
Proof. intros H. unfold rows_e. now rewrite assembly_e_map, map_length, np_repeat_each_map. Qed.

Lemma cols_e_map dof_n pi conn :
  0 < dof_n -> cols_e dof_n (map pi conn) = map (phat dof_n pi) (cols_e dof_n conn).
Proof. intros H. unfold cols_e. now rewrite assembly_e_map, map_length, np_tile_map. Qed.

Definition renumber (pi : Z -> Z) (gs : list group) : list group := map (map (map pi)) gs.

Lemma rows_cols_renumber dof_n isMatrix pi gs :
  0 < dof_n ->
  let rc := rows_cols dof_n isMatrix gs in
  rows_cols dof_n isMatrix (renumber pi gs)
  = (map (phat dof_n pi) (fst rc), if isMatrix then map (phat dof_n pi) (snd rc) else snd rc).
Proof.
  intros H. unfold renumber. destruct isMatrix; simpl.
  - f_equal.
    + apply flat_map_map_commute. intros g _. apply flat_map_map_commute. intros c _. now apply rows_e_map.
    + apply flat_map_map_commute. intros g _. apply flat_map_map_commute. intros c _. now apply cols_e_map.
  - match goal with |- (?a, _) = (map _ ?b, _) => assert (E : a = map (phat dof_n pi) b) end.
    { apply flat_map_map_commute. intros g _. apply flat_map_map_commute. intros c _. now apply assembly_e_map. }
    rewrite E. f_equal. now rewrite map_map.
Qed.

Lemma phat_inj Nn dof_n pi x y :
  0 < dof_n ->
  (forall a b, 0 <= a < Nn -> 0 <= b < Nn -> pi a = pi b -> a = b) ->
  0 <= x < Nn * dof_n -> 0 <= y < Nn * dof_n ->
  (phat dof_n pi x = phat dof_n pi y <-> x = y).
Proof.
  intros Hd Hinj Hx Hy. split; [|now intros ->]. unfold phat. intros E.
  pose proof (Z.mod_pos_bound x dof_n Hd). pose proof (Z.mod_pos_bound y dof_n Hd).
  apply lin_inj in E; try lia. destruct E as [E1 E2].
  assert (0 <= x / dof_n < Nn).
  { split; [apply Z.div_pos; lia|apply Z.div_lt_upper_bound; lia]. }
  assert (0 <= y / dof_n < Nn).
  { split; [apply Z.div_pos; lia|apply Z.div_lt_upper_bound; lia]. }
  apply Hinj in E1; try assumption.
  rewrite (Z.div_mod x dof_n), (Z.div_mod y dof_n) by lia. now rewrite E1, E2.
Qed.

Lemma combine_map2 {A B C D} (f : A -> C) (g : B -> D) a b :
  combine (map f a) (map g b) = map (fun p => (f (fst p), g (snd p))) (combine a b).
Proof.
  revert b. induction a as [|x a IH]; intros [|y b]; simpl; try reflexivity. now rewrite IH.
Qed.

Section Mon.
Variable V : Type.
Variable vadd : V -> V -> V.
Variable vzero : V.
Hypothesis vadd_comm : forall a b, vadd a b = vadd b a.
Hypothesis vadd_assoc : forall a b c, vadd a (vadd b c) = vadd (vadd a b) c.
Hypothesis vadd_0_l : forall a, vadd vzero a = a.

Lemma dense_sum_relabel (fr fc : Z -> Z) rows cols (data : list V) r c :
  (forall x, In x rows -> (fr x = fr r <-> x = r)) ->
  (forall y, In y cols -> (fc y = fc c <-> y = c)) ->
  dense_sum V vadd vzero (map fr rows) (map fc cols) data (fr r) (fc c)
  = dense_sum V vadd vzero rows cols data r c.
Proof.
  intros Hr Hc. unfold dense_sum. rewrite combine_map2, combine_map_l, map_map. f_equal.
  apply map_ext_in. intros [[x y] v] Hin. simpl.
  apply in_combine_l in Hin. pose proof (in_combine_l _ _ _ _ Hin) as Hx.
  pose proof (in_combine_r _ _ _ _ Hin) as Hy. specialize (Hr x Hx). specialize (Hc y Hy).
  destruct (x =? r) eqn:E1; destruct (fr x =? fr r) eqn:E2; try lia;
  destruct (y =? c) eqn:E3; destruct (fc y =? fc c) eqn:E4; try lia; reflexivity.
Qed.

Lemma nodes_ok_renumber Nn pi gs :
  (forall n, 0 <= n < Nn -> 0 <= pi n < Nn) ->
  (forall g, In g gs -> nodes_ok Nn g) -> forall g, In g (renumber pi gs) -> nodes_ok Nn g.
Proof.
  intros Hpi Hok g Hg. unfold renumber in Hg. apply in_map_iff in Hg. destruct Hg as (g0 & <- & Hg0).
  intros conn n Hc Hn. apply in_map_iff in Hc. destruct Hc as (c0 & <- & Hc0).
  apply in_map_iff in Hn. destruct Hn as (n0 & <- & Hn0). apply Hpi. exact (Hok g0 Hg0 c0 n0 Hc0 Hn0).
Qed.

Lemma rows_in_range Nn dof_n isMatrix gs x :
  0 < dof_n -> (forall g, In g gs -> nodes_ok Nn g) ->
  In x (fst (rows_cols dof_n isMatrix gs)) -> 0 <= x < Nn * dof_n.
Proof.
  intros Hd Hok Hx. destruct isMatrix; simpl in Hx.
  - apply in_flat_map in Hx. destruct Hx as (g & Hg & Hx). apply in_flat_map in Hx.
    destruct Hx as (c & Hc & Hx). unfold rows_e in Hx. apply in_np_repeat_each in Hx.
    apply (assembly_e_range Nn dof_n c); [|assumption]. intros n Hn. exact (Hok g Hg c n Hc Hn).
  - apply in_flat_map in Hx. destruct Hx as (g & Hg & Hx). apply in_flat_map in Hx.
    destruct Hx as (c & Hc & Hx).
    apply (assembly_e_range Nn dof_n c); [|assumption]. intros n Hn. exact (Hok g Hg c n Hc Hn).
Qed.

Lemma cols_in_range Nn dof_n gs x :
  0 < dof_n -> (forall g, In g gs -> nodes_ok Nn g) ->
  In x (snd (rows_cols dof_n true gs)) -> 0 <= x < Nn * dof_n.
Proof.
  intros Hd Hok Hx. simpl in Hx.
  apply in_flat_map in Hx. destruct Hx as (g & Hg & Hx). apply in_flat_map in Hx.
  destruct Hx as (c & Hc & Hx). unfold cols_e in Hx. apply in_np_tile in Hx.
  apply (assembly_e_range Nn dof_n c); [|assumption]. intros n Hn. exact (Hok g Hg c n Hc Hn).
Qed.

(* Renumbering the nodes by any injective pi : [0,Nn) -> [0,Nn) permutes the assembled matrix
   (P A P^T) and vector (P b): entry (phat r, phat c) of the renumbered assembly = entry (r, c). *)
Theorem renumber_equivariant Nn dof_n Ndof (isMatrix : bool) gs (data : list V) pi :
  0 < dof_n -> Nn * dof_n <= Ndof ->
  (forall g, In g gs -> nodes_ok Nn g) ->
  (forall n, 0 <= n < Nn -> 0 <= pi n < Nn) ->
  (forall a b, 0 <= a < Nn -> 0 <= b < Nn -> pi a = pi b -> a = b) ->
  let rc := rows_cols dof_n isMatrix gs in
  let rc' := rows_cols dof_n isMatrix (renumber pi gs) in
  let A := assemble_with V vadd vzero (get_csr_map isMatrix Ndof (fst rc) (snd rc)) data in
  let A' := assemble_with V vadd vzero (get_csr_map isMatrix Ndof (fst rc') (snd rc')) data in
  forall r c, 0 <= r < Nn * dof_n -> (if isMatrix then 0 <= c < Nn * dof_n else c = 0) ->
  csr_get V vadd vzero A' (phat dof_n pi r) (if isMatrix then phat dof_n pi c else 0)
  = csr_get V vadd vzero A r c.
Proof.
  intros Hd HN Hok Hpi Hinj rc rc' A A' r c Hr Hc.
  assert (Hok' := nodes_ok_renumber Nn pi gs Hpi Hok).
  assert (Hpr : forall i, 0 <= i < Nn * dof_n -> 0 <= phat dof_n pi i < Nn * dof_n).
  { intros i Hi. unfold phat. pose proof (Z.mod_pos_bound i dof_n Hd).
    assert (0 <= i / dof_n < Nn) by (split; [apply Z.div_pos; lia|apply Z.div_lt_upper_bound; lia]).
    specialize (Hpi _ H0). nia. }
  unfold A, A'.
  rewrite (csr_refines_dense V vadd vzero vadd_comm vadd_assoc vadd_0_l).
  2:{ apply (rows_cols_range Nn); assumption. }
  2:{ specialize (Hpr r Hr). lia. }
  2:{ destruct isMatrix; [specialize (Hpr c Hc); lia|lia]. }
  rewrite (csr_refines_dense V vadd vzero vadd_comm vadd_assoc vadd_0_l).
  2:{ apply (rows_cols_range Nn); assumption. }
  2:{ lia. }
  2:{ destruct isMatrix; lia. }
  unfold rc'. rewrite rows_cols_renumber by assumption. fold rc. simpl fst. simpl snd.
  destruct isMatrix.
  - apply dense_sum_relabel.
    + intros x Hx. apply (phat_inj Nn); try assumption. now apply (rows_in_range Nn dof_n true gs).
    + intros y Hy. apply (phat_inj Nn); try assumption. now apply (cols_in_range Nn dof_n gs).
  - subst c. rewrite <- (map_id (snd rc)) at 1.
    apply (dense_sum_relabel (phat dof_n pi) (fun y => y)).
    + intros x Hx. apply (phat_inj Nn); try assumption. now apply (rows_in_range Nn dof_n false gs).
    + intros y _. tauto.
Qed.

(* ---- canonical form: within each row, column indices strictly increasing (sorted, no duplicate) --- *)
Lemma In_firstn {A} n (l : list A) y : In y (firstn n l) -> In y l.
Proof.
  revert n. induction l as [|a t IH]; intros [|n] H; simpl in *; try contradiction.
  destruct H as [->|H]; [now left|right; now apply (IH n)].
Qed.

Lemma ssorted_firstn n l : ssorted l -> ssorted (firstn n l).
Proof.
  revert n. induction l as [|a t IH]; intros [|n] H; simpl; try exact I.
  destruct H as [Ha Ht]. split; [|now apply IH]. intros y Hy. apply Ha. now apply In_firstn in Hy.
Qed.

Lemma ssorted_skipn n l : ssorted l -> ssorted (skipn n l).
Proof.
  revert n. induction l as [|a t IH]; intros [|n] H; simpl; try exact I; try assumption.
  destruct H as [Ha Ht]. now apply IH.
Qed.

Lemma ssorted_map_shift (f : Z -> Z) k l :
  ssorted l -> (forall x, In x l -> f x = x - k) -> ssorted (map f l).
Proof.
  induction l as [|a t IH]; simpl; intros Hs Hf; [exact I|]. destruct Hs as [Ha Ht].
  split; [|apply IH; auto]. intros y Hy. apply in_map_iff in Hy. destruct Hy as (x & <- & Hx).
  rewrite (Hf a), (Hf x) by auto. specialize (Ha x Hx). lia.
Qed.

Theorem csr_canonical (isMatrix : bool) Ndof rows cols (data : list V) :
  let ncol := if isMatrix then Ndof else 1 in
  (forall rc, In rc (combine rows cols) -> in_range Ndof ncol rc) ->
  let M := assemble_with V vadd vzero (get_csr_map isMatrix Ndof rows cols) data in
  length (c_indices V M) = length (c_data V M) /\
  length (c_indptr V M) = Z.to_nat (Ndof + 1) /\
  forall r, 0 <= r < Ndof ->
    let lo := nth (Z.to_nat r) (c_indptr V M) O in
    let hi := nth (S (Z.to_nat r)) (c_indptr V M) O in
    ssorted (slice lo hi (c_indices V M)) /\
    forall j, In j (slice lo hi (c_indices V M)) -> 0 <= j < ncol.
Proof.
  intros ncol Hrange M. unfold M, assemble_with, get_csr_map. simpl. fold ncol.
  set (lins := map (lin ncol) (combine rows cols)). set (canon := usort lins).
  split; [now rewrite map_length, bincount_length|].
  split; [now rewrite map_length, zrange_length|].
  intros r Hr.
  rewrite nth_indep with (d' := count_lt canon (0 * ncol)) by (rewrite map_length, zrange_length; lia).
  rewrite (nth_indep _ O (count_lt canon (0 * ncol))) by (rewrite map_length, zrange_length; lia).
  rewrite !(map_nth (fun r0 => count_lt canon (r0 * ncol))).
  replace (S (Z.to_nat r)) with (Z.to_nat (r + 1)) by lia.
  rewrite !nth_zrange by lia.
  rewrite slice_map.
  set (E := map (fun l => (l, tt)) canon).
  assert (HK : keys E = canon).
  { unfold keys, E. rewrite map_map. simpl. apply map_id. }
  assert (Hs : ssorted canon) by apply usort_sorted.
  assert (Hnc : 0 < ncol).
  { unfold ncol. destruct isMatrix; lia. }
  assert (Hsl : slice (count_lt canon (r * ncol)) (count_lt canon ((r + 1) * ncol)) canon
                = keys (filter (fun e => (r * ncol <=? fst e) && (fst e <? (r + 1) * ncol)) E)).
  { rewrite <- slice_count_lt; [|rewrite HK; assumption|lia].
    rewrite HK. unfold keys. rewrite <- slice_map. fold (keys E). now rewrite HK. }
  assert (Hin : forall x, In x (slice (count_lt canon (r * ncol)) (count_lt canon ((r + 1) * ncol)) canon)
                -> r * ncol <= x < (r + 1) * ncol).
  { intros x Hx. rewrite Hsl in Hx. unfold keys in Hx. apply in_map_iff in Hx.
    destruct Hx as ([l u] & <- & Hl). apply filter_In in Hl. simpl in *. lia. }
  assert (Hmod : forall x, In x (slice (count_lt canon (r * ncol)) (count_lt canon ((r + 1) * ncol)) canon)
                 -> x mod ncol = x - r * ncol).
  { intros x Hx. apply Hin in Hx. symmetry. apply Z.mod_unique with (q := r); lia. }
  split.
  - apply (ssorted_map_shift _ (r * ncol)); [|assumption].
    unfold slice. now apply ssorted_skipn, ssorted_firstn.
  - intros j Hj. apply in_map_iff in Hj. destruct Hj as (x & <- & Hx).
    rewrite (Hmod x Hx). apply Hin in Hx. lia.
Qed.
End Mon.
