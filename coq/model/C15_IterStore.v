(* C15 — iteration store of EasyFEA simulations (Save_Iter / Get_results / Set_Iter / Save / Load_Simu).

   Values are opaque tokens (N) living in a heap of cells; fields and stored entries hold
   LOCATIONS, so "stores the array itself" and "stores a copy" are different states and
   aliasing is observable through in-place writes (WriteRet).

   What the code does (EasyFEA/Simulations/_simu.py), and how it is modelled:
   - __Set_u_n/__Set_v_n/__Set_a_n REBIND the dict slot (never write in place)  -> Solve allocates
     fresh cells and rebinds `live` (flag solve_rebinds; false = in-place write, for mutations).
   - every override of Save_Iter stores `self.<getter>` = `_Get_u_n(...)` = `.copy()`
     -> save_copies = true: the entry holds fresh cells with equal content.
   - base Save_Iter: folder == "" -> append the dict; else pickle it to
     <folder>/Results/results<Niter>.pickle and append that PATH (folder pinned at write time).
   - Get_results i: in memory -> `entry.copy()`, a SHALLOW dict copy: the arrays handed out ARE
     the stored arrays (deep_read = false); on disk -> unpickle = fresh cells.
   - Set_Iter i: results = Get_results i; mesh index restored; `_Set_solutions(pt, results[..])`
     binds the live slot to the array taken from results (restore_binds = true); fields that are
     not in the dict (stored k = false, e.g. the phase-field history field) are left as they are.
   - getters return copies (ResultQ hands out a fresh cell).
   - Save/Load_Simu: one pickle of the whole object: an isomorphic copy of the object graph
     (sharing inside one pickle is preserved) -> relocation of every location by |heap|;
     Save also sets simu.folder.
   - the mesh setter appends to the mesh list, rebinds all fields to ONE zero vector.
   An entry of the model keeps one cell per field; fields with stored k = false are never read
   back (the real dict has no such key). *)
From Coq Require Import List Arith Lia Bool NArith PeanoNat.
Import ListNotations.
Set Implicit Arguments.

Definition loc := nat.
(* an ARRAY is a list of cells (N tokens); a location holds one array.  Whole-array writes replace the
   list, index-wise writes (WriteRetAt) replace one cell of it. *)
Definition val := list N.
Definition zero : val := [0; 0]%N.   (* the zero vector: two cells holding token 0 *)
Definition rd (h : list val) (l : loc) : val := nth l h zero.
Fixpoint wr (h : list val) (l : loc) (v : val) : list val :=
  match h, l with
  | [], _ => []
  | _ :: t, 0 => v :: t
  | x :: t, S l' => x :: wr t l' v
  end.
Definition alloc (h : list val) (vs : list val) : list val * list loc :=
  (h ++ vs, seq (length h) (length vs)).
Fixpoint upd_at (i : nat) (x : N) (a : val) : val :=
  match a, i with
  | [], _ => []
  | _ :: t, 0 => x :: t
  | y :: t, S i' => y :: upd_at i' x t
  end.
Fixpoint wr_list (h : list val) (lv : list (loc * val)) : list val :=
  match lv with [] => h | (l, v) :: t => wr_list (wr h l v) t end.

Definition path := (nat * nat)%type.      (* folder id (0 = ""), iteration number in the file name *)
Definition dictv := (nat * list val)%type. (* mesh index, field values: what a pickle holds *)
Inductive entry := InMem (m : nat) (ls : list loc) | OnDisk (p : path).

Definition path_eqb (p q : path) : bool := (fst p =? fst q) && (snd p =? snd q).
Fixpoint lookup (p : path) (d : list (path * dictv)) : option dictv :=
  match d with [] => None | (q, g) :: t => if path_eqb p q then Some g else lookup p t end.

Record config := mkcfg {
  nf : nat;                 (* number of live fields of the simulation class *)
  stored : list bool;       (* per field: is it written by Save_Iter and read back by Set_Iter *)
  save_copies : bool;       (* Save_Iter stores the value of a copying getter *)
  restore_binds : bool;     (* Set_Iter binds the live slot to the array taken from results *)
  deep_read : bool;         (* Get_results returns a deep copy of an in-memory entry *)
  solve_rebinds : bool;     (* __Set_u_n rebinds (true) / writes in place (false) *)
  pin_folder : bool         (* the path is computed at write time and stored in the entry *)
}.

Record state := mkst {
  heap : list val;
  live : list loc;
  mesh : nat;  nmesh : nat;
  store : list entry;
  folder : nat;
  disk : list (path * dictv);
  handed : list loc;        (* arrays the user currently holds (from Get_results / Set_Iter / a getter) *)
  ghost : list dictv        (* GHOST: what was live at each Save_Iter; never read by the operations *)
}.

Inductive op :=
| Solve (vs : list val) | SaveIter | SetFolder (f : nat) | GetResults (i : nat) | SetIter (i : nat)
| ResultQ (i k : nat) | WriteRet (k : nat) (v : val) | SetMesh | SaveLoad (f : nat)
(* python-style negative indices -k, resolved against the CURRENT number of stored iterations *)
| GetResultsNeg (k : nat) | SetIterNeg (k : nat) | ResultQNeg (j k : nat)
(* in-place write by the user of ONE cell (index i) of the k-th array he was handed: arr[i] = x *)
| WriteRetAt (k i : nat) (x : N).

Definition fit (n : nat) (vs : list val) : list val := firstn n (vs ++ repeat zero n).
Definition merge (bs : list bool) (new old : list loc) : list loc :=
  map (fun t : bool * (loc * loc) => if fst t then fst (snd t) else snd (snd t)) (combine bs (combine new old)).
Definition mask (A : Type) (bs : list bool) (xs : list A) : list (option A) :=
  map (fun t : bool * A => if fst t then Some (snd t) else None) (combine bs xs).

Definition vals (s : state) : list val := map (rd (heap s)) (live s).

(* what Get_results i produces: the new heap and the dict (mesh index, arrays) handed out *)
Definition read_entry (c : config) (s : state) (i : nat) : option (list val * (nat * list loc)) :=
  match nth_error (store s) i with
  | None => None
  | Some (InMem m ls) =>
      if deep_read c then Some (fst (alloc (heap s) (map (rd (heap s)) ls)), (m, snd (alloc (heap s) (map (rd (heap s)) ls))))
      else Some (heap s, (m, ls))
  | Some (OnDisk p) =>
      match lookup (if pin_folder c then p else (folder s, snd p)) (disk s) with
      | None => None
      | Some g => Some (fst (alloc (heap s) (snd g)), (fst g, snd (alloc (heap s) (snd g))))
      end
  end.

Definition set_iter (c : config) (i : nat) (s : state) : state :=
  match read_entry c s i with
  | None => s
  | Some (h1, (m, ls)) =>
      let hl := if restore_binds c then (h1, ls) else alloc h1 (map (rd h1) ls) in
      mkst (fst hl) (merge (stored c) (snd hl) (live s)) m (nmesh s) (store s) (folder s) (disk s) ls (ghost s)
  end.

Definition get_results (c : config) (i : nat) (s : state) : state :=
  match read_entry c s i with
  | None => s
  | Some (h1, (m, ls)) => mkst h1 (live s) (mesh s) (nmesh s) (store s) (folder s) (disk s) ls (ghost s)
  end.

Definition result_q (c : config) (i k : nat) (s : state) : state :=
  let s1 := set_iter c i s in
  mkst (heap s1 ++ [rd (heap s1) (nth k (live s1) 0)]) (live s1) (mesh s1) (nmesh s1) (store s1)
       (folder s1) (disk s1) [length (heap s1)] (ghost s1).

(* index -k of a history of n entries is n - k when 1 <= k <= n; otherwise out of range (= n: rejected) *)
Definition neg_idx (k : nat) (s : state) : nat :=
  if (k =? 0) || (length (store s) <? k) then length (store s) else length (store s) - k.

Definition reloc_entry (n : nat) (e : entry) : entry :=
  match e with InMem m ls => InMem m (map (fun l => l + n) ls) | OnDisk p => OnDisk p end.

Definition step (c : config) (o : op) (s : state) : state :=
  match o with
  | Solve vs =>
      if solve_rebinds c then
        mkst (heap s ++ fit (nf c) vs) (seq (length (heap s)) (length (fit (nf c) vs))) (mesh s) (nmesh s)
             (store s) (folder s) (disk s) (handed s) (ghost s)
      else
        mkst (wr_list (heap s) (combine (live s) (fit (nf c) vs))) (live s) (mesh s) (nmesh s)
             (store s) (folder s) (disk s) (handed s) (ghost s)
  | SaveIter =>
      let g := (mesh s, vals s) in
      if folder s =? 0 then
        if save_copies c then
          mkst (heap s ++ vals s) (live s) (mesh s) (nmesh s)
               (store s ++ [InMem (mesh s) (seq (length (heap s)) (length (vals s)))])
               (folder s) (disk s) (handed s) (ghost s ++ [g])
        else
          mkst (heap s) (live s) (mesh s) (nmesh s) (store s ++ [InMem (mesh s) (live s)])
               (folder s) (disk s) (handed s) (ghost s ++ [g])
      else
        mkst (heap s) (live s) (mesh s) (nmesh s) (store s ++ [OnDisk (folder s, length (store s))])
             (folder s) (((folder s, length (store s)), g) :: disk s) (handed s) (ghost s ++ [g])
  | SetFolder f => mkst (heap s) (live s) (mesh s) (nmesh s) (store s) f (disk s) (handed s) (ghost s)
  | GetResults i => get_results c i s
  | SetIter i => set_iter c i s
  | ResultQ i k => result_q c i k s
  | GetResultsNeg k => get_results c (neg_idx k s) s
  | SetIterNeg k => set_iter c (neg_idx k s) s
  | ResultQNeg j k => result_q c (neg_idx j s) k s
  | WriteRetAt k i x =>
      match nth_error (handed s) k with
      | None => s
      | Some l => mkst (wr (heap s) l (upd_at i x (rd (heap s) l))) (live s) (mesh s) (nmesh s) (store s) (folder s) (disk s) (handed s) (ghost s)
      end
  | WriteRet k v =>
      match nth_error (handed s) k with
      | None => s
      | Some l => mkst (wr (heap s) l v) (live s) (mesh s) (nmesh s) (store s) (folder s) (disk s) (handed s) (ghost s)
      end
  | SetMesh =>
      mkst (heap s ++ [zero]) (repeat (length (heap s)) (nf c)) (nmesh s) (S (nmesh s)) (store s)
           (folder s) (disk s) (handed s) (ghost s)
  | SaveLoad f =>
      mkst (heap s ++ heap s) (map (fun l => l + length (heap s)) (live s)) (mesh s) (nmesh s)
           (map (reloc_entry (length (heap s))) (store s)) f (disk s) [] (ghost s)
  end.

Fixpoint run (c : config) (ops : list op) (s : state) : state :=
  match ops with [] => s | o :: t => run c t (step c o s) end.

Definition init (c : config) : state := mkst [zero] (repeat 0 (nf c)) 0 1 [] 0 [] [] [].

Definition is_write (o : op) : bool := match o with WriteRet _ _ => true | WriteRetAt _ _ _ => true | _ => false end.
Definition no_writes (ops : list op) : bool := forallb (fun o => negb (is_write o)) ops.

(* notation for examples: an array whose two cells hold the same token; solves / whole-array writes of such arrays *)
Definition A (n : N) : val := [n; n].
Definition Sv (l : list N) : op := Solve (map A l).
Definition Wr (k : nat) (n : N) : op := WriteRet k (A n).

(* observation of a stored entry BY VALUE (what a reader of iteration i can see) *)
Definition entry_vals (c : config) (s : state) (e : entry) : option dictv :=
  match e with
  | InMem m ls => Some (m, map (rd (heap s)) ls)
  | OnDisk p => lookup (if pin_folder c then p else (folder s, snd p)) (disk s)
  end.
Definition store_vals (c : config) (s : state) : list (option dictv) := map (entry_vals c s) (store s).
Definition observe (c : config) (s : state) :=
  (vals s, mesh s, nmesh s, store_vals c s, folder s, length (store s)).

(* ======================= proofs, part P1 ======================= *)

Lemma rd_app_l : forall h e l, l < length h -> rd (h ++ e) l = rd h l.
Proof. intros; unfold rd; apply app_nth1; auto. Qed.

Lemma map_rd_app_l : forall h e ls, Forall (fun l => l < length h) ls -> map (rd (h ++ e)) ls = map (rd h) ls.
Proof. induction 1; simpl; auto. rewrite rd_app_l by auto. f_equal; auto. Qed.

Lemma map_rd_alloc : forall vs h, map (rd (h ++ vs)) (seq (length h) (length vs)) = vs.
Proof.
  induction vs as [|a vs IH]; intros h; simpl; auto.
  f_equal.
  - unfold rd. rewrite app_nth2 by lia. rewrite Nat.sub_diag. reflexivity.
  - replace (h ++ a :: vs) with ((h ++ [a]) ++ vs) by (rewrite <- app_assoc; reflexivity).
    replace (S (length h)) with (length (h ++ [a])) by (rewrite app_length; simpl; lia).
    apply IH.
Qed.

Lemma length_wr : forall h l v, length (wr h l v) = length h.
Proof. induction h; destruct l; simpl; auto. Qed.

Lemma rd_wr_other : forall h l l' v, l <> l' -> rd (wr h l v) l' = rd h l'.
Proof.
  unfold rd. induction h; intros l l' v H; simpl.
  - destruct l; reflexivity.
  - destruct l, l'; simpl; auto; try lia.
Qed.

Lemma rd_wr_same : forall h l v, l < length h -> rd (wr h l v) l = v.
Proof. unfold rd. induction h; intros l v H; simpl in *; try lia. destruct l; simpl; auto. apply IHh; lia. Qed.

Lemma map_rd_wr_notin : forall h l v ls, ~ In l ls -> map (rd (wr h l v)) ls = map (rd h) ls.
Proof.
  induction ls; simpl; intros; auto. rewrite rd_wr_other by (intro; subst; tauto). f_equal; tauto.
Qed.

Lemma Forall_seq_lt : forall a n m, a + n <= m -> Forall (fun l => l < m) (seq a n).
Proof. intros. apply Forall_forall. intros x Hx. apply in_seq in Hx. lia. Qed.

Lemma Forall_lt_mono : forall ls a b, a <= b -> Forall (fun l => l < a) ls -> Forall (fun l => l < b) ls.
Proof. intros. eapply Forall_impl; [|eassumption]. simpl; intros; lia. Qed.

Lemma length_fit : forall n vs, length (fit n vs) = n.
Proof. intros. unfold fit. rewrite firstn_length, app_length, repeat_length. lia. Qed.

Lemma mask_merge : forall (f : loc -> val) bs new old, length new = length old ->
  mask bs (map f (merge bs new old)) = mask bs (map f new).
Proof.
  unfold mask, merge. induction bs as [|b bs IH]; intros new old H; simpl; auto.
  destruct new, old; simpl in *; try discriminate; auto.
  destruct b; simpl; f_equal; apply IH; lia.
Qed.

Lemma length_merge : forall bs new old, length bs = length new -> length new = length old -> length (merge bs new old) = length old.
Proof. intros. unfold merge. rewrite map_length, !combine_length. lia. Qed.

Lemma Forall_merge : forall (P : loc -> Prop) bs new old, Forall P new -> Forall P old -> Forall P (merge bs new old).
Proof.
  unfold merge. induction bs; intros new old Hn Ho; simpl; auto.
  destruct Hn; simpl; auto. destruct Ho; simpl; auto.
  constructor; [destruct a; simpl; auto|]. apply IHbs; auto.
Qed.

Lemma path_eqb_eq : forall p q, path_eqb p q = true <-> p = q.
Proof.
  intros [a b] [c d]. unfold path_eqb; simpl. rewrite andb_true_iff, !Nat.eqb_eq.
  split; [intros [-> ->]; auto | intros H; inversion H; auto].
Qed.

Lemma nth_error_ext_map : forall (A B : Type) (f g : A -> B) (l : list A),
  (forall i e, nth_error l i = Some e -> f e = g e) -> map f l = map g l.
Proof.
  induction l; simpl; intros H; auto. f_equal.
  - apply (H 0 a). reflexivity.
  - apply IHl. intros i e He. apply (H (S i) e). exact He.
Qed.

(* ======================= proofs, part P2 ======================= *)

Definition cfg_ok (c : config) : Prop :=
  solve_rebinds c = true /\ save_copies c = true /\ pin_folder c = true /\ length (stored c) = nf c.

Definition ematch (h : list val) (d : list (path * dictv)) (i : nat) (e : entry) (g : dictv) : Prop :=
  match e with
  | InMem m ls => m = fst g /\ map (rd h) ls = snd g /\ Forall (fun l => l < length h) ls
  | OnDisk p => snd p = i /\ lookup p d = Some g
  end.

Record inv (c : config) (s : state) : Prop := mkinv {
  i_live : Forall (fun l => l < length (heap s)) (live s);
  i_nlive : length (live s) = nf c;
  i_hand : Forall (fun l => l < length (heap s)) (handed s);
  i_len : length (ghost s) = length (store s);
  i_glen : Forall (fun g : dictv => length (snd g) = nf c) (ghost s);
  i_match : forall i e g, nth_error (store s) i = Some e -> nth_error (ghost s) i = Some g ->
            ematch (heap s) (disk s) i e g;
  i_sep : deep_read c = true -> forall i m ls l, nth_error (store s) i = Some (InMem m ls) ->
          In l ls -> ~ In l (handed s)
}.

Lemma ematch_ext : forall h d i e g ext, ematch h d i e g -> ematch (h ++ ext) d i e g.
Proof.
  intros h d i [m ls|p] g ext; simpl; auto.
  intros (H1 & H2 & H3). split; auto. split.
  - rewrite map_rd_app_l; auto.
  - eapply Forall_lt_mono; [|eassumption]. rewrite app_length; lia.
Qed.

Lemma ematch_disk : forall h d i e g f n g0, ematch h d i e g -> i < n -> ematch h (((f, n), g0) :: d) i e g.
Proof.
  intros h d i [m ls|p] g f n g0; simpl; auto.
  intros [H1 H2] Hlt. split; auto.
  destruct (path_eqb p (f, n)) eqn:E; auto.
  apply path_eqb_eq in E. subst p. simpl in *. lia.
Qed.

Lemma ematch_wr : forall h d i e g l v, ematch h d i e g ->
  (forall m ls, e = InMem m ls -> ~ In l ls) -> ematch (wr h l v) d i e g.
Proof.
  intros h d i [m ls|p] g l v; simpl; auto.
  intros (H1 & H2 & H3) Hn. split; auto. split.
  - rewrite map_rd_wr_notin; eauto.
  - rewrite length_wr; auto.
Qed.

Lemma nth_error_snoc : forall (A : Type) (l : list A) (a : A) i x,
  nth_error (l ++ [a]) i = Some x -> (i < length l /\ nth_error l i = Some x) \/ (i = length l /\ x = a).
Proof.
  intros A l a i x H. destruct (Nat.lt_ge_cases i (length l)) as [Hl|Hl].
  - left. split; auto. rewrite nth_error_app1 in H; auto.
  - right. rewrite nth_error_app2 in H by auto.
    destruct (i - length l) eqn:E; simpl in H.
    + inversion H. split; auto. lia.
    + destruct n; discriminate.
Qed.

(* specification of Get_results on a valid index, under the invariant *)
Lemma read_entry_spec : forall c s i e g, cfg_ok c -> inv c s ->
  nth_error (store s) i = Some e -> nth_error (ghost s) i = Some g ->
  exists ext ls, read_entry c s i = Some (heap s ++ ext, (fst g, ls)) /\
    map (rd (heap s ++ ext)) ls = snd g /\ Forall (fun l => l < length (heap s ++ ext)) ls /\
    ((match e with InMem _ _ => deep_read c | OnDisk _ => true end) = true ->
       Forall (fun l => length (heap s) <= l) ls) /\
    ((match e with InMem _ _ => deep_read c | OnDisk _ => true end) = false ->
       ext = [] /\ exists m, e = InMem m ls).
Proof.
  intros c s i e g (Hr & Hs & Hp & Hl) I He Hg.
  pose proof (i_match I _ He Hg) as M. unfold read_entry. rewrite He.
  destruct e as [m ls|p]; simpl in M.
  - destruct M as (-> & M2 & M3). destruct (deep_read c) eqn:D.
    + exists (map (rd (heap s)) ls), (seq (length (heap s)) (length (map (rd (heap s)) ls))). simpl.
      split; [reflexivity|]. split; [rewrite map_rd_alloc; auto|]. split.
      * apply Forall_seq_lt. rewrite app_length. lia.
      * split; [|discriminate]. intros _. apply Forall_forall. intros x Hx. apply in_seq in Hx. lia.
    + exists [], ls. rewrite app_nil_r. split; [reflexivity|]. split; auto. split; auto.
      split; [discriminate|]. intros _. split; auto. eexists; reflexivity.
  - destruct M as [M1 M2]. rewrite Hp, M2.
    exists (snd g), (seq (length (heap s)) (length (snd g))). simpl.
    split; [reflexivity|]. split; [apply map_rd_alloc|]. split.
    + apply Forall_seq_lt. rewrite app_length. lia.
    + split; [|discriminate]. intros _. apply Forall_forall. intros x Hx. apply in_seq in Hx. lia.
Qed.

Lemma read_entry_none : forall c s i, nth_error (store s) i = None -> read_entry c s i = None.
Proof. intros. unfold read_entry. rewrite H. reflexivity. Qed.

Lemma ghost_of_store : forall c s i e, inv c s -> nth_error (store s) i = Some e -> exists g, nth_error (ghost s) i = Some g.
Proof.
  intros c s i e I H. destruct (nth_error (ghost s) i) eqn:E; eauto.
  apply nth_error_None in E. rewrite (i_len I) in E.
  assert (i < length (store s)) by (apply nth_error_Some; congruence). lia.
Qed.

Lemma inv_init : forall c, inv c (init c).
Proof.
  intros c. constructor; simpl; auto.
  all: try (apply repeat_length).
  all: try (apply Forall_forall; intros x Hx; apply repeat_spec in Hx; lia).
  all: try (intros i e g H; destruct i; discriminate).
  all: try (intros _ i m ls l H; destruct i; discriminate).
Qed.
Arguments ghost_of_store {c s i e}.
Arguments read_entry_spec {c s i e g}.

(* ======================= proofs, part P3 ======================= *)

Lemma inv_solve : forall c s vs, cfg_ok c -> inv c s -> inv c (step c (Solve vs) s).
Proof.
  intros c s vs (Hr & Hs & Hp & Hl) I. simpl. rewrite Hr.
  constructor; simpl.
  - apply Forall_seq_lt. rewrite app_length. lia.
  - rewrite seq_length. apply length_fit.
  - eapply Forall_lt_mono; [|apply (i_hand I)]. rewrite app_length; lia.
  - apply (i_len I).
  - apply (i_glen I).
  - intros i e g He Hg. apply ematch_ext. apply (i_match I); auto.
  - apply (i_sep I).
Qed.

Lemma inv_setfolder : forall c s f, inv c s -> inv c (step c (SetFolder f) s).
Proof. intros c s f I. destruct I. constructor; simpl; auto. Qed.

Lemma inv_setmesh : forall c s, inv c s -> inv c (step c SetMesh s).
Proof.
  intros c s I. constructor; simpl.
  - apply Forall_forall. intros x Hx. apply repeat_spec in Hx. subst. rewrite app_length. simpl. lia.
  - apply repeat_length.
  - eapply Forall_lt_mono; [|apply (i_hand I)]. rewrite app_length; lia.
  - apply (i_len I).
  - apply (i_glen I).
  - intros i e g He Hg. apply ematch_ext. apply (i_match I); auto.
  - apply (i_sep I).
Qed.

Lemma inv_saveiter : forall c s, cfg_ok c -> inv c s -> inv c (step c SaveIter s).
Proof.
  intros c s (Hr & Hs & Hp & Hl) I. simpl. rewrite Hs.
  assert (Lv : length (vals s) = nf c) by (unfold vals; rewrite map_length; apply (i_nlive I)).
  destruct (folder s =? 0) eqn:F; constructor; simpl.
  - eapply Forall_lt_mono; [|apply (i_live I)]. rewrite app_length; lia.
  - apply (i_nlive I).
  - eapply Forall_lt_mono; [|apply (i_hand I)]. rewrite app_length; lia.
  - rewrite !app_length. simpl. rewrite (i_len I). reflexivity.
  - apply Forall_app. split; [apply (i_glen I)|]. constructor; auto.
  - intros i e g He Hg.
    apply nth_error_snoc in He. apply nth_error_snoc in Hg.
    destruct He as [[He1 He2]|[He1 He2]], Hg as [[Hg1 Hg2]|[Hg1 Hg2]].
    + apply ematch_ext. apply (i_match I); auto.
    + rewrite (i_len I) in Hg1. lia.
    + rewrite (i_len I) in Hg1. lia.
    + subst e g. simpl. split; auto. split.
      * apply map_rd_alloc.
      * apply Forall_seq_lt. rewrite app_length. lia.
  - intros D i m ls l He Hin Hh.
    apply nth_error_snoc in He. destruct He as [[He1 He2]|[He1 He2]].
    + eapply (i_sep I); eauto.
    + inversion He2; subst. apply in_seq in Hin.
      pose proof (i_hand I) as HH. rewrite Forall_forall in HH. apply HH in Hh. lia.
  - apply (i_live I).
  - apply (i_nlive I).
  - apply (i_hand I).
  - rewrite !app_length. simpl. rewrite (i_len I). reflexivity.
  - apply Forall_app. split; [apply (i_glen I)|]. constructor; auto.
  - intros i e g He Hg.
    apply nth_error_snoc in He. apply nth_error_snoc in Hg.
    destruct He as [[He1 He2]|[He1 He2]], Hg as [[Hg1 Hg2]|[Hg1 Hg2]].
    + apply ematch_disk; auto. apply (i_match I); auto.
    + rewrite (i_len I) in Hg1. lia.
    + rewrite (i_len I) in Hg1. lia.
    + subst e g. simpl. split; auto.
      assert (E : path_eqb (folder s, length (store s)) (folder s, length (store s)) = true) by (apply path_eqb_eq; auto).
      rewrite E. reflexivity.
  - intros D i m ls l He Hin.
    apply nth_error_snoc in He. destruct He as [[He1 He2]|[He1 He2]].
    + eapply (i_sep I); eauto.
    + discriminate.
Qed.

Lemma inv_getresults : forall c s i, cfg_ok c -> inv c s -> inv c (step c (GetResults i) s).
Proof.
  intros c s i OK I. simpl. unfold get_results.
  destruct (nth_error (store s) i) as [e|] eqn:He.
  2:{ rewrite read_entry_none; auto. }
  destruct (ghost_of_store I He) as [g Hg].
  destruct (read_entry_spec OK I He Hg) as (ext & ls & R & R1 & R2 & R3 & R4). rewrite R.
  constructor; simpl.
  - eapply Forall_lt_mono; [|apply (i_live I)]. rewrite app_length; lia.
  - apply (i_nlive I).
  - auto.
  - apply (i_len I).
  - apply (i_glen I).
  - intros j e' g' He' Hg'. apply ematch_ext. apply (i_match I); auto.
  - intros D j m ls' l He' Hin Hh.
    assert (Fr : Forall (fun l => length (heap s) <= l) ls).
    { apply R3. destruct e; auto. }
    rewrite Forall_forall in Fr. apply Fr in Hh.
    destruct (ghost_of_store I He') as [g' Hg'].
    pose proof (i_match I _ He' Hg') as M. simpl in M. destruct M as (_ & _ & M).
    rewrite Forall_forall in M. apply M in Hin. lia.
Qed.

Lemma inv_setiter : forall c s i, cfg_ok c -> inv c s -> inv c (set_iter c i s).
Proof.
  intros c s i OK I. unfold set_iter.
  destruct (nth_error (store s) i) as [e|] eqn:He.
  2:{ rewrite read_entry_none; auto. }
  destruct (ghost_of_store I He) as [g Hg].
  destruct (read_entry_spec OK I He Hg) as (ext & ls & R & R1 & R2 & R3 & R4). rewrite R.
  assert (Lls : length ls = nf c).
  { pose proof (i_glen I) as G. rewrite Forall_forall in G. apply nth_error_In in Hg. apply G in Hg.
    rewrite <- Hg, <- R1, map_length. reflexivity. }
  destruct OK as (Hr & Hs & Hp & Hl).
  destruct (restore_binds c) eqn:B; constructor; simpl.
  - apply Forall_merge; auto. eapply Forall_lt_mono; [|apply (i_live I)]. rewrite app_length; lia.
  - rewrite length_merge; try (apply (i_nlive I)); try lia. rewrite (i_nlive I). lia.
  - auto.
  - apply (i_len I).
  - apply (i_glen I).
  - intros j e' g' He' Hg'. apply ematch_ext. apply (i_match I); auto.
  - intros D j m ls' l He' Hin Hh.
    assert (Fr : Forall (fun l => length (heap s) <= l) ls).
    { apply R3. destruct e; auto. }
    rewrite Forall_forall in Fr. apply Fr in Hh.
    destruct (ghost_of_store I He') as [g' Hg'].
    pose proof (i_match I _ He' Hg') as M. simpl in M. destruct M as (_ & _ & M).
    rewrite Forall_forall in M. apply M in Hin. lia.
  - apply Forall_merge.
    + apply Forall_seq_lt. rewrite !app_length. lia.
    + eapply Forall_lt_mono; [|apply (i_live I)]. rewrite !app_length; lia.
  - rewrite length_merge; try (apply (i_nlive I)).
    + rewrite seq_length, map_length. lia.
    + rewrite seq_length, map_length, (i_nlive I). lia.
  - eapply Forall_lt_mono; [|apply R2]. rewrite !app_length; lia.
  - apply (i_len I).
  - apply (i_glen I).
  - intros j e' g' He' Hg'. rewrite <- app_assoc. apply ematch_ext. apply (i_match I); auto.
  - intros D j m ls' l He' Hin Hh.
    assert (Fr : Forall (fun l => length (heap s) <= l) ls).
    { apply R3. destruct e; auto. }
    rewrite Forall_forall in Fr. apply Fr in Hh.
    destruct (ghost_of_store I He') as [g' Hg'].
    pose proof (i_match I _ He' Hg') as M. simpl in M. destruct M as (_ & _ & M).
    rewrite Forall_forall in M. apply M in Hin. lia.
Qed.

(* ======================= proofs, part P4 ======================= *)

Lemma inv_resultq : forall c s i k, cfg_ok c -> inv c s -> inv c (step c (ResultQ i k) s).
Proof.
  intros c s i k OK I. simpl. unfold result_q. pose proof (inv_setiter i OK I) as J. set (s1 := set_iter c i s) in *.
  constructor; simpl.
  - eapply Forall_lt_mono; [|apply (i_live J)]. rewrite app_length; lia.
  - apply (i_nlive J).
  - constructor; auto. rewrite app_length. simpl. lia.
  - apply (i_len J).
  - apply (i_glen J).
  - intros j e g He Hg. apply ematch_ext. apply (i_match J); auto.
  - intros D j m ls l He Hin [Hh|[]]. subst l.
    destruct (ghost_of_store J He) as [g Hg].
    pose proof (i_match J _ He Hg) as M. simpl in M. destruct M as (_ & _ & M).
    rewrite Forall_forall in M. apply M in Hin. lia.
Qed.

Lemma inv_write : forall c s k v, deep_read c = true -> inv c s -> inv c (step c (WriteRet k v) s).
Proof.
  intros c s k v D I. simpl. destruct (nth_error (handed s) k) as [l|] eqn:E; auto.
  apply nth_error_In in E.
  constructor; simpl; try rewrite length_wr.
  - apply (i_live I).
  - apply (i_nlive I).
  - apply (i_hand I).
  - apply (i_len I).
  - apply (i_glen I).
  - intros j e g He Hg. apply ematch_wr; [apply (i_match I); auto|].
    intros m ls -> Hin. eapply (i_sep I); eauto.
  - apply (i_sep I).
Qed.

Lemma map_rd_reloc : forall (h : list val) ls, map (rd (h ++ h)) (map (fun l => l + length h) ls) = map (rd h) ls.
Proof.
  intros. rewrite map_map. apply map_ext. intros l. unfold rd.
  rewrite app_nth2 by lia. f_equal. lia.
Qed.

Lemma Forall_reloc : forall (h : list val) ls, Forall (fun l => l < length h) ls ->
  Forall (fun l => l < length (h ++ h)) (map (fun l => l + length h) ls).
Proof.
  intros. rewrite Forall_map. eapply Forall_impl; [|eassumption]. simpl. intros. rewrite app_length. lia.
Qed.

Lemma inv_saveload : forall c s f, inv c s -> inv c (step c (SaveLoad f) s).
Proof.
  intros c s f I. constructor; simpl.
  - apply Forall_reloc. apply (i_live I).
  - rewrite map_length. apply (i_nlive I).
  - constructor.
  - rewrite map_length. apply (i_len I).
  - apply (i_glen I).
  - intros j e g He Hg. rewrite nth_error_map in He.
    destruct (nth_error (store s) j) as [e0|] eqn:E0; simpl in He; [|discriminate].
    inversion He; subst e. pose proof (i_match I _ E0 Hg) as M.
    destruct e0 as [m ls|p]; simpl in *; auto.
    destruct M as (M1 & M2 & M3). split; auto. split.
    + rewrite map_rd_reloc. auto.
    + apply Forall_reloc. auto.
  - intros D j m ls l He Hin [].
Qed.

(* a partial write IS some whole-array write: the one that stores the array with that cell replaced *)
Theorem partial_write_is_some_whole_write : forall c s k i x,
  step c (WriteRetAt k i x) s = step c (WriteRet k (upd_at i x (rd (heap s) (nth k (handed s) 0)))) s.
Proof.
  intros c s k i x. destruct (nth_error (handed s) k) as [l|] eqn:E.
  - pose proof (@nth_error_nth _ (handed s) k l 0 E) as Q. rewrite Q. simpl. rewrite E. reflexivity.
  - simpl. rewrite E. reflexivity.
Qed.

Theorem inv_step : forall c o s, cfg_ok c -> (deep_read c = true \/ is_write o = false) ->
  inv c s -> inv c (step c o s).
Proof.
  intros c o s OK W I. destruct o.
  - apply inv_solve; auto.
  - apply inv_saveiter; auto.
  - apply inv_setfolder; auto.
  - apply inv_getresults; auto.
  - apply inv_setiter; auto.
  - apply inv_resultq; auto.
  - destruct W as [D|W]; [apply inv_write; auto|discriminate].
  - apply inv_setmesh; auto.
  - apply inv_saveload; auto.
  - apply (inv_getresults (neg_idx k s) OK I).
  - apply (inv_setiter (neg_idx k s) OK I).
  - apply (inv_resultq (neg_idx j s) k OK I).
  - rewrite partial_write_is_some_whole_write. destruct W as [D|W]; [apply inv_write; auto|discriminate].
Qed.

Theorem inv_run : forall c ops s, cfg_ok c -> (deep_read c = true \/ no_writes ops = true) ->
  inv c s -> inv c (run c ops s).
Proof.
  intros c ops. induction ops as [|o t IH]; intros s OK W I; simpl; auto.
  apply IH; auto.
  - destruct W as [D|W]; auto. right. simpl in W. apply andb_true_iff in W. tauto.
  - apply inv_step; auto. destruct W as [D|W]; auto. right. simpl in W. apply andb_true_iff in W.
    destruct W as [W _]. destruct (is_write o); auto; discriminate.
Qed.

(* ======================= proofs, part P5 ======================= *)

Definition cfg_demo (deep : bool) : config := mkcfg 2 [true; true] true true deep true true.
Lemma cfg_demo_ok : forall d, cfg_ok (cfg_demo d).
Proof. intros; repeat split; reflexivity. Qed.

(* ---------------------------------------------------------------- restore_exact *)
Lemma set_iter_exact : forall c s i, cfg_ok c -> inv c s -> i < length (store s) ->
  exists g, nth_error (ghost s) i = Some g /\ mesh (set_iter c i s) = fst g /\
            mask (stored c) (vals (set_iter c i s)) = mask (stored c) (snd g).
Proof.
  intros c s i OK I Hi.
  destruct (nth_error (store s) i) as [e|] eqn:He; [|apply nth_error_None in He; lia].
  destruct (ghost_of_store I He) as [g Hg]. exists g. split; auto.
  destruct (read_entry_spec OK I He Hg) as (ext & ls & R & R1 & R2 & R3 & R4).
  assert (Lls : length ls = nf c).
  { pose proof (i_glen I) as G. rewrite Forall_forall in G. pose proof (nth_error_In _ _ Hg) as Hin.
    apply G in Hin. rewrite <- Hin, <- R1, map_length. reflexivity. }
  unfold set_iter, vals. rewrite R. destruct (restore_binds c); simpl; split; auto.
  - rewrite mask_merge; [rewrite R1; auto|]. rewrite (i_nlive I). auto.
  - rewrite mask_merge.
    + rewrite map_rd_alloc. rewrite R1. auto.
    + rewrite seq_length, map_length, (i_nlive I). auto.
Qed.

(* After ANY operation list (no user write into handed-out arrays, or deep copy on read),
   Set_Iter i brings back the mesh index and the stored fields' VALUES that were live when
   entry i was saved (ghost i). *)
Theorem restore_exact : forall c ops i, cfg_ok c -> (deep_read c = true \/ no_writes ops = true) ->
  i < length (store (run c ops (init c))) ->
  exists g, nth_error (ghost (run c ops (init c))) i = Some g /\
    mesh (set_iter c i (run c ops (init c))) = fst g /\
    mask (stored c) (vals (set_iter c i (run c ops (init c)))) = mask (stored c) (snd g).
Proof.
  intros c ops i OK W Hi. apply set_iter_exact; auto. apply inv_run; auto. apply inv_init.
Qed.

Example restore_exact_nonvacuous :
  cfg_ok (cfg_demo false) /\
  no_writes [Sv [5;6]; SaveIter; SetFolder 3; Sv [7;8]; SaveIter; SetMesh; GetResults 1]%N = true /\
  1 < length (store (run (cfg_demo false) [Sv [5;6]; SaveIter; SetFolder 3; Sv [7;8]; SaveIter; SetMesh; GetResults 1]%N (init (cfg_demo false)))) /\
  vals (set_iter (cfg_demo false) 0 (run (cfg_demo false) [Sv [5;6]; SaveIter; SetFolder 3; Sv [7;8]; SaveIter; SetMesh; GetResults 1]%N (init (cfg_demo false)))) = map A [5;6]%N.
Proof. split; [apply cfg_demo_ok|]. vm_compute. auto. Qed.

(* Result(name, iter=i): Set_Iter i, then a copying getter: the value handed out is ghost i's. *)
Lemma mask_nth : forall (A : Type) bs (xs ys : list A) k d, mask bs xs = mask bs ys ->
  nth k bs false = true -> nth k xs d = nth k ys d.
Proof.
  unfold mask. induction bs as [|b bs IH]; intros xs ys k d H Hk.
  - destruct k; discriminate.
  - destruct xs as [|x xs], ys as [|y ys]; simpl in H; try discriminate; auto.
    inversion H. destruct k; simpl in *.
    + subst b. congruence.
    + apply IH; auto.
Qed.

Theorem result_exact : forall c ops i k, cfg_ok c -> (deep_read c = true \/ no_writes ops = true) ->
  i < length (store (run c ops (init c))) -> nth k (stored c) false = true ->
  exists g, nth_error (ghost (run c ops (init c))) i = Some g /\
    map (rd (heap (step c (ResultQ i k) (run c ops (init c))))) (handed (step c (ResultQ i k) (run c ops (init c))))
    = [nth k (snd g) zero].
Proof.
  intros c ops i k OK W Hi Hk. destruct (restore_exact ops OK W Hi) as (g & Hg & _ & Hm).
  exists g. split; auto. simpl. unfold result_q. simpl. set (s1 := set_iter c i (run c ops (init c))) in *.
  unfold rd at 1. rewrite app_nth2 by lia. rewrite Nat.sub_diag. simpl. f_equal.
  apply (@mask_nth val (stored c) (vals s1) (snd g) k zero) in Hm; auto. rewrite <- Hm. unfold vals.
  destruct (Nat.lt_ge_cases k (length (live s1))) as [L|L].
  - rewrite (nth_indep _ zero (rd (heap s1) 0)) by (rewrite map_length; auto). rewrite map_nth. reflexivity.
  - exfalso. assert (J : inv c s1) by (apply inv_setiter; auto; apply inv_run; auto; apply inv_init).
    rewrite (i_nlive J) in L. destruct OK as (_ & _ & _ & Hl). rewrite <- Hl in L.
    rewrite nth_overflow in Hk by auto. discriminate.
Qed.

(* ---------------------------------------------------------------- get_results_pure *)
(* structural: for every configuration and EVERY state, Get_results only allocates *)
Theorem get_results_pure : forall c s i,
  let s' := step c (GetResults i) s in
  live s' = live s /\ mesh s' = mesh s /\ nmesh s' = nmesh s /\ store s' = store s /\
  folder s' = folder s /\ disk s' = disk s /\ ghost s' = ghost s /\ exists ext, heap s' = heap s ++ ext.
Proof.
  intros c s i. simpl. unfold get_results, read_entry.
  destruct (nth_error (store s) i) as [[m ls|p]|]; simpl.
  - destruct (deep_read c); simpl; repeat split; auto; eexists; try reflexivity. symmetry; apply app_nil_r.
  - destruct (lookup _ (disk s)); simpl; repeat split; auto; eexists; try reflexivity. symmetry; apply app_nil_r.
  - repeat split; auto. exists []. symmetry; apply app_nil_r.
Qed.

Lemma store_vals_ext : forall c s s' ext, inv c s -> heap s' = heap s ++ ext -> store s' = store s ->
  disk s' = disk s -> folder s' = folder s -> store_vals c s' = store_vals c s.
Proof.
  intros c s s' ext I Hh Hs Hd Hf. unfold store_vals. rewrite Hs.
  apply nth_error_ext_map. intros i e He.
  destruct e as [m ls|p]; simpl; [|rewrite Hd, Hf; auto].
  destruct (ghost_of_store I He) as [g Hg]. pose proof (i_match I _ He Hg) as M. simpl in M.
  destruct M as (_ & _ & M). rewrite Hh, map_rd_app_l; auto.
Qed.

(* ======================= proofs, part P6 ======================= *)

Definition reach (c : config) (ops : list op) : state := run c ops (init c).

Lemma inv_reach : forall c ops, cfg_ok c -> (deep_read c = true \/ no_writes ops = true) -> inv c (reach c ops).
Proof. intros. apply inv_run; auto. apply inv_init. Qed.

(* observational purity of Get_results on every reachable state *)
Theorem get_results_pure_obs : forall c ops i, cfg_ok c -> (deep_read c = true \/ no_writes ops = true) ->
  observe c (step c (GetResults i) (reach c ops)) = observe c (reach c ops).
Proof.
  intros c ops i OK W. pose proof (inv_reach ops OK W) as I.
  destruct (get_results_pure c (reach c ops) i) as (H1 & H2 & H3 & H4 & H5 & H6 & H7 & ext & H8).
  unfold observe. rewrite H2, H3, H5, H4.
  rewrite (@store_vals_ext c (reach c ops) (step c (GetResults i) (reach c ops)) ext I H8 H4 H6 H5).
  unfold vals. rewrite H1, H8, map_rd_app_l; auto. apply (i_live I).
Qed.

(* ---------------------------------------------------------------- no_alias_forward *)
(* a later Solve never changes what any stored iteration reads as (Solve rebinds) *)
Theorem no_alias_forward : forall c ops vs, cfg_ok c -> (deep_read c = true \/ no_writes ops = true) ->
  store_vals c (step c (Solve vs) (reach c ops)) = store_vals c (reach c ops).
Proof.
  intros c ops vs OK W. pose proof (inv_reach ops OK W) as I.
  destruct OK as (Hr & _). simpl. rewrite Hr.
  eapply (@store_vals_ext c (reach c ops) _ (fit (nf c) vs)); auto.
Qed.

Example no_alias_forward_nonvacuous :
  store_vals (cfg_demo false) (reach (cfg_demo false) [Sv [5;6]; SaveIter; SetIter 0; Sv [1;2]]%N)
  = [Some (0, map A [5;6]%N)].
Proof. vm_compute. reflexivity. Qed.

(* with an in-place solver the same trace corrupts the store: the flag matters *)
Example in_place_solve_breaks_forward :
  store_vals (mkcfg 2 [true;true] true true false false true)
    (reach (mkcfg 2 [true;true] true true false false true) [Sv [5;6]; SaveIter; SetIter 0; Sv [1;2]]%N)
  = [Some (0, map A [1;2]%N)].
Proof. vm_compute. reflexivity. Qed.

(* ---------------------------------------------------------------- no_alias_backward *)
(* TRUE PART 1: with a deep copy on read, writing into anything the user was handed never
   changes any stored iteration — for all op lists, writes included. *)
Theorem no_alias_backward : forall c ops k v, cfg_ok c -> deep_read c = true ->
  store_vals c (step c (WriteRet k v) (reach c ops)) = store_vals c (reach c ops).
Proof.
  intros c ops k v OK D. pose proof (inv_reach ops OK (or_introl D)) as I.
  simpl. destruct (nth_error (handed (reach c ops)) k) as [l|] eqn:E; auto.
  apply nth_error_In in E. unfold store_vals. simpl.
  apply nth_error_ext_map. intros i e He. destruct e as [m ls|p]; simpl; auto.
  rewrite map_rd_wr_notin; auto. intro Hin. eapply (i_sep I); eauto.
Qed.

Example no_alias_backward_nonvacuous :
  let ops := [Sv [5;6]; SaveIter; GetResults 0; Wr 0 9; SetIter 0; Wr 1 9]%N in
  handed (reach (cfg_demo true) ops) <> [] /\
  store_vals (cfg_demo true) (reach (cfg_demo true) ops) = [Some (0, map A [5;6]%N)].
Proof. vm_compute. split; [discriminate|reflexivity]. Qed.

(* TRUE PART 2: entries that were written to disk are immune whatever the read discipline. *)
Theorem no_alias_backward_disk : forall c s k v p,
  entry_vals c (step c (WriteRet k v) s) (OnDisk p) = entry_vals c s (OnDisk p).
Proof. intros. simpl. destruct (nth_error (handed s) k); reflexivity. Qed.

(* FALSE PART on the shallow `entry.copy()`: the aliasing trace.  The second read of
   iteration 0 differs from the first although only the user's copy was written. *)
Example alias_trace :
  let c := cfg_demo false in
  store_vals c (reach c [Sv [5;6]; SaveIter; GetResults 0]%N) = [Some (0, map A [5;6]%N)] /\
  store_vals c (reach c [Sv [5;6]; SaveIter; GetResults 0; Wr 0 9; GetResults 0]%N) = [Some (0, map A [9;6]%N)].
Proof. vm_compute. split; reflexivity. Qed.

(* Set_Iter hands out results whose arrays are both the stored and the live ones *)
Example alias_trace_set_iter :
  let c := cfg_demo false in
  let s := reach c [Sv [5;6]; SaveIter; Sv [7;8]; SetIter 0; Wr 1 9]%N in
  store_vals c s = [Some (0, map A [5;9]%N)] /\ vals s = map A [5;9]%N.
Proof. vm_compute. split; reflexivity. Qed.

(* a field that Save_Iter does not store (phase-field history) is not restored *)
Example unsaved_field_not_restored :
  let c := mkcfg 3 [true;true;false] true true false true true in
  let s := reach c [Sv [1;2;3]; SaveIter; Sv [4;5;6]; SaveIter; SetIter 0]%N in
  ghost s = [(0, map A [1;2;3]%N); (0, map A [4;5;6]%N)] /\ vals s = map A [1;2;6]%N.
Proof. vm_compute. split; reflexivity. Qed.

(* ---------------------------------------------------------------- folder_pinning *)
Theorem folder_pinning : forall c s f, pin_folder c = true ->
  store_vals c (step c (SetFolder f) s) = store_vals c s.
Proof.
  intros c s f P. unfold store_vals. simpl. apply map_ext. intros [m ls|p]; simpl; auto. rewrite P. auto.
Qed.

Example folder_pinning_nonvacuous :
  let c := cfg_demo false in
  let s := reach c [SetFolder 1; Sv [5;6]; SaveIter; SetFolder 2; Sv [7;8]; SaveIter; SetFolder 0; Sv [1;1]; SaveIter; SetFolder 2]%N in
  store_vals c s = [Some (0, map A [5;6]%N); Some (0, map A [7;8]%N); Some (0, map A [1;1]%N)] /\
  store s = [OnDisk (1, 0); OnDisk (2, 1); InMem 0 [7; 8]].
Proof. vm_compute. split; reflexivity. Qed.

Example unpinned_folder_redirects :
  let c := mkcfg 2 [true;true] true true false true false in
  store_vals c (reach c [SetFolder 1; Sv [5;6]; SaveIter; SetFolder 2]%N) = [None].
Proof. vm_compute. reflexivity. Qed.

(* ---------------------------------------------------------------- save_load_roundtrip *)
(* Load_Simu (Save s) observes like s (whose folder Save has set): same field values, mesh
   index, number of meshes, every stored iteration by value, iteration count. Any state, any config. *)
Theorem save_load_roundtrip : forall c s f,
  observe c (step c (SaveLoad f) s) = observe c (step c (SetFolder f) s).
Proof.
  intros c s f. unfold observe, vals, store_vals. simpl.
  rewrite map_rd_reloc, map_length, map_map.
  match goal with |- (_, _, _, map ?F _, _, _) = (_, _, _, map ?G _, _, _) =>
    assert (E : forall l, map F l = map G l) end.
  { intros l. apply map_ext. intros [m ls|p]; simpl; auto. rewrite map_rd_reloc. reflexivity. }
  rewrite E. reflexivity.
Qed.

(* and the loaded object keeps restoring exactly: SaveLoad is one of the ops of restore_exact *)
Example save_load_then_restore :
  let c := cfg_demo false in
  vals (reach c [Sv [5;6]; SaveIter; SetFolder 4; Sv [7;8]; SaveIter; SaveLoad 4; Sv [0;0]; SetIter 0]%N) = map A [5;6]%N /\
  vals (reach c [Sv [5;6]; SaveIter; SetFolder 4; Sv [7;8]; SaveIter; SaveLoad 4; Sv [0;0]; SetIter 1]%N) = map A [7;8]%N.
Proof. vm_compute. split; reflexivity. Qed.

Print Assumptions restore_exact.
Print Assumptions result_exact.
Print Assumptions get_results_pure.
Print Assumptions get_results_pure_obs.
Print Assumptions no_alias_forward.
Print Assumptions no_alias_backward.
Print Assumptions no_alias_backward_disk.
Print Assumptions alias_trace.
Print Assumptions folder_pinning.
Print Assumptions save_load_roundtrip.

(* ---------------------------------------------------------------- negative indices *)
Lemma neg_idx_spec : forall k s, 1 <= k <= length (store s) -> neg_idx k s = length (store s) - k.
Proof.
  intros k s [H1 H2]. unfold neg_idx.
  destruct (k =? 0) eqn:E; [apply Nat.eqb_eq in E; lia|].
  destruct (length (store s) <? k) eqn:F; [apply Nat.ltb_lt in F; lia|]. reflexivity.
Qed.

(* index -k IS index n-k of the history as it is NOW (n = current number of stored iterations) *)
Theorem neg_ops_resolve_now : forall c s k f, 1 <= k <= length (store s) ->
  step c (GetResultsNeg k) s = step c (GetResults (length (store s) - k)) s /\
  step c (SetIterNeg k) s = step c (SetIter (length (store s) - k)) s /\
  step c (ResultQNeg k f) s = step c (ResultQ (length (store s) - k) f) s.
Proof. intros c s k f H. simpl. rewrite (@neg_idx_spec k s H). auto. Qed.

(* Set_Iter() / Set_Iter(-1) right after a Save_Iter restores what was just saved *)
Theorem restore_exact_neg : forall c ops k, cfg_ok c -> (deep_read c = true \/ no_writes ops = true) ->
  1 <= k <= length (store (reach c ops)) ->
  exists g, nth_error (ghost (reach c ops)) (length (store (reach c ops)) - k) = Some g /\
    mesh (step c (SetIterNeg k) (reach c ops)) = fst g /\
    mask (stored c) (vals (step c (SetIterNeg k) (reach c ops))) = mask (stored c) (snd g).
Proof.
  intros c ops k OK W H. destruct (neg_ops_resolve_now c (reach c ops) 0 H) as (_ & E & _). rewrite E.
  apply restore_exact; auto. unfold reach in *. lia.
Qed.

Example restore_exact_neg_nonvacuous :
  let c := cfg_demo false in
  vals (reach c [SetFolder 1; Sv [5;6]; SaveIter; SetIterNeg 1; Sv [7;8]; SaveIter; SetIterNeg 1]%N) = map A [7;8]%N /\
  vals (reach c [SetFolder 1; Sv [5;6]; SaveIter; SetIterNeg 1; Sv [7;8]; SaveIter; SetIterNeg 2]%N) = map A [5;6]%N.
Proof. vm_compute. split; reflexivity. Qed.
Print Assumptions neg_ops_resolve_now.
Print Assumptions restore_exact_neg.

(* ---------------------------------------------------------------- the disk is a map: a write REPLACES *)
(* (another simulation, or a re-run, writing into the same folder is just another writer of the same map) *)
Definition disk_write (p : path) (g : dictv) (d : list (path * dictv)) : list (path * dictv) := (p, g) :: d.

Lemma lookup_after_write : forall p g d, lookup p (disk_write p g d) = Some g.
Proof.
  intros p g d. unfold disk_write. simpl.
  assert (E : path_eqb p p = true) by (apply path_eqb_eq; reflexivity). rewrite E. reflexivity.
Qed.

Lemma lookup_other_write : forall p q g d, p <> q -> lookup q (disk_write p g d) = lookup q d.
Proof.
  intros p q g d H. unfold disk_write. simpl. destruct (path_eqb q p) eqn:E; auto.
  apply path_eqb_eq in E. congruence.
Qed.

(* For EVERY state — whatever some earlier writer left at that path — the iteration a simulation has just
   written to disk reads back as what it saved: a read returns the CURRENT content, never an older one. *)
Theorem disk_read_after_write : forall c s, pin_folder c = true -> (folder s =? 0) = false ->
  store (step c SaveIter s) = store s ++ [OnDisk (folder s, length (store s))] /\
  entry_vals c (step c SaveIter s) (OnDisk (folder s, length (store s))) = Some (mesh s, vals s).
Proof.
  intros c s P F. simpl. rewrite F. simpl. split; auto. rewrite P.
  assert (E : path_eqb (folder s, length (store s)) (folder s, length (store s)) = true) by (apply path_eqb_eq; reflexivity).
  rewrite E. reflexivity.
Qed.

Example second_writer_reads_its_own :
  let c := cfg_demo true in
  let sA := reach c [SetFolder 1; Sv [5;6]; SaveIter; GetResults 0]%N in
  (* a second simulation starts from scratch on the SAME disk and the same folder *)
  let sB := run c [SetFolder 1; Sv [7;8]; SaveIter; SetIter 0]%N
              (mkst [zero] (repeat 0 (nf c)) 0 1 [] 0 (disk sA) [] []) in
  vals sB = map A [7;8]%N /\ store_vals c sB = [Some (0, map A [7;8]%N)].
Proof. vm_compute. split; reflexivity. Qed.
Print Assumptions disk_read_after_write.

(* ---------------------------------------------------------------- index-wise (partial) writes *)
Lemma length_upd_at : forall i x a, length (upd_at i x a) = length a.
Proof. intros i x a. revert i. induction a; destruct i; simpl; auto. Qed.
Lemma nth_upd_at_same : forall i x a, i < length a -> nth i (upd_at i x a) 0%N = x.
Proof. intros i x a. revert i. induction a; intros i H; simpl in *; [lia|]. destruct i; simpl; auto. apply IHa. lia. Qed.
Lemma nth_upd_at_other : forall i j x a, i <> j -> nth j (upd_at i x a) 0%N = nth j a 0%N.
Proof.
  intros i j x a. revert i j. induction a; intros i j H; simpl; [destruct i; reflexivity|].
  destruct i, j; simpl; auto; try lia.
Qed.

(* writing into anything the user was handed, whole array or one cell, never reaches the store when
   Get_results deep-copies *)
Theorem no_alias_backward_at : forall c ops k i x, cfg_ok c -> deep_read c = true ->
  store_vals c (step c (WriteRetAt k i x) (reach c ops)) = store_vals c (reach c ops).
Proof. intros. rewrite partial_write_is_some_whole_write. apply no_alias_backward; auto. Qed.

Theorem no_alias_backward_disk_at : forall c s k i x p,
  entry_vals c (step c (WriteRetAt k i x) s) (OnDisk p) = entry_vals c s (OnDisk p).
Proof. intros. rewrite partial_write_is_some_whole_write. apply no_alias_backward_disk. Qed.

(* FRAME of a partial write arr[i] = x into the array at location l: every component of the state other
   than the heap is untouched; every OTHER location reads the same; at l every OTHER index reads the same,
   the length is kept and index i (when in range) reads x. *)
Theorem write_at_frame : forall c s k i x l, nth_error (handed s) k = Some l -> l < length (heap s) ->
  let s' := step c (WriteRetAt k i x) s in
  live s' = live s /\ mesh s' = mesh s /\ store s' = store s /\ disk s' = disk s /\ folder s' = folder s /\
  handed s' = handed s /\ ghost s' = ghost s /\ length (heap s') = length (heap s) /\
  (forall l', l' <> l -> rd (heap s') l' = rd (heap s) l') /\
  length (rd (heap s') l) = length (rd (heap s) l) /\
  (forall j, j <> i -> nth j (rd (heap s') l) 0%N = nth j (rd (heap s) l) 0%N) /\
  (i < length (rd (heap s) l) -> nth i (rd (heap s') l) 0%N = x).
Proof.
  intros c s k i x l E L. simpl. rewrite E. simpl.
  repeat (split; [reflexivity|]). split; [apply length_wr|]. split.
  - intros l' H. apply rd_wr_other. auto.
  - rewrite rd_wr_same by auto. split; [apply length_upd_at|]. split.
    + intros j H. apply nth_upd_at_other. auto.
    + apply nth_upd_at_same.
Qed.

(* hence: a partial write can change a stored (in-memory) iteration or a live field ONLY where it holds
   the very array that was written, and there only at index i: arrays after = arrays before with cell i
   replaced at the aliased locations. *)
Theorem partial_write_breaks_only_aliased_index : forall c s k i x l ls,
  nth_error (handed s) k = Some l -> l < length (heap s) ->
  map (rd (heap (step c (WriteRetAt k i x) s))) ls =
  map (fun l0 => if l0 =? l then upd_at i x (rd (heap s) l0) else rd (heap s) l0) ls.
Proof.
  intros c s k i x l ls E L. simpl. rewrite E. simpl. apply map_ext. intros l0.
  destruct (l0 =? l) eqn:Q.
  - apply Nat.eqb_eq in Q. subst. apply rd_wr_same; auto.
  - apply Nat.eqb_neq in Q. apply rd_wr_other. auto.
Qed.

Corollary partial_write_spares_unaliased : forall c s k i x l ls,
  nth_error (handed s) k = Some l -> l < length (heap s) -> ~ In l ls ->
  map (rd (heap (step c (WriteRetAt k i x) s))) ls = map (rd (heap s)) ls.
Proof.
  intros c s k i x l ls E L N. rewrite (@partial_write_breaks_only_aliased_index c s k i x l ls E L).
  apply map_ext_in. intros l0 H. destruct (l0 =? l) eqn:Q; auto. apply Nat.eqb_eq in Q. subst. tauto.
Qed.

(* the shallow `entry.copy()`: ONE cell of the stored iteration changes, the rest of it does not *)
Example alias_trace_at :
  let c := cfg_demo false in
  store_vals c (reach c [Sv [5;6]; SaveIter; GetResults 0; WriteRetAt 0 1 9; GetResults 0]%N)
  = [Some (0, [[5;9]; [6;6]]%N)] /\
  store_vals (cfg_demo true) (reach (cfg_demo true) [Sv [5;6]; SaveIter; GetResults 0; WriteRetAt 0 1 9; GetResults 0]%N)
  = [Some (0, [[5;5]; [6;6]]%N)].
Proof. vm_compute. split; reflexivity. Qed.
Print Assumptions partial_write_is_some_whole_write.
Print Assumptions no_alias_backward_at.
Print Assumptions write_at_frame.
Print Assumptions partial_write_breaks_only_aliased_index.
