(* C18 — the formal derivative pd of EFLib.PolyQ is the real derivative (Coquelicot is_derive),
   and km_pd is the derivative with respect to a Kelvin-Mandel coordinate of C.
   Environments are functions positive -> R (the list environment of Reval is the special
   case f j = BinList.nth 0 j l). *)
From Coq Require Import QArith Qreals Reals Ring_polynom List Bool Lia Lra.
From Coquelicot Require Import Coquelicot.
From EFLib Require Import PolyQ.
From EFModel Require Import C18_InvDefs.
Import ListNotations.
Open Scope R_scope.

Fixpoint Rev (f : positive -> R) (e : PExpr Q) : R :=
  match e with
  | PEO => 0 | PEI => 1 | PEc c => Q2R c
  | PEX j => f j
  | PEadd a b => Rev f a + Rev f b
  | PEsub a b => Rev f a - Rev f b
  | PEmul a b => Rev f a * Rev f b
  | PEopp a => - Rev f a
  | PEpow a n => Rev f a ^ N.to_nat n
  end.

Lemma Reval_Rev l e : Reval l e = Rev (fun j => BinList.nth 0 j l) e.
Proof. unfold Reval. induction e; simpl; try congruence. Qed.

Definition fupd (f : positive -> R) (i : positive) (x : R) : positive -> R :=
  fun j => if Pos.eqb i j then x else f j.

Lemma pd_is_derive : forall e f i x0,
  is_derive (fun x => Rev (fupd f i x) e) x0 (Rev (fupd f i x0) (pd i e)).
Proof.
  induction e as [| |c|j|a IHa b IHb|a IHa b IHb|a IHa b IHb|a IHa|a IHa n]; intros f i x0; simpl.
  - apply @is_derive_const.
  - apply @is_derive_const.
  - apply @is_derive_const.
  - unfold fupd. destruct (Pos.eqb i j); simpl. apply @is_derive_id. apply @is_derive_const.
  - apply @is_derive_plus; auto.
  - apply @is_derive_minus; auto.
  - evar_last. apply @is_derive_mult; [apply IHa | apply IHb | intros; apply Rmult_comm].
    simpl. unfold plus, mult; simpl. ring.
  - apply @is_derive_opp; auto.
  - destruct n as [|p]; simpl.
    + apply @is_derive_const.
    + evar_last. apply is_derive_pow. apply IHa.
      cbv beta.
      replace (N.to_nat (Pos.pred_N p)) with (Init.Nat.pred (Pos.to_nat p)).
      2:{ rewrite N.pos_pred_spec, Nnat.N2Nat.inj_pred. reflexivity. }
      replace (Q2R (inject_Z (Z.pos p))) with (INR (Pos.to_nat p)).
      2:{ unfold Q2R, inject_Z; simpl. rewrite INR_IZR_INZ, positive_nat_Z. field. }
      ring.
Qed.

(* derivative with respect to a Kelvin-Mandel coordinate v of C: the tensor component stored in
   variable k+1 is c = v * s with s = 1 (k < 3) or r2/2 = 1/sqrt 2 (k >= 3) *)
Theorem km_pd_is_derive : forall (f : positive -> R) (k : nat) (e : PExpr Q) (v0 : R), (k < 6)%nat ->
  let s := Rev f (km_fac k) in
  let i := Pos.of_nat (S k) in
  is_derive (fun v => Rev (fupd f i (v * s)) e) v0 (Rev (fupd f i (v0 * s)) (km_pd k e)).
Proof.
  intros f k e v0 Hk s i.
  assert (Hs : forall x, Rev (fupd f i x) (km_fac k) = s).
  { intro x. unfold s, km_fac. destruct (Nat.ltb k 3); simpl; [reflexivity|].
    unfold fupd. replace (Pos.eqb i 7) with false; [reflexivity|].
    symmetry. apply Pos.eqb_neq. unfold i. intro E.
    apply (f_equal Pos.to_nat) in E. rewrite Nat2Pos.id in E by lia. simpl in E. lia. }
  unfold km_pd. fold i. clearbody i. simpl. rewrite Hs.
  evar_last.
  apply (is_derive_comp (fun c => Rev (fupd f i c) e) (fun v => v * s) v0).
  apply pd_is_derive.
  evar_last. apply @is_derive_scal_l. apply @is_derive_id. reflexivity.
  unfold scal, one; simpl. unfold mult; simpl. ring.
Qed.

(* with r2 = sqrt 2 the scale of a shear coordinate is 1/sqrt 2 *)
Lemma km_scale_sqrt2 : forall f k, f 7%positive = sqrt 2 -> (3 <= k)%nat -> Rev f (km_fac k) = / sqrt 2.
Proof.
  intros f k Hf Hk. unfold km_fac. replace (Nat.ltb k 3) with false by (symmetry; apply Nat.ltb_ge; lia).
  simpl. rewrite Hf. unfold Q2R; simpl.
  assert (H2 : sqrt 2 * sqrt 2 = 2) by (apply sqrt_sqrt; lra).
  assert (sqrt 2 <> 0) by (intro E; rewrite E in H2; lra).
  field_simplify_eq; [|assumption]. lra.
Qed.

Print Assumptions km_pd_is_derive.
