(* C04 -- executable integer instance of the constrained-solve model, used by the generated
   correspondence case files (the inner linear solve is an INPUT: any vector the backend returns). *)
From Coq Require Import ZArith List Bool Lia.
From EFModel Require Import C03_Csr C03_Assembly C03_Exec C04_Solve.
Import ListNotations.
Open Scope Z_scope.

Definition getM (A : list (list Z)) (i j : Z) : Z := nth (Z.to_nat j) (nth (Z.to_nat i) A []) 0.
Definition getV (b : list Z) (i : Z) : Z := nth (Z.to_nat i) b 0.
Definition esum := entered_sum Z 0 Z.add.
Definition zsum (l : list Z) : Z := fold_right Z.add 0 l.

Fixpoint index_of (j : Z) (l : list Z) : nat :=
  match l with [] => O | x :: t => if x =? j then O else S (index_of j t) end.

(* A + diag(orphan dofs), b = Neumann entries (duplicates summed) + F *)
Definition sysA (A : list (list Z)) (orph : list Z) (i j : Z) : Z :=
  add_orphan_diag Z 0 1 Z.add (fun d => zmem d orph) (getM A) i j.
Definition sysb (F : list Z) (dofsN valsN : list Z) (i : Z) : Z := esum dofsN valsN i + getV F i.

(* Dirichlet values handed to the solver: entered values, or the Newton increment (specification) *)
Definition dir_value (nonlinear : bool) (u : list Z) (dofsD valsD : list Z) (d : Z) : Z :=
  if nonlinear then incr_spec Z 0 Z.add Z.sub dofsD valsD (getV u) d else esum dofsD valsD d.

(* Solvers.__Solver_1: returns (Aii, bi, x) given what the backend answered (xi) *)
Definition r1_exec (n : Z) (A : list (list Z)) (F dofsN valsN dofsD valsD orph : list Z)
           (nonlinear : bool) (u : list Z) (xi : list Z) : list (list Z) * list Z * list Z :=
  let kn := known n dofsD in
  let un := unknown n dofsD in
  let xc := dir_value nonlinear u dofsD valsD in
  let Aii := map (fun i => map (fun j => sysA A orph i j) un) un in
  let bi := map (fun i => sysb F dofsN valsN i - zsum (map (fun c => sysA A orph i c * xc c) kn)) un in
  let x := map (fun j => if zmem j kn then xc j else nth (index_of j un) xi 0) (zrange n) in
  (Aii, bi, x).

Definition zmax_list (l : list Z) (d : Z) : Z := fold_right Z.max d l.

(* Solvers.__Solver_2: the bordered matrix and right-hand side (Dirichlet lines in canonical order:
   one line per distinct dof, ascending, carrying the SUM of the values entered for it) *)
(* the bordered matrix / right-hand side as functions of (row, column), over abstract A, b, Dirichlet values *)
Definition lag_dofs (c : list Z * list Z * Z) : list Z := fst (fst c).
Definition lag_coefs (c : list Z * list Z * Z) : list Z := snd (fst c).
Definition lag_val (c : list Z * list Z * Z) : Z := snd c.

Definition r2_border (n alpha : Z) (ud : list Z) (lags : list (list Z * list Z * Z)) (i j : Z) : Z :=   (* i < n <= j *)
  let nD := Z.of_nat (length ud) in
  if j <? n + nD then (if nth (Z.to_nat (j - n)) ud (-1) =? i then alpha else 0)
  else let c := nth (Z.to_nat (j - n - nD)) lags ([], [], 0) in alpha * esum (lag_dofs c) (lag_coefs c) i.

Definition r2_M (n alpha : Z) (Af : Z -> Z -> Z) (ud : list Z) (lags : list (list Z * list Z * Z)) (i j : Z) : Z :=
  if (i <? n) && (j <? n) then Af i j
  else if (i <? n) then r2_border n alpha ud lags i j
  else if (j <? n) then r2_border n alpha ud lags j i
  else 0.

Definition r2_rhs (n alpha : Z) (bf vD : Z -> Z) (ud : list Z) (lags : list (list Z * list Z * Z)) (i : Z) : Z :=
  let nD := Z.of_nat (length ud) in
  if i <? n then bf i
  else if i <? n + nD then alpha * vD (nth (Z.to_nat (i - n)) ud (-1))
  else alpha * lag_val (nth (Z.to_nat (i - n - nD)) lags ([], [], 0)).

(* Solvers.__Solver_2: the bordered matrix and right-hand side (Dirichlet lines in canonical order:
   one line per distinct dof, ascending, carrying the SUM of the values entered for it) *)
Definition r2_exec (n : Z) (A : list (list Z)) (F dofsN valsN dofsD valsD orph : list Z)
           (lags : list (list Z * list Z * Z)) : list (list Z) * list Z * Z :=
  let ud := usort dofsD in
  let N := n + Z.of_nat (length ud) + Z.of_nat (length lags) in
  let alpha := zmax_list (flat_map (fun i => map (fun j => sysA A orph i j) (zrange n)) (zrange n)) 0 in
  (map (fun i => map (r2_M n alpha (sysA A orph) ud lags i) (zrange N)) (zrange N),
   map (r2_rhs n alpha (sysb F dofsN valsN) (esum dofsD valsD) ud lags) (zrange N), alpha).

Definition check_r1 n A F dofsN valsN dofsD valsD orph nonlinear u xi
           (impl : list (list Z) * list Z * list Z) : bool * bool * bool :=
  let '(Aii, bi, x) := r1_exec n A F dofsN valsN dofsD valsD orph nonlinear u xi in
  let '(Aii', bi', x') := impl in
  (zll_eqb Aii Aii', zlist_eqb bi bi', zlist_eqb x x').

Definition check_r2 n A F dofsN valsN dofsD valsD orph lags
           (impl : list (list Z) * list Z) : bool * bool :=
  let '(M, rhs, _) := r2_exec n A F dofsN valsN dofsD valsD orph lags in
  (zll_eqb M (fst impl), zlist_eqb rhs (snd impl)).

Definition check_split n dofsD (impl_known impl_unknown : list Z) : bool :=
  zlist_eqb (known n dofsD) impl_known && zlist_eqb (unknown n dofsD) impl_unknown.
