(* C03 -- (a) fixed-width key arithmetic: under Ndof^2 < 2^63 the int64 computation of the code equals
   the model's unbounded arithmetic; the int32 variant is refuted by a witness.
   (b) cache keys as abstract group identities: a cache keyed through ANY abstraction of the key is sound
   for all histories iff the abstraction determines the map; object identity does, an
   (element type, element count) signature does not (witness). *)
From Coq Require Import ZArith List Bool Lia.
From EFModel Require Import C03_Csr C03_Assembly.
Import ListNotations.
Open Scope Z_scope.

(* ------------------------------------------------------------------ *)
(* (a) two's-complement wrap of a w-bit signed integer                  *)
(* ------------------------------------------------------------------ *)
Definition wrap (w : Z) (x : Z) : Z := (x + 2 ^ (w - 1)) mod 2 ^ w - 2 ^ (w - 1).

Lemma wrap_id w x : 0 < w -> - 2 ^ (w - 1) <= x < 2 ^ (w - 1) -> wrap w x = x.
Proof.
  intros Hw Hx. unfold wrap.
  assert (E : 2 ^ w = 2 * 2 ^ (w - 1)).
  { replace w with (Z.succ (w - 1)) at 1 by lia. rewrite Z.pow_succ_r by lia. reflexivity. }
  rewrite Z.mod_small by lia. lia.
Qed.

(* rows.astype(w-bit) * ncol + cols, every operation wrapping *)
Definition lin_w (w : Z) (ncol : Z) (rc : Z * Z) : Z := wrap w (wrap w (fst rc * ncol) + snd rc).

Lemma lin_w_exact w Ndof ncol rc :
  0 < w -> 0 < ncol <= Ndof -> Ndof * Ndof < 2 ^ (w - 1) ->
  in_range Ndof ncol rc -> lin_w w ncol rc = lin ncol rc.
Proof.
  intros Hw Hn Hb [Hr Hc]. unfold lin_w, lin.
  assert (H1 : 0 <= fst rc * ncol <= (Ndof - 1) * ncol) by nia.
  assert (H2 : (Ndof - 1) * ncol + ncol <= Ndof * Ndof) by nia.
  assert (H3 : 0 < 2 ^ (w - 1)) by (apply Z.pow_pos_nonneg; lia).
  rewrite (wrap_id w (fst rc * ncol)) by lia. apply wrap_id; lia.
Qed.

(* __Get_csr_map with w-bit key arithmetic for the element entries (the canonical keys come from scipy's
   int64 pattern in both the code and its int32 variant; under the bound they are exact as well) *)
Definition get_csr_map_w (w : Z) (isMatrix : bool) (Ndof : Z) (rows cols : list Z) : csrmap :=
  let ncol := if isMatrix then Ndof else 1 in
  let canon := usort (map (lin ncol) (combine rows cols)) in
  {| m_inv := map (fun rc => count_lt canon (lin_w w ncol rc)) (combine rows cols);
     m_indices := map (fun l => l mod ncol) canon;
     m_indptr := map (fun r => count_lt canon (r * ncol)) (zrange (Ndof + 1));
     m_nnz := length canon |}.

Theorem get_csr_map_no_overflow w (isMatrix : bool) Ndof rows cols :
  0 < w -> 0 < Ndof -> Ndof * Ndof < 2 ^ (w - 1) ->
  (forall rc, In rc (combine rows cols) -> in_range Ndof (if isMatrix then Ndof else 1) rc) ->
  get_csr_map_w w isMatrix Ndof rows cols = get_csr_map isMatrix Ndof rows cols.
Proof.
  intros Hw HN Hb Hr. unfold get_csr_map_w, get_csr_map. f_equal.
  rewrite map_map. apply map_ext_in. intros rc Hin. f_equal.
  apply (lin_w_exact w Ndof); try assumption; [destruct isMatrix; lia|now apply Hr].
Qed.

(* the code: int64 *)
Corollary get_csr_map_int64_exact (isMatrix : bool) Ndof rows cols :
  0 < Ndof -> Ndof * Ndof < 2 ^ 63 ->
  (forall rc, In rc (combine rows cols) -> in_range Ndof (if isMatrix then Ndof else 1) rc) ->
  get_csr_map_w 64 isMatrix Ndof rows cols = get_csr_map isMatrix Ndof rows cols.
Proof. intros. apply get_csr_map_no_overflow; try assumption; lia. Qed.

(* the int32 variant is wrong as soon as Ndof > 46340: one entry at (46340, 46340) of a 46341-dof system *)
Example get_csr_map_int32_refuted :
  let Ndof := 46341 in let rows := [0; 46340] in let cols := [0; 46340] in
  (forall rc, In rc (combine rows cols) -> in_range Ndof Ndof rc) /\
  m_inv (get_csr_map_w 32 true Ndof rows cols) = [O; O] /\
  m_inv (get_csr_map true Ndof rows cols) = [O; 1%nat].
Proof.
  split; [|split; lazy; reflexivity].
  intros rc [<-|[<-|[]]]; unfold in_range; simpl; lia.
Qed.

(* ------------------------------------------------------------------ *)
(* (b) caches keyed through an abstraction of the key                   *)
(* ------------------------------------------------------------------ *)
Section AbsKey.
Variable K : Type.                       (* what the implementation really uses as dictionary key *)
Variable abs : key -> K.
Variable K_eqb : K -> K -> bool.
Hypothesis K_eqb_spec : forall a b, K_eqb a b = true <-> a = b.

Definition acache := list (K * csrmap).

Fixpoint alookup (k : K) (c : acache) : option csrmap :=
  match c with
  | [] => None
  | (k', m) :: t => if K_eqb k k' then Some m else alookup k t
  end.

Definition aget (env : Z -> group) (c : acache) (k : key) : csrmap * acache :=
  match alookup (abs k) c with
  | Some m => (m, c)
  | None => let m := fresh_map env k in (m, (abs k, m) :: c)
  end.

(* a history of map requests and cache clears on a fixed population of (immutable) group objects *)
Inductive creq := CGet (k : key) | CClear.

Fixpoint crun (env : Z -> group) (c : acache) (ops : list creq) : acache :=
  match ops with
  | [] => c
  | CGet k :: t => crun env (snd (aget env c k)) t
  | CClear :: t => crun env [] t
  end.

(* the abstraction determines the map on the keys that are ever requested *)
Definition determining (env : Z -> group) (used : key -> Prop) : Prop :=
  forall k1 k2, used k1 -> used k2 -> abs k1 = abs k2 -> fresh_map env k1 = fresh_map env k2.

Definition acache_inv (env : Z -> group) (used : key -> Prop) (c : acache) : Prop :=
  forall k m, used k -> alookup (abs k) c = Some m -> m = fresh_map env k.

Lemma aget_sound env used c k :
  determining env used -> used k -> acache_inv env used c ->
  fst (aget env c k) = fresh_map env k /\ acache_inv env used (snd (aget env c k)).
Proof.
  intros Hdet Hk Hinv. unfold aget. destruct (alookup (abs k) c) eqn:E; simpl.
  - split; [now apply Hinv|assumption].
  - split; [reflexivity|]. intros k' m' Hk'. simpl. destruct (K_eqb (abs k') (abs k)) eqn:E2.
    + apply K_eqb_spec in E2. intros [= <-]. symmetry. now apply Hdet.
    + now apply Hinv.
Qed.

Fixpoint all_used (used : key -> Prop) (ops : list creq) : Prop :=
  match ops with
  | [] => True
  | CGet k :: t => used k /\ all_used used t
  | CClear :: t => all_used used t
  end.

Lemma crun_inv env used ops : forall c,
  determining env used -> all_used used ops -> acache_inv env used c -> acache_inv env used (crun env c ops).
Proof.
  induction ops as [|[k|] t IH]; intros c Hdet Hu Hinv; simpl in *; [assumption| |].
  - destruct Hu as [Hk Ht]. apply IH; try assumption. now apply (aget_sound env used c k).
  - apply IH; try assumption. intros k m _ H. discriminate.
Qed.

(* soundness for ALL histories when the implementation's key determines the map *)
Theorem abs_cache_sound env used ops k :
  determining env used -> all_used used ops -> used k ->
  fst (aget env (crun env [] ops) k) = fresh_map env k.
Proof.
  intros Hdet Hu Hk. apply (aget_sound env used); try assumption.
  apply crun_inv; try assumption. intros k' m _ H. discriminate.
Qed.

(* ... and only then: two requested keys with the same abstraction but different maps give a stale answer *)
Theorem abs_cache_unsound env k1 k2 :
  abs k1 = abs k2 -> fresh_map env k1 <> fresh_map env k2 ->
  fst (aget env (crun env [] [CGet k1]) k2) <> fresh_map env k2.
Proof.
  intros Ha Hne. unfold crun, aget. simpl. rewrite <- Ha.
  destruct (K_eqb (abs k1) (abs k1)) eqn:E; simpl; [exact Hne|].
  assert (K_eqb (abs k1) (abs k1) = true) by now apply K_eqb_spec. congruence.
Qed.
End AbsKey.

(* object identity: the key itself (group ids = python object identities) is trivially determining *)
Theorem identity_key_determining env used : determining key (fun k => k) env used.
Proof. intros k1 k2 _ _ ->. reflexivity. Qed.

(* signature keys: group objects replaced by (element type, number of elements) *)
Definition sig_key (etype : Z -> Z) (env : Z -> group) (k : key) : Z * bool * Z * list (Z * Z) :=
  let '(d, m, n, gs) := k in (d, m, n, map (fun g => (etype g, Z.of_nat (length (env g)))) gs).

(* two distinct SEG2 edge groups with one element each: same signature, different maps *)
Definition sig_env (g : Z) : group := if g =? 1 then [[0; 1]] else if g =? 2 then [[2; 3]] else [].

Example signature_key_not_determining :
  let k1 : key := (1, true, 4, [1]) in let k2 : key := (1, true, 4, [2]) in
  sig_key (fun _ => 1) sig_env k1 = sig_key (fun _ => 1) sig_env k2 /\
  fresh_map sig_env k1 <> fresh_map sig_env k2.
Proof. split; [reflexivity|]. intros H. apply (f_equal m_indices) in H. lazy in H. discriminate. Qed.
