(* PolyQ.v — reflexive decision of polynomial identities over R from Q-coefficient
   expression trees (stdlib Ring_polynom), formal partial derivative, exact Q evaluation.
   Independent of /repo. *)
From Coq Require Import QArith Qreals Reals Ring_polynom Ring_theory InitialRing RealField List Lia Lra.
Import ListNotations.

Definition cdivQ (x y : Q) : Q * Q := (0%Q, x).
Definition Qnorm (pe : PExpr Q) : Pol Q :=
  norm_subst 0%Q 1%Q Qplus Qmult Qminus Qopp Qeq_bool cdivQ O nil pe.
Definition Peqb (p q : Pol Q) : bool := Peq Qeq_bool p q.
Definition pe_eqb (e1 e2 : PExpr Q) : bool := Peqb (Qnorm e1) (Qnorm e2).

Definition Reval (l : list R) (pe : PExpr Q) : R :=
  PEeval 0%R 1%R Rplus Rmult Rminus Ropp Q2R N.to_nat pow l pe.

(* exact evaluation over Q: used by searches and by Q-level corollaries *)
Definition Qpow (x : Q) (n : N) : Q :=
  match n with N0 => 1%Q | Npos p => Qpower_positive x p end.
Definition Qeval (l : list Q) (pe : PExpr Q) : Q :=
  PEeval 0%Q 1%Q Qplus Qmult Qminus Qopp (fun q => q) (fun n => n) Qpow l pe.

Lemma Q2R_morph : ring_morph 0%R 1%R Rplus Rmult Rminus Ropp eq 0%Q 1%Q Qplus Qmult Qminus Qopp Qeq_bool Q2R.
Proof.
  constructor.
  - unfold Q2R; simpl; lra.
  - unfold Q2R; simpl; lra.
  - intros; apply Q2R_plus.
  - intros; apply Q2R_minus.
  - intros; apply Q2R_mult.
  - intros; apply Q2R_opp.
  - intros x y H. apply Qeq_bool_eq in H. now apply Qeq_eqR.
Qed.

Lemma cdivQ_th : div_theory eq Qplus Qmult Q2R cdivQ.
Proof.
  constructor. intros a b. unfold cdivQ. rewrite Q2R_plus, Q2R_mult.
  replace (Q2R 0) with 0%R by (unfold Q2R; simpl; lra). lra.
Qed.

Lemma R_ARth : almost_ring_theory 0%R 1%R Rplus Rmult Rminus Ropp eq.
Proof. apply (Rth_ARth (Eqsth R) (Eq_ext Rplus Rmult Ropp) RTheory). Qed.

Theorem Qnorm_sound (l : list R) (e1 e2 : PExpr Q) :
  pe_eqb e1 e2 = true -> Reval l e1 = Reval l e2.
Proof.
  intro H. unfold Reval.
  apply (@ring_correct R 0%R 1%R Rplus Rmult Rminus Ropp eq (Eqsth R)
          (Eq_ext Rplus Rmult Ropp) R_ARth Q 0%Q 1%Q Qplus Qmult Qminus Qopp Qeq_bool Q2R Q2R_morph
          nat N.to_nat pow R_power_theory cdivQ cdivQ_th O l nil e1 e2).
  - exact I.
  - exact H.
Qed.

(* formal partial derivative w.r.t. variable i *)
Fixpoint pd (i : positive) (e : PExpr Q) : PExpr Q :=
  match e with
  | PEO => PEO | PEI => PEO
  | PEc _ => PEO
  | PEX _ j => if Pos.eqb i j then PEI else PEO
  | PEadd a b => PEadd (pd i a) (pd i b)
  | PEsub a b => PEsub (pd i a) (pd i b)
  | PEmul a b => PEadd (PEmul (pd i a) b) (PEmul a (pd i b))
  | PEopp a => PEopp (pd i a)
  | PEpow a n => match n with
                 | N0 => PEO
                 | Npos p => PEmul (PEmul (PEc (inject_Z (Zpos p))) (PEpow a (Pos.pred_N p))) (pd i a)
                 end
  end.

(* sums of expression lists *)
Definition pe_sum (l : list (PExpr Q)) : PExpr Q := fold_right (fun a b => PEadd a b) PEO l.

Lemma Reval_pe_sum l es :
  Reval l (pe_sum es) = fold_right Rplus 0%R (map (Reval l) es).
Proof. induction es as [|e es IH]; simpl; [reflexivity|]. unfold Reval in *. simpl. now rewrite IH. Qed.

(* boolean "all" with a lifting lemma *)
Lemma forallb_In {A} (f : A -> bool) l : forallb f l = true -> forall x, In x l -> f x = true.
Proof. intros H x Hx. rewrite forallb_forall in H. auto. Qed.

(* substitution of expressions for variables (used to evaluate tables at nodes) *)
Fixpoint pe_subst (sub : list (PExpr Q)) (e : PExpr Q) : PExpr Q :=
  match e with
  | PEO => PEO | PEI => PEI | PEc c => PEc c
  | PEX _ j => BinList.nth PEO j sub
  | PEadd a b => PEadd (pe_subst sub a) (pe_subst sub b)
  | PEsub a b => PEsub (pe_subst sub a) (pe_subst sub b)
  | PEmul a b => PEmul (pe_subst sub a) (pe_subst sub b)
  | PEopp a => PEopp (pe_subst sub a)
  | PEpow a n => PEpow (pe_subst sub a) n
  end.

Lemma tl_map {A B} (f : A -> B) l : tl (map f l) = map f (tl l).
Proof. destruct l; reflexivity. Qed.

Lemma jump_map {A B} (f : A -> B) : forall p l, BinList.jump p (map f l) = map f (BinList.jump p l).
Proof.
  induction p as [p IH|p IH|]; intros l; simpl.
  - rewrite tl_map, IH, IH. reflexivity.
  - rewrite IH, IH. reflexivity.
  - apply tl_map.
Qed.

Lemma binnth_map {A B} (f : A -> B) (d : A) (d' : B) : f d = d' ->
  forall p l, BinList.nth d' p (map f l) = f (BinList.nth d p l).
Proof.
  intros Hd. induction p as [p IH|p IH|]; intros l; simpl.
  - rewrite tl_map, jump_map. apply IH.
  - rewrite jump_map. apply IH.
  - destruct l; simpl; auto.
Qed.

Lemma Reval_subst l sub e :
  Reval l (pe_subst sub e) = Reval (map (Reval l) sub) e.
Proof.
  unfold Reval. induction e; simpl; try congruence.
  symmetry. apply (binnth_map (Reval l) PEO 0%R). reflexivity.
Qed.

Definition pe_const (q : Q) : PExpr Q := PEc q.
Lemma Reval_const l q : Reval l (PEc q) = Q2R q.
Proof. reflexivity. Qed.

(* evaluation at a rational point, stated in R *)
Lemma Reval_at_Qpoint (pt : list Q) (e : PExpr Q) (v : Q) :
  pe_eqb (pe_subst (map (fun q => PEc q) pt) e) (PEc v) = true ->
  Reval (map Q2R pt) e = Q2R v.
Proof.
  intro H. apply (Qnorm_sound nil) in H. rewrite Reval_subst in H.
  rewrite map_map in H. simpl in H. exact H.
Qed.
