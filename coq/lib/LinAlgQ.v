(* LinAlgQ.v — exact Gaussian elimination over Q (rank), used on element matrices evaluated
   exactly at the implementation's double-precision Gauss data.  Independent of /repo. *)
From Coq Require Import QArith List Lia Bool Arith ZArith.
Import ListNotations.

Definition qzero (x : Q) : bool := Z.eqb (Qnum x) 0.
Definition qsub_mul (a f b : Q) : Q := Qred (a - f * b).

(* split rows into (first row with non-zero head, the others) *)
Fixpoint find_pivot (rows : list (list Q)) (acc : list (list Q)) : option (list Q * list (list Q)) :=
  match rows with
  | [] => None
  | r :: rs => match r with
               | x :: _ => if qzero x then find_pivot rs (r :: acc) else Some (r, rev_append acc rs)
               | [] => find_pivot rs (r :: acc)
               end
  end.

Fixpoint row_comb (f : Q) (a b : list Q) : list Q :=   (* a - f * b *)
  match a, b with
  | x :: xs, y :: ys => qsub_mul x f y :: row_comb f xs ys
  | _, _ => []
  end.

(* rank by elimination, one column per unit of fuel (fuel = number of columns) *)
Fixpoint rankQ (ncols : nat) (rows : list (list Q)) : nat :=
  match ncols with
  | O => 0
  | S k =>
    match find_pivot rows [] with
    | None => rankQ k (map (@tl Q) rows)
    | Some (p, others) =>
        let ph := hd 1 p in
        let pt := tl p in
        S (rankQ k (map (fun r => row_comb (Qred (hd 0 r / ph)) (tl r) pt) others))
    end
  end.

Definition rank (m : list (list Q)) : nat := rankQ (List.length (hd [] m)) m.

Example rank_ex1 : rank [[1;2;3];[2;4;6];[0;1;1]] = 2%nat.
Proof. vm_compute. reflexivity. Qed.
Example rank_ex2 : rank [[1;0];[0;1];[1;1]] = 2%nat.
Proof. vm_compute. reflexivity. Qed.
Example rank_ex3 : rank [[0;0];[0;0]] = 0%nat.
Proof. vm_compute. reflexivity. Qed.
