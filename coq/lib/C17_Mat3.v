(* C17: the 3x3 real matrices as an instance of EFLib.C17_MatAlg.MatAlg (a genuinely
   non-commutative model of the axioms; also the carrier of the 3-D eigenprojector theorems). *)
From Coq Require Import Reals Lra.
From EFLib Require Import C17_MatAlg.
Local Open Scope R_scope.

Record mat3 : Type := mk3 {
  x11 : R; x12 : R; x13 : R;
  x21 : R; x22 : R; x23 : R;
  x31 : R; x32 : R; x33 : R }.

Definition add3 (a b : mat3) : mat3 :=
  mk3 (x11 a + x11 b) (x12 a + x12 b) (x13 a + x13 b)
      (x21 a + x21 b) (x22 a + x22 b) (x23 a + x23 b)
      (x31 a + x31 b) (x32 a + x32 b) (x33 a + x33 b).
Definition sub3 (a b : mat3) : mat3 :=
  mk3 (x11 a - x11 b) (x12 a - x12 b) (x13 a - x13 b)
      (x21 a - x21 b) (x22 a - x22 b) (x23 a - x23 b)
      (x31 a - x31 b) (x32 a - x32 b) (x33 a - x33 b).
Definition opp3 (a : mat3) : mat3 :=
  mk3 (- x11 a) (- x12 a) (- x13 a) (- x21 a) (- x22 a) (- x23 a) (- x31 a) (- x32 a) (- x33 a).
Definition mul3 (a b : mat3) : mat3 :=
  mk3 (x11 a * x11 b + x12 a * x21 b + x13 a * x31 b)
      (x11 a * x12 b + x12 a * x22 b + x13 a * x32 b)
      (x11 a * x13 b + x12 a * x23 b + x13 a * x33 b)
      (x21 a * x11 b + x22 a * x21 b + x23 a * x31 b)
      (x21 a * x12 b + x22 a * x22 b + x23 a * x32 b)
      (x21 a * x13 b + x22 a * x23 b + x23 a * x33 b)
      (x31 a * x11 b + x32 a * x21 b + x33 a * x31 b)
      (x31 a * x12 b + x32 a * x22 b + x33 a * x32 b)
      (x31 a * x13 b + x32 a * x23 b + x33 a * x33 b).
Definition sc3 (s : R) : mat3 := mk3 s 0 0 0 s 0 0 0 s.
Definition tp3 (a : mat3) : mat3 :=
  mk3 (x11 a) (x21 a) (x31 a) (x12 a) (x22 a) (x32 a) (x13 a) (x23 a) (x33 a).

Lemma mat3_eq : forall a b : mat3,
  x11 a = x11 b -> x12 a = x12 b -> x13 a = x13 b ->
  x21 a = x21 b -> x22 a = x22 b -> x23 a = x23 b ->
  x31 a = x31 b -> x32 a = x32 b -> x33 a = x33 b -> a = b.
Proof. intros [] []; simpl; intros; subst; reflexivity. Qed.

Ltac m3 := intros; apply mat3_eq; simpl; ring.

Definition Mat3 : MatAlg.
Proof.
  refine (@mkMatAlg mat3 (sc3 0) (sc3 1) add3 mul3 sub3 opp3 sc3 tp3
            _ _ _ _ _ _ _ _ _ _ _ _ _ _ _ _ _ _ _); try (m3; fail).
Defined.

(* symmetric matrix from its six independent entries *)
Definition sym3 (a b c f g h : R) : mat3 := mk3 a h g h b f g f c.
(*   [[a h g] [h b f] [g f c]]  *)
Definition tr3 (a b c : R) : R := a + b + c.
Definition I2_3 (a b c f g h : R) : R := a * b + a * c + b * c - f * f - g * g - h * h.
Definition det3 (a b c f g h : R) : R := a * b * c + 2 * f * g * h - a * f * f - b * g * g - c * h * h.
