(* C17: abstract (non-commutative) real matrix algebra with central scalars and a transpose.
   Leibniz equality; an Ncring instance gives the reflexive tactic [mat_ring]. *)
From Coq Require Import Reals.
From Coq Require Ncring Ncring_tac.
Local Open Scope R_scope.

Record MatAlg : Type := mkMatAlg {
  carrier :> Type;
  m0 : carrier;
  m1 : carrier;
  madd : carrier -> carrier -> carrier;
  mmul : carrier -> carrier -> carrier;
  msub : carrier -> carrier -> carrier;
  mopp : carrier -> carrier;
  sc : R -> carrier;              (* s |-> s * Identity *)
  tp : carrier -> carrier;        (* transpose *)
  madd_0_l : forall x, madd m0 x = x;
  madd_comm : forall x y, madd x y = madd y x;
  madd_assoc : forall x y z, madd x (madd y z) = madd (madd x y) z;
  mmul_1_l : forall x, mmul m1 x = x;
  mmul_1_r : forall x, mmul x m1 = x;
  mmul_assoc : forall x y z, mmul x (mmul y z) = mmul (mmul x y) z;
  mdistr_l : forall x y z, mmul (madd x y) z = madd (mmul x z) (mmul y z);
  mdistr_r : forall x y z, mmul z (madd x y) = madd (mmul z x) (mmul z y);
  msub_def : forall x y, msub x y = madd x (mopp y);
  mopp_def : forall x, madd x (mopp x) = m0;
  sc_0 : sc 0 = m0;
  sc_1 : sc 1 = m1;
  sc_add : forall a b, sc (a + b) = madd (sc a) (sc b);
  sc_mul : forall a b, sc (a * b) = mmul (sc a) (sc b);
  sc_central : forall a x, mmul (sc a) x = mmul x (sc a);
  tp_add : forall x y, tp (madd x y) = madd (tp x) (tp y);
  tp_mul : forall x y, tp (mmul x y) = mmul (tp y) (tp x);
  tp_sc : forall a, tp (sc a) = sc a;
  tp_tp : forall x, tp (tp x) = x
}.

Arguments m0 {_}. Arguments m1 {_}. Arguments madd {_}. Arguments mmul {_}.
Arguments msub {_}. Arguments mopp {_}. Arguments sc {_}. Arguments tp {_}.

Declare Scope mat_scope.
Delimit Scope mat_scope with M.
Bind Scope mat_scope with carrier.
Infix "+" := madd : mat_scope.
Infix "*" := mmul : mat_scope.
Infix "-" := msub : mat_scope.
Notation "- x" := (mopp x) : mat_scope.
Notation "0" := m0 : mat_scope.
Notation "1" := m1 : mat_scope.

Section Inst.
Variable A : MatAlg.
Import Ncring.
Global Instance MatAlg_ops : @Ring_ops (carrier A) m0 m1 madd mmul msub mopp (@eq (carrier A)) := {}.
Global Instance MatAlg_ring : @Ring (carrier A) m0 m1 madd mmul msub mopp (@eq (carrier A)) MatAlg_ops.
Proof.
  constructor; try (unfold equality, eq_notation, addition, add_notation, multiplication, mul_notation,
    subtraction, sub_notation, opposite, opp_notation, zero, zero_notation, one, one_notation; simpl).
  - apply eq_equivalence.
  - congruence. - congruence. - congruence. - congruence.
  - apply madd_0_l. - apply madd_comm. - apply madd_assoc. - apply mmul_1_l. - apply mmul_1_r.
  - apply mmul_assoc. - apply mdistr_l. - apply mdistr_r. - apply msub_def. - apply mopp_def.
Qed.
End Inst.

Ltac mat_ring :=
  intros;
  match goal with
  | |- @eq (carrier ?A) ?a ?b =>
      change (@Algebra_syntax.equality (carrier A) (@Ncring.eq_notation (carrier A) _ _ _ _ _ _ _ (MatAlg_ops A)) a b);
      Ncring_tac.non_commutative_ring
  end.

Section Lemmas.
Variable A : MatAlg.
Local Open Scope mat_scope.
Implicit Types x y z : A.
Lemma elim_r x y z : x + y = z -> y = z - x.
Proof. intros <-. mat_ring. Qed.
Lemma msub_self x : x - x = 0.
Proof. mat_ring. Qed.
Lemma tp_0 : tp (0:A) = 0.
Proof. rewrite <- (sc_0 A). apply tp_sc. Qed.
Lemma tp_1 : tp (1:A) = 1.
Proof. rewrite <- (sc_1 A). apply tp_sc. Qed.
Lemma tp_opp x : tp (- x) = - tp x.
Proof.
  assert (H : tp (-x) + tp x = 0).
  { rewrite <- tp_add. replace (- x + x) with (0:A) by mat_ring. apply tp_0. }
  replace (tp (- x)) with (tp (-x) + tp x - tp x) by mat_ring. rewrite H. mat_ring.
Qed.
Lemma tp_sub x y : tp (x - y) = tp x - tp y.
Proof. rewrite !msub_def, tp_add, tp_opp. reflexivity. Qed.
Lemma sc_opp a : sc (- a)%R = - (sc a : A).
Proof.
  assert (H : sc (-a)%R + sc a = (0:A)).
  { rewrite <- sc_add. replace (- a + a)%R with 0%R by ring. apply sc_0. }
  replace (sc (- a)%R : A) with ((sc (-a)%R : A) + sc a - sc a) by mat_ring. rewrite H. mat_ring.
Qed.
Lemma sc_sub a b : sc (a - b)%R = (sc a - sc b : A).
Proof. unfold Rminus. rewrite sc_add, sc_opp, msub_def. reflexivity. Qed.
Lemma sc_inv_l a : a <> 0%R -> (sc (/ a) * sc a = (1 : A)).
Proof. intro H. rewrite <- sc_mul, Rinv_l by exact H. apply sc_1. Qed.
End Lemmas.

(* ---- the reals as 1x1 matrices: shows the axioms are consistent (non-vacuity) ---- *)
Definition RAlg : MatAlg.
Proof.
  refine (@mkMatAlg R 0 1 Rplus Rmult Rminus Ropp (fun x => x) (fun x => x)
            _ _ _ _ _ _ _ _ _ _ _ _ _ _ _ _ _ _ _); intros; try reflexivity; try ring.
Defined.
