(* C05 -- vectors as functions I -> R with pointwise operations, linear operators, symmetric
   bilinear forms.  Everything the time-scheme theorems need; proved once, independent of /repo.
   Closing a Section that assumes [linear K] quantifies a theorem over every index type and
   every linear operator (all matrices of all sizes are instances, see C05_examples.v). *)
From Coq Require Import Reals FunctionalExtensionality Lra.
Local Open Scope R_scope.

Section Ops.
Context {I : Type}.
Notation Vec := (I -> R).

Definition vzero : Vec := fun _ => 0.
Definition vadd (x y : Vec) : Vec := fun i => x i + y i.
Definition vsub (x y : Vec) : Vec := fun i => x i - y i.
Definition vopp (x : Vec) : Vec := fun i => - x i.
Definition vscal (s : R) (x : Vec) : Vec := fun i => s * x i.
Definition vdivs (x : Vec) (s : R) : Vec := fun i => x i / s.

Definition ozero : Vec -> Vec := fun _ => vzero.
Definition oadd (A B : Vec -> Vec) : Vec -> Vec := fun v => vadd (A v) (B v).
Definition osub (A B : Vec -> Vec) : Vec -> Vec := fun v => vsub (A v) (B v).
Definition oopp (A : Vec -> Vec) : Vec -> Vec := fun v => vopp (A v).
Definition oscal (s : R) (A : Vec -> Vec) : Vec -> Vec := fun v => vscal s (A v).
Definition odivs (A : Vec -> Vec) (s : R) : Vec -> Vec := fun v => vdivs (A v) s.

Record linear (A : Vec -> Vec) : Prop := {
  lin_add : forall x y, A (vadd x y) = vadd (A x) (A y);
  lin_scal : forall s x, A (vscal s x) = vscal s (A x) }.

Lemma vsub_def x y : vsub x y = vadd x (vscal (-1) y).
Proof. extensionality i; unfold vsub, vadd, vscal; ring. Qed.
Lemma vopp_def x : vopp x = vscal (-1) x.
Proof. extensionality i; unfold vopp, vscal; ring. Qed.
Lemma vdivs_def x s : vdivs x s = vscal (/ s) x.
Proof. extensionality i; unfold vdivs, vscal, Rdiv; ring. Qed.
Lemma vzero_def (x : Vec) : vzero = vscal 0 x.
Proof. extensionality i; unfold vzero, vscal; ring. Qed.

Section Lin.
Variable A : Vec -> Vec.
Hypothesis HA : linear A.
Lemma lin_sub x y : A (vsub x y) = vsub (A x) (A y).
Proof. rewrite !vsub_def, (lin_add _ HA), (lin_scal _ HA); reflexivity. Qed.
Lemma lin_opp x : A (vopp x) = vopp (A x).
Proof. rewrite !vopp_def, (lin_scal _ HA); reflexivity. Qed.
Lemma lin_divs x s : A (vdivs x s) = vdivs (A x) s.
Proof. rewrite !vdivs_def, (lin_scal _ HA); reflexivity. Qed.
Lemma lin_zero : A vzero = vzero.
Proof.
  transitivity (A (vscal 0 vzero)).
  - f_equal. apply vzero_def.
  - rewrite (lin_scal _ HA). symmetry. apply vzero_def.
Qed.
End Lin.

Lemma ozero_linear : linear ozero.
Proof. split; intros; extensionality i; unfold ozero, vadd, vscal, vzero; ring. Qed.

(* symmetric bilinear forms *)
Record inner (ip : Vec -> Vec -> R) : Prop := {
  ip_sym : forall x y, ip x y = ip y x;
  ip_add_l : forall x y z, ip (vadd x y) z = ip x z + ip y z;
  ip_scal_l : forall s x y, ip (vscal s x) y = s * ip x y }.

Section Ip.
Variable ip : Vec -> Vec -> R.
Hypothesis Hip : inner ip.
Lemma ip_add_r x y z : ip z (vadd x y) = ip z x + ip z y.
Proof. rewrite (ip_sym _ Hip), (ip_add_l _ Hip), (ip_sym _ Hip x z), (ip_sym _ Hip y z); reflexivity. Qed.
Lemma ip_scal_r s x y : ip y (vscal s x) = s * ip y x.
Proof. rewrite (ip_sym _ Hip), (ip_scal_l _ Hip), (ip_sym _ Hip x y); reflexivity. Qed.
Lemma ip_sub_l x y z : ip (vsub x y) z = ip x z - ip y z.
Proof. rewrite vsub_def, (ip_add_l _ Hip), (ip_scal_l _ Hip); ring. Qed.
Lemma ip_sub_r x y z : ip z (vsub x y) = ip z x - ip z y.
Proof. rewrite vsub_def, ip_add_r, ip_scal_r; ring. Qed.
Lemma ip_opp_l x z : ip (vopp x) z = - ip x z.
Proof. rewrite vopp_def, (ip_scal_l _ Hip); ring. Qed.
Lemma ip_opp_r x z : ip z (vopp x) = - ip z x.
Proof. rewrite vopp_def, ip_scal_r; ring. Qed.
Lemma ip_divs_l x s z : ip (vdivs x s) z = ip x z / s.
Proof. rewrite vdivs_def, (ip_scal_l _ Hip); unfold Rdiv; ring. Qed.
Lemma ip_divs_r x s z : ip z (vdivs x s) = ip z x / s.
Proof. rewrite vdivs_def, ip_scal_r; unfold Rdiv; ring. Qed.
Lemma ip_zero_l z : ip vzero z = 0.
Proof. rewrite (vzero_def z), (ip_scal_l _ Hip); ring. Qed.
Lemma ip_zero_r z : ip z vzero = 0.
Proof. rewrite (ip_sym _ Hip); apply ip_zero_l. Qed.
End Ip.

Definition selfadj (ip : Vec -> Vec -> R) (A : Vec -> Vec) : Prop := forall x y, ip (A x) y = ip x (A y).
Definition psd (ip : Vec -> Vec -> R) (A : Vec -> Vec) : Prop := forall x, 0 <= ip (A x) x.

Lemma selfadj_swap ip A : inner ip -> selfadj ip A -> forall x y, ip (A x) y = ip (A y) x.
Proof. intros Hip HA x y. rewrite (HA x y). apply (ip_sym _ Hip). Qed.

End Ops.

(* ---- tactics ---------------------------------------------------------------------------- *)
Ltac lin_rw H :=
  rewrite ?(lin_add _ H), ?(lin_sub _ H), ?(lin_opp _ H), ?(lin_scal _ H), ?(lin_divs _ H), ?(lin_zero _ H).

Ltac ounfold := unfold oadd, osub, oopp, oscal, odivs, ozero.
Ltac vunfold := unfold vadd, vsub, vopp, vscal, vdivs, vzero.

(* push three linear operators through every vector combinator *)
Ltac lin3 HK HC HM := ounfold; repeat progress (lin_rw HK; lin_rw HC; lin_rw HM).

Ltac nzside := repeat split; try assumption; try lra; try (apply Rgt_not_eq; lra).

(* pointwise identity between vector expressions: goal is an equation in R at an index *)
Ltac vec_field HK HC HM := lin3 HK HC HM; vunfold; field; nzside.
Ltac vec_field0 := ounfold; vunfold; field; nzside.

Ltac ip_rw H :=
  rewrite ?(ip_add_l _ H), ?(ip_add_r _ H), ?(ip_sub_l _ H), ?(ip_sub_r _ H),
          ?(ip_opp_l _ H), ?(ip_opp_r _ H), ?(ip_scal_l _ H), ?(ip_scal_r _ H),
          ?(ip_divs_l _ H), ?(ip_divs_r _ H), ?(ip_zero_l _ H), ?(ip_zero_r _ H).
Ltac ip_expand H := repeat progress (ip_rw H).
