(* C02_RankR.v — trivial kernel over the REALS of a rational matrix, from an EXACT integer certificate:
   if  L * A_Z = d * I  holds exactly over Z with d <> 0, where A_Z is the row-wise integer scaling of
   the rational matrix A_Q, then every real vector x with A_Q x = 0 is zero
   (d x = L A_Z x = 0: two lines over R, no elimination in R, no descent, no number theory).
   L and d come from an UNTRUSTED fraction-free Gauss-Jordan elimination over Z (Bareiss); only the
   exact check is trusted.  Complements EFLib.C02_RankQ (certificate modulo p: cheap, rational vectors
   only).  Independent of /repo. *)
From Coq Require Import ZArith QArith Qreals Reals List Bool Lia Lra Arith.
From Bignums Require Import BigZ.
From EFLib Require Import C02_RankQ.
Import ListNotations.
Open Scope R_scope.

Fixpoint dotR (a b : list R) : R :=
  match a, b with x :: a', y :: b' => x * y + dotR a' b' | _, _ => 0 end.
Definition dotRZ (r : list Z) (x : list R) : R := dotR (map IZR r) x.
Definition dotRQ (r : list Q) (x : list R) : R := dotR (map Q2R r) x.

Lemma dotRZ_repeat0 n x : dotRZ (repeat 0%Z n) x = 0.
Proof. unfold dotRZ. revert x. induction n as [|n IH]; intros [|y x]; simpl; auto. rewrite IH. lra. Qed.
Lemma dotRZ_vscal c a x : dotRZ (vscalZ c a) x = IZR c * dotRZ a x.
Proof.
  unfold dotRZ. revert x. induction a as [|u a IH]; intros [|y x]; simpl; try lra.
  rewrite IH, mult_IZR. lra.
Qed.
Lemma dotRZ_vadd a b x : length a = length b -> dotRZ (vaddZ a b) x = dotRZ a x + dotRZ b x.
Proof.
  unfold dotRZ. revert b x. induction a as [|u a IH]; intros [|v b] [|y x] H; simpl in *; try lia; try lra.
  rewrite IH by lia. rewrite plus_IZR. lra.
Qed.
Lemma dotRZ_lincomb n c rows x : Forall (fun r => length r = n) rows ->
  Forall (fun r => dotRZ r x = 0) rows -> dotRZ (lincomb n c rows) x = 0.
Proof.
  revert rows. induction c as [|ci c IH]; intros [|r rows] Hl H0; simpl; try apply dotRZ_repeat0.
  inversion Hl as [|r0 rows0 Hr Hrows]; clear Hl. inversion H0 as [|r1 rows1 Hr0 Hrows0]; clear H0. subst.
  rewrite dotRZ_vadd by (rewrite vscalZ_length, lincomb_length; congruence).
  rewrite dotRZ_vscal, Hr0. rewrite (IH rows Hrows Hrows0). lra.
Qed.

Lemma dotR_unit_seq (one zero : R) : one = 1 -> zero = 0 -> forall n s j x, length x = n ->
  dotR (map (fun i => if Nat.eqb i j then one else zero) (seq s n)) x =
  if (Nat.leb s j && Nat.ltb j (s + n))%bool then nth (j - s) x 0 else 0.
Proof.
  intros H1 H0. subst. induction n as [|n IH]; intros s j x Hx.
  - simpl. destruct (Nat.leb s j) eqn:E1; simpl; [|reflexivity].
    destruct (Nat.ltb j (s + 0)) eqn:E2; [|reflexivity]. apply Nat.leb_le in E1. apply Nat.ltb_lt in E2. lia.
  - destruct x as [|y x]; [discriminate|]. simpl in Hx. cbn [seq map dotR]. rewrite IH by lia.
    destruct (Nat.eqb s j) eqn:E.
    + apply Nat.eqb_eq in E. subst j.
      replace (Nat.leb (S s) s) with false by (symmetry; apply Nat.leb_gt; lia).
      replace (Nat.leb s s) with true by (symmetry; apply Nat.leb_le; lia).
      replace (Nat.ltb s (s + S n)) with true by (symmetry; apply Nat.ltb_lt; lia).
      rewrite Nat.sub_diag. cbn [andb nth]. lra.
    + apply Nat.eqb_neq in E.
      destruct (Nat.leb (S s) j) eqn:E1.
      * apply Nat.leb_le in E1. replace (Nat.leb s j) with true by (symmetry; apply Nat.leb_le; lia).
        replace (S s + n)%nat with (s + S n)%nat by lia. cbn [andb].
        destruct (Nat.ltb j (s + S n)); [|lra].
        replace (j - s)%nat with (S (j - S s)) by lia. cbn [nth]. lra.
      * apply Nat.leb_gt in E1. replace (Nat.leb s j) with false by (symmetry; apply Nat.leb_gt; lia).
        cbn [andb]. lra.
Qed.

Lemma dotRZ_scaled_unit d n j x : (j < n)%nat -> length x = n ->
  dotRZ (vscalZ d (unitZ n j)) x = IZR d * nth j x 0.
Proof.
  intros Hj Hx. rewrite dotRZ_vscal. f_equal. unfold dotRZ, unitZ. rewrite map_map.
  rewrite (map_ext _ (fun i => if Nat.eqb i j then 1 else 0)) by (intro i; destruct (Nat.eqb i j); reflexivity).
  rewrite (dotR_unit_seq 1 0 eq_refl eq_refl n 0 j x Hx).
  replace (Nat.ltb j (0 + n)) with true by (symmetry; apply Nat.ltb_lt; lia). simpl. now rewrite Nat.sub_0_r.
Qed.
Lemma dotRQ_unit n j x : (j < n)%nat -> length x = n -> dotRQ (unitQ n j) x = nth j x 0.
Proof.
  intros Hj Hx. unfold dotRQ, unitQ. rewrite map_map.
  rewrite (map_ext _ (fun i => if Nat.eqb i j then Q2R 1 else Q2R 0)) by (intro i; destruct (Nat.eqb i j); reflexivity).
  rewrite (dotR_unit_seq (Q2R 1) (Q2R 0)); [| unfold Q2R; simpl; lra | unfold Q2R; simpl; lra | exact Hx].
  replace (Nat.ltb j (0 + n)) with true by (symmetry; apply Nat.ltb_lt; lia). simpl. now rewrite Nat.sub_0_r.
Qed.

(* exact certificate: (L A)_j = d e_j for every j, as lists of integers *)
Fixpoint list_eqbZ (a b : list Z) : bool :=
  match a, b with
  | x :: a', y :: b' => Z.eqb x y && list_eqbZ a' b'
  | [], [] => true
  | _, _ => false
  end.
Lemma list_eqbZ_eq a b : list_eqbZ a b = true -> a = b.
Proof.
  revert b. induction a as [|x a IH]; intros [|y b] H; simpl in H; try discriminate; [reflexivity|].
  apply andb_true_iff in H as [H1 H2]. apply Z.eqb_eq in H1. f_equal; auto.
Qed.
Fixpoint chk_rows_exact (d : Z) (n : nat) (A : list (list Z)) (j : nat) (L : list (list Z)) : bool :=
  match L with
  | [] => true
  | Lj :: L' => list_eqbZ (lincomb n Lj A) (vscalZ d (unitZ n j)) && chk_rows_exact d n A (S j) L'
  end.
Definition chk_exactinv (d : Z) (n : nat) (L A : list (list Z)) : bool :=
  negb (Z.eqb d 0) && Nat.eqb (length L) n && forallb (fun r => Nat.eqb (length r) n) A && chk_rows_exact d n A 0 L.
Lemma chk_rows_exact_nth d n A : forall L j0, chk_rows_exact d n A j0 L = true ->
  forall j Lj, nth_error L j = Some Lj -> lincomb n Lj A = vscalZ d (unitZ n (j0 + j)).
Proof.
  induction L as [|L0 L IH]; intros j0 H j Lj Hj; [destruct j; discriminate|].
  simpl in H. apply andb_true_iff in H as [H1 H2]. destruct j as [|j]; simpl in Hj.
  - inversion Hj; subst. rewrite Nat.add_0_r. now apply list_eqbZ_eq.
  - replace (j0 + S j)%nat with (S j0 + j)%nat by lia. eapply IH; eauto.
Qed.

Lemma Q2R_inject_Z z : Q2R (inject_Z z) = IZR z.
Proof. unfold Q2R, inject_Z. simpl. field. Qed.
Lemma scaled_row_dotR d rz rq x : chk_scaled_row d rz rq = true -> dotRZ rz x = IZR d * dotRQ rq x.
Proof.
  unfold dotRZ, dotRQ. revert rq x. induction rz as [|z rz IH]; intros [|q rq] x H; simpl in H; try discriminate.
  - simpl. lra.
  - apply andb_true_iff in H as [H1 H2]. apply Qeq_bool_eq in H1. apply Qeq_eqR in H1.
    rewrite Q2R_mult, !Q2R_inject_Z in H1.
    destruct x as [|y x]; simpl; [lra|]. rewrite (IH rq x H2), H1. lra.
Qed.

(* MAIN THEOREM over R *)
Theorem real_kernel_trivial (d : Z) (n : nat) (L AZ : list (list Z)) (ds : list Z) (AQ : list (list Q)) :
  chk_exactinv d n L AZ = true -> chk_scaling ds AZ AQ = true ->
  forall x : list R, length x = n -> (forall rq, In rq AQ -> dotRQ rq x = 0) ->
  Forall (fun xk => xk = 0) x.
Proof.
  intros HL HS x Hx Hker. unfold chk_exactinv in HL.
  apply andb_true_iff in HL as [HL Hrows]. apply andb_true_iff in HL as [HL HlenA].
  apply andb_true_iff in HL as [Hd HlenL]. apply negb_true_iff in Hd. apply Z.eqb_neq in Hd.
  apply Nat.eqb_eq in HlenL.
  assert (HlA : Forall (fun r => length r = n) AZ).
  { apply Forall_forall. intros r Hr. rewrite forallb_forall in HlenA. now apply Nat.eqb_eq, HlenA. }
  assert (HAz : Forall (fun r => dotRZ r x = 0) AZ).
  { apply Forall_forall. intros rz Hrz.
    destruct (chk_scaling_rows ds AZ AQ HS rz Hrz) as [di [rq [Hin [Hdi Hrow]]]].
    rewrite (scaled_row_dotR di rz rq x Hrow), (Hker rq Hin). lra. }
  apply Forall_forall. intros a Ha. apply In_nth_error in Ha as [j Hj].
  assert (Hjn : (j < n)%nat) by (rewrite <- Hx; apply nth_error_Some; congruence).
  destruct (nth_error L j) as [Lj|] eqn:HLj; [|apply nth_error_None in HLj; lia].
  pose proof (chk_rows_exact_nth d n AZ L 0 Hrows j Lj HLj) as Hc. simpl in Hc.
  pose proof (dotRZ_lincomb n Lj AZ x HlA HAz) as H0.
  rewrite Hc, (dotRZ_scaled_unit d n j x Hjn Hx), (nth_error_nth x j 0 Hj) in H0.
  assert (IZR d <> 0) by (apply not_0_IZR; exact Hd). nra.
Qed.

(* pinned form: rows selected from G plus unit rows of the pinned dofs *)
Theorem pinned_real_kernel_trivial (d : Z) (n : nat) (L AZ : list (list Z)) (ds : list Z)
        (G : list (list Q)) (sel S : list nat) :
  forallb (fun i => Nat.ltb i (length G)) sel = true -> forallb (fun s => Nat.ltb s n) S = true ->
  chk_exactinv d n L AZ = true -> chk_scaling ds AZ (pinned_system n G sel S) = true ->
  forall x : list R, length x = n -> (forall rq, In rq G -> dotRQ rq x = 0) ->
  (forall s, In s S -> nth s x 0 = 0) -> Forall (fun xk => xk = 0) x.
Proof.
  intros Hsel HS HL Hsc x Hx HG Hpin.
  apply (real_kernel_trivial d n L AZ ds (pinned_system n G sel S) HL Hsc x Hx).
  intros rq Hin. unfold pinned_system in Hin. apply in_app_or in Hin as [Hin|Hin].
  - unfold select_rows in Hin. apply in_map_iff in Hin as [i [<- Hi]]. apply HG. apply nth_In.
    rewrite forallb_forall in Hsel. now apply Nat.ltb_lt, Hsel.
  - apply in_map_iff in Hin as [s [<- Hs]]. rewrite dotRQ_unit; auto.
    rewrite forallb_forall in HS. now apply Nat.ltb_lt, HS.
Qed.

(* ---------- untrusted fraction-free Gauss-Jordan over Z (Bareiss): [A | I] -> [d I | d A^-1] ---------- *)
Open Scope Z_scope.
Fixpoint take_pivotZ (k : nat) (rows acc : list (list Z)) : option (list Z * list (list Z)) :=
  match rows with
  | [] => None
  | r :: rs => if Z.eqb (nth k r 0) 0 then take_pivotZ k rs (r :: acc) else Some (r, rev_append acc rs)
  end.
Fixpoint comb2 (p c prev : Z) (r pv : list Z) : list Z :=
  match r, pv with
  | x :: r', y :: pv' => ((p * x - c * y) / prev) :: comb2 p c prev r' pv'
  | _, _ => []
  end.
Fixpoint bareiss (n k : nat) (prev : Z) (done todo : list (list Z)) (fuel : nat) : option (list (list Z)) :=
  match fuel with
  | O => if Nat.eqb k n then Some done else None
  | S fuel' =>
      if Nat.eqb k n then Some done else
      match take_pivotZ k todo [] with
      | None => None
      | Some (pv, rest) =>
          let p := nth k pv 0 in
          let elim := fun r => comb2 p (nth k r 0) prev r pv in
          bareiss n (S k) p (map elim done ++ [pv]) (map elim rest) fuel'
      end
  end.
Definition unit_rowZ (n j : nat) : list Z := map (fun i => if Nat.eqb i j then 1 else 0) (seq 0 n).
(* returns (d, L) with L A = d I expected (checked separately) *)
Definition exact_inverse (n : nat) (A : list (list Z)) : option (Z * list (list Z)) :=
  let aug := map (fun ir => snd ir ++ unit_rowZ n (fst ir)) (combine (seq 0 n) A) in
  match bareiss n 0 1 [] aug n with
  | Some rows => Some (nth 0 (nth 0 rows []) 0, map (fun r => skipn n r) rows)
  | None => None
  end.

(* the same elimination with Bignums.BigZ (machine-integer limbs: much faster under vm_compute);
   still untrusted — its result is converted to Z and checked by chk_exactinv *)
Fixpoint take_pivotB (k : nat) (rows acc : list (list bigZ)) : option (list bigZ * list (list bigZ)) :=
  match rows with
  | [] => None
  | r :: rs => if BigZ.eqb (nth k r BigZ.zero) BigZ.zero then take_pivotB k rs (r :: acc) else Some (r, rev_append acc rs)
  end.
Fixpoint comb2B (p c prev : bigZ) (r pv : list bigZ) : list bigZ :=
  match r, pv with
  | x :: r', y :: pv' => BigZ.div (BigZ.sub (BigZ.mul p x) (BigZ.mul c y)) prev :: comb2B p c prev r' pv'
  | _, _ => []
  end.
Fixpoint bareissB (n k : nat) (prev : bigZ) (done todo : list (list bigZ)) (fuel : nat) : option (list (list bigZ)) :=
  match fuel with
  | O => if Nat.eqb k n then Some done else None
  | S fuel' =>
      if Nat.eqb k n then Some done else
      match take_pivotB k todo [] with
      | None => None
      | Some (pv, rest) =>
          let p := nth k pv BigZ.zero in
          let elim := fun r => comb2B p (nth k r BigZ.zero) prev r pv in
          bareissB n (S k) p (map elim done ++ [pv]) (map elim rest) fuel'
      end
  end.
Definition exact_inverseB (n : nat) (A : list (list Z)) : option (Z * list (list Z)) :=
  let aug := map (fun ir => map BigZ.of_Z (snd ir ++ unit_rowZ n (fst ir))) (combine (seq 0 n) A) in
  match bareissB n 0 BigZ.one [] aug n with
  | Some rows => let rz := map (map BigZ.to_Z) rows in Some (nth 0 (nth 0 rz []) 0, map (fun r => skipn n r) rz)
  | None => None
  end.
Example exact_inverseB_ex :
  match exact_inverseB 3 [[2;1;0];[1;3;1];[0;1;4]] with
  | Some (d, L) => chk_exactinv d 3 L [[2;1;0];[1;3;1];[0;1;4]] | None => false end = true.
Proof. vm_compute. reflexivity. Qed.

Example exact_inverse_ex :
  match exact_inverse 3 [[2;1;0];[1;3;1];[0;1;4]] with
  | Some (d, L) => chk_exactinv d 3 L [[2;1;0];[1;3;1];[0;1;4]] | None => false end = true.
Proof. vm_compute. reflexivity. Qed.
Example real_cert_ex : chk_exactinv 1 2 [[1; -1]; [-1; 2]] [[2; 1]; [1; 1]] = true.
Proof. vm_compute. reflexivity. Qed.
