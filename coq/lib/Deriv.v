(* Deriv.v — the formal partial derivative [pd] of EFLib.PolyQ IS the derivative:
   Coquelicot's [is_derive] of the real function obtained by varying one variable of the
   environment.  Independent of /repo. *)
From Coq Require Import QArith Qreals Reals Ring_polynom List Lia Lra Arith PArith NArith.
From Coquelicot Require Import Coquelicot.
From EFLib Require Import PolyQ.
Import ListNotations.
Open Scope R_scope.

(* evaluation with the environment as a function *)
Fixpoint Rev (env : positive -> R) (e : PExpr Q) : R :=
  match e with
  | PEO => 0 | PEI => 1 | PEc c => Q2R c
  | PEX j => env j
  | PEadd a b => Rev env a + Rev env b
  | PEsub a b => Rev env a - Rev env b
  | PEmul a b => Rev env a * Rev env b
  | PEopp a => - Rev env a
  | PEpow a n => pow (Rev env a) (N.to_nat n)
  end.

Definition lenv (l : list R) : positive -> R := fun j => BinList.nth 0 j l.

Lemma Reval_Rev l e : Reval l e = Rev (lenv l) e.
Proof. unfold Reval. induction e; simpl; try congruence; reflexivity. Qed.

Lemma Rev_ext env1 env2 e : (forall j, env1 j = env2 j) -> Rev env1 e = Rev env2 e.
Proof. intro H. induction e; simpl; try congruence; auto. Qed.

Definition updf (env : positive -> R) (i : positive) (t : R) : positive -> R :=
  fun j => if Pos.eqb j i then t else env j.

Lemma to_nat_pred_N p : N.to_nat (Pos.pred_N p) = pred (Pos.to_nat p).
Proof.
  destruct p as [p|p|]; cbn [Pos.pred_N N.to_nat].
  - rewrite Pos2Nat.inj_xI, Pos2Nat.inj_xO. lia.
  - pose proof (Pos.succ_pred_double p) as H. apply (f_equal Pos.to_nat) in H.
    rewrite Pos2Nat.inj_succ in H. rewrite <- H. reflexivity.
  - reflexivity.
Qed.

Lemma Q2R_inject_pos p : Q2R (inject_Z (Zpos p)) = INR (Pos.to_nat p).
Proof.
  unfold Q2R, inject_Z; simpl. rewrite INR_IZR_INZ, positive_nat_Z. field.
Qed.

Theorem pd_is_derive_f (e : PExpr Q) (env : positive -> R) (i : positive) (x : R) :
  is_derive (fun t => Rev (updf env i t) e) x (Rev (updf env i x) (pd i e)).
Proof.
  induction e as [| |c|j|a IHa b IHb|a IHa b IHb|a IHa b IHb|a IHa|a IHa n]; simpl.
  - apply (is_derive_const 0 x).
  - apply (is_derive_const 1 x).
  - apply (is_derive_const (Q2R c) x).
  - unfold updf at 1. rewrite (Pos.eqb_sym i j). destruct (Pos.eqb j i); simpl.
    + apply (is_derive_id x).
    + apply (is_derive_const (env j) x).
  - apply (is_derive_plus (fun t => Rev (updf env i t) a) (fun t => Rev (updf env i t) b) x _ _ IHa IHb).
  - apply (is_derive_minus (fun t => Rev (updf env i t) a) (fun t => Rev (updf env i t) b) x _ _ IHa IHb).
  - apply (is_derive_mult (fun t => Rev (updf env i t) a) (fun t => Rev (updf env i t) b) x _ _ IHa IHb).
    intros n m. apply Rmult_comm.
  - apply (is_derive_opp (fun t => Rev (updf env i t) a) x _ IHa).
  - destruct n as [|p]; simpl.
    + apply (is_derive_const 1 x).
    + rewrite to_nat_pred_N, Q2R_inject_pos.
      pose proof (is_derive_pow (fun t => Rev (updf env i t) a) (Pos.to_nat p) x _ IHa) as H.
      match goal with |- is_derive _ _ ?l => replace l with (INR (Pos.to_nat p) * Rev (updf env i x) (pd i a) * Rev (updf env i x) a ^ pred (Pos.to_nat p)) by ring end.
      exact H.
Qed.

(* ---- list environments: varying the 1st, 2nd or 3rd variable ---- *)
Lemma binnth_succ {A} (d : A) : forall p l, BinList.nth d (Pos.succ p) l = BinList.nth d p (tl l).
Proof.
  induction p as [q IH|q IH|]; intros l; simpl.
  - rewrite IH. rewrite BinList.jump_succ. simpl. rewrite !BinList.jump_tl. reflexivity.
  - reflexivity.
  - reflexivity.
Qed.

Lemma lenv_cons_1 a l : lenv (a :: l) 1 = a.
Proof. reflexivity. Qed.
Lemma lenv_cons_succ a l p : lenv (a :: l) (Pos.succ p) = lenv l p.
Proof. unfold lenv. rewrite binnth_succ. reflexivity. Qed.

Lemma pos_case (j : positive) : j = 1%positive \/ exists p, j = Pos.succ p.
Proof. destruct (Pos.eq_dec j 1) as [E|E]; [left; exact E | right; exists (Pos.pred j); symmetry; apply Pos.succ_pred; exact E]. Qed.

Lemma updf_1 x t rest j : updf (lenv (x :: rest)) 1 t j = lenv (t :: rest) j.
Proof.
  unfold updf. destruct (pos_case j) as [->|[p ->]].
  - reflexivity.
  - replace (Pos.eqb (Pos.succ p) 1) with false.
    + now rewrite !lenv_cons_succ.
    + symmetry. apply Pos.eqb_neq. apply Pos.succ_not_1.
Qed.

Lemma updf_succ_1 a l i t : updf (lenv (a :: l)) (Pos.succ i) t 1 = a.
Proof.
  unfold updf. replace (Pos.eqb 1 (Pos.succ i)) with false; [reflexivity|].
  symmetry. apply Pos.eqb_neq. intro H. symmetry in H. now apply Pos.succ_not_1 in H.
Qed.

Lemma updf_succ_succ a l i t p : updf (lenv (a :: l)) (Pos.succ i) t (Pos.succ p) = updf (lenv l) i t p.
Proof.
  unfold updf. rewrite lenv_cons_succ.
  destruct (Pos.eqb p i) eqn:E.
  - apply Pos.eqb_eq in E. subst. now rewrite Pos.eqb_refl.
  - replace (Pos.eqb (Pos.succ p) (Pos.succ i)) with false; [reflexivity|].
    symmetry. apply Pos.eqb_neq. apply Pos.eqb_neq in E. intro H. apply Pos.succ_inj in H. contradiction.
Qed.

Theorem pd_is_derive_1 (e : PExpr Q) (rest : list R) (x : R) :
  is_derive (fun t => Reval (t :: rest) e) x (Reval (x :: rest) (pd 1 e)).
Proof.
  pose proof (pd_is_derive_f e (lenv (x :: rest)) 1 x) as H.
  rewrite (Rev_ext _ (lenv (x :: rest)) (pd 1 e)) in H by (intro j; apply updf_1).
  rewrite <- Reval_Rev in H.
  eapply is_derive_ext; [|exact H].
  intro t. simpl. rewrite Reval_Rev. apply Rev_ext. intro j. apply updf_1.
Qed.

Lemma updf_2 a x t rest j : updf (lenv (a :: x :: rest)) 2 t j = lenv (a :: t :: rest) j.
Proof.
  change 2%positive with (Pos.succ 1).
  destruct (pos_case j) as [->|[p ->]].
  - rewrite updf_succ_1. reflexivity.
  - rewrite updf_succ_succ, updf_1, lenv_cons_succ. reflexivity.
Qed.

Theorem pd_is_derive_2 (e : PExpr Q) (a : R) (rest : list R) (x : R) :
  is_derive (fun t => Reval (a :: t :: rest) e) x (Reval (a :: x :: rest) (pd 2 e)).
Proof.
  pose proof (pd_is_derive_f e (lenv (a :: x :: rest)) 2 x) as H.
  rewrite (Rev_ext _ (lenv (a :: x :: rest)) (pd 2 e)) in H by (intro j; apply updf_2).
  rewrite <- Reval_Rev in H.
  eapply is_derive_ext; [|exact H].
  intro t. simpl. rewrite Reval_Rev. apply Rev_ext. intro j. apply updf_2.
Qed.

Lemma updf_3 a b x t rest j : updf (lenv (a :: b :: x :: rest)) 3 t j = lenv (a :: b :: t :: rest) j.
Proof.
  change 3%positive with (Pos.succ 2).
  destruct (pos_case j) as [->|[p ->]].
  - rewrite updf_succ_1. reflexivity.
  - rewrite updf_succ_succ, updf_2, lenv_cons_succ. reflexivity.
Qed.

Theorem pd_is_derive_3 (e : PExpr Q) (a b : R) (rest : list R) (x : R) :
  is_derive (fun t => Reval (a :: b :: t :: rest) e) x (Reval (a :: b :: x :: rest) (pd 3 e)).
Proof.
  pose proof (pd_is_derive_f e (lenv (a :: b :: x :: rest)) 3 x) as H.
  rewrite (Rev_ext _ (lenv (a :: b :: x :: rest)) (pd 3 e)) in H by (intro j; apply updf_3).
  rewrite <- Reval_Rev in H.
  eapply is_derive_ext; [|exact H].
  intro t. simpl. rewrite Reval_Rev. apply Rev_ext. intro j. apply updf_3.
Qed.

Print Assumptions pd_is_derive_3.
