(* C02_RankQ.v — machine-checked replacement of the informal step "rank modulo p is a lower bound of
   the rational rank".  Certificate form, valid for ANY modulus p > 1 (no primality needed):

     if an integer matrix L satisfies  L * A = I (mod p)  entrywise for the integer square/tall
     matrix A, then the only INTEGER vector x with A x = 0 is x = 0            (infinite descent:
     x = L A x = 0 (mod p), so x = p y with A y = 0, ...),

   lifted to rational matrices (rows scaled to integers) and rational vectors (common denominator).
   L is produced by an UNTRUSTED Gauss-Jordan elimination with native integers (below); only the
   check  L * A = I (mod p)  over Z is trusted (executed by vm_compute).  Independent of /repo. *)
From Coq Require Import ZArith QArith List Bool Lia Arith Znumtheory Wf_nat.
Import ListNotations.
Open Scope Z_scope.

(* ---------- vectors over Z ---------- *)
Fixpoint dotZ (a b : list Z) : Z :=
  match a, b with x :: a', y :: b' => x * y + dotZ a' b' | _, _ => 0 end.
Fixpoint vaddZ (a b : list Z) : list Z :=
  match a, b with x :: a', y :: b' => (x + y) :: vaddZ a' b' | _, _ => [] end.
Definition vscalZ (c : Z) (a : list Z) : list Z := map (Z.mul c) a.
(* sum_i c_i * rows_i, as a vector of length n *)
Fixpoint lincomb (n : nat) (c : list Z) (rows : list (list Z)) : list Z :=
  match c, rows with
  | ci :: c', r :: rows' => vaddZ (vscalZ ci r) (lincomb n c' rows')
  | _, _ => repeat 0 n
  end.

Lemma dotZ_repeat0 n x : dotZ (repeat 0 n) x = 0.
Proof. revert x. induction n as [|n IH]; intros [|y x]; simpl; auto. Qed.
Lemma dotZ_vscal c a x : dotZ (vscalZ c a) x = c * dotZ a x.
Proof. revert x. induction a as [|u a IH]; intros [|y x]; simpl; try lia. rewrite IH. lia. Qed.
Lemma vaddZ_length a b : length a = length b -> length (vaddZ a b) = length a.
Proof. revert b. induction a as [|u a IH]; intros [|v b] H; simpl in *; try lia. rewrite IH; lia. Qed.
Lemma dotZ_vadd a b x : length a = length b -> dotZ (vaddZ a b) x = dotZ a x + dotZ b x.
Proof.
  revert b x. induction a as [|u a IH]; intros [|v b] [|y x] H; simpl in *; try lia.
  rewrite IH by lia. lia.
Qed.
Lemma vscalZ_length c a : length (vscalZ c a) = length a.
Proof. apply map_length. Qed.
Lemma lincomb_length n c rows : Forall (fun r => length r = n) rows -> length (lincomb n c rows) = n.
Proof.
  revert rows. induction c as [|ci c IH]; intros [|r rows] H; simpl; try apply repeat_length.
  inversion H as [|r0 rows0 Hr Hrows]; clear H.
  assert (Hl : length (lincomb n c rows) = n) by (apply IH; assumption).
  rewrite vaddZ_length; rewrite vscalZ_length; congruence.
Qed.
(* (c^T A) x = c^T (A x) : if every row of A annihilates x, so does every combination *)
Lemma dotZ_lincomb n c rows x : Forall (fun r => length r = n) rows ->
  Forall (fun r => dotZ r x = 0) rows -> dotZ (lincomb n c rows) x = 0.
Proof.
  revert rows. induction c as [|ci c IH]; intros [|r rows] Hl H0; simpl; try apply dotZ_repeat0.
  inversion Hl as [|r0 rows0 Hr Hrows]; clear Hl. inversion H0 as [|r1 rows1 Hr0 Hrows0]; clear H0.
  rewrite dotZ_vadd by (rewrite vscalZ_length, lincomb_length; congruence).
  subst. rewrite dotZ_vscal, Hr0. rewrite (IH rows Hrows Hrows0). lia.
Qed.

(* unit vector e_j of length n *)
Definition unitZ (n j : nat) : list Z := map (fun i => if Nat.eqb i j then 1 else 0) (seq 0 n).
Lemma dotZ_unit_seq : forall n s j x, length x = n ->
  dotZ (map (fun i => if Nat.eqb i j then 1 else 0) (seq s n)) x =
  if (Nat.leb s j && Nat.ltb j (s + n))%bool then nth (j - s) x 0 else 0.
Proof.
  induction n as [|n IH]; intros s j x Hx.
  - simpl. destruct (Nat.leb s j) eqn:E1; simpl; [|reflexivity].
    destruct (Nat.ltb j (s + 0)) eqn:E2; [|reflexivity]. apply Nat.leb_le in E1. apply Nat.ltb_lt in E2. lia.
  - destruct x as [|y x]; [discriminate|]. simpl in Hx. cbn [seq map dotZ]. rewrite IH by lia.
    destruct (Nat.eqb s j) eqn:E.
    + apply Nat.eqb_eq in E. subst j.
      replace (Nat.leb (S s) s) with false by (symmetry; apply Nat.leb_gt; lia).
      replace (Nat.leb s s) with true by (symmetry; apply Nat.leb_le; lia).
      replace (Nat.ltb s (s + S n)) with true by (symmetry; apply Nat.ltb_lt; lia).
      rewrite Nat.sub_diag. cbn [andb nth]. lia.
    + apply Nat.eqb_neq in E.
      destruct (Nat.leb (S s) j) eqn:E1.
      * apply Nat.leb_le in E1. replace (Nat.leb s j) with true by (symmetry; apply Nat.leb_le; lia).
        replace (S s + n)%nat with (s + S n)%nat by lia. simpl.
        destruct (Nat.ltb j (s + S n)); [|lia].
        replace (j - s)%nat with (S (j - S s)) by lia. simpl. lia.
      * apply Nat.leb_gt in E1. replace (Nat.leb s j) with false by (symmetry; apply Nat.leb_gt; lia).
        simpl. lia.
Qed.
Lemma dotZ_unit_gen : forall n j x, (j < n)%nat -> length x = n -> dotZ (unitZ n j) x = nth j x 0.
Proof.
  intros n j x Hj Hx. unfold unitZ. rewrite dotZ_unit_seq by assumption.
  replace (Nat.ltb j (0 + n)) with true by (symmetry; apply Nat.ltb_lt; lia). simpl. now rewrite Nat.sub_0_r.
Qed.

(* entrywise congruence mod p of two vectors => congruent dot products *)
Fixpoint congv (p : Z) (a b : list Z) : bool :=
  match a, b with
  | x :: a', y :: b' => Z.eqb ((x - y) mod p) 0 && congv p a' b'
  | [], [] => true
  | _, _ => false
  end.
Lemma congv_dot p a b x : p <> 0 -> congv p a b = true -> (p | dotZ a x - dotZ b x).
Proof.
  intro Hp. revert b x. induction a as [|u a IH]; intros [|v b] x H; simpl in H; try discriminate.
  - simpl. apply Z.divide_0_r.
  - apply andb_true_iff in H as [H1 H2]. apply Z.eqb_eq in H1. apply Z.mod_divide in H1; [|assumption].
    destruct x as [|y x]; simpl; [apply Z.divide_0_r|].
    replace (u * y + dotZ a x - (v * y + dotZ b x)) with ((u - v) * y + (dotZ a x - dotZ b x)) by lia.
    apply Z.divide_add_r; [apply Z.divide_mul_l; assumption | apply IH; assumption].
Qed.

(* ---------- the certificate check ---------- *)
(* rows of L (n rows), rows of A (m rows, each of length n):  (L A)_j = e_j (mod p) for every j *)
Fixpoint chk_rows (p : Z) (n : nat) (A : list (list Z)) (j : nat) (L : list (list Z)) : bool :=
  match L with
  | [] => true
  | Lj :: L' => congv p (lincomb n Lj A) (unitZ n j) && chk_rows p n A (S j) L'
  end.
Definition chk_leftinv (p : Z) (n : nat) (L A : list (list Z)) : bool :=
  Z.ltb 1 p && Nat.eqb (length L) n && forallb (fun r => Nat.eqb (length r) n) A && chk_rows p n A 0 L.

Lemma chk_rows_nth p n A : forall L j0, chk_rows p n A j0 L = true ->
  forall j Lj, nth_error L j = Some Lj -> congv p (lincomb n Lj A) (unitZ n (j0 + j)) = true.
Proof.
  induction L as [|L0 L IH]; intros j0 H j Lj Hj; [destruct j; discriminate|].
  simpl in H. apply andb_true_iff in H as [H1 H2]. destruct j as [|j]; simpl in Hj.
  - inversion Hj; subst. now rewrite Nat.add_0_r.
  - replace (j0 + S j)%nat with (S j0 + j)%nat by lia. eapply IH; eauto.
Qed.

Definition sumabs (x : list Z) : Z := fold_right (fun a s => Z.abs a + s) 0 x.
Lemma sumabs_nonneg x : 0 <= sumabs x.
Proof. induction x; simpl; lia. Qed.
Lemma sumabs_zero x : sumabs x = 0 -> Forall (fun a => a = 0) x.
Proof.
  induction x as [|a x IH]; intro H; constructor; simpl in H; pose proof (sumabs_nonneg x); [lia|].
  apply IH. lia.
Qed.
Lemma sumabs_scal p y : sumabs (vscalZ p y) = Z.abs p * sumabs y.
Proof. induction y as [|a y IH]; simpl; [lia|]. rewrite IH, Z.abs_mul. lia. Qed.

Lemma all_divisible_factor p x : p <> 0 -> Forall (fun a => (p | a)) x -> exists y, x = vscalZ p y.
Proof.
  intros Hp H. induction H as [|a x [q Hq] _ [y Hy]].
  - exists []. reflexivity.
  - exists (q :: y). simpl. subst. f_equal. lia.
Qed.

Section Descent.
  Variables (p : Z) (n : nat) (L A : list (list Z)).
  Hypothesis Hchk : chk_leftinv p n L A = true.

  Let Hp : 1 < p.
  Proof. unfold chk_leftinv in Hchk. repeat (apply andb_true_iff in Hchk as [Hchk ?]). now apply Z.ltb_lt. Qed.
  Let HlenL : length L = n.
  Proof. unfold chk_leftinv in Hchk. repeat (apply andb_true_iff in Hchk as [Hchk ?]). now apply Nat.eqb_eq. Qed.
  Let HlenA : Forall (fun r => length r = n) A.
  Proof.
    unfold chk_leftinv in Hchk. repeat (apply andb_true_iff in Hchk as [Hchk ?]).
    apply Forall_forall. intros r Hr. rewrite forallb_forall in H0. now apply Nat.eqb_eq, H0.
  Qed.
  Let Hrows : chk_rows p n A 0 L = true.
  Proof. unfold chk_leftinv in Hchk. repeat (apply andb_true_iff in Hchk as [Hchk ?]). assumption. Qed.

  Lemma kernel_divisible x : length x = n -> Forall (fun r => dotZ r x = 0) A ->
    Forall (fun a => (p | a)) x.
  Proof.
    intros Hx HA. apply Forall_forall. intros a Ha. apply In_nth_error in Ha as [j Hj].
    assert (Hjn : (j < n)%nat) by (rewrite <- Hx; apply nth_error_Some; congruence).
    destruct (nth_error L j) as [Lj|] eqn:HLj; [|apply nth_error_None in HLj; lia].
    pose proof (chk_rows_nth p n A L 0 Hrows j Lj HLj) as Hc. simpl in Hc.
    apply (congv_dot p _ _ x) in Hc; [|lia].
    rewrite (dotZ_lincomb n Lj A x HlenA HA), (dotZ_unit_gen n j x Hjn Hx) in Hc.
    rewrite (nth_error_nth x j 0 Hj) in Hc. apply Z.divide_opp_r in Hc.
    replace (- (0 - a)) with a in Hc by lia. exact Hc.
  Qed.

  (* the only integer vector annihilated by every row of A is 0 *)
  Theorem int_kernel_trivial : forall x, length x = n -> Forall (fun r => dotZ r x = 0) A ->
    Forall (fun a => a = 0) x.
  Proof.
    intro x. remember (Z.to_nat (sumabs x)) as N eqn:HN. revert x HN.
    induction N as [N IH] using lt_wf_ind. intros x HN Hx HA.
    destruct (Z.eq_dec (sumabs x) 0) as [H0|H0]; [now apply sumabs_zero|].
    destruct (all_divisible_factor p x ltac:(lia) (kernel_divisible x Hx HA)) as [y Hy].
    assert (Hly : length y = n) by (rewrite <- Hx, Hy; symmetry; apply vscalZ_length).
    assert (HAy : Forall (fun r => dotZ r y = 0) A).
    { apply Forall_forall. intros r Hr. rewrite Forall_forall in HA. pose proof (HA r Hr) as H.
      rewrite Hy in H.
      assert (Hs : forall r y, dotZ r (vscalZ p y) = p * dotZ r y).
      { clear. induction r as [|u r IHr]; intros [|v y]; simpl; try lia. rewrite IHr. lia. }
      rewrite Hs in H. nia. }
    pose proof (sumabs_nonneg x). pose proof (sumabs_nonneg y).
    assert (Hsx : sumabs x = Z.abs p * sumabs y) by (rewrite Hy; apply sumabs_scal).
    assert (Hlt : (Z.to_nat (sumabs y) < N)%nat) by (subst N; apply Z2Nat.inj_lt; nia).
    pose proof (IH _ Hlt y eq_refl Hly HAy) as Hy0.
    rewrite Hy. apply Forall_forall. intros a Ha. unfold vscalZ in Ha. apply in_map_iff in Ha as [b [<- Hb]].
    rewrite Forall_forall in Hy0. rewrite (Hy0 b Hb). lia.
  Qed.
End Descent.

(* the same with the certificate checked against a matrix A' that is entrywise congruent to A
   modulo p (A reduced mod p: small numbers, fast check) *)
Fixpoint congm (p : Z) (A' A : list (list Z)) : bool :=
  match A', A with
  | r' :: A1', r :: A1 => congv p r' r && congm p A1' A1
  | [], [] => true
  | _, _ => false
  end.
Lemma congm_rows_div p x : p <> 0 -> forall A' A, congm p A' A = true ->
  Forall (fun r => dotZ r x = 0) A -> Forall (fun r => (p | dotZ r x)) A'.
Proof.
  intro Hp. induction A' as [|r' A' IH]; intros [|r A] H HA; simpl in H; try discriminate; constructor.
  - apply andb_true_iff in H as [H1 _]. inversion HA as [|? ? Hr _]; subst.
    pose proof (congv_dot p r' r x Hp H1) as Hd. rewrite Hr, Z.sub_0_r in Hd. exact Hd.
  - apply andb_true_iff in H as [_ H2]. inversion HA; subst. eapply IH; eauto.
Qed.
Lemma dotZ_lincomb_div p n c rows x : Forall (fun r => length r = n) rows ->
  Forall (fun r => (p | dotZ r x)) rows -> (p | dotZ (lincomb n c rows) x).
Proof.
  revert rows. induction c as [|ci c IH]; intros [|r rows] Hl H0; simpl;
    try (rewrite dotZ_repeat0; apply Z.divide_0_r).
  inversion Hl as [|r0 rows0 Hr Hrows]; clear Hl. inversion H0 as [|r1 rows1 Hr0 Hrows0]; clear H0. subst.
  rewrite dotZ_vadd by (rewrite vscalZ_length, lincomb_length; congruence).
  rewrite dotZ_vscal. apply Z.divide_add_r; [apply Z.divide_mul_r; assumption | apply IH; assumption].
Qed.

Section Descent2.
  Variables (p : Z) (n : nat) (L A' A : list (list Z)).
  Hypothesis Hchk : chk_leftinv p n L A' = true.
  Hypothesis Hcong : congm p A' A = true.

  Let Hp : 1 < p.
  Proof. unfold chk_leftinv in Hchk. repeat (apply andb_true_iff in Hchk as [Hchk ?]). now apply Z.ltb_lt. Qed.
  Let HlenL : length L = n.
  Proof. unfold chk_leftinv in Hchk. repeat (apply andb_true_iff in Hchk as [Hchk ?]). now apply Nat.eqb_eq. Qed.
  Let HlenA : Forall (fun r => length r = n) A'.
  Proof.
    unfold chk_leftinv in Hchk. repeat (apply andb_true_iff in Hchk as [Hchk ?]).
    apply Forall_forall. intros r Hr. rewrite forallb_forall in H0. now apply Nat.eqb_eq, H0.
  Qed.
  Let Hrows : chk_rows p n A' 0 L = true.
  Proof. unfold chk_leftinv in Hchk. repeat (apply andb_true_iff in Hchk as [Hchk ?]). assumption. Qed.

  Lemma kernel_divisible2 x : length x = n -> Forall (fun r => dotZ r x = 0) A ->
    Forall (fun a => (p | a)) x.
  Proof.
    intros Hx HA. pose proof (congm_rows_div p x ltac:(lia) A' A Hcong HA) as HA'.
    apply Forall_forall. intros a Ha. apply In_nth_error in Ha as [j Hj].
    assert (Hjn : (j < n)%nat) by (rewrite <- Hx; apply nth_error_Some; congruence).
    destruct (nth_error L j) as [Lj|] eqn:HLj; [|apply nth_error_None in HLj; lia].
    pose proof (chk_rows_nth p n A' L 0 Hrows j Lj HLj) as Hc. simpl in Hc.
    apply (congv_dot p _ _ x) in Hc; [|lia].
    rewrite (dotZ_unit_gen n j x Hjn Hx), (nth_error_nth x j 0 Hj) in Hc.
    pose proof (dotZ_lincomb_div p n Lj A' x HlenA HA') as Hd.
    replace a with (dotZ (lincomb n Lj A') x - (dotZ (lincomb n Lj A') x - a)) by lia.
    apply Z.divide_sub_r; assumption.
  Qed.

  Theorem int_kernel_trivial2 : forall x, length x = n -> Forall (fun r => dotZ r x = 0) A ->
    Forall (fun a => a = 0) x.
  Proof.
    intro x. remember (Z.to_nat (sumabs x)) as N eqn:HN. revert x HN.
    induction N as [N IH] using lt_wf_ind. intros x HN Hx HA.
    destruct (Z.eq_dec (sumabs x) 0) as [H0|H0]; [now apply sumabs_zero|].
    destruct (all_divisible_factor p x ltac:(lia) (kernel_divisible2 x Hx HA)) as [y Hy].
    assert (Hly : length y = n) by (rewrite <- Hx, Hy; symmetry; apply vscalZ_length).
    assert (HAy : Forall (fun r => dotZ r y = 0) A).
    { apply Forall_forall. intros r Hr. rewrite Forall_forall in HA. pose proof (HA r Hr) as H.
      rewrite Hy in H.
      assert (Hs : forall r y, dotZ r (vscalZ p y) = p * dotZ r y).
      { clear. induction r as [|u r IHr]; intros [|v y]; simpl; try lia. rewrite IHr. lia. }
      rewrite Hs in H. nia. }
    pose proof (sumabs_nonneg x). pose proof (sumabs_nonneg y).
    assert (Hsx : sumabs x = Z.abs p * sumabs y) by (rewrite Hy; apply sumabs_scal).
    assert (Hlt : (Z.to_nat (sumabs y) < N)%nat) by (subst N; apply Z2Nat.inj_lt; nia).
    pose proof (IH _ Hlt y eq_refl Hly HAy) as Hy0.
    rewrite Hy. apply Forall_forall. intros a Ha. unfold vscalZ in Ha. apply in_map_iff in Ha as [b [<- Hb]].
    rewrite Forall_forall in Hy0. rewrite (Hy0 b Hb). lia.
  Qed.
End Descent2.

(* ---------- lift to rational matrices and rational vectors ---------- *)
Open Scope Q_scope.
Fixpoint dotQ (a b : list Q) : Q :=
  match a, b with x :: a', y :: b' => x * y + dotQ a' b' | _, _ => 0 end.

(* integer row rz = d * (rational row rq), entry by entry *)
Fixpoint chk_scaled_row (d : Z) (rz : list Z) (rq : list Q) : bool :=
  match rz, rq with
  | z :: rz', q :: rq' => Qeq_bool (inject_Z z) (inject_Z d * q) && chk_scaled_row d rz' rq'
  | [], [] => true
  | _, _ => false
  end.

Lemma scaled_row_dot d rz rq x : chk_scaled_row d rz rq = true ->
  dotQ (map inject_Z rz) x == inject_Z d * dotQ rq x.
Proof.
  revert rq x. induction rz as [|z rz IH]; intros [|q rq] x H; simpl in H; try discriminate.
  - simpl. ring.
  - apply andb_true_iff in H as [H1 H2]. apply Qeq_bool_eq in H1.
    destruct x as [|y x]; simpl; [ring|]. rewrite (IH rq x H2), H1. ring.
Qed.

(* x_k * c = z_k for a common integer c *)
Lemma int_vector_dot (rz : list Z) : forall (x : list Q) (z : list Z) (c : Z),
  Forall2 (fun xk zk => xk * inject_Z c == inject_Z zk) x z ->
  dotQ (map inject_Z rz) x * inject_Z c == inject_Z (dotZ rz z).
Proof.
  induction rz as [|u rz IH]; intros x z c H.
  - simpl. ring.
  - destruct H as [|xk zk x z Hk H]; simpl; [ring|].
    rewrite inject_Z_plus, inject_Z_mult, <- (IH x z c H), <- Hk. ring.
Qed.

Lemma common_denominator (x : list Q) : exists (c : Z) (z : list Z),
  (0 < c)%Z /\ Forall2 (fun xk zk => xk * inject_Z c == inject_Z zk) x z.
Proof.
  induction x as [|q x [c' [z' [Hc H]]]].
  - exists 1%Z, []. split; [lia | constructor].
  - exists (Zpos (Qden q) * c')%Z, ((Qnum q * c')%Z :: map (Z.mul (Zpos (Qden q))) z'). split; [lia|].
    constructor.
    + rewrite !inject_Z_mult. rewrite (Qmult_assoc q). 
      assert (Hq : q * inject_Z (Zpos (Qden q)) == inject_Z (Qnum q)).
      { destruct q as [nq dq]. unfold Qeq, Qmult, inject_Z. simpl. lia. }
      rewrite Hq. reflexivity.
    + generalize (Zpos (Qden q)) as a. intro a. clear -H.
      induction H as [|xk zk x z Hk H IH]; simpl; constructor; [|exact IH].
      rewrite (inject_Z_mult a c'), (inject_Z_mult a zk), <- Hk. ring.
Qed.

Lemma inject_Z_eq0 z : inject_Z z == 0 -> z = 0%Z.
Proof. unfold Qeq, inject_Z. simpl. lia. Qed.

(* A_Q: rational rows; A_Z, ds: their integer scalings; L: the certificate *)
Definition chk_scaling (ds : list Z) (AZ : list (list Z)) (AQ : list (list Q)) : bool :=
  Nat.eqb (length ds) (length AQ) && Nat.eqb (length AZ) (length AQ) &&
  forallb (fun t => Z.ltb 0 (fst (fst t)) && chk_scaled_row (fst (fst t)) (snd (fst t)) (snd t))
          (combine (combine ds AZ) AQ).

Lemma chk_scaling_rows ds AZ AQ : chk_scaling ds AZ AQ = true ->
  forall rz, In rz AZ -> exists d rq, In rq AQ /\ (0 < d)%Z /\ chk_scaled_row d rz rq = true.
Proof.
  unfold chk_scaling. intro H. apply andb_true_iff in H as [H H3]. apply andb_true_iff in H as [H1 H2].
  apply Nat.eqb_eq in H1. apply Nat.eqb_eq in H2. rewrite forallb_forall in H3.
  intros rz Hrz. apply In_nth_error in Hrz as [i Hi].
  assert (Hi' : (i < length AZ)%nat) by (apply nth_error_Some; congruence).
  destruct (nth_error ds i) as [d|] eqn:Hd; [|apply nth_error_None in Hd; lia].
  destruct (nth_error AQ i) as [rq|] eqn:Hq; [|apply nth_error_None in Hq; lia].
  assert (Hin : In (d, rz, rq) (combine (combine ds AZ) AQ)).
  { apply (nth_error_In _ i). 
    assert (Hc : forall {X Y} (l1 : list X) (l2 : list Y) i a b, nth_error l1 i = Some a -> nth_error l2 i = Some b ->
                 nth_error (combine l1 l2) i = Some (a, b)).
    { clear. induction l1 as [|a1 l1 IHl]; intros [|b1 l2] [|i] a b Ha Hb; simpl in *; try discriminate.
      - inversion Ha; inversion Hb; reflexivity. - now apply IHl. }
    apply Hc; [apply Hc; assumption | assumption]. }
  pose proof (H3 _ Hin) as H4. simpl in H4. apply andb_true_iff in H4 as [H4 H5]. apply Z.ltb_lt in H4.
  exists d, rq. split; [eapply nth_error_In; eassumption | split; assumption].
Qed.

(* MAIN THEOREM: if the integer scaling A_Z of (a selection of) the rational rows A_Q has a left
   inverse modulo some p > 1, every RATIONAL vector annihilated by all rows of A_Q is zero. *)
Theorem rational_kernel_trivial (p : Z) (n : nat) (L AZ' AZ : list (list Z)) (ds : list Z) (AQ : list (list Q)) :
  chk_leftinv p n L AZ' = true -> congm p AZ' AZ = true -> chk_scaling ds AZ AQ = true ->
  forall x : list Q, length x = n -> (forall rq, In rq AQ -> dotQ rq x == 0) ->
  Forall (fun xk => xk == 0) x.
Proof.
  intros HL Hcg HS x Hx Hker.
  destruct (common_denominator x) as [c [z [Hc Hxz]]].
  assert (Hlz : length z = n).
  { rewrite <- Hx. clear -Hxz. induction Hxz; simpl; congruence. }
  assert (HAz : Forall (fun r => dotZ r z = 0%Z) AZ).
  { apply Forall_forall. intros rz Hrz.
    destruct (chk_scaling_rows ds AZ AQ HS rz Hrz) as [d [rq [Hin [Hd Hrow]]]].
    apply inject_Z_eq0. rewrite <- (int_vector_dot rz x z c Hxz), (scaled_row_dot d rz rq x Hrow), (Hker rq Hin). ring. }
  pose proof (int_kernel_trivial2 p n L AZ' AZ HL Hcg z Hlz HAz) as Hz0.
  clear -Hxz Hz0 Hc. induction Hxz as [|xk zk x z Hk H IH]; constructor.
  - inversion Hz0; subst. assert (Hne : ~ inject_Z c == 0) by (intro E; apply inject_Z_eq0 in E; lia).
    setoid_replace xk with ((xk * inject_Z c) / inject_Z c) by (field; exact Hne). rewrite Hk. unfold inject_Z at 1. field. exact Hne.
  - apply IH. now inversion Hz0.
Qed.

Definition unitQ (n j : nat) : list Q := map (fun i => if Nat.eqb i j then 1 else 0) (seq 0 n).
Lemma dotQ_unit_seq : forall n s j x, length x = n ->
  dotQ (map (fun i => if Nat.eqb i j then 1 else 0) (seq s n)) x ==
  if (Nat.leb s j && Nat.ltb j (s + n))%bool then nth (j - s) x 0 else 0.
Proof.
  induction n as [|n IH]; intros s j x Hx.
  - simpl. destruct (Nat.leb s j) eqn:E1; simpl; [|reflexivity].
    destruct (Nat.ltb j (s + 0)) eqn:E2; [|reflexivity]. apply Nat.leb_le in E1. apply Nat.ltb_lt in E2. lia.
  - destruct x as [|y x]; [discriminate|]. simpl in Hx. cbn [seq map dotQ]. rewrite IH by lia.
    destruct (Nat.eqb s j) eqn:E.
    + apply Nat.eqb_eq in E. subst j.
      replace (Nat.leb (S s) s) with false by (symmetry; apply Nat.leb_gt; lia).
      replace (Nat.leb s s) with true by (symmetry; apply Nat.leb_le; lia).
      replace (Nat.ltb s (s + S n)) with true by (symmetry; apply Nat.ltb_lt; lia).
      rewrite Nat.sub_diag. cbn [andb nth]. ring.
    + apply Nat.eqb_neq in E.
      destruct (Nat.leb (S s) j) eqn:E1.
      * apply Nat.leb_le in E1. replace (Nat.leb s j) with true by (symmetry; apply Nat.leb_le; lia).
        replace (S s + n)%nat with (s + S n)%nat by lia. cbn [andb].
        destruct (Nat.ltb j (s + S n)); [|ring].
        replace (j - s)%nat with (S (j - S s)) by lia. cbn [nth]. ring.
      * apply Nat.leb_gt in E1. replace (Nat.leb s j) with false by (symmetry; apply Nat.leb_gt; lia).
        cbn [andb]. ring.
Qed.
Lemma dotQ_unit n j x : (j < n)%nat -> length x = n -> dotQ (unitQ n j) x == nth j x 0.
Proof.
  intros Hj Hx. unfold unitQ. rewrite dotQ_unit_seq by assumption.
  replace (Nat.ltb j (0 + n)) with true by (symmetry; apply Nat.ltb_lt; lia). simpl. now rewrite Nat.sub_0_r.
Qed.

(* rows of G selected by index, followed by the unit rows of the pinned dofs S *)
Definition select_rows (G : list (list Q)) (sel : list nat) : list (list Q) := map (fun i => nth i G []) sel.
Definition pinned_system (n : nat) (G : list (list Q)) (sel S : list nat) : list (list Q) :=
  select_rows G sel ++ map (unitQ n) S.

(* "uniquely solvable as soon as the modes are restrained": a rational vector annihilated by every
   row of G and vanishing on the pinned dofs S is zero *)
Theorem pinned_kernel_trivial (p : Z) (n : nat) (L AZ' AZ : list (list Z)) (ds : list Z)
        (G : list (list Q)) (sel S : list nat) :
  forallb (fun i => Nat.ltb i (length G)) sel = true -> forallb (fun s => Nat.ltb s n) S = true ->
  chk_leftinv p n L AZ' = true -> congm p AZ' AZ = true -> chk_scaling ds AZ (pinned_system n G sel S) = true ->
  forall x : list Q, length x = n -> (forall rq, In rq G -> dotQ rq x == 0) ->
  (forall s, In s S -> nth s x 0 == 0) -> Forall (fun xk => xk == 0) x.
Proof.
  intros Hsel HS HL Hcg Hsc x Hx HG Hpin.
  apply (rational_kernel_trivial p n L AZ' AZ ds (pinned_system n G sel S) HL Hcg Hsc x Hx).
  intros rq Hin. unfold pinned_system in Hin. apply in_app_or in Hin as [Hin|Hin].
  - unfold select_rows in Hin. apply in_map_iff in Hin as [i [<- Hi]]. apply HG. apply nth_In.
    rewrite forallb_forall in Hsel. now apply Nat.ltb_lt, Hsel.
  - apply in_map_iff in Hin as [s [<- Hs]]. rewrite dotQ_unit; auto.
    rewrite forallb_forall in HS. now apply Nat.ltb_lt, HS.
Qed.

(* non-vacuity: A = [[2,1],[1,1]], L = its inverse [[1,-1],[-1,2]], p = 7 *)
Example ex_cert : chk_leftinv 7 2 [[1; -1]; [-1; 2]]%Z [[2; 1]; [1; 1]]%Z = true.
Proof. vm_compute. reflexivity. Qed.
Example ex_scaling : chk_scaling [2; 1]%Z [[2; 1]; [1; 1]]%Z [[1; 1 # 2]; [1; 1]] = true.
Proof. vm_compute. reflexivity. Qed.
