(* C02_RankCert.v — (1) the element pipeline of EasyFEA evaluated EXACTLY over Q on the translated
   shape tables, the dumped (double precision, hence dyadic) quadrature points and rational node
   coordinates: F = dN_pg @ coord_e, det(F) * dN_e_pg = adj(F) @ dN_pg (det F <> 0 checked), strain rows as in
   Get_B_e_pg multiplied by det F at their point (shear rows without the factor 1/sqrt 2): non-zero row scalings, scattered to the union
   dofs of a patch;  (2) an UNTRUSTED certificate builder (native integers modulo 2^31-1: greedy
   selection of independent rows, pivot-free columns = dofs to pin, Gauss-Jordan inverse);
   (3) the trusted check and the theorem: if [full_check] computes to true, every RATIONAL vector
   annihilated by all exact sample rows and vanishing on the pinned dofs is zero
   (EFLib.C02_RankQ.pinned_kernel_trivial — no unformalised number theory).  Independent of /repo. *)
From Coq Require Import QArith ZArith List Bool Uint63 Ring_polynom String Arith Lia.
From EFLib Require Import PolyQ ElemDefs QuadDefs ModRank C02_ModPipe C02_RankQ.
Import ListNotations.

(* ---------- exact pipeline over Q ---------- *)
Definition qdot (a b : list Q) : Q :=
  fold_left (fun s xy => Qred (s + fst xy * snd xy)) (combine a b) 0%Q.
Fixpoint transpQ (ncols : nat) (m : list (list Q)) : list (list Q) :=
  match ncols with O => [] | S k => map (hd 0%Q) m :: transpQ k (map (@tl Q) m) end.
Definition matmul_colsQ (A Bcols : list (list Q)) : list (list Q) :=
  map (fun ra => map (fun cb => qdot ra cb) Bcols) A.

(* adjugate of F (dims 1..3), None when det F = 0: the sample rows are built with adj(F) instead of
   inv(F) = adj(F)/det(F), i.e. every row of a point is multiplied by det F <> 0 (same kernel); all
   numbers stay dyadic, which keeps the exact arithmetic cheap *)
Definition adj_Q (m : list (list Q)) : option (list (list Q)) :=
  let r := fun x => Qred x in
  match m with
  | [[a]] => if Qeq_bool a 0 then None else Some [[1]]
  | [[a; b]; [c; d]] =>
      let det := r (a * d - c * b) in
      if Qeq_bool det 0 then None else Some [[d; - b]; [- c; a]]
  | [[a; b; c]; [d; e; f]; [g; h; i]] =>
      let c00 := r (e * i - f * h) in let c01 := r (d * i - f * g) in let c02 := r (d * h - e * g) in
      let det := r (a * c00 - b * c01 + c * c02) in
      if Qeq_bool det 0 then None else
      let c10 := r (b * i - c * h) in let c11 := r (a * i - c * g) in let c12 := r (a * h - b * g) in
      let c20 := r (b * f - c * e) in let c21 := r (a * f - c * d) in let c22 := r (a * e - b * d) in
      Some [[c00; - c10; c20]; [- c01; c11; - c21]; [c02; - c12; c22]]
  | _ => None
  end%Q.

Definition dn_atQ (e : elem) (pt : list Q) : option (list (list Q)) :=
  match edN e with
  | Some dn => Some (map (fun d => map (fun row => Qred (Qeval pt (nth d row PEO))) dn) (seq 0 (edim e)))
  | None => None
  end.
Definition n_atQ (e : elem) (pt : list Q) : list Q := map (fun n => Qred (Qeval pt n)) (eN e).

Definition gphys_atQ (e : elem) (Xe : list (list Q)) (pt : list Q) : option (list (list Q)) :=
  obind (dn_atQ e pt) (fun dn =>
    let F := matmul_colsQ dn (transpQ (edim e) Xe) in
    obind (adj_Q F) (fun iF => Some (matmul_colsQ iF (transpQ (enPe e) dn)))).

Definition rows_thermalQ (g : list (list Q)) : list (list (list Q)) := map (fun gk => map (fun x => [x]) gk) g.
Definition rows_elasticQ (dim : nat) (g : list (list Q)) : list (list (list Q)) :=
  let z := 0%Q in
  match dim, g with
  | 2%nat, [gx; gy] =>
      let xy := combine gx gy in
      [ map (fun t => [fst t; z]) xy; map (fun t => [z; snd t]) xy; map (fun t => [snd t; fst t]) xy ]
  | 3%nat, [gx; gy; gz] =>
      let t3 := combine (combine gx gy) gz in
      [ map (fun t => [fst (fst t); z; z]) t3;
        map (fun t => [z; snd (fst t); z]) t3;
        map (fun t => [z; z; snd t]) t3;
        map (fun t => [z; snd t; snd (fst t)]) t3;
        map (fun t => [snd t; z; fst (fst t)]) t3;
        map (fun t => [snd (fst t); fst (fst t); z]) t3 ]
  | _, _ => []
  end.
Definition scatter_rowQ (dpn Nn : nat) (conn : list nat) (chunks : list (list Q)) : list Q :=
  flat_map (fun n => match index_of n conn 0 with
                     | Some i => nth i chunks (repeat 0%Q dpn)
                     | None => repeat 0%Q dpn end) (seq 0 Nn).

(* all exact strain (gradient) sample rows of the patch *)
Definition patch_rowsQ (k : kind) (e : elem) (r : rule) (pa : patch) : option (list (list Q)) :=
  let X := pcoords pa in
  let Nn := List.length X in
  let dpn := dpn_of k (edim e) in
  option_map (@List.concat _) (omap (fun conn =>
    let Xe := map (fun n => nth n X []) conn in
    option_map (@List.concat _) (omap (fun pt =>
      option_map (fun g =>
         map (scatter_rowQ dpn Nn conn)
             (match k with Thermal => rows_thermalQ g | Elastic => rows_elasticQ (edim e) g end))
        (gphys_atQ e Xe pt)) (rpts r))) (pconn pa)).
Definition nsample_rowsQ (e : elem) (r : rule) : list (list Q) := map (n_atQ e) (rpts r).

(* ---------- untrusted certificate builder (native integers mod p) ---------- *)
Open Scope uint63_scope.
Fixpoint first_nz (r : list int) (k : nat) : option nat :=
  match r with [] => None | x :: r' => if (x =? 0) then first_nz r' (S k) else Some k end.
Definition scale_int (c : int) (r : list int) : list int := map (mmul c) r.
(* reduce r by the basis (pivot column, row with 1 at the pivot), in insertion order *)
Definition reduce_by (basis : list (nat * list int)) (r : list int) : list int :=
  fold_left (fun acc b => let c := nth (fst b) acc 0 in if (c =? 0) then acc else row_comb c acc (snd b)) basis r.
(* greedy independent rows: returns (selected indices, pivot columns) *)
Fixpoint greedy (rows : list (list int)) (i : nat) (basis : list (nat * list int)) (sel : list nat)
  : list nat * list nat :=
  match rows with
  | [] => (rev sel, map fst basis)
  | r :: rows' =>
      let r' := reduce_by basis r in
      match first_nz r' 0 with
      | None => greedy rows' (S i) basis sel
      | Some c => greedy rows' (S i) (basis ++ [(c, scale_int (minv (nth c r' 1)) r')]) (i :: sel)
      end
  end.

(* Gauss-Jordan inverse of a square matrix mod p: work on [A | I] *)
Definition unit_int (n j : nat) : list int := map (fun i => if Nat.eqb i j then 1 else 0) (seq 0 n).
Fixpoint take_pivot (k : nat) (rows acc : list (list int)) : option (list int * list (list int)) :=
  match rows with
  | [] => None
  | r :: rs => if (nth k r 0 =? 0) then take_pivot k rs (r :: acc) else Some (r, rev_append acc rs)
  end.
Fixpoint gj (n : nat) (k : nat) (done todo : list (list int)) (fuel : nat) : option (list (list int)) :=
  match fuel with
  | O => if Nat.eqb k n then Some done else None
  | S fuel' =>
      if Nat.eqb k n then Some done else
      match take_pivot k todo [] with
      | None => None
      | Some (pv, rest) =>
          let pv1 := scale_int (minv (nth k pv 1)) pv in
          let elim := fun r => let c := nth k r 0 in if (c =? 0) then r else row_comb c r pv1 in
          gj n (S k) (map elim done ++ [pv1]) (map elim rest) fuel'
      end
  end.
Definition inverse_mod (n : nat) (A : list (list int)) : option (list (list int)) :=
  let aug := map (fun ir => snd ir ++ unit_int n (fst ir)) (combine (seq 0 n) A) in
  option_map (map (fun r => skipn n r)) (gj n 0 [] aug n).

Example inverse_mod_ex :
  option_map (fun iv => matmul_cols iv (transp 3 [[2;1;0];[1;3;1];[0;1;4]])) (inverse_mod 3 [[2;1;0];[1;3;1];[0;1;4]])
  = Some [[1;0;0];[0;1;0];[0;0;1]].
Proof. vm_compute. reflexivity. Qed.

(* ---------- scaling rows to integers ---------- *)
Definition row_den (r : list Q) : Z := fold_right (fun q d => Z.lcm (Zpos (Qden q)) d) 1%Z r.
Definition scale_rowZ (r : list Q) : Z * list Z :=
  let d := row_den r in (d, map (fun q => (Qnum q * (d / Zpos (Qden q)))%Z) r).
Definition pZ : Z := 2147483647%Z.

Record cert := { c_sel : list nat; c_S : list nat; c_ds : list Z; c_AZ : list (list Z);
                 c_AZr : list (list Z); c_L : list (list Z) }.

Definition build_cert (n : nat) (G : list (list Q)) : option cert :=
  obind (omap (omap of_Qp) G) (fun Gp =>
    let '(sel, piv) := greedy Gp 0 [] [] in
    let S := filter (fun j => negb (existsb (Nat.eqb j) piv)) (seq 0 n) in
    let AQ := pinned_system n G sel S in
    let sc := map scale_rowZ AQ in
    let AZ := map snd sc in
    let AZr := map (map (fun z => (z mod pZ)%Z)) AZ in
    obind (inverse_mod n (map (map (fun z => Uint63.of_Z z)) AZr)) (fun Li =>
      Some {| c_sel := sel; c_S := S; c_ds := map fst sc; c_AZ := AZ; c_AZr := AZr;
              c_L := map (map Uint63.to_Z) Li |})).

(* the trusted check; [nfree] = number of dofs that may have to be pinned (n_rigid; 0 for mass) *)
Definition full_check (n nfree : nat) (G : list (list Q)) : bool :=
  match build_cert n G with
  | Some c =>
      Nat.eqb (List.length (c_S c)) nfree &&
      forallb (fun i => Nat.ltb i (List.length G)) (c_sel c) && forallb (fun s => Nat.ltb s n) (c_S c) &&
      chk_leftinv pZ n (c_L c) (c_AZr c) && congm pZ (c_AZr c) (c_AZ c) &&
      chk_scaling (c_ds c) (c_AZ c) (pinned_system n G (c_sel c) (c_S c))
  | None => false
  end.
Definition pinned_of (n : nat) (G : list (list Q)) : list nat :=
  match build_cert n G with Some c => c_S c | None => [] end.

(* If the check computes to true: the pinned dofs are [nfree] many and every rational vector in the
   kernel of ALL exact sample rows that vanishes on them is zero: dim ker G <= nfree over Q. *)
Theorem full_check_sound (n nfree : nat) (G : list (list Q)) : full_check n nfree G = true ->
  List.length (pinned_of n G) = nfree /\
  forall x : list Q, List.length x = n -> (forall rq, In rq G -> dotQ rq x == 0)%Q ->
    (forall s, In s (pinned_of n G) -> nth s x 0 == 0)%Q -> Forall (fun xk => xk == 0)%Q x.
Proof.
  unfold full_check, pinned_of. destruct (build_cert n G) as [c|]; [|discriminate]. intro H.
  repeat (apply andb_true_iff in H as [H ?]). apply Nat.eqb_eq in H. split; [exact H|].
  intros x Hx HG Hpin.
  eapply (pinned_kernel_trivial pZ n (c_L c) (c_AZr c) (c_AZ c) (c_ds c) G (c_sel c) (c_S c)); eauto.
Qed.
