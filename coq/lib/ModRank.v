(* ModRank.v — rank of a rational matrix reduced modulo the prime p = 2^31 - 1, computed with
   native 63-bit integers (fast under vm_compute).  The rank modulo p is a lower bound of the
   rank over Q (a minor that is non-zero modulo p is non-zero); that mathematical fact is NOT
   formalised here — theorems that use [rank_mod] say "rank modulo p".  Independent of /repo. *)
From Coq Require Import QArith ZArith List Bool Uint63 Ring_polynom.
Import ListNotations.
Open Scope uint63_scope.

Definition P : int := 2147483647.
Definition madd (a b : int) : int := (a + b) mod P.
Definition msub (a b : int) : int := (a + P - b) mod P.
Definition mmul (a b : int) : int := (a * b) mod P.

Fixpoint mpow_pos (a : int) (e : positive) : int :=
  match e with
  | xH => a
  | xO e' => let h := mpow_pos a e' in mmul h h
  | xI e' => let h := mpow_pos a e' in mmul a (mmul h h)
  end.
Definition mpowN (a : int) (n : N) : int := match n with N0 => 1 | Npos e => mpow_pos a e end.
Definition minv (a : int) : int := mpow_pos a 2147483645%positive.   (* a^(p-2) *)

Definition of_Zp (z : Z) : int := Uint63.of_Z (z mod 2147483647)%Z.
(* None when the denominator vanishes modulo p *)
Definition of_Qp (q : Q) : option int :=
  let d := of_Zp (Zpos (Qden q)) in
  if (d =? 0) then None else Some (mmul (of_Zp (Qnum q)) (minv d)).

Fixpoint nth_int (l : list int) (j : positive) : int :=
  match l, j with
  | x :: _, xH => x
  | _ :: r, _ => nth_int r (Pos.pred j)
  | [], _ => 0
  end.

(* evaluation of a polynomial expression modulo p; None if some constant is not representable *)
Fixpoint eval_mod (pt : list int) (e : PExpr Q) : option int :=
  match e with
  | PEO => Some 0
  | PEI => Some 1
  | PEc c => of_Qp c
  | PEX _ j => Some (nth_int pt j)
  | PEadd a b => match eval_mod pt a, eval_mod pt b with Some x, Some y => Some (madd x y) | _, _ => None end
  | PEsub a b => match eval_mod pt a, eval_mod pt b with Some x, Some y => Some (msub x y) | _, _ => None end
  | PEmul a b => match eval_mod pt a, eval_mod pt b with Some x, Some y => Some (mmul x y) | _, _ => None end
  | PEopp a => match eval_mod pt a with Some x => Some (msub 0 x) | None => None end
  | PEpow a n => match eval_mod pt a with Some x => Some (mpowN x n) | None => None end
  end.

Fixpoint find_pivot (rows acc : list (list int)) : option (list int * list (list int)) :=
  match rows with
  | [] => None
  | r :: rs => match r with
               | x :: _ => if (x =? 0) then find_pivot rs (r :: acc) else Some (r, rev_append acc rs)
               | [] => find_pivot rs (r :: acc)
               end
  end.

Fixpoint row_comb (f : int) (a b : list int) : list int :=
  match a, b with
  | x :: xs, y :: ys => msub x (mmul f y) :: row_comb f xs ys
  | _, _ => []
  end.

Fixpoint rank_cols (ncols : nat) (rows : list (list int)) : nat :=
  match ncols with
  | O => 0
  | S k =>
    match find_pivot rows [] with
    | None => rank_cols k (map (@tl int) rows)
    | Some (p, others) =>
        let pinv := minv (hd 1 p) in
        let pt := tl p in
        S (rank_cols k (map (fun r => row_comb (mmul (hd 0 r) pinv) (tl r) pt) others))
    end
  end.

Definition rank_mod (m : list (list int)) : nat := rank_cols (List.length (hd [] m)) m.

Fixpoint all_some {A} (l : list (option A)) : option (list A) :=
  match l with
  | [] => Some []
  | Some x :: r => match all_some r with Some r' => Some (x :: r') | None => None end
  | None :: _ => None
  end.

Example rank_mod_ex1 : rank_mod [[1;2;3];[2;4;6];[0;1;1]] = 2%nat.
Proof. vm_compute. reflexivity. Qed.
Example minv_ex : mmul 12345 (minv 12345) = 1.
Proof. vm_compute. reflexivity. Qed.
Example of_Qp_ex : of_Qp ((-3)#2) = Some (msub 0 (mmul 3 (minv 2))).
Proof. vm_compute. reflexivity. Qed.
