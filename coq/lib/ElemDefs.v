(* ElemDefs.v — the record the element translator fills, boolean checkers over the
   translated tables and the theorems over R that each checker implies.  Independent of /repo. *)
From Coq Require Import QArith Qreals Reals Ring_polynom List String Lia Lra Bool Arith.
From EFLib Require Import PolyQ.
Import ListNotations.

Record elem := {
  ename : string; edim : nat; eorder : nat; enPe : nat;
  enodes : list (list Q);
  eN : list (PExpr Q);
  edN : option (list (list (PExpr Q)));
  eddN : option (list (list (PExpr Q)));
  edddN : option (list (list (PExpr Q)));
  eddddN : option (list (list (PExpr Q))) }.

Definition Rsum (l : list R) : R := fold_right Rplus 0%R l.

(* ---------- generic indexed forall ---------- *)
Fixpoint forallb_i {A} (f : nat -> A -> bool) (i : nat) (l : list A) : bool :=
  match l with [] => true | x :: r => f i x && forallb_i f (S i) r end.

Lemma forallb_i_nth {A} (f : nat -> A -> bool) : forall l i0, forallb_i f i0 l = true ->
  forall k x, nth_error l k = Some x -> f (i0 + k)%nat x = true.
Proof.
  induction l as [|a l IH]; intros i0 H k x Hk.
  - destruct k; discriminate.
  - simpl in H. apply andb_true_iff in H as [H1 H2]. destruct k as [|k]; simpl in Hk.
    + inversion Hk; subst. now rewrite Nat.add_0_r.
    + replace (i0 + S k)%nat with (S i0 + k)%nat by lia. eapply IH; eauto.
Qed.

(* ---------- Kronecker property ---------- *)
Definition pt_sub (pt : list Q) : list (PExpr Q) := map (fun q => PEc q) pt.
Definition delta (i j : nat) : Q := if Nat.eqb i j then 1%Q else 0%Q.

Definition chk_kronecker (e : elem) : bool :=
  forallb_i (fun i Ni =>
    forallb_i (fun j node => pe_eqb (pe_subst (pt_sub node) Ni) (PEc (delta i j))) 0 (enodes e))
    0 (eN e).

Theorem kronecker_sound e : chk_kronecker e = true ->
  forall i j Ni node, nth_error (eN e) i = Some Ni -> nth_error (enodes e) j = Some node ->
  Reval (map Q2R node) Ni = (if Nat.eqb i j then 1 else 0)%R.
Proof.
  intros H i j Ni node Hi Hj. unfold chk_kronecker in H.
  pose proof (forallb_i_nth _ _ _ H _ _ Hi) as H1. simpl in H1.
  pose proof (forallb_i_nth _ _ _ H1 _ _ Hj) as H2. simpl in H2.
  apply Reval_at_Qpoint in H2. rewrite H2. unfold delta.
  destruct (Nat.eqb i j); unfold Q2R; simpl; lra.
Qed.

(* ---------- partition of unity ---------- *)
Definition chk_pou (e : elem) : bool := pe_eqb (pe_sum (eN e)) PEI.

Theorem pou_sound e : chk_pou e = true ->
  forall l : list R, Rsum (map (Reval l) (eN e)) = 1%R.
Proof.
  intros H l. apply (Qnorm_sound l) in H. rewrite Reval_pe_sum in H. exact H.
Qed.

(* ---------- reproduction of all monomials up to the order ---------- *)
(* exponent vectors of length dim with total degree <= n *)
Fixpoint exps (dim n : nat) : list (list nat) :=
  match dim with
  | O => [[]]
  | S d => flat_map (fun a => map (cons a) (exps d (n - a))) (seq 0 (S n))
  end.

Lemma exps_complete : forall dim n (v : list nat), List.length v = dim -> (fold_right Nat.add 0%nat v <= n)%nat -> In v (exps dim n).
Proof.
  induction dim as [|d IH]; intros n v Hl Hs.
  - destruct v; [left; reflexivity | discriminate].
  - destruct v as [|a v]; [discriminate|]. simpl in Hl, Hs. cbn [exps]. apply in_flat_map. exists a. split.
    + apply in_seq. lia.
    + apply in_map. apply IH; lia.
Qed.

Fixpoint mono_from (i : positive) (v : list nat) : PExpr Q :=
  match v with
  | [] => PEI
  | a :: r => PEmul (PEpow (PEX Q i) (N.of_nat a)) (mono_from (Pos.succ i) r)
  end.
Definition mono (v : list nat) : PExpr Q := mono_from 1%positive v.

(* sum_i  m(x_i) * N_i  as an expression *)
Fixpoint interp_expr (vals : list (PExpr Q)) (Ns : list (PExpr Q)) : PExpr Q :=
  match vals, Ns with
  | v :: vs, n :: ns => PEadd (PEmul v n) (interp_expr vs ns)
  | _, _ => PEO
  end.

Definition chk_reproduce (e : elem) : bool :=
  Nat.eqb (List.length (enodes e)) (List.length (eN e)) &&
  forallb (fun v =>
     pe_eqb (interp_expr (map (fun node => pe_subst (pt_sub node) (mono v)) (enodes e)) (eN e)) (mono v))
   (exps (edim e) (eorder e)).

Fixpoint Rinterp (vals : list R) (Ns : list R) : R :=
  match vals, Ns with
  | v :: vs, n :: ns => (v * n + Rinterp vs ns)%R
  | _, _ => 0%R
  end.

Lemma Reval_interp l : forall vals Ns,
  Reval l (interp_expr vals Ns) = Rinterp (map (Reval l) vals) (map (Reval l) Ns).
Proof.
  induction vals as [|v vs IH]; intros [|n ns]; simpl; try reflexivity.
  unfold Reval in *. simpl. now rewrite IH.
Qed.

(* For every exponent vector v of total degree <= order:
   sum_i m_v(x_i) N_i(xi) = m_v(xi) at every point xi; by linearity every polynomial of
   degree <= order is reproduced. *)
Theorem reproduce_sound e : chk_reproduce e = true ->
  forall v, List.length v = edim e -> (fold_right Nat.add 0%nat v <= eorder e)%nat ->
  forall l : list R,
    Rinterp (map (fun node => Reval (map Q2R node) (mono v)) (enodes e)) (map (Reval l) (eN e))
    = Reval l (mono v).
Proof.
  intros H v Hl Hd l. unfold chk_reproduce in H. apply andb_true_iff in H as [_ H].
  pose proof (forallb_In _ _ H v (exps_complete _ _ _ Hl Hd)) as H1. simpl in H1.
  apply (Qnorm_sound l) in H1. rewrite Reval_interp in H1. rewrite <- H1.
  f_equal. rewrite map_map. apply map_ext. intro node.
  rewrite Reval_subst. unfold pt_sub. rewrite map_map. reflexivity.
Qed.

(* ---------- derivative tables ---------- *)
(* table k+1, column d must be the formal d-th partial derivative of table k, column d
   (the code tabulates pure derivatives only; _N has one column used for every d). *)
Definition col {A} (d : nat) (row : list A) (dflt : A) : A := nth d row dflt.

Definition chk_rows_deriv (first : bool) (prev next : list (list (PExpr Q))) (dim : nat) : bool :=
  Nat.eqb (List.length prev) (List.length next) &&
  forallb_i (fun i rownext =>
     Nat.eqb (List.length rownext) dim &&
     forallb_i (fun d en =>
        let ep := col (if first then 0 else d) (nth i prev []) PEO in
        pe_eqb en (pd (Pos.of_nat (S d)) ep)) 0 rownext) 0 next.

Definition Ncols (e : elem) : list (list (PExpr Q)) := map (fun n => [n]) (eN e).

Definition chk_deriv_tables (e : elem) : bool :=
  match edN e, eddN e, edddN e, eddddN e with
  | Some d1, Some d2, Some d3, Some d4 =>
      chk_rows_deriv true (Ncols e) d1 (edim e) && chk_rows_deriv false d1 d2 (edim e) &&
      chk_rows_deriv false d2 d3 (edim e) && chk_rows_deriv false d3 d4 (edim e)
  | _, _, _, _ => false
  end.

Theorem rows_deriv_sound first prev next dim : chk_rows_deriv first prev next dim = true ->
  forall i d rown en, nth_error next i = Some rown -> nth_error rown d = Some en ->
  forall l : list R,
    Reval l en = Reval l (pd (Pos.of_nat (S d)) (col (if first then 0%nat else d) (nth i prev []) PEO)).
Proof.
  intros H i d rown en Hi Hd l. unfold chk_rows_deriv in H.
  apply andb_true_iff in H as [_ H].
  pose proof (forallb_i_nth _ _ _ H _ _ Hi) as H1. simpl in H1.
  apply andb_true_iff in H1 as [_ H1].
  pose proof (forallb_i_nth _ _ _ H1 _ _ Hd) as H2. simpl in H2.
  now apply Qnorm_sound.
Qed.

Definition deriv_tables_spec (e : elem) : Prop :=
  exists d1 d2 d3 d4, edN e = Some d1 /\ eddN e = Some d2 /\ edddN e = Some d3 /\ eddddN e = Some d4 /\
  forall (l : list R) i d,
   (forall row en, nth_error d1 i = Some row -> nth_error row d = Some en ->
      Reval l en = Reval l (pd (Pos.of_nat (S d)) (col 0 (nth i (Ncols e) []) PEO))) /\
   (forall row en, nth_error d2 i = Some row -> nth_error row d = Some en ->
      Reval l en = Reval l (pd (Pos.of_nat (S d)) (col d (nth i d1 []) PEO))) /\
   (forall row en, nth_error d3 i = Some row -> nth_error row d = Some en ->
      Reval l en = Reval l (pd (Pos.of_nat (S d)) (col d (nth i d2 []) PEO))) /\
   (forall row en, nth_error d4 i = Some row -> nth_error row d = Some en ->
      Reval l en = Reval l (pd (Pos.of_nat (S d)) (col d (nth i d3 []) PEO))).

Theorem deriv_tables_sound e : chk_deriv_tables e = true -> deriv_tables_spec e.
Proof.
  unfold chk_deriv_tables, deriv_tables_spec. intro H.
  destruct (edN e) as [d1|]; [|discriminate]. destruct (eddN e) as [d2|]; [|discriminate].
  destruct (edddN e) as [d3|]; [|discriminate]. destruct (eddddN e) as [d4|]; [|discriminate].
  apply andb_true_iff in H as [H H4]. apply andb_true_iff in H as [H H3].
  apply andb_true_iff in H as [H1 H2].
  exists d1, d2, d3, d4. repeat (split; [reflexivity|]).
  intros l i d. repeat split; intros row en Hr Hn.
  - exact (rows_deriv_sound true _ _ _ H1 i d row en Hr Hn l).
  - exact (rows_deriv_sound false _ _ _ H2 i d row en Hr Hn l).
  - exact (rows_deriv_sound false _ _ _ H3 i d row en Hr Hn l).
  - exact (rows_deriv_sound false _ _ _ H4 i d row en Hr Hn l).
Qed.

(* ---------- shape / totality ---------- *)
Definition chk_shape (e : elem) : bool :=
  Nat.eqb (List.length (eN e)) (enPe e) && Nat.eqb (List.length (enodes e)) (enPe e) &&
  forallb (fun nd => Nat.eqb (List.length nd) (edim e)) (enodes e).

Definition chk_elem (e : elem) : bool :=
  chk_shape e && chk_kronecker e && chk_pou e && chk_reproduce e && chk_deriv_tables e.

(* diagnostic: names of the failing checks per element (printed by the driver on failure) *)
Definition diag (e : elem) : string * list (string * bool) :=
  (ename e, [("shape", chk_shape e); ("kronecker", chk_kronecker e); ("pou", chk_pou e);
             ("reproduce", chk_reproduce e); ("deriv", chk_deriv_tables e)]%string).
