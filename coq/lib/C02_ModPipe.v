(* C02_ModPipe.v — the element pipeline of EasyFEA evaluated modulo the prime p = 2^31 - 1 on
   translated shape tables, dumped quadrature points and rational node coordinates:
     F = dN_pg @ coord_e,  invF = adj(F)/det(F)  (dims 1..3, same closed forms as _linalg.Inv),
     dN_e_pg = invF @ dN_pg,  strain rows as in Get_B_e_pg (shear rows scaled by sqrt 2, i.e.
     without the Kelvin-Mandel factor c = 1/sqrt 2: a non-zero row scaling, same kernel),
   scattered to the union dofs of a small patch; rank via EFLib.ModRank.
   Every entry is the reduction mod p of the exact rational entry (all denominators are checked
   to be non-zero mod p, else the result is None).  The rank modulo p is a LOWER bound of the
   rational rank (a minor non-zero mod p is non-zero over Q) — number theory not formalised
   here; upper bounds come from theorems over R (rigid modes in the kernel) or from the row
   count.  Independent of /repo. *)
From Coq Require Import QArith ZArith List Bool Uint63 Ring_polynom String Arith.
From EFLib Require Import PolyQ ElemDefs QuadDefs ModRank.
Import ListNotations.
Open Scope uint63_scope.

Definition omap {A B} (f : A -> option B) (l : list A) : option (list B) := all_some (map f l).
Definition obind {A B} (o : option A) (f : A -> option B) : option B :=
  match o with Some a => f a | None => None end.

Definition dotm (a b : list int) : int :=
  fold_left (fun s xy => madd s (mmul (fst xy) (snd xy))) (combine a b) 0.
Fixpoint transp (ncols : nat) (m : list (list int)) : list (list int) :=
  match ncols with O => [] | S k => map (hd 0) m :: transp k (map (@tl int) m) end.
(* A (r x k) times B (k x c), B given by its columns *)
Definition matmul_cols (A Bcols : list (list int)) : list (list int) :=
  map (fun ra => map (fun cb => dotm ra cb) Bcols) A.

Definition mneg (a : int) : int := msub 0 a.

(* inverse of a dim x dim matrix mod p by adjugate / determinant (dim 1..3) *)
Definition inv_mod (m : list (list int)) : option (list (list int)) :=
  match m with
  | [[a]] => if (a =? 0) then None else Some [[minv a]]
  | [[a; b]; [c; d]] =>
      let det := msub (mmul a d) (mmul c b) in
      if (det =? 0) then None else
      let k := minv det in
      Some [[mmul k d; mmul k (mneg b)]; [mmul k (mneg c); mmul k a]]
  | [[a; b; c]; [d; e; f]; [g; h; i]] =>
      let c00 := msub (mmul e i) (mmul f h) in
      let c01 := msub (mmul d i) (mmul f g) in
      let c02 := msub (mmul d h) (mmul e g) in
      let det := madd (msub (mmul a c00) (mmul b c01)) (mmul c c02) in
      if (det =? 0) then None else
      let k := minv det in
      let c10 := msub (mmul b i) (mmul c h) in
      let c11 := msub (mmul a i) (mmul c g) in
      let c12 := msub (mmul a h) (mmul b g) in
      let c20 := msub (mmul b f) (mmul c e) in
      let c21 := msub (mmul a f) (mmul c d) in
      let c22 := msub (mmul a e) (mmul b d) in
      Some [[mmul k c00; mmul k (mneg c10); mmul k c20];
            [mmul k (mneg c01); mmul k c11; mmul k (mneg c21)];
            [mmul k c02; mmul k (mneg c12); mmul k c22]]
  | _ => None
  end.

Example inv_mod_ex3 :
  match inv_mod [[2;1;0];[1;3;1];[0;1;4]] with
  | Some iv => matmul_cols iv (transp 3 [[2;1;0];[1;3;1];[0;1;4]]) | None => [] end
  = [[1;0;0];[0;1;0];[0;0;1]].
Proof. vm_compute. reflexivity. Qed.
Example inv_mod_ex2 :
  match inv_mod [[2;1];[5;3]] with
  | Some iv => matmul_cols iv (transp 2 [[2;1];[5;3]]) | None => [] end = [[1;0];[0;1]].
Proof. vm_compute. reflexivity. Qed.

(* reference derivative samples at one point: dim rows, nPe columns *)
Definition dn_at (e : elem) (pt : list int) : option (list (list int)) :=
  match edN e with
  | Some dn => omap (fun d => omap (fun row => eval_mod pt (nth d row PEO)) dn) (seq 0 (edim e))
  | None => None
  end.
Definition n_at (e : elem) (pt : list int) : option (list int) := omap (eval_mod pt) (eN e).

(* physical gradients at one point for element coordinates Xe (nPe rows, dim columns) *)
Definition gphys_at (e : elem) (Xe : list (list int)) (pt : list int) : option (list (list int)) :=
  obind (dn_at e pt) (fun dn =>
    let F := matmul_cols dn (transp (edim e) Xe) in
    obind (inv_mod F) (fun iF => Some (matmul_cols iF (transp (enPe e) dn)))).

(* local rows as per-node chunks *)
Definition zeros (n : nat) : list int := repeat 0 n.
Definition rows_thermal (g : list (list int)) : list (list (list int)) :=
  map (fun gk => map (fun x => [x]) gk) g.
Definition zip3 (a b c : list int) : list (int * int * int) := combine (combine a b) c.
Definition rows_elastic (dim : nat) (g : list (list int)) : list (list (list int)) :=
  match dim, g with
  | 2%nat, [gx; gy] =>
      let xy := combine gx gy in
      [ map (fun t => [fst t; 0]) xy;
        map (fun t => [0; snd t]) xy;
        map (fun t => [snd t; fst t]) xy ]
  | 3%nat, [gx; gy; gz] =>
      let t3 := zip3 gx gy gz in
      [ map (fun t => [fst (fst t); 0; 0]) t3;
        map (fun t => [0; snd (fst t); 0]) t3;
        map (fun t => [0; 0; snd t]) t3;
        map (fun t => [0; snd t; snd (fst t)]) t3;
        map (fun t => [snd t; 0; fst (fst t)]) t3;
        map (fun t => [snd (fst t); fst (fst t); 0]) t3 ]
  | _, _ => []
  end.

Fixpoint index_of (n : nat) (l : list nat) (k : nat) : option nat :=
  match l with [] => None | x :: r => if Nat.eqb x n then Some k else index_of n r (S k) end.
(* scatter a chunked local row to Nn global nodes with dpn dofs per node *)
Definition scatter_row (dpn Nn : nat) (conn : list nat) (chunks : list (list int)) : list int :=
  flat_map (fun n => match index_of n conn 0 with
                     | Some i => nth i chunks (zeros dpn)
                     | None => zeros dpn end) (seq 0 Nn).

Inductive kind := Thermal | Elastic.
Definition dpn_of (k : kind) (dim : nat) : nat := match k with Thermal => 1%nat | Elastic => dim end.

Record patch := { pcoords : list (list Q); pconn : list (list nat) }.

Definition coords_mod (c : list (list Q)) : option (list (list int)) := omap (omap of_Qp) c.
Definition pts_mod (r : rule) : option (list (list int)) := omap (omap of_Qp) (rpts r).

(* all global strain (gradient) sample rows of the patch *)
Definition patch_rows (k : kind) (e : elem) (r : rule) (pa : patch) : option (list (list int)) :=
  obind (coords_mod (pcoords pa)) (fun X =>
  obind (pts_mod r) (fun pts =>
    let Nn := List.length X in
    let dpn := dpn_of k (edim e) in
    option_map (@List.concat _) (omap (fun conn =>
      let Xe := map (fun n => nth n X []) conn in
      option_map (@List.concat _) (omap (fun pt =>
        option_map (fun g =>
           map (scatter_row dpn Nn conn)
               (match k with Thermal => rows_thermal g | Elastic => rows_elastic (edim e) g end))
          (gphys_at e Xe pt)) pts)) (pconn pa)))).

Definition patch_rank (k : kind) (e : elem) (r : rule) (pa : patch) : option nat :=
  option_map rank_mod (patch_rows k e r pa).
Definition patch_nrows (k : kind) (e : elem) (r : rule) (pa : patch) : option nat :=
  option_map (@List.length _) (patch_rows k e r pa).
Definition patch_ndof (k : kind) (e : elem) (pa : patch) : nat :=
  (List.length (pcoords pa) * dpn_of k (edim e))%nat.
Definition n_rigid (k : kind) (dim : nat) : nat :=
  match k, dim with Thermal, _ => 1 | Elastic, 1 => 1 | Elastic, 2 => 3 | Elastic, _ => 6 end%nat.

(* the reference-shaped single element *)
Definition ref_patch (e : elem) : patch := {| pcoords := enodes e; pconn := [seq 0 (enPe e)] |}.

(* patch sanity: connectivity indices in range, one entry per element node, distinct nodes
   within an element; nodes shared by all elements counted *)
Definition chk_patch (e : elem) (pa : patch) : bool :=
  forallb (fun nd => Nat.eqb (List.length nd) (edim e)) (pcoords pa) &&
  forallb (fun conn => Nat.eqb (List.length conn) (enPe e) &&
                       forallb (fun n => Nat.ltb n (List.length (pcoords pa))) conn &&
                       Nat.eqb (List.length (nodup Nat.eq_dec conn)) (enPe e)) (pconn pa).
Definition n_shared (pa : patch) : nat :=
  match pconn pa with
  | c1 :: c2 :: _ => List.length (filter (fun n => existsb (Nat.eqb n) c2) c1)
  | _ => 0%nat end.

(* N-sample matrix of a rule: rows = points, columns = nodes *)
Definition nsample_rows (e : elem) (r : rule) : option (list (list int)) :=
  obind (pts_mod r) (fun pts => omap (n_at e) pts).
Definition nsample_rank (e : elem) (r : rule) : option nat := option_map rank_mod (nsample_rows e r).

Definition weights_pos (r : rule) : bool := forallb (fun w => negb (Qle_bool w 0)) (rw r).
Lemma weights_pos_spec r : weights_pos r = true -> forall w, In w (rw r) -> (0 < w)%Q.
Proof.
  unfold weights_pos. intros H w Hw. rewrite forallb_forall in H. specialize (H w Hw).
  apply negb_true_iff in H. destruct (Qlt_le_dec 0 w) as [Hl|Hl]; [exact Hl|].
  apply Qle_bool_iff in Hl. congruence.
Qed.
