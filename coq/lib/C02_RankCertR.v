(* C02_RankCertR.v — exact certificate over Z for the exact rational sample matrices of
   EFLib.C02_RankCert and the resulting statement over the REALS (EFLib.C02_RankR): rows and pinned
   dofs are chosen by the untrusted modular elimination, L and d by the untrusted Bareiss elimination;
   the check  L * A_Z = d * I  is exact.  Independent of /repo. *)
From Coq Require Import QArith ZArith Reals List Bool Uint63 Arith Lia.
From EFLib Require Import ModRank C02_ModPipe C02_RankQ C02_RankCert C02_RankR.
Import ListNotations.

Record certR := { r_sel : list nat; r_S : list nat; r_ds : list Z; r_AZ : list (list Z); r_d : Z; r_L : list (list Z) }.

Definition build_certR (n : nat) (G : list (list Q)) : option certR :=
  obind (omap (omap of_Qp) G) (fun Gp =>
    let '(sel, piv) := greedy Gp 0 [] [] in
    let S := filter (fun j => negb (existsb (Nat.eqb j) piv)) (seq 0 n) in
    let sc := map scale_rowZ (pinned_system n G sel S) in
    let AZ := map snd sc in
    match exact_inverseB n AZ with
    | Some (d, L) => Some {| r_sel := sel; r_S := S; r_ds := map fst sc; r_AZ := AZ; r_d := d; r_L := L |}
    | None => None
    end).

Definition full_checkR (n nfree : nat) (G : list (list Q)) : bool :=
  match build_certR n G with
  | Some c =>
      Nat.eqb (List.length (r_S c)) nfree &&
      forallb (fun i => Nat.ltb i (List.length G)) (r_sel c) && forallb (fun s => Nat.ltb s n) (r_S c) &&
      chk_exactinv (r_d c) n (r_L c) (r_AZ c) &&
      chk_scaling (r_ds c) (r_AZ c) (pinned_system n G (r_sel c) (r_S c))
  | None => false
  end.
Definition pinned_ofR (n : nat) (G : list (list Q)) : list nat :=
  match build_certR n G with Some c => r_S c | None => [] end.

(* every REAL vector annihilated by all exact sample rows and vanishing on the pinned dofs is zero *)
Theorem full_checkR_sound (n nfree : nat) (G : list (list Q)) : full_checkR n nfree G = true ->
  List.length (pinned_ofR n G) = nfree /\
  forall x : list R, List.length x = n -> (forall rq, In rq G -> dotRQ rq x = 0%R) ->
    (forall s, In s (pinned_ofR n G) -> nth s x 0%R = 0%R) -> Forall (fun xk => xk = 0%R) x.
Proof.
  unfold full_checkR, pinned_ofR. destruct (build_certR n G) as [c|]; [|discriminate]. intro H.
  repeat (apply andb_true_iff in H as [H ?]). apply Nat.eqb_eq in H. split; [exact H|].
  intros x Hx HG Hpin.
  eapply (pinned_real_kernel_trivial (r_d c) n (r_L c) (r_AZ c) (r_ds c) G (r_sel c) (r_S c)); eauto.
Qed.
